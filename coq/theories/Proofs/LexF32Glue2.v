(* Proofs/LexF32Glue2.v — float_roundtrip build, f32 targets: the number parser with the lexical ALGORITHM in it
   (Proofs/LexF32Glue.parse_integer_a) returns, on EVERY input, what the parser of Model/NumF32.v returns with the
   SPECIFICATION in it (parse_integer_s: the literal's exact value rounded once to binary32).

     parse_integer_glue      forall E positive s, numspan (rest s) <= 10^8 -> parse_integer_a E positive s = parse_integer_s E positive s
                             (any reader kind, any end-of-input behaviour, any bytes: ill-formed input fails alike; the bound is on the
                              digits of the integer and fraction parts the parser would read)
     C07_f32_glue_spec       the literal-level form, in the vocabulary of Proofs/LexGlue.v (numlit, num_ok, fw, size bound on the literal)
     C07_f32_glue_value      ... spelled out: which arguments reach lexical for a float-syntax literal is irrelevant, the result is
                             the oracle's value of (lit_value n), sign applied after widening, NumberOutOfRange iff it is infinite
     deserialize_f32_glue    Model/DeTyped.deserialize_f32 (the f32 request of the typed model) = the same request with the algorithm in it
     from_input_typed_f32_glue   ... for a whole input of type f32

   Method: the two parsers are one generic parser (LexF32Glue.Gen) with different float back ends; they can only differ
   where a back end is called, and at every call site the arguments are shown to satisfy the preconditions of the
   function-level theorems of part 1 (short_agree / long_agree / negint_agree). *)
From Coq Require Import ZArith NArith Lia List Bool ZifyBool ZifyNat ZifyN.
From Flocq Require Import Core BinarySingleNaN.
From SJ Require Import Base.Bytes Base.FloatB Gen.Tables Gen.LexTables Model.Read Model.Num Model.Lex Model.NumF32 Model.De Model.Ty Model.DeTyped.
From SJ Require Import Spec.Syntax Spec.Denote.
From SJ Require Import Proofs.GrammarNum Proofs.LexGlue Proofs.LexFull Proofs.LexF32Glue.
Import ListNotations.
Open Scope N_scope.
Set Warnings "-abstract-large-number".

Notation dspan := (span_len is_digit).
Notation zlen l := (Z.of_nat (length l)).

(* ================================================================================================ *)
(** * 1. lists, spans, the two digit loops (no assumption on the bytes) *)
Lemma span_le_length : forall l, (dspan l <= length l)%nat.
Proof. induction l as [|c l IH]; cbn [span_len length]; [lia|]. destruct (is_digit c); lia. Qed.

Lemma span_digs : forall l n, (n <= dspan l)%nat -> digs (firstn n l).
Proof.
  induction l as [|c l IH]; intros n Hn; cbn [span_len] in Hn.
  - assert (n = O) by lia. subst n. reflexivity.
  - destruct n as [|n]; [reflexivity|]. destruct (is_digit c) eqn:Hc; [|lia].
    cbn [firstn]. apply digs_cons. split; [exact Hc|]. apply IH. lia.
Qed.

Lemma span_skipn : forall l n, (n <= dspan l)%nat -> dspan (skipn n l) = (dspan l - n)%nat.
Proof.
  induction l as [|c l IH]; intros n Hn; cbn [span_len] in *.
  - assert (n = O) by lia. subst n. reflexivity.
  - destruct n as [|n]; [cbn [skipn span_len]; lia|]. destruct (is_digit c) eqn:Hc; [|lia].
    cbn [skipn]. rewrite IH by lia. lia.
Qed.

Lemma skipn_add : forall (l : bytes) a b, skipn a (skipn b l) = skipn (b + a) l.
Proof.
  intros l a b. revert l. induction b as [|b IH]; intros l; [reflexivity|].
  destruct l as [|x l]; [destruct a; reflexivity|]. cbn [skipn Nat.add]. apply IH.
Qed.

Lemma firstn_len_le : forall (l : bytes) n, (n <= length l)%nat -> length (firstn n l) = n.
Proof. intros l n H. apply firstn_length_le. exact H. Qed.

(* the significand loop: stops inside the run of digits; an overflow stop leaves a large significand *)
Lemma sig_loop_any : forall l sg n sg' ov, sg < two64 -> sig_loop l sg = (n, sg', ov) ->
  sg' < two64 /\ (n <= dspan l)%nat /\ (ov = false -> n = dspan l) /\ (ov = true -> 0 < sg').
Proof.
  induction l as [|c l IH]; intros sg n sg' ov Hsg H; cbn [sig_loop] in H.
  - injection H as <- <- <-. cbn [span_len]. repeat split; try lia; try discriminate; exact Hsg.
  - cbn [span_len]. destruct (is_digit c) eqn:Hc.
    + pose proof (digit_val_lt c Hc) as Hlt. rewrite (overflow_u64_spec _ _ Hlt) in H.
      destruct (u64_max <? sg * 10 + digit_val c) eqn:Hov.
      * injection H as <- <- <-. split; [exact Hsg|]. split; [apply Nat.le_0_l|]. split; [discriminate|].
        intros _. unfold u64_max in Hov. clear - Hov Hlt. lia.
      * destruct (sig_loop l (mul10add sg (digit_val c))) as [[n1 sg1] ov1] eqn:H1.
        injection H as <- <- <-.
        destruct (IH _ _ _ _ (mul10add_lt _ _) H1) as (Ha & Hb & Hc' & Hd').
        split; [exact Ha|]. split; [lia|]. split; [intros Hf; rewrite (Hc' Hf); reflexivity|exact Hd'].
    + injection H as <- <- <-. repeat split; try lia; try discriminate; exact Hsg.
Qed.

(* the exponent loop: without overflow the value fits i32 *)
Lemma exp_loop_any : forall l ex n e, ex <= i32_max -> exp_loop l ex = (n, e, false) -> e <= i32_max.
Proof.
  induction l as [|c l IH]; intros ex n e Hex H; cbn [exp_loop] in H.
  - injection H as _ <-. exact Hex.
  - destruct (is_digit c) eqn:Hc.
    + pose proof (digit_val_lt c Hc) as Hlt. rewrite (overflow_i32_spec _ _ Hlt) in H.
      destruct (i32_max <? ex * 10 + digit_val c) eqn:Hov; [discriminate H|].
      destruct (exp_loop l (ex * 10 + digit_val c)) as [[n1 e1] ov1] eqn:H1.
      injection H as _ <- ->. assert (Hle : ex * 10 + digit_val c <= i32_max) by lia. apply (IH _ _ _ Hle H1).
    + injection H as _ <-. exact Hex.
Qed.

(* ---- the reader primitives keep [rest] ---- *)
Lemma pon_rest : forall E s c s1, peek_or_null E s = Ok (c, s1) -> rest s1 = rest s /\ c = hd 0 (rest s).
Proof.
  intros E s c s1 H. unfold peek_or_null, peek in H. destruct (rest s) as [|b r] eqn:Hr.
  - unfold at_end in H. destruct (tm E); cbn [bind] in H; [|discriminate H]. injection H as <- <-. split; reflexivity.
  - cbn [bind] in H. injection H as <- <-. split; reflexivity.
Qed.

Lemma next_rest : forall E s c s1, next E s = Ok (Some c, s1) -> rest s = c :: rest s1.
Proof.
  intros E s c s1 H. unfold next in H. destruct (rest s) as [|b r] eqn:Hr.
  - unfold at_end in H. destruct (tm E); discriminate H.
  - injection H as <- <-. reflexivity.
Qed.

Lemma exponent_front_bound : forall E s pe e s1, exponent_front E s = Ok (pe, (e, false), s1) -> e <= i32_max.
Proof.
  intros E s pe e s1 H. unfold exponent_front in H. cbv zeta in H.
  destruct (peek_or_null E (discard s)) as [[c s0]| | |]; cbn [bind] in H; try discriminate H.
  destruct (if c =? 43 then (true, discard s0) else if c =? 45 then (false, discard s0) else (true, s0)) as [pe0 s2].
  destruct (next E s2) as [[[c1|] s3]| | |]; cbn [bind] in H; try discriminate H.
  destruct (is_digit c1) eqn:Hc1; [|discriminate H].
  destruct (exp_loop (rest s3) (digit_val c1)) as [[n e0] ov] eqn:Hl.
  injection H as _ <- -> _.
  assert (H9 : digit_val c1 <= i32_max) by (pose proof (digit_val_lt c1 Hc1); unfold i32_max; lia).
  apply (exp_loop_any _ _ _ _ H9 Hl).
Qed.

(* ================================================================================================ *)
(** * 2. two instances of the generic parser whose back ends agree on the reachable arguments *)
Definition lead (i : bytes) : Prop := i = [] \/ hd 0 i <> 48.
(* what is known of the scratch buffer (integer, fraction) when the long path hands it to lexical *)
Definition long_base (i f : bytes) : Prop :=
  digs i /\ digs f /\ lead i /\ (zlen i + zlen f <= 200000000)%Z /\ 0 < nval (i ++ f) 0.

Lemma long_base_ok : forall i f e, long_base i f -> (-2147483648 <= e <= 2147483647)%Z -> long_ok i f e.
Proof.
  intros i f e (Hi & Hf & Hl & Hlen & Hpos) He. unfold long_ok.
  split; [exact Hi|]. split; [exact Hf|]. split; [exact Hl|]. split; [exact He|]. split; [exact Hlen|].
  destruct (strip_value i f) as (k & _ & Hv & _). rewrite digits_val_N.
  destruct (N.eq_dec (nval (i ++ strip_trailing_zeros f) 0) 0) as [H0|H0]; [|lia].
  rewrite H0, N.mul_0_l in Hv. lia.
Qed.

(* the fraction digits that follow a '.' *)
Definition fsp (l : bytes) : Z := match l with c :: l2 => if c =? 46 then Z.of_nat (dspan l2) else 0%Z | [] => 0%Z end.
(* the digits parse_integer can put into the scratch buffer: the integer digits after the first, and the fraction digits *)
Definition numspan (l : bytes) : Z := (Z.of_nat (dspan (tl l)) + fsp (skipn (dspan (tl l)) (tl l)))%Z.

Lemma fsp_dot : forall l c, c = hd 0 l -> (c =? 46) = true -> exists l2, l = 46 :: l2 /\ fsp l = Z.of_nat (dspan l2).
Proof.
  intros l c -> H. destruct (hd_eqb_cons l 46 ltac:(discriminate) H) as (l2 & ->).
  exists l2. split; [reflexivity|]. reflexivity.
Qed.

Lemma nval_app_pos : forall a b, 0 < nval a 0 -> 0 < nval (a ++ b) 0.
Proof.
  intros a b H. rewrite nval_app2. pose proof (nval_ge b (nval a 0)) as Hge.
  assert (Hp : 0 < 10 ^ N.of_nat (length b)) by (apply N.neq_0_lt_0, N.pow_nonzero; discriminate).
  set (P := 10 ^ N.of_nat (length b)) in *. nia.
Qed.

(* the scratch buffer rebuilt by parse_decimal_overflow *)
Lemma scratch_facts : forall (sg : N) (fd : nat), 0 < sg -> sg < two64 ->
  let sd := itoa sg in
  let scratch := (if Nat.leb (S (length sd)) fd then repeat 48 (S (fd - S (length sd))) else []) ++ sd in
  let ie := (length scratch - fd)%nat in
  digs (firstn ie scratch) /\ digs (skipn ie scratch) /\ lead (firstn ie scratch) /\
  nval (firstn ie scratch ++ skipn ie scratch) 0 = sg /\
  (zlen (firstn ie scratch) + zlen (skipn ie scratch) <= Z.of_nat fd + 40)%Z.
Proof.
  intros sg fd Hpos Hsg sd scratch ie.
  destruct (itoa_facts sg Hpos Hsg) as (Hd & Hv & Hhd & Hlen). fold sd in Hd, Hv, Hhd, Hlen.
  set (zs := if Nat.leb (S (length sd)) fd then repeat 48 (S (fd - S (length sd))) else []) in *.
  assert (Hzs : allz zs) by (unfold zs; destruct (Nat.leb _ _); [apply allz_repeat|intros x []]).
  assert (Hds : digs scratch) by (apply digs_app; split; [apply allz_digs, Hzs|exact Hd]).
  assert (Hsplit : firstn ie scratch ++ skipn ie scratch = scratch) by apply firstn_skipn.
  split; [rewrite <- Hsplit in Hds; apply digs_app in Hds; apply Hds|].
  split; [rewrite <- Hsplit in Hds; apply digs_app in Hds; apply Hds|].
  split; [|split].
  - unfold lead, ie, scratch, zs. destruct (Nat.leb_spec (S (length sd)) fd) as [Hle|Hgt].
    + left. rewrite app_length, repeat_length. replace (S (fd - S (length sd)) + length sd - fd)%nat with O by lia. reflexivity.
    + cbn [app]. destruct (length sd - fd)%nat as [|j]; [left; reflexivity|].
      destruct sd as [|x sd']; [left; reflexivity|]. right. exact Hhd.
  - rewrite Hsplit. unfold scratch. rewrite nval_app2, (nval_zeros zs 0 Hzs), N.mul_0_l.
    rewrite digits_val_N in Hv. lia.
  - rewrite <- Nat2Z.inj_add, <- app_length, Hsplit. unfold scratch, zs. rewrite app_length.
    destruct (Nat.leb_spec (S (length sd)) fd) as [Hle|Hgt]; [rewrite repeat_length|cbn [length]]; lia.
Qed.

Section Agree.
Variables short1 short2 : env -> bool -> N -> Z -> st -> res (b64 * st).
Variables long1 long2 : env -> bool -> bytes -> bytes -> Z -> st -> res (b64 * st).
Variables neg1 neg2 : N -> b64.
Hypothesis HS : forall E positive sig e s, sig < two64 -> short1 E positive sig e s = short2 E positive sig e s.
Hypothesis HL : forall E positive i f e s, long_ok i f e -> long1 E positive i f e s = long2 E positive i f e s.
Hypothesis HN : forall sig, sig < two64 -> neg1 sig = neg2 sig.

Lemma exponent_agree : forall E positive sig se s, sig < two64 ->
  parse_exponent_g short1 E positive sig se s = parse_exponent_g short2 E positive sig se s.
Proof using All.
  intros E positive sig se s Hsig. unfold parse_exponent_g.
  destruct (exponent_front E s) as [[[pe [e ov]] s1]|c i| |]; cbn [bind]; try reflexivity.
  destruct ov; [reflexivity|].
  destruct (peek_or_null E s1) as [[c s2]|c i| |]; cbn [bind]; try reflexivity.
  apply HS. exact Hsig.
Qed.

Lemma long_exponent_agree : forall E positive i f s, long_base i f ->
  parse_long_exponent_g long1 E positive i f s = parse_long_exponent_g long2 E positive i f s.
Proof using All.
  intros E positive i f s Hb. unfold parse_long_exponent_g.
  destruct (exponent_front E s) as [[[pe [e ov]] s1]|c i0| |] eqn:Hf; cbn [bind]; try reflexivity.
  destruct ov; [reflexivity|].
  pose proof (exponent_front_bound E s pe e s1 Hf) as He. unfold i32_max in He.
  destruct (peek_or_null E s1) as [[c s2]|c i0| |]; cbn [bind]; try reflexivity.
  apply HL. apply long_base_ok; [exact Hb|]. destruct pe; lia.
Qed.

Lemma long_decimal_agree : forall E positive i f0 s, digs i -> digs f0 -> lead i -> 0 < nval (i ++ f0) 0 ->
  (zlen i + zlen f0 + Z.of_nat (dspan (rest s)) <= 200000000)%Z ->
  parse_long_decimal_g long1 E positive i f0 s = parse_long_decimal_g long2 E positive i f0 s.
Proof using All.
  intros E positive i f0 s Hi Hf0 Hl Hpos Hlen. unfold parse_long_decimal_g. cbv zeta.
  set (n := dspan (rest s)) in *.
  assert (Hb : long_base i (f0 ++ firstn n (rest s))).
  { split; [exact Hi|]. split; [apply digs_app; split; [exact Hf0|apply span_digs; unfold n; lia]|].
    split; [exact Hl|]. split.
    - rewrite app_length, firstn_len_le by (unfold n; apply span_le_length). lia.
    - rewrite app_assoc. apply nval_app_pos. exact Hpos. }
  destruct (peek_or_null E (advance n s)) as [[c s1]|c i0| |]; cbn [bind]; try reflexivity.
  destruct (f0 ++ firstn n (rest s)) as [|x fr]; [reflexivity|].
  destruct ((c =? 101) || (c =? 69)).
  - apply long_exponent_agree. exact Hb.
  - apply HL. apply long_base_ok; [exact Hb|lia].
Qed.

Lemma decimal_overflow_agree : forall E positive sg e s, 0 < sg -> sg < two64 -> (e <= 0)%Z ->
  (- e + 40 + Z.of_nat (dspan (rest s)) <= 200000000)%Z ->
  parse_decimal_overflow_g long1 E positive sg e s = parse_decimal_overflow_g long2 E positive sg e s.
Proof using All.
  intros E positive sg e s Hpos Hsg He Hlen. unfold parse_decimal_overflow_g. cbv zeta.
  destruct (scratch_facts sg (Z.to_nat (- e)) Hpos Hsg) as (H1 & H2 & H3 & H4 & H5). cbv zeta in H1, H2, H3, H4, H5.
  apply long_decimal_agree; try assumption.
  - rewrite H4. exact Hpos.
  - rewrite Z2Nat.id in H5 by lia. lia.
Qed.

Lemma decimal_agree : forall E positive sig s, sig < two64 ->
  (Z.of_nat (dspan (tl (rest s))) + 80 <= 200000000)%Z ->
  parse_decimal_g short1 long1 E positive sig 0 s = parse_decimal_g short2 long2 E positive sig 0 s.
Proof using All.
  intros E positive sig s Hsig Hlen. unfold parse_decimal_g. cbv zeta. cbn [discard rest].
  destruct (sig_loop (tl (rest s)) sig) as [[n sg] ov] eqn:Hsl.
  destruct (sig_loop_any _ _ _ _ _ Hsig Hsl) as (Hsg & Hn & Hfull & Hpos).
  destruct (peek_or_null E (advance n (discard s))) as [[c s1]|c i0| |] eqn:Hp; cbn [bind]; try reflexivity.
  destruct (pon_rest _ _ _ _ Hp) as (Hr & _). cbn [advance discard rest] in Hr.
  destruct ov.
  - apply decimal_overflow_agree; [apply Hpos; reflexivity|exact Hsg|lia|].
    rewrite Hr, span_skipn by exact Hn. lia.
  - destruct (Nat.eqb n 0); [reflexivity|].
    destruct ((c =? 101) || (c =? 69)); [apply exponent_agree|apply HS]; exact Hsg.
Qed.

Lemma long_integer_agree : forall E positive sg s, 0 < sg -> sg < two64 ->
  (Z.of_nat (dspan (rest s)) + fsp (skipn (dspan (rest s)) (rest s)) + 40 <= 200000000)%Z ->
  parse_long_integer_g long1 E positive sg s = parse_long_integer_g long2 E positive sg s.
Proof using All.
  intros E positive sg s Hpos Hsg Hlen. unfold parse_long_integer_g. cbv zeta.
  set (n := dspan (rest s)) in *.
  destruct (itoa_facts sg Hpos Hsg) as (Hd & Hv & Hhd & Hl40).
  assert (Hne : itoa sg <> []).
  { intros Hnil. rewrite Hnil in Hv. cbn [digits_val] in Hv. lia. }
  set (integer := itoa sg ++ firstn n (rest s)).
  assert (Hdi : digs integer) by (apply digs_app; split; [exact Hd|apply span_digs; unfold n; lia]).
  assert (Hli : lead integer).
  { right. unfold integer. destruct (itoa sg) as [|x r]; [exfalso; apply Hne; reflexivity|exact Hhd]. }
  assert (Hpi : 0 < nval integer 0).
  { unfold integer. apply nval_app_pos. rewrite digits_val_N in Hv. lia. }
  assert (Hlen_i : (zlen integer <= 40 + Z.of_nat n)%Z).
  { unfold integer. rewrite app_length, firstn_len_le by (unfold n; apply span_le_length). lia. }
  assert (Hfs : (0 <= fsp (skipn n (rest s)))%Z).
  { unfold fsp. destruct (skipn n (rest s)) as [|c0 l2]; [lia|]. destruct (c0 =? 46); lia. }
  assert (Hb : long_base integer []).
  { split; [exact Hdi|]. split; [reflexivity|]. split; [exact Hli|]. split; [cbn [length]; lia|].
    rewrite app_nil_r. exact Hpi. }
  destruct (peek_or_null E (advance n s)) as [[c s1]|c i0| |] eqn:Hp; cbn [bind]; try reflexivity.
  destruct (pon_rest _ _ _ _ Hp) as (Hr & Hc). cbn [advance rest] in Hr, Hc.
  destruct (c =? 46) eqn:H46.
  - destruct (fsp_dot _ _ Hc H46) as (l2 & Hl2 & Hf2).
    apply long_decimal_agree; try assumption; try reflexivity.
    + rewrite app_nil_r. exact Hpi.
    + cbn [discard rest length]. rewrite Hr, Hl2. cbn [tl]. rewrite Hf2 in Hlen. lia.
  - destruct ((c =? 101) || (c =? 69)).
    + apply long_exponent_agree. exact Hb.
    + apply HL. apply long_base_ok; [exact Hb|lia].
Qed.

Lemma number_agree : forall E positive sig s, sig < two64 -> (fsp (rest s) + 80 <= 200000000)%Z ->
  parse_number_g short1 long1 neg1 E positive sig s = parse_number_g short2 long2 neg2 E positive sig s.
Proof using All.
  intros E positive sig s Hsig Hlen. unfold parse_number_g.
  destruct (peek_or_null E s) as [[c s1]|c i0| |] eqn:Hp; cbn [bind]; try reflexivity.
  destruct (pon_rest _ _ _ _ Hp) as (Hr & Hc).
  destruct (c =? 46) eqn:H46.
  - destruct (fsp_dot _ _ Hc H46) as (l2 & Hl2 & Hf2).
    rewrite (decimal_agree E positive sig s1 Hsig); [reflexivity|].
    rewrite Hr, Hl2. cbn [tl]. rewrite Hf2 in Hlen. lia.
  - destruct ((c =? 101) || (c =? 69)).
    + rewrite (exponent_agree E positive sig 0 s1 Hsig). reflexivity.
    + destruct positive; [reflexivity|]. cbv zeta. rewrite (HN sig Hsig). reflexivity.
Qed.

Theorem integer_agree : forall E positive s, (numspan (rest s) <= 100000000)%Z ->
  parse_integer_g short1 long1 neg1 E positive s = parse_integer_g short2 long2 neg2 E positive s.
Proof using All.
  intros E positive s Hlen. unfold parse_integer_g.
  destruct (next E s) as [[[c|] s1]|c i0| |] eqn:Hn; cbn [bind]; try reflexivity.
  pose proof (next_rest _ _ _ _ Hn) as Hrs. rewrite Hrs in Hlen. unfold numspan in Hlen. cbn [tl] in Hlen.
  destruct (c =? 48) eqn:H48.
  - destruct (peek_or_null E s1) as [[c2 s2]|c2 i0| |] eqn:Hp; cbn [bind]; try reflexivity.
    destruct (pon_rest _ _ _ _ Hp) as (Hr & Hc2).
    destruct (is_digit c2) eqn:Hd2; [reflexivity|].
    apply number_agree; [reflexivity|].
    assert (H0 : dspan (rest s1) = O).
    { destruct (rest s1) as [|x r]; [reflexivity|]. cbn [hd] in Hc2. subst c2. cbn [span_len]. rewrite Hd2. reflexivity. }
    rewrite H0 in Hlen. cbn [skipn] in Hlen. rewrite Hr. lia.
  - destruct (is_digit19 c) eqn:H19; [|reflexivity].
    assert (Hdv : digit_val c < two64).
    { destruct (digit19_digit c H19) as (Hcd & _). pose proof (digit_val_lt c Hcd). unfold two64. lia. }
    destruct (sig_loop (rest s1) (digit_val c)) as [[n sg] ov] eqn:Hsl.
    destruct (sig_loop_any _ _ _ _ _ Hdv Hsl) as (Hsg & Hnle & Hfull & Hpos).
    destruct (peek_or_null E (advance n s1)) as [[c2 s2]|c2 i0| |] eqn:Hp; cbn [bind]; try reflexivity.
    destruct (pon_rest _ _ _ _ Hp) as (Hr & _). cbn [advance rest] in Hr.
    assert (Hfs : (0 <= fsp (skipn (dspan (rest s1)) (rest s1)))%Z).
    { unfold fsp. destruct (skipn (dspan (rest s1)) (rest s1)) as [|c0 l2]; [lia|]. destruct (c0 =? 46); lia. }
    destruct ov.
    + rewrite (long_integer_agree E positive sg s2 (Hpos eq_refl) Hsg); [reflexivity|].
      rewrite Hr, span_skipn by exact Hnle. rewrite skipn_add.
      replace (n + (dspan (rest s1) - n))%nat with (dspan (rest s1)) by lia. lia.
    + apply number_agree; [exact Hsg|]. rewrite Hr, (Hfull eq_refl). lia.
Qed.
End Agree.
