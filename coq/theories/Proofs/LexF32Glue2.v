(* Proofs/LexF32Glue2.v — float_roundtrip build, f32 targets: the number parser with the lexical ALGORITHM in it
   (Proofs/LexF32Glue.parse_integer_a) returns, on EVERY input, what the parser of Model/NumF32.v returns with the
   SPECIFICATION in it (parse_integer_s: the literal's exact value rounded once to binary32).

     parse_integer_glue      forall E positive s, numspan (rest s) <= 10^8 -> parse_integer_a E positive s = parse_integer_s E positive s
                             (any reader kind, any end-of-input behaviour, any bytes: ill-formed input fails alike; the bound is on the
                              digits of the integer and fraction parts the parser would read)
     C07_f32_glue_spec       the literal-level form, in the vocabulary of Proofs/LexGlue.v (numlit, num_ok, fw, size bound on the literal)
     deserialize_f32_glue    Model/DeTyped.deserialize_f32 (the f32 request of the typed model) = the same request with the algorithm in it
     from_input_typed_f32_glue / de_typed_f32_glue   ... for a whole input of type f32 / at any f32 leaf
     lex_glue32              the binary32 twin of LexGlue.lex_glue: which value NumF32's parser returns on a literal
                             (integer that fits u64: three-way answer; otherwise the oracle rne_decimal32 on a pair denoting the literal's value)
     C07_f32_model           the property for f32 targets, on the GLUE: nearest binary32 (ties to even) of the literal's exact real value,
                             widened; -0.0 / underflow to +-0; NumberOutOfRange iff that nearest binary32 is infinite
     C07_f32_model_negint    negative integers beyond i64 (the path of finding F17): -(n rounded ONCE to binary32), widened
     visit_f32_widened       serde's `as f32` in the f32 visitor recovers exactly the binary32 the glue widened

   Method: the two parsers are one generic parser (LexF32Glue.Gen) with different float back ends; they can only differ
   where a back end is called, and at every call site the arguments are shown to satisfy the preconditions of the
   function-level theorems of part 1 (short_agree / long_agree / negint_agree). *)
From Coq Require Import ZArith NArith Lia List Bool ZifyBool ZifyNat ZifyN.
From Flocq Require Import Core BinarySingleNaN.
From SJ Require Import Base.Bytes Base.FloatB Gen.Tables Gen.LexTables Model.Read Model.Num Model.Lex Model.NumF32 Model.De Model.Ty Model.DeTyped.
From SJ Require Import Spec.Syntax Spec.Denote.
From SJ Require Import Proofs.GrammarNum Proofs.LexGlue Proofs.LexFull Proofs.LexF32Glue.
Import ListNotations.
Open Scope N_scope.
Set Warnings "-abstract-large-number".

Notation dspan := (span_len is_digit).
Notation zlen l := (Z.of_nat (length l)).

(* ================================================================================================ *)
(** * 1. lists, spans, the two digit loops (no assumption on the bytes) *)
Lemma span_le_length : forall l, (dspan l <= length l)%nat.
Proof. induction l as [|c l IH]; cbn [span_len length]; [lia|]. destruct (is_digit c); lia. Qed.

Lemma span_digs : forall l n, (n <= dspan l)%nat -> digs (firstn n l).
Proof.
  induction l as [|c l IH]; intros n Hn; cbn [span_len] in Hn.
  - assert (n = O) by lia. subst n. reflexivity.
  - destruct n as [|n]; [reflexivity|]. destruct (is_digit c) eqn:Hc; [|lia].
    cbn [firstn]. apply digs_cons. split; [exact Hc|]. apply IH. lia.
Qed.

Lemma span_skipn : forall l n, (n <= dspan l)%nat -> dspan (skipn n l) = (dspan l - n)%nat.
Proof.
  induction l as [|c l IH]; intros n Hn; cbn [span_len] in *.
  - assert (n = O) by lia. subst n. reflexivity.
  - destruct n as [|n]; [cbn [skipn span_len]; lia|]. destruct (is_digit c) eqn:Hc; [|lia].
    cbn [skipn]. rewrite IH by lia. lia.
Qed.

Lemma skipn_add : forall (l : bytes) a b, skipn a (skipn b l) = skipn (b + a) l.
Proof.
  intros l a b. revert l. induction b as [|b IH]; intros l; [reflexivity|].
  destruct l as [|x l]; [destruct a; reflexivity|]. cbn [skipn Nat.add]. apply IH.
Qed.

Lemma firstn_len_le : forall (l : bytes) n, (n <= length l)%nat -> length (firstn n l) = n.
Proof. intros l n H. apply firstn_length_le. exact H. Qed.

(* the significand loop: stops inside the run of digits; an overflow stop leaves a large significand *)
Lemma sig_loop_any : forall l sg n sg' ov, sg < two64 -> sig_loop l sg = (n, sg', ov) ->
  sg' < two64 /\ (n <= dspan l)%nat /\ (ov = false -> n = dspan l) /\ (ov = true -> 0 < sg').
Proof.
  induction l as [|c l IH]; intros sg n sg' ov Hsg H; cbn [sig_loop] in H.
  - injection H as <- <- <-. cbn [span_len]. repeat split; try lia; try discriminate; exact Hsg.
  - cbn [span_len]. destruct (is_digit c) eqn:Hc.
    + pose proof (digit_val_lt c Hc) as Hlt. rewrite (overflow_u64_spec _ _ Hlt) in H.
      destruct (u64_max <? sg * 10 + digit_val c) eqn:Hov.
      * injection H as <- <- <-. split; [exact Hsg|]. split; [apply Nat.le_0_l|]. split; [discriminate|].
        intros _. unfold u64_max in Hov. clear - Hov Hlt. lia.
      * destruct (sig_loop l (mul10add sg (digit_val c))) as [[n1 sg1] ov1] eqn:H1.
        injection H as <- <- <-.
        destruct (IH _ _ _ _ (mul10add_lt _ _) H1) as (Ha & Hb & Hc' & Hd').
        split; [exact Ha|]. split; [lia|]. split; [intros Hf; rewrite (Hc' Hf); reflexivity|exact Hd'].
    + injection H as <- <- <-. repeat split; try lia; try discriminate; exact Hsg.
Qed.

(* the exponent loop: without overflow the value fits i32 *)
Lemma exp_loop_any : forall l ex n e, ex <= i32_max -> exp_loop l ex = (n, e, false) -> e <= i32_max.
Proof.
  induction l as [|c l IH]; intros ex n e Hex H; cbn [exp_loop] in H.
  - injection H as _ <-. exact Hex.
  - destruct (is_digit c) eqn:Hc.
    + pose proof (digit_val_lt c Hc) as Hlt. rewrite (overflow_i32_spec _ _ Hlt) in H.
      destruct (i32_max <? ex * 10 + digit_val c) eqn:Hov; [discriminate H|].
      destruct (exp_loop l (ex * 10 + digit_val c)) as [[n1 e1] ov1] eqn:H1.
      injection H as _ <- ->. assert (Hle : ex * 10 + digit_val c <= i32_max) by lia. apply (IH _ _ _ Hle H1).
    + injection H as _ <-. exact Hex.
Qed.

(* ---- the reader primitives keep [rest] ---- *)
Lemma pon_rest : forall E s c s1, peek_or_null E s = Ok (c, s1) -> rest s1 = rest s /\ c = hd 0 (rest s).
Proof.
  intros E s c s1 H. unfold peek_or_null, peek in H. destruct (rest s) as [|b r] eqn:Hr.
  - unfold at_end in H. destruct (tm E); cbn [bind] in H; [|discriminate H]. injection H as <- <-. split; reflexivity.
  - cbn [bind] in H. injection H as <- <-. split; reflexivity.
Qed.

Lemma next_rest : forall E s c s1, next E s = Ok (Some c, s1) -> rest s = c :: rest s1.
Proof.
  intros E s c s1 H. unfold next in H. destruct (rest s) as [|b r] eqn:Hr.
  - unfold at_end in H. destruct (tm E); discriminate H.
  - injection H as <- <-. reflexivity.
Qed.

Lemma exponent_front_bound : forall E s pe e s1, exponent_front E s = Ok (pe, (e, false), s1) -> e <= i32_max.
Proof.
  intros E s pe e s1 H. unfold exponent_front in H. cbv zeta in H.
  destruct (peek_or_null E (discard s)) as [[c s0]| | |]; cbn [bind] in H; try discriminate H.
  destruct (if c =? 43 then (true, discard s0) else if c =? 45 then (false, discard s0) else (true, s0)) as [pe0 s2].
  destruct (next E s2) as [[[c1|] s3]| | |]; cbn [bind] in H; try discriminate H.
  destruct (is_digit c1) eqn:Hc1; [|discriminate H].
  destruct (exp_loop (rest s3) (digit_val c1)) as [[n e0] ov] eqn:Hl.
  injection H as _ <- -> _.
  assert (H9 : digit_val c1 <= i32_max) by (pose proof (digit_val_lt c1 Hc1); unfold i32_max; lia).
  apply (exp_loop_any _ _ _ _ H9 Hl).
Qed.

(* ================================================================================================ *)
(** * 2. two instances of the generic parser whose back ends agree on the reachable arguments *)
Definition lead (i : bytes) : Prop := i = [] \/ hd 0 i <> 48.
(* what is known of the scratch buffer (integer, fraction) when the long path hands it to lexical *)
Definition long_base (i f : bytes) : Prop :=
  digs i /\ digs f /\ lead i /\ (zlen i + zlen f <= 200000000)%Z /\ 0 < nval (i ++ f) 0.

Lemma long_base_ok : forall i f e, long_base i f -> (-2147483648 <= e <= 2147483647)%Z -> long_ok i f e.
Proof.
  intros i f e (Hi & Hf & Hl & Hlen & Hpos) He. unfold long_ok.
  split; [exact Hi|]. split; [exact Hf|]. split; [exact Hl|]. split; [exact He|]. split; [exact Hlen|].
  destruct (strip_value i f) as (k & _ & Hv & _). rewrite digits_val_N.
  destruct (N.eq_dec (nval (i ++ strip_trailing_zeros f) 0) 0) as [H0|H0]; [|lia].
  rewrite H0, N.mul_0_l in Hv. lia.
Qed.

(* the fraction digits that follow a '.' *)
Definition fsp (l : bytes) : Z := match l with c :: l2 => if c =? 46 then Z.of_nat (dspan l2) else 0%Z | [] => 0%Z end.
(* the digits parse_integer can put into the scratch buffer: the integer digits after the first, and the fraction digits *)
Definition numspan (l : bytes) : Z := (Z.of_nat (dspan (tl l)) + fsp (skipn (dspan (tl l)) (tl l)))%Z.

Lemma fsp_dot : forall l c, c = hd 0 l -> (c =? 46) = true -> exists l2, l = 46 :: l2 /\ fsp l = Z.of_nat (dspan l2).
Proof.
  intros l c -> H. destruct (hd_eqb_cons l 46 ltac:(discriminate) H) as (l2 & ->).
  exists l2. split; [reflexivity|]. reflexivity.
Qed.

Lemma nval_app_pos : forall a b, 0 < nval a 0 -> 0 < nval (a ++ b) 0.
Proof.
  intros a b H. rewrite nval_app2. pose proof (nval_ge b (nval a 0)) as Hge.
  assert (Hp : 0 < 10 ^ N.of_nat (length b)) by (apply N.neq_0_lt_0, N.pow_nonzero; discriminate).
  set (P := 10 ^ N.of_nat (length b)) in *. nia.
Qed.

(* the scratch buffer rebuilt by parse_decimal_overflow *)
Lemma scratch_facts : forall (sg : N) (fd : nat), 0 < sg -> sg < two64 ->
  let sd := itoa sg in
  let scratch := (if Nat.leb (S (length sd)) fd then repeat 48 (S (fd - S (length sd))) else []) ++ sd in
  let ie := (length scratch - fd)%nat in
  digs (firstn ie scratch) /\ digs (skipn ie scratch) /\ lead (firstn ie scratch) /\
  nval (firstn ie scratch ++ skipn ie scratch) 0 = sg /\
  (zlen (firstn ie scratch) + zlen (skipn ie scratch) <= Z.of_nat fd + 40)%Z.
Proof.
  intros sg fd Hpos Hsg sd scratch ie.
  destruct (itoa_facts sg Hpos Hsg) as (Hd & Hv & Hhd & Hlen). fold sd in Hd, Hv, Hhd, Hlen.
  set (zs := if Nat.leb (S (length sd)) fd then repeat 48 (S (fd - S (length sd))) else []) in *.
  assert (Hzs : allz zs) by (unfold zs; destruct (Nat.leb _ _); [apply allz_repeat|intros x []]).
  assert (Hds : digs scratch) by (apply digs_app; split; [apply allz_digs, Hzs|exact Hd]).
  assert (Hsplit : firstn ie scratch ++ skipn ie scratch = scratch) by apply firstn_skipn.
  split; [rewrite <- Hsplit in Hds; apply digs_app in Hds; apply Hds|].
  split; [rewrite <- Hsplit in Hds; apply digs_app in Hds; apply Hds|].
  split; [|split].
  - unfold lead, ie, scratch, zs. destruct (Nat.leb_spec (S (length sd)) fd) as [Hle|Hgt].
    + left. rewrite app_length, repeat_length. replace (S (fd - S (length sd)) + length sd - fd)%nat with O by lia. reflexivity.
    + cbn [app]. destruct (length sd - fd)%nat as [|j]; [left; reflexivity|].
      destruct sd as [|x sd']; [left; reflexivity|]. right. exact Hhd.
  - rewrite Hsplit. unfold scratch. rewrite nval_app2, (nval_zeros zs 0 Hzs), N.mul_0_l.
    rewrite digits_val_N in Hv. lia.
  - rewrite <- Nat2Z.inj_add, <- app_length, Hsplit. unfold scratch, zs. rewrite app_length.
    destruct (Nat.leb_spec (S (length sd)) fd) as [Hle|Hgt]; [rewrite repeat_length|cbn [length]]; lia.
Qed.

Section Agree.
Variables short1 short2 : env -> bool -> N -> Z -> st -> res (b64 * st).
Variables long1 long2 : env -> bool -> bytes -> bytes -> Z -> st -> res (b64 * st).
Variables neg1 neg2 : N -> b64.
Hypothesis HS : forall E positive sig e s, sig < two64 -> short1 E positive sig e s = short2 E positive sig e s.
Hypothesis HL : forall E positive i f e s, long_ok i f e -> long1 E positive i f e s = long2 E positive i f e s.
Hypothesis HN : forall sig, sig < two64 -> neg1 sig = neg2 sig.

Lemma exponent_agree : forall E positive sig se s, sig < two64 ->
  parse_exponent_g short1 E positive sig se s = parse_exponent_g short2 E positive sig se s.
Proof using All.
  intros E positive sig se s Hsig. unfold parse_exponent_g.
  destruct (exponent_front E s) as [[[pe [e ov]] s1]|c i| |]; cbn [bind]; try reflexivity.
  destruct ov; [reflexivity|].
  destruct (peek_or_null E s1) as [[c s2]|c i| |]; cbn [bind]; try reflexivity.
  apply HS. exact Hsig.
Qed.

Lemma long_exponent_agree : forall E positive i f s, long_base i f ->
  parse_long_exponent_g long1 E positive i f s = parse_long_exponent_g long2 E positive i f s.
Proof using All.
  intros E positive i f s Hb. unfold parse_long_exponent_g.
  destruct (exponent_front E s) as [[[pe [e ov]] s1]|c i0| |] eqn:Hf; cbn [bind]; try reflexivity.
  destruct ov; [reflexivity|].
  pose proof (exponent_front_bound E s pe e s1 Hf) as He. unfold i32_max in He.
  destruct (peek_or_null E s1) as [[c s2]|c i0| |]; cbn [bind]; try reflexivity.
  apply HL. apply long_base_ok; [exact Hb|]. destruct pe; lia.
Qed.

Lemma long_decimal_agree : forall E positive i f0 s, digs i -> digs f0 -> lead i -> 0 < nval (i ++ f0) 0 ->
  (zlen i + zlen f0 + Z.of_nat (dspan (rest s)) <= 200000000)%Z ->
  parse_long_decimal_g long1 E positive i f0 s = parse_long_decimal_g long2 E positive i f0 s.
Proof using All.
  intros E positive i f0 s Hi Hf0 Hl Hpos Hlen. unfold parse_long_decimal_g. cbv zeta.
  set (n := dspan (rest s)) in *.
  assert (Hb : long_base i (f0 ++ firstn n (rest s))).
  { split; [exact Hi|]. split; [apply digs_app; split; [exact Hf0|apply span_digs; unfold n; lia]|].
    split; [exact Hl|]. split.
    - rewrite app_length, firstn_len_le by (unfold n; apply span_le_length). lia.
    - rewrite app_assoc. apply nval_app_pos. exact Hpos. }
  destruct (peek_or_null E (advance n s)) as [[c s1]|c i0| |]; cbn [bind]; try reflexivity.
  destruct (f0 ++ firstn n (rest s)) as [|x fr]; [reflexivity|].
  destruct ((c =? 101) || (c =? 69)).
  - apply long_exponent_agree. exact Hb.
  - apply HL. apply long_base_ok; [exact Hb|lia].
Qed.

Lemma decimal_overflow_agree : forall E positive sg e s, 0 < sg -> sg < two64 -> (e <= 0)%Z ->
  (- e + 40 + Z.of_nat (dspan (rest s)) <= 200000000)%Z ->
  parse_decimal_overflow_g long1 E positive sg e s = parse_decimal_overflow_g long2 E positive sg e s.
Proof using All.
  intros E positive sg e s Hpos Hsg He Hlen. unfold parse_decimal_overflow_g. cbv zeta.
  destruct (scratch_facts sg (Z.to_nat (- e)) Hpos Hsg) as (H1 & H2 & H3 & H4 & H5). cbv zeta in H1, H2, H3, H4, H5.
  apply long_decimal_agree; try assumption.
  - rewrite H4. exact Hpos.
  - rewrite Z2Nat.id in H5 by lia. lia.
Qed.

Lemma decimal_agree : forall E positive sig s, sig < two64 ->
  (Z.of_nat (dspan (tl (rest s))) + 80 <= 200000000)%Z ->
  parse_decimal_g short1 long1 E positive sig 0 s = parse_decimal_g short2 long2 E positive sig 0 s.
Proof using All.
  intros E positive sig s Hsig Hlen. unfold parse_decimal_g. cbv zeta. cbn [discard rest].
  destruct (sig_loop (tl (rest s)) sig) as [[n sg] ov] eqn:Hsl.
  destruct (sig_loop_any _ _ _ _ _ Hsig Hsl) as (Hsg & Hn & Hfull & Hpos).
  destruct (peek_or_null E (advance n (discard s))) as [[c s1]|c i0| |] eqn:Hp; cbn [bind]; try reflexivity.
  destruct (pon_rest _ _ _ _ Hp) as (Hr & _). cbn [advance discard rest] in Hr.
  destruct ov.
  - apply decimal_overflow_agree; [apply Hpos; reflexivity|exact Hsg|lia|].
    rewrite Hr, span_skipn by exact Hn. lia.
  - destruct (Nat.eqb n 0); [reflexivity|].
    destruct ((c =? 101) || (c =? 69)); [apply exponent_agree|apply HS]; exact Hsg.
Qed.

Lemma long_integer_agree : forall E positive sg s, 0 < sg -> sg < two64 ->
  (Z.of_nat (dspan (rest s)) + fsp (skipn (dspan (rest s)) (rest s)) + 40 <= 200000000)%Z ->
  parse_long_integer_g long1 E positive sg s = parse_long_integer_g long2 E positive sg s.
Proof using All.
  intros E positive sg s Hpos Hsg Hlen. unfold parse_long_integer_g. cbv zeta.
  set (n := dspan (rest s)) in *.
  destruct (itoa_facts sg Hpos Hsg) as (Hd & Hv & Hhd & Hl40).
  assert (Hne : itoa sg <> []).
  { intros Hnil. rewrite Hnil in Hv. cbn [digits_val] in Hv. lia. }
  set (integer := itoa sg ++ firstn n (rest s)).
  assert (Hdi : digs integer) by (apply digs_app; split; [exact Hd|apply span_digs; unfold n; lia]).
  assert (Hli : lead integer).
  { right. unfold integer. destruct (itoa sg) as [|x r]; [exfalso; apply Hne; reflexivity|exact Hhd]. }
  assert (Hpi : 0 < nval integer 0).
  { unfold integer. apply nval_app_pos. rewrite digits_val_N in Hv. lia. }
  assert (Hlen_i : (zlen integer <= 40 + Z.of_nat n)%Z).
  { unfold integer. rewrite app_length, firstn_len_le by (unfold n; apply span_le_length). lia. }
  assert (Hfs : (0 <= fsp (skipn n (rest s)))%Z).
  { unfold fsp. destruct (skipn n (rest s)) as [|c0 l2]; [lia|]. destruct (c0 =? 46); lia. }
  assert (Hb : long_base integer []).
  { split; [exact Hdi|]. split; [reflexivity|]. split; [exact Hli|]. split; [cbn [length]; lia|].
    rewrite app_nil_r. exact Hpi. }
  destruct (peek_or_null E (advance n s)) as [[c s1]|c i0| |] eqn:Hp; cbn [bind]; try reflexivity.
  destruct (pon_rest _ _ _ _ Hp) as (Hr & Hc). cbn [advance rest] in Hr, Hc.
  destruct (c =? 46) eqn:H46.
  - destruct (fsp_dot _ _ Hc H46) as (l2 & Hl2 & Hf2).
    apply long_decimal_agree; try assumption; try reflexivity.
    + rewrite app_nil_r. exact Hpi.
    + cbn [discard rest length]. rewrite Hr, Hl2. cbn [tl]. rewrite Hf2 in Hlen. lia.
  - destruct ((c =? 101) || (c =? 69)).
    + apply long_exponent_agree. exact Hb.
    + apply HL. apply long_base_ok; [exact Hb|lia].
Qed.

Lemma number_agree : forall E positive sig s, sig < two64 -> (fsp (rest s) + 80 <= 200000000)%Z ->
  parse_number_g short1 long1 neg1 E positive sig s = parse_number_g short2 long2 neg2 E positive sig s.
Proof using All.
  intros E positive sig s Hsig Hlen. unfold parse_number_g.
  destruct (peek_or_null E s) as [[c s1]|c i0| |] eqn:Hp; cbn [bind]; try reflexivity.
  destruct (pon_rest _ _ _ _ Hp) as (Hr & Hc).
  destruct (c =? 46) eqn:H46.
  - destruct (fsp_dot _ _ Hc H46) as (l2 & Hl2 & Hf2).
    rewrite (decimal_agree E positive sig s1 Hsig); [reflexivity|].
    rewrite Hr, Hl2. cbn [tl]. rewrite Hf2 in Hlen. lia.
  - destruct ((c =? 101) || (c =? 69)).
    + rewrite (exponent_agree E positive sig 0 s1 Hsig). reflexivity.
    + destruct positive; [reflexivity|]. cbv zeta. rewrite (HN sig Hsig). reflexivity.
Qed.

Theorem integer_agree : forall E positive s, (numspan (rest s) <= 100000000)%Z ->
  parse_integer_g short1 long1 neg1 E positive s = parse_integer_g short2 long2 neg2 E positive s.
Proof using All.
  intros E positive s Hlen. unfold parse_integer_g.
  destruct (next E s) as [[[c|] s1]|c i0| |] eqn:Hn; cbn [bind]; try reflexivity.
  pose proof (next_rest _ _ _ _ Hn) as Hrs. rewrite Hrs in Hlen. unfold numspan in Hlen. cbn [tl] in Hlen.
  destruct (c =? 48) eqn:H48.
  - destruct (peek_or_null E s1) as [[c2 s2]|c2 i0| |] eqn:Hp; cbn [bind]; try reflexivity.
    destruct (pon_rest _ _ _ _ Hp) as (Hr & Hc2).
    destruct (is_digit c2) eqn:Hd2; [reflexivity|].
    apply number_agree; [reflexivity|].
    assert (H0 : dspan (rest s1) = O).
    { destruct (rest s1) as [|x r]; [reflexivity|]. cbn [hd] in Hc2. subst c2. cbn [span_len]. rewrite Hd2. reflexivity. }
    rewrite H0 in Hlen. cbn [skipn] in Hlen. rewrite Hr. lia.
  - destruct (is_digit19 c) eqn:H19; [|reflexivity].
    assert (Hdv : digit_val c < two64).
    { destruct (digit19_digit c H19) as (Hcd & _). pose proof (digit_val_lt c Hcd). unfold two64. lia. }
    destruct (sig_loop (rest s1) (digit_val c)) as [[n sg] ov] eqn:Hsl.
    destruct (sig_loop_any _ _ _ _ _ Hdv Hsl) as (Hsg & Hnle & Hfull & Hpos).
    destruct (peek_or_null E (advance n s1)) as [[c2 s2]|c2 i0| |] eqn:Hp; cbn [bind]; try reflexivity.
    destruct (pon_rest _ _ _ _ Hp) as (Hr & _). cbn [advance rest] in Hr.
    assert (Hfs : (0 <= fsp (skipn (dspan (rest s1)) (rest s1)))%Z).
    { unfold fsp. destruct (skipn (dspan (rest s1)) (rest s1)) as [|c0 l2]; [lia|]. destruct (c0 =? 46); lia. }
    destruct ov.
    + rewrite (long_integer_agree E positive sg s2 (Hpos eq_refl) Hsg); [reflexivity|].
      rewrite Hr, span_skipn by exact Hnle. rewrite skipn_add.
      replace (n + (dspan (rest s1) - n))%nat with (dspan (rest s1)) by lia. lia.
    + apply number_agree; [exact Hsg|]. rewrite Hr, (Hfull eq_refl). lia.
Qed.
End Agree.

(* ================================================================================================ *)
(** * 3. the glue is the specification *)

(* on EVERY input (no well-formedness, any reader, any end-of-input behaviour) *)
Theorem parse_integer_glue : forall (E : env) (positive : bool) (s : st), (numspan (rest s) <= 100000000)%Z ->
  parse_integer_a E positive s = parse_integer_s E positive s.
Proof.
  intros E positive s H. rewrite <- parse_integer_g_spec. unfold parse_integer_a.
  apply integer_agree; [| | |exact H].
  - intros E0 p0 sig e s0 Hsig. apply short_agree. exact Hsig.
  - intros E0 p0 i f e s0 Hok. apply long_agree. exact Hok.
  - intros sig Hsig. apply negint_agree. exact Hsig.
Qed.

(* ---- the bound, for a literal and for a whole input ---- *)
Lemma numspan_le_length : forall l, (numspan l <= zlen l)%Z.
Proof.
  intros [|c l]; [cbn; lia|]. unfold numspan. cbn [tl length].
  pose proof (span_le_length l) as H1.
  assert (H2 : (fsp (skipn (dspan l) l) <= zlen (skipn (dspan l) l))%Z).
  { unfold fsp. destruct (skipn (dspan l) l) as [|c0 l2]; [cbn [length]; lia|].
    destruct (c0 =? 46); [pose proof (span_le_length l2); cbn [length]; lia|cbn [length]; lia]. }
  rewrite skipn_length in H2. lia.
Qed.

Lemma fsp_nodot : forall r, (hd 0 r =? 46) = false -> fsp r = 0%Z.
Proof. intros [|x r] H; [reflexivity|]. cbn [hd] in H. unfold fsp. rewrite H. reflexivity. Qed.

Lemma numspan_lit : forall n r, num_ok n = true -> fw n r -> (numspan (render_abs n ++ r) <= zlen (render_abs n))%Z.
Proof.
  intros n r Hok (Hr & Hfe & Hf46). destruct (num_ok_inv n Hok) as (Hint & Hf & Hx).
  rewrite lit_app, lit_len.
  set (tail := fracl (nfrac n) ++ expl (nexp n) ++ r).
  assert (Ht : nd tail /\ (fsp tail <= zlen (fracl (nfrac n)))%Z).
  { unfold tail. destruct (nfrac n) as [f|] eqn:Hfr; cbn [fracl frac_wf app] in *.
    - destruct Hf as (Hfd & _). split; [apply nd_dot|].
      assert (Hnd : nd (expl (nexp n) ++ r)).
      { destruct (nexp n) as [[[e sg] ds]|]; cbn [expl exp_wf app] in *; [|exact Hr].
        destruct Hx as (He & _). apply nd_e. exact He. }
      unfold fsp. change (46 =? 46) with true. cbv iota. rewrite (span_app f _ Hfd Hnd). cbn [length]. lia.
    - destruct (nexp n) as [[[e sg] ds]|] eqn:Hex; cbn [expl exp_wf app] in *.
      + destruct Hx as (He & _). split; [apply nd_e; exact He|].
        unfold fsp. rewrite (e_not_dot e He). cbn [length]. lia.
      + split; [exact Hr|]. rewrite (fsp_nodot r (Hf46 eq_refl eq_refl)). cbn [length]. lia. }
  destruct Ht as (Hnd & Hfs). fold tail.
  destruct (int_ok_inv (nint n) Hint) as [->|(c & ds & -> & Hc & Hd)].
  - unfold numspan. cbn [app tl length]. rewrite (span_nd tail Hnd). cbn [skipn]. lia.
  - unfold numspan. cbn [app tl length]. rewrite (span_app ds tail Hd Hnd), skipn_app_l. lia.
Qed.

(* ---- literal level, in the vocabulary of Proofs/LexGlue.v: a well-formed number literal followed by any bytes that do not
        continue it ([fw]; e.g. nothing, a delimiter, whitespace).  No assumption on the reader or the configuration: the
        single-precision functions do not look at it ---- *)
Theorem C07_f32_glue_spec : forall (E : env) (n : numlit) (positive : bool) (r : bytes) (o : nat) (p : bool) (d : N),
  num_ok n = true -> fw n r -> (length (render_abs n) < 100000000)%nat ->
  parse_integer_a E positive (mkSt (render_abs n ++ r) o p d) = parse_integer_s E positive (mkSt (render_abs n ++ r) o p d).
Proof.
  intros E n positive r o p d Hok Hfw Hlen. apply parse_integer_glue. cbn [rest].
  apply Nat2Z.inj_lt in Hlen. rewrite big_nat in Hlen.
  pose proof (numspan_lit n r Hok Hfw). lia.
Qed.

(* ---- Model/DeTyped.v: the f32 request ---- *)
Lemma pw_rest : forall E s o s1, parse_whitespace E s = Ok (o, s1) -> exists k, rest s1 = skipn k (rest s).
Proof.
  intros E s o s1 H. unfold parse_whitespace in H. set (k := span_len is_ws (rest s)) in *.
  exists k. unfold peek in H. cbn [advance rest] in H.
  destruct (skipn k (rest s)) as [|b r] eqn:Hk.
  - unfold at_end in H. destruct (tm E); [|discriminate H]. injection H as _ <-. reflexivity.
  - injection H as _ <-. reflexivity.
Qed.

Lemma numspan_skipn : forall l k, (zlen l <= 100000000)%Z -> (numspan (skipn k l) <= 100000000)%Z.
Proof.
  intros l k H. pose proof (numspan_le_length (skipn k l)) as H1. rewrite skipn_length in H1. lia.
Qed.

Theorem deserialize_number_glue : forall (E : env) visit (s : st), (zlen (rest s) <= 100000000)%Z ->
  deserialize_number_a E visit s = deserialize_number_s E visit s.
Proof.
  intros E visit s Hlen. unfold deserialize_number_a, deserialize_number_s.
  destruct (parse_whitespace E s) as [[o s1]|c i| |] eqn:Hpw; cbn [lift tbind]; try reflexivity.
  destruct o as [b|]; [|reflexivity].
  destruct (pw_rest E s _ s1 Hpw) as (k & Hk).
  destruct (b =? 45).
  - rewrite parse_integer_glue; [reflexivity|]. cbn [discard rest]. rewrite Hk.
    change (tl (skipn k (rest s))) with (skipn 1 (skipn k (rest s))). rewrite skipn_add. apply numspan_skipn. exact Hlen.
  - destruct (is_digit b); [|reflexivity].
    rewrite parse_integer_glue; [reflexivity|]. rewrite Hk. apply numspan_skipn. exact Hlen.
Qed.

(* the value DeTyped's f32 path assigns (specification inside) is what the glue computes (algorithm inside) *)
Theorem deserialize_f32_glue : forall (E : env) (s : st), (zlen (rest s) <= 100000000)%Z ->
  deserialize_f32_a E s = deserialize_f32 E s.
Proof.
  intros E s Hlen. unfold deserialize_f32_a, deserialize_f32.
  destruct (float_roundtrip (cf E)); [apply deserialize_number_glue; exact Hlen|reflexivity].
Qed.

(* a whole input of type f32: from_str / from_slice / from_reader ::<f32> *)
Definition from_input_f32_a (E : env) (input : bytes) : tres dval :=
  let+ (d, s1) := deserialize_f32_a E (init_st input) in
  let^ _ := de_end E s1 in
  TOk d.

Theorem from_input_typed_f32_glue : forall (E : env) (input : bytes), (zlen input <= 100000000)%Z ->
  from_input_typed E TF32 input = from_input_f32_a E input.
Proof.
  intros E input Hlen. unfold from_input_typed, from_input_f32_a.
  replace (typed_fuel TF32 input) with (S (Nat.pred (typed_fuel TF32 input))) by (unfold typed_fuel; lia).
  cbn [de_typed]. rewrite deserialize_f32_glue by exact Hlen. reflexivity.
Qed.

(* and at any f32 leaf of a typed deserialization (the recursion of de_typed reaches deserialize_f32 with some state) *)
Theorem de_typed_f32_glue : forall (fuel : nat) (E : env) (s : st), (zlen (rest s) <= 100000000)%Z ->
  de_typed (S fuel) E TF32 s = deserialize_f32_a E s.
Proof. intros fuel E s Hlen. cbn [de_typed]. symmetry. apply deserialize_f32_glue. exact Hlen. Qed.

(* ================================================================================================ *)
(** * 4. what the single-precision parser returns on a literal: the binary32 twin of LexGlue.lex_glue
      (Proofs/LexGlue.v sections (3)-(6) replayed for the _s functions of Model/NumF32.v; the digit-string lemmas and the
       continuations k1 / k2 with their denoted pairs are those of LexGlue.v, they do not depend on the float format) *)
From SJ Require Import Proofs.TypedRoundtripF32.

(* what the parser must return for a float-syntax (or too large) literal: None = NumberOutOfRange *)
Definition glue_float32 (positive : bool) (m e : Z) : option b64 :=
  let f := NumF32.rne_decimal32 m e in
  if b32_is_inf f then None else Some (let w := b64_of_b32 f in if positive then w else b64_neg w).

Lemma rne32_nonpos : forall m e, (m <= 0)%Z -> NumF32.rne_decimal32 m e = B754_zero false.
Proof. intros m e H. unfold NumF32.rne_decimal32. destruct (Z.leb_spec m 0); [reflexivity|lia]. Qed.

Lemma rne_decimal32_sat : forall m e, (Z.log2 m < 2000000000)%Z ->
  NumF32.rne_decimal32 m (i32_sat e) = NumF32.rne_decimal32 m e.
Proof.
  intros m e Hl. destruct (Z.leb_spec m 0) as [Hm|Hm].
  - rewrite !rne32_nonpos by exact Hm. reflexivity.
  - unfold i32_sat. destruct (Z.ltb_spec 2147483647 e) as [Hbig|Hbig].
    + change NumF32.rne_decimal32 with Lex.rne_decimal32. rewrite (rne32_huge m e Hm) by lia. apply rne32_huge; [exact Hm|lia].
    + destruct (Z.ltb_spec e (-2147483648)) as [Hsm|Hsm].
      * change NumF32.rne_decimal32 with Lex.rne_decimal32. rewrite (rne32_tiny m e Hm) by lia. apply rne32_tiny; [exact Hm|lia].
      * f_equal. lia.
Qed.

Definition gl32 (positive : bool) (m e : Z) (run : res (b64 * st)) (se : st) : Prop :=
  match glue_float32 positive m e with
  | Some f => run = Ok (f, se)
  | None => exists i, run = Err NumberOutOfRange i
  end.
Definition glp32 (positive : bool) (m e : Z) (run : res (pnum * st)) (se : st) : Prop :=
  match glue_float32 positive m e with
  | Some f => run = Ok (PF64 f, se)
  | None => exists i, run = Err NumberOutOfRange i
  end.

Lemma gl32_wrapF : forall positive m e run se, gl32 positive m e run se -> glp32 positive m e (wrapF run) se.
Proof.
  intros positive m e run se H. unfold gl32, glp32 in *. destruct (glue_float32 positive m e) as [f|].
  - rewrite H. reflexivity.
  - destruct H as [i ->]. exists i. reflexivity.
Qed.

Lemma gl32_zero : forall (positive : bool) m e (run : res (b64 * st)) s, NumF32.rne_decimal32 m e = B754_zero false ->
  run = Ok (if positive then B754_zero false else B754_zero true, s) -> gl32 positive m e run s.
Proof.
  intros positive m e run s Hz ->. unfold gl32, glue_float32. cbv zeta. rewrite Hz. cbn [b32_is_inf b64_of_b32].
  destruct positive; reflexivity.
Qed.

Lemma gl32_inf : forall positive m e i s, NumF32.rne_decimal32 m e = B754_infinity false ->
  gl32 positive m e (Err NumberOutOfRange i) s.
Proof.
  intros positive m e i s Hz. unfold gl32, glue_float32. cbv zeta. rewrite Hz. cbn [b32_is_inf]. exists i. reflexivity.
Qed.

Lemma glp32_st : forall positive m e run se se', glp32 positive m e run se -> se = se' -> glp32 positive m e run se'.
Proof. intros positive m e run se se' H <-. exact H. Qed.

Section Glue32.
Variable E : env.
Hypothesis HE : tm E = TEof.

Lemma f64_from_parts_s_gl : forall positive sg e e' s,
  NumF32.rne_decimal32 (Z.of_N sg) e = NumF32.rne_decimal32 (Z.of_N sg) e' ->
  gl32 positive (Z.of_N sg) e' (f64_from_parts_s E positive sg e s) s.
Proof using Type.
  intros positive sg e e' s Heq. unfold gl32, glue_float32, f64_from_parts_s, finish_s. cbv zeta. rewrite Heq.
  destruct (b32_is_inf (NumF32.rne_decimal32 (Z.of_N sg) e')).
  - unfold peek_error. eexists. reflexivity.
  - reflexivity.
Qed.

Lemma f64_long_s_gl : forall positive i f x e' s,
  e' = (x - Z.of_nat (length (strip_trailing_zeros f)))%Z ->
  gl32 positive (digits_val (i ++ strip_trailing_zeros f) 0) e' (f64_long_from_parts_s E positive i f x s) s.
Proof using Type.
  intros positive i f x e' s ->. unfold gl32, glue_float32, f64_long_from_parts_s, finish_s. cbv zeta.
  destruct (b32_is_inf _).
  - unfold peek_error. eexists. reflexivity.
  - reflexivity.
Qed.

Lemma after_exp_val32 : forall positive z K e sg c1 ds r off p d (m eb : Z),
  sg_ok sg -> is_digit c1 = true -> digs ds -> nd r ->
  (0 <= m)%Z -> (Z.log2 m < 500000000)%Z -> (-100000000 < eb <= 0)%Z ->
  (z = true -> m = 0%Z) -> (z = false -> (0 < m)%Z) ->
  (forall s, gl32 positive m (eb + exp_value (Some (e, sg, c1 :: ds))) (K (pexp sg) (nval ds (digit_val c1)) s) s) ->
  gl32 positive m (eb + exp_value (Some (e, sg, c1 :: ds)))
     (after_exp E positive z K (mkSt (e :: sgl sg ++ c1 :: ds ++ r) off p d))
     (pkd r (off + (2 + length (sgl sg) + length ds)) d).
Proof using HE.
  intros positive z K e sg c1 ds r off p d m eb Hsg Hc1 Hd Hr Hm0 Hlog Heb Hz1 Hz0 HK.
  destruct (exp_loop ds (digit_val c1)) as [[n ex] ov] eqn:Hel.
  destruct (exp_loop_val _ _ _ _ _ Hd Hel) as (Hn & Hfull & Hov).
  unfold after_exp. rewrite (exponent_front_good E HE e sg c1 ds r off p d Hsg Hc1 Hd Hr), Hel. cbn [bind]. cbv beta iota.
  destruct ov.
  - specialize (Hov eq_refl). unfold i32_max in Hov.
    assert (Hskip : skip_digits E (mkSt (skipn n ds ++ r) (off + (2 + length (sgl sg) + n)) false d)
                    = Ok (hd 0 r, pkd r (off + (2 + length (sgl sg) + length ds)) d)).
    { rewrite (skip_digits_mk E HE (skipn n ds) r _ _ _ (digs_skipn n ds Hd) Hr). rewrite skipn_length.
      do 2 f_equal. apply pkd_off. lia. }
    unfold parse_exponent_overflow. rewrite exp_value_eq.
    destruct z; cbn [negb andb].
    + rewrite (Hz1 eq_refl). apply gl32_zero; [apply rne32_nonpos; lia|].
      rewrite Hskip. reflexivity.
    + specialize (Hz0 eq_refl). destruct (pexp sg).
      * unfold error. apply gl32_inf. change NumF32.rne_decimal32 with Lex.rne_decimal32. apply rne32_huge; [exact Hz0|lia].
      * apply gl32_zero; [change NumF32.rne_decimal32 with Lex.rne_decimal32; apply rne32_tiny; [exact Hz0|lia]|].
        rewrite Hskip. reflexivity.
  - destruct (Hfull eq_refl) as (-> & ->).
    rewrite skipn_all. cbn [app]. rewrite (peek_or_null_mk E HE). cbn [bind]. cbv beta iota. apply HK.
Qed.

Lemma k2_exp_val32 : forall positive k e sg c1 ds r off d,
  k2_good k -> is_e e = true -> sg_ok sg -> is_digit c1 = true -> digs ds -> nd r ->
  gl32 positive (fst (k2_wit k)) (snd (k2_wit k) + exp_value (Some (e, sg, c1 :: ds)))
     (run_k2s E positive k (pkd (e :: sgl sg ++ c1 :: ds ++ r) off d))
     (pkd r (off + (2 + length (sgl sg) + length ds)) d).
Proof using HE.
  intros positive k e sg c1 ds r off d Hk He Hsg Hc1 Hd Hr.
  destruct (k2_facts k Hk) as (H0 & Hlog & Hsnd & Hz1 & Hz0 & _).
  unfold run_k2s. cbv zeta. rewrite rest_pkd. cbn [hd]. rewrite He.
  destruct k as [sg0 e0|i f]; cbn [k2_wit k2_zero fst snd] in *.
  - rewrite (parse_exponent_s_eq E). apply after_exp_val32; try assumption.
    intros s. apply f64_from_parts_s_gl. rewrite exp_value_eq.
    destruct Hk as (Hsg0 & _). pose proof (log2_u64 sg0 Hsg0).
    destruct (pexp sg).
    + apply rne_decimal32_sat. lia.
    + replace (e0 + - Z.of_N (nval ds (digit_val c1)))%Z with (e0 - Z.of_N (nval ds (digit_val c1)))%Z by lia.
      apply rne_decimal32_sat. lia.
  - rewrite (parse_long_exponent_s_eq E). apply after_exp_val32; try assumption.
    intros s. apply f64_long_s_gl. rewrite exp_value_eq. destruct (pexp sg); lia.
Qed.

Lemma k2_fin_val32 : forall positive k r off d,
  k2_good k -> is_e (hd 0 r) = false ->
  gl32 positive (fst (k2_wit k)) (snd (k2_wit k)) (run_k2s E positive k (pkd r off d)) (pkd r off d).
Proof using Type.
  intros positive k r off d Hk He. unfold run_k2s. cbv zeta. rewrite rest_pkd, He.
  destruct k as [sg0 e0|i f]; cbn [k2_wit fst snd].
  - apply f64_from_parts_s_gl. reflexivity.
  - apply f64_long_s_gl. lia.
Qed.

Lemma parse_decimal_overflow_val32 : forall positive sg e ds2, sg <= u64_max -> (e <= 0)%Z ->
  exists I F0, digs (I ++ F0) /\ nval (I ++ F0) 0 = sg /\ length F0 = Z.to_nat (- e) /\
    forall r o p d, digs ds2 -> ds2 <> [] -> nd r ->
      parse_decimal_overflow_s E positive sg e (mkSt (ds2 ++ r) o p d)
      = run_k2s E positive (K2l I (F0 ++ ds2)) (pkd r (o + length ds2) d).
Proof using HE.
  intros positive sg e ds2 Hsg He. destruct (itoa_val sg Hsg) as (Hsd & Hsv).
  set (fd := Z.to_nat (- e)).
  set (zs := if Nat.leb (S (length (itoa sg))) fd then repeat 48 (S (fd - S (length (itoa sg)))) else []).
  set (scratch := zs ++ itoa sg).
  set (ie := (length scratch - fd)%nat).
  assert (Hzs : allz zs).
  { unfold zs. destruct (Nat.leb _ _); [apply allz_repeat|intros x []]. }
  assert (Hlen : (fd <= length scratch)%nat).
  { unfold scratch, zs. rewrite app_length. destruct (Nat.leb_spec (S (length (itoa sg))) fd) as [Hle|Hgt].
    - rewrite repeat_length. lia.
    - cbn [length]. lia. }
  exists (firstn ie scratch), (skipn ie scratch). rewrite firstn_skipn. split; [|split; [|split]].
  - unfold scratch. apply digs_app. split; [apply allz_digs, Hzs|exact Hsd].
  - unfold scratch. rewrite nval_app2, (nval_zeros zs 0 Hzs), N.mul_0_l. exact Hsv.
  - rewrite skipn_length. unfold ie. lia.
  - intros r o p d Hd Hne Hr. unfold parse_decimal_overflow_s. cbv zeta.
    apply (parse_long_decimal_s_good E HE); try assumption.
    intros Hnil. apply app_eq_nil in Hnil. apply Hne, Hnil.
Qed.

Lemma parse_decimal_val32 : forall positive sg f r o p d, sg <= u64_max -> digs f -> f <> [] -> nd r ->
  (Z.of_nat (length f) < 100000000)%Z ->
  (exists L, (Z.of_nat L < 100000000)%Z /\ nval f sg < 10 ^ N.of_nat L) ->
  exists k', k2_good k' /\ k2_lit k' = (Z.of_N (nval f sg), (- Z.of_nat (length f))%Z) /\
    parse_decimal_s E positive sg 0 (mkSt (46 :: f ++ r) o p d) = run_k2s E positive k' (pkd r (o + S (length f)) d).
Proof using HE.
  intros positive sg f r o p d Hsg Hd Hne Hr Hlen HL.
  destruct (sig_loop f sg) as [[n sg'] ov] eqn:Hsl.
  destruct (sig_loop_val _ _ _ _ _ Hd Hsg Hsl) as (Hv & Hsg' & Hn & Hfull & Hpart).
  destruct ov.
  - destruct (Hpart eq_refl) as (Hlt & _).
    assert (He : (0 + - Z.of_nat n <= 0)%Z) by lia.
    destruct (parse_decimal_overflow_val32 positive sg' (0 + - Z.of_nat n) (skipn n f) Hsg' He)
      as (I & F0 & HdIF & HvIF & HlF & Hrun).
    apply digs_app in HdIF. destruct HdIF as (HdI & HdF).
    assert (HlF' : length F0 = n) by lia.
    assert (Hval : nval (I ++ F0 ++ skipn n f) 0 = nval f sg).
    { rewrite app_assoc, nval_app2, HvIF, Hv, <- nval_app2, firstn_skipn. reflexivity. }
    assert (Hlen2 : length (F0 ++ skipn n f) = length f).
    { rewrite app_length, skipn_length. lia. }
    exists (K2l I (F0 ++ skipn n f)). split; [|split].
    + cbn [k2_good]. split; [exact HdI|]. split; [apply digs_app; split; [exact HdF|apply digs_skipn, Hd]|].
      split; [rewrite Hlen2; exact Hlen|]. destruct HL as (L & HL1 & HL2). exists L. split; [exact HL1|].
      rewrite Hval. exact HL2.
    + cbn [k2_lit]. rewrite digits_val_N, Hval, Hlen2. reflexivity.
    + unfold parse_decimal_s. rewrite discard_mk. cbn [tl rest]. rewrite (sig_loop_app f r sg Hr), Hsl.
      rewrite advance_mk, (skipn_app_le n f r Hn), (peek_or_null_mk E HE). cbn [bind]. cbv beta iota.
      unfold pkd at 1. rewrite (Hrun r _ _ d (digs_skipn n f Hd) (skipn_len_lt_nonnil n f Hlt) Hr).
      rewrite skipn_length. do 2 f_equal. lia.
  - specialize (Hfull eq_refl). subst n. rewrite firstn_all in Hv. subst sg'.
    exists (K2s (nval f sg) (0 + - Z.of_nat (length f))). split; [|split].
    + cbn [k2_good]. split; [exact Hsg'|]. lia.
    + reflexivity.
    + unfold parse_decimal_s. rewrite discard_mk. cbn [tl rest]. rewrite (sig_loop_app f r sg Hr), Hsl.
      rewrite advance_mk, skipn_app_l, (peek_or_null_mk E HE). cbn [bind]. cbv beta iota.
      destruct f as [|c0 f0]; [exfalso; apply Hne; reflexivity|]. cbn [length Nat.eqb].
      unfold run_k2s. cbv zeta. rewrite rest_pkd.
      replace (S o + S (length f0))%nat with (o + S (S (length f0)))%nat by lia. reflexivity.
Qed.

Lemma parse_integer_val32 : forall positive int r o p d, int_ok int = true -> nd r ->
  parse_integer_s E positive (mkSt (int ++ r) o p d) = run_k1s E positive (k1_of int) (pkd r (o + length int) d).
Proof using HE.
  intros positive int r o p d Hint Hr. destruct (int_ok_inv int Hint) as [->|(c & ds & -> & Hc & Hd)].
  - change (k1_of [48]) with (K1n 0). unfold parse_integer_s. cbn [app].
    rewrite (next_cons E). cbn [bind]. cbv beta iota. change (48 =? 48) with true. cbv iota.
    rewrite (peek_or_null_mk E HE). cbn [bind]. cbv beta iota. rewrite Hr. cbn [length].
    replace (o + 1)%nat with (S o) by lia. reflexivity.
  - destruct (digit19_digit c Hc) as (Hcd & Hc48).
    assert (Hdv : digit_val c <= u64_max).
    { unfold digit_val, u64_max. unfold is_digit in Hcd. lia. }
    destruct (sig_loop ds (digit_val c)) as [[n sg] ov] eqn:Hsl.
    destruct (sig_loop_val _ _ _ _ _ Hd Hdv Hsl) as (Hv & Hsg & Hn & Hfull & Hpart).
    unfold parse_integer_s. cbn [app].
    rewrite (next_cons E). cbn [bind]. cbv beta iota. rewrite Hc48, Hc. cbn [rest].
    rewrite (sig_loop_app ds r _ Hr), Hsl, advance_mk.
    destruct ov.
    + destruct (Hpart eq_refl) as (Hlt & Hbig).
      assert (Hk : k1_of (c :: ds) = K1f (c :: ds)).
      { unfold k1_of. rewrite nval_head. destruct (N.leb_spec (nval ds (digit_val c)) u64_max); [lia|reflexivity]. }
      assert (Hito : itoa sg = c :: firstn n ds).
      { rewrite Hv, <- nval_head. apply itoa_canon.
        - rewrite int_ok_eq, Hc48, Hc. cbn [andb]. apply digs_firstn, Hd.
        - rewrite nval_head, <- Hv. exact Hsg. }
      rewrite Hk, (skipn_app_le n ds r Hn), (peek_or_null_mk E HE). cbn [bind]. cbv beta iota.
      unfold pkd at 1. change (let* (f, s3) := ?x in Ok (PF64 f, s3)) with (wrapF x). f_equal.
      unfold parse_long_integer_s. cbn [rest]. cbv zeta.
      rewrite (span_app (skipn n ds) r (digs_skipn n ds Hd) Hr), firstn_app_l, advance_mk, skipn_app_l,
        (peek_or_null_mk E HE). cbn [bind]. cbv beta iota.
      rewrite Hito. cbn [app]. rewrite firstn_skipn. rewrite skipn_length. cbn [length].
      replace (S o + n + (length ds - n))%nat with (o + S (length ds))%nat by lia.
      reflexivity.
    + specialize (Hfull eq_refl). subst n. rewrite firstn_all in Hv.
      assert (Hk : k1_of (c :: ds) = K1n sg).
      { unfold k1_of. rewrite nval_head, <- Hv. destruct (N.leb_spec sg u64_max); [reflexivity|lia]. }
      rewrite Hk, skipn_app_l, (peek_or_null_mk E HE). cbn [bind]. cbv beta iota.
      cbn [length run_k1s]. replace (S o + length ds)%nat with (o + S (length ds))%nat by lia. reflexivity.
Qed.

Lemma k1_dec_val32 : forall positive int f r o d, int_ok int = true -> digs f -> f <> [] -> nd r ->
  (Z.of_nat (length (int ++ f)) < 100000000)%Z ->
  exists k', k2_good k' /\ k2_lit k' = (digits_val (int ++ f) 0, (- Z.of_nat (length f))%Z) /\
    run_k1s E positive (k1_of int) (pkd (46 :: f ++ r) o d) = wrapF (run_k2s E positive k' (pkd r (o + S (length f)) d)).
Proof using HE.
  intros positive int f r o d Hint Hd Hne Hr Hlen.
  pose proof (int_ok_digs int Hint) as Hdi.
  assert (HL : nval (int ++ f) 0 < 10 ^ N.of_nat (length (int ++ f))).
  { pose proof (nval_lt (int ++ f) 0 (proj2 (digs_app int f) (conj Hdi Hd))) as H. lia. }
  assert (Hlf : (Z.of_nat (length f) < 100000000)%Z) by (rewrite app_length in Hlen; lia).
  unfold k1_of. destruct (N.leb_spec (nval int 0) u64_max) as [Hle|Hgt].
  - destruct (parse_decimal_val32 positive (nval int 0) f r o (nonempty (46 :: f ++ r)) d Hle Hd Hne Hr Hlf)
      as (k' & Hk' & Hlit & Hrun).
    { exists (length (int ++ f)). split; [exact Hlen|]. rewrite <- nval_app2. exact HL. }
    exists k'. split; [exact Hk'|]. split.
    + rewrite Hlit, digits_val_N, nval_app2. reflexivity.
    + unfold run_k1s. rewrite (parse_number_s_unfold E HE). cbv zeta. cbn [hd].
      change (46 =? 46) with true. cbv iota. unfold pkd at 1. rewrite Hrun. reflexivity.
  - exists (K2l int f). split; [|split].
    + cbn [k2_good]. split; [exact Hdi|]. split; [exact Hd|]. split; [exact Hlf|].
      exists (length (int ++ f)). split; assumption.
    + reflexivity.
    + unfold run_k1s. cbv zeta. rewrite rest_pkd. cbn [hd].
      change (46 =? 46) with true. cbv iota. unfold pkd at 1. rewrite discard_mk. cbn [tl].
      rewrite (parse_long_decimal_s_good E HE positive int [] f r _ _ d Hd Hr Hne). cbn [app].
      replace (S o + length f)%nat with (o + S (length f))%nat by lia. reflexivity.
Qed.

Lemma k1_fin_val32 : forall positive int r off d, (hd 0 r =? 46) = false -> is_e (hd 0 r) = false ->
  if nval int 0 <=? u64_max then
    run_k1s E positive (k1_of int) (pkd r off d) =
    Ok (if positive then PU64 (nval int 0) else neg_small_s (nval int 0), pkd r off d)
  else glp32 positive (digits_val int 0) 0 (run_k1s E positive (k1_of int) (pkd r off d)) (pkd r off d).
Proof using HE.
  intros positive int r off d H46 He. unfold k1_of. destruct (nval int 0 <=? u64_max).
  - unfold run_k1s. rewrite (parse_number_s_unfold E HE). cbv zeta. rewrite H46, He.
    destruct positive; reflexivity.
  - unfold run_k1s. cbv zeta. rewrite rest_pkd, H46, He. apply gl32_wrapF.
    pose proof (f64_long_s_gl positive int [] 0%Z 0%Z (pkd r off d) eq_refl) as H.
    change (strip_trailing_zeros []) with (@nil N) in H. rewrite app_nil_r in H. exact H.
Qed.

End Glue32.

(* the binary32 twin of LexGlue.lex_glue: Model/NumF32.v's parser, i.e. (by C07_f32_glue_spec) the glue with the algorithm in it *)
Theorem lex_glue32 : forall (E : env) (n : numlit) (positive : bool) (r : bytes) (o : nat) (p : bool) (d : N),
  tm E = TEof ->
  num_ok n = true -> fw n r -> (length (render_abs n) < 100000000)%nat ->
  let '(m0, e0) := lit_value n in
  let s_end := pkd r (o + length (render_abs n)) d in
  if int_syntax n && (m0 <=? Z.of_N u64_max)%Z then
    (* integer literal that fits u64: parse_number's three-way answer; beyond i64 it is -(n as f32) as f64 (one rounding) *)
    parse_integer_s E positive (mkSt (render_abs n ++ r) o p d) =
      Ok (if positive then PU64 (Z.to_N m0) else neg_small_s (Z.to_N m0), s_end)
  else
    exists m e, (0 <= m)%Z /\ same_value m e m0 e0 /\
      match glue_float32 positive m e with
      | Some f => parse_integer_s E positive (mkSt (render_abs n ++ r) o p d) = Ok (PF64 f, s_end)
      | None => exists i, parse_integer_s E positive (mkSt (render_abs n ++ r) o p d) = Err NumberOutOfRange i
      end.
Proof.
  intros E n positive r o p d HE Hok (Hr & Hfe & Hf46) Hlen.
  apply Nat2Z.inj_lt in Hlen. rewrite big_nat, lit_len in Hlen.
  destruct (num_ok_inv n Hok) as (Hint & Hf & Hx).
  unfold lit_value, frac_digits, int_syntax. cbv zeta. rewrite lit_app, lit_len.
  destruct (nfrac n) as [f|] eqn:Hfr; destruct (nexp n) as [[[e sg] ds]|] eqn:Hex; cbn [frac_wf exp_wf] in Hf, Hx;
    cbn [fracl expl app andb length] in *.
  - (* fraction and exponent *)
    destruct Hf as (Hfd & Hfne). destruct Hx as (He & Hsg & c1 & ds' & -> & Hc1 & Hd').
    rewrite <- app_assoc. cbn [app].
    assert (Hb : (Z.of_nat (length (nint n ++ f)) < 100000000)%Z) by (rewrite app_length; lia).
    destruct (k1_dec_val32 E HE positive (nint n) f (e :: sgl sg ++ c1 :: ds' ++ r) (o + length (nint n)) d Hint Hfd Hfne (nd_e e _ He) Hb)
      as (k' & Hk' & Hlit & Hrun2).
    destruct (k2_facts k' Hk') as (H0 & _ & _ & _ & _ & Hsame).
    exists (fst (k2_wit k')), (snd (k2_wit k') + exp_value (Some (e, sg, c1 :: ds')))%Z.
    split; [exact H0|]. split.
    + specialize (Hsame (exp_value (Some (e, sg, c1 :: ds')))). rewrite Hlit in Hsame. cbn [fst snd] in Hsame.
      replace (exp_value (Some (e, sg, c1 :: ds')) - Z.of_nat (length f))%Z
        with (- Z.of_nat (length f) + exp_value (Some (e, sg, c1 :: ds')))%Z by lia.
      exact Hsame.
    + rewrite (parse_integer_val32 E HE positive (nint n) _ o p d Hint (nd_dot _)), Hrun2.
      eapply glp32_st; [apply gl32_wrapF, (k2_exp_val32 E HE); assumption|].
      apply pkd_off. rewrite !app_length. cbn [length]. lia.
  - (* fraction, no exponent *)
    destruct Hf as (Hfd & Hfne). specialize (Hfe eq_refl).
    assert (Hb : (Z.of_nat (length (nint n ++ f)) < 100000000)%Z) by (rewrite app_length; lia).
    destruct (k1_dec_val32 E HE positive (nint n) f r (o + length (nint n)) d Hint Hfd Hfne Hr Hb) as (k' & Hk' & Hlit & Hrun2).
    destruct (k2_facts k' Hk') as (H0 & _ & _ & _ & _ & Hsame).
    exists (fst (k2_wit k')), (snd (k2_wit k')).
    split; [exact H0|]. split.
    + specialize (Hsame 0%Z). rewrite Hlit, !Z.add_0_r in Hsame. cbn [fst snd] in Hsame. cbn [exp_value].
      replace (0 - Z.of_nat (length f))%Z with (- Z.of_nat (length f))%Z by lia. exact Hsame.
    + rewrite (parse_integer_val32 E HE positive (nint n) _ o p d Hint (nd_dot _)), Hrun2.
      eapply glp32_st; [apply gl32_wrapF, (k2_fin_val32 E); assumption|].
      apply pkd_off. lia.
  - (* exponent, no fraction *)
    destruct Hx as (He & Hsg & c1 & ds' & -> & Hc1 & Hd').
    rewrite <- app_assoc. cbn [app].
    assert (Hb : (Z.of_nat (length (nint n)) < 100000000)%Z) by lia.
    destruct (k1_nofrac (nint n) Hint Hb) as (Hk' & Hlit).
    destruct (k2_facts _ Hk') as (H0 & _ & _ & _ & _ & Hsame).
    exists (fst (k2_wit (k2_of (k1_of (nint n))))), (snd (k2_wit (k2_of (k1_of (nint n)))) + exp_value (Some (e, sg, c1 :: ds')))%Z.
    split; [exact H0|]. split.
    + specialize (Hsame (exp_value (Some (e, sg, c1 :: ds')))). rewrite Hlit in Hsame. cbn [fst snd] in Hsame.
      rewrite app_nil_r. replace (exp_value (Some (e, sg, c1 :: ds')) - Z.of_nat 0)%Z
        with (0 + exp_value (Some (e, sg, c1 :: ds')))%Z by lia.
      exact Hsame.
    + rewrite (parse_integer_val32 E HE positive (nint n) _ o p d Hint (nd_e e _ He)).
      rewrite (k1s_exp E HE) by (cbn [hd]; exact He).
      eapply glp32_st; [apply gl32_wrapF, (k2_exp_val32 E HE); assumption|].
      apply pkd_off. rewrite !app_length. cbn [length]. lia.
  - (* integer syntax *)
    specialize (Hfe eq_refl). specialize (Hf46 eq_refl eq_refl).
    rewrite app_nil_r, digits_val_N.
    rewrite (parse_integer_val32 E HE positive (nint n) _ o p d Hint Hr).
    pose proof (k1_fin_val32 E HE positive (nint n) r (o + length (nint n)) d Hf46 Hfe) as Hfin.
    replace (length (nint n) + (0 + 0))%nat with (length (nint n)) by lia.
    destruct (N.leb_spec (nval (nint n) 0) u64_max) as [Hle|Hgt].
    + destruct (Z.leb_spec (Z.of_N (nval (nint n) 0)) (Z.of_N u64_max)) as [_|Hc]; [|lia].
      rewrite N2Z.id. exact Hfin.
    + destruct (Z.leb_spec (Z.of_N (nval (nint n) 0)) (Z.of_N u64_max)) as [Hc|_]; [lia|].
      exists (Z.of_N (nval (nint n) 0)), 0%Z. split; [lia|]. split.
      * cbn [exp_value]. apply same_value_refl.
      * rewrite digits_val_N in Hfin. exact Hfin.
Qed.

(* ================================================================================================ *)
(** * 5. the property itself for f32 targets: the glue (algorithm inside) returns the binary32 nearest (ties to even) to the
      literal's exact value, widened; sign applied (-0.0 and underflow to +-0 included); NumberOutOfRange exactly when that
      nearest binary32 is infinite.  The binary32 twin of LexC07.C07_model / C07_model_negint. *)
From Coq Require Import Reals Lra.
From SJ Require Import Proofs.FloatDefault Proofs.LexOracle32 Proofs.LexFull32 Proofs.LexC07.

Theorem C07_f32_model : forall (E : env) (n : numlit) (positive : bool) (r : bytes) (o : nat) (p : bool) (d : N),
  tm E = TEof -> num_ok n = true -> fw n r -> (length (render_abs n) < 100000000)%nat ->
  is_float_lit n ->
  let x := lit_real n in
  let run := parse_integer_a E positive (mkSt (render_abs n ++ r) o p d) in
  let s_end := pkd r (o + length (render_abs n)) d in
  ((Rabs (RNE32 x) < bpow radix2 128)%R /\
   exists f : b32, run = Ok (PF64 (b64_of_b32 (if positive then f else Bopp f)), s_end) /\
                   is_finite f = true /\ Bsign f = false /\ B2R f = RNE32 x)
  \/
  ((bpow radix2 128 <= Rabs (RNE32 x))%R /\ exists i, run = Err NumberOutOfRange i).
Proof.
  intros E n positive r o p d HE Hok Hfw Hlen Hfl x run s_end.
  unfold run. rewrite (C07_f32_glue_spec E n positive r o p d Hok Hfw Hlen).
  pose proof (lex_glue32 E n positive r o p d HE Hok Hfw Hlen) as G.
  unfold is_float_lit in Hfl. unfold x, lit_real.
  destruct (lit_value n) as [m0 e0] eqn:Hlv. cbn [fst snd] in *.
  rewrite Hfl in G. destruct G as (m & e & Hm & Hsv & G).
  rewrite <- (same_value_real m e m0 e0 Hsv).
  unfold glue_float32 in G. cbv zeta in G.
  assert (Hsign : forall f : b32, (if positive then b64_of_b32 f else b64_neg (b64_of_b32 f)) = b64_of_b32 (if positive then f else Bopp f)).
  { intros f. destruct positive; [reflexivity|]. unfold b64_neg. rewrite b64_of_b32_opp. reflexivity. }
  destruct (Z.eq_dec m 0) as [->|Hne].
  - left. rewrite Rmult_0_l, RNE32_0, Rabs_R0. split; [apply bpow_gt_0|].
    rewrite rne32_nonpos in G by lia. cbn [b32_is_inf] in G.
    exists (B754_zero false). rewrite <- Hsign. split; [exact G|]. repeat split; reflexivity.
  - change NumF32.rne_decimal32 with Lex.rne_decimal32 in G.
    destruct (rne_decimal32_cases m e ltac:(lia)) as [(Hfin & Hs & HR & Hlt)|(Hinf & Hge)].
    + left. split; [exact Hlt|].
      assert (Hni : b32_is_inf (Lex.rne_decimal32 m e) = false).
      { destruct (Lex.rne_decimal32 m e); try reflexivity; discriminate Hfin. }
      rewrite Hni in G. exists (Lex.rne_decimal32 m e). rewrite <- Hsign.
      split; [exact G|]. split; [exact Hfin|]. split; [exact Hs|exact HR].
    + right. split; [exact Hge|]. rewrite Hinf in G. cbn [b32_is_inf] in G. exact G.
Qed.

(* a negative integer literal below i64::MIN (but within u64) — where finding F17 lived — becomes -(n as f32), one rounding, widened *)
Theorem C07_f32_model_negint : forall (E : env) (n : numlit) (r : bytes) (o : nat) (p : bool) (d : N),
  tm E = TEof -> num_ok n = true -> fw n r -> (length (render_abs n) < 100000000)%nat ->
  int_syntax n = true -> (fst (lit_value n) <= Z.of_N u64_max)%Z ->
  (0 <=? wrap_i64 (- wrap_i64 (fst (lit_value n))))%Z = true ->
  exists f : b32,
    parse_integer_a E false (mkSt (render_abs n ++ r) o p d) = Ok (PF64 (b64_of_b32 (Bopp f)), pkd r (o + length (render_abs n)) d) /\
    is_finite f = true /\ Bsign f = false /\ B2R f = RNE32 (IZR (fst (lit_value n))).
Proof.
  intros E n r o p d HE Hok Hfw Hlen Hint Hle Hw.
  rewrite (C07_f32_glue_spec E n false r o p d Hok Hfw Hlen).
  pose proof (lex_glue32 E n false r o p d HE Hok Hfw Hlen) as G.
  destruct (lit_value n) as [m0 e0] eqn:Hlv. cbn [fst snd] in *.
  rewrite Hint in G. replace (m0 <=? Z.of_N u64_max)%Z with true in G by (symmetry; apply Z.leb_le; exact Hle).
  cbn [andb] in G.
  assert (Hm0 : (0 <= m0)%Z).
  { assert (H : m0 = digits_val (nint n ++ frac_digits n) 0) by (unfold lit_value in Hlv; congruence).
    rewrite H, digits_val_N. lia. }
  unfold neg_small_s in G. rewrite Z2N.id in G by exact Hm0. rewrite Hw in G.
  exists (Lex.b32_of_Z m0). split; [|].
  - rewrite G. unfold b64_neg. rewrite b64_of_b32_opp. reflexivity.
  - destruct (Z.eq_dec m0 0) as [->|Hnz].
    + change (Lex.b32_of_Z 0) with (B754_zero false : b32). cbn [is_finite Bsign B2R]. rewrite RNE32_0. auto.
    + rewrite cast32_oracle by lia.
      destruct (rne_decimal32_cases m0 0 ltac:(lia)) as [(Hfin & Hs & HR & _)|(_ & Hge)].
      * rewrite HR. cbn [powerRZ]. rewrite Rmult_1_r. auto.
      * exfalso. cbn [powerRZ] in Hge. rewrite Rmult_1_r in Hge.
        assert (Hb : (RNE32 (IZR m0) <= bpow radix2 64)%R).
        { apply RNE32_le_generic; [apply format_bpow32; lia|]. rewrite bpow_IZR by lia. apply IZR_le.
          unfold u64_max in Hle. change (2 ^ 64)%Z with 18446744073709551616%Z. lia. }
        assert (H0 : (0 <= RNE32 (IZR m0))%R).
        { apply RNE32_ge_generic; [apply generic_format_0|]. apply IZR_le. exact Hm0. }
        rewrite Rabs_pos_eq in Hge by exact H0.
        assert (bpow radix2 64 < bpow radix2 128)%R by (apply bpow_lt; lia). lra.
Qed.

(* serde's f32 visitor narrows with `as f32`: it recovers exactly the binary32 the glue widened, so the typed model's f32 datum
   (reported widened again) is that binary32 *)
Theorem visit_f32_widened : forall (g : b32) (s : st), visit_f32 (PF64 (b64_of_b32 g)) s = TOk (dfloat (b64_of_b32 g), s).
Proof. intros g s. cbn [visit_f32]. rewrite b32_of_b64_of_b32. reflexivity. Qed.

(* ---- non-vacuity / regression: the F17 literal and an overflow, by computation ---- *)
Open Scope N_scope.
Definition Efr32 : env := mkEnv RSlice TEof (mkCfg false true false false).
Definition bits_run (r : res (pnum * st)) : option (N * nat) :=
  match r with Ok (PF64 f, s) => Some (bits_of_b64 f, off s) | _ => None end.
Example glue_examples :
  (* -18446744073709551615 : -(2^64) = 0xc3f0000000000000 as f64, 0xdf800000 as f32; both parsers *)
  bits_run (parse_integer_a Efr32 false (mkSt [49;56;52;52;54;55;52;52;48;55;51;55;48;57;53;53;49;54;49;53] 1 false 128))
    = Some (14118784831806504960, 21%nat) /\
  bits_run (parse_integer_s Efr32 false (mkSt [49;56;52;52;54;55;52;52;48;55;51;55;48;57;53;53;49;54;49;53] 1 false 128))
    = Some (14118784831806504960, 21%nat) /\
  (* 3.4028236e38 : out of range for f32 (it is not for f64) *)
  (exists i, parse_integer_a Efr32 true (mkSt [51;46;52;48;50;56;50;51;54;101;51;56] 0 false 128) = Err NumberOutOfRange i).
Proof. split; [vm_compute; reflexivity|]. split; [vm_compute; reflexivity|]. eexists. vm_compute. reflexivity. Qed.

Print Assumptions parse_integer_glue.
Print Assumptions C07_f32_glue_spec.
Print Assumptions deserialize_f32_glue.
Print Assumptions from_input_typed_f32_glue.
Print Assumptions lex_glue32.
Print Assumptions C07_f32_model.
Print Assumptions C07_f32_model_negint.
Print Assumptions visit_f32_widened.
