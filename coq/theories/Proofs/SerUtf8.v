(* Proofs/SerUtf8.v — UTF-8 validity is preserved by concatenation, and by cutting a valid string at ASCII bytes.
   (Used for C03_utf8 and C13_buf_utf8: string fragments are cut only at escaped bytes, which are ASCII.) *)
From SJ Require Import Base.Bytes Base.Utf8.
From Coq Require Import Lia ZifyBool ZifyN.
Open Scope N_scope.

Lemma utf8_valid_nil : utf8_valid [] = true. Proof. reflexivity. Qed.

Lemma utf8_valid_ascii_cons (b : N) (r : list N) : b < 128 -> utf8_valid (b :: r) = utf8_valid r.
Proof. intros H. cbn [utf8_valid]. destruct (b <? 128) eqn:E; [reflexivity | lia]. Qed.

(* one unfolding step, as an equation on an arbitrary list *)
Lemma utf8_valid_unfold (l : list N) :
  utf8_valid l =
  match l with
  | [] => true
  | b0 :: r0 =>
    if b0 <? 128 then utf8_valid r0
    else match r0 with
    | [] => false
    | b1 :: r1 =>
      if in_rng b0 194 223 then is_cont b1 && utf8_valid r1
      else match r1 with
      | [] => false
      | b2 :: r2 =>
        if b0 =? 224 then in_rng b1 160 191 && is_cont b2 && utf8_valid r2
        else if in_rng b0 225 236 || in_rng b0 238 239 then is_cont b1 && is_cont b2 && utf8_valid r2
        else if b0 =? 237 then in_rng b1 128 159 && is_cont b2 && utf8_valid r2
        else match r2 with
        | [] => false
        | b3 :: r3 =>
          if b0 =? 240 then in_rng b1 144 191 && is_cont b2 && is_cont b3 && utf8_valid r3
          else if in_rng b0 241 243 then is_cont b1 && is_cont b2 && is_cont b3 && utf8_valid r3
          else if b0 =? 244 then in_rng b1 128 143 && is_cont b2 && is_cont b3 && utf8_valid r3
          else false
        end
      end
    end
  end.
Proof. destruct l; reflexivity. Qed.

Lemma is_cont_ge (b : N) : is_cont b = true -> 128 <= b.
Proof. unfold is_cont, in_rng. lia. Qed.
Lemma in_rng_ge (b lo hi : N) : in_rng b lo hi = true -> lo <= b.
Proof. unfold in_rng. lia. Qed.

(* [ascii_head r]: r is empty or starts with an ASCII byte *)
Definition ascii_head (r : list N) : Prop := match r with [] => True | x :: _ => x < 128 end.

Lemma utf8_valid_app_gen (n : nat) : forall a b : list N, (length a <= n)%nat ->
  utf8_valid a = true -> utf8_valid b = true -> utf8_valid (a ++ b) = true.
Proof.
  induction n as [|n IH]; intros a b Hlen Ha Hb.
  - destruct a; [exact Hb | cbn in Hlen; lia].
  - destruct a as [|b0 r0]; [exact Hb|].
    rewrite utf8_valid_unfold in Ha. cbn [app]. rewrite utf8_valid_unfold.
    cbn [length] in Hlen.
    destruct (b0 <? 128); [apply IH; [lia | exact Ha | exact Hb]|].
    destruct r0 as [|b1 r1]; [discriminate|]. cbn [app]. cbn [length] in Hlen.
    destruct (in_rng b0 194 223).
    { apply andb_true_iff in Ha as [H1 H2]. rewrite H1. cbn [andb]. apply IH; [lia | exact H2 | exact Hb]. }
    destruct r1 as [|b2 r2]; [discriminate|]. cbn [app]. cbn [length] in Hlen.
    destruct (b0 =? 224).
    { apply andb_true_iff in Ha as [H1 H2]. rewrite H1. cbn [andb]. apply IH; [lia | exact H2 | exact Hb]. }
    destruct (in_rng b0 225 236 || in_rng b0 238 239).
    { apply andb_true_iff in Ha as [H1 H2]. rewrite H1. cbn [andb]. apply IH; [lia | exact H2 | exact Hb]. }
    destruct (b0 =? 237).
    { apply andb_true_iff in Ha as [H1 H2]. rewrite H1. cbn [andb]. apply IH; [lia | exact H2 | exact Hb]. }
    destruct r2 as [|b3 r3]; [discriminate|]. cbn [app]. cbn [length] in Hlen.
    destruct (b0 =? 240).
    { apply andb_true_iff in Ha as [H1 H2]. rewrite H1. cbn [andb]. apply IH; [lia | exact H2 | exact Hb]. }
    destruct (in_rng b0 241 243).
    { apply andb_true_iff in Ha as [H1 H2]. rewrite H1. cbn [andb]. apply IH; [lia | exact H2 | exact Hb]. }
    destruct (b0 =? 244).
    { apply andb_true_iff in Ha as [H1 H2]. rewrite H1. cbn [andb]. apply IH; [lia | exact H2 | exact Hb]. }
    discriminate.
Qed.

Theorem utf8_valid_app (a b : list N) : utf8_valid a = true -> utf8_valid b = true -> utf8_valid (a ++ b) = true.
Proof. apply (utf8_valid_app_gen (length a)). lia. Qed.

Theorem utf8_valid_concat (l : list (list N)) : Forall (fun b => utf8_valid b = true) l -> utf8_valid (concat l) = true.
Proof.
  induction 1 as [|x r Hx _ IH]; [reflexivity|]. cbn [concat]. apply utf8_valid_app; assumption.
Qed.

(* cutting in front of an ASCII byte (or at the end) *)
Lemma utf8_valid_split_gen (n : nat) : forall a r : list N, (length a <= n)%nat -> ascii_head r ->
  utf8_valid (a ++ r) = true -> utf8_valid a = true /\ utf8_valid r = true.
Proof.
  induction n as [|n IH]; intros a r Hlen Hr H.
  - destruct a; [split; [reflexivity | exact H] | cbn in Hlen; lia].
  - destruct a as [|b0 r0]; [split; [reflexivity | exact H]|].
    cbn [app] in H. rewrite utf8_valid_unfold in H. rewrite (utf8_valid_unfold (b0 :: r0)).
    cbn [length] in Hlen.
    destruct (b0 <? 128); [apply IH; [lia | exact Hr | exact H]|].
    destruct r0 as [|b1 r1].
    { (* the lead byte is followed by the ASCII head: impossible *)
      cbn [app] in H. destruct r as [|x c]; [discriminate|]. cbn [ascii_head] in Hr. exfalso.
      destruct (in_rng b0 194 223).
      { unfold is_cont, in_rng in H. lia. }
      destruct c as [|x2 c2]; [discriminate|].
      destruct (b0 =? 224).
      { unfold is_cont, in_rng in H. lia. }
      destruct (in_rng b0 225 236 || in_rng b0 238 239).
      { unfold is_cont, in_rng in H. lia. }
      destruct (b0 =? 237).
      { unfold is_cont, in_rng in H. lia. }
      destruct c2 as [|x3 c3]; [discriminate|].
      destruct (b0 =? 240).
      { unfold is_cont, in_rng in H. lia. }
      destruct (in_rng b0 241 243).
      { unfold is_cont, in_rng in H. lia. }
      destruct (b0 =? 244).
      { unfold is_cont, in_rng in H. lia. }
      discriminate. }
    cbn [app] in H. cbn [length] in Hlen.
    destruct (in_rng b0 194 223).
    { apply andb_true_iff in H as [H1 H2]. rewrite H1. cbn [andb]. apply IH; [lia | exact Hr | exact H2]. }
    destruct r1 as [|b2 r2].
    { cbn [app] in H. destruct r as [|x c]; [discriminate|]. cbn [ascii_head] in Hr. exfalso.
      destruct (b0 =? 224).
      { unfold is_cont, in_rng in H. lia. }
      destruct (in_rng b0 225 236 || in_rng b0 238 239).
      { unfold is_cont, in_rng in H. lia. }
      destruct (b0 =? 237).
      { unfold is_cont, in_rng in H. lia. }
      destruct c as [|x3 c3]; [discriminate|].
      destruct (b0 =? 240).
      { unfold is_cont, in_rng in H. lia. }
      destruct (in_rng b0 241 243).
      { unfold is_cont, in_rng in H. lia. }
      destruct (b0 =? 244).
      { unfold is_cont, in_rng in H. lia. }
      discriminate. }
    cbn [app] in H. cbn [length] in Hlen.
    destruct (b0 =? 224).
    { apply andb_true_iff in H as [H1 H2]. rewrite H1. cbn [andb]. apply IH; [lia | exact Hr | exact H2]. }
    destruct (in_rng b0 225 236 || in_rng b0 238 239).
    { apply andb_true_iff in H as [H1 H2]. rewrite H1. cbn [andb]. apply IH; [lia | exact Hr | exact H2]. }
    destruct (b0 =? 237).
    { apply andb_true_iff in H as [H1 H2]. rewrite H1. cbn [andb]. apply IH; [lia | exact Hr | exact H2]. }
    destruct r2 as [|b3 r3].
    { cbn [app] in H. destruct r as [|x c]; [discriminate|]. cbn [ascii_head] in Hr. exfalso.
      destruct (b0 =? 240).
      { unfold is_cont, in_rng in H. lia. }
      destruct (in_rng b0 241 243).
      { unfold is_cont, in_rng in H. lia. }
      destruct (b0 =? 244).
      { unfold is_cont, in_rng in H. lia. }
      discriminate. }
    cbn [app] in H. cbn [length] in Hlen.
    destruct (b0 =? 240).
    { apply andb_true_iff in H as [H1 H2]. rewrite H1. cbn [andb]. apply IH; [lia | exact Hr | exact H2]. }
    destruct (in_rng b0 241 243).
    { apply andb_true_iff in H as [H1 H2]. rewrite H1. cbn [andb]. apply IH; [lia | exact Hr | exact H2]. }
    destruct (b0 =? 244).
    { apply andb_true_iff in H as [H1 H2]. rewrite H1. cbn [andb]. apply IH; [lia | exact Hr | exact H2]. }
    discriminate.
Qed.

Theorem utf8_valid_split (a r : list N) : ascii_head r ->
  utf8_valid (a ++ r) = true -> utf8_valid a = true /\ utf8_valid r = true.
Proof. apply (utf8_valid_split_gen (length a)). lia. Qed.

Lemma forallb_ascii_utf8 (l : list N) : forallb (fun b => b <? 128) l = true -> utf8_valid l = true.
Proof.
  induction l as [|b r IH]; [reflexivity|]. cbn [forallb]. intros H. apply andb_true_iff in H as [H1 H2].
  rewrite utf8_valid_ascii_cons by lia. apply IH, H2.
Qed.

(* every scalar value encodes to valid UTF-8: checked by running over all 0x110000 code points *)
Fixpoint all_from (fuel : nat) (n : N) (p : N -> bool) : bool :=
  match fuel with O => true | S f => p n && all_from f (n + 1) p end.
Lemma all_from_spec (p : N -> bool) (fuel : nat) : forall n, all_from fuel n p = true ->
  forall c, n <= c -> c < n + N.of_nat fuel -> p c = true.
Proof.
  induction fuel as [|f IH]; intros n H c H1 H2; [lia|].
  cbn [all_from] in H. apply andb_true_iff in H as [Hn Hr].
  destruct (N.eq_dec c n) as [->|Hne]; [exact Hn|]. apply (IH (n + 1) Hr); lia.
Qed.

Lemma utf8_encode_valid_all :
  all_from (N.to_nat 1114112) 0 (fun c => negb (is_scalar c) || utf8_valid (utf8_encode c)) = true.
Proof. vm_compute. reflexivity. Qed.

Lemma utf8_encode_valid c : is_scalar c = true -> utf8_valid (utf8_encode c) = true.
Proof.
  intros H. assert (Hc : c < 1114112) by (unfold is_scalar in H; lia).
  pose proof (all_from_spec _ _ 0 utf8_encode_valid_all c) as P. cbn beta in P.
  rewrite H in P. cbn [negb orb] in P. apply P; lia.
Qed.


Print Assumptions utf8_valid_app.
Print Assumptions utf8_valid_split.
Print Assumptions utf8_encode_valid.
