(* Proofs/TypedPrefixBase.v — prefix dichotomy for the TYPED deserializer (Model/DeTyped.v), part 1:
   the framework of Proofs/PrefixBase.v extended to [tres], and the helpers of DeTyped.v that are not
   recursive in the type program.

   As in PrefixBase, a PREFIX run (environment E1, state s) is compared with an EXTENDED run (E2, [ext s]).
   The relation [tdich S rp rpt] on [tres] is weaker than [dich] on [res] in two respects, both forced by
   the typed code:
     * serde data errors (ErrorCode::Message, here [TUnpos] until fix_position) get their position from
       whatever the parser does afterwards (peek_invalid_type parses the offending scalar; end_seq()/end_map()
       run after a failed visitor), so the two runs need not agree on them: for such "soft" errors only
       "the extended run is not Ok either" is claimed;
     * end_seq() after `,` at a genuine end of input reports TrailingCharacters (typed fixed-length
       sequences reach this); every extension fails as well, so it is treated the same way.
   All other errors behave as in the untyped parser: the runs agree, or the prefix run stopped at the
   boundary with the boundary outcome [bnd]. *)
From SJ Require Import Base.Bytes Base.Utf8 Base.FloatB Gen.Tables
  Model.Read Model.Str Model.Num Model.NumF32 Model.Value Model.De Model.Ignore Model.Ty Model.DeTyped.
From SJ Require Import Proofs.PrefixBase Proofs.PrefixStr Proofs.PrefixNum Proofs.PrefixDe Proofs.PrefixIgnore.
Require Import Lia ZifyBool ZifyNat ZifyN.
Open Scope N_scope.
#[local] Arguments iv {X}.
#[local] Arguments ex {X}.
#[local] Arguments tch {X}.
#[local] Arguments mkShape {X}.

(* ---------- results that are not Ok ---------- *)
Definition notok {X} (r : tres X) : Prop := match r with TOk _ => False | _ => True end.

Lemma notok_tbind {X Y} (r : tres X) (g : X -> tres Y) : notok r -> notok (tbind r g).
Proof. destruct r; cbn [notok tbind]; auto. intros []. Qed.

Lemma notok_tbind_all {X Y} (r : tres X) (g : X -> tres Y) : (forall x, notok (g x)) -> notok (tbind r g).
Proof. intros H. destruct r; cbn [notok tbind]; auto. Qed.

Lemma notok_lift_err {X} (r : res X) : (forall x, r <> Ok x) -> notok (lift r).
Proof. destruct r; cbn [lift notok]; auto. intros H. now apply (H a). Qed.

Lemma notok_fix_position {X} E (r : tres X) : notok r -> notok (fix_position E r).
Proof. destruct r; cbn [notok fix_position]; auto. Qed.

Lemma notok_tmap {A B} (f : A -> B) (r : tres (A * st)) : notok r -> notok (tmap f r).
Proof. unfold tmap. apply notok_tbind. Qed.

Lemma lift_bind {X Y} (r : res X) (g : X -> res Y) : lift (bind r g) = tbind (lift r) (fun x => lift (g x)).
Proof. destruct r; reflexivity. Qed.

Lemma lift_ok_inv {X} (r : res X) (x : X) : lift r = TOk x -> r = Ok x.
Proof. destruct r; cbn [lift]; congruence. Qed.

Lemma tbind_assoc {X Y Z} (r : tres X) (f : X -> tres Y) (g : Y -> tres Z) :
  tbind (tbind r f) g = tbind r (fun a => tbind (f a) g).
Proof. destruct r; reflexivity. Qed.

Section TDich.
Variable C : ctx.
Notation rk0 := (c_rk C).
Notation cf0 := (c_cf C).
Notation tm1 := (c_tm1 C).
Notation tm2 := (c_tm2 C).
Notation t := (c_t C).
Notation L := (c_L C).
Notation E1 := (mkEnv (c_rk C) (c_tm1 C) (c_cf C)).
Notation E2 := (mkEnv (c_rk C) (c_tm2 C) (c_cf C)).

(* errors on which the two runs need not agree (the extended run is then only known to fail as well) *)
Definition soft (c : ecode) : Prop := (exists m, c = Message m) \/ (tm1 = TEof /\ c = TrailingCharacters).

Definition tdich {X} (S : shape X) (rp rpt : tres X) : Prop :=
  match rp with
  | TOk x => iv S x /\ (rpt = TOk (ex S x) \/ tch S x)
  | TErr c i => rpt = TErr c i \/ bnd C c i \/ (soft c /\ notok rpt)
  | TUnpos _ _ => notok rpt
  | TFuel => True
  | TPanic => True        (* totality (no TFuel / TPanic) is a separate property; see the note at [frame_k_dich] *)
  end.

Definition teofc {X} (S : shape X) (rp : tres X) : Prop :=
  match rp with
  | TOk x => iv S x /\ tch S x
  | TErr c i => bnd C c i
  | TUnpos _ _ => False
  | TFuel => True
  | TPanic => True
  end.

Lemma tdich_of_teofc {X} (S : shape X) rp rpt : teofc S rp -> tdich S rp rpt.
Proof. destruct rp; cbn [teofc tdich]; intros H; intuition. Qed.

Lemma lift_dich {X} (S : shape X) rp rpt : dich C S rp rpt -> tdich S (lift rp) (lift rpt).
Proof.
  destruct rp as [x|c i| |]; cbn [dich lift tdich]; auto.
  - intros [Hi [-> | Ht]]; auto.
  - intros [_ [-> | Hb]]; auto.
Qed.

Lemma lift_eofc {X} (S : shape X) rp : eofc C S rp -> teofc S (lift rp).
Proof. destruct rp as [x|c i| |]; cbn [eofc lift teofc]; auto. intros [_ H]; exact H. Qed.

(* the general bind: in the boundary case the extended run is available to the continuation *)
Lemma tbind_dich_gen {X Y} (S : shape X) (S' : shape Y) rp rpt (g1 g2 : X -> tres Y) :
  tdich S rp rpt ->
  (forall x, rp = TOk x -> iv S x -> tdich S' (g1 x) (g2 (ex S x))) ->
  (forall x, rp = TOk x -> iv S x -> tch S x -> tdich S' (g1 x) (tbind rpt g2)) ->
  tdich S' (tbind rp g1) (tbind rpt g2).
Proof.
  intros Hd Hg He. destruct rp as [x|c i|k s| |]; cbn [tdich tbind] in *.
  - destruct Hd as [Hi [-> | Ht]]; [cbn [tbind]; now apply Hg|now apply He].
  - destruct Hd as [-> | [Hb | [Hs Hn]]]; cbn [tbind]; auto. right; right. split; [assumption|now apply notok_tbind].
  - now apply notok_tbind.
  - exact I.
  - exact I.
Qed.

Lemma tbind_dich {X Y} (S : shape X) (S' : shape Y) rp rpt (g1 g2 : X -> tres Y) :
  tdich S rp rpt ->
  (forall x, rp = TOk x -> iv S x -> tdich S' (g1 x) (g2 (ex S x))) ->
  (forall x, rp = TOk x -> iv S x -> tch S x -> teofc S' (g1 x)) ->
  tdich S' (tbind rp g1) (tbind rpt g2).
Proof.
  intros Hd Hg He. apply (tbind_dich_gen S S'); [assumption..|].
  intros x Hx Hi Ht. apply tdich_of_teofc. now apply He.
Qed.

Lemma tbind_eofc {X Y} (S : shape X) (S' : shape Y) rp (g1 : X -> tres Y) :
  teofc S rp ->
  (forall x, rp = TOk x -> iv S x -> tch S x -> teofc S' (g1 x)) ->
  teofc S' (tbind rp g1).
Proof.
  intros Hd He. destruct rp as [x|c i|k s| |]; cbn [teofc tbind] in *; auto.
  destruct Hd. now apply He.
Qed.

(* ---- binds specialised to the common shapes ---- *)
Lemma tbindP {A Y} (bm : A -> Prop) (S' : shape Y) rp rpt (g1 g2 : A * st -> tres Y) :
  tdich (ShP C bm) rp rpt ->
  (forall a s', rp = TOk (a, s') -> inv C s' -> tdich S' (g1 (a, s')) (g2 (a, ext C s'))) ->
  (forall a s', rp = TOk (a, s') -> inv C s' -> touched s' -> bm a -> teofc S' (g1 (a, s'))) ->
  tdich S' (tbind rp g1) (tbind rpt g2).
Proof.
  intros Hd Hg He. apply (tbind_dich (ShP C bm) S'); [assumption| |].
  - intros [a s'] Hr Hi. now apply Hg.
  - intros [a s'] Hr Hi [Ht Hb]. now apply He.
Qed.

Lemma tbindP_gen {A Y} (bm : A -> Prop) (S' : shape Y) rp rpt (g1 g2 : A * st -> tres Y) :
  tdich (ShP C bm) rp rpt ->
  (forall a s', rp = TOk (a, s') -> inv C s' -> tdich S' (g1 (a, s')) (g2 (a, ext C s'))) ->
  (forall a s', rp = TOk (a, s') -> inv C s' -> touched s' -> bm a -> tdich S' (g1 (a, s')) (tbind rpt g2)) ->
  tdich S' (tbind rp g1) (tbind rpt g2).
Proof.
  intros Hd Hg He. apply (tbind_dich_gen (ShP C bm) S'); [assumption| |].
  - intros [a s'] Hr Hi. now apply Hg.
  - intros [a s'] Hr Hi [Ht Hb]. now apply He.
Qed.

Lemma tbind_strict {A Y} (S' : shape Y) rp rpt (g1 g2 : A * st -> tres Y) :
  tdich (ShP C nov) rp rpt ->
  (forall a s', rp = TOk (a, s') -> inv C s' -> tdich S' (g1 (a, s')) (g2 (a, ext C s'))) ->
  tdich S' (tbind rp g1) (tbind rpt g2).
Proof. intros Hd Hg. apply (tbindP nov S'); [assumption..|]. intros a s' _ _ _ []. Qed.

Lemma tbindS {Y} (S' : shape Y) rp rpt (g1 g2 : st -> tres Y) :
  tdich (ShS C) rp rpt ->
  (forall s', rp = TOk s' -> inv C s' -> tdich S' (g1 s') (g2 (ext C s'))) ->
  (forall s', rp = TOk s' -> inv C s' -> touched s' -> teofc S' (g1 s')) ->
  tdich S' (tbind rp g1) (tbind rpt g2).
Proof. intros Hd Hg He. now apply (tbind_dich (ShS C) S'). Qed.

Lemma tbindSn {Y} (S' : shape Y) rp rpt (g1 g2 : st -> tres Y) :
  tdich (ShSn C) rp rpt ->
  (forall s', rp = TOk s' -> inv C s' -> tdich S' (g1 s') (g2 (ext C s'))) ->
  tdich S' (tbind rp g1) (tbind rpt g2).
Proof. intros Hd Hg. apply (tbind_dich (ShSn C) S'); [assumption..|]. intros s' _ _ []. Qed.

Lemma tbind_eofcP {A Y} (bm : A -> Prop) (S' : shape Y) rp (g1 : A * st -> tres Y) :
  teofc (ShP C bm) rp ->
  (forall a s', rp = TOk (a, s') -> inv C s' -> touched s' -> bm a -> teofc S' (g1 (a, s'))) ->
  teofc S' (tbind rp g1).
Proof.
  intros Hd He. apply (tbind_eofc (ShP C bm) S'); [assumption|].
  intros [a s'] Hr Hi [Ht Hb]. now apply He.
Qed.

Lemma tbind_eofcS {Y} (S' : shape Y) rp (g1 : st -> tres Y) :
  teofc (ShS C) rp ->
  (forall s', rp = TOk s' -> inv C s' -> touched s' -> teofc S' (g1 s')) ->
  teofc S' (tbind rp g1).
Proof. intros Hd He. now apply (tbind_eofc (ShS C) S'). Qed.

(* a boundary-mode computation that cannot be Ok *)
Lemma tbind_eofc_none {X Y} (S : shape X) (S' : shape Y) rp (g1 : X -> tres Y) :
  teofc S rp -> (forall x, ~ tch S x) -> teofc S' (tbind rp g1).
Proof.
  intros Hd Hn. destruct rp as [x|c i|k s| |]; cbn [teofc tbind] in *; auto.
  destruct Hd as [_ Ht]. now destruct (Hn x).
Qed.

(* ---- weakening ---- *)
Lemma tdich_weaken {A} (bm bm' : A -> Prop) rp rpt :
  (forall a, bm a -> bm' a) -> tdich (ShP C bm) rp rpt -> tdich (ShP C bm') rp rpt.
Proof.
  intros H. destruct rp as [[a s]|c i|k s| |]; cbn [tdich ShP iv tch ex fst snd]; auto.
  intros [Hi [Hd | [Ht Hb]]]; auto.
Qed.

Lemma tdich_strict_any {A} (bm : A -> Prop) rp rpt : tdich (ShP C nov) rp rpt -> tdich (ShP C bm) rp rpt.
Proof. apply tdich_weaken. intros a []. Qed.

Lemma teofc_weaken {A} (bm bm' : A -> Prop) rp :
  (forall a, bm a -> bm' a) -> teofc (ShP C bm) rp -> teofc (ShP C bm') rp.
Proof.
  intros H. destruct rp as [[a s]|c i|k s| |]; cbn [teofc ShP iv tch ex fst snd]; auto.
  intros [Hi [Ht Hb]]; auto.
Qed.

Lemma tdich_Sn_S rp rpt : tdich (ShSn C) rp rpt -> tdich (ShS C) rp rpt.
Proof. destruct rp; cbn [tdich ShS ShSn iv tch ex]; auto. intros [Hi [Hd | []]]; auto. Qed.

(* ---- returns ---- *)
Lemma tret_dich {A} (bm : A -> Prop) (a : A) s : inv C s -> tdich (ShP C bm) (TOk (a, s)) (TOk (a, ext C s)).
Proof. intros H. cbn [tdich ShP iv ex tch fst snd]. auto. Qed.
Lemma tret_eofc {A} (bm : A -> Prop) (a : A) s : inv C s -> touched s -> bm a -> teofc (ShP C bm) (TOk (a, s)).
Proof. intros H Ht Hb. cbn [teofc ShP iv ex tch fst snd]. auto. Qed.

(* ---- fix_position, tmap ---- *)
Lemma fix_position_dich {X} (S : shape X) rp rpt :
  tdich S rp rpt -> tdich S (fix_position E1 rp) (fix_position E2 rpt).
Proof.
  destruct rp as [x|c i|k s| |]; cbn [tdich fix_position].
  - intros [Hi [-> | Ht]]; auto.
  - intros [-> | [Hb | [Hs Hn]]]; auto. right; right. split; [assumption|now apply notok_fix_position].
  - intros Hn. right; right. split; [left; eauto|now apply notok_fix_position].
  - auto.
  - auto.
Qed.

Lemma fix_position_eofc {X} (S : shape X) rp : teofc S rp -> teofc S (fix_position E1 rp).
Proof. destruct rp; cbn [teofc fix_position]; auto. intros []. Qed.

Lemma tmap_dich {A B} (bm : A -> Prop) (bm' : B -> Prop) (f : A -> B) rp rpt :
  (forall a, bm a -> bm' (f a)) ->
  tdich (ShP C bm) rp rpt -> tdich (ShP C bm') (tmap f rp) (tmap f rpt).
Proof.
  intros Hb Hd. unfold tmap. apply (tbindP bm); [assumption| |].
  - intros a s' _ Hi. now apply tret_dich.
  - intros a s' _ Hi Ht Ha. apply tret_eofc; auto.
Qed.

Lemma tmap_eofc {A B} (bm : A -> Prop) (bm' : B -> Prop) (f : A -> B) rp :
  (forall a, bm a -> bm' (f a)) ->
  teofc (ShP C bm) rp -> teofc (ShP C bm') (tmap f rp).
Proof.
  intros Hb Hd. unfold tmap. apply (tbind_eofcP bm); [assumption|].
  intros a s' _ Hi Ht Ha. apply tret_eofc; auto.
Qed.

(* ---------- boundary-mode behaviour of the closing checks ---------- *)
Lemma end_seq_eofc s : inv C s -> touched s -> eofc C (ShSn C) (end_seq E1 s).
Proof.
  intros Hi Ht. unfold end_seq.
  apply (bind_eofcP C (isNone C)); [now apply parse_whitespace_eofc|].
  intros o s1 _ Hi1 Ht1 [-> Htm]. cbv beta iota. apply peek_error_eofc; auto using eofish_list.
Qed.

Lemma end_map_eofc s : inv C s -> touched s -> eofc C (ShSn C) (end_map E1 s).
Proof.
  intros Hi Ht. unfold end_map.
  apply (bind_eofcP C (isNone C)); [now apply parse_whitespace_eofc|].
  intros o s1 _ Hi1 Ht1 [-> Htm]. cbv beta iota. apply peek_error_eofc; auto using eofish_obj.
Qed.

Lemma parse_object_colon_eofc s : inv C s -> touched s -> eofc C (ShSn C) (parse_object_colon E1 s).
Proof.
  intros Hi Ht. unfold parse_object_colon.
  apply (bind_eofcP C (isNone C)); [now apply parse_whitespace_eofc|].
  intros o s1 _ Hi1 Ht1 [-> Htm]. cbv beta iota. apply peek_error_eofc; auto using eofish_obj.
Qed.

Lemma leave_touched s s' : leave E1 s = Ok s' -> touched s -> touched s'.
Proof.
  unfold leave, touched. destruct (limit_disabled _); [now intros [= <-]|].
  destruct (255 <=? depth s); [discriminate|]. intros [= <-]. cbn [rest pk]. auto.
Qed.

(* ---------- end_seq from an arbitrary state (typed fixed-length sequences) ---------- *)
Lemma soft_trailing : tm1 = TEof -> soft TrailingCharacters.
Proof. intros H. right. auto. Qed.

Lemma end_seq_tdich s : inv C s ->
  tdich (ShSn C) (lift (end_seq E1 s)) (lift (end_seq E2 (ext C s))).
Proof.
  intros Hi. unfold end_seq. rewrite !lift_bind.
  apply (tbindP (isNone C)); [apply lift_dich; now apply parse_whitespace_dich| |].
  2:{ intros o s1 _ Hi1 Ht1 [-> Htm]. cbv beta iota. apply lift_eofc. apply peek_error_eofc; auto using eofish_list. }
  intros o s1 Hp Hi1. cbv beta iota. apply lift_ok_inv in Hp. apply (pw_facts C) in Hp. destruct o as [b|].
  2:{ apply lift_dich. apply peek_error_dich; [assumption|]. right. split; [assumption|apply eofish_list]. }
  destruct (b =? 93).
  { rewrite discard_ext by assumption. apply lift_dich. apply retSn_dich. now apply inv_discard. }
  destruct (b =? 44); [|apply lift_dich; apply peek_error_dich; auto].
  rewrite discard_ext by assumption. rewrite !lift_bind.
  apply (tbindP_gen (isNone C)); [apply lift_dich; apply parse_whitespace_dich; now apply inv_discard| |].
  - intros o2 s2 Hp2 Hi2. cbv beta iota. apply lift_ok_inv in Hp2. apply (pw_facts C) in Hp2. destruct o2 as [b2|].
    + destruct (b2 =? 93); apply lift_dich; apply peek_error_dich; auto.
    + cbn [lift peek_error tdich]. right; right. split; [now apply soft_trailing|exact I].
  - intros o2 s2 _ Hi2 Ht2 [-> Htm]. cbv beta iota. cbn [lift peek_error tdich]. right; right.
    split; [now apply soft_trailing|]. apply notok_tbind_all. intros [o3 s3].
    destruct o3 as [b3|]; [destruct (b3 =? 93)|]; exact I.
Qed.

(* ---------- peek_invalid_type: always an error; the two runs agree, or the prefix run hit the boundary,
              or (scalar cut at the boundary) the prefix run reports the data error and the extended run fails ---------- *)
Lemma peek_invalid_type_dich {A} (S : shape A) s : inv C s -> live s ->
  tdich S (peek_invalid_type E1 s) (peek_invalid_type E2 (ext C s)).
Proof.
  intros Hi Hl. unfold peek_invalid_type.
  destruct (rest s) as [|b r] eqn:Hr; [now destruct Hl|].
  assert (Hp1 : peek_or_null E1 s = Ok (b, mkSt (rest s) (off s) true (depth s))).
  { unfold peek_or_null, peek. rewrite Hr. reflexivity. }
  assert (Hp2 : peek_or_null E2 (ext C s) = Ok (b, ext C (mkSt (rest s) (off s) true (depth s)))).
  { unfold peek_or_null, peek, ext. cbn [rest off pk depth]. rewrite Hr. reflexivity. }
  rewrite Hp1, Hp2. clear Hp1 Hp2.
  set (s0 := mkSt (rest s) (off s) true (depth s)).
  assert (Hi0 : inv C s0).
  { destruct Hi as [Ho _]. apply inv_mk; [exact Ho|]. intros _. rewrite Hr. discriminate. }
  assert (Hl0 : live s0) by (unfold live, s0; cbn [rest]; rewrite Hr; discriminate).
  assert (Hid : inv C (discard s0)) by now apply inv_discard.
  clearbody s0. cbv zeta.
  assert (Hit : forall s', tdich S (@TErr A (Message MInvalidType) (err_idx E1 s'))
                                   (@TErr A (Message MInvalidType) (err_idx E2 (ext C s')))).
  { intros s'. cbn [tdich]. left. reflexivity. }
  destruct (b =? 110).
  { rewrite discard_ext by assumption. apply tbindSn; [apply lift_dich; now apply parse_ident_dich|]. intros; apply Hit. }
  destruct (b =? 116).
  { rewrite discard_ext by assumption. apply tbindSn; [apply lift_dich; now apply parse_ident_dich|]. intros; apply Hit. }
  destruct (b =? 102).
  { rewrite discard_ext by assumption. apply tbindSn; [apply lift_dich; now apply parse_ident_dich|]. intros; apply Hit. }
  destruct (b =? 45).
  { rewrite discard_ext by assumption.
    apply (tbindP_gen anyv); [apply lift_dich; now apply parse_any_number_dich| |].
    - intros p s2 _ _. apply Hit.
    - intros p s2 _ _ _ _. cbn [tdich]. right; right. split; [left; eauto|].
      apply notok_tbind_all. intros [p' s2']. exact I. }
  destruct (is_digit b).
  { apply (tbindP_gen anyv); [apply lift_dich; now apply parse_any_number_dich| |].
    - intros p s2 _ _. apply Hit.
    - intros p s2 _ _ _ _. cbn [tdich]. right; right. split; [left; eauto|].
      apply notok_tbind_all. intros [p' s2']. exact I. }
  destruct (b =? 34).
  { rewrite discard_ext by assumption. apply tbind_strict; [apply lift_dich; now apply parse_str_dich|].
    intros [str bw] s2 _ _. apply Hit. }
  destruct ((b =? 91) || (b =? 123)); [apply Hit|].
  apply lift_dich. apply peek_error_dich; auto.
Qed.

Lemma peek_invalid_type_notok {A} E s : notok (@peek_invalid_type A E s).
Proof.
  unfold peek_invalid_type.
  destruct (match peek_or_null E s with Ok (b, s') => (b, s') | _ => (0, s) end) as [b s0]. cbv zeta.
  repeat match goal with
  | |- notok (if ?c then _ else _) => destruct c
  | |- notok (tbind _ _) => apply notok_tbind_all; intros
  | |- notok (let '(_, _) := ?x in _) => destruct x
  end; exact I.
Qed.

(* ---------- Read::parse_str_raw, scan_integer128 (not covered by PrefixStr / PrefixNum) ---------- *)
Lemma parse_str_raw_dich s : inv C s ->
  dich C (ShP C nov) (parse_str_raw E1 s) (parse_str_raw E2 (ext C s)).
Proof.
  intros Hi. unfold parse_str_raw. cbn [rk]. pose proof (str_fuel_ext C s) as Hf.
  destruct rk0 eqn:Hrk; rewrite <- Hrk.
  - apply bind_dich_strict.
    + apply slice_str_loop_dich; [congruence|assumption..].
    + intros [out cp] s1 _ Hi1. cbv beta iota. now apply ret_dich.
  - apply bind_dich_strict.
    + apply slice_str_loop_dich; [congruence|assumption..].
    + intros [out cp] s1 _ Hi1. cbv beta iota. now apply ret_dich.
  - apply bind_dich_strict; [now apply io_str_loop_dich|].
    intros out s1 _ Hi1. cbv beta iota. now apply ret_dich.
Qed.

Lemma scan_integer128_dich s : inv C s ->
  dich C (ShP C anyv) (scan_integer128 E1 s) (scan_integer128 E2 (ext C s)).
Proof.
  intros Hi. unfold scan_integer128.
  apply (bind_dichP C (isNone C)); [now apply next_dich| |].
  2:{ intros o s1 _ Hi1 Ht1 [-> Htm]. cbv beta iota. apply error_eofc; auto using eofish_val. }
  intros o s1 _ Hi1. cbv beta iota. destruct o as [c|]; [|now apply error_dich].
  destruct (c =? 48).
  { apply (bind_dichP C (isZero C)); [now apply peek_or_null_dich| |].
    - intros c2 s2 Hp Hi2. cbv beta iota. apply (pon_okst C) in Hp. destruct Hp as [Hok Hlv].
      destruct (is_digit c2) eqn:Hd; [|now apply ret_dich].
      apply peek_error_dich; [assumption|]. left. apply Hlv. now apply is_digit_nz.
    - intros c2 s2 _ Hi2 Ht2 [-> Htm]. cbv beta iota. change (is_digit 0) with false. cbv iota.
      apply ret_eofc; auto. exact I. }
  destruct (is_digit19 c); [|now apply error_dich].
  cbv zeta. rewrite (PrefixNum.rest_ext C).
  pose proof (span_len_le is_digit (rest s1)) as Hle.
  destruct (span_cases is_digit (rest s1)) as [Hb | (b & r & Hs & Hpb & Hn)].
  - apply dich_of_eofc.
    apply (bind_eofcP C (isZero C)); [apply peek_or_null_eofc; [now apply touched_advance_all|now apply inv_advance]|].
    intros c2 s2 _ Hi2 Ht2 _. cbv beta iota. apply ret_eofc; auto; exact I.
  - rewrite Hn, firstn_app_le, advance_ext by assumption.
    apply (bind_dichP C (isZero C)); [apply peek_or_null_dich; now apply inv_advance| |].
    + intros c2 s2 _ Hi2. cbv beta iota. now apply ret_dich.
    + intros c2 s2 _ Hi2 Ht2 _. cbv beta iota. apply ret_eofc; auto; exact I.
Qed.

End TDich.
