(* Proofs/LexBigPow.v — refinement of the limb-level big integers of Model/LexBig.v, part 3:
   imul_pow2, imul_pow5 (both paths), imul_pow10.

   imul_pow5 has two paths.  The one by small powers (5^27 repeatedly, then the remainder) is total and correct; it is
   taken when  x.len() + large_powers[bit_length(n) - 1].len() < 64.  The one by large powers goes through
   large::imul, i.e. Karatsuba, which can fail: it is correct whenever it returns (partial correctness). *)
From Coq Require Import NArith ZArith List Bool Arith Lia ZifyBool ZifyNat ZifyN.
From SJ Require Import Gen.LexTables Model.Lex Model.LexBig Proofs.LexBigBase Proofs.LexBigMul Proofs.LexTables.
Import ListNotations.
Open Scope Z_scope.

Arguments N.mul : simpl never.
Arguments N.add : simpl never.
Arguments N.sub : simpl never.
Arguments Z.mul : simpl never.
Arguments Z.add : simpl never.
Arguments Z.sub : simpl never.
Arguments Z.pow : simpl never.
Arguments Z.of_N : simpl never.

Notation len x := (Z.of_nat (length x)).

(* ------------------------------------------------------------------------------------------------ *)
(** * the tables *)
Lemma limbs_value_val (l : list N) : limbs_value l = val l.
Proof. induction l as [|a r IH]; [reflexivity|]. cbn [limbs_value fold_right val]. fold (limbs_value r). rewrite IH. reflexivity. Qed.

Lemma pow5_limb_nth (i : nat) : (i < 28)%nat ->
  exists p, nth_error POW5_LIMB i = Some p /\ Z.of_N p = 5 ^ Z.of_nat i /\ (p < LB)%N /\ p <> 0%N.
Proof.
  intros Hi. destruct pow5_pow10_limb_tables as (H5 & _). unfold POW5_LIMB. rewrite H5.
  exists (Z.to_N (5 ^ Z.of_nat i)).
  split.
  - rewrite (nth_error_nth' _ 0%N) by (rewrite map_length, seq_length; exact Hi).
    f_equal.
    rewrite (nth_indep _ 0%N (Z.to_N (5 ^ Z.of_nat 0))) by (rewrite map_length, seq_length; exact Hi).
    rewrite (map_nth (fun i => Z.to_N (5 ^ Z.of_nat i)) (seq 0 28) 0%nat i). rewrite seq_nth by exact Hi. reflexivity.
  - assert (Hp : 0 < 5 ^ Z.of_nat i) by (apply Z.pow_pos_nonneg; lia).
    assert (Hb : 5 ^ Z.of_nat i <= 5 ^ 27) by (apply Z.pow_le_mono_r; lia).
    rewrite Z2N.id by lia. split; [reflexivity|]. split; [|lia].
    assert (5 ^ 27 < Z.of_N LB) by reflexivity. lia.
Qed.

Lemma pow10_limb_nth (i : nat) : (i < 20)%nat ->
  exists p, nth_error POW10_LIMB i = Some p /\ Z.of_N p = 10 ^ Z.of_nat i /\ (p < LB)%N /\ p <> 0%N.
Proof.
  intros Hi. destruct pow5_pow10_limb_tables as (_ & H10 & _). unfold POW10_LIMB. rewrite H10.
  exists (Z.to_N (10 ^ Z.of_nat i)).
  split.
  - rewrite (nth_error_nth' _ 0%N) by (rewrite map_length, seq_length; exact Hi).
    f_equal.
    rewrite (nth_indep _ 0%N (Z.to_N (10 ^ Z.of_nat 0))) by (rewrite map_length, seq_length; exact Hi).
    rewrite (map_nth (fun i => Z.to_N (10 ^ Z.of_nat i)) (seq 0 20) 0%nat i). rewrite seq_nth by exact Hi. reflexivity.
  - assert (Hp : 0 < 10 ^ Z.of_nat i) by (apply Z.pow_pos_nonneg; lia).
    assert (Hb : 10 ^ Z.of_nat i <= 10 ^ 19) by (apply Z.pow_le_mono_r; lia).
    rewrite Z2N.id by lia. split; [reflexivity|]. split; [|lia].
    assert (10 ^ 19 < Z.of_N LB) by reflexivity. lia.
Qed.

Definition limbs_okb (l : list N) : bool := forallb (fun a => (a <? LB)%N) l.
Lemma limbs_okb_ok (l : list N) : limbs_okb l = true -> limbs_ok l.
Proof.
  unfold limbs_okb, limbs_ok. rewrite forallb_forall, Forall_forall. intros H a Ha. apply N.ltb_lt. exact (H a Ha).
Qed.

Lemma large_tables_ok :
  forallb (fun l => limbs_okb l && negb (N.eqb (last l 1%N) 0) && negb (Nat.eqb (length l) 0)) LARGE_POW5_LIMBS = true.
Proof. vm_compute. reflexivity. Qed.

Lemma large_pow5_nth (idx : nat) : (idx < 14)%nat ->
  exists lp, nth_error LARGE_POW5_LIMBS idx = Some lp /\ val lp = 5 ^ (2 ^ Z.of_nat idx) /\ limbs_ok lp /\ normalized lp /\ lp <> [].
Proof.
  intros Hi. destruct pow5_pow10_limb_tables as (_ & _ & Hv & Hlen & _).
  exists (nth idx LARGE_POW5_LIMBS []).
  split; [apply nth_error_nth'; rewrite Hlen; exact Hi|].
  split.
  - rewrite <- limbs_value_val, <- (Hv idx Hi).
    change 0 with (limbs_value []). symmetry. apply map_nth.
  - pose proof large_tables_ok as Hall. rewrite forallb_forall in Hall.
    specialize (Hall (nth idx LARGE_POW5_LIMBS []) ltac:(apply nth_In; rewrite Hlen; exact Hi)).
    apply andb_prop in Hall. destruct Hall as (Hall & H3). apply andb_prop in Hall. destruct Hall as (H1 & H2).
    split; [apply limbs_okb_ok; exact H1|]. split.
    + unfold normalized. intros E. rewrite E in H2. discriminate.
    + intros E. rewrite E in H3. discriminate.
Qed.

Lemma large_pow5_lengths : map (@length N) LARGE_POW5_LIMBS = [1; 1; 1; 1; 1; 2; 3; 5; 10; 19; 38; 75; 149; 298]%nat.
Proof. vm_compute. reflexivity. Qed.

(* ------------------------------------------------------------------------------------------------ *)
(** * imul_small, iadd_small, imul_pow2 *)
Theorem imul_small_refines (x : list N) (y : N) : limbs_ok x -> (y < LB)%N ->
  val (imul_small x y) = val x * Z.of_N y /\ limbs_ok (imul_small x y)
  /\ (normalized x -> y <> 0%N -> normalized (imul_small x y))
  /\ (length x <= length (imul_small x y) <= length x + 1)%nat.
Proof.
  intros Hx Hy. unfold imul_small. destruct (small_imul_spec x y Hx Hy) as (Hv & Hok & Hl).
  split; [exact Hv|]. split; [exact Hok|]. split; [intros Hn Hy0; apply small_imul_normalized; assumption|exact Hl].
Qed.

Theorem iadd_small_refines (x : list N) (y : N) : limbs_ok x -> (y < LB)%N ->
  exists z, iadd_small x y = Some z /\ val z = val x + Z.of_N y /\ limbs_ok z
    /\ (normalized x -> x <> [] \/ y <> 0%N -> normalized z)
    /\ (length x <= length z <= length x + 1)%nat.
Proof.
  intros Hx Hy. unfold iadd_small, small_iadd.
  destruct (small_iadd_impl_spec x y 0 Hx Hy ltac:(lia)) as (z & E & Hv & Hok & Hl & Hn & _).
  exists z. split; [exact E|]. change (Z.of_nat 0) with 0 in Hv. rewrite Z.pow_0_r in Hv. split; [lia|]. split; [exact Hok|].
  split; [|lia]. intros Nx [Hne|Hy0]; apply Hn; try exact Nx; [left; destruct x; [congruence|cbn [length]; lia]|right; exact Hy0].
Qed.

Theorem imul_pow2_refines (x : list N) (n : N) : limbs_ok x ->
  exists z, imul_pow2 x n = Some z /\ val z = val x * 2 ^ Z.of_N n /\ limbs_ok z /\ (normalized x -> normalized z).
Proof.
  intros Hx. unfold imul_pow2, ishl. destruct (small_ishl_spec x n Hx) as (z & E & Hv & Hok & Hn & _).
  exists z. tauto.
Qed.

(* ------------------------------------------------------------------------------------------------ *)
(** * imul_pow5, the path by small powers *)
Lemma pow5_small_loop_spec (power : N) (step : nat) : (0 < step)%nat -> (power < LB)%N -> power <> 0%N ->
  Z.of_N power = 5 ^ Z.of_nat step ->
  forall (fuel : nat) (x : list N) (n : nat), limbs_ok x -> (n <= fuel)%nat ->
  exists x1 n1, pow5_small_loop fuel x power n step = Some (x1, n1) /\ (n1 < step)%nat
    /\ val x1 * 5 ^ Z.of_nat n1 = val x * 5 ^ Z.of_nat n /\ limbs_ok x1 /\ (normalized x -> normalized x1).
Proof.
  intros Hstep Hp Hp0 Hpv. induction fuel as [|f IH]; intros x n Hx Hf.
  - assert (n = 0)%nat by lia. subst n. cbn [pow5_small_loop].
    replace (step <=? 0)%nat with false by (symmetry; apply Nat.leb_gt; exact Hstep).
    exists x, 0%nat. split; [reflexivity|]. split; [exact Hstep|]. split; [reflexivity|]. split; [exact Hx|tauto].
  - cbn [pow5_small_loop]. destruct (Nat.leb_spec step n) as [Hle|Hgt].
    + destruct (small_imul_spec x power Hx Hp) as (Hv & Hok & _).
      destruct (IH (small_imul x power) (n - step)%nat Hok ltac:(lia)) as (x1 & n1 & E & Hn1 & Hval & Hok1 & Hnorm).
      exists x1, n1. split; [exact E|]. split; [exact Hn1|]. split; [|split; [exact Hok1|]].
      * rewrite Hval, Hv, Hpv. rewrite <- Z.mul_assoc, <- Z.pow_add_r by lia. f_equal. f_equal. lia.
      * intros Nx. apply Hnorm. apply small_imul_normalized; assumption.
    + exists x, n. split; [reflexivity|]. split; [exact Hgt|]. split; [reflexivity|]. split; [exact Hx|tauto].
Qed.

Lemma pow5_step : (length POW5_LIMB - 1)%nat = 27%nat.
Proof. reflexivity. Qed.

(* the small-power path, given that it is selected *)
Lemma imul_pow5_small_path (x : list N) (n : N) : limbs_ok x ->
  exists z,
    (let step := (length POW5_LIMB - 1)%nat in
     let? power := nth_error POW5_LIMB step in
     let? (x1, n1) := pow5_small_loop (N.to_nat n) x power (N.to_nat n) step in
     let? p := nth_error POW5_LIMB n1 in
     Some (small_imul x1 p)) = Some z
    /\ val z = val x * 5 ^ Z.of_N n /\ limbs_ok z /\ (normalized x -> normalized z).
Proof.
  intros Hx. cbv zeta. rewrite pow5_step.
  destruct (pow5_limb_nth 27 ltac:(lia)) as (power & Ep & Hpv & Hpb & Hp0). rewrite Ep. cbn [obind].
  destruct (pow5_small_loop_spec power 27 ltac:(lia) Hpb Hp0 Hpv (N.to_nat n) x (N.to_nat n) Hx ltac:(lia))
    as (x1 & n1 & E & Hn1 & Hval & Hok1 & Hnorm).
  rewrite E. cbn [obind].
  destruct (pow5_limb_nth n1 ltac:(lia)) as (p & Epp & Hpv' & Hpb' & Hp0'). rewrite Epp. cbn [obind].
  destruct (small_imul_spec x1 p Hok1 Hpb') as (Hv & Hok & _).
  exists (small_imul x1 p). split; [reflexivity|]. split; [|split; [exact Hok|]].
  - rewrite Hv, Hpv', Hval, N_nat_Z. reflexivity.
  - intros Nx. apply small_imul_normalized; try assumption. apply Hnorm. exact Nx.
Qed.

(* ------------------------------------------------------------------------------------------------ *)
(** * imul_pow5, the path by large powers: correct whenever it returns *)
Lemma land_lxor_bit (q : N) :
  (N.land q 1 = q mod 2)%N /\ ((q mod 2 = 1)%N -> N.lxor q 1 = (q - 1)%N).
Proof.
  split.
  - change 1%N with (N.ones 1). rewrite N.land_ones. reflexivity.
  - intros Hodd.
    assert (Hl : N.land (q - 1) 1 = 0%N).
    { change 1%N with (N.ones 1) at 2. rewrite N.land_ones. change (2 ^ 1)%N with 2%N.
      pose proof (N.div_mod q 2 ltac:(discriminate)) as Hq. rewrite Hodd in Hq.
      replace (q - 1)%N with (2 * (q / 2))%N by lia. rewrite N.mul_comm. apply N.mod_mul. discriminate. }
    pose proof (N.add_nocarry_lxor (q - 1) 1 Hl) as Ha.
    assert (Hq1 : (1 <= q)%N).
    { destruct (N.eq_dec q 0) as [->|]; [cbn in Hodd; discriminate|lia]. }
    replace (q - 1 + 1)%N with q in Ha by lia.
    rewrite Ha at 1. rewrite N.lxor_assoc, N.lxor_nilpotent, N.lxor_0_r. reflexivity.
Qed.

(* n = 2^idx * q:  n & 2^idx  and  n ^ 2^idx *)
Lemma bit_step (q : N) (idx : N) :
  let bit := (2 ^ idx)%N in let n := (bit * q)%N in
  (N.land n bit = bit * (q mod 2))%N /\ ((q mod 2 = 1)%N -> N.lxor n bit = (bit * (q - 1))%N).
Proof.
  intros bit n. subst bit n. destruct (land_lxor_bit q) as (Hl & Hx).
  rewrite !(N.mul_comm (2 ^ idx)), <- !N.shiftl_mul_pow2.
  replace (2 ^ idx)%N with (N.shiftl 1 idx) by (rewrite N.shiftl_mul_pow2; lia).
  split.
  - rewrite <- N.shiftl_land, Hl. reflexivity.
  - intros Hodd. rewrite <- N.shiftl_lxor, (Hx Hodd). reflexivity.
Qed.

Lemma pow5_large_loop_partial : forall (fuel : nat) (x : list N) (idx : nat) (q : N) (z : list N),
  limbs_ok x -> normalized x -> (idx <= 32)%nat -> (2 ^ N.of_nat idx * q < 2 ^ 32)%N ->
  pow5_large_loop fuel x idx (2 ^ N.of_nat idx) (2 ^ N.of_nat idx * q) = Some z ->
  val z = val x * 5 ^ Z.of_N (2 ^ N.of_nat idx * q) /\ limbs_ok z /\ normalized z.
Proof.
  induction fuel as [|f IH]; intros x idx q z Hx Nx Hidx Hn E.
  - cbn [pow5_large_loop] in E. destruct (N.eqb_spec (2 ^ N.of_nat idx * q) 0) as [E0|E0]; [|discriminate].
    injection E as <-. rewrite E0. change (Z.of_N 0) with 0. rewrite Z.pow_0_r. split; [ring|tauto].
  - cbn [pow5_large_loop] in E. destruct (N.eqb_spec (2 ^ N.of_nat idx * q) 0) as [E0|E0].
    { injection E as <-. rewrite E0. change (Z.of_N 0) with 0. rewrite Z.pow_0_r. split; [ring|tauto]. }
    set (bit := (2 ^ N.of_nat idx)%N) in *.
    assert (Hbpos : (0 < bit)%N) by (subst bit; apply N.neq_0_lt_0; apply N.pow_nonzero; discriminate).
    assert (Hq0 : q <> 0%N) by (intros ->; apply E0; lia).
    assert (Hidx' : (idx < 32)%nat).
    { destruct (Nat.eq_dec idx 32) as [->|]; [|lia]. exfalso. subst bit. change (2 ^ N.of_nat 32)%N with (2 ^ 32)%N in Hn. nia. }
    assert (Hbit2 : wrap64 (bit * 2) = (2 ^ N.of_nat (S idx))%N).
    { rewrite Nat2N.inj_succ, N.pow_succ_r'. subst bit. rewrite wrap64_small; [lia|].
      assert (2 ^ N.of_nat idx <= 2 ^ 31)%N by (apply N.pow_le_mono_r; [discriminate|lia]).
      change LB with (2 ^ 64)%N. assert (2 ^ 31 * 2 < 2 ^ 64)%N by reflexivity. lia. }
    rewrite Hbit2 in E.
    destruct (bit_step q (N.of_nat idx)) as (Hland & Hlxor). cbv zeta in Hland, Hlxor. fold bit in Hland, Hlxor.
    assert (Hmod : (q mod 2 = 0 \/ q mod 2 = 1)%N) by (pose proof (N.mod_lt q 2 ltac:(discriminate)); lia).
    rewrite Hland in E.
    destruct Hmod as [Hev|Hodd].
    + (* bit clear *)
      rewrite Hev, N.mul_0_r in E. cbn [N.eqb negb] in E.
      pose proof (N.div_mod q 2 ltac:(discriminate)) as Hq. rewrite Hev, N.add_0_r in Hq.
      assert (En : (bit * q = 2 ^ N.of_nat (S idx) * (q / 2))%N).
      { rewrite Nat2N.inj_succ, N.pow_succ_r'. subst bit. rewrite Hq at 1. ring. }
      rewrite En in E. rewrite En in Hn.
      destruct (IH x (S idx) (q / 2)%N z Hx Nx ltac:(lia) Hn E) as (Hv & Hok & Hnz).
      rewrite En. tauto.
    + (* bit set: multiply by large_powers[idx] *)
      rewrite Hodd, N.mul_1_r in E.
      replace (negb (bit =? 0)%N) with true in E by (symmetry; apply negb_true_iff, N.eqb_neq; lia).
      destruct (Nat.lt_ge_cases idx 14) as [H14|H14].
      2:{ assert (Hnone : nth_error LARGE_POW5_LIMBS idx = None).
          { apply nth_error_None. destruct pow5_pow10_limb_tables as (_ & _ & _ & Hlen & _). rewrite Hlen. exact H14. }
          rewrite Hnone in E. discriminate. }
      destruct (large_pow5_nth idx H14) as (lp & Elp & Hvlp & Hoklp & Hnlp & Hnelp).
      rewrite Elp in E. cbn [obind] in E.
      apply obind_some in E. destruct E as (x1 & Em & E).
      destruct (large_imul_partial x lp x1 Hx Hoklp Nx Hnlp Hnelp Em) as (Hv1 & Hok1 & Hn1).
      rewrite (Hlxor Hodd) in E.
      pose proof (N.div_mod q 2 ltac:(discriminate)) as Hq. rewrite Hodd in Hq.
      assert (En : (bit * (q - 1) = 2 ^ N.of_nat (S idx) * (q / 2))%N).
      { rewrite Nat2N.inj_succ, N.pow_succ_r'. subst bit. replace (q - 1)%N with (2 * (q / 2))%N by lia. ring. }
      rewrite En in E.
      assert (Hn' : (2 ^ N.of_nat (S idx) * (q / 2) < 2 ^ 32)%N) by (rewrite <- En; nia).
      destruct (IH x1 (S idx) (q / 2)%N z Hok1 Hn1 ltac:(lia) Hn' E) as (Hv & Hok & Hnz).
      split; [|tauto]. rewrite Hv, Hv1, Hvlp, <- En.
      rewrite <- Z.mul_assoc, <- Z.pow_add_r by (try apply Z.pow_nonneg; lia). f_equal. f_equal.
      subst bit. rewrite N2Z.inj_mul, N2Z.inj_pow, N2Z.inj_sub by lia. rewrite nat_N_Z. change (Z.of_N 2) with 2. change (Z.of_N 1) with 1.
      rewrite N2Z.inj_mul, N2Z.inj_pow, nat_N_Z. change (Z.of_N 2) with 2. ring.
Qed.

(* ------------------------------------------------------------------------------------------------ *)
(** * imul_pow5 *)
(* partial correctness on every input (n : u32) *)
Theorem imul_pow5_partial (x : list N) (n : N) (z : list N) : limbs_ok x -> normalized x -> (n < 2 ^ 32)%N ->
  imul_pow5 x n = Some z -> val z = val x * 5 ^ Z.of_N n /\ limbs_ok z /\ normalized z.
Proof.
  intros Hx Nx Hn E. unfold imul_pow5, small_imul_pow5 in E.
  destruct (N.eqb_spec n 0) as [->|Hn0].
  - injection E as <-. change (Z.of_N 0) with 0. rewrite Z.pow_0_r. split; [ring|tauto].
  - apply obind_some in E. destruct E as (lp & _ & E).
    destruct (length x + length lp <? 2 * KARATSUBA_CUTOFF)%nat.
    + destruct (imul_pow5_small_path x n Hx) as (z' & E' & Hv & Hok & Hnz). cbv zeta in E'. rewrite E in E'. injection E' as <-. tauto.
    + assert (E' : pow5_large_loop 64 x 0 (2 ^ N.of_nat 0) (2 ^ N.of_nat 0 * n) = Some z).
      { change (2 ^ N.of_nat 0)%N with 1%N. rewrite N.mul_1_l. exact E. }
      destruct (pow5_large_loop_partial 64 x 0 n z Hx Nx ltac:(lia) ltac:(change (2 ^ N.of_nat 0)%N with 1%N; lia) E') as (Hv & H).
      split; [|exact H]. rewrite Hv. change (2 ^ N.of_nat 0)%N with 1%N. rewrite N.mul_1_l. reflexivity.
Qed.

(* bit_length(n) - 1 as an index into the table of large powers *)
Lemma size_index (n : N) : n <> 0%N -> (n < 16384)%N -> (N.to_nat (N.size n) - 1 < 14)%nat.
Proof.
  intros Hn0 Hn. rewrite N.size_log2 by exact Hn0.
  assert (N.log2 n < 14)%N by (apply N.log2_lt_pow2; [lia|exact Hn]). lia.
Qed.

(* total correctness where the path by small powers is taken:  x.len() + large_powers[bit_length - 1].len() < 64 *)
Theorem imul_pow5_total (x : list N) (n : N) : limbs_ok x -> (n < 16384)%N ->
  (n <> 0%N -> (length x + length (nth (N.to_nat (N.size n) - 1) LARGE_POW5_LIMBS []) < 2 * KARATSUBA_CUTOFF)%nat) ->
  exists z, imul_pow5 x n = Some z /\ val z = val x * 5 ^ Z.of_N n /\ limbs_ok z /\ (normalized x -> normalized z).
Proof.
  intros Hx Hn Hsmall. unfold imul_pow5, small_imul_pow5.
  destruct (N.eqb_spec n 0) as [->|Hn0].
  - exists x. split; [reflexivity|]. change (Z.of_N 0) with 0. rewrite Z.pow_0_r. split; [ring|tauto].
  - pose proof (size_index n Hn0 Hn) as Hidx. specialize (Hsmall Hn0).
    destruct (large_pow5_nth _ Hidx) as (lp & Elp & _).
    rewrite Elp. cbn [obind].
    assert (Hnth : nth (N.to_nat (N.size n) - 1) LARGE_POW5_LIMBS [] = lp) by (apply nth_error_nth; exact Elp).
    rewrite Hnth in Hsmall.
    replace (length x + length lp <? 2 * KARATSUBA_CUTOFF)%nat with true by (symmetry; apply Nat.ltb_lt; exact Hsmall).
    destruct (imul_pow5_small_path x n Hx) as (z & E & H). exists z. split; [exact E|exact H].
Qed.

(* the length of the large power selected for n, by ranges of n *)
Lemma large_power_length (n : N) : n <> 0%N -> (n < 2048)%N ->
  (length (nth (N.to_nat (N.size n) - 1) LARGE_POW5_LIMBS []) <= (if (n <? 512)%N then 10 else if (n <? 1024)%N then 19 else 38))%nat.
Proof.
  intros Hn0 Hn.
  assert (Hmap : forall i, length (nth i LARGE_POW5_LIMBS []) = nth i (map (@length N) LARGE_POW5_LIMBS) 0%nat).
  { intros i. change 0%nat with (length (@nil N)). symmetry. apply map_nth. }
  rewrite Hmap, large_pow5_lengths. rewrite N.size_log2 by exact Hn0.
  destruct (N.ltb_spec n 512) as [H1|H1]; [|destruct (N.ltb_spec n 1024) as [H2|H2]].
  - assert (N.log2 n < 9)%N by (apply N.log2_lt_pow2; [lia|exact H1]).
    assert (Hc : (N.to_nat (N.succ (N.log2 n)) - 1 <= 8)%nat) by lia.
    revert Hc. generalize (N.to_nat (N.succ (N.log2 n)) - 1)%nat. intros i Hi.
    do 9 (destruct i as [|i]; [cbn [nth]; lia|]). lia.
  - assert (N.log2 n < 10)%N by (apply N.log2_lt_pow2; [lia|exact H2]).
    assert (Hc : (N.to_nat (N.succ (N.log2 n)) - 1 <= 9)%nat) by lia.
    revert Hc. generalize (N.to_nat (N.succ (N.log2 n)) - 1)%nat. intros i Hi.
    do 10 (destruct i as [|i]; [cbn [nth]; lia|]). lia.
  - assert (N.log2 n < 11)%N by (apply N.log2_lt_pow2; [lia|exact Hn]).
    assert (Hc : (N.to_nat (N.succ (N.log2 n)) - 1 <= 10)%nat) by lia.
    revert Hc. generalize (N.to_nat (N.succ (N.log2 n)) - 1)%nat. intros i Hi.
    do 11 (destruct i as [|i]; [cbn [nth]; lia|]). lia.
Qed.

(* the two operand ranges bhcomp uses *)
Corollary imul_pow5_refines_1024 (x : list N) (n : N) : limbs_ok x -> (n < 1024)%N -> (length x <= 44)%nat ->
  exists z, imul_pow5 x n = Some z /\ val z = val x * 5 ^ Z.of_N n /\ limbs_ok z /\ (normalized x -> normalized z).
Proof.
  intros Hx Hn Hl. apply imul_pow5_total; [exact Hx|lia|].
  intros Hn0. pose proof (large_power_length n Hn0 ltac:(lia)) as Hp.
  change (2 * KARATSUBA_CUTOFF)%nat with 64%nat.
  destruct (n <? 512)%N; [lia|]. replace (n <? 1024)%N with true in Hp by (symmetry; apply N.ltb_lt; exact Hn). lia.
Qed.

Corollary imul_pow5_refines_2048 (x : list N) (n : N) : limbs_ok x -> (n < 2048)%N -> (length x <= 25)%nat ->
  exists z, imul_pow5 x n = Some z /\ val z = val x * 5 ^ Z.of_N n /\ limbs_ok z /\ (normalized x -> normalized z).
Proof.
  intros Hx Hn Hl. apply imul_pow5_total; [exact Hx|lia|].
  intros Hn0. pose proof (large_power_length n Hn0 Hn) as Hp.
  change (2 * KARATSUBA_CUTOFF)%nat with 64%nat.
  destruct (n <? 512)%N; [lia|]. destruct (n <? 1024)%N; lia.
Qed.

(* ------------------------------------------------------------------------------------------------ *)
(** * imul_pow10 *)
Theorem imul_pow10_partial (x : list N) (n : N) (z : list N) : limbs_ok x -> normalized x -> (n < 2 ^ 32)%N ->
  imul_pow10 x n = Some z -> val z = val x * 10 ^ Z.of_N n /\ limbs_ok z /\ normalized z.
Proof.
  intros Hx Nx Hn E. unfold imul_pow10 in E. apply obind_some in E. destruct E as (x1 & E5 & E2).
  destruct (imul_pow5_partial x n x1 Hx Nx Hn E5) as (Hv1 & Hok1 & Hn1).
  destruct (imul_pow2_refines x1 n Hok1) as (z' & E' & Hv & Hok & Hnz). rewrite E2 in E'. injection E' as <-.
  split; [|tauto]. rewrite Hv, Hv1. change 10 with (5 * 2). rewrite Z.pow_mul_l. ring.
Qed.

Theorem imul_pow10_refines_1024 (x : list N) (n : N) : limbs_ok x -> (n < 1024)%N -> (length x <= 44)%nat ->
  exists z, imul_pow10 x n = Some z /\ val z = val x * 10 ^ Z.of_N n /\ limbs_ok z /\ (normalized x -> normalized z).
Proof.
  intros Hx Hn Hl. unfold imul_pow10.
  destruct (imul_pow5_refines_1024 x n Hx Hn Hl) as (x1 & E1 & Hv1 & Hok1 & Hn1). rewrite E1. cbn [obind].
  destruct (imul_pow2_refines x1 n Hok1) as (z & E & Hv & Hok & Hnz).
  exists z. split; [exact E|]. split; [|split; [exact Hok|tauto]].
  rewrite Hv, Hv1. change 10 with (5 * 2). rewrite Z.pow_mul_l. ring.
Qed.
