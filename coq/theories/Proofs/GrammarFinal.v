(* Proofs/GrammarFinal.v — instantiates the Section premises of GrammarValue with the string and number layers. *)
From SJ Require Import Base.Bytes Base.Utf8 Base.FloatB Gen.Tables Model.Read Model.Str Model.Num Model.Value Model.De Spec.Syntax Spec.Denote.
From SJ Require Import Proofs.GrammarStr Proofs.GrammarNum Proofs.GrammarValue Proofs.StrRefine Proofs.RkIndep.

Lemma Hstr_complete_inst : forall cf s b rst off pk d, str_ok s = true -> str_text s = Some b ->
  exists bw, parse_str (mkEnv RSlice TEof cf) (mkSt (flat_map render_piece s ++ 34%N :: rst) off pk d)
           = Ok (b, bw, mkSt rst (off + length (flat_map render_piece s) + 1) false d).
Proof. intros. eapply parse_str_complete; eauto. Qed.

Lemma Hstr_sound_inst : forall cf s0 b bw s1, Forall (fun x => (x < 256)%N) (rest s0) ->
  parse_str (mkEnv RSlice TEof cf) s0 = Ok (b, bw, s1) ->
  exists s, rest s0 = flat_map render_piece s ++ 34%N :: rest s1 /\ str_ok s = true /\ str_text s = Some b
         /\ (off s1 = off s0 + length (flat_map render_piece s) + 1)%nat /\ pk s1 = false /\ depth s1 = depth s0.
Proof. intros. eapply parse_str_sound; eauto. Qed.

Theorem value_sound_slice : forall cf bs v,
  Forall (fun b => (b < 256)%N) bs -> from_input (mkEnv RSlice TEof cf) bs = Ok v -> Denotes cf bs v.
Proof.
  intros cf. apply value_sound.
  - intros. eapply Hstr_sound_inst; eauto.
  - intros positive s0 p s1 H. eapply number_sound_plain; eauto.
Qed.

Theorem value_complete_slice : forall cf bs v,
  Denotes cf bs v -> from_input (mkEnv RSlice TEof cf) bs = Ok v.
Proof.
  intros cf. apply value_complete.
  - intros. eapply Hstr_complete_inst; eauto.
  - intros positive n rst off pk d Hn Hf p s' H. eapply number_local_ok; eauto.
Qed.

Theorem lang_slice : forall cf bs, Forall (fun b => (b < 256)%N) bs ->
  ((exists v, from_input (mkEnv RSlice TEof cf) bs = Ok v) <-> InLang cf bs).
Proof.
  intros cf bs Hb. split.
  - intros [v Hv]. apply value_sound_slice in Hv; auto.
    destruct Hv as (w1 & c & w2 & H1 & H2 & H3 & H4 & H5 & H6). exists w1, c, w2. repeat split; eauto.
  - intros (w1 & c & w2 & H1 & H2 & H3 & H4 & (v & H5) & H6). exists v. apply value_complete_slice.
    exists w1, c, w2. repeat split; auto.
Qed.

(* the same for io::Read input, through reader independence *)
Theorem from_input_io_slice : forall cf bs, from_input (mkEnv RIo TEof cf) bs = from_input (mkEnv RSlice TEof cf) bs.
Proof. intros cf bs. apply from_input_rk; intros; apply parse_str_io_slice. Qed.

Theorem lang_reader : forall cf bs, Forall (fun b => (b < 256)%N) bs ->
  ((exists v, from_input (mkEnv RIo TEof cf) bs = Ok v) <-> InLang cf bs).
Proof. intros cf bs Hb. rewrite from_input_io_slice. apply lang_slice; auto. Qed.

Theorem value_sound_reader : forall cf bs v,
  Forall (fun b => (b < 256)%N) bs -> from_input (mkEnv RIo TEof cf) bs = Ok v -> Denotes cf bs v.
Proof. intros cf bs v Hb. rewrite from_input_io_slice. apply value_sound_slice; auto. Qed.
