(* Proofs/SerLayout.v — the pretty layout is a choice of insignificant whitespace: [layout ind d c = render (relayout ind d c)];
   for a whitespace indent the relaid tree is well-formed and denotes the same value, so pretty output is again exactly
   one JSON text denoting the data-model image. *)
From SJ Require Import Base.Bytes Base.Utf8 Model.Read Model.Value Spec.Syntax Spec.Denote Spec.Layout.
From Coq Require Import Lia.
Open Scope N_scope.

Section Relayout.
  Variable ind : bytes.

  Lemma layout_relayout :
    (forall c d, render (relayout ind d c) = layout ind d c)
    /\ (forall es d, match es with ENil => True | _ => render_elems (relayout_elems ind d es) = layout_elems ind d es ++ nl ind (pred d) end)
    /\ (forall ms d, match ms with MNil => True | _ => render_members (relayout_members ind d ms) = layout_members ind d ms ++ nl ind (pred d) end).
  Proof.
    apply cst_elems_members_ind.
    - reflexivity.
    - reflexivity.
    - reflexivity.
    - reflexivity.
    - reflexivity.
    - intros w es IH d. destruct es as [|w1 c w2 rest]; [reflexivity|].
      specialize (IH (S d)). cbn [relayout]. cbn [layout].
      change (render (CArr [] (relayout_elems ind (S d) (ECons w1 c w2 rest))))
        with (91 :: render_elems (relayout_elems ind (S d) (ECons w1 c w2 rest)) ++ [93]).
      rewrite IH. cbn [pred]. rewrite <- app_assoc. reflexivity.
    - intros w ms IH d. destruct ms as [|w1 k w2 w3 c w4 rest]; [reflexivity|].
      specialize (IH (S d)). cbn [relayout]. cbn [layout].
      change (render (CObj [] (relayout_members ind (S d) (MCons w1 k w2 w3 c w4 rest))))
        with (123 :: render_members (relayout_members ind (S d) (MCons w1 k w2 w3 c w4 rest)) ++ [125]).
      rewrite IH. cbn [pred]. rewrite <- app_assoc. reflexivity.
    - intros d. exact I.
    - intros w1 c IHc w2 rest IHr d. specialize (IHc d). specialize (IHr d). cbn [relayout_elems].
      destruct rest as [|w1' c' w2' rest'].
      + cbn [relayout_elems render_elems layout_elems]. rewrite IHc, <- app_assoc. reflexivity.
      + set (r' := relayout_elems ind d (ECons w1' c' w2' rest')) in *.
        assert (Hr : exists a b c0 r0, r' = ECons a b c0 r0) by (unfold r'; cbn [relayout_elems]; eauto).
        destruct Hr as [a [b [c0 [r0 Er]]]]. rewrite Er. cbn [render_elems]. rewrite <- Er, IHr, IHc.
        cbn [layout_elems app]. rewrite <- !app_assoc. cbn [app]. reflexivity.
    - intros d. exact I.
    - intros w1 k w2 w3 c IHc w4 rest IHr d. specialize (IHc d). specialize (IHr d). cbn [relayout_members].
      destruct rest as [|w1' k' w2' w3' c' w4' rest'].
      + cbn [relayout_members render_members layout_members]. rewrite IHc. cbn [app]. rewrite <- !app_assoc. reflexivity.
      + set (r' := relayout_members ind d (MCons w1' k' w2' w3' c' w4' rest')) in *.
        assert (Hr : exists a b c0 d0 e0 f0 r0, r' = MCons a b c0 d0 e0 f0 r0) by (unfold r'; cbn [relayout_members]; do 7 eexists; reflexivity).
        destruct Hr as [a [b [c0 [d0 [e0 [f0 [r0 Er]]]]]]]. rewrite Er. cbn [render_members]. rewrite <- Er, IHr, IHc.
        cbn [layout_members app]. rewrite <- !app_assoc. cbn [app]. reflexivity.
  Qed.

  Theorem layout_is_render c d : layout ind d c = render (relayout ind d c).
  Proof. symmetry. apply (proj1 layout_relayout). Qed.

  Lemma denote_relayout cf :
    (forall c d, denote cf (relayout ind d c) = denote cf c)
    /\ (forall es d, denote_elems cf (relayout_elems ind d es) = denote_elems cf es)
    /\ (forall ms d, denote_members cf (relayout_members ind d ms) = denote_members cf ms).
  Proof.
    apply cst_elems_members_ind; try reflexivity.
    - intros w es IH d. cbn [relayout denote]. rewrite IH. reflexivity.
    - intros w ms IH d. cbn [relayout denote]. rewrite IH. reflexivity.
    - intros w1 c IHc w2 rest IHr d. cbn [relayout_elems denote_elems]. rewrite IHc, IHr. reflexivity.
    - intros w1 k w2 w3 c IHc w4 rest IHr d. cbn [relayout_members denote_members]. rewrite IHc, IHr. reflexivity.
  Qed.

  Hypothesis Hws : ws_ok ind = true.

  Lemma ws_ok_rep d : ws_ok (rep ind d) = true.
  Proof.
    unfold rep, ws_ok. induction d as [|d IH]; [reflexivity|]. cbn [repeat concat]. rewrite forallb_app. unfold ws_ok in Hws. rewrite Hws, IH. reflexivity.
  Qed.
  Lemma ws_ok_nl d : ws_ok (nl ind d) = true.
  Proof. unfold nl. cbn [ws_ok forallb]. change (forallb ws_byte (rep ind d)) with (ws_ok (rep ind d)). rewrite ws_ok_rep. reflexivity. Qed.

  Lemma wfb_relayout_ok :
    (forall c d, wfb c = true -> wfb (relayout ind d c) = true)
    /\ (forall es d, wfb_elems es = true -> wfb_elems (relayout_elems ind d es) = true)
    /\ (forall ms d, wfb_members ms = true -> wfb_members (relayout_members ind d ms) = true).
  Proof.
    apply cst_elems_members_ind; try (intros; assumption); try reflexivity.
    - intros w es IH d H. cbn [relayout wfb] in *. apply andb_true_iff in H as [_ H]. rewrite (IH _ H). reflexivity.
    - intros w ms IH d H. cbn [relayout wfb] in *. apply andb_true_iff in H as [_ H]. rewrite (IH _ H). reflexivity.
    - intros w1 c IHc w2 rest IHr d H. cbn [relayout_elems wfb_elems] in *.
      apply andb_true_iff in H as [H H4]. apply andb_true_iff in H as [H H3]. apply andb_true_iff in H as [H1 H2].
      rewrite (IHc _ H2), (IHr _ H4), ws_ok_nl. destruct rest; [rewrite ws_ok_nl|]; reflexivity.
    - intros w1 k w2 w3 c IHc w4 rest IHr d H. cbn [relayout_members wfb_members] in *.
      repeat (apply andb_true_iff in H as [H ?]).
      rewrite (IHc _ H2), (IHr _ H0), ws_ok_nl, H4. destruct rest; [rewrite ws_ok_nl|]; reflexivity.
  Qed.
End Relayout.

Print Assumptions layout_is_render.
Print Assumptions wfb_relayout_ok.
