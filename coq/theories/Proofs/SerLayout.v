(* Proofs/SerLayout.v — the pretty layout is a choice of insignificant whitespace: [layout ind d c = render (relayout ind d c)];
   for a whitespace indent the relaid tree is well-formed and denotes the same value, so pretty output is again exactly
   one JSON text denoting the data-model image. *)
From SJ Require Import Base.Bytes Base.Utf8 Model.Read Model.Value Spec.Syntax Spec.Denote Spec.Layout.
From Coq Require Import Lia.
Open Scope N_scope.

Section Relayout.
  Variable ind : bytes.

  Lemma render_elems_cons_gen w1 c w2 es :
    render_elems (ECons w1 c w2 es) = w1 ++ render c ++ w2 ++ match es with ENil => [] | _ => 44 :: render_elems es end.
  Proof. destruct es; cbn [render_elems]; rewrite ?app_nil_r; reflexivity. Qed.
  Lemma render_members_cons_gen w1 k w2 w3 c w4 ms :
    render_members (MCons w1 k w2 w3 c w4 ms)
    = w1 ++ render_str k ++ w2 ++ 58 :: w3 ++ render c ++ w4 ++ match ms with MNil => [] | _ => 44 :: render_members ms end.
  Proof. destruct ms; cbn [render_members]; rewrite ?app_nil_r; reflexivity. Qed.
  Lemma layout_elems_cons_gen d w1 c w2 es :
    layout_elems ind d (ECons w1 c w2 es) = nl ind d ++ layout ind d c ++ match es with ENil => [] | _ => 44 :: layout_elems ind d es end.
  Proof. destruct es; cbn [layout_elems]; rewrite ?app_nil_r; reflexivity. Qed.
  Lemma layout_members_cons_gen d w1 k w2 w3 c w4 ms :
    layout_members ind d (MCons w1 k w2 w3 c w4 ms)
    = nl ind d ++ render_str k ++ [58; 32] ++ layout ind d c ++ match ms with MNil => [] | _ => 44 :: layout_members ind d ms end.
  Proof. destruct ms; cbn [layout_members]; rewrite ?app_nil_r; reflexivity. Qed.

  Lemma layout_relayout :
    (forall c d, render (relayout ind d c) = layout ind d c)
    /\ (forall es d, match es with ENil => True | _ => render_elems (relayout_elems ind d es) = layout_elems ind d es ++ nl ind (pred d) end)
    /\ (forall ms d, match ms with MNil => True | _ => render_members (relayout_members ind d ms) = layout_members ind d ms ++ nl ind (pred d) end).
  Proof.
    apply cst_elems_members_ind.
    - reflexivity.
    - reflexivity.
    - reflexivity.
    - reflexivity.
    - reflexivity.
    - intros w es IH d. destruct es as [|w1 c w2 rest]; [reflexivity|].
      specialize (IH (S d)). cbn [relayout]. cbn [layout].
      change (render (CArr [] (relayout_elems ind (S d) (ECons w1 c w2 rest))))
        with (91 :: render_elems (relayout_elems ind (S d) (ECons w1 c w2 rest)) ++ [93]).
      rewrite IH. cbn [pred]. rewrite <- app_assoc. reflexivity.
    - intros w ms IH d. destruct ms as [|w1 k w2 w3 c w4 rest]; [reflexivity|].
      specialize (IH (S d)). cbn [relayout]. cbn [layout].
      change (render (CObj [] (relayout_members ind (S d) (MCons w1 k w2 w3 c w4 rest))))
        with (123 :: render_members (relayout_members ind (S d) (MCons w1 k w2 w3 c w4 rest)) ++ [125]).
      rewrite IH. cbn [pred]. rewrite <- app_assoc. reflexivity.
    - intros d. exact I.
    - intros w1 c IHc w2 rest IHr d. specialize (IHc d). specialize (IHr d).
      change (relayout_elems ind d (ECons w1 c w2 rest))
        with (ECons (nl ind d) (relayout ind d c) (match rest with ENil => nl ind (pred d) | _ => [] end) (relayout_elems ind d rest)).
      rewrite render_elems_cons_gen, layout_elems_cons_gen, IHc.
      destruct rest as [|w1' c' w2' rest'].
      + cbn [relayout_elems]. rewrite !app_nil_r, <- app_assoc. reflexivity.
      + rewrite <- !app_assoc. f_equal. f_equal. cbn [app].
        change (match relayout_elems ind d (ECons w1' c' w2' rest') with ENil => [] | _ => 44 :: render_elems (relayout_elems ind d (ECons w1' c' w2' rest')) end)
          with (44 :: render_elems (relayout_elems ind d (ECons w1' c' w2' rest'))).
        rewrite IHr. reflexivity.
    - intros d. exact I.
    - intros w1 k w2 w3 c IHc w4 rest IHr d. specialize (IHc d). specialize (IHr d).
      change (relayout_members ind d (MCons w1 k w2 w3 c w4 rest))
        with (MCons (nl ind d) k [] [32] (relayout ind d c) (match rest with MNil => nl ind (pred d) | _ => [] end) (relayout_members ind d rest)).
      rewrite render_members_cons_gen, layout_members_cons_gen, IHc.
      destruct rest as [|w1' k' w2' w3' c' w4' rest'].
      + cbn [relayout_members app]. rewrite !app_nil_r, <- !app_assoc. reflexivity.
      + change (match relayout_members ind d (MCons w1' k' w2' w3' c' w4' rest') with MNil => [] | _ => 44 :: render_members (relayout_members ind d (MCons w1' k' w2' w3' c' w4' rest')) end)
          with (44 :: render_members (relayout_members ind d (MCons w1' k' w2' w3' c' w4' rest'))).
        rewrite IHr. cbn [app]. repeat (rewrite <- app_assoc; cbn [app]). reflexivity.
  Qed.

  Theorem layout_is_render c d : layout ind d c = render (relayout ind d c).
  Proof. symmetry. apply (proj1 layout_relayout). Qed.

  Lemma denote_relayout cf :
    (forall c d, denote cf (relayout ind d c) = denote cf c)
    /\ (forall es d, denote_elems cf (relayout_elems ind d es) = denote_elems cf es)
    /\ (forall ms d, denote_members cf (relayout_members ind d ms) = denote_members cf ms).
  Proof.
    apply cst_elems_members_ind; try reflexivity.
    - intros w es IH d. cbn [relayout denote]. rewrite IH. reflexivity.
    - intros w ms IH d. cbn [relayout denote]. rewrite IH. reflexivity.
    - intros w1 c IHc w2 rest IHr d. cbn [relayout_elems denote_elems]. rewrite IHc, IHr. reflexivity.
    - intros w1 k w2 w3 c IHc w4 rest IHr d. cbn [relayout_members denote_members]. rewrite IHc, IHr. reflexivity.
  Qed.

  Hypothesis Hws : ws_ok ind = true.

  Lemma ws_ok_rep d : ws_ok (rep ind d) = true.
  Proof.
    unfold rep, ws_ok. induction d as [|d IH]; [reflexivity|]. cbn [repeat concat]. rewrite forallb_app. unfold ws_ok in Hws. rewrite Hws, IH. reflexivity.
  Qed.
  Lemma ws_ok_nl d : ws_ok (nl ind d) = true.
  Proof. unfold nl. cbn [ws_ok forallb]. change (forallb ws_byte (rep ind d)) with (ws_ok (rep ind d)). rewrite ws_ok_rep. reflexivity. Qed.

  Lemma wfb_relayout_ok :
    (forall c d, wfb c = true -> wfb (relayout ind d c) = true)
    /\ (forall es d, wfb_elems es = true -> wfb_elems (relayout_elems ind d es) = true)
    /\ (forall ms d, wfb_members ms = true -> wfb_members (relayout_members ind d ms) = true).
  Proof.
    apply cst_elems_members_ind; try (intros; assumption); try reflexivity.
    - intros w es IH d H. cbn [relayout wfb] in *. apply andb_true_iff in H as [_ H]. rewrite (IH _ H). reflexivity.
    - intros w ms IH d H. cbn [relayout wfb] in *. apply andb_true_iff in H as [_ H]. rewrite (IH _ H). reflexivity.
    - intros w1 c IHc w2 rest IHr d H. cbn [relayout_elems wfb_elems] in *.
      apply andb_true_iff in H as [H H4]. apply andb_true_iff in H as [H H3]. apply andb_true_iff in H as [H1 H2].
      rewrite (IHc _ H2), (IHr _ H4), ws_ok_nl. destruct rest; [rewrite ws_ok_nl|]; reflexivity.
    - intros w1 k w2 w3 c IHc w4 rest IHr d H. cbn [relayout_members wfb_members] in *.
      apply andb_true_iff in H as [H Hg]. apply andb_true_iff in H as [H Hf]. apply andb_true_iff in H as [H He].
      apply andb_true_iff in H as [H Hd]. apply andb_true_iff in H as [H Hc]. apply andb_true_iff in H as [Ha Hb].
      rewrite (IHc _ He), (IHr _ Hg), ws_ok_nl, Hb. destruct rest; [rewrite ws_ok_nl|]; reflexivity.
  Qed.
End Relayout.

Print Assumptions layout_is_render.
Print Assumptions wfb_relayout_ok.
