(* Proofs/RawToValue.v — C19, part 4: `to_value(&raw)` (src/value/ser.rs SerializeMap::RawValue / RawValueEmitter; Model/RawM.v
   [rto_value]) is the RawValue's text parsed as a Value; for a RawValue captured from a text it is exactly what parsing
   that text as a Value gives.  Also: [rto_value] on raw-free containers is [ValueSer.to_value], and the decomposition
   ws* value ws* of a text is unique. *)
From SJ Require Import Base.Bytes Base.Utf8 Base.FloatB Gen.Tables Model.Read Model.Str Model.Num Model.Value Model.De Model.Ignore
  Spec.Syntax Spec.Denote.
From SJ Require Import Model.Sval Model.Ser Model.ValueSer Model.Ty Model.DeTyped Model.RawM.
From SJ Require Import Proofs.GrammarFinal Proofs.GrammarIgnore Proofs.StrSource Proofs.Utf8Lemmas Proofs.RawDe.
Require Import Lia.
Open Scope N_scope.

(* ------------------------------------------------------------------------------------------ *)
(** * 1. [rto_value] extends [to_value] conservatively *)
Section Plain.
Variable cf : cfg.
Variable fmt32 fmt64 : N -> list N.
Notation rtv := (rto_value cf fmt32 fmt64).
Notation tv := (to_value cf fmt32 fmt64).

Lemma bind_ext {A B} (r : res A) (k1 k2 : A -> res B) : (forall a, k1 a = k2 a) -> bind r k1 = bind r k2.
Proof. intros H. destruct r; cbn [bind]; auto. Qed.

Lemma rtv_elems_plain (es : list sval) : rtv_elems rtv (map RPlain es) = tv_elems tv es.
Proof.
  induction es as [|e es IH]; cbn [map rtv_elems tv_elems]; [reflexivity|]. cbn [rto_value].
  apply bind_ext; intros x. rewrite IH. reflexivity.
Qed.

Definition plain_entry {K} (kv : K * sval) : K * rsval := (fst kv, RPlain (snd kv)).

Lemma rtv_entries_plain {K} (keyf : K -> res (list N)) (l : list (K * sval)) : forall m,
  rtv_entries cf rtv keyf (map plain_entry l) m = tv_entries cf tv keyf l m.
Proof.
  induction l as [|[k v] l IH]; intros m; cbn [map rtv_entries tv_entries plain_entry fst snd]; [reflexivity|].
  apply bind_ext; intros ks. cbn [rto_value]. apply bind_ext; intros x. apply IH.
Qed.

Theorem rto_value_plain_seq h es : rtv (RSeq h (map RPlain es)) = tv (SSeq h es).
Proof. cbn [rto_value to_value]. now rewrite rtv_elems_plain. Qed.
Theorem rto_value_plain_tuple es : rtv (RTuple (map RPlain es)) = tv (STuple es).
Proof. cbn [rto_value to_value]. now rewrite rtv_elems_plain. Qed.
Theorem rto_value_plain_map h kvs : rtv (RMap h (map plain_entry kvs)) = tv (SMap h kvs).
Proof. cbn [rto_value to_value]. now rewrite rtv_entries_plain. Qed.
Theorem rto_value_plain_struct fs : rtv (RStruct (map plain_entry fs)) = tv (SStruct fs).
Proof. cbn [rto_value to_value]. now rewrite rtv_entries_plain. Qed.

(* ------------------------------------------------------------------------------------------ *)
(** * 2. The raw leaf *)

Theorem rto_value_raw json : rtv (RRaw json) = from_input (mkEnv RStr TEof cf) json.
Proof. reflexivity. Qed.

(* Vec<RawValue>: the elements parsed one by one *)
Theorem rto_value_seq_of_raws h (rs : list (list N)) :
  rtv (RSeq h (map RRaw rs)) = (let* xs := rtv_elems (raw_to_value cf) rs in Ok (VArr xs)).
Proof.
  cbn [rto_value]. apply f_equal2; [|reflexivity].
  induction rs as [|r rs IH]; cbn [map rtv_elems]; [reflexivity|]. cbn [rto_value]. apply bind_ext; intros x. now rewrite IH.
Qed.

(* a RawValue's text is a str: valid UTF-8 *)
Theorem rto_value_raw_sound json v : utf8_valid json = true -> rtv (RRaw json) = Ok v -> Denotes cf json v.
Proof.
  intros Hu H. rewrite rto_value_raw, (from_input_str_slice cf json Hu) in H.
  exact (value_sound_slice cf json v (utf8_valid_bytes json Hu) H).
Qed.

Theorem rto_value_raw_complete json v : utf8_valid json = true -> Denotes cf json v -> rtv (RRaw json) = Ok v.
Proof.
  intros Hu H. rewrite rto_value_raw, (from_input_str_slice cf json Hu). exact (value_complete_slice cf json v H).
Qed.
End Plain.

(* ------------------------------------------------------------------------------------------ *)
(** * 3. A text has one decomposition  ws* value ws* *)

Lemma firstn_len_eq {A} (a x b y : list A) : a ++ x = b ++ y -> length a = length b -> a = b /\ x = y.
Proof.
  intros He Hl. assert (Ha : a = b).
  { rewrite <- (firstn_app_len a x), He, Hl. apply firstn_app_len. }
  subst b. split; [reflexivity|]. exact (app_inv_head _ _ _ He).
Qed.

Theorem lang_decomp_unique : forall a c' b w1 c w2,
  a ++ render c' ++ b = w1 ++ render c ++ w2 ->
  ws_ok a = true -> ws_ok b = true -> wfb c' = true ->
  ws_ok w1 = true -> ws_ok w2 = true -> wfb c = true ->
  a = w1 /\ render c' = render c /\ b = w2.
Proof.
  intros a c' b w1 c w2 He Ha Hb Hc' Hw1 Hw2 Hc.
  set (cf0 := mkCfg false false false false).
  destruct (raw_value_complete cf0 a c' b 0 false 0 Ha Hc' (ws_follow b Hb)) as (s1 & H1 & Hr1).
  destruct (raw_value_complete cf0 w1 c w2 0 false 0 Hw1 Hc (ws_follow w2 Hw2)) as (s2 & H2 & Hr2).
  rewrite He, H2 in H1. injection H1 as Hl1 Hl2 Hs. subst s2. rewrite Hr1 in Hr2. subst w2.
  cbn [Nat.add] in Hl1, Hl2.
  destruct (firstn_len_eq a (render c' ++ b) w1 (render c ++ b) He (eq_sym Hl1)) as [-> He2].
  split; [reflexivity|]. split; [|reflexivity]. exact (app_inv_tail _ _ _ He2).
Qed.

(* ------------------------------------------------------------------------------------------ *)
(** * 4. to_value of a captured RawValue = the captured text parsed as a Value *)

Theorem to_value_of_captured : forall k cf fmt32 fmt64 bs r,
  utf8_valid bs = true ->
  raw_from_input (mkEnv k TEof cf) bs = TOk r ->
  forall v, rto_value cf fmt32 fmt64 (RRaw r) = Ok v <-> from_input (mkEnv RSlice TEof cf) bs = Ok v.
Proof.
  intros k cf fmt32 fmt64 bs r Hu Hraw v. pose proof (utf8_valid_bytes bs Hu) as F.
  apply (raw_from_input_lang k cf bs r F (or_intror Hu)) in Hraw as (w1 & c & w2 & Hbs & Hw1 & Hw2 & Hc & ->).
  assert (Hur : utf8_valid (render c) = true). { rewrite Hbs in Hu. exact (render_utf8_mid w1 w2 c Hc Hu). }
  split.
  - intros H. apply (rto_value_raw_sound cf fmt32 fmt64 _ _ Hur) in H as (a & c' & b & Hr & Ha & Hb & Hc' & Hden & Hdep).
    apply value_complete_slice. exists (w1 ++ a), c', (b ++ w2).
    rewrite !ws_ok_app, Ha, Hb, Hw1, Hw2. repeat split; try assumption; try reflexivity.
    rewrite Hbs, Hr. now rewrite <- !app_assoc.
  - intros H. apply (value_sound_slice cf bs v F) in H as (a & c' & b & Hr & Ha & Hb & Hc' & Hden & Hdep).
    rewrite Hbs in Hr. symmetry in Hr.
    destruct (lang_decomp_unique a c' b w1 c w2 Hr Ha Hb Hc' Hw1 Hw2 Hc) as (_ & Hrc & _).
    apply (rto_value_raw_complete cf fmt32 fmt64 _ _ Hur).
    exists [], c', []. rewrite app_nil_r. cbn [app]. repeat split; try assumption; try reflexivity. now symmetry.
Qed.

(* in terms of the denotation: the value the captured text denotes *)
Corollary to_value_of_span : forall cf fmt32 fmt64 c v,
  wfb c = true -> utf8_valid (render c) = true -> denote cf c = Some v ->
  (limit_disabled cf = false -> (cdepth c <= 127)%nat) ->
  rto_value cf fmt32 fmt64 (RRaw (render c)) = Ok v.
Proof.
  intros cf fmt32 fmt64 c v Hc Hu Hden Hdep. apply rto_value_raw_complete; [exact Hu|].
  exists [], c, []. rewrite app_nil_r. cbn [app]. repeat split; try assumption; reflexivity.
Qed.

Print Assumptions rto_value_raw.
Print Assumptions lang_decomp_unique.
Print Assumptions to_value_of_captured.
Print Assumptions to_value_of_span.
