(* Proofs/LexRtn.v — ExtendedFloat::into_float / into_downward_float (round_to_native) and errors.rs error_is_accurate on a
   NORMALISED extended float (2^63 <= mant < 2^64), both float kinds, as arithmetic:

     rshift k e            the number of low bits dropped: DEFAULT_SHIFT, or DENORMAL_EXPONENT - e in the denormal range
     into_float_norm       ef_into_float          = min (encZ q E + dec, INFINITY_BITS),  q = m / 2^s, r = m mod 2^s, E = e + s,
                           ef_into_downward_float = min (encZ q E, INFINITY_BITS)           dec = nearest-even decision on r vs 2^(s-1)
                           (both 0 when s > 64)
     error_is_accurate_norm   the halfway-window test  not (h - err < r < h + err)  (resp. m + err < 2^64 for s = 65, true for s > 65) *)
From Coq Require Import ZArith NArith Reals Lia Lra List Bool Psatz.
From Flocq Require Import Core BinarySingleNaN.
From SJ Require Import Base.Bytes Base.FloatB Gen.LexTables Model.Read Model.Num Model.Lex.
From SJ Require Import Proofs.FloatDefault Proofs.FloatOracle Proofs.LexExt Proofs.LexRnd Proofs.LexBits Proofs.LexAtof.
Open Scope Z_scope.

Ltac Zify.zify_post_hook ::= Z.to_euclidean_division_equations.

Definition rshift (k : fkind) (e : Z) : Z :=
  if e + DEFAULT_SHIFT k <? DENORMAL_EXPONENT k then DENORMAL_EXPONENT k - e else DEFAULT_SHIFT k.

Lemma rshift_range (k : fkind) (e : Z) : DEFAULT_SHIFT k <= rshift k e /\ DENORMAL_EXPONENT k <= e + rshift k e /\
  (e + rshift k e = DENORMAL_EXPONENT k \/ rshift k e = DEFAULT_SHIFT k) /\ 11 <= DEFAULT_SHIFT k <= 40.
Proof. unfold rshift. destruct (Z.ltb_spec (e + DEFAULT_SHIFT k) (DENORMAL_EXPONENT k)); destruct k; kconst; lia. Qed.

Lemma rne_is_bh_false (fp : efloat) (s : Z) : round_nearest_tie_even fp s = bh_round_nearest_tie_even false fp s.
Proof.
  unfold round_nearest_tie_even, bh_round_nearest_tie_even.
  destruct (round_nearest fp s) as ((fp1, a), h). rewrite andb_false_r. reflexivity.
Qed.

Lemma round_downward_spec (m : N) (e s : Z) : (m < two64N)%N -> 0 <= s <= 64 ->
  round_downward (mkEF m e) s = mkEF (Z.to_N (Z.of_N m / 2 ^ s)) (e + s).
Proof.
  intros Hm Hs. unfold round_downward, overflowing_shr. cbn [mant exp]. f_equal.
  destruct (Z.eqb_spec s 64) as [->|Hne].
  - change (2 ^ 64) with 18446744073709551616. unfold two64N in Hm. rewrite Z.div_small by lia. reflexivity.
  - rewrite N.shiftr_div_pow2. apply N2Z.inj. rewrite N2Z.inj_div, N2Z.inj_pow, !Z2N.id; try lia.
    apply Z.div_pos; [lia|apply pow2_pos; lia].
Qed.

Theorem into_float_norm : forall (k : fkind) (m : N) (e : Z), (9223372036854775808 <= m < two64N)%N ->
  let s := rshift k e in
  (s <= 64 ->
   let q := Z.of_N m / 2 ^ s in let r := Z.of_N m mod 2 ^ s in let E := e + s in
   ef_into_float k (mkEF m e) =
     Z.to_N (Z.min (encZ k q E + dec_of (Z.compare r (2 ^ (s - 1))) q) (Z.of_N (INFINITY_BITS k))) /\
   ef_into_downward_float k (mkEF m e) = Z.to_N (Z.min (encZ k q E) (Z.of_N (INFINITY_BITS k))) /\
   0 <= q < 2 ^ prec k /\ (E = DENORMAL_EXPONENT k \/ 2 ^ MANTISSA_SIZE k <= q)) /\
  (64 < s -> ef_into_float k (mkEF m e) = 0%N /\ ef_into_downward_float k (mkEF m e) = 0%N).
Proof.
  intros k m e Hm s.
  destruct (rshift_range k e) as (Hs1 & Hs2 & Hs3 & Hds). fold s in Hs1, Hs2, Hs3.
  unfold ef_into_float, ef_into_downward_float, round_to_native.
  rewrite ef_normalize_id by exact Hm. cbn [fst]. rewrite !round_to_float_carry. cbn [exp].
  assert (Hsdef : s = if e + DEFAULT_SHIFT k <? DENORMAL_EXPONENT k then DENORMAL_EXPONENT k - e else DEFAULT_SHIFT k) by reflexivity.
  split.
  - intros Hs64. set (q := Z.of_N m / 2 ^ s). set (r := Z.of_N m mod 2 ^ s). set (E := e + s).
    assert (Hq : 0 <= q < 2 ^ prec k /\ (E = DENORMAL_EXPONENT k \/ 2 ^ MANTISSA_SIZE k <= q)).
    { unfold two64N in Hm. unfold q, E.
      assert (Hp : 0 < 2 ^ s) by (apply pow2_pos; lia).
      assert (Hq0 : 0 <= Z.of_N m / 2 ^ s) by (apply Z.div_pos; lia).
      assert (Hmono : 2 ^ DEFAULT_SHIFT k <= 2 ^ s) by (apply Z.pow_le_mono_r; lia).
      assert (Hup : Z.of_N m / 2 ^ s <= Z.of_N m / 2 ^ DEFAULT_SHIFT k).
      { apply Z.div_le_compat_l; [lia|]. split; [apply pow2_pos; lia|exact Hmono]. }
      split.
      - split; [exact Hq0|]. apply Z.le_lt_trans with (1 := Hup).
        destruct k; kconst; change (2 ^ 11) with 2048; change (2 ^ 40) with 1099511627776;
          change (2 ^ (52 + 1)) with 9007199254740992; change (2 ^ (23 + 1)) with 16777216; lia.
      - destruct Hs3 as [H|H]; [left; exact H|right]. rewrite H.
        destruct k; kconst; change (2 ^ 11) with 2048; change (2 ^ 40) with 1099511627776;
          change (2 ^ 52) with 4503599627370496; change (2 ^ 23) with 8388608; lia. }
    destruct Hq as (Hq & Hcan).
    assert (Halg : (if e + DEFAULT_SHIFT k <? DENORMAL_EXPONENT k
                    then (if DENORMAL_EXPONENT k - e <=? 64 then round_nearest_tie_even (mkEF m e) (DENORMAL_EXPONENT k - e) else mkEF 0%N 0)
                    else round_nearest_tie_even (mkEF m e) (DEFAULT_SHIFT k)) = round_nearest_tie_even (mkEF m e) s).
    { rewrite Hsdef. destruct (Z.ltb_spec (e + DEFAULT_SHIFT k) (DENORMAL_EXPONENT k)) as [Hd|Hd]; [|reflexivity].
      rewrite Hsdef in Hs64. destruct (Z.ltb_spec (e + DEFAULT_SHIFT k) (DENORMAL_EXPONENT k)); [|lia].
      destruct (Z.leb_spec (DENORMAL_EXPONENT k - e) 64); [reflexivity|lia]. }
    assert (Halg2 : (if e + DEFAULT_SHIFT k <? DENORMAL_EXPONENT k
                    then (if DENORMAL_EXPONENT k - e <=? 64 then round_downward (mkEF m e) (DENORMAL_EXPONENT k - e) else mkEF 0%N 0)
                    else round_downward (mkEF m e) (DEFAULT_SHIFT k)) = round_downward (mkEF m e) s).
    { rewrite Hsdef. destruct (Z.ltb_spec (e + DEFAULT_SHIFT k) (DENORMAL_EXPONENT k)) as [Hd|Hd]; [|reflexivity].
      rewrite Hsdef in Hs64. destruct (Z.ltb_spec (e + DEFAULT_SHIFT k) (DENORMAL_EXPONENT k)); [|lia].
      destruct (Z.leb_spec (DENORMAL_EXPONENT k - e) 64); [reflexivity|lia]. }
    rewrite Halg, Halg2. clear Halg Halg2.
    rewrite rne_is_bh_false, bh_round_spec by (unfold two64N in *; lia). cbv zeta. fold q r.
    rewrite round_downward_spec by (unfold two64N in *; lia). fold q E.
    set (d := dec_of (Z.compare r (2 ^ (s - 1))) q).
    assert (Hd : d = dec_of match Z.compare r (2 ^ (s - 1)) with Lt => Lt | Gt => Gt | Eq => Eq end q)
      by (unfold d; destruct (Z.compare r (2 ^ (s - 1))); reflexivity).
    rewrite <- Hd.
    assert (Hdr : 0 <= d <= 1) by apply dec_of_range.
    split; [|split; [|split; assumption]].
    + rewrite finish_spec.
      * rewrite Z2N.id by lia. f_equal. f_equal. unfold encZ.
        destruct (Z.ltb_spec q (2 ^ MANTISSA_SIZE k)) as [H1|H1]; destruct (Z.ltb_spec (q + d) (2 ^ MANTISSA_SIZE k)) as [H2|H2]; try lia.
        destruct Hcan as [Hc|Hc]; [|lia]. unfold E in Hc. fold E in Hc. rewrite Hc.
        destruct (masks_shape k) as (_ & _ & _ & _ & _ & _ & Hbias & _). rewrite Hbias. lia.
      * rewrite Z2N.id by lia. lia.
      * unfold E in *. lia.
      * rewrite Z2N.id by lia. destruct Hcan as [Hc|Hc]; [left; exact Hc|right; lia].
    + rewrite finish_spec.
      * rewrite Z2N.id by lia. reflexivity.
      * rewrite Z2N.id by lia. lia.
      * unfold E in *. lia.
      * rewrite Z2N.id by lia. exact Hcan.
  - intros Hs64. rewrite Hsdef in Hs64.
    destruct (Z.ltb_spec (e + DEFAULT_SHIFT k) (DENORMAL_EXPONENT k)) as [Hd|Hd]; [|lia].
    destruct (Z.leb_spec (DENORMAL_EXPONENT k - e) 64) as [H|H]; [lia|].
    split; (assert (Hz : carry_fix k (mkEF 0%N 0) = mkEF 0%N 0) by (destruct k; reflexivity); rewrite Hz;
            rewrite avoid_overflow_id by (left; cbn [exp]; destruct k; kconst; lia); reflexivity).
Qed.

(* ------------------------------------------------------------------ *)
(** * error_is_accurate *)
Theorem error_is_accurate_norm : forall (k : fkind) (err m : N) (e : Z), (m < two64N)%N ->
  let s := rshift k e in
  (Z.of_N err <= 1024) ->
  error_is_accurate k err (mkEF m e) =
  if 65 <? s then true
  else if s =? 65 then (Z.of_N m + Z.of_N err <? 2 ^ 64)
  else let r := Z.of_N m mod 2 ^ s in let h := 2 ^ (s - 1) in
       negb ((h - Z.of_N err <? r) && (r <? h + Z.of_N err)).
Proof.
  intros k err m e Hm s Herr.
  destruct (rshift_range k e) as (Hs1 & Hs2 & Hs3 & Hds). fold s in Hs1, Hs2, Hs3.
  unfold error_is_accurate. cbn [exp].
  assert (Hext : (if e <=? - (EXPONENT_BIAS k - MANTISSA_SIZE k) - 63
                  then 64 - MANTISSA_SIZE k + (- (EXPONENT_BIAS k - MANTISSA_SIZE k) - 63) - e
                  else 63 - MANTISSA_SIZE k) = s).
  { unfold s, rshift. destruct k; kconst.
    - destruct (Z.leb_spec e (- (1075 - 52) - 63)); destruct (Z.ltb_spec (e + 11) (-1074)); lia.
    - destruct (Z.leb_spec e (- (150 - 23) - 63)); destruct (Z.ltb_spec (e + 40) (-149)); lia. }
  rewrite Hext. destruct (Z.ltb_spec 65 s) as [H65|H65]; [reflexivity|].
  unfold nearest_error_is_accurate. cbn [mant].
  destruct (Z.eqb_spec s 65) as [He|He].
  - unfold two64N. change (2 ^ 64) with 18446744073709551616.
    destruct (N.ltb_spec (m + err) 18446744073709551616); destruct (Z.ltb_spec (Z.of_N m + Z.of_N err) 18446744073709551616); try reflexivity; exfalso; lia.
  - cbv zeta. rewrite lower_n_mask_spec by lia. rewrite lower_n_halfway_spec by lia. rewrite land_lo.
    assert (Hh : Z.of_N (2 ^ Z.to_N (s - 1)) = 2 ^ (s - 1)) by (rewrite N2Z.inj_pow, Z2N.id by lia; reflexivity).
    assert (Hr : Z.of_N (m mod 2 ^ Z.to_N s) = Z.of_N m mod 2 ^ s) by (rewrite N2Z.inj_mod, N2Z.inj_pow, Z2N.id by lia; reflexivity).
    assert (Hh1 : 1024 <= 2 ^ (s - 1)) by (change 1024 with (2 ^ 10); apply Z.pow_le_mono_r; lia).
    assert (Hh2 : 2 ^ (s - 1) <= 2 ^ 63) by (apply Z.pow_le_mono_r; lia).
    change (2 ^ 63) with 9223372036854775808 in Hh2.
    set (hn := (2 ^ Z.to_N (s - 1))%N) in *. set (rn := (m mod 2 ^ Z.to_N s)%N) in *.
    set (h := 2 ^ (s - 1)) in *. set (r := Z.of_N m mod 2 ^ s) in *.
    clearbody hn rn h r. unfold two64N.
    assert (E1 : ((hn + 18446744073709551616 - err) mod 18446744073709551616)%N = (hn - err)%N).
    { replace (hn + 18446744073709551616 - err)%N with ((hn - err) + 1 * 18446744073709551616)%N by lia.
      rewrite N.mod_add by discriminate. apply N.mod_small. lia. }
    assert (E2 : ((hn + err) mod 18446744073709551616)%N = (hn + err)%N) by (apply N.mod_small; lia).
    rewrite E1, E2. f_equal.
    destruct (N.ltb_spec (hn - err) rn); destruct (N.ltb_spec rn (hn + err));
      destruct (Z.ltb_spec (h - Z.of_N err) r); destruct (Z.ltb_spec r (h + Z.of_N err)); cbn [andb]; try reflexivity; exfalso; lia.
Qed.

Print Assumptions into_float_norm.
Print Assumptions error_is_accurate_norm.
