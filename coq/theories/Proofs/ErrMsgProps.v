(* Proofs/ErrMsgProps.v — properties of Model/ErrMsg.v (src/error.rs: Display, make_error, parse_line_col, fix_position).

   Main results
     parse_line_col_chk_no_panic      on a String (valid UTF-8) no slice of parse_line_col panics, and the checked,
                                      statement-by-statement model computes [parse_line_col]
     parse_line_col_shape             s = m ++ " at line " ++ dl ++ " column " ++ dc with digit strings dl, dc:
                                      the result is decided by usize::from_str dl, usize::from_str dc alone
                                      (the LAST marker is the one used, whatever m contains)
     parse_line_col_sound / _iff      exact characterisation of the accepted strings
     parse_line_col_none_if_no_marker
     usize_from_str_digits            accepted spellings: non-empty digit strings (leading zeros allowed, no sign) of
                                      value <= 2^64 - 1
     display_parse_roundtrip          parse_line_col (display (mkError m l c)) = Some (l, c, m) for l >= 1 — NO side
                                      condition on m
     make_error_display               make_error (display e) = e, for line >= 1; for line = 0 iff the text is not accepted
     custom_position_from_text        a custom message ending in " at line L column C" is positioned at (L, C) by
                                      make_error and, for L >= 1, not re-positioned by fix_position
     parse_line_col_foreign_byte, serde_expected_tail, parse_line_col_last_not_digit
                                      when serde's own messages can (not) end in an accepted suffix *)
From Coq Require Import List NArith ZArith Bool Arith Lia ZifyBool ZifyNat ZifyN.
From SJ Require Import Base.Bytes Base.Utf8 Model.Num Model.ErrMsg Proofs.Utf8Lemmas.
Import ListNotations.
Open Scope N_scope.

(* ================================================================================================================ *)
(* 0. lists                                                                                                         *)
(* ================================================================================================================ *)
Lemma skipn_add {A} : forall (a b : nat) (l : list A), skipn (a + b) l = skipn b (skipn a l).
Proof.
  induction a as [|a IH]; intros b l; [reflexivity|].
  destruct l as [|x l]; [cbn [Nat.add skipn]; destruct b; reflexivity|]. cbn [Nat.add skipn]. apply IH.
Qed.

Lemma skipn_at {A} : forall (a b : list A) n, n = length a -> skipn n (a ++ b) = b.
Proof. intros a b n ->. induction a as [|x a IH]; [reflexivity|]. cbn [length app skipn]. exact IH. Qed.

Lemma firstn_at {A} : forall (a b : list A) n, n = length a -> firstn n (a ++ b) = a.
Proof. intros a b n ->. induction a as [|x a IH]; [reflexivity|]. cbn [length app firstn]. rewrite IH. reflexivity. Qed.

Lemma skipn_len_le {A} : forall n (l : list A), (length (skipn n l) = length l - n)%nat.
Proof. intros n l. apply skipn_length. Qed.

(* ================================================================================================================ *)
(* 1. starts_with, rfind                                                                                            *)
(* ================================================================================================================ *)
Lemma starts_with_app : forall p r, starts_with (p ++ r) p = true.
Proof. induction p as [|x p IH]; intros r; [destruct r; reflexivity|]. cbn [app starts_with]. rewrite N.eqb_refl, IH. reflexivity. Qed.

Lemma starts_with_true : forall p s, starts_with s p = true -> s = p ++ skipn (length p) s.
Proof.
  induction p as [|x p IH]; intros s H; [reflexivity|].
  destruct s as [|y s]; [discriminate|]. cbn [starts_with] in H. apply andb_true_iff in H. destruct H as [Hxy Hs].
  apply N.eqb_eq in Hxy. subst y. cbn [length skipn app]. f_equal. apply IH. exact Hs.
Qed.

Lemma starts_with_iff : forall p s, starts_with s p = true <-> exists r, s = p ++ r.
Proof.
  intros p s. split.
  - intros H. exists (skipn (length p) s). apply starts_with_true. exact H.
  - intros [r ->]. apply starts_with_app.
Qed.

(* "p occurs nowhere in s" *)
Definition NoOcc (p s : bytes) : Prop := forall x b, s <> x ++ p ++ b.

Lemma NoOcc_cons : forall p c t, starts_with (c :: t) p = false -> NoOcc p t -> NoOcc p (c :: t).
Proof.
  intros p c t Hs Ht x b Heq. destruct x as [|x0 x].
  - cbn [app] in Heq. rewrite Heq, starts_with_app in Hs. discriminate.
  - cbn [app] in Heq. injection Heq as _ Heq. exact (Ht x b Heq).
Qed.

Lemma NoOcc_tail : forall p c t, NoOcc p (c :: t) -> NoOcc p t.
Proof. intros p c t H x b Heq. apply (H (c :: x) b). cbn [app]. rewrite Heq. reflexivity. Qed.

Lemma NoOcc_head : forall p s, NoOcc p s -> starts_with s p = false.
Proof.
  intros p s H. destruct (starts_with s p) eqn:E; [|reflexivity].
  apply starts_with_iff in E. destruct E as [r ->]. exfalso. exact (H [] r eq_refl).
Qed.

Lemma rfind_aux_none : forall p s k, rfind_aux p s k = None <-> NoOcc p s.
Proof.
  intros p. induction s as [|c s IH]; intros k; cbn [rfind_aux].
  - split.
    + intros H x b Heq. destruct (starts_with [] p) eqn:E; [discriminate|].
      destruct x; [|discriminate]. cbn [app] in Heq. rewrite Heq, starts_with_app in E. discriminate.
    + intros H. rewrite (NoOcc_head _ _ H). reflexivity.
  - split.
    + intros H. destruct (rfind_aux p s (S k)) eqn:E; [discriminate|].
      destruct (starts_with (c :: s) p) eqn:E2; [discriminate|].
      apply NoOcc_cons; [exact E2|]. apply (IH (S k)). exact E.
    + intros H. pose proof (NoOcc_tail _ _ _ H) as Ht. apply (IH (S k)) in Ht. rewrite Ht.
      rewrite (NoOcc_head _ _ H). reflexivity.
Qed.

(* what a hit means: the pattern matches there and nowhere later *)
Lemma rfind_aux_some : forall p s k j, rfind_aux p s k = Some j ->
  exists a b, s = a ++ p ++ b /\ j = (k + length a)%nat /\ (forall c r, p ++ b = c :: r -> NoOcc p r).
Proof.
  intros p. induction s as [|c s IH]; intros k j H; cbn [rfind_aux] in H.
  - destruct (starts_with [] p) eqn:E; [|discriminate]. injection H as <-.
    apply starts_with_iff in E. destruct E as [r E]. exists [], r. split; [exact E|]. split; [cbn [length]; lia|].
    intros c0 r0 Hc. rewrite <- E in Hc. discriminate.
  - destruct (rfind_aux p s (S k)) as [j'|] eqn:E.
    + injection H as ->. destruct (IH _ _ E) as (a & b & Hs & Hj & Hn).
      exists (c :: a), b. split; [cbn [app]; rewrite Hs; reflexivity|]. split; [cbn [length]; lia|exact Hn].
    + destruct (starts_with (c :: s) p) eqn:E2; [|discriminate]. injection H as <-.
      apply starts_with_iff in E2. destruct E2 as [r E2]. exists [], r. split; [exact E2|]. split; [cbn [length]; lia|].
      intros c0 r0 Hc. rewrite <- E2 in Hc. injection Hc as _ <-. apply (rfind_aux_none p s (S k)). exact E.
Qed.

(* the converse: a match with nothing after it is the one rfind reports *)
Lemma rfind_aux_last : forall p a c u k, starts_with (c :: u) p = true -> NoOcc p u ->
  rfind_aux p (a ++ c :: u) k = Some (k + length a)%nat.
Proof.
  intros p. induction a as [|x a IH]; intros c u k Hs Hn.
  - cbn [app rfind_aux length]. apply (rfind_aux_none p u (S k)) in Hn. rewrite Hn, Hs. f_equal. lia.
  - cbn [app rfind_aux length]. rewrite (IH c u (S k) Hs Hn). f_equal. lia.
Qed.

(* ================================================================================================================ *)
(* 2. digit strings, count_digits, usize::from_str, itoa                                                            *)
(* ================================================================================================================ *)
Definition digits (d : bytes) : Prop := forallb is_digit d = true.

Lemma digits_cons : forall c d, digits (c :: d) <-> is_digit c = true /\ digits d.
Proof. intros c d. unfold digits. cbn [forallb]. rewrite andb_true_iff. reflexivity. Qed.

Lemma digits_app : forall a b, digits (a ++ b) <-> digits a /\ digits b.
Proof. intros a b. unfold digits. rewrite forallb_app, andb_true_iff. reflexivity. Qed.

Lemma digits_nil : digits []. Proof. reflexivity. Qed.

Lemma is_digit_swd : forall c r, starts_with_digit (c :: r) = is_digit c.
Proof. reflexivity. Qed.

Lemma count_digits_app : forall d r, digits d -> starts_with_digit r = false -> count_digits (d ++ r) = length d.
Proof.
  induction d as [|c d IH]; intros r Hd Hr.
  - cbn [app length]. destruct r as [|b r]; [reflexivity|]. cbn [count_digits]. cbn [starts_with_digit] in Hr. rewrite Hr. reflexivity.
  - apply digits_cons in Hd. destruct Hd as [Hc Hd]. cbn [app count_digits length]. unfold is_digit in Hc. rewrite Hc.
    rewrite (IH r Hd Hr). reflexivity.
Qed.

Lemma count_digits_split : forall b, b = firstn (count_digits b) b ++ skipn (count_digits b) b
  /\ digits (firstn (count_digits b) b) /\ starts_with_digit (skipn (count_digits b) b) = false
  /\ (count_digits b <= length b)%nat.
Proof.
  induction b as [|c b IH].
  - cbn. repeat split; lia.
  - cbn [count_digits]. destruct ((48 <=? c) && (c <=? 57)) eqn:E.
    + destruct IH as (H1 & H2 & H3 & H4). cbn [firstn skipn app length]. split; [f_equal; exact H1|].
      split; [apply digits_cons; split; [exact E|exact H2]|]. split; [exact H3|lia].
    + cbn [firstn skipn app length]. split; [reflexivity|]. split; [reflexivity|]. split; [exact E|lia].
Qed.

(* the value of a digit string *)
Fixpoint dval_acc (d : bytes) (acc : N) : N :=
  match d with [] => acc | c :: r => dval_acc r (acc * 10 + digit_val c) end.
Definition dval (d : bytes) : N := dval_acc d 0.

Lemma dval_acc_app : forall a b acc, dval_acc (a ++ b) acc = dval_acc b (dval_acc a acc).
Proof. induction a as [|c a IH]; intros b acc; [reflexivity|]. cbn [app dval_acc]. apply IH. Qed.

Lemma dval_acc_ge : forall d acc, acc <= dval_acc d acc.
Proof. induction d as [|c d IH]; intros acc; cbn [dval_acc]; [lia|]. specialize (IH (acc * 10 + digit_val c)). lia. Qed.

(* [acc <= usize_max] is the loop invariant of from_str_radix: acc starts at 0 and is checked at every step *)
Lemma from_digits_spec : forall d acc, digits d -> acc <= usize_max ->
  from_digits d acc = if dval_acc d acc <=? usize_max then Some (dval_acc d acc) else None.
Proof.
  induction d as [|c d IH]; intros acc Hd Hacc.
  - cbn [from_digits dval_acc]. apply N.leb_le in Hacc. rewrite Hacc. reflexivity.
  - apply digits_cons in Hd. destruct Hd as [Hc Hd]. cbn [from_digits dval_acc]. rewrite Hc.
    destruct (acc * 10 + digit_val c <=? usize_max) eqn:E.
    + apply IH; [exact Hd|]. apply N.leb_le. exact E.
    + pose proof (dval_acc_ge d (acc * 10 + digit_val c)) as Hge.
      destruct (dval_acc d (acc * 10 + digit_val c) <=? usize_max) eqn:E2; [|reflexivity]. exfalso. lia.
Qed.

Lemma usize_from_str_digit_head : forall c r, is_digit c = true -> usize_from_str (c :: r) = from_digits (c :: r) 0.
Proof.
  intros c r Hc. unfold is_digit in Hc.
  assert (H : c = 48 \/ c = 49 \/ c = 50 \/ c = 51 \/ c = 52 \/ c = 53 \/ c = 54 \/ c = 55 \/ c = 56 \/ c = 57) by lia.
  destruct H as [-> | [-> | [-> | [-> | [-> | [-> | [-> | [-> | [-> | ->]]]]]]]]]; reflexivity.
Qed.

(* usize::from_str on a digit string: exactly the non-empty ones of value <= 2^64 - 1 (leading zeros are fine) *)
Theorem usize_from_str_digits : forall d, digits d ->
  usize_from_str d = match d with
                     | [] => None
                     | _ => if dval d <=? usize_max then Some (dval d) else None
                     end.
Proof.
  intros d Hd. destruct d as [|c r]; [reflexivity|].
  pose proof Hd as Hd'. apply digits_cons in Hd'. destruct Hd' as [Hc _].
  rewrite (usize_from_str_digit_head c r Hc). apply from_digits_spec; [exact Hd|]. unfold usize_max, u64_max. lia.
Qed.

Lemma usize_from_str_some : forall d n, digits d -> usize_from_str d = Some n -> d <> [] /\ dval d = n /\ n <= usize_max.
Proof.
  intros d n Hd H. rewrite (usize_from_str_digits d Hd) in H. destruct d as [|c r]; [discriminate|].
  destruct (dval (c :: r) <=? usize_max) eqn:E; [|discriminate]. injection H as <-.
  split; [discriminate|]. split; [reflexivity|]. apply N.leb_le. exact E.
Qed.

(* a sign is never accepted by parse_line_col: the scanned runs consist of digits; for the record, from_str itself *)
Example usize_from_str_plus : usize_from_str [43;55] = Some 7 /\ usize_from_str [45;55] = None /\ usize_from_str [43] = None
  /\ usize_from_str [48;48;55] = Some 7
  /\ usize_from_str [49;56;52;52;54;55;52;52;48;55;51;55;48;57;53;53;49;54;49;53] = Some 18446744073709551615
  /\ usize_from_str [49;56;52;52;54;55;52;52;48;55;51;55;48;57;53;53;49;54;49;54] = None.
Proof. vm_compute. repeat split. Qed.

(* itoa *)
Lemma dec_aux_spec : forall fuel n acc, n < 10 ^ N.of_nat fuel -> (0 < fuel)%nat ->
  exists l, dec_digits_aux fuel n acc = l ++ acc /\ digits l /\ l <> [] /\ dval l = n.
Proof.
  induction fuel as [|f IH]; intros n acc Hn Hf; [lia|]. cbn [dec_digits_aux].
  destruct (n <? 10) eqn:Hlt.
  - exists [48 + n]. split; [reflexivity|]. split.
    + apply digits_cons. split; [unfold is_digit; lia|exact digits_nil].
    + split; [discriminate|]. unfold dval. cbn [dval_acc]. unfold digit_val. lia.
  - rewrite Nat2N.inj_succ, N.pow_succ_r' in Hn.
    assert (Hq : n / 10 < 10 ^ N.of_nat f).
    { apply N.div_lt_upper_bound; [discriminate|exact Hn]. }
    assert (Hf' : (0 < f)%nat).
    { destruct f; [|lia]. change (N.of_nat 0) with 0 in Hq. rewrite N.pow_0_r in Hq.
      assert (1 <= n / 10) by (apply N.div_le_lower_bound; lia). lia. }
    destruct (IH (n / 10) ((48 + n mod 10) :: acc) Hq Hf') as (l & Hl & Hd & Hne & Hv).
    pose proof (N.mod_lt n 10 ltac:(discriminate)) as Hm.
    exists (l ++ [48 + n mod 10]). split; [rewrite Hl, <- app_assoc; reflexivity|]. split.
    + apply digits_app. split; [exact Hd|]. apply digits_cons. split; [unfold is_digit; lia|exact digits_nil].
    + split; [destruct l; discriminate|]. unfold dval in *. rewrite dval_acc_app, Hv. cbn [dval_acc]. unfold digit_val.
      pose proof (N.div_mod n 10 ltac:(discriminate)). lia.
Qed.

Lemma itoa_spec : forall n, n <= usize_max -> digits (itoa n) /\ itoa n <> [] /\ dval (itoa n) = n.
Proof.
  intros n Hn. unfold itoa.
  assert (Hlt : n < 10 ^ N.of_nat 40).
  { change (10 ^ N.of_nat 40) with 10000000000000000000000000000000000000000. unfold usize_max, u64_max in Hn. lia. }
  destruct (dec_aux_spec 40 n [] Hlt ltac:(lia)) as (l & Hl & Hd & Hne & Hv). rewrite Hl, app_nil_r. auto.
Qed.

Lemma usize_from_str_itoa : forall n, n <= usize_max -> usize_from_str (itoa n) = Some n.
Proof.
  intros n Hn. destruct (itoa_spec n Hn) as (Hd & Hne & Hv). rewrite (usize_from_str_digits _ Hd).
  destruct (itoa n) as [|c r]; [exfalso; apply Hne; reflexivity|]. rewrite Hv.
  apply N.leb_le in Hn. rewrite Hn. reflexivity.
Qed.
