(* Proofs/ErrMsgProps.v — properties of Model/ErrMsg.v (src/error.rs: Display, make_error, parse_line_col, fix_position).

   Main results
     parse_line_col_chk_no_panic      on a String (valid UTF-8) no slice of parse_line_col panics, and the checked,
                                      statement-by-statement model computes [parse_line_col]
     parse_line_col_shape             s = m ++ " at line " ++ dl ++ " column " ++ dc with digit strings dl, dc:
                                      the result is decided by usize::from_str dl, usize::from_str dc alone
                                      (the LAST marker is the one used, whatever m contains)
     parse_line_col_sound / _iff      exact characterisation of the accepted strings
     parse_line_col_none_if_no_marker
     usize_from_str_digits            accepted spellings: non-empty digit strings (leading zeros allowed, no sign) of
                                      value <= 2^64 - 1
     display_parse_roundtrip          parse_line_col (display (mkError m l c)) = Some (l, c, m) for l >= 1 — NO side
                                      condition on m
     make_error_display               make_error (display e) = e, for line >= 1; for line = 0 iff the text is not accepted
     custom_position_from_text        a custom message ending in " at line L column C" is positioned at (L, C) by
                                      make_error and, for L >= 1, not re-positioned by fix_position
     parse_line_col_foreign_byte, serde_expected_tail, parse_line_col_last_not_digit
                                      when serde's own messages can (not) end in an accepted suffix *)
From Coq Require Import List NArith ZArith Bool Arith Lia ZifyBool ZifyNat ZifyN.
From SJ Require Import Base.Bytes Base.Utf8 Model.Num Model.ErrMsg Proofs.Utf8Lemmas.
Import ListNotations.
Open Scope N_scope.

(* ================================================================================================================ *)
(* 0. lists                                                                                                         *)
(* ================================================================================================================ *)
Lemma skipn_add {A} : forall (a b : nat) (l : list A), skipn (a + b) l = skipn b (skipn a l).
Proof.
  induction a as [|a IH]; intros b l; [reflexivity|].
  destruct l as [|x l]; [cbn [Nat.add skipn]; destruct b; reflexivity|]. cbn [Nat.add skipn]. apply IH.
Qed.

Lemma skipn_at {A} : forall (a b : list A) n, n = length a -> skipn n (a ++ b) = b.
Proof. intros a b n ->. induction a as [|x a IH]; [reflexivity|]. cbn [length app skipn]. exact IH. Qed.

Lemma firstn_at {A} : forall (a b : list A) n, n = length a -> firstn n (a ++ b) = a.
Proof. intros a b n ->. induction a as [|x a IH]; [reflexivity|]. cbn [length app firstn]. rewrite IH. reflexivity. Qed.

Lemma skipn_len_le {A} : forall n (l : list A), (length (skipn n l) = length l - n)%nat.
Proof. intros n l. apply skipn_length. Qed.

(* ================================================================================================================ *)
(* 1. starts_with, rfind                                                                                            *)
(* ================================================================================================================ *)
Lemma starts_with_app : forall p r, starts_with (p ++ r) p = true.
Proof. induction p as [|x p IH]; intros r; [destruct r; reflexivity|]. cbn [app starts_with]. rewrite N.eqb_refl, IH. reflexivity. Qed.

Lemma starts_with_true : forall p s, starts_with s p = true -> s = p ++ skipn (length p) s.
Proof.
  induction p as [|x p IH]; intros s H; [reflexivity|].
  destruct s as [|y s]; [discriminate|]. cbn [starts_with] in H. apply andb_true_iff in H. destruct H as [Hxy Hs].
  apply N.eqb_eq in Hxy. subst y. cbn [length skipn app]. f_equal. apply IH. exact Hs.
Qed.

Lemma starts_with_iff : forall p s, starts_with s p = true <-> exists r, s = p ++ r.
Proof.
  intros p s. split.
  - intros H. exists (skipn (length p) s). apply starts_with_true. exact H.
  - intros [r ->]. apply starts_with_app.
Qed.

(* "p occurs nowhere in s" *)
Definition NoOcc (p s : bytes) : Prop := forall x b, s <> x ++ p ++ b.

Lemma NoOcc_cons : forall p c t, starts_with (c :: t) p = false -> NoOcc p t -> NoOcc p (c :: t).
Proof.
  intros p c t Hs Ht x b Heq. destruct x as [|x0 x].
  - cbn [app] in Heq. rewrite Heq, starts_with_app in Hs. discriminate.
  - cbn [app] in Heq. injection Heq as _ Heq. exact (Ht x b Heq).
Qed.

Lemma NoOcc_tail : forall p c t, NoOcc p (c :: t) -> NoOcc p t.
Proof. intros p c t H x b Heq. apply (H (c :: x) b). cbn [app]. rewrite Heq. reflexivity. Qed.

Lemma NoOcc_head : forall p s, NoOcc p s -> starts_with s p = false.
Proof.
  intros p s H. destruct (starts_with s p) eqn:E; [|reflexivity].
  apply starts_with_iff in E. destruct E as [r ->]. exfalso. exact (H [] r eq_refl).
Qed.

Lemma rfind_aux_none : forall p s k, rfind_aux p s k = None <-> NoOcc p s.
Proof.
  intros p. induction s as [|c s IH]; intros k; cbn [rfind_aux].
  - split.
    + intros H x b Heq. destruct (starts_with [] p) eqn:E; [discriminate|].
      destruct x; [|discriminate]. cbn [app] in Heq. rewrite Heq, starts_with_app in E. discriminate.
    + intros H. rewrite (NoOcc_head _ _ H). reflexivity.
  - split.
    + intros H. destruct (rfind_aux p s (S k)) eqn:E; [discriminate|].
      destruct (starts_with (c :: s) p) eqn:E2; [discriminate|].
      apply NoOcc_cons; [exact E2|]. apply (IH (S k)). exact E.
    + intros H. pose proof (NoOcc_tail _ _ _ H) as Ht. apply (IH (S k)) in Ht. rewrite Ht.
      rewrite (NoOcc_head _ _ H). reflexivity.
Qed.

(* what a hit means: the pattern matches there and nowhere later *)
Lemma rfind_aux_some : forall p s k j, rfind_aux p s k = Some j ->
  exists a b, s = a ++ p ++ b /\ j = (k + length a)%nat /\ (forall c r, p ++ b = c :: r -> NoOcc p r).
Proof.
  intros p. induction s as [|c s IH]; intros k j H; cbn [rfind_aux] in H.
  - destruct (starts_with [] p) eqn:E; [|discriminate]. injection H as <-.
    apply starts_with_iff in E. destruct E as [r E]. exists [], r. split; [exact E|]. split; [cbn [length]; lia|].
    intros c0 r0 Hc. rewrite <- E in Hc. discriminate.
  - destruct (rfind_aux p s (S k)) as [j'|] eqn:E.
    + injection H as ->. destruct (IH _ _ E) as (a & b & Hs & Hj & Hn).
      exists (c :: a), b. split; [cbn [app]; rewrite Hs; reflexivity|]. split; [cbn [length]; lia|exact Hn].
    + destruct (starts_with (c :: s) p) eqn:E2; [|discriminate]. injection H as <-.
      apply starts_with_iff in E2. destruct E2 as [r E2]. exists [], r. split; [exact E2|]. split; [cbn [length]; lia|].
      intros c0 r0 Hc. rewrite <- E2 in Hc. injection Hc as _ <-. apply (rfind_aux_none p s (S k)). exact E.
Qed.

(* the converse: a match with nothing after it is the one rfind reports *)
Lemma rfind_aux_last : forall p a c u k, starts_with (c :: u) p = true -> NoOcc p u ->
  rfind_aux p (a ++ c :: u) k = Some (k + length a)%nat.
Proof.
  intros p. induction a as [|x a IH]; intros c u k Hs Hn.
  - cbn [app rfind_aux length]. apply (rfind_aux_none p u (S k)) in Hn. rewrite Hn, Hs. f_equal. lia.
  - cbn [app rfind_aux length]. rewrite (IH c u (S k) Hs Hn). f_equal. lia.
Qed.

(* ================================================================================================================ *)
(* 2. digit strings, count_digits, usize::from_str, itoa                                                            *)
(* ================================================================================================================ *)
Definition digits (d : bytes) : Prop := forallb is_digit d = true.

Lemma digits_cons : forall c d, digits (c :: d) <-> is_digit c = true /\ digits d.
Proof. intros c d. unfold digits. cbn [forallb]. rewrite andb_true_iff. reflexivity. Qed.

Lemma digits_app : forall a b, digits (a ++ b) <-> digits a /\ digits b.
Proof. intros a b. unfold digits. rewrite forallb_app, andb_true_iff. reflexivity. Qed.

Lemma digits_nil : digits []. Proof. reflexivity. Qed.

Lemma is_digit_swd : forall c r, starts_with_digit (c :: r) = is_digit c.
Proof. reflexivity. Qed.

Lemma count_digits_app : forall d r, digits d -> starts_with_digit r = false -> count_digits (d ++ r) = length d.
Proof.
  induction d as [|c d IH]; intros r Hd Hr.
  - cbn [app length]. destruct r as [|b r]; [reflexivity|]. cbn [count_digits]. cbn [starts_with_digit] in Hr. rewrite Hr. reflexivity.
  - apply digits_cons in Hd. destruct Hd as [Hc Hd]. cbn [app count_digits length]. unfold is_digit in Hc. rewrite Hc.
    rewrite (IH r Hd Hr). reflexivity.
Qed.

Lemma count_digits_split : forall b, b = firstn (count_digits b) b ++ skipn (count_digits b) b
  /\ digits (firstn (count_digits b) b) /\ starts_with_digit (skipn (count_digits b) b) = false
  /\ (count_digits b <= length b)%nat.
Proof.
  induction b as [|c b IH].
  - cbn. repeat split; lia.
  - cbn [count_digits]. destruct ((48 <=? c) && (c <=? 57)) eqn:E.
    + destruct IH as (H1 & H2 & H3 & H4). cbn [firstn skipn app length]. split; [f_equal; exact H1|].
      split; [apply digits_cons; split; [exact E|exact H2]|]. split; [exact H3|lia].
    + cbn [firstn skipn app length]. split; [reflexivity|]. split; [reflexivity|]. split; [exact E|lia].
Qed.

(* the value of a digit string *)
Fixpoint dval_acc (d : bytes) (acc : N) : N :=
  match d with [] => acc | c :: r => dval_acc r (acc * 10 + digit_val c) end.
Definition dval (d : bytes) : N := dval_acc d 0.

Lemma dval_acc_app : forall a b acc, dval_acc (a ++ b) acc = dval_acc b (dval_acc a acc).
Proof. induction a as [|c a IH]; intros b acc; [reflexivity|]. cbn [app dval_acc]. apply IH. Qed.

Lemma dval_acc_ge : forall d acc, acc <= dval_acc d acc.
Proof. induction d as [|c d IH]; intros acc; cbn [dval_acc]; [lia|]. specialize (IH (acc * 10 + digit_val c)). lia. Qed.

(* [acc <= usize_max] is the loop invariant of from_str_radix: acc starts at 0 and is checked at every step *)
Lemma from_digits_spec : forall d acc, digits d -> acc <= usize_max ->
  from_digits d acc = if dval_acc d acc <=? usize_max then Some (dval_acc d acc) else None.
Proof.
  induction d as [|c d IH]; intros acc Hd Hacc.
  - cbn [from_digits dval_acc]. apply N.leb_le in Hacc. rewrite Hacc. reflexivity.
  - apply digits_cons in Hd. destruct Hd as [Hc Hd]. cbn [from_digits dval_acc]. rewrite Hc.
    destruct (acc * 10 + digit_val c <=? usize_max) eqn:E.
    + apply IH; [exact Hd|]. apply N.leb_le. exact E.
    + pose proof (dval_acc_ge d (acc * 10 + digit_val c)) as Hge.
      destruct (dval_acc d (acc * 10 + digit_val c) <=? usize_max) eqn:E2; [|reflexivity]. exfalso. lia.
Qed.

Lemma usize_from_str_digit_head : forall c r, is_digit c = true -> usize_from_str (c :: r) = from_digits (c :: r) 0.
Proof.
  intros c r Hc. unfold is_digit in Hc.
  assert (H : c = 48 \/ c = 49 \/ c = 50 \/ c = 51 \/ c = 52 \/ c = 53 \/ c = 54 \/ c = 55 \/ c = 56 \/ c = 57) by lia.
  destruct H as [-> | [-> | [-> | [-> | [-> | [-> | [-> | [-> | [-> | ->]]]]]]]]]; reflexivity.
Qed.

(* usize::from_str on a digit string: exactly the non-empty ones of value <= 2^64 - 1 (leading zeros are fine) *)
Theorem usize_from_str_digits : forall d, digits d ->
  usize_from_str d = match d with
                     | [] => None
                     | _ => if dval d <=? usize_max then Some (dval d) else None
                     end.
Proof.
  intros d Hd. destruct d as [|c r]; [reflexivity|].
  pose proof Hd as Hd'. apply digits_cons in Hd'. destruct Hd' as [Hc _].
  rewrite (usize_from_str_digit_head c r Hc). apply from_digits_spec; [exact Hd|]. unfold usize_max, u64_max. lia.
Qed.

Lemma usize_from_str_some : forall d n, digits d -> usize_from_str d = Some n -> d <> [] /\ dval d = n /\ n <= usize_max.
Proof.
  intros d n Hd H. rewrite (usize_from_str_digits d Hd) in H. destruct d as [|c r]; [discriminate|].
  destruct (dval (c :: r) <=? usize_max) eqn:E; [|discriminate]. injection H as <-.
  split; [discriminate|]. split; [reflexivity|]. apply N.leb_le. exact E.
Qed.

(* a sign is never accepted by parse_line_col: the scanned runs consist of digits; for the record, from_str itself *)
Example usize_from_str_plus : usize_from_str [43;55] = Some 7 /\ usize_from_str [45;55] = None /\ usize_from_str [43] = None
  /\ usize_from_str [48;48;55] = Some 7
  /\ usize_from_str [49;56;52;52;54;55;52;52;48;55;51;55;48;57;53;53;49;54;49;53] = Some 18446744073709551615
  /\ usize_from_str [49;56;52;52;54;55;52;52;48;55;51;55;48;57;53;53;49;54;49;54] = None.
Proof. vm_compute. repeat split. Qed.

(* itoa *)
Lemma dec_aux_spec : forall fuel n acc, n < 10 ^ N.of_nat fuel -> (0 < fuel)%nat ->
  exists l, dec_digits_aux fuel n acc = l ++ acc /\ digits l /\ l <> [] /\ dval l = n.
Proof.
  induction fuel as [|f IH]; intros n acc Hn Hf; [lia|]. cbn [dec_digits_aux].
  destruct (n <? 10) eqn:Hlt.
  - exists [48 + n]. split; [reflexivity|]. split.
    + apply digits_cons. split; [unfold is_digit; lia|exact digits_nil].
    + split; [discriminate|]. unfold dval. cbn [dval_acc]. unfold digit_val. lia.
  - rewrite Nat2N.inj_succ, N.pow_succ_r' in Hn.
    assert (Hq : n / 10 < 10 ^ N.of_nat f).
    { apply N.div_lt_upper_bound; [discriminate|exact Hn]. }
    assert (Hf' : (0 < f)%nat).
    { destruct f; [|lia]. change (N.of_nat 0) with 0 in Hq. rewrite N.pow_0_r in Hq.
      assert (1 <= n / 10) by (apply N.div_le_lower_bound; lia). lia. }
    destruct (IH (n / 10) ((48 + n mod 10) :: acc) Hq Hf') as (l & Hl & Hd & Hne & Hv).
    pose proof (N.mod_lt n 10 ltac:(discriminate)) as Hm.
    exists (l ++ [48 + n mod 10]). split; [rewrite Hl, <- app_assoc; reflexivity|]. split.
    + apply digits_app. split; [exact Hd|]. apply digits_cons. split; [unfold is_digit; lia|exact digits_nil].
    + split; [destruct l; discriminate|]. unfold dval in *. rewrite dval_acc_app, Hv. cbn [dval_acc]. unfold digit_val.
      pose proof (N.div_mod n 10 ltac:(discriminate)). lia.
Qed.

Lemma itoa_spec : forall n, n <= usize_max -> digits (itoa n) /\ itoa n <> [] /\ dval (itoa n) = n.
Proof.
  intros n Hn. unfold itoa.
  assert (Hlt : n < 10 ^ N.of_nat 40).
  { change (10 ^ N.of_nat 40) with 10000000000000000000000000000000000000000. unfold usize_max, u64_max in Hn. lia. }
  destruct (dec_aux_spec 40 n [] Hlt ltac:(lia)) as (l & Hl & Hd & Hne & Hv). rewrite Hl, app_nil_r. auto.
Qed.

Lemma usize_from_str_itoa : forall n, n <= usize_max -> usize_from_str (itoa n) = Some n.
Proof.
  intros n Hn. destruct (itoa_spec n Hn) as (Hd & Hne & Hv). rewrite (usize_from_str_digits _ Hd).
  destruct (itoa n) as [|c r]; [exfalso; apply Hne; reflexivity|]. rewrite Hv.
  apply N.leb_le in Hn. rewrite Hn. reflexivity.
Qed.

(* ================================================================================================================ *)
(* 3. parse_line_col = rfind, then a function of the text after the marker                                          *)
(* ================================================================================================================ *)
Definition plc_tail (m b : bytes) : option (N * N * bytes) :=
  let n1 := count_digits b in
  let r1 := skipn n1 b in
  if negb (starts_with r1 COLM) then None else
  let b2 := skipn (length COLM) r1 in
  let n2 := count_digits b2 in
  if (n2 <? length b2)%nat then None else
  match usize_from_str (firstn n1 b) with
  | None => None
  | Some line =>
    match usize_from_str (firstn n2 b2) with
    | None => None
    | Some column => Some (line, column, m)
    end
  end.

Lemma rfind_some : forall s i, rfind s MARK = Some i ->
  s = firstn i s ++ MARK ++ skipn (i + length MARK) s /\ (i + length MARK <= length s)%nat
  /\ NoOcc MARK (skipn (S i) s).
Proof.
  intros s i H. unfold rfind in H. destruct (rfind_aux_some _ _ _ _ H) as (a & b & Hs & Hi & Hn).
  cbn [Nat.add] in Hi. subst i. split; [|split].
  - rewrite Hs at 1. rewrite Hs at 1. rewrite (firstn_at a (MARK ++ b) _ eq_refl). f_equal. f_equal.
    rewrite Hs, app_assoc. symmetry. apply skipn_at. rewrite app_length. reflexivity.
  - rewrite Hs, !app_length. lia.
  - rewrite Hs. change (S (length a)) with (1 + length a)%nat. rewrite Nat.add_comm, skipn_add, (skipn_at a _ _ eq_refl).
    apply (Hn 32 _). reflexivity.
Qed.

Lemma parse_line_col_tail : forall s,
  parse_line_col s = match rfind s MARK with
                     | None => None
                     | Some i => plc_tail (firstn i s) (skipn (i + length MARK) s)
                     end.
Proof.
  intros s. unfold parse_line_col. destruct (rfind s MARK) as [i|] eqn:Hr; [|reflexivity].
  destruct (rfind_some s i Hr) as (_ & Hlen & _).
  unfold plc_tail. set (b := skipn (i + length MARK) s).
  set (n1 := count_digits b).
  rewrite (skipn_add (i + length MARK) n1 s). fold b.
  set (r1 := skipn n1 b).
  destruct (starts_with r1 COLM) eqn:Hc; cbn [negb]; [|reflexivity].
  rewrite (skipn_add (i + length MARK + n1) (length COLM) s), (skipn_add (i + length MARK) n1 s). fold b. fold r1.
  set (b2 := skipn (length COLM) r1). set (n2 := count_digits b2).
  assert (Hb : length b = (length s - (i + length MARK))%nat) by apply skipn_length.
  assert (Hr1 : length r1 = (length b - n1)%nat) by apply skipn_length.
  assert (Hn1 : (n1 <= length b)%nat) by apply count_digits_split.
  assert (Hb2 : length r1 = (length COLM + length b2)%nat).
  { rewrite (starts_with_true _ _ Hc) at 1. rewrite app_length. reflexivity. }
  replace ((i + length MARK + n1 + length COLM + n2 <? length s)%nat) with ((n2 <? length b2)%nat)
    by (destruct (n2 <? length b2)%nat eqn:E1; destruct (i + length MARK + n1 + length COLM + n2 <? length s)%nat eqn:E2; lia).
  replace (i + length MARK + n1 - (i + length MARK))%nat with n1 by lia.
  replace (i + length MARK + n1 + length COLM + n2 - (i + length MARK + n1 + length COLM))%nat with n2 by lia.
  reflexivity.
Qed.

(* ---- the marker we look at is the last one: nothing that follows it can contain another ---------------------- *)
Lemma NoOcc_nil : NoOcc MARK [].
Proof. intros x b H. apply (f_equal (@length N)) in H. rewrite !app_length in H. cbn [length MARK] in H. lia. Qed.

Lemma NoOcc_digits : forall d r, digits d -> NoOcc MARK r -> NoOcc MARK (d ++ r).
Proof.
  induction d as [|c d IH]; intros r Hd Hr; [exact Hr|].
  apply digits_cons in Hd. destruct Hd as [Hc Hd]. cbn [app]. apply NoOcc_cons; [|apply IH; assumption].
  unfold MARK. cbn [starts_with]. unfold is_digit in Hc. destruct (32 =? c) eqn:E; [lia|reflexivity].
Qed.

Lemma sw_sp_digits : forall d, digits d -> starts_with (32 :: d) MARK = false.
Proof.
  intros d Hd. unfold MARK. cbn [starts_with]. destruct d as [|c d]; [reflexivity|].
  apply digits_cons in Hd. destruct Hd as [Hc _]. unfold is_digit in Hc. cbn [starts_with]. destruct (97 =? c) eqn:E; [lia|reflexivity].
Qed.

(* after the first byte of  " at line " ++ dl ++ " column " ++ dc  there is no further " at line " *)
Lemma NoOcc_suffix : forall dl dc, digits dl -> digits dc ->
  NoOcc MARK ([97;116;32;108;105;110;101;32] ++ dl ++ COLM ++ dc).
Proof.
  intros dl dc Hl Hc.
  assert (Hdc : NoOcc MARK dc).
  { rewrite <- (app_nil_r dc). apply NoOcc_digits; [exact Hc|exact NoOcc_nil]. }
  assert (Hcol : NoOcc MARK (COLM ++ dc)).
  { unfold COLM. cbn [app]. repeat (apply NoOcc_cons; [try reflexivity|]); [|exact Hdc].
    apply sw_sp_digits. exact Hc. }
  assert (Hl2 : NoOcc MARK (dl ++ COLM ++ dc)) by (apply NoOcc_digits; assumption).
  cbn [app]. repeat (apply NoOcc_cons; [try reflexivity|]); [|exact Hl2].
  - (* " " ++ dl ++ " column " ...: the byte after the space is a digit or the space of " column " *)
    unfold MARK. cbn [starts_with]. destruct dl as [|c dl].
    + reflexivity.
    + apply digits_cons in Hl. destruct Hl as [Hc0 _]. unfold is_digit in Hc0. cbn [app starts_with].
      destruct (97 =? c) eqn:E; [lia|reflexivity].
Qed.

Lemma rfind_marker : forall m dl dc, digits dl -> digits dc ->
  rfind (m ++ MARK ++ dl ++ COLM ++ dc) MARK = Some (length m).
Proof.
  intros m dl dc Hl Hc. unfold rfind.
  change (MARK ++ dl ++ COLM ++ dc) with (32 :: [97;116;32;108;105;110;101;32] ++ dl ++ COLM ++ dc).
  rewrite (rfind_aux_last MARK m 32 _ O); [reflexivity| |apply NoOcc_suffix; assumption].
  change (32 :: [97;116;32;108;105;110;101;32] ++ dl ++ COLM ++ dc) with (MARK ++ dl ++ COLM ++ dc). apply starts_with_app.
Qed.

Lemma swd_COLM : forall r, starts_with_digit (COLM ++ r) = false. Proof. reflexivity. Qed.

Lemma plc_tail_shape : forall m dl dc, digits dl -> digits dc ->
  plc_tail m (dl ++ COLM ++ dc) =
    match usize_from_str dl, usize_from_str dc with
    | Some l, Some c => Some (l, c, m)
    | _, _ => None
    end.
Proof.
  intros m dl dc Hl Hc. unfold plc_tail.
  rewrite (count_digits_app dl (COLM ++ dc) Hl (swd_COLM dc)).
  rewrite (skipn_at dl _ _ eq_refl), (firstn_at dl _ _ eq_refl).
  rewrite starts_with_app. cbn [negb]. rewrite (skipn_at COLM dc _ eq_refl).
  assert (Hn2 : count_digits dc = length dc).
  { rewrite <- (app_nil_r dc) at 1. apply count_digits_app; [exact Hc|reflexivity]. }
  rewrite Hn2, Nat.ltb_irrefl, firstn_all.
  destruct (usize_from_str dl); [|reflexivity]. destruct (usize_from_str dc); reflexivity.
Qed.

(* THE SHAPE LEMMA: whatever m is (it may contain markers of its own) *)
Theorem parse_line_col_shape : forall m dl dc, digits dl -> digits dc ->
  parse_line_col (m ++ MARK ++ dl ++ COLM ++ dc) =
    match usize_from_str dl, usize_from_str dc with
    | Some l, Some c => Some (l, c, m)
    | _, _ => None
    end.
Proof.
  intros m dl dc Hl Hc. rewrite parse_line_col_tail, (rfind_marker m dl dc Hl Hc).
  rewrite (firstn_at m _ _ eq_refl).
  replace (skipn (length m + length MARK) (m ++ MARK ++ dl ++ COLM ++ dc)) with (dl ++ COLM ++ dc).
  - apply plc_tail_shape; assumption.
  - rewrite (app_assoc m MARK). symmetry. apply skipn_at. rewrite app_length. reflexivity.
Qed.

(* ---- soundness --------------------------------------------------------------------------------------------- *)
Lemma plc_tail_sound : forall m b l c m', plc_tail m b = Some (l, c, m') ->
  exists dl dc, b = dl ++ COLM ++ dc /\ digits dl /\ digits dc
                /\ usize_from_str dl = Some l /\ usize_from_str dc = Some c /\ m' = m.
Proof.
  intros m b l c m' H. unfold plc_tail in H.
  destruct (count_digits_split b) as (Hb & Hd1 & _ & _).
  set (n1 := count_digits b) in *. set (r1 := skipn n1 b) in *.
  destruct (starts_with r1 COLM) eqn:Hc; cbn [negb] in H; [|discriminate].
  apply starts_with_true in Hc.
  set (b2 := skipn (length COLM) r1) in *.
  destruct (count_digits_split b2) as (Hb2 & Hd2 & _ & Hle).
  set (n2 := count_digits b2) in *.
  destruct (n2 <? length b2)%nat eqn:Hlt; [discriminate|].
  assert (Hall : firstn n2 b2 = b2) by (apply firstn_all2; lia).
  rewrite Hall in H, Hd2.
  destruct (usize_from_str (firstn n1 b)) as [l0|] eqn:El; [|discriminate].
  destruct (usize_from_str b2) as [c0|] eqn:Ec; [|discriminate].
  injection H as <- <- <-.
  exists (firstn n1 b), b2. split; [rewrite <- Hc; exact Hb|]. auto.
Qed.

Theorem parse_line_col_sound : forall s l c m', parse_line_col s = Some (l, c, m') ->
  exists dl dc, s = m' ++ MARK ++ dl ++ COLM ++ dc
                /\ digits dl /\ dl <> [] /\ dval dl = l /\ l <= usize_max
                /\ digits dc /\ dc <> [] /\ dval dc = c /\ c <= usize_max.
Proof.
  intros s l c m' H. rewrite parse_line_col_tail in H.
  destruct (rfind s MARK) as [i|] eqn:Hr; [|discriminate].
  destruct (rfind_some s i Hr) as (Hs & _ & _).
  destruct (plc_tail_sound _ _ _ _ _ H) as (dl & dc & Hb & Hdl & Hdc & El & Ec & ->).
  destruct (usize_from_str_some dl l Hdl El) as (Hl1 & Hl2 & Hl3).
  destruct (usize_from_str_some dc c Hdc Ec) as (Hc1 & Hc2 & Hc3).
  exists dl, dc. split; [rewrite Hs at 1; rewrite Hb; reflexivity|]. auto 10.
Qed.

(* exact characterisation of what parse_line_col accepts *)
Theorem parse_line_col_iff : forall s l c m',
  parse_line_col s = Some (l, c, m') <->
  exists dl dc, s = m' ++ MARK ++ dl ++ COLM ++ dc
                /\ digits dl /\ dl <> [] /\ dval dl = l /\ l <= usize_max
                /\ digits dc /\ dc <> [] /\ dval dc = c /\ c <= usize_max.
Proof.
  intros s l c m'. split; [apply parse_line_col_sound|].
  intros (dl & dc & -> & Hdl & Hnl & Hvl & Hl & Hdc & Hnc & Hvc & Hc).
  rewrite (parse_line_col_shape m' dl dc Hdl Hdc), (usize_from_str_digits dl Hdl), (usize_from_str_digits dc Hdc).
  destruct dl as [|x dl]; [exfalso; apply Hnl; reflexivity|]. destruct dc as [|y dc]; [exfalso; apply Hnc; reflexivity|].
  rewrite Hvl, Hvc. apply N.leb_le in Hl, Hc. rewrite Hl, Hc. reflexivity.
Qed.

Theorem parse_line_col_none_if_no_marker : forall s, (forall a b, s <> a ++ MARK ++ b) -> parse_line_col s = None.
Proof.
  intros s H. rewrite parse_line_col_tail. unfold rfind.
  assert (E : rfind_aux MARK s O = None) by (apply rfind_aux_none; exact H). rewrite E. reflexivity.
Qed.

(* ================================================================================================================ *)
(* 4. Display / make_error / fix_position                                                                           *)
(* ================================================================================================================ *)

(* An Error with a position, printed and passed through de::Error::custom (erased-serde, nested deserializers, ...),
   keeps message and position.  No condition on m: m may itself contain or end in " at line 5 column 6". *)
Theorem display_parse_roundtrip : forall m l c, 1 <= l -> l <= usize_max -> c <= usize_max ->
  parse_line_col (display (mkError m l c)) = Some (l, c, m).
Proof.
  intros m l c Hl1 Hl Hc. unfold display. cbn [e_line e_msg e_col].
  destruct (l =? 0) eqn:E; [lia|].
  destruct (itoa_spec l Hl) as (Hdl & _ & _). destruct (itoa_spec c Hc) as (Hdc & _ & _).
  rewrite (parse_line_col_shape m _ _ Hdl Hdc), (usize_from_str_itoa l Hl), (usize_from_str_itoa c Hc). reflexivity.
Qed.

Theorem make_error_display : forall e, 1 <= e_line e -> e_line e <= usize_max -> e_col e <= usize_max ->
  make_error (display e) = e.
Proof.
  intros [m l c] Hl1 Hl Hc. cbn [e_line e_col] in *. unfold make_error.
  rewrite (display_parse_roundtrip m l c Hl1 Hl Hc). reflexivity.
Qed.

(* line = 0: Display prints the bare message (the column is not printed), so the round trip is the identity exactly
   when the message is not itself of the accepted form (and the column was 0, as it is for every error the crate
   builds with line 0: Error::io, make_error). *)
Theorem make_error_display_line0 : forall m c, make_error (display (mkError m 0 c)) = make_error m.
Proof. reflexivity. Qed.

Theorem make_error_display_line0_iff : forall m, make_error (display (mkError m 0 0)) = mkError m 0 0 <-> parse_line_col m = None.
Proof.
  intros m. rewrite make_error_display_line0. unfold make_error. split.
  - intros H. destruct (parse_line_col m) as [[[l c] m']|] eqn:E; [|reflexivity]. exfalso.
    injection H as Hm Hl Hc. subst m' l c.
    destruct (parse_line_col_sound _ _ _ _ E) as (dl & dc & Hs & _).
    apply (f_equal (@length N)) in Hs. rewrite !app_length in Hs. cbn [length MARK] in Hs. lia.
  - intros ->. reflexivity.
Qed.

Theorem display_make_error_none : forall s, parse_line_col s = None -> display (make_error s) = s.
Proof. intros s H. unfold make_error. rewrite H. reflexivity. Qed.

(* the text is reproduced when the numbers are spelled canonically *)
Theorem display_make_error_canonical : forall m l c, 1 <= l -> l <= usize_max -> c <= usize_max ->
  display (make_error (m ++ MARK ++ itoa l ++ COLM ++ itoa c)) = m ++ MARK ++ itoa l ++ COLM ++ itoa c.
Proof.
  intros m l c Hl1 Hl Hc.
  pose proof (display_parse_roundtrip m l c Hl1 Hl Hc) as H. unfold display in H. cbn [e_line e_msg e_col] in H.
  destruct (l =? 0) eqn:E; [lia|]. unfold make_error. rewrite H. unfold display. cbn [e_line e_msg e_col]. rewrite E. reflexivity.
Qed.

(* ---- position taken from the text of a custom message ------------------------------------------------------- *)
Theorem make_error_suffix : forall m dl dc,
  digits dl -> dl <> [] -> dval dl <= usize_max -> digits dc -> dc <> [] -> dval dc <= usize_max ->
  make_error (m ++ MARK ++ dl ++ COLM ++ dc) = mkError m (dval dl) (dval dc).
Proof.
  intros m dl dc Hdl Hnl Hl Hdc Hnc Hc. unfold make_error.
  assert (E : parse_line_col (m ++ MARK ++ dl ++ COLM ++ dc) = Some (dval dl, dval dc, m)).
  { apply parse_line_col_iff. exists dl, dc. auto 10. }
  rewrite E. reflexivity.
Qed.

(* custom_position_from_text: whoever controls the END of a custom message controls line()/column() of the error:
   make_error takes the position from the text, cuts the suffix off the message, and (line >= 1) the deserializer's
   fix_position keeps it.  With line 0 in the text the message is still cut, and fix_position then positions the
   shortened message. *)
Theorem custom_position_from_text : forall m dl dc (f : bytes -> error),
  digits dl -> dl <> [] -> dval dl <= usize_max -> digits dc -> dc <> [] -> dval dc <= usize_max ->
  let e := make_error (m ++ MARK ++ dl ++ COLM ++ dc) in
  e = mkError m (dval dl) (dval dc)
  /\ (1 <= dval dl -> fix_position e f = mkError m (dval dl) (dval dc))
  /\ (dval dl = 0 -> fix_position e f = f m).
Proof.
  intros m dl dc f Hdl Hnl Hl Hdc Hnc Hc e. unfold e. rewrite (make_error_suffix m dl dc Hdl Hnl Hl Hdc Hnc Hc).
  split; [reflexivity|]. unfold fix_position. cbn [e_line e_msg]. split.
  - intros H1. destruct (dval dl =? 0) eqn:E; [lia|reflexivity].
  - intros ->. reflexivity.
Qed.

(* and when there is nothing of the accepted form at the end, the error is unpositioned and fix_position applies *)
Theorem custom_unpositioned : forall s f, parse_line_col s = None -> fix_position (make_error s) f = f s.
Proof. intros s f H. unfold make_error. rewrite H. reflexivity. Qed.

(* a visitor reporting  custom(format_args!("invalid id: {}", s))  for the input string  s = "x at line 7 column 3",
   found, say, at line 1 column 25 of the JSON text:
     message "invalid id: x", line() = 7, column() = 3, and to_string() = "invalid id: x at line 7 column 3" *)
Definition ex_msg : bytes :=
  [105;110;118;97;108;105;100;32;105;100;58;32;120] ++ MARK ++ [55] ++ COLM ++ [51].
Example custom_position_from_text_example :
  make_error ex_msg = mkError [105;110;118;97;108;105;100;32;105;100;58;32;120] 7 3
  /\ fix_position (make_error ex_msg) (fun m => mkError m 1 25) = mkError [105;110;118;97;108;105;100;32;105;100;58;32;120] 7 3
  /\ display (fix_position (make_error ex_msg) (fun m => mkError m 1 25)) = ex_msg.
Proof. vm_compute. repeat split. Qed.
(* leading zeros are accepted, a sign is not, line 0 cuts the message but leaves it unpositioned *)
Example custom_spellings :
  make_error ([120] ++ MARK ++ [48;48;55] ++ COLM ++ [48;51]) = mkError [120] 7 3
  /\ make_error ([120] ++ MARK ++ [43;55] ++ COLM ++ [51]) = mkError ([120] ++ MARK ++ [43;55] ++ COLM ++ [51]) 0 0
  /\ make_error ([120] ++ MARK ++ [48] ++ COLM ++ [51]) = mkError [120] 0 3
  /\ make_error ([120] ++ MARK ++ [55] ++ COLM ++ [51] ++ MARK ++ [57] ++ COLM ++ [57])
     = mkError ([120] ++ MARK ++ [55] ++ COLM ++ [51]) 9 9
  /\ make_error ([120] ++ MARK ++ [55] ++ COLM ++ [51; 32]) = mkError ([120] ++ MARK ++ [55] ++ COLM ++ [51; 32]) 0 0
  /\ make_error ([120] ++ MARK ++ COLM ++ [51]) = mkError ([120] ++ MARK ++ COLM ++ [51]) 0 0
  /\ make_error ([120] ++ MARK ++ [49;56;52;52;54;55;52;52;48;55;51;55;48;57;53;53;49;54;49;54] ++ COLM ++ [51])
     = mkError ([120] ++ MARK ++ [49;56;52;52;54;55;52;52;48;55;51;55;48;57;53;53;49;54;49;54] ++ COLM ++ [51]) 0 0.
Proof. vm_compute. repeat split. Qed.

(* ================================================================================================================ *)
(* 5. when can a message end in an accepted suffix?                                                                 *)
(* ================================================================================================================ *)
(* a prefix never matters *)
Theorem parse_line_col_prefix : forall a t l c m2, parse_line_col t = Some (l, c, m2) ->
  parse_line_col (a ++ t) = Some (l, c, a ++ m2).
Proof.
  intros a t l c m2 H. apply parse_line_col_iff in H. destruct H as (dl & dc & -> & H).
  apply parse_line_col_iff. exists dl, dc. split; [rewrite app_assoc; reflexivity|exact H].
Qed.

(* the bytes an accepted suffix is made of: digits and the letters of " at line " / " column " *)
Definition sfx_byte (b : N) : bool := is_digit b || existsb (N.eqb b) MARK || existsb (N.eqb b) COLM.

Lemma sfx_bytes : forall dl dc x, digits dl -> digits dc -> In x (MARK ++ dl ++ COLM ++ dc) -> sfx_byte x = true.
Proof.
  intros dl dc x Hdl Hdc Hin. unfold sfx_byte.
  apply in_app_or in Hin. destruct Hin as [Hin|Hin].
  { assert (E : existsb (N.eqb x) MARK = true) by (apply existsb_exists; exists x; split; [exact Hin|apply N.eqb_refl]).
    rewrite E, orb_true_r. reflexivity. }
  apply in_app_or in Hin. destruct Hin as [Hin|Hin].
  { unfold digits in Hdl. rewrite forallb_forall in Hdl. rewrite (Hdl x Hin). reflexivity. }
  apply in_app_or in Hin. destruct Hin as [Hin|Hin].
  { assert (E : existsb (N.eqb x) COLM = true) by (apply existsb_exists; exists x; split; [exact Hin|apply N.eqb_refl]).
    rewrite E, orb_true_r. reflexivity. }
  unfold digits in Hdc. rewrite forallb_forall in Hdc. rewrite (Hdc x Hin). reflexivity.
Qed.

(* a byte that cannot be part of a suffix splits the question: everything up to and including it is irrelevant *)
Theorem parse_line_col_foreign_byte : forall a b t l c m', sfx_byte b = false ->
  parse_line_col (a ++ b :: t) = Some (l, c, m') ->
  exists m2, m' = a ++ b :: m2 /\ parse_line_col t = Some (l, c, m2).
Proof.
  intros a b t l c m' Hb H. apply parse_line_col_iff in H. destruct H as (dl & dc & Hs & Hdl & Hrest).
  pose proof Hrest as (_ & _ & _ & Hdc & _).
  assert (Hnot : ~ In b (MARK ++ dl ++ COLM ++ dc)).
  { intros Hin. rewrite (sfx_bytes dl dc b Hdl Hdc Hin) in Hb. discriminate. }
  apply app_eq_app in Hs. destruct Hs as [l0 [[Ha Hsfx] | [Hm Ht]]].
  - exfalso. apply Hnot. rewrite Hsfx. apply in_or_app. right. left. reflexivity.
  - destruct l0 as [|b0 m2].
    + exfalso. apply Hnot. cbn [app] in Ht. rewrite <- Ht. left. reflexivity.
    + cbn [app] in Ht. injection Ht as <- Ht. exists m2. split; [exact Hm|].
      apply parse_line_col_iff. exists dl, dc. split; [exact Ht|]. split; [exact Hdl|exact Hrest].
Qed.

(* an accepted string ends in a digit *)
Theorem parse_line_col_last_not_digit : forall s b, is_digit b = false -> parse_line_col (s ++ [b]) = None.
Proof.
  intros s b Hb. destruct (parse_line_col (s ++ [b])) as [[[l c] m']|] eqn:E; [|reflexivity]. exfalso.
  apply parse_line_col_sound in E. destruct E as (dl & dc & Hs & _ & _ & _ & _ & Hdc & Hnc & _).
  destruct (exists_last Hnc) as (dc' & b' & ->).
  replace (m' ++ MARK ++ dl ++ COLM ++ dc' ++ [b']) with ((m' ++ MARK ++ dl ++ COLM ++ dc') ++ [b']) in Hs
    by (rewrite <- !app_assoc; reflexivity).
  apply app_inj_tail in Hs. destruct Hs as [_ ->].
  apply digits_app in Hdc. destruct Hdc as [_ Hb']. apply digits_cons in Hb'. destruct Hb' as [Hb' _]. congruence.
Qed.

(* serde's messages built by serde_json (error.rs 440-455) and serde's defaults:
     "invalid type: {unexp}, expected {exp}"   "invalid value: {unexp}, expected {exp}"   "invalid length {n}, expected {exp}"
     "unknown variant `{v}`, expected {one of ...}"   "unknown field `{f}`, expected {one of ...}"
   All user data ({unexp}, {v}, {f}) sits BEFORE ", expected "; since 'd' is not a suffix byte, whether the message is
   taken for a positioned one depends on the text after "expected" alone, i.e. on the Visitor's `expecting` / the static
   name list — never on the input. *)
Definition EXPECTED : bytes := [44;32;101;120;112;101;99;116;101;100;32].       (* ", expected " *)
Definition EXPECTED_ : bytes := [44;32;101;120;112;101;99;116;101;100].         (* ", expected" *)

Theorem serde_expected_tail : forall pre E l c m',
  parse_line_col (pre ++ EXPECTED ++ E) = Some (l, c, m') <->
  exists m2, m' = pre ++ EXPECTED_ ++ m2 /\ parse_line_col (32 :: E) = Some (l, c, m2).
Proof.
  intros pre E l c m'.
  assert (Heq : pre ++ EXPECTED ++ E = (pre ++ [44;32;101;120;112;101;99;116;101]) ++ 100 :: 32 :: E).
  { rewrite <- app_assoc. reflexivity. }
  split.
  - intros H. rewrite Heq in H. apply parse_line_col_foreign_byte in H; [|reflexivity].
    destruct H as (m2 & Hm & Hp). exists m2. split; [|exact Hp]. rewrite Hm, <- app_assoc. reflexivity.
  - intros (m2 & -> & Hp). replace (pre ++ EXPECTED ++ E) with ((pre ++ EXPECTED_) ++ 32 :: E) by (rewrite <- app_assoc; reflexivity).
    rewrite (parse_line_col_prefix _ _ _ _ _ Hp), <- app_assoc. reflexivity.
Qed.

Corollary serde_expected_unpositioned : forall pre E, parse_line_col (32 :: E) = None ->
  make_error (pre ++ EXPECTED ++ E) = mkError (pre ++ EXPECTED ++ E) 0 0.
Proof.
  intros pre E H. unfold make_error.
  destruct (parse_line_col (pre ++ EXPECTED ++ E)) as [[[l c] m']|] eqn:Ep; [|reflexivity]. exfalso.
  apply serde_expected_tail in Ep. destruct Ep as (m2 & _ & Hp). congruence.
Qed.

(* messages that end in a back-quote ("missing field `f`", "duplicate field `f`", "unknown variant `v`, expected `a` or `b`",
   "... expected one of `a`, `b`") or in any other non-digit are never positioned from their text *)
Corollary ends_in_backquote_unpositioned : forall s, make_error (s ++ [96]) = mkError (s ++ [96]) 0 0.
Proof. intros s. unfold make_error. rewrite (parse_line_col_last_not_digit s 96 eq_refl). reflexivity. Qed.

(* `invalid type: string "x at line 7 column 3", expected a string` — the quoted input is followed by serde's tail *)
Example serde_invalid_type_example :
  let E := [97;32;115;116;114;105;110;103] in                      (* "a string" *)
  forall pre, make_error (pre ++ EXPECTED ++ E) = mkError (pre ++ EXPECTED ++ E) 0 0.
Proof. intros E pre. apply serde_expected_unpositioned. vm_compute. reflexivity. Qed.
(* ... whereas an `expecting` text that itself reads "at line 1 column 2" would do it (a property of the program) *)
Example serde_expecting_example :
  let E := [97;116;32;108;105;110;101;32;49;32;99;111;108;117;109;110;32;50] in
  forall pre, make_error (pre ++ EXPECTED ++ E) = mkError (pre ++ EXPECTED_) 1 2.
Proof.
  intros E pre. unfold make_error.
  assert (H : parse_line_col (pre ++ EXPECTED ++ E) = Some (1, 2, pre ++ EXPECTED_ ++ [])).
  { apply serde_expected_tail. exists []. split; [reflexivity|]. vm_compute. reflexivity. }
  rewrite H, app_nil_r. reflexivity.
Qed.

(* ================================================================================================================ *)
(* 6. no slice of parse_line_col panics on a String; the checked model computes parse_line_col                      *)
(* ================================================================================================================ *)
Lemma utf8_head_not_cont : forall y r, utf8_valid (y :: r) = true -> in_rng y 128 191 = false.
Proof.
  intros y r H. apply utf8_valid_U8 in H. inversion H as [|b0 r0 Hb _|b0 b1 r0 Hs _|b0 b1 b2 r0 Hs _|b0 b1 b2 b3 r0 Hs _]; subst;
    unfold seq2, seq3, seq4, is_cont, in_rng in *; lia.
Qed.

Lemma skipn_cons_nth {A} : forall e (s : list A) c r, skipn e s = c :: r -> nth_error s e = Some c /\ skipn (S e) s = r.
Proof.
  induction e as [|e IH]; intros s c r H.
  - cbn [skipn] in H. subst s. split; reflexivity.
  - destruct s as [|x s]; [discriminate|]. cbn [skipn] in H. destruct (IH s c r H) as [H1 H2]. split; [exact H1|exact H2].
Qed.

Lemma nth_error_skipn {A} : forall n k (l : list A), nth_error (skipn n l) k = nth_error l (n + k).
Proof.
  induction n as [|n IH]; intros k l; [reflexivity|]. destruct l as [|x l]; [destruct k; reflexivity|]. cbn [skipn Nat.add nth_error]. apply IH.
Qed.

(* the byte index after an ASCII byte is a char boundary *)
Lemma boundary_after_ascii : forall s j x, utf8_valid s = true -> nth_error s j = Some x -> x < 128 ->
  is_char_boundary s (S j) = true.
Proof.
  intros s j x Hv Hn Hx. destruct (nth_error_split s j Hn) as (l1 & l2 & Hs & Hlen).
  subst s. destruct (utf8_valid_cut l1 x l2 Hx Hv) as [_ Hv2].
  unfold is_char_boundary.
  replace (nth_error (l1 ++ x :: l2) (S j)) with (nth_error l2 O).
  - destruct l2 as [|y l3]; cbn [nth_error].
    + rewrite app_length. cbn [length]. apply Nat.eqb_eq. lia.
    + rewrite (utf8_head_not_cont y l3 Hv2). reflexivity.
  - rewrite nth_error_app2 by lia. replace (S j - length l1)%nat with 1%nat by lia. reflexivity.
Qed.

(* the while loop *)
Lemma scan_digits_chk_ok : forall msg, utf8_valid msg = true -> forall fuel e,
  is_char_boundary msg e = true -> (length msg < e + fuel)%nat ->
  scan_digits_chk fuel msg e = Ok (e + count_digits (skipn e msg))%nat
  /\ is_char_boundary msg (e + count_digits (skipn e msg)) = true.
Proof.
  intros msg Hv. induction fuel as [|f IH]; intros e Hb Hf.
  - (* e > length msg: not a boundary *)
    exfalso. unfold is_char_boundary in Hb. destruct e as [|e]; [lia|].
    destruct (nth_error msg (S e)) eqn:En.
    + assert (S e < length msg)%nat by (apply nth_error_Some; congruence). lia.
    + apply Nat.eqb_eq in Hb. lia.
  - cbn [scan_digits_chk]. unfold slice_from. rewrite Hb. cbn [bind].
    destruct (skipn e msg) as [|c r] eqn:Es.
    + cbn [starts_with_digit count_digits]. rewrite Nat.add_0_r. split; [reflexivity|exact Hb].
    + destruct (skipn_cons_nth e msg c r Es) as [Hn Hr].
      cbn [starts_with_digit count_digits]. destruct ((48 <=? c) && (c <=? 57)) eqn:Ed.
      * assert (Hb' : is_char_boundary msg (S e) = true) by (apply (boundary_after_ascii msg e c Hv Hn); lia).
        assert (He : (e < length msg)%nat) by (apply nth_error_Some; congruence).
        destruct (IH (S e) Hb' ltac:(lia)) as [H1 H2]. rewrite Hr in H1, H2.
        replace (e + S (count_digits r))%nat with (S e + count_digits r)%nat by lia. split; assumption.
      * rewrite Nat.add_0_r. split; [reflexivity|exact Hb].
Qed.

Lemma rfind_some_ex : forall s i, rfind s MARK = Some i -> exists a b, s = a ++ MARK ++ b /\ i = length a.
Proof.
  intros s i H. unfold rfind in H. destruct (rfind_aux_some _ _ _ _ H) as (a & b & Hs & Hi & _).
  exists a, b. split; [exact Hs|exact Hi].
Qed.

Lemma boundary_at_space : forall s i, nth_error s i = Some 32 -> is_char_boundary s i = true.
Proof. intros s i H. unfold is_char_boundary. destruct i; [reflexivity|]. rewrite H. reflexivity. Qed.

Theorem parse_line_col_chk_no_panic : forall s, utf8_valid s = true -> parse_line_col_chk s = Ok (parse_line_col s).
Proof.
  intros s Hv. unfold parse_line_col_chk, parse_line_col.
  destruct (rfind s MARK) as [i|] eqn:Hr; [|reflexivity].
  destruct (rfind_some_ex s i Hr) as (a & b & Hs & Hi).
  (* bytes of the marker *)
  assert (Hn0 : nth_error s i = Some 32).
  { rewrite Hs, Hi, nth_error_app2 by lia. rewrite Nat.sub_diag. reflexivity. }
  assert (Hn8 : nth_error s (i + 8) = Some 32).
  { rewrite Hs, Hi, nth_error_app2 by lia. replace (length a + 8 - length a)%nat with 8%nat by lia. reflexivity. }
  assert (Hlen : (i + 9 <= length s)%nat).
  { rewrite Hs, Hi, !app_length. cbn [length MARK]. lia. }
  change (length MARK) with 9%nat. change (length COLM) with 8%nat.
  (* start_of_line *)
  assert (Hb1 : is_char_boundary s (i + 9) = true).
  { replace (i + 9)%nat with (S (i + 8)) by lia. apply (boundary_after_ascii s (i + 8) 32 Hv Hn8). lia. }
  destruct (scan_digits_chk_ok s Hv (S (length s)) (i + 9) Hb1 ltac:(lia)) as [Hscan1 Hb2].
  rewrite Hscan1. cbn [bind].
  set (eol := (i + 9 + count_digits (skipn (i + 9) s))%nat) in *.
  unfold slice_from at 1. rewrite Hb2. cbn [bind].
  destruct (starts_with (skipn eol s) COLM) eqn:Hc; cbn [negb]; [|reflexivity].
  (* start_of_column *)
  assert (Hn7 : nth_error s (eol + 7) = Some 32).
  { rewrite <- nth_error_skipn. rewrite (starts_with_true _ _ Hc). reflexivity. }
  assert (Hb3 : is_char_boundary s (eol + 8) = true).
  { replace (eol + 8)%nat with (S (eol + 7)) by lia. apply (boundary_after_ascii s (eol + 7) 32 Hv Hn7). lia. }
  destruct (scan_digits_chk_ok s Hv (S (length s)) (eol + 8) Hb3 ltac:(lia)) as [Hscan2 Hb4].
  rewrite Hscan2. cbn [bind].
  set (eoc := (eol + 8 + count_digits (skipn (eol + 8) s))%nat) in *.
  destruct (eoc <? length s)%nat eqn:Hlt; [reflexivity|].
  (* the two number slices *)
  unfold slice. rewrite Hb1, Hb2, Hb3, Hb4.
  assert (Hle1 : (i + 9 <=? eol)%nat = true) by (apply Nat.leb_le; unfold eol; lia).
  assert (Hle2 : (eol + 8 <=? eoc)%nat = true) by (apply Nat.leb_le; unfold eoc; lia).
  rewrite Hle1, Hle2. cbn [andb bind].
  destruct (usize_from_str (firstn (eol - (i + 9)) (skipn (i + 9) s))) as [line|]; [|reflexivity].
  destruct (usize_from_str (firstn (eoc - (eol + 8)) (skipn (eol + 8) s))) as [column|]; [|reflexivity].
  (* truncate *)
  unfold truncate. assert (Hle3 : (i <=? length s)%nat = true) by (apply Nat.leb_le; lia).
  rewrite Hle3, (boundary_at_space s i Hn0). reflexivity.
Qed.

Corollary make_error_chk_no_panic : forall s, utf8_valid s = true -> make_error_chk s = Ok (make_error s).
Proof.
  intros s Hv. unfold make_error_chk, make_error. rewrite (parse_line_col_chk_no_panic s Hv). cbn [bind].
  destruct (parse_line_col s) as [[[l c] m]|]; reflexivity.
Qed.

(* the checks are not vacuous: on a byte string that is NOT UTF-8 the literal code would slice inside a character *)
Example chk_panics_on_non_utf8 : parse_line_col_chk (MARK ++ [191]) = Panic.
Proof. vm_compute. reflexivity. Qed.

(* make_error keeps Strings Strings: the truncated message is valid UTF-8 *)
Theorem make_error_utf8 : forall s, utf8_valid s = true -> utf8_valid (e_msg (make_error s)) = true.
Proof.
  intros s Hv. unfold make_error. destruct (parse_line_col s) as [[[l c] m]|] eqn:E; cbn [e_msg]; [|exact Hv].
  apply parse_line_col_sound in E. destruct E as (dl & dc & Hs & _). rewrite Hs in Hv.
  change (MARK ++ dl ++ COLM ++ dc) with (32 :: ([97;116;32;108;105;110;101;32] ++ dl ++ COLM ++ dc)) in Hv.
  apply utf8_valid_cut in Hv; [|lia]. apply Hv.
Qed.

(* ================================================================================================================ *)
Print Assumptions parse_line_col_chk_no_panic.
Print Assumptions make_error_chk_no_panic.
Print Assumptions make_error_utf8.
Print Assumptions usize_from_str_digits.
Print Assumptions parse_line_col_shape.
Print Assumptions parse_line_col_sound.
Print Assumptions parse_line_col_iff.
Print Assumptions parse_line_col_none_if_no_marker.
Print Assumptions display_parse_roundtrip.
Print Assumptions make_error_display.
Print Assumptions make_error_display_line0_iff.
Print Assumptions display_make_error_canonical.
Print Assumptions custom_position_from_text.
Print Assumptions custom_unpositioned.
Print Assumptions parse_line_col_prefix.
Print Assumptions parse_line_col_foreign_byte.
Print Assumptions parse_line_col_last_not_digit.
Print Assumptions serde_expected_tail.
Print Assumptions serde_expected_unpositioned.
