(* Proofs/ValueDeText.v — C16, second clause, assembled: for a well-formed Value v, the text to_vec(v) that the serializer prints
   (Proofs/SerRender.v: the rendering of the tree [cst_of (sval_of_value v)]) is read by the typed text deserializer with the
   same outcome as from_value reads v, for the type programs of [agree_ty] (Proofs/ValueDeAgree.v). *)
From SJ Require Import Base.Bytes Base.Utf8 Base.FloatB Gen.Tables Model.Read Model.Str Model.Num Model.Value Model.De
  Model.Sval Model.Ser Model.ValueSer Spec.Syntax Spec.Denote Spec.Layout
  Proofs.SerBase Proofs.SerRender Proofs.SerWf Proofs.SerDenote Proofs.SerValue Proofs.SerMain Proofs.SerFinal
  Proofs.GrammarValueBase.
From SJ Require Import Model.Ty Model.DeTyped Model.ValueDe Proofs.ValueDeRef Proofs.ValueDeAgree.
From Flocq Require Import Core BinarySingleNaN.
Require Import Lia ZifyBool ZifyNat ZifyN.
Open Scope N_scope.

(* "all succeed with equal results or all fail": success on the Value route means success with the same datum (up to which
   strings were borrowed) on the text route; failure on the Value route means the text route does not succeed *)
Definition agree (r1 : vres dval) (r2 : tres dval) : Prop :=
  match r1 with
  | VOk a => exists b, r2 = TOk b /\ unborrow b = unborrow a
  | VErr _ _ _ => forall b, r2 <> TOk b
  | _ => False
  end.

(* ---- the printed tree has the kinds of the Value ------------------------------------------------------------------------------- *)
Section Shape.
  Variable cf : cfg.
  Variable fmt32 fmt64 : N -> bytes.
  Notation cst_of := (cst_of cf fmt32 fmt64).

  Lemma shape_elems_of cs l : Forall2 (fun c x => shape c x = true) cs l -> shape_elems (elems_of cs) l = true.
  Proof. induction 1 as [|c x cs l Hc _ IH]; [reflexivity|]. cbn [elems_of shape_elems]. rewrite Hc, IH. reflexivity. Qed.

  Lemma sequence_Forall2 {A B} (f : A -> option B) (P : B -> A -> Prop) (l : list A) : forall r,
    Forall (fun a => forall b, f a = Some b -> P b a) l -> sequence (map f l) = Some r -> Forall2 P r l.
  Proof.
    induction l as [|a l IH]; intros r HF Hs; cbn [map sequence] in Hs.
    - injection Hs as <-. constructor.
    - inversion HF as [|? ? Ha HF']; subst. destruct (f a) as [b|] eqn:Eb; [|discriminate Hs].
      destruct (sequence (map f l)) as [r'|] eqn:Er; [|discriminate Hs]. injection Hs as <-.
      constructor; [apply Ha; reflexivity|apply IH; [exact HF'|reflexivity]].
  Qed.

  Lemma value_shape : forall v c, wf_value cf v = true -> cst_of (sval_of_value v) = Some c -> shape c v = true.
  Proof.
    induction v using value_ind'; intros c W Hc; cbn [sval_of_value cst_of] in Hc.
    - injection Hc as <-. reflexivity.
    - injection Hc as <-. destruct b; reflexivity.
    - destruct n as [u|i|f|s]; cbn [sval_of_num cst_of] in Hc; cbn [wf_value wf_num] in W.
      + injection Hc as <-. reflexivity.
      + injection Hc as <-. reflexivity.
      + apply andb_true_iff in W as [_ Wf]. destruct (finite_bits_shape f Wf) as [_ B2]. rewrite B2 in Hc. injection Hc as <-. reflexivity.
      + apply andb_true_iff in W as [Wa _]. rewrite Wa in Hc. injection Hc as <-. reflexivity.
    - injection Hc as <-. reflexivity.
    - rewrite map_map in Hc. destruct (sequence (map (fun x => cst_of (sval_of_value x)) l)) as [cs|] eqn:Es; [|discriminate Hc].
      cbn [option_map] in Hc. injection Hc as <-. cbn [shape]. apply shape_elems_of.
      apply (sequence_Forall2 (fun x => cst_of (sval_of_value x)) (fun c x => shape c x = true) l cs); [|exact Es].
      cbn [wf_value] in W. rewrite forallb_forall in W. rewrite Forall_forall in *. intros x Hx b Hb. apply (H x Hx b (W x Hx) Hb).
    - destruct (sequence _) as [ms|]; [|discriminate Hc]. cbn [option_map] in Hc. injection Hc as <-. reflexivity.
  Qed.
End Shape.

(* ---- the end of input after the value ------------------------------------------------------------------------------------------ *)
Lemma de_end_nil cf s : rest s = [] -> exists s1, de_end (mkEnv RSlice TEof cf) s = Ok s1.
Proof.
  intros Hr. unfold de_end. destruct (pw_spec cf s) as (s1 & Hpw & Hr1 & _). rewrite Hpw. cbn [bind].
  rewrite Hr in Hr1. cbn [skipws] in Hr1. rewrite Hr1. cbn [hd_error]. eauto.
Qed.

(* ---- from_value against from_str on the printed text ------------------------------------------------------------------------ *)
Theorem agree_text_partial : forall cf fx fmt32 fmt64 t v,
  arbitrary_precision cf = false -> ryu_json fmt32 fmt64 -> ryu_reads_back_value cf fmt64 ->
  agree_ty t = true -> wf_value cf v = true ->
  exists bufs c, serialize cf fmt32 fmt64 Compact (sval_of_value v) = Ok bufs /\ concat bufs = render c /\
    ((limit_disabled cf = false -> (cdepth c <= 127)%nat) ->
     agree (from_value_owned cf fx t v) (from_input_typed (mkEnv RSlice TEof cf) t (concat bufs))).
Proof.
  intros cf fx f32 f64 t v Hap [H1 H2] H4 Ht W.
  assert (HL : literal_kept cf) by (intros Ha; rewrite Hap in Ha; discriminate Ha).
  destruct (value_image cf f32 f64 H4 HL v W) as [Ws Hi]. destruct (value_cst cf f32 f64 v) as [c Hc].
  destruct (serialize_ok cf f32 f64 Compact _ c Ws Hc) as [bufs [Es C]]. rewrite print_compact in C.
  destruct (C03_wf_nows cf f32 f64 H1 H2 _ c Ws Hc) as [G1 _].
  assert (Dn : denote cf c = Some v) by (rewrite (C03_denotes_image cf f32 f64 H1 H2 _ c Ws Hc); exact Hi).
  assert (Sh := value_shape cf f32 f64 v c W Hc).
  exists bufs, c. split; [exact Es|]. split; [exact C|]. intros Hdepth. rewrite C.
  unfold from_input_typed, from_value_owned.
  assert (Hdb : dbudget cf (cdepth c) (depth (init_st (render c)))).
  { intros Hl. specialize (Hdepth Hl). cbn [init_st depth]. rewrite DEPTH0_eq. lia. }
  assert (Hfuel : (ty_depth t + vfuel c <= typed_fuel t (render c))%nat).
  { pose proof (vfuel_bound c). unfold typed_fuel. lia. }
  assert (Hfv : (ty_depth t <= value_de_fuel t)%nat) by (unfold value_de_fuel; lia).
  assert (Hr0 : rest (init_st (render c)) = [] ++ render c ++ []) by (cbn [init_st rest app]; rewrite app_nil_r; reflexivity).
  pose proof (agree_all cf fx Hap (ty_depth t) t (le_n _) Ht c v (typed_fuel t (render c)) (value_de_fuel t)
                (init_st (render c)) [] [] G1 Dn Sh W eq_refl I Hdb Hr0 Hfuel Hfv) as H.
  unfold agree. destruct (de_value_owned (value_de_fuel t) cf fx t v) as [d| | |]; cbn [okrel] in H; try contradiction.
  - destruct H as (d' & s' & Hde & Hu & Hr & _). rewrite Hde. cbn [DeTyped.tbind].
    destruct (de_end_nil cf s' Hr) as [s1 He]. rewrite He. cbn [DeTyped.lift DeTyped.tbind]. exists d'. auto.
  - intros b. destruct (de_typed (typed_fuel t (render c)) (mkEnv RSlice TEof cf) t (init_st (render c))) as [[d' s']| | | |] eqn:Hde;
      cbn [DeTyped.tbind]; try discriminate. exfalso. exact (H _ eq_refl).
Qed.

Print Assumptions agree_text_partial.
