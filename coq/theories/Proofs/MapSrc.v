(* Proofs/MapSrc.v — the Map<String, Value> wrapper of src/map.rs as TRANSLATED ON THIS RUN (Gen/MapTables.v, tools/translate_map.py):
   (i)   the hand-written model Model/MapM.v does, for every operation, state and build, what the translated source says
         (map_model_is_translated_source): its per-feature choice of backing operation IS the table's;
   (ii)  the same for the pieces of MapM that are not operations: the empty map, PartialEq on objects, Hash on objects;
   (iii) the choices property C17 talks about, pinned on the table by computation: under preserve_order `remove` / `remove_entry` (Map and
         OccupiedEntry) are the SWAP flavour, shift_* are shift, sort_keys sorts, append is extend-of-the-taken-map, Hash sorts by key first;
         in the default build sort_keys is a no-op, append is BTreeMap::append, Hash is BTreeMap's; the two builds make the same call everywhere else. *)
From SJ Require Import Base.Bytes Base.FloatB Model.Value Spec.Dict Model.MapM Model.MapAst Gen.MapTables Proofs.MapMBase Proofs.MapMEq.
Open Scope N_scope.

(* ------------------------------------------------------------------ the table is total and about the right stores *)
Definition all_methods : list mmethod :=
  [M_new; M_with_capacity; M_clear; M_get; M_contains_key; M_get_mut; M_get_key_value; M_insert; M_shift_insert; M_remove; M_remove_entry;
   M_swap_remove; M_swap_remove_entry; M_shift_remove; M_shift_remove_entry; M_append; M_entry; M_len; M_is_empty; M_iter; M_iter_mut; M_keys;
   M_values; M_values_mut; M_into_values; M_retain; M_sort_keys; T_default; T_clone; T_clone_from; T_eq; T_hash; T_index; T_index_mut;
   T_from_iter; T_extend; T_into_iter_ref; T_into_iter_mut; T_into_iter; E_key; E_or_insert; E_or_insert_with; E_and_modify; V_key; V_insert;
   O_key; O_get; O_get_mut; O_into_mut; O_insert; O_remove; O_swap_remove; O_shift_remove; O_remove_entry; O_swap_remove_entry;
   O_shift_remove_entry; I_next; I_size_hint; I_next_back; I_len].
Lemma all_methods_complete : forall mth, In mth all_methods.
Proof. intros mth; destruct mth; cbn; tauto. Qed.

Theorem map_table_total : forall mth, lookup MAP_TABLE mth <> None.
Proof. intros mth; destruct mth; discriminate. Qed.

(* the stores: BTreeMap (and the btree_map types) in the default build, IndexMap (and the indexmap::map types) under preserve_order; every call of a
   column is a call on that column's store *)
Lemma map_stores : MAP_STORES = (Bt, Ix).
Proof. reflexivity. Qed.
Definition store_of (po : bool) : store := if po then snd MAP_STORES else fst MAP_STORES.
Definition on_store (s : store) (c : backing_call) : Prop :=
  match c with Call _ s' _ | HashSortedByKey s' => s' = s | _ => True end.
Theorem map_table_stores : forall po mth, on_store (store_of po) (raw_call MAP_TABLE po mth).
Proof. intros po mth; destruct po; destruct mth; exact I || reflexivity. Qed.

(* ------------------------------------------------------------------ (i) the model is the translated source *)
Ltac split_lookup :=
  repeat match goal with
         | |- context [match al_get ?k ?m with _ => _ end] => destruct (al_get k m)
         | |- context [match ix_shift_insert ?i ?k ?v ?m with _ => _ end] => destruct (ix_shift_insert i k v m)
         end.

Lemma entry_match_is_source : forall po m k va oa,
  table_step MAP_TABLE po m (EntryMatch k va oa) = Some (step po m (EntryMatch k va oa)).
Proof.
  intros po m k va oa.
  destruct oa as [ |g|v| | | | | | ]; destruct va as [|v']; destruct po; cbn; split_lookup; reflexivity.
Qed.

Theorem map_model_is_translated_source : forall po m o, table_step MAP_TABLE po m o = Some (step po m o).
Proof.
  intros po m o.
  destruct o as [ |k|k|k|k g|k v|i k v|k|k|k|k|k|k|es|es|es|k|k v|k v|k g|k g v|k va oa| | | | | | | | | | |g|g|f| |k|k v];
    try apply entry_match_is_source;
    destruct po; first [reflexivity | cbn; split_lookup; reflexivity].
Qed.

(* for whole histories *)
Fixpoint table_run (T : table) (po : bool) (m : mapstate) (ops : list op) : option (mapstate * list obs) :=
  match ops with
  | [] => Some (m, [])
  | o :: r =>
    match table_step T po m o with
    | Some (m1, ob) => match table_run T po m1 r with Some (m2, obs) => Some (m2, ob :: obs) | None => None end
    | None => None
    end
  end.
Corollary map_run_is_translated_source : forall po ops m, table_run MAP_TABLE po m ops = Some (run po m ops).
Proof.
  intros po ops. induction ops as [|o r IH]; intros m; cbn [table_run run]; [reflexivity|].
  rewrite map_model_is_translated_source. destruct (step po m o) as [m1 ob]. rewrite IH. destruct (run po m1 r) as [m2 obs]. reflexivity.
Qed.

(* the model's availability predicate is the table's cfg column: an operation is unavailable exactly when its method is not compiled *)
Theorem avail_is_source : forall po o,
  avail po o = match call MAP_TABLE po (match o with EntryMatch _ _ oa => occ_method oa | _ => method_of o end) with NotCompiled => false | _ => true end.
Proof. intros po o. destruct o as [ | | | | | | | | | | | | | | | | | | | | |k va oa| | | | | | | | | | | | | | | | ]; try destruct oa; destruct po; reflexivity. Qed.

(* ------------------------------------------------------------------ (ii) the empty map, PartialEq, Hash *)
Theorem m_init_is_source : forall po,
  init_meaning (call MAP_TABLE po M_new) = Some m_init /\ init_meaning (call MAP_TABLE po T_default) = Some m_init
  /\ init_meaning (call MAP_TABLE po M_with_capacity) = Some m_init.
Proof. intros po; destruct po; repeat split. Qed.

Theorem veq_obj_is_source : forall po ma mb,
  eq_meaning (call MAP_TABLE po T_eq) (veq po) ma mb = Some (veq po (VObj ma) (VObj mb)).
Proof.
  intros po ma mb. destruct po.
  - change (call MAP_TABLE true T_eq) with (Call RMap Ix b_eq). cbn [eq_meaning veq]. do 2 f_equal.
    induction ma as [|[k v] ma IH]; [reflexivity|]. cbn [ix_eq_entries]. rewrite IH. reflexivity.
  - change (call MAP_TABLE false T_eq) with (Call RMap Bt b_eq). cbn [eq_meaning veq]. do 2 f_equal.
    revert mb. induction ma as [|[k v] ma IH]; intros [|[k' w] mb]; try reflexivity. cbn [bt_eq_entries]. rewrite IH. reflexivity.
Qed.

Theorem hash_obj_is_source : forall po m,
  option_map (cons (HIsize 5)) (hash_meaning (call MAP_TABLE po T_hash) (hash_feed po) m) = Some (hash_feed po (VObj m)).
Proof.
  intros po m. rewrite hash_obj. destruct po.
  - change (call MAP_TABLE true T_hash) with (HashSortedByKey Ix). reflexivity.
  - change (call MAP_TABLE false T_hash) with (Call RMap Bt b_hash). reflexivity.
Qed.

(* ------------------------------------------------------------------ (iii) the choices, read off the table *)
(* preserve_order: `remove` is the SWAP flavour, written as a call of the wrapper's own swap_remove *)
Lemma po_remove_body : lookup MAP_TABLE M_remove = Some (Call RMap Bt b_remove, Self_ M_swap_remove).
Proof. reflexivity. Qed.
Lemma po_remove_is_swap : call MAP_TABLE true M_remove = Call RMap Ix b_swap_remove.
Proof. reflexivity. Qed.
Lemma po_remove_entry_body : lookup MAP_TABLE M_remove_entry = Some (Call RMap Bt b_remove_entry, Self_ M_swap_remove_entry).
Proof. reflexivity. Qed.
Lemma po_remove_entry_is_swap : call MAP_TABLE true M_remove_entry = Call RMap Ix b_swap_remove_entry.
Proof. reflexivity. Qed.
Lemma po_occupied_remove_is_swap : call MAP_TABLE true O_remove = Call ROccupied Ix b_swap_remove.
Proof. reflexivity. Qed.
Lemma po_occupied_remove_entry_is_swap : call MAP_TABLE true O_remove_entry = Call ROccupied Ix b_swap_remove_entry.
Proof. reflexivity. Qed.
(* ... and in the default build it is BTreeMap's own remove *)
Lemma def_remove_is_btree :
  call MAP_TABLE false M_remove = Call RMap Bt b_remove /\ call MAP_TABLE false M_remove_entry = Call RMap Bt b_remove_entry
  /\ call MAP_TABLE false O_remove = Call ROccupied Bt b_remove /\ call MAP_TABLE false O_remove_entry = Call ROccupied Bt b_remove_entry.
Proof. repeat split. Qed.

(* swap_* are swap, shift_* are shift (preserve_order only) *)
Lemma po_swap_shift :
  lookup MAP_TABLE M_swap_remove = Some (NotCompiled, Call RMap Ix b_swap_remove)
  /\ lookup MAP_TABLE M_swap_remove_entry = Some (NotCompiled, Call RMap Ix b_swap_remove_entry)
  /\ lookup MAP_TABLE M_shift_remove = Some (NotCompiled, Call RMap Ix b_shift_remove)
  /\ lookup MAP_TABLE M_shift_remove_entry = Some (NotCompiled, Call RMap Ix b_shift_remove_entry)
  /\ lookup MAP_TABLE M_shift_insert = Some (NotCompiled, Call RMap Ix b_shift_insert)
  /\ lookup MAP_TABLE O_swap_remove = Some (NotCompiled, Call ROccupied Ix b_swap_remove)
  /\ lookup MAP_TABLE O_swap_remove_entry = Some (NotCompiled, Call ROccupied Ix b_swap_remove_entry)
  /\ lookup MAP_TABLE O_shift_remove = Some (NotCompiled, Call ROccupied Ix b_shift_remove)
  /\ lookup MAP_TABLE O_shift_remove_entry = Some (NotCompiled, Call ROccupied Ix b_shift_remove_entry).
Proof. repeat split. Qed.

(* sort_keys: nothing in the default build, IndexMap::sort_unstable_keys under preserve_order *)
Lemma sort_keys_choice : lookup MAP_TABLE M_sort_keys = Some (NoOp, Call RMap Ix b_sort_unstable_keys).
Proof. reflexivity. Qed.
(* append: BTreeMap::append(&mut other.map) in the default build, extend with the map taken out of `other` under preserve_order *)
Lemma append_choice : lookup MAP_TABLE M_append = Some (Call RMap Bt b_append, Call RMap Ix b_extend_take).
Proof. reflexivity. Qed.
(* Hash: BTreeMap's in the default build; under preserve_order exactly the body
     let mut kv = Vec::from_iter(&self.map); kv.sort_unstable_by(|a, b| a.0.cmp(b.0)); kv.hash(state);
   (the translator emits HashSortedByKey for this text only) *)
Lemma hash_choice : lookup MAP_TABLE T_hash = Some (Call RMap Bt b_hash, HashSortedByKey Ix).
Proof. reflexivity. Qed.
(* insertion is the store's own insert in both builds, also through the entry API *)
Lemma insert_choice :
  lookup MAP_TABLE M_insert = Some (Call RMap Bt b_insert, Call RMap Ix b_insert)
  /\ lookup MAP_TABLE V_insert = Some (Call RVacant Bt b_insert, Call RVacant Ix b_insert)
  /\ lookup MAP_TABLE T_extend = Some (Call RMap Bt b_extend, Call RMap Ix b_extend)
  /\ lookup MAP_TABLE T_from_iter = Some (Call RStatic Bt b_from_iter, Call RStatic Ix b_from_iter).
Proof. repeat split. Qed.
(* `for (k, v) in &map` / `in &mut map` are iter() / iter_mut(); iterators step with the backing iterator's next / next_back *)
Lemma into_iter_ref_is_iter :
  lookup MAP_TABLE T_into_iter_ref = lookup MAP_TABLE M_iter /\ lookup MAP_TABLE T_into_iter_mut = lookup MAP_TABLE M_iter_mut.
Proof. split; reflexivity. Qed.
Lemma iterator_steps :
  lookup MAP_TABLE I_next = Some (Call RIter Bt b_next, Call RIter Ix b_next)
  /\ lookup MAP_TABLE I_next_back = Some (Call RIter Bt b_next_back, Call RIter Ix b_next_back).
Proof. split; reflexivity. Qed.

(* the methods that exist under preserve_order only *)
Definition po_only : list mmethod :=
  [M_shift_insert; M_swap_remove; M_swap_remove_entry; M_shift_remove; M_shift_remove_entry;
   O_swap_remove; O_shift_remove; O_swap_remove_entry; O_shift_remove_entry].
Theorem not_compiled_iff : forall po mth, raw_call MAP_TABLE po mth = NotCompiled <-> po = false /\ In mth po_only.
Proof.
  intros po mth; split.
  - destruct po; destruct mth; cbn; intros H; try discriminate H; split; try reflexivity; tauto.
  - intros [-> H]. cbn in H. repeat (destruct H as [<-|H]; [reflexivity|]). contradiction.
Qed.

(* the two builds make the SAME call (on their respective stores) for every method except these *)
Definition cfg_dependent : list mmethod :=
  [M_with_capacity; M_shift_insert; M_remove; M_remove_entry; M_swap_remove; M_swap_remove_entry; M_shift_remove; M_shift_remove_entry;
   M_append; M_sort_keys; T_hash; O_remove; O_swap_remove; O_shift_remove; O_remove_entry; O_swap_remove_entry; O_shift_remove_entry].
Definition forget_store (c : backing_call) : backing_call :=
  match c with Call r _ f => Call r Bt f | HashSortedByKey _ => HashSortedByKey Bt | c => c end.
Theorem builds_agree_elsewhere : forall mth,
  In mth cfg_dependent <-> forget_store (raw_call MAP_TABLE false mth) <> forget_store (raw_call MAP_TABLE true mth).
Proof.
  intros mth; split.
  - intros H. cbn in H. repeat (destruct H as [<-|H]; [discriminate|]). contradiction.
  - intros H. destruct mth; try (exfalso; apply H; reflexivity); cbn; tauto.
Qed.

Print Assumptions map_model_is_translated_source.
Print Assumptions map_run_is_translated_source.
Print Assumptions avail_is_source.
Print Assumptions veq_obj_is_source.
Print Assumptions hash_obj_is_source.
Print Assumptions builds_agree_elsewhere.
Print Assumptions not_compiled_iff.
