(* Proofs/StrEscapeReject.v — string literals (text mode, validate = true): which error a malformed literal gets.

   GrammarStr.parse_str_rejects says "some error".  Here: the literal is split into a well-formed, decodable
   prefix [s] (pieces) and the first offending position [t]; the scanner's behaviour on the prefix is factored out
   (loop_prefix) and each kind of offence is evaluated:
       bare control character                    ControlCharacterWhileParsingString
       unknown escape letter                     InvalidEscape
       malformed hex after \u                    InvalidEscape
       low surrogate first                       LoneLeadingSurrogateInHexEscape
       high surrogate not followed by \u         UnexpectedEndOfHexEscape
       high surrogate followed by \u non-low     LoneLeadingSurrogateInHexEscape
       decoded bytes not UTF-8                   InvalidUnicodeCodePoint
       input ends inside the literal             EofWhileParsingString
   each with its exact byte index.
   Also: the slice loop does not depend on the reader kind nor on the amount of (sufficient) fuel (slice_loop_eq),
   and a borrowed result is the input subslice (borrowed_subslice). *)
From Coq Require Import List NArith ZArith Bool Arith Lia ZifyBool ZifyNat ZifyN.
From SJ Require Import Base.Bytes Base.Utf8 Gen.Tables Model.Read Model.Str Spec.Syntax.
From SJ Require Import Proofs.StrRefine Proofs.GrammarStr.
Import ListNotations.
Open Scope N_scope.

Local Notation SE cf := (mkEnv RSlice TEof cf).
Local Notation render s := (flat_map render_piece s).

(* ===== the slice loop: independent of reader kind, fuel and peek flag ===== *)
Lemma slice_loop_eq rk1 rk2 cf0 (v : bool) :
  forall (m : nat) (s : st) (f1 f2 : nat),
    length (rest s) = m -> (m < f1)%nat -> (m < f2)%nat ->
    slice_str_loop f1 (mkEnv rk1 TEof cf0) v s = slice_str_loop f2 (mkEnv rk2 TEof cf0) v s.
Proof.
  induction m as [m IH] using lt_wf_ind.
  intros s f1 f2 Hm Hf1 Hf2.
  destruct f1 as [|f1]; [lia|]. destruct f2 as [|f2]; [lia|].
  destruct s as [l o p d]. cbn [rest] in Hm.
  destruct l as [|ch r].
  { rewrite !slice_str_nil. reflexivity. }
  cbn [length] in Hm.
  destruct (is_escape ch v) eqn:Hv.
  - rewrite !slice_str_special by exact Hv.
    destruct (ch =? 34); [reflexivity|].
    destruct (ch =? 92); [|reflexivity].
    rewrite (parse_escape_eq rk1 rk2 cf0 v _ f1 f2) by (cbn [rest]; lia).
    pose proof (parse_escape_post rk2 cf0 v (mkSt r (S o) false d) f2) as Hp.
    cbn [rest] in Hp. specialize (Hp ltac:(lia)).
    destruct (parse_escape f2 (mkEnv rk2 TEof cf0) v (mkSt r (S o) false d)) as [[w s2]|c i| |];
      cbn [bind]; try reflexivity.
    cbn [post snd] in Hp.
    rewrite (IH (length (rest s2))) with (f2 := f2); [reflexivity|lia|reflexivity|lia|lia].
  - rewrite (slice_str_push _ v f1 ch r o p false d Hv), (slice_str_push _ v f2 ch r o p false d Hv).
    rewrite (IH (length r)) with (f2 := S f2); [reflexivity|lia|reflexivity|lia|lia].
Qed.

Lemma slice_loop_pk : forall f E v l o p p' d,
  slice_str_loop f E v (mkSt l o p d) = slice_str_loop f E v (mkSt l o p' d).
Proof. intros. destruct f; reflexivity. Qed.

(* Read::parse_str on &str and on &[u8] run the same loop *)
Lemma slice_loop_str_slice : forall cf v s,
  slice_str_loop (str_fuel s) (mkEnv RStr TEof cf) v s = slice_str_loop (str_fuel s) (mkEnv RSlice TEof cf) v s.
Proof. intros. apply (slice_loop_eq RStr RSlice cf v (length (rest s))); unfold str_fuel; lia. Qed.

(* ===== the scanner on a decodable prefix ===== *)
Definition lift_pre (b : bytes) (e : bool) (r : res (bytes * bool * st)) : res (bytes * bool * st) :=
  match r with
  | Ok (out, cp, s') => Ok (b ++ out, e || cp, s')
  | Err c i => Err c i
  | OutOfFuel => OutOfFuel
  | Panic => Panic
  end.

Lemma lift_pre_nil : forall r, lift_pre [] false r = r.
Proof. intros [[[out cp] s']| | |]; reflexivity. Qed.

Lemma lift_cons_pre : forall x b e r, lift_cons x (lift_pre b e r) = lift_pre (x :: b) e r.
Proof. intros x b e [[[out cp] s']| | |]; reflexivity. Qed.

Lemma bind_lift_pre : forall w b e (r : res (bytes * bool * st)),
  (let* (out, _, s3) := lift_pre b e r in Ok (w ++ out, true, s3)) = lift_pre (w ++ b) true r.
Proof. intros w b e [[[out cp] s']| | |]; cbn [lift_pre bind orb]; try reflexivity. rewrite app_assoc. reflexivity. Qed.

Definition pre_post (cf : cfg) (s : list strpiece) (b : bytes) (t : bytes) (o : nat) (d : N) (f1 f2 : nat) : Prop :=
  forall p p',
  slice_str_loop f1 (SE cf) true (mkSt (render s ++ t) o p d)
  = lift_pre b (negb (forallb is_raw s))
      (slice_str_loop f2 (SE cf) true (mkSt t (o + length (render s)) p' d)).

Lemma prefix_step : forall cf f ps w r b' t o o' d tl f2,
  render (ps ++ r) ++ t = 92 :: tl ->
  parse_escape f (SE cf) true (mkSt tl (S o) false d) = Ok (w, mkSt (render r ++ t) o' false d) ->
  o' = (o + length (render ps))%nat ->
  forallb is_raw (ps ++ r) = false ->
  pre_post cf r b' t o' d f f2 ->
  pre_post cf (ps ++ r) (w ++ b') t o d (S f) f2.
Proof.
  intros cf f ps w r b' t o o' d tl f2 Hrender Hesc Ho Hraw IH p p'.
  rewrite Hrender, slice_loop_esc, Hesc. cbn [bind].
  rewrite (IH false p'), bind_lift_pre, Hraw. cbn [negb].
  replace (o' + length (render r))%nat with (o + length (render (ps ++ r)))%nat
    by (rewrite flat_map_app, app_length; lia).
  reflexivity.
Qed.

Lemma str_decode_cons_some : forall {A} (f : A -> A) (o : option A) b, option_map f o = Some b ->
  exists b', o = Some b' /\ b = f b'.
Proof. intros A f [x|] b H; [|discriminate H]. injection H as <-. eauto. Qed.

Lemma loop_prefix : forall cf n s, (length s <= n)%nat -> forall b t o d f1 f2,
  str_ok s = true -> str_decode s = Some b ->
  (length (render s ++ t) < f1)%nat -> (length t < f2)%nat ->
  pre_post cf s b t o d f1 f2.
Proof.
  intros cf n. induction n as [|n IH]; intros s Hlen b t o d f1 f2 Hok Hdec Hf1 Hf2.
  { destruct s as [|? ?]; [|cbn [length] in Hlen; lia].
    cbn [str_decode] in Hdec. injection Hdec as <-. intros p p'.
    cbn [flat_map app length forallb negb]. rewrite lift_pre_nil, Nat.add_0_r.
    rewrite (slice_loop_pk f1 _ _ t o p p' d).
    apply (slice_loop_eq RSlice RSlice cf true (length t)); [reflexivity|exact Hf1|exact Hf2]. }
  destruct s as [|pc r].
  { cbn [str_decode] in Hdec. injection Hdec as <-. intros p p'.
    cbn [flat_map app length forallb negb]. rewrite lift_pre_nil, Nat.add_0_r.
    rewrite (slice_loop_pk f1 _ _ t o p p' d).
    apply (slice_loop_eq RSlice RSlice cf true (length t)); [reflexivity|exact Hf1|exact Hf2]. }
  cbn [length] in Hlen. unfold str_ok in Hok. cbn [forallb] in Hok.
  apply andb_true_iff in Hok. destruct Hok as [Hpc Hr]. fold (str_ok r) in Hr.
  destruct pc as [x|c|a b0 c d0].
  - (* raw byte *)
    assert (Hx : is_escape x true = false).
    { rewrite is_escape_spec. cbn [piece_ok] in Hpc. lia. }
    rewrite str_decode_raw in Hdec. apply str_decode_cons_some in Hdec. destruct Hdec as (b' & Hdec' & ->).
    cbn [flat_map render_piece app length] in Hf1 |- *.
    assert (IHr := IH r ltac:(lia) b' t (S o) d f1 f2 Hr Hdec' ltac:(lia) Hf2).
    intros p p'. cbn [flat_map render_piece app].
    rewrite (slice_loop_raw_cons f1 cf x _ o p p d Hx), (IHr p p'), lift_cons_pre.
    cbn [forallb is_raw andb length]. replace (S o + length (render r))%nat with (o + S (length (render r)))%nat by lia.
    reflexivity.
  - (* one-letter escape *)
    destruct f1 as [|f]; [lia|]. cbn [piece_ok] in Hpc.
    rewrite str_decode_esc in Hdec. apply str_decode_cons_some in Hdec. destruct Hdec as (b' & Hdec' & ->).
    cbn [flat_map render_piece app length] in Hf1.
    apply (prefix_step cf f [PEsc c] [esc_val c] r b' t o (o + 2)%nat d (c :: render r ++ t) f2).
    + reflexivity.
    + rewrite parse_escape_simple by exact Hpc. do 2 f_equal. apply st_eq. lia.
    + reflexivity.
    + reflexivity.
    + apply (IH r); [lia|exact Hr|exact Hdec'|lia|exact Hf2].
  - (* \uXXXX *)
    destruct f1 as [|f]; [lia|]. cbn [piece_ok] in Hpc. fold (hex4 a b0 c d0) in Hpc.
    assert (Hlt := u4_val_lt a b0 c d0 Hpc).
    cbn [flat_map render_piece app length] in Hf1.
    destruct f as [|f]; [lia|].
    rewrite str_decode_u4 in Hdec. cbv zeta in Hdec.
    destruct (is_lo_surr (u4_val a b0 c d0)) eqn:Hlo; [discriminate Hdec|].
    destruct (is_hi_surr (u4_val a b0 c d0)) eqn:Hhi.
    + destruct r as [|[x|x|a' b' c' d'] r']; try discriminate Hdec.
      destruct (is_lo_surr (u4_val a' b' c' d')) eqn:Hlo2; [|discriminate Hdec].
      apply str_decode_cons_some in Hdec. destruct Hdec as (b2 & Hdec' & ->).
      unfold str_ok in Hr. cbn [forallb piece_ok] in Hr.
      apply andb_true_iff in Hr. destruct Hr as [Hh2 Hr']. fold (hex4 a' b' c' d') in Hh2.
      fold (str_ok r') in Hr'. cbn [length] in Hlen.
      cbn [flat_map render_piece app length] in Hf1.
      apply (prefix_step cf (S f) [PU4 a b0 c d0; PU4 a' b' c' d']
               (utf8_encode (pair_cp (u4_val a b0 c d0) (u4_val a' b' c' d')))
               r' b2 t o (o + 12)%nat d
               (117 :: a :: b0 :: c :: d0 :: 92 :: 117 :: a' :: b' :: c' :: d' :: render r' ++ t) f2).
      * reflexivity.
      * rewrite parse_escape_u_true, Hlo by exact Hpc.
        rewrite unicode_loop_hi_pair, Hlo2 by assumption.
        do 2 f_equal. apply st_eq. lia.
      * reflexivity.
      * reflexivity.
      * apply (IH r'); [lia|exact Hr'|exact Hdec'|lia|exact Hf2].
    + apply str_decode_cons_some in Hdec. destruct Hdec as (b2 & Hdec' & ->).
      apply (prefix_step cf (S f) [PU4 a b0 c d0] (utf8_encode (u4_val a b0 c d0))
               r b2 t o (o + 6)%nat d (117 :: a :: b0 :: c :: d0 :: render r ++ t) f2).
      * reflexivity.
      * rewrite parse_escape_u_true, Hlo by exact Hpc.
        rewrite unicode_loop_scalar by assumption.
        do 2 f_equal. apply st_eq. lia.
      * reflexivity.
      * reflexivity.
      * apply (IH r); [lia|exact Hr|exact Hdec'|lia|exact Hf2].
Qed.

(* an error at the first offending position is the error of the whole literal *)
Lemma parse_str_prefix_err : forall cf s b t o pk d c i,
  str_ok s = true -> str_decode s = Some b ->
  (forall f p, slice_str_loop (S (S f)) (SE cf) true (mkSt t (o + length (render s)) p d) = Err c i) ->
  parse_str (SE cf) (mkSt (render s ++ t) o pk d) = Err c i.
Proof.
  intros cf s b t o pk d c i Hok Hdec Ht. rewrite parse_str_slice.
  assert (Hf1 : (length (render s ++ t) < str_fuel (mkSt (render s ++ t) o pk d))%nat)
    by (unfold str_fuel; cbn [rest]; lia).
  assert (Hf2 : (length t < S (S (length t)))%nat) by lia.
  rewrite (loop_prefix cf (length s) s (Nat.le_refl _) b t o d _ _ Hok Hdec Hf1 Hf2 pk false).
  rewrite Ht. reflexivity.
Qed.

(* ===== the scanner at each kind of offending position ===== *)
Section Offence.
  Variable cf : cfg.
  Variables (o : nat) (d : N).

  Lemma at_eof : forall f p, slice_str_loop (S f) (SE cf) true (mkSt [] o p d) = Err EofWhileParsingString o.
  Proof. intros. apply slice_str_nil. Qed.

  Lemma at_ctrl : forall f p c rst, c < 32 ->
    slice_str_loop (S f) (SE cf) true (mkSt (c :: rst) o p d) = Err ControlCharacterWhileParsingString (S o).
  Proof.
    intros f p c rst Hc. rewrite slice_str_special by (rewrite is_escape_spec; lia).
    replace (c =? 34) with false by lia. replace (c =? 92) with false by lia. reflexivity.
  Qed.

  Lemma at_bslash : forall f p tl,
    slice_str_loop (S f) (SE cf) true (mkSt (92 :: tl) o p d) =
      let* (w, s2) := parse_escape f (SE cf) true (mkSt tl (S o) false d) in
      let* (out, _, s3) := slice_str_loop f (SE cf) true s2 in Ok (w ++ out, true, s3).
  Proof. intros. rewrite slice_str_special by reflexivity. reflexivity. Qed.

  Lemma at_esc_eof : forall f p,
    slice_str_loop (S f) (SE cf) true (mkSt [92] o p d) = Err EofWhileParsingString (S o).
  Proof. intros. rewrite at_bslash. reflexivity. Qed.

  Lemma at_bad_letter : forall f p x rst, esc_letter x = false -> x <> 117 ->
    slice_str_loop (S f) (SE cf) true (mkSt (92 :: x :: rst) o p d) = Err InvalidEscape (S (S o)).
  Proof.
    intros f p x rst Hx Hu. rewrite at_bslash, parse_escape_cons.
    replace (x =? 117) with false by lia. rewrite escape_simple_spec, Hx. reflexivity.
  Qed.

  Lemma dhe_short : forall l o' p, (length l < 4)%nat ->
    decode_hex_escape (SE cf) (mkSt l o' p d) = Err EofWhileParsingString (o' + length l).
  Proof.
    intros l o' p Hl. rewrite decode_hex_escape_dhe. unfold dhe. cbn [rest off].
    destruct l as [|a [|b [|c [|e r]]]]; try reflexivity. cbn [length] in Hl. lia.
  Qed.

  Lemma at_hex_eof : forall f p l, (length l < 4)%nat ->
    slice_str_loop (S f) (SE cf) true (mkSt (92 :: 117 :: l) o p d) = Err EofWhileParsingString (S (S o) + length l).
  Proof.
    intros f p l Hl. rewrite at_bslash, parse_escape_cons. change (117 =? 117) with true. cbv iota.
    unfold parse_unicode_escape. rewrite dhe_short by exact Hl. reflexivity.
  Qed.

  Lemma at_bad_hex : forall f p a b c e rst, hex4 a b c e = false ->
    slice_str_loop (S f) (SE cf) true (mkSt (92 :: 117 :: a :: b :: c :: e :: rst) o p d) = Err InvalidEscape (S (S o) + 4).
  Proof.
    intros f p a b c e rst Hh. rewrite at_bslash, parse_escape_cons. change (117 =? 117) with true. cbv iota.
    unfold parse_unicode_escape. rewrite decode_hex_escape_slice, decode_four_hex_spec_gen.
    fold (hex4 a b c e). rewrite Hh. reflexivity.
  Qed.

  Lemma at_lone_low : forall f p a b c e rst, hex4 a b c e = true -> is_lo_surr (u4_val a b c e) = true ->
    slice_str_loop (S f) (SE cf) true (mkSt (92 :: 117 :: a :: b :: c :: e :: rst) o p d)
    = Err LoneLeadingSurrogateInHexEscape (S (S o) + 4).
  Proof.
    intros f p a b c e rst Hh Hlo. rewrite at_bslash, parse_escape_u_true, Hlo by exact Hh. reflexivity.
  Qed.

  (* after a high surrogate \uD800..\uDBFF *)
  Lemma at_high : forall f p a b c e rst, hex4 a b c e = true -> is_hi_surr (u4_val a b c e) = true ->
    slice_str_loop (S (S f)) (SE cf) true (mkSt (92 :: 117 :: a :: b :: c :: e :: rst) o p d) =
      let* (w, s2) := unicode_loop (S f) (SE cf) true (u4_val a b c e) (mkSt rst (S (S o) + 4) false d) in
      let* (out, _, s3) := slice_str_loop (S f) (SE cf) true s2 in Ok (w ++ out, true, s3).
  Proof.
    intros f p a b c e rst Hh Hhi. rewrite at_bslash, parse_escape_u_true by exact Hh.
    replace (is_lo_surr (u4_val a b c e)) with false by (unfold is_hi_surr, is_lo_surr in *; lia).
    reflexivity.
  Qed.

  Lemma hi_not_range : forall n, is_hi_surr n = true -> (n <? 55296) || (56319 <? n) = false.
  Proof. intros n H. unfold is_hi_surr in H. lia. Qed.

  Lemma uloop_hi_eof : forall f n o' p, is_hi_surr n = true ->
    unicode_loop (S f) (SE cf) true n (mkSt [] o' p d) = Err EofWhileParsingString o'.
  Proof. intros f n o' p H. rewrite unicode_loop_S, (hi_not_range n H). reflexivity. Qed.

  Lemma uloop_hi_other : forall f n o' p x rst, is_hi_surr n = true -> x <> 92 ->
    unicode_loop (S f) (SE cf) true n (mkSt (x :: rst) o' p d) = Err UnexpectedEndOfHexEscape (S o').
  Proof.
    intros f n o' p x rst H Hx. rewrite unicode_loop_S, (hi_not_range n H).
    unfold peek_or_eof, peek. cbn [rest off depth bind]. replace (x =? 92) with false by lia. reflexivity.
  Qed.

  Lemma uloop_hi_bslash_eof : forall f n o' p, is_hi_surr n = true ->
    unicode_loop (S f) (SE cf) true n (mkSt [92] o' p d) = Err EofWhileParsingString (S o').
  Proof. intros f n o' p H. rewrite unicode_loop_S, (hi_not_range n H). reflexivity. Qed.

  Lemma uloop_hi_bslash_other : forall f n o' p x rst, is_hi_surr n = true -> x <> 117 ->
    unicode_loop (S f) (SE cf) true n (mkSt (92 :: x :: rst) o' p d) = Err UnexpectedEndOfHexEscape (S (S o')).
  Proof.
    intros f n o' p x rst H Hx. rewrite unicode_loop_S, (hi_not_range n H).
    unfold peek_or_eof, peek, discard. cbn [rest off depth bind tl]. change (92 =? 92) with true. cbv iota.
    replace (x =? 117) with false by lia. reflexivity.
  Qed.

  Lemma uloop_hi_u_short : forall f n o' p l, is_hi_surr n = true -> (length l < 4)%nat ->
    unicode_loop (S f) (SE cf) true n (mkSt (92 :: 117 :: l) o' p d) = Err EofWhileParsingString (S (S o') + length l).
  Proof.
    intros f n o' p l H Hl. rewrite unicode_loop_S, (hi_not_range n H).
    unfold peek_or_eof, peek, discard. cbn [rest off depth bind tl].
    change (92 =? 92) with true. change (117 =? 117) with true. cbv iota.
    rewrite dhe_short by exact Hl. reflexivity.
  Qed.

  Lemma uloop_hi_u_badhex : forall f n o' p a b c e rst, is_hi_surr n = true -> hex4 a b c e = false ->
    unicode_loop (S f) (SE cf) true n (mkSt (92 :: 117 :: a :: b :: c :: e :: rst) o' p d) = Err InvalidEscape (S (S o') + 4).
  Proof.
    intros f n o' p a b c e rst H Hh. rewrite unicode_loop_S, (hi_not_range n H).
    unfold peek_or_eof, peek, discard. cbn [rest off depth bind tl].
    change (92 =? 92) with true. change (117 =? 117) with true. cbv iota.
    rewrite decode_hex_escape_slice, decode_four_hex_spec_gen. fold (hex4 a b c e). rewrite Hh. reflexivity.
  Qed.

  Lemma uloop_hi_u_notlow : forall f n o' p a b c e rst, is_hi_surr n = true -> hex4 a b c e = true ->
    is_lo_surr (u4_val a b c e) = false ->
    unicode_loop (S f) (SE cf) true n (mkSt (92 :: 117 :: a :: b :: c :: e :: rst) o' p d)
    = Err LoneLeadingSurrogateInHexEscape (S (S o') + 4).
  Proof.
    intros f n o' p a b c e rst H Hh Hlo. rewrite unicode_loop_hi_pair, Hlo by assumption. reflexivity.
  Qed.
End Offence.

(* ===== the rejection classes ===== *)
Section Reject.
  Variable cf : cfg.
  Variables (s : list strpiece) (b : bytes).
  Hypothesis Hok : str_ok s = true.
  Hypothesis Hdec : str_decode s = Some b.       (* the pieces before the offence are fine *)
  Variables (o : nat) (pk : bool) (d : N).
  Local Notation run t := (parse_str (SE cf) (mkSt (render s ++ t) o pk d)).
  Local Notation o1 := (o + length (render s))%nat.

  (* input ends before the closing quote *)
  Theorem reject_eof : run [] = Err EofWhileParsingString o1.
  Proof. apply (parse_str_prefix_err cf s b); auto. intros. apply at_eof. Qed.

  (* a bare control character U+0000..U+001F *)
  Theorem reject_control : forall c rst, c < 32 -> run (c :: rst) = Err ControlCharacterWhileParsingString (o1 + 1).
  Proof.
    intros c rst Hc. apply (parse_str_prefix_err cf s b); auto. intros. rewrite at_ctrl by exact Hc.
    f_equal. lia.
  Qed.

  (* backslash followed by a byte that is not one of the eight escape letters nor u *)
  Theorem reject_unknown_escape : forall x rst, esc_letter x = false -> x <> 117 ->
    run (92 :: x :: rst) = Err InvalidEscape (o1 + 2).
  Proof.
    intros x rst Hx Hu. apply (parse_str_prefix_err cf s b); auto. intros. rewrite at_bad_letter by assumption.
    f_equal. lia.
  Qed.

  Theorem reject_escape_eof : run [92] = Err EofWhileParsingString (o1 + 1).
  Proof. apply (parse_str_prefix_err cf s b); auto. intros. rewrite at_esc_eof. f_equal. lia. Qed.

  (* \u followed by four bytes that are not all hex digits *)
  Theorem reject_malformed_hex : forall h1 h2 h3 h4 rst, hex4 h1 h2 h3 h4 = false ->
    run (92 :: 117 :: h1 :: h2 :: h3 :: h4 :: rst) = Err InvalidEscape (o1 + 6).
  Proof.
    intros h1 h2 h3 h4 rst Hh. apply (parse_str_prefix_err cf s b); auto. intros. rewrite at_bad_hex by exact Hh.
    f_equal. lia.
  Qed.

  Theorem reject_hex_eof : forall l, (length l < 4)%nat ->
    run (92 :: 117 :: l) = Err EofWhileParsingString (o1 + 2 + length l).
  Proof.
    intros l Hl. apply (parse_str_prefix_err cf s b); auto. intros. rewrite at_hex_eof by exact Hl.
    f_equal. lia.
  Qed.

  (* a low surrogate \uDC00..\uDFFF that does not follow a high surrogate *)
  Theorem reject_lone_low : forall h1 h2 h3 h4 rst, hex4 h1 h2 h3 h4 = true -> is_lo_surr (u4_val h1 h2 h3 h4) = true ->
    run (92 :: 117 :: h1 :: h2 :: h3 :: h4 :: rst) = Err LoneLeadingSurrogateInHexEscape (o1 + 6).
  Proof.
    intros h1 h2 h3 h4 rst Hh Hlo. apply (parse_str_prefix_err cf s b); auto. intros. rewrite at_lone_low by assumption.
    f_equal. lia.
  Qed.

  (* a high surrogate \uD800..\uDBFF ... *)
  Variables h1 h2 h3 h4 : byte.
  Hypothesis Hh : hex4 h1 h2 h3 h4 = true.
  Hypothesis Hhi : is_hi_surr (u4_val h1 h2 h3 h4) = true.
  Local Notation hi t := (run (92 :: 117 :: h1 :: h2 :: h3 :: h4 :: t)).

  (* ... followed by something that is not a backslash (a character, the closing quote) *)
  Theorem reject_high_then_other : forall x rst, x <> 92 -> hi (x :: rst) = Err UnexpectedEndOfHexEscape (o1 + 7).
  Proof.
    intros x rst Hx. apply (parse_str_prefix_err cf s b); auto. intros.
    rewrite at_high, uloop_hi_other by assumption. cbn [bind]. f_equal. lia.
  Qed.

  (* ... followed by an escape other than \u *)
  Theorem reject_high_then_escape : forall x rst, x <> 117 -> hi (92 :: x :: rst) = Err UnexpectedEndOfHexEscape (o1 + 8).
  Proof.
    intros x rst Hx. apply (parse_str_prefix_err cf s b); auto. intros.
    rewrite at_high, uloop_hi_bslash_other by assumption. cbn [bind]. f_equal. lia.
  Qed.

  (* ... followed by \uXXXX that is not a low surrogate *)
  Theorem reject_high_then_nonlow : forall k1 k2 k3 k4 rst, hex4 k1 k2 k3 k4 = true -> is_lo_surr (u4_val k1 k2 k3 k4) = false ->
    hi (92 :: 117 :: k1 :: k2 :: k3 :: k4 :: rst) = Err LoneLeadingSurrogateInHexEscape (o1 + 12).
  Proof.
    intros k1 k2 k3 k4 rst Hk Hlo. apply (parse_str_prefix_err cf s b); auto. intros.
    rewrite at_high, uloop_hi_u_notlow by assumption. cbn [bind]. f_equal. lia.
  Qed.

  (* ... followed by \u and malformed hex *)
  Theorem reject_high_then_malformed : forall k1 k2 k3 k4 rst, hex4 k1 k2 k3 k4 = false ->
    hi (92 :: 117 :: k1 :: k2 :: k3 :: k4 :: rst) = Err InvalidEscape (o1 + 12).
  Proof.
    intros k1 k2 k3 k4 rst Hk. apply (parse_str_prefix_err cf s b); auto. intros.
    rewrite at_high, uloop_hi_u_badhex by assumption. cbn [bind]. f_equal. lia.
  Qed.

  (* ... and the input ends *)
  Theorem reject_high_eof : hi [] = Err EofWhileParsingString (o1 + 6).
  Proof.
    apply (parse_str_prefix_err cf s b); auto. intros.
    rewrite at_high, uloop_hi_eof by assumption. cbn [bind]. f_equal. lia.
  Qed.
  Theorem reject_high_bslash_eof : hi [92] = Err EofWhileParsingString (o1 + 7).
  Proof.
    apply (parse_str_prefix_err cf s b); auto. intros.
    rewrite at_high, uloop_hi_bslash_eof by assumption. cbn [bind]. f_equal. lia.
  Qed.
  Theorem reject_high_hex_eof : forall l, (length l < 4)%nat -> hi (92 :: 117 :: l) = Err EofWhileParsingString (o1 + 8 + length l).
  Proof.
    intros l Hl. apply (parse_str_prefix_err cf s b); auto. intros.
    rewrite at_high, uloop_hi_u_short by assumption. cbn [bind]. f_equal. lia.
  Qed.

  (* all pieces fine, surrogates paired, but the decoded bytes are not UTF-8 (byte input only) *)
  Theorem reject_invalid_utf8 : forall rst, utf8_valid b = false -> run (34 :: rst) = Err InvalidUnicodeCodePoint (o1 + 1).
  Proof.
    intros rst Hv.
    pose proof (slice_loop_spec cf (length s) s (Nat.le_refl _) _ rst o pk d Hok (str_fuel_enough s rst o pk d)) as H.
    unfold loop_post in H. rewrite Hdec in H. rewrite parse_str_slice, H. cbn [bind]. rewrite Hv. reflexivity.
  Qed.
End Reject.

(* ===== a borrowed result is the input itself ===== *)
Lemma all_raw_map : forall s, forallb is_raw s = true -> exists chunk, s = map PRaw chunk.
Proof.
  induction s as [|p r IH]; intros H; [exists []; reflexivity|].
  cbn [forallb] in H. apply andb_true_iff in H. destruct H as [Hp Hr].
  destruct (IH Hr) as (chunk & ->). destruct p as [x|x|a b c d]; try discriminate Hp.
  exists (x :: chunk). reflexivity.
Qed.

Theorem borrowed_subslice : forall cf s0 b s1,
  Forall (fun x => x < 256) (rest s0) ->
  parse_str (mkEnv RSlice TEof cf) s0 = Ok (b, true, s1) ->
  rest s0 = b ++ 34 :: rest s1 /\ off s1 = (off s0 + length b + 1)%nat
  /\ forallb (fun x => negb (is_escape x true)) b = true.
Proof.
  intros cf s0 b s1 HF H.
  destruct (parse_str_sound_strong cf s0 b true s1 HF H) as (s & Hr & Hok & Htext & Hoff & _ & _ & Hbw).
  symmetry in Hbw. fold is_raw in Hbw. change (forallb _ s) with (forallb is_raw s) in Hbw.
  destruct (all_raw_map s Hbw) as (chunk & ->).
  rewrite render_raw in Hr, Hoff.
  apply str_text_some in Htext. destruct Htext as [Hdec _].
  rewrite <- (app_nil_r (map PRaw chunk)), str_decode_raw_app in Hdec. cbn [str_decode option_map] in Hdec.
  rewrite app_nil_r in Hdec. injection Hdec as <-.
  split; [exact Hr|]. split; [exact Hoff|].
  clear - Hok. induction chunk as [|x r IH]; [reflexivity|].
  unfold str_ok in Hok. cbn [map forallb piece_ok] in Hok. apply andb_true_iff in Hok. destruct Hok as [Hx Hr].
  cbn [forallb]. rewrite (IH Hr), is_escape_spec. lia.
Qed.

(* ===== the same verdicts through a reader ===== *)
Theorem slice_err_io : forall cf s c i,
  parse_str (mkEnv RSlice TEof cf) s = Err c i -> parse_str (mkEnv RIo TEof cf) s = Err c i.
Proof.
  intros cf s c i H. pose proof (parse_str_io_slice cf s) as Heq. rewrite H in Heq. cbn [drop_flag] in Heq.
  destruct (parse_str (mkEnv RIo TEof cf) s) as [[[out bw] s1]|c' i'| |]; cbn [drop_flag] in Heq;
    try discriminate Heq. injection Heq as -> ->. reflexivity.
Qed.

Theorem slice_ok_io : forall cf s b bw s1,
  parse_str (mkEnv RSlice TEof cf) s = Ok (b, bw, s1) -> parse_str (mkEnv RIo TEof cf) s = Ok (b, false, s1).
Proof.
  intros cf s b bw s1 H. pose proof (parse_str_io_slice cf s) as Heq. rewrite H in Heq. cbn [drop_flag] in Heq.
  unfold parse_str in Heq |- *. cbn [rk] in Heq |- *.
  destruct (io_str_loop _ _ true _) as [[out s2]|c i| |]; cbn [bind drop_flag] in Heq |- *; try discriminate Heq.
  destruct (utf8_valid out); cbn [drop_flag] in Heq; [|discriminate Heq].
  injection Heq as -> ->. reflexivity.
Qed.

Print Assumptions slice_loop_eq.
Print Assumptions loop_prefix.
Print Assumptions reject_control.
Print Assumptions reject_unknown_escape.
Print Assumptions reject_malformed_hex.
Print Assumptions reject_lone_low.
Print Assumptions reject_high_then_other.
Print Assumptions reject_high_then_escape.
Print Assumptions reject_high_then_nonlow.
Print Assumptions reject_invalid_utf8.
Print Assumptions borrowed_subslice.
