(* Proofs/PointerMacro.v — C18, json!: the token muncher of src/macros.rs (Model/JsonMacro.v, Part 1) builds exactly
   the value denoted by reading the token tree as JSON text with optional trailing commas (Part 2), except that it also
   accepts commas BEFORE the first element of an array. *)
From SJ Require Import Base.Bytes Base.FloatB Model.Value Model.JsonMacro.
Require Import Lia.
Open Scope N_scope.

(* ---- induction principle for the nested token-tree type *)
Section TokInd.
  Variable P : tok -> Prop.
  Hypothesis HNull : P KNull.
  Hypothesis HTrue : P KTrue.
  Hypothesis HFalse : P KFalse.
  Hypothesis HExpr : forall v, P (KExpr v).
  Hypothesis HParen : forall v, P (KParen v).
  Hypothesis HComma : P KComma.
  Hypothesis HColon : P KColon.
  Hypothesis HBrack : forall l, (forall t, In t l -> P t) -> P (KBrack l).
  Hypothesis HBrace : forall l, (forall t, In t l -> P t) -> P (KBrace l).
  Fixpoint tok_ind' (t : tok) : P t :=
    match t with
    | KNull => HNull | KTrue => HTrue | KFalse => HFalse
    | KExpr v => HExpr v | KParen v => HParen v
    | KComma => HComma | KColon => HColon
    | KBrack l => HBrack l ((fix all (l : list tok) : forall t, In t l -> P t :=
                               match l with
                               | [] => fun t H => match H with end
                               | x :: r => fun t H => match H with
                                                      | or_introl e => eq_ind x P (tok_ind' x) t e
                                                      | or_intror H' => all r t H'
                                                      end
                               end) l)
    | KBrace l => HBrace l ((fix all (l : list tok) : forall t, In t l -> P t :=
                               match l with
                               | [] => fun t H => match H with end
                               | x :: r => fun t H => match H with
                                                      | or_introl e => eq_ind x P (tok_ind' x) t e
                                                      | or_intror H' => all r t H'
                                                      end
                               end) l)
    end.
End TokInd.

Lemma option_map_app_nil : forall (o : option (list value)), option_map (app []) o = o.
Proof. intros [l|]; reflexivity. Qed.

(* ====================================================================== arrays *)
Section Arr.
  Variables f g : tok -> option value.
  Hypothesis g_expr : forall v, g (KExpr v) = Some v.
  Hypothesis g_paren : forall v, g (KParen v) = Some v.

  Definition not_comma_first (l : list tok) : Prop := match l with KComma :: _ => False | _ => True end.

  (* state "ready for an element" (first part) and state "just took an element" (second part) *)
  Lemma arr_munch_spec : forall n rest, (length rest <= n)%nat ->
    (forall t, In t rest -> f t = g t) ->
    (forall acc tc, (tc = true /\ acc <> []) \/ (acc = [] /\ not_comma_first rest) ->
       arr_munch f acc tc rest = option_map (app acc) (sem_elems g rest)) /\
    (forall acc, acc <> [] ->
       arr_munch f acc false rest = match rest with
                                    | [] => Some acc
                                    | KComma :: r => option_map (app acc) (sem_elems g r)
                                    | _ :: _ => None
                                    end).
  Proof.
    induction n as [|n IH]; intros rest Hlen Hfg.
    { destruct rest as [|t r]; [|cbn [length] in Hlen; lia].
      split.
      - intros acc tc _. cbn [arr_munch sem_elems option_map]. rewrite app_nil_r. reflexivity.
      - intros acc _. reflexivity. }
    destruct rest as [|t r].
    { split.
      - intros acc tc _. cbn [arr_munch sem_elems option_map]. rewrite app_nil_r. reflexivity.
      - intros acc _. reflexivity. }
    cbn [length] in Hlen.
    assert (Hr : (length r <= n)%nat) by lia.
    assert (Hfr : forall t', In t' r -> f t' = g t') by (intros t' Hin; apply Hfg; right; exact Hin).
    destruct (IH r Hr Hfr) as [IHA IHB].
    assert (Hft : f t = g t) by (apply Hfg; left; reflexivity).
    (* what an element followed by [r] yields *)
    assert (Helem : forall acc v,
              arr_munch f (acc ++ [v]) false r =
              option_map (app acc) (match r with
                                    | [] => Some [v]
                                    | KComma :: r' => option_map (cons v) (sem_elems g r')
                                    | _ :: _ => None
                                    end)).
    { intros acc v. rewrite IHB by (destruct acc; discriminate).
      destruct r as [|t2 r']; [reflexivity|].
      destruct t2; try reflexivity.
      destruct (sem_elems g r') as [vs|]; cbn [option_map]; [|reflexivity].
      rewrite <- app_assoc. reflexivity. }
    (* an expression element: `$next:expr ,` or `$last:expr` *)
    assert (Hexpr : forall acc v,
              match r with
              | KComma :: r' => arr_munch f (acc ++ [v]) true r'
              | [] => Some (acc ++ [v])
              | _ :: _ => None
              end =
              option_map (app acc) (match r with
                                    | [] => Some [v]
                                    | KComma :: r' => option_map (cons v) (sem_elems g r')
                                    | _ :: _ => None
                                    end)).
    { intros acc v. destruct r as [|t2 r']; [reflexivity|].
      destruct t2; try reflexivity.
      assert (Hr' : (length r' <= n)%nat) by (cbn [length] in Hr; lia).
      assert (Hfr' : forall t', In t' r' -> f t' = g t') by (intros t' Hin; apply Hfr; right; exact Hin).
      destruct n as [|n']; [cbn [length] in Hr; lia|].
      assert (Hr'' : (length r' <= n')%nat) by (cbn [length] in Hr; lia).
      (* use the outer induction hypothesis at r' *)
      destruct (IH r') as [IHA' _]; [lia | exact Hfr' |].
      rewrite IHA' by (left; split; [reflexivity | destruct acc; discriminate]).
      destruct (sem_elems g r') as [vs|]; cbn [option_map]; [|reflexivity].
      rewrite <- app_assoc. reflexivity. }
    split.
    - intros acc tc Hst.
      assert (Hcan : tc || isnil acc = true).
      { destruct Hst as [[Htc _]|[Hacc _]]; subst; [reflexivity | apply Bool.orb_true_r]. }
      cbn [arr_munch]. rewrite Hcan.
      destruct t as [| | | v | v | | | l | l].
      + rewrite Hft. cbn [sem_elems is_value_tok]. destruct (g KNull) as [v|]; [|reflexivity]. apply Helem.
      + rewrite Hft. cbn [sem_elems is_value_tok]. destruct (g KTrue) as [v|]; [|reflexivity]. apply Helem.
      + rewrite Hft. cbn [sem_elems is_value_tok]. destruct (g KFalse) as [v|]; [|reflexivity]. apply Helem.
      + cbn [sem_elems is_value_tok]. rewrite g_expr. apply Hexpr.
      + cbn [sem_elems is_value_tok]. rewrite g_paren. apply Hexpr.
      + (* a comma where an element is expected: only reachable with a non-empty accumulator here *)
        destruct Hst as [[Htc Hacc]|[Hacc Hnc]]; [|cbn [not_comma_first] in Hnc; contradiction].
        subst tc. destruct acc as [|a acc']; [contradiction|]. reflexivity.
      + reflexivity.
      + rewrite Hft. cbn [sem_elems is_value_tok]. destruct (g (KBrack l)) as [v|]; [|reflexivity]. apply Helem.
      + rewrite Hft. cbn [sem_elems is_value_tok]. destruct (g (KBrace l)) as [v|]; [|reflexivity]. apply Helem.
    - intros acc Hacc. destruct acc as [|a acc']; [contradiction|].
      cbn [arr_munch isnil orb negb].
      destruct t; try reflexivity.
      apply IHA. left. split; [reflexivity|discriminate].
  Qed.

  Lemma arr_munch_strict : forall l, not_comma_first l -> (forall t, In t l -> f t = g t) ->
    arr_munch f [] false l = sem_elems g l.
  Proof.
    intros l Hnc Hfg. destruct (arr_munch_spec (length l) l (le_n _) Hfg) as [HA _].
    rewrite HA by (right; split; [reflexivity|exact Hnc]). apply option_map_app_nil.
  Qed.
End Arr.

(* ====================================================================== objects *)
Section Obj.
  Variable pres : bool.
  Variables f g : tok -> option value.
  Hypothesis g_expr : forall v, g (KExpr v) = Some v.
  Hypothesis g_paren : forall v, g (KParen v) = Some v.

  Definition ins (m : list (bytes * value)) (kv : bytes * value) := map_insert pres (fst kv) (snd kv) m.

  Lemma key_of_long : forall a b key, key_of (a :: b :: key) = None.
  Proof. intros a b key. destruct a as [| | | v | v | | | l | l]; try reflexivity; destruct v; reflexivity. Qed.

  Lemma key_of_paren : forall v, key_of [KExpr v] = key_of [KParen v].
  Proof. intros v. destruct v; reflexivity. Qed.

  (* [key] (value) rest *)
  Lemma obj_val_eq : forall m key v rest,
    obj_munch pres f m (OVal key v) rest =
    match rest with
    | [] => obj_insert pres m key v
    | KComma :: r' => match obj_insert pres m key v with
                      | Some m' => obj_munch pres f m' (OKey []) r'
                      | None => None
                      end
    | _ :: _ => None
    end.
  Proof. intros m key v rest. destruct rest as [|t r]; [reflexivity|]. destruct t; reflexivity. Qed.

  Lemma obj_val_bad : forall m key v rest, key_of key = None -> obj_munch pres f m (OVal key v) rest = None.
  Proof.
    intros m key v rest Hk. rewrite obj_val_eq. unfold obj_insert. rewrite Hk.
    destruct rest as [|t r]; [reflexivity|]. destruct t; reflexivity.
  Qed.

  Lemma obj_colon_bad : forall m key rest, key_of key = None -> obj_munch pres f m (OColon key) rest = None.
  Proof.
    intros m key rest Hk. destruct rest as [|t r]; [reflexivity|].
    destruct t as [| | | v | v | | | l | l]; cbn [obj_munch]; try reflexivity;
      try (destruct (f _); [apply obj_val_bad; exact Hk | reflexivity]).
    - destruct r as [|t2 r']; [apply obj_val_bad; exact Hk|]. destruct t2; try reflexivity. apply obj_val_bad; exact Hk.
    - destruct r as [|t2 r']; [apply obj_val_bad; exact Hk|]. destruct t2; try reflexivity. apply obj_val_bad; exact Hk.
  Qed.

  (* a key of two or more token trees never becomes a String *)
  Lemma obj_key_long : forall rest m a b key, obj_munch pres f m (OKey (a :: b :: key)) rest = None.
  Proof.
    induction rest as [|t r IH]; intros m a b key; [reflexivity|].
    destruct t; cbn [obj_munch app]; try apply IH; try reflexivity.
    apply obj_colon_bad. apply key_of_long.
  Qed.

  Lemma obj_key_single : forall m k rest,
    obj_munch pres f m (OKey [k]) rest =
    match rest with
    | KColon :: r2 => obj_munch pres f m (OColon [k]) r2
    | _ => None
    end.
  Proof.
    intros m k rest. destruct rest as [|t r]; [reflexivity|].
    destruct t; cbn [obj_munch app]; try apply obj_key_long; reflexivity.
  Qed.

  Definition key_tok (k : tok) : tok := match k with KParen v => KExpr v | _ => k end.

  Lemma obj_key_first : forall m k rest,
    obj_munch pres f m (OKey []) (k :: rest) =
    match k with
    | KColon | KComma => None
    | _ => match rest with
           | KColon :: r2 => obj_munch pres f m (OColon [key_tok k]) r2
           | _ => None
           end
    end.
  Proof.
    intros m k rest.
    destruct k as [| | | v | v | | | l | l]; cbn [obj_munch app key_tok]; try reflexivity; try apply obj_key_single.
    destruct rest as [|t r]; [reflexivity|].
    destruct t; try (rewrite obj_key_single; reflexivity).
  Qed.

  Lemma sem_members_eq : forall k rest,
    sem_members g (k :: rest) =
    match rest with
    | KColon :: t :: r =>
      match key_of [k] with
      | Some ks =>
        if is_value_tok t then
          match g t with
          | Some v =>
            match r with
            | [] => Some [(ks, v)]
            | KComma :: r' => option_map (cons (ks, v)) (sem_members g r')
            | _ :: _ => None
            end
          | None => None
          end
        else None
      | None => None
      end
    | _ => None
    end.
  Proof.
    intros k rest. destruct rest as [|t2 l2]; [reflexivity|].
    destruct t2; reflexivity.
  Qed.

  Lemma key_of_key_tok : forall k, key_of [key_tok k] = key_of [k].
  Proof. intros k. destruct k; reflexivity. Qed.

  Lemma key_of_sep : key_of [KColon] = None /\ key_of [KComma] = None.
  Proof. split; reflexivity. Qed.

  Lemma obj_munch_spec : forall n rest, (length rest <= n)%nat ->
    (forall t, In t rest -> f t = g t) ->
    forall m, obj_munch pres f m (OKey []) rest = option_map (fun es => fold_left ins es m) (sem_members g rest).
  Proof.
    induction n as [|n IH]; intros rest Hlen Hfg m.
    { destruct rest; [reflexivity | cbn [length] in Hlen; lia]. }
    destruct rest as [|k rest1]; [reflexivity|].
    rewrite obj_key_first, sem_members_eq.
    destruct rest1 as [|t2 r2].
    { destruct k; reflexivity. }
    destruct t2; try (destruct k; reflexivity).
    (* k : ... *)
    destruct r2 as [|t r].
    { destruct k; reflexivity. }
    assert (Hft : f t = g t) by (apply Hfg; right; right; left; reflexivity).
    assert (Hrec : forall r' m', (exists pre, r = pre :: r') ->
              obj_munch pres f m' (OKey []) r' = option_map (fun es => fold_left ins es m') (sem_members g r')).
    { intros r' m' [pre Hr]. subst r. apply IH.
      - cbn [length] in Hlen. lia.
      - intros t' Hin. apply Hfg. right; right; right; right. exact Hin. }
    (* the entry once its value v is known *)
    assert (Hentry : forall key v, key_of key = key_of [k] ->
              obj_munch pres f m (OVal key v) r =
              match key_of [k] with
              | Some ks => option_map (fun es => fold_left ins es m)
                             (match r with
                              | [] => Some [(ks, v)]
                              | KComma :: r' => option_map (cons (ks, v)) (sem_members g r')
                              | _ :: _ => None
                              end)
              | None => None
              end).
    { intros key v Hkey. rewrite obj_val_eq. unfold obj_insert. rewrite Hkey.
      destruct (key_of [k]) as [ks|].
      - destruct r as [|t3 r']; [reflexivity|].
        destruct t3; try reflexivity.
        rewrite Hrec by (eexists; reflexivity).
        destruct (sem_members g r') as [es|]; reflexivity.
      - destruct r as [|t3 r']; [reflexivity|]. destruct t3; reflexivity. }
    assert (Hk : key_of [key_tok k] = key_of [k]) by apply key_of_key_tok.
    assert (Hnone : key_of [k] = None -> obj_munch pres f m (OColon [key_tok k]) (t :: r) = None).
    { intros Hn. apply obj_colon_bad. rewrite Hk. exact Hn. }
    assert (Hsep : match k with KColon | KComma => True | _ => False end -> key_of [k] = None).
    { destruct k; intros Hc; try contradiction; reflexivity. }
    assert (Hmain :
      obj_munch pres f m (OColon [key_tok k]) (t :: r) =
      option_map (fun es => fold_left ins es m)
        (match key_of [k] with
         | Some ks =>
           if is_value_tok t then
             match g t with
             | Some v => match r with
                         | [] => Some [(ks, v)]
                         | KComma :: r' => option_map (cons (ks, v)) (sem_members g r')
                         | _ :: _ => None
                         end
             | None => None
             end
           else None
         | None => None
         end)).
    { destruct (key_of [k]) as [ks|] eqn:Hkk; [|apply Hnone; reflexivity].
      destruct t as [| | | v | v | | | l | l]; cbn [obj_munch is_value_tok]; try reflexivity.
      - rewrite Hft. destruct (g KNull) as [v|]; [|reflexivity]. rewrite Hentry by exact Hk. reflexivity.
      - rewrite Hft. destruct (g KTrue) as [v|]; [|reflexivity]. rewrite Hentry by exact Hk. reflexivity.
      - rewrite Hft. destruct (g KFalse) as [v|]; [|reflexivity]. rewrite Hentry by exact Hk. reflexivity.
      - rewrite g_expr. destruct r as [|t3 r'].
        + rewrite Hentry by exact Hk. reflexivity.
        + destruct t3; try reflexivity. rewrite Hentry by exact Hk. reflexivity.
      - rewrite g_paren. destruct r as [|t3 r'].
        + rewrite Hentry by exact Hk. reflexivity.
        + destruct t3; try reflexivity. rewrite Hentry by exact Hk. reflexivity.
      - rewrite Hft. destruct (g (KBrack l)) as [v|]; [|reflexivity]. rewrite Hentry by exact Hk. reflexivity.
      - rewrite Hft. destruct (g (KBrace l)) as [v|]; [|reflexivity]. rewrite Hentry by exact Hk. reflexivity. }
    destruct k; try exact Hmain; reflexivity.
  Qed.
End Obj.

(* ====================================================================== the macro against the reference reading *)
Lemma forallb_In : forall (A : Type) (p : A -> bool) l x, forallb p l = true -> In x l -> p x = true.
Proof. intros A p l x H Hin. rewrite forallb_forall in H. apply H. exact Hin. Qed.

Theorem expand1_sem1 : forall pres t, strict_tok t = true -> expand1 pres t = sem1 pres t.
Proof.
  intros pres t. induction t as [| | | v | v | | | l IH | l IH] using tok_ind'; intros Hs; try reflexivity.
  - (* [ ... ] *)
    cbn [strict_tok] in Hs. apply Bool.andb_true_iff in Hs. destruct Hs as [Hfirst Hall].
    destruct l as [|t0 l0]; [reflexivity|].
    change (expand1 pres (KBrack (t0 :: l0))) with (option_map VArr (arr_munch (expand1 pres) [] false (t0 :: l0))).
    change (sem1 pres (KBrack (t0 :: l0))) with (option_map VArr (sem_elems (sem1 pres) (t0 :: l0))).
    f_equal. apply arr_munch_strict.
    + reflexivity.
    + reflexivity.
    + destruct t0; try exact I. discriminate.
    + intros t Hin. apply IH; [exact Hin|]. eapply forallb_In; eassumption.
  - (* { ... } *)
    cbn [strict_tok] in Hs.
    destruct l as [|t0 l0]; [reflexivity|].
    change (expand1 pres (KBrace (t0 :: l0))) with (option_map VObj (obj_munch pres (expand1 pres) [] (OKey []) (t0 :: l0))).
    change (sem1 pres (KBrace (t0 :: l0)))
      with (option_map (fun es => VObj (map_of_entries pres es)) (sem_members (sem1 pres) (t0 :: l0))).
    rewrite (obj_munch_spec pres (expand1 pres) (sem1 pres)) with (n := length (t0 :: l0)).
    + destruct (sem_members (sem1 pres) (t0 :: l0)) as [es|]; reflexivity.
    + reflexivity.
    + reflexivity.
    + apply le_n.
    + intros t Hin. apply IH; [exact Hin|]. eapply forallb_In; eassumption.
Qed.

(* whatever the reference reading accepts contains no array that starts with a comma *)
Lemma sem_elems_toks : forall g n l vs, (length l <= n)%nat -> sem_elems g l = Some vs ->
  not_comma_first l /\ forall t, In t l -> t = KComma \/ exists v, g t = Some v.
Proof.
  intros g. induction n as [|n IH]; intros l vs Hlen Hsem.
  { destruct l; [|cbn [length] in Hlen; lia]. split; [exact I | intros t []]. }
  destruct l as [|t r]; [split; [exact I | intros t []]|].
  cbn [sem_elems] in Hsem. destruct (is_value_tok t) eqn:Hv; [|discriminate].
  destruct (g t) as [v|] eqn:Hg; [|discriminate].
  split; [destruct t; try exact I; discriminate|].
  destruct r as [|t2 r'].
  - intros t' [He|[]]. subst t'. right. exists v. exact Hg.
  - destruct t2; try discriminate.
    destruct (sem_elems g r') as [vs'|] eqn:Hr; [|discriminate].
    destruct (IH r' vs') as [_ Hall]; [cbn [length] in Hlen; lia | exact Hr |].
    intros t' [He|[He|Hin]].
    + subst t'. right. exists v. exact Hg.
    + subst t'. left. reflexivity.
    + apply Hall. exact Hin.
Qed.

Lemma sem_members_toks : forall g n l es, (length l <= n)%nat -> sem_members g l = Some es ->
  forall t, In t l -> t = KComma \/ t = KColon \/ (exists v, g t = Some v) \/ (exists v, t = KExpr v \/ t = KParen v).
Proof.
  intros g. induction n as [|n IH]; intros l es Hlen Hsem.
  { destruct l; [|cbn [length] in Hlen; lia]. intros t []. }
  destruct l as [|k rest]; [intros t []|].
  destruct rest as [|t2 l2]; [discriminate|].
  destruct t2; try discriminate.
  destruct l2 as [|tv r]; [discriminate|].
  cbn [sem_members] in Hsem.
  destruct (key_of [k]) as [ks|] eqn:Hk; [|discriminate].
  destruct (is_value_tok tv) eqn:Hv; [|discriminate].
  destruct (g tv) as [v|] eqn:Hg; [|discriminate].
  assert (Hkey : exists v0, k = KExpr v0 \/ k = KParen v0).
  { destruct k as [| | | v0 | v0 | | | l | l]; try discriminate; exists v0; [left|right]; reflexivity. }
  destruct r as [|t3 r'].
  - intros t' [He|[He|[He|[]]]]; subst t'.
    + right; right; right. exact Hkey.
    + right; left. reflexivity.
    + right; right; left. exists v. exact Hg.
  - destruct t3; try discriminate.
    destruct (sem_members g r') as [es'|] eqn:Hr; [|discriminate].
    pose proof (IH r' es') as Hall.
    intros t' [He|[He|[He|[He|Hin]]]]; try subst t'.
    + right; right; right. exact Hkey.
    + right; left. reflexivity.
    + right; right; left. exists v. exact Hg.
    + left. reflexivity.
    + apply Hall; [cbn [length] in Hlen; lia | exact Hr | exact Hin].
Qed.

Lemma forallb_intro : forall (A : Type) (p : A -> bool) l, (forall x, In x l -> p x = true) -> forallb p l = true.
Proof. intros A p l H. apply forallb_forall. exact H. Qed.

Theorem sem1_strict : forall pres t v, sem1 pres t = Some v -> strict_tok t = true.
Proof.
  intros pres t. induction t as [| | | v0 | v0 | | | l IH | l IH] using tok_ind'; intros v Hsem; try reflexivity.
  - cbn [sem1] in Hsem. destruct (sem_elems (sem1 pres) l) as [vs|] eqn:He; [|discriminate].
    destruct (sem_elems_toks (sem1 pres) (length l) l vs (le_n _) He) as [Hnc Hall].
    cbn [strict_tok]. apply Bool.andb_true_iff. split.
    + destruct l as [|t0 l0]; [reflexivity|]. destruct t0; try reflexivity. contradiction.
    + apply forallb_intro. intros t Hin. destruct (Hall t Hin) as [Hc|[v' Hv']]; [subst t; reflexivity|].
      eapply IH; eassumption.
  - cbn [sem1] in Hsem. destruct (sem_members (sem1 pres) l) as [es|] eqn:He; [|discriminate].
    pose proof (sem_members_toks (sem1 pres) (length l) l es (le_n _) He) as Hall.
    cbn [strict_tok]. apply forallb_intro. intros t Hin.
    destruct (Hall t Hin) as [Hc|[Hc|[[v' Hv']|[v' [Hc|Hc]]]]]; try (subst t; reflexivity).
    eapply IH; eassumption.
Qed.

(* json!(tokens) = the value of the equivalent JSON text, whenever no array of the token tree starts with a comma *)
Theorem macro_sound : forall pres ts v,
  forallb strict_tok ts = true -> expand pres ts = Some v -> sem pres ts = Some v.
Proof.
  intros pres ts v Hs He. unfold expand in He. unfold sem.
  destruct ts as [|t [|t2 r]]; try discriminate.
  cbn [forallb] in Hs. rewrite Bool.andb_true_r in Hs. rewrite <- expand1_sem1 by exact Hs. exact He.
Qed.

(* every token tree that reads as JSON (with optional trailing commas) compiles, to the value it denotes *)
Theorem macro_complete : forall pres ts v, sem pres ts = Some v -> expand pres ts = Some v.
Proof.
  intros pres ts v Hsem. unfold sem in Hsem. unfold expand.
  destruct ts as [|t [|t2 r]]; try discriminate.
  rewrite expand1_sem1; [exact Hsem|]. eapply sem1_strict. exact Hsem.
Qed.

(* the leniency itself: a leading comma in an array is accepted although no JSON text corresponds to it *)
Example macro_leading_comma :
  expand false [KBrack [KComma; KExpr (VNum (NPos 1))]] = Some (VArr [VNum (NPos 1)]) /\
  sem false [KBrack [KComma; KExpr (VNum (NPos 1))]] = None /\
  expand false [KBrack [KComma]] = Some (VArr []).
Proof. repeat split; reflexivity. Qed.

Print Assumptions macro_sound.
Print Assumptions macro_complete.
