(* Proofs/DeTokProps.v — the private-token branch of ValueVisitor::visit_map (Model/DeTok.v, finding F23) tied to Model/De.v.

   Results of Model/DeTok.v are [nres] (Model/NumberTarget.v: [res] plus an error positioned in ANOTHER text); the results of
   Model/De.v are embedded by [of_res] (injective: [of_res_inj]), so "the two models agree" reads
   [from_input_tok E raw_on input = of_res (from_input E input)].

   Part 1  parse_str_sim          Read::parse_str (every reader) looks at the remaining bytes only: two cursors over the same
                                  remaining bytes give the same decoded string / the same kind of failure.
   Part 2  no_token_doc           decidable, on the INPUT BYTES: no byte `{` of the text is followed by
                                  whitespace*, a quote, and a string literal that Read::parse_str decodes to an ENABLED private token.
                                  (It looks at every `{`, also one inside a string literal, so it is slightly stronger than
                                  "no object has the token as its first key"; it sees tokens spelled with \u escapes.)
   Part 4  detok_conservative     no feature: the two models agree on EVERY input (valid or not, any reader, any terminator);
                                  features on: they agree on every input satisfying no_token_doc.
                                  detok_c02_without_token: C02 (Denotes) transfers to the token-aware model on such inputs.
   Part 5  detok_number_token     w0 { w1 "<token>" w2 : w3 "<s>" tail   (any spelling of the two strings, any reader, any tail), under
                                  arbitrary_precision: the exact result in terms of Number::from_str on s; corollaries for `}` and for
                                  a further member; with Proofs/ApNumber.v: an RFC 8259 literal is kept verbatim.
   Part 6  Examples (vm_compute)  valid / -0 / 1x / empty / line breaks / non-string / second member / duplicate / later key /
                                  other token / nested / escaped key / default build; the RawValue token (valid, invalid, trailing,
                                  non-string, nested, second member).
           detok_refutes_c02      finding F23 as a theorem: a text whose RFC 8259 denotation is an OBJECT (which Model/De.v returns)
                                  while the real visitor returns a NUMBER.
           detok_conservative_needs_hypothesis   the same text refutes detok_conservative without its hypothesis.

   Axioms: parse_str_sim is closed under the global context.  Every statement that mentions from_input / from_input_tok shows the
   four Reals axioms, because the DEFINITIONS of the number model (Flocq's binary64 operations) carry them
   (`Print Assumptions from_input` lists the same four). *)
From SJ Require Import Base.Bytes Base.Utf8 Base.FloatB Gen.Tables
  Model.Read Model.Str Model.Num Model.Value Model.De Model.NumberM Model.Ty Model.DeTyped Model.ValueDe Model.NumberTarget
  Model.RawM Model.RawDe Model.DeTok Spec.Syntax Spec.Denote Proofs.Total Proofs.RawNested Proofs.ApNumber Proofs.GrammarFinal.
From Coq Require Import Lia ZifyBool ZifyNat ZifyN.
Open Scope N_scope.

(* ================================================================== *)
(** * Part 1 — Read::parse_str looks at the remaining bytes only *)
Definition ssim (s s' : st) : Prop := rest s = rest s'.

Definition rsim {A} (R : A -> A -> Prop) (r r' : res A) : Prop :=
  match r, r' with
  | Ok a, Ok a' => R a a'
  | Err _ _, Err _ _ => True
  | OutOfFuel, OutOfFuel => True
  | Panic, Panic => True
  | _, _ => False
  end.

Definition psim {A} (p p' : A * st) : Prop := fst p = fst p' /\ ssim (snd p) (snd p').

Lemma rsim_bind {A B} (R : A -> A -> Prop) (Q : B -> B -> Prop) (r r' : res A) (f f' : A -> res B) :
  rsim R r r' -> (forall a a', R a a' -> rsim Q (f a) (f' a')) -> rsim Q (bind r f) (bind r' f').
Proof.
  intros Hr Hf. destruct r as [a|c i| |], r' as [a'|c' i'| |]; cbn [rsim bind] in *; try contradiction; auto.
Qed.

Lemma rsim_refl_ok {A} (R : A -> A -> Prop) (a a' : A) : R a a' -> rsim R (Ok a) (Ok a').
Proof. intros H. exact H. Qed.

Lemma ssim_discard s s' : ssim s s' -> ssim (discard s) (discard s').
Proof. unfold ssim, discard. cbn [rest]. intros ->. reflexivity. Qed.

Lemma ssim_advance n s s' : ssim s s' -> ssim (advance n s) (advance n s').
Proof. unfold ssim, advance. cbn [rest]. intros ->. reflexivity. Qed.

Lemma at_end_sim {A} (R : A -> A -> Prop) E (k k' : res A) : rsim R k k' -> rsim R (at_end E k) (at_end E k').
Proof. unfold at_end. destruct (tm E); [auto|]. intros _. exact I. Qed.

Lemma peek_sim E s s' : ssim s s' -> rsim psim (peek E s) (peek E s').
Proof.
  unfold ssim, peek. intros H. rewrite H. destruct (rest s') as [|b r].
  - apply at_end_sim. cbn [rsim]. split; reflexivity.
  - cbn [rsim]. split; [reflexivity|]. unfold ssim. cbn [snd rest]. reflexivity.
Qed.

Lemma next_sim E s s' : ssim s s' -> rsim psim (next E s) (next E s').
Proof.
  unfold ssim, next. intros H. rewrite H. destruct (rest s') as [|b r].
  - apply at_end_sim. cbn [rsim]. split; reflexivity.
  - cbn [rsim]. split; reflexivity.
Qed.

Lemma next_or_eof_sim E s s' : ssim s s' -> rsim psim (next_or_eof E s) (next_or_eof E s').
Proof.
  intros H. unfold next_or_eof. eapply rsim_bind; [apply next_sim; exact H|].
  intros [o t] [o' t'] [Ho Ht]. cbn [fst snd] in Ho, Ht. subst o'.
  destruct o as [b|]; [|exact I]. split; [reflexivity|exact Ht].
Qed.

Lemma peek_or_eof_sim E s s' : ssim s s' -> rsim psim (peek_or_eof E s) (peek_or_eof E s').
Proof.
  intros H. unfold peek_or_eof. eapply rsim_bind; [apply peek_sim; exact H|].
  intros [o t] [o' t'] [Ho Ht]. cbn [fst snd] in Ho, Ht. subst o'.
  destruct o as [b|]; [|exact I]. split; [reflexivity|exact Ht].
Qed.

Lemma decode_hex_escape_sim E s s' : ssim s s' -> rsim psim (decode_hex_escape E s) (decode_hex_escape E s').
Proof.
  intros H. unfold decode_hex_escape. destruct (is_io E).
  - eapply rsim_bind; [apply next_or_eof_sim; exact H|]. intros [a t1] [a' t1'] [Ha H1]. cbn [fst snd] in Ha, H1. subst a'.
    eapply rsim_bind; [apply next_or_eof_sim; exact H1|]. intros [b t2] [b' t2'] [Hb H2]. cbn [fst snd] in Hb, H2. subst b'.
    eapply rsim_bind; [apply next_or_eof_sim; exact H2|]. intros [c t3] [c' t3'] [Hc H3]. cbn [fst snd] in Hc, H3. subst c'.
    eapply rsim_bind; [apply next_or_eof_sim; exact H3|]. intros [d t4] [d' t4'] [Hd H4]. cbn [fst snd] in Hd, H4. subst d'.
    destruct (decode_four_hex a b c d); [|exact I]. split; [reflexivity|exact H4].
  - pose proof H as Hr. unfold ssim in Hr. rewrite Hr.
    destruct (rest s') as [|a [|b [|c [|d r]]]]; try exact I.
    destruct (decode_four_hex a b c d); [|exact I]. split; [reflexivity|]. cbn [snd]. apply ssim_advance. exact H.
Qed.

Lemma parse_escape_nonu_sim E s s' : ssim s s' -> rsim psim (parse_escape_nonu E s) (parse_escape_nonu E s').
Proof.
  intros H. unfold parse_escape_nonu. eapply rsim_bind; [apply next_or_eof_sim; exact H|].
  intros [ch t] [ch' t'] [Hc Ht]. cbn [fst snd] in Hc, Ht. subst ch'.
  destruct (escape_simple ch); [|exact I]. split; [reflexivity|exact Ht].
Qed.

Lemma push_bind_sim {B} (Q : B -> B -> Prop) n (f f' : bytes -> res B) :
  (forall w, rsim Q (f w) (f' w)) -> rsim Q (bind (push_wtf8 n) f) (bind (push_wtf8 n) f').
Proof. intros Hf. destruct (push_wtf8 n) as [w|c i| |]; cbn [bind rsim]; auto. Qed.

Lemma unicode_loop_sim E validate : forall fuel n s s', ssim s s' ->
  rsim psim (unicode_loop fuel E validate n s) (unicode_loop fuel E validate n s').
Proof.
  induction fuel as [|f IH]; intros n s s' H; [exact I|].
  cbn [unicode_loop].
  destruct ((n <? 55296) || (56319 <? n)).
  { apply push_bind_sim. intros w. split; [reflexivity|exact H]. }
  eapply rsim_bind; [apply peek_or_eof_sim; exact H|]. intros [b t1] [b' t1'] [Hb H1]. cbn [fst snd] in Hb, H1. subst b'.
  destruct (b =? 92).
  - eapply rsim_bind; [apply peek_or_eof_sim, ssim_discard; exact H1|].
    intros [b2 t3] [b2' t3'] [Hb2 H3]. cbn [fst snd] in Hb2, H3. subst b2'.
    destruct (b2 =? 117).
    + eapply rsim_bind; [apply decode_hex_escape_sim, ssim_discard; exact H3|].
      intros [n2 t5] [n2' t5'] [Hn2 H5]. cbn [fst snd] in Hn2, H5. subst n2'.
      destruct ((n2 <? 56320) || (57343 <? n2)).
      * destruct validate; [exact I|]. apply push_bind_sim. intros w.
        eapply rsim_bind; [apply IH; exact H5|]. intros [w1 t6] [w1' t6'] [Hw H6]. cbn [fst snd] in Hw, H6. subst w1'.
        split; [reflexivity|exact H6].
      * apply push_bind_sim. intros w. split; [reflexivity|exact H5].
    + destruct validate; [exact I|]. apply push_bind_sim. intros w.
      eapply rsim_bind; [apply parse_escape_nonu_sim; exact H3|]. intros [w1 t4] [w1' t4'] [Hw H4]. cbn [fst snd] in Hw, H4. subst w1'.
      split; [reflexivity|exact H4].
  - destruct validate; [exact I|]. apply push_bind_sim. intros w. split; [reflexivity|exact H1].
Qed.

Lemma parse_unicode_escape_sim E validate fuel s s' : ssim s s' ->
  rsim psim (parse_unicode_escape fuel E validate s) (parse_unicode_escape fuel E validate s').
Proof.
  intros H. unfold parse_unicode_escape. eapply rsim_bind; [apply decode_hex_escape_sim; exact H|].
  intros [n t1] [n' t1'] [Hn H1]. cbn [fst snd] in Hn, H1. subst n'.
  destruct (validate && (56320 <=? n) && (n <=? 57343)); [exact I|]. apply unicode_loop_sim. exact H1.
Qed.

Lemma parse_escape_sim E validate fuel s s' : ssim s s' ->
  rsim psim (parse_escape fuel E validate s) (parse_escape fuel E validate s').
Proof.
  intros H. unfold parse_escape. eapply rsim_bind; [apply next_or_eof_sim; exact H|].
  intros [ch t] [ch' t'] [Hc Ht]. cbn [fst snd] in Hc, Ht. subst ch'.
  destruct (ch =? 117); [apply parse_unicode_escape_sim; exact Ht|].
  destruct (escape_simple ch); [|exact I]. split; [reflexivity|exact Ht].
Qed.

Lemma io_str_loop_sim E validate : forall fuel s s', ssim s s' ->
  rsim psim (io_str_loop fuel E validate s) (io_str_loop fuel E validate s').
Proof.
  induction fuel as [|f IH]; intros s s' H; [exact I|].
  cbn [io_str_loop]. eapply rsim_bind; [apply next_or_eof_sim; exact H|].
  intros [ch t1] [ch' t1'] [Hc H1]. cbn [fst snd] in Hc, H1. subst ch'.
  destruct (negb (is_escape ch true)).
  { eapply rsim_bind; [apply IH; exact H1|]. intros [o t2] [o' t2'] [Ho H2]. cbn [fst snd] in Ho, H2. subst o'.
    split; [reflexivity|exact H2]. }
  destruct (ch =? 34). { split; [reflexivity|exact H1]. }
  destruct (ch =? 92).
  { eapply rsim_bind; [apply parse_escape_sim; exact H1|]. intros [w t2] [w' t2'] [Hw H2]. cbn [fst snd] in Hw, H2. subst w'.
    eapply rsim_bind; [apply IH; exact H2|]. intros [o t3] [o' t3'] [Ho H3]. cbn [fst snd] in Ho, H3. subst o'.
    split; [reflexivity|exact H3]. }
  destruct validate; [exact I|].
  eapply rsim_bind; [apply IH; exact H1|]. intros [o t2] [o' t2'] [Ho H2]. cbn [fst snd] in Ho, H2. subst o'.
  split; [reflexivity|exact H2].
Qed.

Lemma slice_str_loop_sim E validate : forall fuel s s', ssim s s' ->
  rsim psim (slice_str_loop fuel E validate s) (slice_str_loop fuel E validate s').
Proof.
  induction fuel as [|f IH]; intros s s' H; [exact I|].
  cbn [slice_str_loop]. pose proof H as Hr. unfold ssim in Hr. rewrite Hr.
  set (n := esc_span validate (rest s')).
  assert (H1 : ssim (advance n s) (advance n s')) by (apply ssim_advance; exact H).
  pose proof H1 as Hr1. unfold ssim in Hr1. rewrite Hr1.
  destruct (rest (advance n s')) as [|b r]; [exact I|].
  destruct (b =? 34). { split; [reflexivity|]. cbn [snd]. apply ssim_advance. exact H1. }
  destruct (b =? 92); [|exact I].
  eapply rsim_bind; [apply parse_escape_sim, ssim_advance; exact H1|].
  intros [w t2] [w' t2'] [Hw H2]. cbn [fst snd] in Hw, H2. subst w'.
  eapply rsim_bind; [apply IH; exact H2|]. intros [[o c] t3] [[o' c'] t3'] [Ho H3]. cbn [fst snd] in Ho, H3.
  injection Ho as -> ->. split; [reflexivity|exact H3].
Qed.

Theorem parse_str_sim E s s' : ssim s s' -> rsim psim (parse_str E s) (parse_str E s').
Proof.
  intros H. unfold parse_str. assert (Hf : str_fuel s = str_fuel s') by (unfold str_fuel; rewrite H; reflexivity).
  rewrite Hf. destruct (rk E).
  - eapply rsim_bind; [apply slice_str_loop_sim; exact H|]. intros [[o c] t] [[o' c'] t'] [Ho Ht]. cbn [fst snd] in Ho, Ht.
    injection Ho as -> ->. destruct (utf8_valid o'); [|exact I]. split; [reflexivity|exact Ht].
  - eapply rsim_bind; [apply slice_str_loop_sim; exact H|]. intros [[o c] t] [[o' c'] t'] [Ho Ht]. cbn [fst snd] in Ho, Ht.
    injection Ho as -> ->. split; [reflexivity|exact Ht].
  - eapply rsim_bind; [apply io_str_loop_sim; exact H|]. intros [o t] [o' t'] [Ho Ht]. cbn [fst snd] in Ho, Ht.
    subst o'. destruct (utf8_valid o); [|exact I]. split; [reflexivity|exact Ht].
Qed.

(* the form used below *)
Corollary parse_str_key_indep E s s' k bw t : rest s = rest s' -> parse_str E s = Ok (k, bw, t) ->
  exists bw' t', parse_str E s' = Ok (k, bw', t').
Proof.
  intros Hr Hp. pose proof (parse_str_sim E s s' Hr) as H. rewrite Hp in H.
  destruct (parse_str E s') as [[[k' bw'] t']|c i| |]; cbn [rsim] in H; try contradiction.
  destruct H as [Hk _]. cbn [fst] in Hk. injection Hk as <- <-. eauto.
Qed.

(* ================================================================== *)
(** * Part 2 — the predicate *)
Definition is_token (cf : cfg) (raw_on : bool) (k : bytes) : bool :=
  match key_class cf raw_on k with KMap => false | _ => true end.

(* [r]: the bytes that follow a `{`.  The key the parser would read there: skip whitespace, and if a quote follows, Read::parse_str *)
Definition first_key (E : env) (r : bytes) : option bytes :=
  match skipn (span_len is_ws r) r with
  | 34 :: r' => match parse_str E (mkSt r' 0 false 0) with Ok (k, _, _) => Some k | _ => None end
  | _ => None
  end.

Definition brace_ok (E : env) (raw_on : bool) (r : bytes) : bool :=
  match first_key E r with Some k => negb (is_token (cf E) raw_on k) | None => true end.

(* every byte `{` of the text (inside or outside a string literal) is followed by something else than
   whitespace* "<a string literal whose contents are an enabled private token>" *)
Fixpoint no_token_bytes (E : env) (raw_on : bool) (l : bytes) : bool :=
  match l with
  | [] => true
  | b :: r => (if b =? 123 then brace_ok E raw_on r else true) && no_token_bytes E raw_on r
  end.

Definition no_token_doc (E : env) (raw_on : bool) (input : bytes) : bool := no_token_bytes E raw_on input.

Lemma is_token_off cf k : arbitrary_precision cf = false -> is_token cf false k = false.
Proof. intros H. unfold is_token, key_class. rewrite H. reflexivity. Qed.

Lemma no_token_bytes_off E l : arbitrary_precision (cf E) = false -> no_token_bytes E false l = true.
Proof.
  intros H. induction l as [|b r IH]; [reflexivity|]. cbn [no_token_bytes]. rewrite IH, andb_true_r.
  destruct (b =? 123); [|reflexivity]. unfold brace_ok. destruct (first_key E r) as [k|]; [|reflexivity].
  rewrite (is_token_off _ k H). reflexivity.
Qed.

Lemma no_token_bytes_app E rv pre l : no_token_bytes E rv (pre ++ l) = true -> no_token_bytes E rv l = true.
Proof.
  induction pre as [|b pre IH]; [auto|]. cbn [app no_token_bytes]. intros H. apply andb_true_iff in H. apply IH, H.
Qed.

Lemma ntb_adv E rv n s s' : adv n s s' -> no_token_bytes E rv (rest s) = true -> no_token_bytes E rv (rest s') = true.
Proof. intros (pre & Hr & _) H. rewrite Hr in H. eapply no_token_bytes_app. exact H. Qed.

Lemma ntb_advd E rv n s s' : advd n s s' -> no_token_bytes E rv (rest s) = true -> no_token_bytes E rv (rest s') = true.
Proof. intros [H _]. eapply ntb_adv. exact H. Qed.

Lemma ntb_brace E rv r : no_token_bytes E rv (123 :: r) = true -> brace_ok E rv r = true /\ no_token_bytes E rv r = true.
Proof. cbn [no_token_bytes]. change (123 =? 123) with true. cbv iota. intros H. apply andb_true_iff in H. exact H. Qed.

(* ================================================================== *)
(** * Part 3 — [nres] plumbing *)
Lemma of_res_bind {A B} (r : res A) (f : A -> res B) : of_res (bind r f) = nbind (of_res r) (fun a => of_res (f a)).
Proof. destruct r; reflexivity. Qed.

Lemma nfix_of_res {A} E (r : res A) : nfix E (of_res r) = of_res r.
Proof. destruct r; reflexivity. Qed.

Lemma pw_some E s b s1 : parse_whitespace E s = Ok (Some b, s1) ->
  rest s1 = skipn (span_len is_ws (rest s)) (rest s) /\ exists r, rest s1 = b :: r.
Proof.
  unfold parse_whitespace, peek. cbn [advance rest].
  destruct (skipn (span_len is_ws (rest s)) (rest s)) as [|b' r] eqn:Hs.
  - unfold at_end. destruct (tm E); discriminate.
  - intros H. injection H as <- <-. cbn [rest]. split; [reflexivity|eauto].
Qed.

Lemma pw_adv E s o s1 : parse_whitespace E s = Ok (o, s1) -> advd 0 s s1.
Proof. intros H. pose proof (parse_whitespace_tot E s) as Ht. rewrite H in Ht. exact (proj1 Ht). Qed.

Lemma enter_rest E s s2 : enter E s = Ok s2 -> rest s2 = rest s.
Proof.
  unfold enter. destruct (limit_disabled (cf E)); [intros H; injection H as <-; reflexivity|].
  destruct (depth s =? 0); [discriminate|]. cbn [depth].
  destruct (depth s - 1 =? 0); [discriminate|]. intros H. injection H as <-. reflexivity.
Qed.

Lemma parse_value_tok_S f E rv s : parse_value_tok (S f) E rv s =
    let% (o, s1) := of_res (parse_whitespace E s) in
    match o with
    | None => of_res (peek_error E s1 EofWhileParsingValue)
    | Some b =>
      if b =? 110 then let% s2 := of_res (parse_ident E lit_ull (discard s1)) in NOk (VNull, s2)
      else if b =? 116 then let% s2 := of_res (parse_ident E lit_rue (discard s1)) in NOk (VBool true, s2)
      else if b =? 102 then let% s2 := of_res (parse_ident E lit_alse (discard s1)) in NOk (VBool false, s2)
      else if b =? 45 then
        let% (p, s2) := of_res (parse_any_number E false (discard s1)) in NOk (visit_number_cfg E p, s2)
      else if is_digit b then
        let% (p, s2) := of_res (parse_any_number E true s1) in NOk (visit_number_cfg E p, s2)
      else if b =? 34 then
        let% (str, _, s2) := of_res (parse_str E (discard s1)) in NOk (VStr str, s2)
      else if b =? 91 then
        let% s2 := of_res (enter E s1) in
        let% (vs, s3) := parse_seq_tok f E rv true (discard s2) in
        let% s4 := of_res (leave E s3) in
        let% s5 := of_res (end_seq E s4) in
        NOk (VArr vs, s5)
      else if b =? 123 then nfix E (nframe E end_map end_map_st (parse_obj_tok f E rv) s1)
      else of_res (peek_error E s1 ExpectedSomeValue)
    end.
Proof. reflexivity. Qed.

Lemma parse_seq_tok_S f E rv first s : parse_seq_tok (S f) E rv first s =
    let% o := of_res (has_next_element E first s) in
    match o with
    | None => NOk ([], s)
    | Some s1 =>
      let% (v, s2) := parse_value_tok f E rv s1 in
      let% (vs, s3) := parse_seq_tok f E rv false s2 in
      NOk (v :: vs, s3)
    end.
Proof. reflexivity. Qed.

Lemma parse_obj_tok_S f E rv s : parse_obj_tok (S f) E rv s =
    let% o := of_res (has_next_key E true s) in
    match o with
    | None => NOk (VObj (map_of_entries (preserve_order (cf E)) []), s)
    | Some s1 =>
      let% (k, _, s2) := of_res (parse_str E (discard s1)) in
      match key_class (cf E) rv k with
      | KNumber =>
        let% s3 := of_res (parse_object_colon E s2) in
        let% (n, s4) := nfs_text E s3 in
        NOk (VNum n, s4)
      | KRaw =>
        let% s3 := of_res (parse_object_colon E s2) in
        let% (text, s4) := boxed_from_string_text E s3 in
        let Ei := raw_env (cf E) in
        custom_of_from_str text s4
          (let% (v, t1) := parse_value_tok f Ei rv (init_st text) in
           let% _ := of_res (de_end Ei t1) in
           NOk v)
      | KMap =>
        let% s3 := of_res (parse_object_colon E s2) in
        let% (v, s4) := parse_value_tok f E rv s3 in
        let% (es, s5) := parse_map_tok f E rv false s4 in
        NOk (VObj (map_of_entries (preserve_order (cf E)) ((k, v) :: es)), s5)
      end
    end.
Proof. reflexivity. Qed.

Lemma parse_map_tok_S f E rv first s : parse_map_tok (S f) E rv first s =
    let% o := of_res (has_next_key E first s) in
    match o with
    | None => NOk ([], s)
    | Some s1 =>
      let% (k, _, s2) := of_res (parse_str E (discard s1)) in
      let% s3 := of_res (parse_object_colon E s2) in
      let% (v, s4) := parse_value_tok f E rv s3 in
      let% (es, s5) := parse_map_tok f E rv false s4 in
      NOk ((k, v) :: es, s5)
    end.
Proof. reflexivity. Qed.

(* has_next_key with first = true: where the key starts *)
Lemma hnk_first E s s1 : has_next_key E true s = Ok (Some s1) ->
  exists r', skipn (span_len is_ws (rest s)) (rest s) = 34 :: r' /\ rest (discard s1) = r'.
Proof.
  unfold has_next_key. destruct (parse_whitespace E s) as [[o t]|c i| |] eqn:Hw; cbn [bind]; try discriminate.
  destruct o as [b|]; [|discriminate]. destruct (b =? 125); [discriminate|].
  destruct (b =? 34) eqn:Hb; [|discriminate]. intros H. injection H as <-.
  apply pw_some in Hw. destruct Hw as [Hr (r & Hr')]. assert (b = 34) by lia. subst b.
  exists r. rewrite <- Hr. split; [exact Hr'|]. unfold discard. cbn [rest]. rewrite Hr'. reflexivity.
Qed.

Lemma brace_key_class E rv s s1 k bw s2 : brace_ok E rv (rest s) = true ->
  has_next_key E true s = Ok (Some s1) -> parse_str E (discard s1) = Ok (k, bw, s2) -> key_class (cf E) rv k = KMap.
Proof.
  intros Hb Hk Hp. destruct (hnk_first E s s1 Hk) as (r' & Hs & Hd).
  unfold brace_ok, first_key in Hb. rewrite Hs in Hb.
  destruct (parse_str_key_indep E (discard s1) (mkSt r' 0 false 0) k bw s2) as (bw' & t' & Hp'); [exact Hd|exact Hp|].
  rewrite Hp' in Hb. unfold is_token in Hb. destruct (key_class (cf E) rv k); [discriminate|discriminate|reflexivity].
Qed.

(* ================================================================== *)
(** * Part 4 — conservativity *)
Section Conservative.
Variables (E : env) (rv : bool).
Notation ntb l := (no_token_bytes E rv l = true).

Lemma ntb_tl l : ntb l -> ntb (tl l).
Proof. destruct l as [|b r]; [auto|]. cbn [tl]. apply (no_token_bytes_app E rv [b] r). Qed.

Lemma ntb_discard s : ntb (rest s) -> ntb (rest (discard s)).
Proof. unfold discard. cbn [rest]. apply ntb_tl. Qed.

Lemma ntb_pw s o s1 : parse_whitespace E s = Ok (o, s1) -> ntb (rest s) -> ntb (rest s1).
Proof. intros H. eapply ntb_advd, pw_adv, H. Qed.

Lemma ntb_hne first s s1 : has_next_element E first s = Ok (Some s1) -> ntb (rest s) -> ntb (rest s1).
Proof.
  intros H. pose proof (has_next_element_tot E first s) as Ht. rewrite H in Ht. destruct Ht as [Ha _].
  eapply ntb_advd, Ha.
Qed.

Lemma ntb_hnk first s s1 : has_next_key E first s = Ok (Some s1) -> ntb (rest s) -> ntb (rest (discard s1)).
Proof.
  intros H Hn. pose proof (has_next_key_tot E first s) as Ht. rewrite H in Ht. destruct Ht as [Ha _].
  apply ntb_discard. eapply ntb_advd; [exact Ha|exact Hn].
Qed.

Lemma ntb_pstr s k bw s2 : parse_str E s = Ok (k, bw, s2) -> ntb (rest s) -> ntb (rest s2).
Proof. intros H. pose proof (parse_str_tot E s) as Ht. rewrite H in Ht. eapply ntb_advd, Ht. Qed.

Lemma ntb_colon s s3 : parse_object_colon E s = Ok s3 -> ntb (rest s) -> ntb (rest s3).
Proof. intros H. pose proof (parse_object_colon_tot E s) as Ht. rewrite H in Ht. eapply ntb_advd, Ht. Qed.

Lemma ntb_pv f s v s2 : parse_value f E s = Ok (v, s2) -> ntb (rest s) -> ntb (rest s2).
Proof. intros H. eapply ntb_advd, parse_value_ok_advd, H. Qed.

Definition obj_of (r : res (list (bytes * value) * st)) : res (value * st) :=
  let* (es, s') := r in Ok (VObj (map_of_entries (preserve_order (cf E)) es), s').

Lemma cons_main : forall fuel,
  (forall s, ntb (rest s) -> parse_value_tok fuel E rv s = of_res (parse_value fuel E s)) /\
  (forall first s, ntb (rest s) -> parse_seq_tok fuel E rv first s = of_res (parse_seq fuel E first s)) /\
  (forall s, brace_ok E rv (rest s) = true -> ntb (rest s) ->
             parse_obj_tok fuel E rv s = of_res (obj_of (parse_map fuel E true s))) /\
  (forall first s, ntb (rest s) -> parse_map_tok fuel E rv first s = of_res (parse_map fuel E first s)).
Proof.
  induction fuel as [|f IH]; [split; [|split; [|split]]; reflexivity|].
  destruct IH as (IHv & IHs & IHo & IHm). split; [|split; [|split]].
  - (* parse_value_tok *)
    intros s Hn. rewrite parse_value_tok_S, parse_value_S.
    destruct (parse_whitespace E s) as [[o s1]|c i| |] eqn:Hw; cbn [bind of_res nbind]; try reflexivity.
    destruct o as [b|]; [|reflexivity].
    pose proof (ntb_pw _ _ _ Hw Hn) as Hn1.
    destruct (b =? 110). { destruct (parse_ident E lit_ull (discard s1)); reflexivity. }
    destruct (b =? 116). { destruct (parse_ident E lit_rue (discard s1)); reflexivity. }
    destruct (b =? 102). { destruct (parse_ident E lit_alse (discard s1)); reflexivity. }
    destruct (b =? 45). { destruct (parse_any_number E false (discard s1)) as [[p s2]|c i| |]; reflexivity. }
    destruct (is_digit b). { destruct (parse_any_number E true s1) as [[p s2]|c i| |]; reflexivity. }
    destruct (b =? 34). { destruct (parse_str E (discard s1)) as [[[str bw] s2]|c i| |]; reflexivity. }
    destruct (b =? 91).
    { destruct (enter E s1) as [s2|c i| |] eqn:He; cbn [bind of_res nbind]; try reflexivity.
      rewrite IHs by (apply ntb_discard; rewrite (enter_rest _ _ _ He); exact Hn1).
      destruct (parse_seq f E true (discard s2)) as [[vs s3]|c i| |]; cbn [bind of_res nbind]; try reflexivity.
      destruct (leave E s3) as [s4|c i| |]; cbn [bind of_res nbind]; try reflexivity.
      destruct (end_seq E s4) as [s5|c i| |]; reflexivity. }
    destruct (b =? 123) eqn:Hb; [|reflexivity].
    assert (b = 123) by lia. subst b.
    destruct (pw_some _ _ _ _ Hw) as [_ (r & Hr)].
    rewrite Hr in Hn1. apply ntb_brace in Hn1. destruct Hn1 as [Hbr Hnr].
    unfold nframe.
    destruct (enter E s1) as [s2|c i| |] eqn:He; cbn [bind of_res nbind nfix]; try reflexivity.
    assert (Hd : rest (discard s2) = r).
    { unfold discard. cbn [rest]. rewrite (enter_rest _ _ _ He), Hr. reflexivity. }
    rewrite IHo by (rewrite Hd; assumption).
    destruct (parse_map f E true (discard s2)) as [[es s3]|c i| |]; cbn [obj_of bind of_res nbind nfix]; try reflexivity.
    destruct (leave E s3) as [s4|c i| |]; cbn [bind of_res nbind nfix]; try reflexivity.
    destruct (end_map E s4) as [s5|c i| |]; reflexivity.
  - (* parse_seq_tok *)
    intros first s Hn. rewrite parse_seq_tok_S, parse_seq_S.
    destruct (has_next_element E first s) as [[s1|]|c i| |] eqn:Hh; cbn [bind of_res nbind]; try reflexivity.
    pose proof (ntb_hne _ _ _ Hh Hn) as Hn1. rewrite IHv by exact Hn1.
    destruct (parse_value f E s1) as [[v s2]|c i| |] eqn:Hv; cbn [bind of_res nbind]; try reflexivity.
    rewrite IHs by (eapply ntb_pv; eassumption).
    destruct (parse_seq f E false s2) as [[vs s3]|c i| |]; reflexivity.
  - (* parse_obj_tok *)
    intros s Hbr Hn. rewrite parse_obj_tok_S, parse_map_S. unfold obj_of.
    destruct (has_next_key E true s) as [[s1|]|c i| |] eqn:Hk; cbn [bind of_res nbind]; try reflexivity.
    pose proof (ntb_hnk _ _ _ Hk Hn) as Hn1.
    destruct (parse_str E (discard s1)) as [[[k bw] s2]|c i| |] eqn:Hp; cbn [bind of_res nbind]; try reflexivity.
    rewrite (brace_key_class E rv s s1 k bw s2 Hbr Hk Hp).
    pose proof (ntb_pstr _ _ _ _ Hp Hn1) as Hn2.
    destruct (parse_object_colon E s2) as [s3|c i| |] eqn:Hc; cbn [bind of_res nbind]; try reflexivity.
    pose proof (ntb_colon _ _ Hc Hn2) as Hn3. rewrite IHv by exact Hn3.
    destruct (parse_value f E s3) as [[v s4]|c i| |] eqn:Hv; cbn [bind of_res nbind]; try reflexivity.
    rewrite IHm by (eapply ntb_pv; eassumption).
    destruct (parse_map f E false s4) as [[es s5]|c i| |]; reflexivity.
  - (* parse_map_tok *)
    intros first s Hn. rewrite parse_map_tok_S, parse_map_S.
    destruct (has_next_key E first s) as [[s1|]|c i| |] eqn:Hk; cbn [bind of_res nbind]; try reflexivity.
    pose proof (ntb_hnk _ _ _ Hk Hn) as Hn1.
    destruct (parse_str E (discard s1)) as [[[k bw] s2]|c i| |] eqn:Hp; cbn [bind of_res nbind]; try reflexivity.
    pose proof (ntb_pstr _ _ _ _ Hp Hn1) as Hn2.
    destruct (parse_object_colon E s2) as [s3|c i| |] eqn:Hc; cbn [bind of_res nbind]; try reflexivity.
    pose proof (ntb_colon _ _ Hc Hn2) as Hn3. rewrite IHv by exact Hn3.
    destruct (parse_value f E s3) as [[v s4]|c i| |] eqn:Hv; cbn [bind of_res nbind]; try reflexivity.
    rewrite IHm by (eapply ntb_pv; eassumption).
    destruct (parse_map f E false s4) as [[es s5]|c i| |]; reflexivity.
Qed.

Lemma from_input_tok_conservative input : ntb input -> from_input_tok E rv input = of_res (from_input E input).
Proof.
  intros Hn. unfold from_input_tok, from_input.
  rewrite (proj1 (cons_main (value_fuel input)) (init_st input) Hn).
  destruct (parse_value (value_fuel input) E (init_st input)) as [[v s1]|c i| |]; cbn [bind of_res nbind]; try reflexivity.
  destruct (de_end E s1) as [s2|c i| |]; reflexivity.
Qed.
End Conservative.

(** ** detok_conservative *)
(* no feature: every input.  Features on: every input in which no `{` is followed by an enabled token as a key. *)
Theorem detok_conservative :
  (forall E input, arbitrary_precision (cf E) = false -> from_input_tok E false input = of_res (from_input E input)) /\
  (forall E raw_on input, no_token_doc E raw_on input = true -> from_input_tok E raw_on input = of_res (from_input E input)).
Proof.
  split.
  - intros E input Hap. apply from_input_tok_conservative. apply no_token_bytes_off. exact Hap.
  - intros E raw_on input H. apply from_input_tok_conservative. exact H.
Qed.

Lemma of_res_inj {A} (r r' : res A) : of_res r = of_res r' -> r = r'.
Proof. destruct r, r'; cbn [of_res]; intros H; try discriminate H; try reflexivity; injection H; intros; subst; reflexivity. Qed.

(* the same, as the line / column the caller sees *)
Corollary detok_conservative_v E raw_on input : no_token_doc E raw_on input = true ->
  from_input_tok_v E raw_on input = vres_of_res input (from_input E input).
Proof.
  intros H. unfold from_input_tok_v. rewrite (proj2 detok_conservative E raw_on input H).
  destruct (from_input E input); reflexivity.
Qed.

(* ================================================================== *)
(** * Part 5 — the Number token at top level *)
Lemma span_ws_app w b r : forallb is_ws w = true -> is_ws b = false -> span_len is_ws (w ++ b :: r) = length w.
Proof.
  induction w as [|a w IH]; intros Hw Hb.
  - cbn [app span_len length]. rewrite Hb. reflexivity.
  - cbn [forallb] in Hw. apply andb_true_iff in Hw. destruct Hw as [Ha Hw].
    cbn [app span_len length]. rewrite Ha, (IH Hw Hb). reflexivity.
Qed.

Lemma skipn_len_app {A} (w r : list A) : skipn (length w) (w ++ r) = r.
Proof. induction w as [|a w IH]; [reflexivity|]. cbn [length app skipn]. exact IH. Qed.

Lemma pw_skip E w b r o p d : tm E = TEof -> forallb is_ws w = true -> is_ws b = false ->
  parse_whitespace E (mkSt (w ++ b :: r) o p d) = Ok (Some b, mkSt (b :: r) (o + length w) true d).
Proof.
  intros _ Hw Hb. unfold parse_whitespace, advance, peek. cbn [rest off depth].
  rewrite (span_ws_app w b r Hw Hb), skipn_len_app. reflexivity.
Qed.

Lemma pv_tok_brace f E rv s s1 : parse_whitespace E s = Ok (Some 123, s1) ->
  parse_value_tok (S f) E rv s = nfix E (nframe E end_map end_map_st (parse_obj_tok f E rv) s1).
Proof. intros H. rewrite parse_value_tok_S, H. reflexivity. Qed.

Lemma hnk_first_quote E w r o p d : tm E = TEof -> forallb is_ws w = true ->
  has_next_key E true (mkSt (w ++ 34 :: r) o p d) = Ok (Some (mkSt (34 :: r) (o + length w) true d)).
Proof. intros Ht Hw. unfold has_next_key. rewrite (pw_skip E w 34 r o p d Ht Hw eq_refl). reflexivity. Qed.

Lemma colon_skip E w r o p d : tm E = TEof -> forallb is_ws w = true ->
  parse_object_colon E (mkSt (w ++ 58 :: r) o p d) = Ok (mkSt r (S (o + length w)) false d).
Proof. intros Ht Hw. unfold parse_object_colon. rewrite (pw_skip E w 58 r o p d Ht Hw eq_refl). reflexivity. Qed.

(* Read::parse_str on any spelling of a string, any reader, with the exact cursor *)
Lemma parse_str_lit k cf ks kb rst o p d : str_ok ks = true -> str_text ks = Some kb ->
  exists bw, parse_str (mkEnv k TEof cf) (mkSt (flat_map render_piece ks ++ 34 :: rst) o p d)
             = Ok (kb, bw, mkSt rst (o + length (flat_map render_piece ks) + 1) false d).
Proof.
  intros Hok Ht. destruct (parse_str_key k cf ks kb rst o p d Hok Ht) as (bw & o' & H). exists bw. rewrite H.
  pose proof (parse_str_tot (mkEnv k TEof cf) (mkSt (flat_map render_piece ks ++ 34 :: rst) o p d)) as Hc.
  rewrite H in Hc. destruct Hc as [(pre & Hr & Ho & _) _]. cbn [snd rest off] in Hr, Ho.
  assert (Hl : length pre = (length (flat_map render_piece ks) + 1)%nat).
  { apply (f_equal (@length N)) in Hr. rewrite !app_length in Hr. cbn [length] in Hr. lia. }
  do 3 f_equal. lia.
Qed.

Definition enter_depth (c : cfg) : N := if limit_disabled c then DEPTH0 else DEPTH0 - 1.

Lemma enter_top E l o p : enter E (mkSt l o p DEPTH0) = Ok (mkSt l o p (enter_depth (cf E))).
Proof. unfold enter, enter_depth. destruct (limit_disabled (cf E)); reflexivity. Qed.

Lemma leave_top E l o p : leave E (mkSt l o p (enter_depth (cf E))) = Ok (mkSt l o p DEPTH0).
Proof. unfold leave, enter_depth. destruct (limit_disabled (cf E)); reflexivity. Qed.

Lemma key_class_number c rv : arbitrary_precision c = true -> key_class c rv NUMBER_TOKEN_V = KNumber.
Proof. intros H. unfold key_class. rewrite H. reflexivity. Qed.

Section NumberToken.
Variables (k : rkind) (c : cfg) (rv : bool).
Hypothesis Hap : arbitrary_precision c = true.
Let E := mkEnv k TEof c.
(* the document:  w0 { w1 "<key>" w2 : w3 "<lit>" tail   — [key] any spelling of the token, [lit] any string literal, [tail] anything *)
Variables (w0 w1 w2 w3 : bytes) (key lit : list strpiece) (s tail : bytes).
Hypothesis Hw0 : forallb is_ws w0 = true.
Hypothesis Hw1 : forallb is_ws w1 = true.
Hypothesis Hw2 : forallb is_ws w2 = true.
Hypothesis Hw3 : forallb is_ws w3 = true.
Hypothesis Hkey_ok : str_ok key = true.
Hypothesis Hkey : str_text key = Some NUMBER_TOKEN_V.
Hypothesis Hlit_ok : str_ok lit = true.
Hypothesis Hlit : str_text lit = Some s.

Definition tok_prefix : bytes :=
  w0 ++ 123 :: w1 ++ 34 :: flat_map render_piece key ++ 34 :: w2 ++ 58 :: w3 ++ 34 :: flat_map render_piece lit ++ [34].

Lemma tok_prefix_tail :
  tok_prefix ++ tail = w0 ++ 123 :: w1 ++ 34 :: flat_map render_piece key ++ 34 :: w2 ++ 58 :: w3 ++ 34 :: flat_map render_piece lit ++ 34 :: tail.
Proof. unfold tok_prefix. repeat (rewrite <- app_assoc; cbn [app]). reflexivity. Qed.

(* ValueVisitor::visit_map on this object: the member is read by NumberFromString; the cursor stops right after the string *)
Definition tok_off (o : nat) : nat :=
  (o + length w1 + 1 + length (flat_map render_piece key) + 1 + length w2 + 1 + length w3 + 1
   + length (flat_map render_piece lit) + 1)%nat.

Lemma obj_tok_number f o :
  parse_obj_tok (S f) E rv
    (mkSt (w1 ++ 34 :: flat_map render_piece key ++ 34 :: w2 ++ 58 :: w3 ++ 34 :: flat_map render_piece lit ++ 34 :: tail)
          o false (enter_depth c))
  = let% (n, s4) := nfix E (nfs_visit c s (mkSt tail (tok_off o) false (enter_depth c))) in NOk (VNum n, s4).
Proof.
  rewrite parse_obj_tok_S.
  rewrite (hnk_first_quote E w1 _ o false (enter_depth c) eq_refl Hw1). cbn [of_res nbind].
  unfold discard. cbn [rest off depth tl].
  destruct (parse_str_lit k c key NUMBER_TOKEN_V (w2 ++ 58 :: w3 ++ 34 :: flat_map render_piece lit ++ 34 :: tail)
              (S (o + length w1)) false (enter_depth c) Hkey_ok Hkey) as (bw & Hp).
  fold E in Hp. rewrite Hp. cbn [of_res nbind].
  change (cf E) with c. rewrite (key_class_number c rv Hap).
  rewrite (colon_skip E w2 _ _ false (enter_depth c) eq_refl Hw2). cbn [of_res nbind].
  unfold nfs_text. rewrite (pw_skip E w3 34 _ _ false (enter_depth c) eq_refl Hw3 eq_refl). cbn [of_res nbind].
  change (34 =? 34) with true. cbv iota. unfold discard. cbn [rest off depth tl].
  destruct (parse_str_lit k c lit s tail
              (S (S (S (o + length w1) + length (flat_map render_piece key) + 1 + length w2) + length w3)) false (enter_depth c)
              Hlit_ok Hlit) as (bw2 & Hp2).
  fold E in Hp2. rewrite Hp2. cbn [of_res nbind]. change (cf E) with c.
  match goal with |- context [nfs_visit c s (mkSt tail ?a false _)] =>
    replace a with (tok_off o) by (unfold tok_off; lia) end.
  reflexivity.
Qed.
Lemma tok_off_prefix : tok_off (S (0 + length w0)) = length tok_prefix.
Proof. unfold tok_off, tok_prefix. repeat (rewrite app_length; cbn [length]). lia. Qed.

(* the cursor after the member's string, before / after `remaining_depth += 1` *)
Definition st_in : st := mkSt tail (length tok_prefix) false (enter_depth c).
Definition st_out : st := mkSt tail (length tok_prefix) false DEPTH0.

(** ** detok_number_token: what from_str / from_slice / from_reader ::<Value> return on  w0 { w1 "<token>" w2 : w3 "<s>" tail *)
Theorem detok_number_token :
  from_input_tok E rv (tok_prefix ++ tail) =
    match number_from_str c s with
    | Ok n =>
      (* a Number holding [s]; then end_map wants `}` — a further member is TrailingComma — and Deserializer::end *)
      of_res (let* s5 := end_map E st_out in let* _ := de_end E s5 in Ok (VNum n))
    | Err cd i =>
      match cd with
      | Io _ => NErr (Message MCustom) (err_idx E st_in)         (* not produced by a StrRead; kept for exactness *)
      | _ => NAt MCustom (fst (pos_of s i)) (snd (pos_of s i))     (* the position INSIDE the string, whatever follows *)
      end
    | OutOfFuel => NFuel
    | Panic => NPanic
    end.
Proof.
  unfold from_input_tok. rewrite tok_prefix_tail. unfold value_fuel, init_st.
  rewrite (pv_tok_brace _ E rv _ _ (pw_skip E w0 123 _ 0%nat false DEPTH0 eq_refl Hw0 eq_refl)).
  unfold nframe. rewrite enter_top. cbn [of_res nbind]. unfold discard. cbn [rest off depth tl].
  change (cf E) with c. rewrite obj_tok_number, tok_off_prefix. fold st_in.
  unfold nfs_visit. destruct (number_from_str c s) as [n|cd i| |]; cbn [nfix nbind]; try reflexivity.
  - unfold st_in. rewrite leave_top. cbn [of_res nbind]. fold st_out.
    destruct (end_map E st_out) as [s5|c5 i5| |]; cbn [of_res nbind nfix bind]; try reflexivity.
    destruct (de_end E s5) as [s6|c6 i6| |]; reflexivity.
  - unfold custom_of_inner. destruct cd; try (destruct (pos_of s i); reflexivity).
Qed.

(* the two usual continuations *)
Corollary detok_number_token_closed n w4 w5 : number_from_str c s = Ok n ->
  forallb is_ws w4 = true -> forallb is_ws w5 = true -> tail = w4 ++ 125 :: w5 ->
  from_input_tok E rv (tok_prefix ++ tail) = NOk (VNum n).
Proof.
  intros Hn H4 H5 Ht. rewrite detok_number_token, Hn. unfold st_out, end_map. rewrite Ht.
  rewrite (pw_skip E w4 125 w5 _ false DEPTH0 eq_refl H4 eq_refl). cbn [bind]. change (125 =? 125) with true. cbv iota.
  unfold discard. cbn [rest off depth tl bind]. unfold de_end, parse_whitespace, advance, peek. cbn [rest off depth].
  assert (Hs : skipn (span_len is_ws w5) w5 = []).
  { clear -H5. induction w5 as [|a w IH]; [reflexivity|]. cbn [forallb] in H5. apply andb_true_iff in H5. destruct H5 as [Ha Hw].
    cbn [span_len]. rewrite Ha. cbn [skipn]. exact (IH Hw). }
  rewrite Hs. reflexivity.
Qed.

(* a second member: visit_map never looks at it; end_map reports the comma *)
Corollary detok_number_token_more n w4 more : number_from_str c s = Ok n ->
  forallb is_ws w4 = true -> tail = w4 ++ 44 :: more ->
  from_input_tok E rv (tok_prefix ++ tail) =
    NErr TrailingComma (peek_err_idx E (mkSt (44 :: more) (length tok_prefix + length w4) true DEPTH0)).
Proof.
  intros Hn H4 Ht. rewrite detok_number_token, Hn. unfold st_out, end_map. rewrite Ht.
  rewrite (pw_skip E w4 44 more _ false DEPTH0 eq_refl H4 eq_refl). reflexivity.
Qed.
End NumberToken.

(* with the grammar of Number::from_str (Proofs/ApNumber.v): an RFC 8259 number literal under the token is kept verbatim *)
Corollary detok_number_token_literal k c rv w0 w1 w2 w3 key lit tail (n : numlit) w4 w5 :
  arbitrary_precision c = true ->
  forallb is_ws w0 = true -> forallb is_ws w1 = true -> forallb is_ws w2 = true -> forallb is_ws w3 = true ->
  str_ok key = true -> str_text key = Some NUMBER_TOKEN_V -> str_ok lit = true -> str_text lit = Some (render_num n) ->
  num_ok n = true -> forallb is_ws w4 = true -> forallb is_ws w5 = true -> tail = w4 ++ 125 :: w5 ->
  from_input_tok (mkEnv k TEof c) rv (tok_prefix w0 w1 w2 w3 key lit ++ tail) = NOk (VNum (NLit (render_num n))).
Proof.
  intros Hap H0 H1 H2 H3 Hk1 Hk2 Hl1 Hl2 Hn H4 H5 Ht.
  apply (detok_number_token_closed k c rv Hap w0 w1 w2 w3 key lit (render_num n) tail H0 H1 H2 H3 Hk1 Hk2 Hl1 Hl2
           (NLit (render_num n)) w4 w5 (from_str_verbatim c n Hap Hn) H4 H5 Ht).
Qed.

(* C02 read on the real behaviour: a text without token keys is parsed to its denotation by the token-aware model as well *)
Corollary detok_c02_without_token c rv bs v :
  Denotes c bs v -> no_token_doc (mkEnv RSlice TEof c) rv bs = true ->
  from_input_tok (mkEnv RSlice TEof c) rv bs = NOk v.
Proof.
  intros Hd Hn. rewrite (proj2 detok_conservative _ _ _ Hn), (value_complete_slice c bs v Hd). reflexivity.
Qed.

(* ================================================================== *)
(** * Part 6 — concrete documents (vm_compute), and finding F23 as a theorem *)
From Coq Require Import String Ascii.
Definition B (s : string) : bytes := List.map N_of_ascii (list_ascii_of_string s).

Definition cfA : cfg := mkCfg false false true false.       (* arbitrary_precision *)
Definition cf0 : cfg := mkCfg false false false false.
Definition EA (k : rkind) : env := mkEnv k TEof cfA.
Definition E0 (k : rkind) : env := mkEnv k TEof cf0.
Definition NT : string := "$serde_json::private::Number".
Definition RT : string := "$serde_json::private::RawValue".
Definition q : string := String (ascii_of_N 34) EmptyString.
Definition nl : string := String (ascii_of_N 10) EmptyString.
Definition bs : string := String (ascii_of_N 92) EmptyString.
Definition obj1 (key val : string) : string := "{" ++ q ++ key ++ q ++ ":" ++ val ++ "}".
Definition qs (s : string) : string := q ++ s ++ q.
Definition lit (s : string) : num := NLit (B s).

Lemma B_NT : B NT = NUMBER_TOKEN_V. Proof. reflexivity. Qed.
Lemma B_RT : B RT = RAW_TOKEN. Proof. reflexivity. Qed.

(* --- the Number token, arbitrary_precision, slice and 1-byte reader ------------------------------------------------------- *)
Example ex_valid : forall k, from_input_tok (EA k) false (B (obj1 NT (qs "12.50"))) = NOk (VNum (lit "12.50")).
Proof. destruct k; vm_compute; reflexivity. Qed.
Example ex_neg_zero : forall k, from_input_tok (EA k) false (B (obj1 NT (qs "-0"))) = NOk (VNum (lit "-0")).
Proof. destruct k; vm_compute; reflexivity. Qed.
(* "1x": invalid number at line 1 column 2 OF THE STRING, reported as a data error *)
Example ex_1x : forall k, from_input_tok (EA k) false (B (obj1 NT (qs "1x"))) = NAt MCustom 1 2.
Proof. destruct k; vm_compute; reflexivity. Qed.
(* "": EOF while parsing a value at line 1 column 0 of the string *)
Example ex_empty : forall k, from_input_tok (EA k) false (B (obj1 NT (qs ""))) = NAt MCustom 1 0.
Proof. destruct k; vm_compute; reflexivity. Qed.
(* the position is the inner one: the document starts with two line breaks (the member is on line 3), the string's contents are
   "\n\n12\n" and Number::from_str stops at ITS first byte, reported after that line break: line 2 column 0 *)
Example ex_lines : forall k,
  from_input_tok (EA k) false (B (nl ++ nl ++ obj1 NT (qs (bs ++ "n" ++ bs ++ "n12" ++ bs ++ "n")))) = NAt MCustom 2 0.
Proof. destruct k; vm_compute; reflexivity. Qed.
(* a value that is not a string: invalid type, positioned in the document after the offending scalar (slice: col 34, reader: col 34) *)
Example ex_nonstring_sl : from_input_tok (EA RSlice) false (B (obj1 NT "5")) = NErr (Message MInvalidType) 33.
Proof. vm_compute; reflexivity. Qed.
Example ex_nonstring_io : from_input_tok (EA RIo) false (B (obj1 NT "5")) = NErr (Message MInvalidType) 34.
Proof. vm_compute; reflexivity. Qed.
Example ex_nonstring_null : forall k, from_input_tok (EA k) false (B (obj1 NT "null")) = NErr (Message MInvalidType) 36.
Proof. destruct k; vm_compute; reflexivity. Qed.
(* a second member is never read: TrailingComma at the comma, even though the text is a valid JSON object *)
Example ex_second_member : forall k,
  from_input_tok (EA k) false (B ("{" ++ qs NT ++ ":" ++ qs "1" ++ "," ++ qs "a" ++ ":2}")) = NErr TrailingComma 36.
Proof. destruct k; vm_compute; reflexivity. Qed.
(* duplicate token: the same *)
Example ex_duplicate : forall k,
  from_input_tok (EA k) false (B ("{" ++ qs NT ++ ":" ++ qs "1" ++ "," ++ qs NT ++ ":" ++ qs "2" ++ "}")) = NErr TrailingComma 36.
Proof. destruct k; vm_compute; reflexivity. Qed.
(* an invalid payload wins over whatever follows *)
Example ex_bad_then_more : forall k,
  from_input_tok (EA k) false (B ("{" ++ qs NT ++ ":" ++ qs "1x" ++ "," ++ qs "a" ++ ":2}")) = NAt MCustom 1 2.
Proof. destruct k; vm_compute; reflexivity. Qed.
(* the token as a SECOND key is an ordinary key; so is the other feature's token *)
Example ex_second_key : forall k,
  from_input_tok (EA k) false (B ("{" ++ qs "a" ++ ":0," ++ qs NT ++ ":" ++ qs "1" ++ "}"))
  = NOk (VObj [(B NT, VStr (B "1")); (B "a", VNum (lit "0"))]).
Proof. destruct k; vm_compute; reflexivity. Qed.
Example ex_other_token : forall k,
  from_input_tok (EA k) false (B (obj1 RT (qs "1"))) = NOk (VObj [(B RT, VStr (B "1"))]).
Proof. destruct k; vm_compute; reflexivity. Qed.
(* nested: in an array, as a member value; the key spelled with an escape *)
Example ex_nested : forall k,
  from_input_tok (EA k) false (B ("[" ++ obj1 NT (qs "1e5") ++ ",{" ++ qs "m" ++ ":" ++ obj1 (bs ++ "u0024" ++ "serde_json::private::Number") (qs "7") ++ "}]"))
  = NOk (VArr [VNum (lit "1e5"); VObj [(B "m", VNum (lit "7"))]]).
Proof. destruct k; vm_compute; reflexivity. Qed.
(* no feature: the token is an ordinary key *)
Example ex_default_build : forall k,
  from_input_tok (E0 k) false (B (obj1 NT (qs "12"))) = NOk (VObj [(B NT, VStr (B "12"))]).
Proof. destruct k; vm_compute; reflexivity. Qed.

(* --- the RawValue token, raw_value ---------------------------------------------------------------------------------------- *)
Example ex_raw_valid : forall k,
  from_input_tok (E0 k) true (B (obj1 RT (qs "[1, null]"))) = NOk (VArr [VNum (NPos 1); VNull]).
Proof. destruct k; vm_compute; reflexivity. Qed.
(* the string is re-parsed by from_str: its errors come back as data errors with the string's own line / column *)
Example ex_raw_invalid : forall k, from_input_tok (E0 k) true (B (obj1 RT (qs "[1,"))) = NAt MCustom 1 3.
Proof. destruct k; vm_compute; reflexivity. Qed.
Example ex_raw_trailing : forall k, from_input_tok (E0 k) true (B (obj1 RT (qs "1 2"))) = NAt MCustom 1 3.
Proof. destruct k; vm_compute; reflexivity. Qed.
Example ex_raw_nonstring : forall k, from_input_tok (E0 k) true (B (obj1 RT "[1]"))
  = NErr (Message MInvalidType) (match k with RIo => 35 | _ => 34 end).      (* at `[`: position() of the slice / of the reader *)
Proof. destruct k; vm_compute; reflexivity. Qed.
(* the re-parse goes through the same visitor: a token object inside the string is replaced again *)
Example ex_raw_nested : forall k,
  from_input_tok (E0 k) true (B (obj1 RT (qs ("{" ++ bs ++ q ++ RT ++ bs ++ q ++ ":" ++ bs ++ q ++ "true" ++ bs ++ q ++ "}")))) = NOk (VBool true).
Proof. destruct k; vm_compute; reflexivity. Qed.
(* custom(inner error) keeps the inner MESSAGE: an invalid-type error of the inner document stays an invalid-type message
   (checked against the typed harness, op pm: "invalid type: integer `5`, expected raw value", line 1 column 35 of the string) *)
Example ex_raw_kind : forall k,
  from_input_tok (E0 k) true (B (obj1 RT (qs ("{" ++ bs ++ q ++ RT ++ bs ++ q ++ ":5}")))) = NAt MInvalidType 1 35.
Proof. destruct k; vm_compute; reflexivity. Qed.
Example ex_raw_more : forall k,
  from_input_tok (E0 k) true (B ("{" ++ qs RT ++ ":" ++ qs "1" ++ "," ++ qs "a" ++ ":2}")) = NErr TrailingComma 38.
Proof. destruct k; vm_compute; reflexivity. Qed.

(* --- the predicate is computable, and is not implied by validity ---------------------------------------------------------------- *)
Example ex_pred_false : no_token_doc (EA RSlice) false (B (obj1 NT (qs "12"))) = false.
Proof. vm_compute; reflexivity. Qed.
Example ex_pred_true_second_key : no_token_doc (EA RSlice) true (B ("{" ++ qs "a" ++ ":0," ++ qs NT ++ ":" ++ qs "1" ++ "}")) = true.
Proof. vm_compute; reflexivity. Qed.
Example ex_pred_escaped_key : no_token_doc (EA RSlice) false (B (obj1 (bs ++ "u0024" ++ "serde_json::private::Number") (qs "7"))) = false.
Proof. vm_compute; reflexivity. Qed.

(** ** detok_refutes_c02 — finding F23: under arbitrary_precision there is a text whose RFC 8259 denotation is an OBJECT
    (and Model/De.v returns that object) while from_str / from_slice / from_reader return a NUMBER. *)
Definition f23_doc : bytes := B (obj1 NT (qs "1")).
Definition f23_cst : cst := CObj [] (MCons [] (List.map PRaw NUMBER_TOKEN_V) [] [] (CStr [PRaw 49]) [] MNil).

Theorem detok_refutes_c02 :
  exists (inp : bytes) (v : value) (o : list (bytes * value)) (n : num),
    arbitrary_precision cfA = true /\
    (forall k, from_input_tok (EA k) false inp = NOk v) /\
    Denotes cfA inp (VObj o) /\
    from_input (EA RSlice) inp = Ok (VObj o) /\
    v = VNum n.
Proof.
  exists f23_doc, (VNum (lit "1")), [(NUMBER_TOKEN_V, VStr [49])], (lit "1").
  split; [reflexivity|]. split; [destruct k; vm_compute; reflexivity|]. split; [|split; [vm_compute; reflexivity|reflexivity]].
  exists [], f23_cst, []. repeat split; try (vm_compute; reflexivity).
  intros _. vm_compute. lia.
Qed.

(* the same document refutes the unrestricted form of detok_conservative (rule 4): the hypothesis no_token_doc is needed *)
Theorem detok_conservative_needs_hypothesis :
  from_input_tok (EA RSlice) false f23_doc <> of_res (from_input (EA RSlice) f23_doc).
Proof. vm_compute. discriminate. Qed.

Print Assumptions parse_str_sim.
Print Assumptions detok_conservative.
Print Assumptions detok_number_token.
Print Assumptions detok_number_token_closed.
Print Assumptions detok_number_token_more.
Print Assumptions detok_refutes_c02.
Print Assumptions detok_conservative_needs_hypothesis.
Print Assumptions detok_number_token_literal.
Print Assumptions detok_c02_without_token.
Print Assumptions detok_conservative_v.
