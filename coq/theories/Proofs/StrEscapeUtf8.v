(* Proofs/StrEscapeUtf8.v — StrRead does not re-validate UTF-8 (`from_utf8_unchecked` in src/read.rs):
   the obligation that discharges it.

     decode_valid      if the input (pieces + closing quote + tail) is valid UTF-8, so are the decoded text and the tail
     utf8_safe         parse_str on a &str returns valid UTF-8 (and leaves a valid remainder)
     str_eq_slice      on valid UTF-8 input, &str input and &[u8] input give identical outcomes
     slice_ok_str      whatever the slice reader accepts, the str reader accepts with the same result
     roundtrip_str     the serializer round trip on &str input *)
From Coq Require Import List NArith ZArith Bool Arith Lia ZifyBool ZifyNat ZifyN.
From SJ Require Import Base.Bytes Base.Utf8 Gen.Tables Model.Read Model.Str Model.SerStr Spec.Syntax.
From SJ Require Import Proofs.StrRefine Proofs.GrammarStr Proofs.Utf8Lemmas Proofs.StrEscapeReject Proofs.StrEscape.
Import ListNotations.
Open Scope N_scope.

Local Notation render s := (flat_map render_piece s).

Lemma hex_byte_ascii : forall a, hex_byte a = true -> a < 128.
Proof. intros a H. unfold hex_byte in H. lia. Qed.

Lemma esc_letter_ascii : forall c, esc_letter c = true -> c < 128 /\ esc_val c < 128.
Proof.
  intros c H. unfold esc_letter in H. split; [lia|]. unfold esc_val.
  repeat match goal with |- context [N.eqb c ?k] => destruct (N.eqb_spec c k) end; lia.
Qed.

Lemma hex4_ascii : forall a b c d, hex4 a b c d = true -> a < 128 /\ b < 128 /\ c < 128 /\ d < 128.
Proof.
  intros a b c d H. unfold hex4 in H.
  apply andb_true_iff in H. destruct H as [H Hd]. apply andb_true_iff in H. destruct H as [H Hc].
  apply andb_true_iff in H. destruct H as [Ha Hb].
  repeat split; apply hex_byte_ascii; assumption.
Qed.

Lemma decode_valid : forall n s, (length s <= n)%nat -> forall pre out tail,
  str_ok s = true -> str_decode s = Some out ->
  utf8_valid (pre ++ render s ++ 34 :: tail) = true ->
  utf8_valid (pre ++ out) = true /\ utf8_valid tail = true.
Proof.
  induction n as [|n IH]; intros s Hlen pre out tail Hok Hdec Hv.
  { destruct s as [|? ?]; [|cbn [length] in Hlen; lia].
    cbn [str_decode] in Hdec. injection Hdec as <-. cbn [flat_map app] in Hv.
    apply utf8_valid_cut in Hv; [|lia]. rewrite app_nil_r. exact Hv. }
  destruct s as [|pc r].
  { cbn [str_decode] in Hdec. injection Hdec as <-. cbn [flat_map app] in Hv.
    apply utf8_valid_cut in Hv; [|lia]. rewrite app_nil_r. exact Hv. }
  cbn [length] in Hlen. unfold str_ok in Hok. cbn [forallb] in Hok.
  apply andb_true_iff in Hok. destruct Hok as [Hpc Hr]. fold (str_ok r) in Hr.
  destruct pc as [x|c|a b c d].
  - rewrite str_decode_raw in Hdec. apply str_decode_cons_some in Hdec. destruct Hdec as (out' & Hdec' & ->).
    cbn [flat_map render_piece app] in Hv.
    replace (pre ++ x :: render r ++ 34 :: tail) with ((pre ++ [x]) ++ render r ++ 34 :: tail) in Hv
      by (rewrite <- app_assoc; reflexivity).
    destruct (IH r ltac:(lia) (pre ++ [x]) out' tail Hr Hdec' Hv) as [H1 H2].
    rewrite <- app_assoc in H1. split; assumption.
  - rewrite str_decode_esc in Hdec. apply str_decode_cons_some in Hdec. destruct Hdec as (out' & Hdec' & ->).
    cbn [piece_ok] in Hpc. destruct (esc_letter_ascii c Hpc) as [Hc Hv'].
    cbn [flat_map render_piece app] in Hv.
    apply utf8_valid_cut in Hv; [|lia]. destruct Hv as [Hpre Hrest].
    rewrite utf8_valid_cons_ascii in Hrest by exact Hc.
    destruct (IH r ltac:(lia) [] out' tail Hr Hdec' Hrest) as [H1 H2]. cbn [app] in H1.
    split; [|exact H2]. apply utf8_valid_join; assumption.
  - cbn [piece_ok] in Hpc. fold (hex4 a b c d) in Hpc.
    destruct (hex4_ascii a b c d Hpc) as (Ha & Hb & Hc & Hd).
    assert (Hlt := u4_val_lt a b c d Hpc).
    rewrite str_decode_u4 in Hdec. cbv zeta in Hdec.
    destruct (is_lo_surr (u4_val a b c d)) eqn:Hlo; [discriminate Hdec|].
    cbn [flat_map render_piece app] in Hv.
    apply utf8_valid_cut in Hv; [|lia]. destruct Hv as [Hpre Hrest].
    rewrite !utf8_valid_cons_ascii in Hrest by (assumption || lia).
    destruct (is_hi_surr (u4_val a b c d)) eqn:Hhi.
    + destruct r as [|[x|x|a' b' c' d'] r']; try discriminate Hdec.
      destruct (is_lo_surr (u4_val a' b' c' d')) eqn:Hlo2; [|discriminate Hdec].
      apply str_decode_cons_some in Hdec. destruct Hdec as (out' & Hdec' & ->).
      unfold str_ok in Hr. cbn [forallb piece_ok] in Hr.
      apply andb_true_iff in Hr. destruct Hr as [Hh2 Hr']. fold (hex4 a' b' c' d') in Hh2. fold (str_ok r') in Hr'.
      destruct (hex4_ascii a' b' c' d' Hh2) as (Ha' & Hb' & Hc' & Hd').
      cbn [length] in Hlen. cbn [flat_map render_piece app] in Hrest.
      rewrite !utf8_valid_cons_ascii in Hrest by (assumption || lia).
      destruct (IH r' ltac:(lia) [] out' tail Hr' Hdec' Hrest) as [H1 H2]. cbn [app] in H1.
      split; [|exact H2]. apply utf8_valid_app; [exact Hpre|].
      apply utf8_valid_app; [|exact H1]. apply utf8_encode_valid, pair_cp_scalar; assumption.
    + apply str_decode_cons_some in Hdec. destruct Hdec as (out' & Hdec' & ->).
      destruct (IH r ltac:(lia) [] out' tail Hr Hdec' Hrest) as [H1 H2]. cbn [app] in H1.
      split; [|exact H2]. apply utf8_valid_app; [exact Hpre|].
      apply utf8_valid_app; [|exact H1]. apply utf8_encode_valid.
      unfold is_scalar. unfold is_hi_surr in Hhi. unfold is_lo_surr in Hlo. lia.
Qed.

(* the validating slice loop maps valid UTF-8 to valid UTF-8 *)
Lemma slice_loop_valid : forall cf fuel s0 out cp s1,
  utf8_valid (rest s0) = true ->
  slice_str_loop fuel (mkEnv RSlice TEof cf) true s0 = Ok (out, cp, s1) ->
  utf8_valid out = true /\ utf8_valid (rest s1) = true.
Proof.
  intros cf fuel s0 out cp s1 Hv H.
  destruct (slice_loop_sound cf fuel s0 out cp s1 (utf8_valid_bytes _ Hv) H) as (s & Hr & Hok & Hdec & _).
  rewrite Hr in Hv.
  exact (decode_valid (length s) s (Nat.le_refl _) [] out (rest s1) Hok Hdec Hv).
Qed.

(* C05_utf8_safe *)
Theorem utf8_safe : forall cf s0 out bw s1,
  utf8_valid (rest s0) = true ->
  parse_str (mkEnv RStr TEof cf) s0 = Ok (out, bw, s1) ->
  utf8_valid out = true /\ utf8_valid (rest s1) = true.
Proof.
  intros cf s0 out bw s1 Hv H. unfold parse_str in H. cbn [rk] in H.
  rewrite slice_loop_str_slice in H.
  apply bind_ok in H. destruct H as ([[out' cp] s1'] & Hloop & H). injection H as <- _ <-.
  exact (slice_loop_valid cf _ s0 out' cp s1' Hv Hloop).
Qed.

(* C05_str_eq_slice *)
Theorem str_eq_slice : forall cf s0,
  utf8_valid (rest s0) = true ->
  parse_str (mkEnv RStr TEof cf) s0 = parse_str (mkEnv RSlice TEof cf) s0.
Proof.
  intros cf s0 Hv. unfold parse_str. cbn [rk]. rewrite slice_loop_str_slice.
  destruct (slice_str_loop (str_fuel s0) (mkEnv RSlice TEof cf) true s0) as [[[out cp] s1]|c i| |] eqn:Hloop;
    cbn [bind]; try reflexivity.
  destruct (slice_loop_valid cf _ s0 out cp s1 Hv Hloop) as [Hout _]. rewrite Hout. reflexivity.
Qed.

(* without any hypothesis: what the slice reader accepts, the str reader accepts identically *)
Theorem slice_ok_str : forall cf s0 r,
  parse_str (mkEnv RSlice TEof cf) s0 = Ok r -> parse_str (mkEnv RStr TEof cf) s0 = Ok r.
Proof.
  intros cf s0 r H. unfold parse_str in *. cbn [rk] in *. rewrite slice_loop_str_slice.
  destruct (slice_str_loop (str_fuel s0) (mkEnv RSlice TEof cf) true s0) as [[[out cp] s1]|c i| |];
    cbn [bind] in *; try discriminate H.
  destruct (utf8_valid out); [exact H|discriminate H].
Qed.

Theorem roundtrip_str : forall cf s rst off pk d, utf8_valid s = true ->
  parse_str (mkEnv RStr TEof cf) (mkSt (tl (escape_concat s) ++ rst) off pk d)
  = Ok (s, forallb (fun b => negb (needs_escape b)) s, mkSt rst (off + length (tl (escape_concat s))) false d).
Proof. intros. apply slice_ok_str, roundtrip_slice. assumption. Qed.

(* the serializer writes valid UTF-8 when given valid UTF-8 (String::from_utf8_unchecked in to_string) *)
Theorem escape_concat_valid : forall s, utf8_valid s = true -> utf8_valid (escape_concat s) = true.
Proof.
  intros s Hv. pose proof (utf8_valid_bytes s Hv) as HF. rewrite escape_concat_spec by exact HF.
  rewrite utf8_valid_cons_ascii by lia.
  apply utf8_valid_app; [|reflexivity].
  apply utf8_valid_U8 in Hv. clear HF.
  induction Hv as [|b0 r H0 Hr IH|b0 b1 r H0 Hr IH|b0 b1 b2 r H0 Hr IH|b0 b1 b2 b3 r H0 Hr IH].
  - reflexivity.
  - unfold pieces_of. cbn [map flat_map]. fold (pieces_of r).
    apply utf8_valid_app; [|exact IH].
    pose proof (piece_good_all b0 ltac:(lia)) as Hg. unfold piece_good in Hg.
    destruct (piece_of b0) as [x|c|h1 h2 h3 h4]; cbn [render_piece].
    + rewrite utf8_valid_cons_ascii by lia. reflexivity.
    + destruct (esc_letter_ascii c ltac:(lia)) as [Hc _].
      rewrite !utf8_valid_cons_ascii by (assumption || lia). reflexivity.
    + assert (Hh : hex4 h1 h2 h3 h4 = true) by (unfold hex4; cbn [piece_ok] in Hg; lia).
      destruct (hex4_ascii h1 h2 h3 h4 Hh) as (? & ? & ? & ?).
      rewrite !utf8_valid_cons_ascii by (assumption || lia). reflexivity.
  - assert (Hp0 : piece_of b0 = PRaw b0) by (unfold piece_of; unrng; replace (b0 =? 34) with false by lia;
      replace (b0 =? 92) with false by lia; replace (b0 <? 32) with false by lia; reflexivity).
    assert (Hp1 : piece_of b1 = PRaw b1) by (unfold piece_of; unrng; replace (b1 =? 34) with false by lia;
      replace (b1 =? 92) with false by lia; replace (b1 <? 32) with false by lia; reflexivity).
    unfold pieces_of. cbn [map flat_map]. fold (pieces_of r). rewrite Hp0, Hp1. cbn [render_piece app].
    rewrite utf8_valid_seq2 by exact H0. exact IH.
  - assert (Hp : forall x, 128 <= x -> piece_of x = PRaw x).
    { intros x Hx. unfold piece_of. replace (x =? 34) with false by lia.
      replace (x =? 92) with false by lia. replace (x <? 32) with false by lia. reflexivity. }
    unfold pieces_of. cbn [map flat_map]. fold (pieces_of r).
    rewrite !Hp by (unrng; lia). cbn [render_piece app].
    rewrite utf8_valid_seq3 by exact H0. exact IH.
  - assert (Hp : forall x, 128 <= x -> piece_of x = PRaw x).
    { intros x Hx. unfold piece_of. replace (x =? 34) with false by lia.
      replace (x =? 92) with false by lia. replace (x <? 32) with false by lia. reflexivity. }
    unfold pieces_of. cbn [map flat_map]. fold (pieces_of r).
    rewrite !Hp by (unrng; lia). cbn [render_piece app].
    rewrite utf8_valid_seq4 by exact H0. exact IH.
Qed.

Print Assumptions utf8_safe.
Print Assumptions str_eq_slice.
Print Assumptions slice_ok_str.
Print Assumptions roundtrip_str.
Print Assumptions escape_concat_valid.
