(* Proofs/PrefixNum.v — prefix dichotomy, part 3: Model/Num.v.
   Number parsers are LOOSE: a number always ends with a peek, so a successful prefix run that reaches
   the end of the prefix says nothing about the extended run ("12" vs "123").  The one non-Eof boundary
   outcome is NumberOutOfRange (f64_from_parts at the end of input): "1111…1" vs "1111…1e-200". *)
From SJ Require Import Base.Bytes Base.FloatB Gen.Tables Model.Read Model.Num Proofs.PrefixBase.
From Flocq Require Import Core BinarySingleNaN.
Require Import Lia ZifyBool ZifyNat ZifyN.
Open Scope N_scope.

(* ---------- where the digit loops stop ---------- *)
Lemma sig_loop_cases l : forall sig,
  (fst (fst (sig_loop l sig)) <= length l)%nat /\
  ((skipn (fst (fst (sig_loop l sig))) l = [] /\ snd (sig_loop l sig) = false) \/
   ((exists b r, skipn (fst (fst (sig_loop l sig))) l = b :: r) /\ forall t, sig_loop (l ++ t) sig = sig_loop l sig)).
Proof.
  induction l as [|c l IH]; intros sig; cbn [sig_loop fst snd skipn length]; [split; [lia|left; auto]|].
  destruct (is_digit c) eqn:Hd.
  2:{ cbn [fst snd skipn]. split; [lia|]. right. split; [eauto|]. intros t. cbn [app sig_loop]. now rewrite Hd. }
  destruct (overflow_mac sig (digit_val c) u64_max) eqn:Ho.
  { cbn [fst snd skipn]. split; [lia|]. right. split; [eauto|]. intros t. cbn [app sig_loop]. now rewrite Hd, Ho. }
  specialize (IH (mul10add sig (digit_val c))).
  destruct (sig_loop l (mul10add sig (digit_val c))) as [[n sg] ov] eqn:Hs. cbn [fst snd skipn] in *.
  destruct IH as [Hle IH]. split; [lia|].
  destruct IH as [IH | [IH1 IH2]]; [left; exact IH|]. right. split; [exact IH1|].
  intros t. cbn [app sig_loop]. rewrite Hd, Ho, IH2. reflexivity.
Qed.

Lemma exp_loop_cases l : forall e0,
  (fst (fst (exp_loop l e0)) <= length l)%nat /\
  ((skipn (fst (fst (exp_loop l e0))) l = [] /\ snd (exp_loop l e0) = false) \/
   (forall t, exp_loop (l ++ t) e0 = exp_loop l e0)).
Proof.
  induction l as [|c l IH]; intros e0; cbn [exp_loop fst snd skipn length]; [split; [lia|left; auto]|].
  destruct (is_digit c) eqn:Hd.
  2:{ cbn [fst snd skipn]. split; [lia|]. right. intros t. cbn [app exp_loop]. now rewrite Hd. }
  destruct (overflow_mac e0 (digit_val c) i32_max) eqn:Ho.
  { cbn [fst snd skipn]. split; [lia|]. right. intros t. cbn [app exp_loop]. now rewrite Hd, Ho. }
  specialize (IH (e0 * 10 + digit_val c)).
  destruct (exp_loop l (e0 * 10 + digit_val c)) as [[n e] ov] eqn:Hs. cbn [fst snd skipn] in *.
  destruct IH as [Hle IH]. split; [lia|].
  destruct IH as [IH | IH]; [left; exact IH|]. right.
  intros t. cbn [app exp_loop]. rewrite Hd, Ho, IH. reflexivity.
Qed.

Lemma f64_loop_res fuel : forall f e, (exists o, f64_loop fuel f e = Ok o) \/ f64_loop fuel f e = OutOfFuel.
Proof.
  induction fuel as [|fu IH]; intros f e; cbn [f64_loop]; [now right|].
  destruct (pow10_tab (Z.abs e)).
  - destruct (0 <=? e)%Z; [destruct (b64_is_inf _)|]; left; eauto.
  - destruct (b64_is_zero f); [left; eauto|]. destruct (0 <=? e)%Z; [left; eauto|]. apply IH.
Qed.

Section DichNum.
Variable C : ctx.
Notation rk0 := (c_rk C).
Notation cf0 := (c_cf C).
Notation tm1 := (c_tm1 C).
Notation tm2 := (c_tm2 C).
Notation t := (c_t C).
Notation L := (c_L C).
Notation E1 := (mkEnv (c_rk C) (c_tm1 C) (c_cf C)).
Notation E2 := (mkEnv (c_rk C) (c_tm2 C) (c_cf C)).

Lemma rest_ext s : rest (ext C s) = rest s ++ t.
Proof. reflexivity. Qed.

Lemma eofish_val : eofish EofWhileParsingValue.
Proof. left; reflexivity. Qed.
Lemma eofish_range : eofish NumberOutOfRange.
Proof. right; reflexivity. Qed.

(* a state at which "nothing left" can only mean a genuine end of input *)
Definition okst (s : st) : Prop := live s \/ tm1 = TEof.

Lemma pon_okst s c s' : peek_or_null E1 s = Ok (c, s') -> okst s' /\ (c <> 0 -> live s').
Proof.
  intros H. apply peek_or_null_spec in H. cbn [tm] in H. unfold okst, live.
  destruct H as [(Ht & Hc & Htm) | (r & Hr & _)].
  - split; [now right|]. intros Hn. now destruct Hn.
  - split; [left|intros _]; congruence.
Qed.

Lemma skd_okst s c s' : skip_digits E1 s = Ok (c, s') -> okst s' /\ (c <> 0 -> live s').
Proof. unfold skip_digits. apply pon_okst. Qed.

Lemma is_digit_nz c : is_digit c = true -> c <> 0.
Proof. unfold is_digit. lia. Qed.
Lemma is_e_nz c : (c =? 101) || (c =? 69) = true -> c <> 0.
Proof. lia. Qed.
Lemma is_dot_nz c : (c =? 46) = true -> c <> 0.
Proof. lia. Qed.

(* the recurring "no digit after the point" block *)
Lemma peek_invalid_dich {X} (S : shape X) s : inv C s ->
  dich C S
    (let* (o, s2) := peek E1 s in
     match o with Some _ => peek_error E1 s2 InvalidNumber | None => peek_error E1 s2 EofWhileParsingValue end)
    (let* (o, s2) := peek E2 (ext C s) in
     match o with Some _ => peek_error E2 s2 InvalidNumber | None => peek_error E2 s2 EofWhileParsingValue end).
Proof.
  intros Hi. apply (bind_dichP C (isNone C)); [now apply peek_dich| |].
  - intros o s2 Hp Hi2. cbv beta iota. apply peek_spec in Hp. cbn [tm] in Hp. destruct o.
    + apply peek_error_dich; [assumption|]. left. destruct Hp as (r & Hr & _). unfold live. congruence.
    + apply peek_error_dich; [assumption|]. right. split; [tauto|apply eofish_val].
  - intros o s2 _ Hi2 Ht [-> Htm]. cbv beta iota. apply peek_error_eofc; auto using eofish_val.
Qed.

Lemma peek_invalid_eofc {X} (S : shape X) s : inv C s -> touched s ->
  eofc C S
    (let* (o, s2) := peek E1 s in
     match o with Some _ => peek_error E1 s2 InvalidNumber | None => peek_error E1 s2 EofWhileParsingValue end).
Proof.
  intros Hi Ht. apply (bind_eofcP C (isNone C)); [now apply peek_eofc|].
  intros o s2 _ Hi2 Ht2 [-> Htm]. cbv beta iota. apply peek_error_eofc; auto using eofish_val.
Qed.

(* ---------- f64_from_parts ---------- *)
Lemma f64_from_parts_dich positive sig e s : inv C s -> okst s ->
  dich C (ShP C nov) (f64_from_parts E1 positive sig e s) (f64_from_parts E2 positive sig e (ext C s)).
Proof.
  intros Hi Hok. unfold f64_from_parts. cbn [cf].
  apply bind_dich_pure.
  - intros c i. destruct (float_roundtrip cf0); [discriminate|].
    destruct (f64_loop_res 4 (b64_of_Z (Z.of_N sig)) e) as [[o Ho] | Ho]; rewrite Ho; discriminate.
  - intros [f|] _; [now apply ret_dich|]. apply peek_error_dich; [assumption|].
    destruct Hok as [Hl | Htm]; [now left|right; split; [assumption|apply eofish_range]].
Qed.

Lemma f64_from_parts_eofc (bm : b64 -> Prop) positive sig e s : inv C s -> touched s -> tm1 = TEof ->
  (forall f, bm f) ->
  eofc C (ShP C bm) (f64_from_parts E1 positive sig e s).
Proof.
  intros Hi Ht Htm Hbm. unfold f64_from_parts. cbn [cf].
  apply bind_eofc_pure.
  - intros c i. destruct (float_roundtrip cf0); [discriminate|].
    destruct (f64_loop_res 4 (b64_of_Z (Z.of_N sig)) e) as [[o Ho] | Ho]; rewrite Ho; discriminate.
  - destruct (float_roundtrip cf0); [discriminate|].
    destruct (f64_loop_res 4 (b64_of_Z (Z.of_N sig)) e) as [[o Ho] | Ho]; rewrite Ho; discriminate.
  - intros [f|] _; [now apply ret_eofc|]. apply peek_error_eofc; auto using eofish_range.
Qed.

Lemma f64_long_from_parts_dich positive integer fraction e s : inv C s -> okst s ->
  dich C (ShP C nov) (f64_long_from_parts E1 positive integer fraction e s)
                     (f64_long_from_parts E2 positive integer fraction e (ext C s)).
Proof.
  intros Hi Hok. unfold f64_long_from_parts. cbv zeta.
  destruct (b64_is_inf _); [|now apply ret_dich]. apply peek_error_dich; [assumption|].
  destruct Hok as [Hl | Htm]; [now left|right; split; [assumption|apply eofish_range]].
Qed.

Lemma f64_long_from_parts_eofc (bm : b64 -> Prop) positive integer fraction e s : inv C s -> touched s -> tm1 = TEof ->
  (forall f, bm f) ->
  eofc C (ShP C bm) (f64_long_from_parts E1 positive integer fraction e s).
Proof.
  intros Hi Ht Htm Hbm. unfold f64_long_from_parts. cbv zeta.
  destruct (b64_is_inf _); [|now apply ret_eofc]. apply peek_error_eofc; auto using eofish_range.
Qed.

(* ---------- exponents ---------- *)
Lemma parse_exponent_overflow_dich positive zs pe s : inv C s ->
  dich C (ShP C anyv) (parse_exponent_overflow E1 positive zs pe s) (parse_exponent_overflow E2 positive zs pe (ext C s)).
Proof.
  intros Hi. unfold parse_exponent_overflow.
  destruct (negb zs && pe); [now apply error_dich|].
  apply (bind_dichP C (isZero C)); [now apply skip_digits_dich| |].
  - intros c s1 _ Hi1. cbv beta iota. now apply ret_dich.
  - intros c s1 _ Hi1 Ht1 _. cbv beta iota. apply ret_eofc; [assumption..|exact I].
Qed.

Definition ef_bm (x : bool * (N * bool)) : Prop := snd (snd x) = false.

(* the part of exponent_front after the sign *)
Lemma exponent_tail_dich pe s : inv C s ->
  dich C (ShP C ef_bm)
    (let* (o, s3) := next E1 s in
     match o with
     | None => error E1 s3 EofWhileParsingValue
     | Some c1 =>
       if is_digit c1 then
         let '(n, e, ov) := exp_loop (rest s3) (digit_val c1) in
         Ok (pe, (e, ov), advance n s3)
       else error E1 s3 InvalidNumber
     end)
    (let* (o, s3) := next E2 (ext C s) in
     match o with
     | None => error E2 s3 EofWhileParsingValue
     | Some c1 =>
       if is_digit c1 then
         let '(n, e, ov) := exp_loop (rest s3) (digit_val c1) in
         Ok (pe, (e, ov), advance n s3)
       else error E2 s3 InvalidNumber
     end).
Proof.
  intros Hi. apply (bind_dichP C (isNone C)); [now apply next_dich| |].
  - intros o s3 _ Hi3. cbv beta iota. destruct o as [c1|]; [|now apply error_dich].
    destruct (is_digit c1); [|now apply error_dich].
    rewrite rest_ext.
    destruct (exp_loop_cases (rest s3) (digit_val c1)) as [Hle [[Hb Hov] | Hin]].
    + destruct (exp_loop (rest s3) (digit_val c1)) as [[n e] ov]. cbn [fst snd] in *. subst ov.
      cbn [dich ShP iv tch ex fst snd]. split; [now apply inv_advance|]. right.
      split; [now apply touched_advance_all|reflexivity].
    + rewrite Hin. destruct (exp_loop (rest s3) (digit_val c1)) as [[n e] ov]. cbn [fst snd] in *.
      rewrite advance_ext by assumption. apply ret_dich. now apply inv_advance.
  - intros o s3 _ Hi3 Ht3 [-> Htm]. cbv beta iota. apply error_eofc; auto using eofish_val.
Qed.

Lemma exponent_front_dich s : inv C s -> live s ->
  dich C (ShP C ef_bm) (exponent_front E1 s) (exponent_front E2 (ext C s)).
Proof.
  intros Hi Hl. unfold exponent_front. cbv zeta. rewrite discard_ext by assumption.
  apply (bind_dichP C (isZero C)); [apply peek_or_null_dich; now apply inv_discard| |].
  - intros c s1 Hp Hi1. cbv beta iota. apply pon_okst in Hp. destruct Hp as [_ Hp].
    destruct (c =? 43) eqn:E43.
    { rewrite discard_ext by (apply Hp; lia). apply exponent_tail_dich. apply inv_discard; [assumption|apply Hp; lia]. }
    destruct (c =? 45) eqn:E45.
    { rewrite discard_ext by (apply Hp; lia). apply exponent_tail_dich. apply inv_discard; [assumption|apply Hp; lia]. }
    now apply exponent_tail_dich.
  - intros c s1 _ Hi1 Ht1 [-> Htm]. cbv beta iota. cbn [N.eqb].
    apply (bind_eofcP C (isNone C)); [now apply next_eofc|].
    intros o s3 _ Hi3 Ht3 [-> _]. cbv beta iota. apply error_eofc; auto using eofish_val.
Qed.

(* after the exponent digits: peek, then build the float *)
Lemma parse_exponent_dich positive sig se s : inv C s -> live s ->
  dich C (ShP C anyv) (parse_exponent E1 positive sig se s) (parse_exponent E2 positive sig se (ext C s)).
Proof.
  intros Hi Hl. unfold parse_exponent.
  apply (bind_dichP C ef_bm); [now apply exponent_front_dich| |].
  - intros [pe [e ov]] s1 _ Hi1. cbv beta iota. destruct ov; [now apply parse_exponent_overflow_dich|].
    apply (bind_dichP C (isZero C)); [now apply peek_or_null_dich| |].
    + intros c s2 Hp Hi2. cbv beta iota. apply dich_strict_any. apply f64_from_parts_dich; [assumption|].
      now apply pon_okst in Hp.
    + intros c s2 _ Hi2 Ht2 [_ Htm]. cbv beta iota. apply f64_from_parts_eofc; auto. intros; exact I.
  - intros [pe [e ov]] s1 _ Hi1 Ht1 Hbm. red in Hbm. cbn [fst snd] in Hbm. subst ov. cbv beta iota.
    apply (bind_eofcP C (isZero C)); [now apply peek_or_null_eofc|].
    intros c s2 _ Hi2 Ht2 [_ Htm]. cbv beta iota. apply f64_from_parts_eofc; auto. intros; exact I.
Qed.

Lemma peek_rest E s o s' : peek E s = Ok (o, s') -> rest s' = rest s.
Proof.
  unfold peek, at_end. destruct (rest s) eqn:Hr.
  - destruct (tm E); [|discriminate]. intros [= <- <-]. reflexivity.
  - intros [= <- <-]. reflexivity.
Qed.
Lemma pon_not_touched E s c s' : peek_or_null E s = Ok (c, s') -> live s -> ~ touched s'.
Proof.
  unfold peek_or_null. destruct (peek E s) as [[o s1]| | |] eqn:Hp; cbn [bind]; try discriminate.
  intros [= <- <-] Hl [Hr _]. apply peek_rest in Hp. unfold live in Hl. congruence.
Qed.
Lemma live_advance n s b r : skipn n (rest s) = b :: r -> live (advance n s).
Proof. unfold live, advance. cbn [rest]. congruence. Qed.

Lemma parse_long_exponent_dich positive integer fraction s : inv C s -> live s ->
  dich C (ShP C anyv) (parse_long_exponent E1 positive integer fraction s)
                      (parse_long_exponent E2 positive integer fraction (ext C s)).
Proof.
  intros Hi Hl. unfold parse_long_exponent.
  apply (bind_dichP C ef_bm); [now apply exponent_front_dich| |].
  - intros [pe [e ov]] s1 _ Hi1. cbv beta iota. destruct ov; [now apply parse_exponent_overflow_dich|].
    apply (bind_dichP C (isZero C)); [now apply peek_or_null_dich| |].
    + intros c s2 Hp Hi2. cbv beta iota. apply dich_strict_any. apply f64_long_from_parts_dich; [assumption|].
      now apply pon_okst in Hp.
    + intros c s2 _ Hi2 Ht2 [_ Htm]. cbv beta iota. apply f64_long_from_parts_eofc; auto. intros; exact I.
  - intros [pe [e ov]] s1 _ Hi1 Ht1 Hbm. red in Hbm. cbn [fst snd] in Hbm. subst ov. cbv beta iota.
    apply (bind_eofcP C (isZero C)); [now apply peek_or_null_eofc|].
    intros c s2 _ Hi2 Ht2 [_ Htm]. cbv beta iota. apply f64_long_from_parts_eofc; auto. intros; exact I.
Qed.

Lemma parse_long_decimal_dich positive integer fraction0 s : inv C s ->
  dich C (ShP C anyv) (parse_long_decimal E1 positive integer fraction0 s)
                      (parse_long_decimal E2 positive integer fraction0 (ext C s)).
Proof.
  intros Hi. unfold parse_long_decimal. cbv zeta. rewrite rest_ext.
  pose proof (span_len_le is_digit (rest s)) as Hle.
  destruct (span_cases is_digit (rest s)) as [Hb | (b & r & Hs & Hpb & Hn)].
  - apply dich_of_eofc.
    apply (bind_eofcP C (isZero C)); [apply peek_or_null_eofc; [now apply touched_advance_all|now apply inv_advance]|].
    intros c s1 _ Hi1 Ht1 [-> Htm]. cbv beta iota.
    destruct (fraction0 ++ firstn _ (rest s)); [now apply peek_invalid_eofc|].
    cbn [N.eqb orb]. apply f64_long_from_parts_eofc; auto. intros; exact I.
  - rewrite Hn, firstn_app_le, advance_ext by assumption.
    apply (bind_dichP C (isZero C)); [apply peek_or_null_dich; now apply inv_advance| |].
    + intros c s1 Hp Hi1. cbv beta iota. apply pon_okst in Hp. destruct Hp as [Hok Hlv].
      destruct (fraction0 ++ firstn _ (rest s)); [now apply peek_invalid_dich|].
      destruct ((c =? 101) || (c =? 69)) eqn:Ee.
      * apply parse_long_exponent_dich; [assumption|apply Hlv; lia].
      * apply dich_strict_any. now apply f64_long_from_parts_dich.
    + intros c s1 Hp Hi1 Ht1 _. exfalso. eapply pon_not_touched; [exact Hp|eapply live_advance; exact Hs|exact Ht1].
Qed.

Lemma parse_decimal_overflow_dich positive sig e s : inv C s ->
  dich C (ShP C anyv) (parse_decimal_overflow E1 positive sig e s) (parse_decimal_overflow E2 positive sig e (ext C s)).
Proof.
  intros Hi. unfold parse_decimal_overflow. cbn [cf].
  destruct (float_roundtrip cf0); [now apply parse_long_decimal_dich|].
  apply (bind_dichP C (isZero C)); [now apply skip_digits_dich| |].
  - intros c s1 Hp Hi1. cbv beta iota. apply skd_okst in Hp. destruct Hp as [Hok Hlv].
    destruct ((c =? 101) || (c =? 69)) eqn:Ee; [apply parse_exponent_dich; [assumption|apply Hlv; lia]|].
    apply dich_strict_any. now apply f64_from_parts_dich.
  - intros c s1 _ Hi1 Ht1 [-> Htm]. cbv beta iota. cbn [N.eqb orb]. apply f64_from_parts_eofc; auto. intros; exact I.
Qed.

Lemma parse_decimal_dich positive sig eb s : inv C s -> live s ->
  dich C (ShP C anyv) (parse_decimal E1 positive sig eb s) (parse_decimal E2 positive sig eb (ext C s)).
Proof.
  intros Hi Hl. unfold parse_decimal. cbv zeta. rewrite discard_ext by assumption. rewrite rest_ext.
  assert (Hi0 : inv C (discard s)) by now apply inv_discard.
  set (s0 := discard s) in *.
  destruct (sig_loop_cases (rest s0) sig) as [Hle [[Hb Hov] | [(b & r & Hs) Hin]]].
  - destruct (sig_loop (rest s0) sig) as [[n sg] ov]. cbn [fst snd] in *. subst ov.
    apply dich_of_eofc.
    apply (bind_eofcP C (isZero C)); [apply peek_or_null_eofc; [now apply touched_advance_all|now apply inv_advance]|].
    intros c s1 _ Hi1 Ht1 [-> Htm]. cbv beta iota.
    destruct (Nat.eqb n 0); [now apply peek_invalid_eofc|].
    cbn [N.eqb orb]. apply f64_from_parts_eofc; auto. intros; exact I.
  - rewrite Hin. destruct (sig_loop (rest s0) sig) as [[n sg] ov]. cbn [fst snd] in *.
    rewrite advance_ext by assumption.
    apply (bind_dichP C (isZero C)); [apply peek_or_null_dich; now apply inv_advance| |].
    + intros c s1 Hp Hi1. cbv beta iota. apply pon_okst in Hp. destruct Hp as [Hok Hlv].
      destruct ov; [now apply parse_decimal_overflow_dich|].
      destruct (Nat.eqb n 0); [now apply peek_invalid_dich|].
      destruct ((c =? 101) || (c =? 69)) eqn:Ee; [apply parse_exponent_dich; [assumption|apply Hlv; lia]|].
      apply dich_strict_any. now apply f64_from_parts_dich.
    + intros c s1 Hp Hi1 Ht1 _. exfalso. eapply pon_not_touched; [exact Hp|eapply live_advance; exact Hs|exact Ht1].
Qed.

Lemma parse_long_integer_dich positive sig s : inv C s ->
  dich C (ShP C anyv) (parse_long_integer E1 positive sig s) (parse_long_integer E2 positive sig (ext C s)).
Proof.
  intros Hi. unfold parse_long_integer. cbv zeta. cbn [cf]. rewrite rest_ext.
  pose proof (span_len_le is_digit (rest s)) as Hle.
  destruct (span_cases is_digit (rest s)) as [Hb | (b & r & Hs & Hpb & Hn)].
  - apply dich_of_eofc.
    apply (bind_eofcP C (isZero C)); [apply peek_or_null_eofc; [now apply touched_advance_all|now apply inv_advance]|].
    intros c s1 _ Hi1 Ht1 [-> Htm]. cbv beta iota. cbn [N.eqb orb].
    destruct (float_roundtrip cf0).
    + apply f64_long_from_parts_eofc; auto. intros; exact I.
    + apply f64_from_parts_eofc; auto. intros; exact I.
  - rewrite Hn, firstn_app_le, advance_ext by assumption.
    apply (bind_dichP C (isZero C)); [apply peek_or_null_dich; now apply inv_advance| |].
    + intros c s1 Hp Hi1. cbv beta iota. apply pon_okst in Hp. destruct Hp as [Hok Hlv].
      destruct (float_roundtrip cf0).
      * destruct (c =? 46) eqn:E46.
        { rewrite discard_ext by (apply Hlv; lia). apply parse_long_decimal_dich. apply inv_discard; [assumption|apply Hlv; lia]. }
        destruct ((c =? 101) || (c =? 69)) eqn:Ee; [apply parse_long_exponent_dich; [assumption|apply Hlv; lia]|].
        apply dich_strict_any. now apply f64_long_from_parts_dich.
      * destruct (c =? 46) eqn:E46; [apply parse_decimal_dich; [assumption|apply Hlv; lia]|].
        destruct ((c =? 101) || (c =? 69)) eqn:Ee; [apply parse_exponent_dich; [assumption|apply Hlv; lia]|].
        apply dich_strict_any. now apply f64_from_parts_dich.
    + intros c s1 Hp Hi1 Ht1 _. exfalso. eapply pon_not_touched; [exact Hp|eapply live_advance; exact Hs|exact Ht1].
Qed.

(* ---------- parse_number / parse_integer ---------- *)
Lemma parse_number_tail_eofc positive sig s1 : inv C s1 -> touched s1 ->
  eofc C (ShP C anyv)
    (if 0 =? 46 then let* (f, s2) := parse_decimal E1 positive sig 0 s1 in Ok (PF64 f, s2)
     else if (0 =? 101) || (0 =? 69) then let* (f, s2) := parse_exponent E1 positive sig 0 s1 in Ok (PF64 f, s2)
     else if positive then Ok (PU64 sig, s1)
     else
       let as_i64 := wrap_i64 (Z.of_N sig) in
       let neg := wrap_i64 (- as_i64) in
       if (0 <=? neg)%Z then Ok (PF64 (b64_neg (b64_of_Z (Z.of_N sig))), s1)
       else Ok (PI64 neg, s1)).
Proof.
  intros Hi Ht. cbn [N.eqb orb]. cbv zeta.
  destruct positive; [apply ret_eofc; auto; exact I|].
  destruct (0 <=? _)%Z; apply ret_eofc; auto; exact I.
Qed.

Lemma parse_number_dich positive sig s : inv C s ->
  dich C (ShP C anyv) (parse_number E1 positive sig s) (parse_number E2 positive sig (ext C s)).
Proof.
  intros Hi. unfold parse_number.
  apply (bind_dichP C (isZero C)); [now apply peek_or_null_dich| |].
  - intros c s1 Hp Hi1. cbv beta iota zeta. apply pon_okst in Hp. destruct Hp as [Hok Hlv].
    destruct (c =? 46) eqn:E46.
    { apply (bind_dichP C anyv); [apply parse_decimal_dich; [assumption|apply Hlv; lia]| |].
      - intros f s2 _ Hi2. cbv beta iota. now apply ret_dich.
      - intros f s2 _ Hi2 Ht2 _. cbv beta iota. apply ret_eofc; auto; exact I. }
    destruct ((c =? 101) || (c =? 69)) eqn:Ee.
    { apply (bind_dichP C anyv); [apply parse_exponent_dich; [assumption|apply Hlv; lia]| |].
      - intros f s2 _ Hi2. cbv beta iota. now apply ret_dich.
      - intros f s2 _ Hi2 Ht2 _. cbv beta iota. apply ret_eofc; auto; exact I. }
    destruct positive; [now apply ret_dich|].
    destruct (0 <=? _)%Z; now apply ret_dich.
  - intros c s1 _ Hi1 Ht1 [-> Htm]. cbv beta iota. now apply parse_number_tail_eofc.
Qed.

Lemma parse_number_eofc positive sig s : inv C s -> touched s ->
  eofc C (ShP C anyv) (parse_number E1 positive sig s).
Proof.
  intros Hi Ht. unfold parse_number.
  apply (bind_eofcP C (isZero C)); [now apply peek_or_null_eofc|].
  intros c s1 _ Hi1 Ht1 [-> Htm]. cbv beta iota. now apply parse_number_tail_eofc.
Qed.

Lemma parse_integer_dich positive s : inv C s ->
  dich C (ShP C anyv) (parse_integer E1 positive s) (parse_integer E2 positive (ext C s)).
Proof.
  intros Hi. unfold parse_integer.
  apply (bind_dichP C (isNone C)); [now apply next_dich| |].
  2:{ intros o s1 _ Hi1 Ht1 [-> Htm]. cbv beta iota. apply error_eofc; auto using eofish_val. }
  intros o s1 _ Hi1. cbv beta iota. destruct o as [c|]; [|now apply error_dich].
  destruct (c =? 48).
  { apply (bind_dichP C (isZero C)); [now apply peek_or_null_dich| |].
    - intros c2 s2 Hp Hi2. cbv beta iota. apply pon_okst in Hp. destruct Hp as [Hok Hlv].
      destruct (is_digit c2) eqn:Hd; [|now apply parse_number_dich].
      apply peek_error_dich; [assumption|]. left. apply Hlv. now apply is_digit_nz.
    - intros c2 s2 _ Hi2 Ht2 [-> Htm]. cbv beta iota. change (is_digit 0) with false. cbv iota.
      now apply parse_number_eofc. }
  destruct (is_digit19 c); [|now apply error_dich].
  rewrite rest_ext.
  destruct (sig_loop_cases (rest s1) (digit_val c)) as [Hle [[Hb Hov] | [(b & r & Hs) Hin]]].
  - destruct (sig_loop (rest s1) (digit_val c)) as [[n sg] ov]. cbn [fst snd] in *. subst ov.
    apply dich_of_eofc.
    apply (bind_eofcP C (isZero C)); [apply peek_or_null_eofc; [now apply touched_advance_all|now apply inv_advance]|].
    intros c2 s2 _ Hi2 Ht2 _. cbv beta iota. now apply parse_number_eofc.
  - rewrite Hin. destruct (sig_loop (rest s1) (digit_val c)) as [[n sg] ov]. cbn [fst snd] in *.
    rewrite advance_ext by assumption.
    apply (bind_dichP C (isZero C)); [apply peek_or_null_dich; now apply inv_advance| |].
    + intros c2 s2 Hp Hi2. cbv beta iota. destruct ov; [|now apply parse_number_dich].
      apply (bind_dichP C anyv); [now apply parse_long_integer_dich| |].
      * intros f s3 _ Hi3. cbv beta iota. now apply ret_dich.
      * intros f s3 _ Hi3 Ht3 _. cbv beta iota. apply ret_eofc; auto; exact I.
    + intros c2 s2 Hp Hi2 Ht2 _. exfalso. eapply pon_not_touched; [exact Hp|eapply live_advance; exact Hs|exact Ht2].
Qed.

(* ---------- arbitrary_precision: scan_* ---------- *)
Lemma scan_or_eof_dich s : inv C s ->
  dich C (ShP C nov) (scan_or_eof E1 s) (scan_or_eof E2 (ext C s)).
Proof.
  intros Hi. unfold scan_or_eof.
  apply (bind_dichP C (isNone C)); [now apply next_dich| |].
  - intros o s1 _ Hi1. cbv beta iota. destruct o; [now apply ret_dich|now apply error_dich].
  - intros o s1 _ Hi1 Ht [-> Htm]. cbv beta iota. apply error_eofc; auto using eofish_val.
Qed.

Lemma scan_exponent_tail_dich (e : N) (sgn : bytes) s : inv C s ->
  dich C (ShP C anyv)
    (let* (d, s3) := scan_or_eof E1 s in
     if is_digit d then
       let n := span_len is_digit (rest s3) in
       let* (_, s4) := peek_or_null E1 (advance n s3) in
       Ok (e :: sgn ++ d :: firstn n (rest s3), s4)
     else error E1 s3 InvalidNumber)
    (let* (d, s3) := scan_or_eof E2 (ext C s) in
     if is_digit d then
       let n := span_len is_digit (rest s3) in
       let* (_, s4) := peek_or_null E2 (advance n s3) in
       Ok (e :: sgn ++ d :: firstn n (rest s3), s4)
     else error E2 s3 InvalidNumber).
Proof.
  intros Hi. apply bind_dich_strict; [now apply scan_or_eof_dich|].
  intros d s3 _ Hi3. cbv beta iota zeta. destruct (is_digit d); [|now apply error_dich].
  rewrite rest_ext.
  pose proof (span_len_le is_digit (rest s3)) as Hle.
  destruct (span_cases is_digit (rest s3)) as [Hb | (b & r & Hs & Hpb & Hn)].
  - apply dich_of_eofc.
    apply (bind_eofcP C (isZero C)); [apply peek_or_null_eofc; [now apply touched_advance_all|now apply inv_advance]|].
    intros c s4 _ Hi4 Ht4 _. cbv beta iota. apply ret_eofc; auto; exact I.
  - rewrite Hn, firstn_app_le, advance_ext by assumption.
    apply (bind_dichP C (isZero C)); [apply peek_or_null_dich; now apply inv_advance| |].
    + intros c s4 _ Hi4. cbv beta iota. now apply ret_dich.
    + intros c s4 _ Hi4 Ht4 _. cbv beta iota. apply ret_eofc; auto; exact I.
Qed.

Lemma scan_exponent_dich e s : inv C s -> live s ->
  dich C (ShP C anyv) (scan_exponent E1 e s) (scan_exponent E2 e (ext C s)).
Proof.
  intros Hi Hl. unfold scan_exponent. cbv zeta. rewrite discard_ext by assumption.
  apply (bind_dichP C (isZero C)); [apply peek_or_null_dich; now apply inv_discard| |].
  - intros c s1 Hp Hi1. cbv beta iota. apply pon_okst in Hp. destruct Hp as [_ Hp].
    destruct (c =? 43) eqn:E43.
    { rewrite discard_ext by (apply Hp; lia). apply scan_exponent_tail_dich. apply inv_discard; [assumption|apply Hp; lia]. }
    destruct (c =? 45) eqn:E45.
    { rewrite discard_ext by (apply Hp; lia). apply scan_exponent_tail_dich. apply inv_discard; [assumption|apply Hp; lia]. }
    now apply scan_exponent_tail_dich.
  - intros c s1 _ Hi1 Ht1 [-> Htm]. cbv beta iota. cbn [N.eqb].
    unfold scan_or_eof. rewrite bind_assoc.
    apply (bind_eofcP C (isNone C)); [now apply next_eofc|].
    intros o s3 _ Hi3 Ht3 [-> _]. cbv beta iota. cbn [bind]. apply error_eofc; auto using eofish_val.
Qed.

Lemma scan_decimal_dich s : inv C s -> live s ->
  dich C (ShP C anyv) (scan_decimal E1 s) (scan_decimal E2 (ext C s)).
Proof.
  intros Hi Hl. unfold scan_decimal. cbv zeta. rewrite discard_ext by assumption. rewrite rest_ext.
  assert (Hi0 : inv C (discard s)) by now apply inv_discard.
  set (s0 := discard s) in *.
  pose proof (span_len_le is_digit (rest s0)) as Hle.
  destruct (span_cases is_digit (rest s0)) as [Hb | (b & r & Hs & Hpb & Hn)].
  - apply dich_of_eofc.
    apply (bind_eofcP C (isZero C)); [apply peek_or_null_eofc; [now apply touched_advance_all|now apply inv_advance]|].
    intros c s1 _ Hi1 Ht1 [-> Htm]. cbv beta iota.
    destruct (Nat.eqb _ 0); [now apply peek_invalid_eofc|].
    cbn [N.eqb orb]. apply ret_eofc; auto; exact I.
  - rewrite Hn, firstn_app_le, advance_ext by assumption.
    apply (bind_dichP C (isZero C)); [apply peek_or_null_dich; now apply inv_advance| |].
    + intros c s1 Hp Hi1. cbv beta iota. apply pon_okst in Hp. destruct Hp as [Hok Hlv].
      destruct (Nat.eqb _ 0); [now apply peek_invalid_dich|].
      destruct ((c =? 101) || (c =? 69)) eqn:Ee; [|now apply ret_dich].
      apply (bind_dichP C anyv); [apply scan_exponent_dich; [assumption|apply Hlv; lia]| |].
      * intros ex s2 _ Hi2. cbv beta iota. now apply ret_dich.
      * intros ex s2 _ Hi2 Ht2 _. cbv beta iota. apply ret_eofc; auto; exact I.
    + intros c s1 Hp Hi1 Ht1 _. exfalso. eapply pon_not_touched; [exact Hp|eapply live_advance; exact Hs|exact Ht1].
Qed.

Lemma scan_number_dich s : inv C s ->
  dich C (ShP C anyv) (scan_number E1 s) (scan_number E2 (ext C s)).
Proof.
  intros Hi. unfold scan_number.
  apply (bind_dichP C (isZero C)); [now apply peek_or_null_dich| |].
  - intros c s1 Hp Hi1. cbv beta iota. apply pon_okst in Hp. destruct Hp as [Hok Hlv].
    destruct (c =? 46) eqn:E46; [apply scan_decimal_dich; [assumption|apply Hlv; lia]|].
    destruct ((c =? 101) || (c =? 69)) eqn:Ee; [apply scan_exponent_dich; [assumption|apply Hlv; lia]|].
    now apply ret_dich.
  - intros c s1 _ Hi1 Ht1 [-> Htm]. cbv beta iota. cbn [N.eqb orb]. apply ret_eofc; auto; exact I.
Qed.

Lemma scan_number_eofc s : inv C s -> touched s -> eofc C (ShP C anyv) (scan_number E1 s).
Proof.
  intros Hi Ht. unfold scan_number.
  apply (bind_eofcP C (isZero C)); [now apply peek_or_null_eofc|].
  intros c s1 _ Hi1 Ht1 [-> Htm]. cbv beta iota. cbn [N.eqb orb]. apply ret_eofc; auto; exact I.
Qed.

Lemma scan_integer_dich s : inv C s ->
  dich C (ShP C anyv) (scan_integer E1 s) (scan_integer E2 (ext C s)).
Proof.
  intros Hi. unfold scan_integer.
  apply bind_dich_strict; [now apply scan_or_eof_dich|].
  intros c s1 _ Hi1. cbv beta iota zeta.
  destruct (c =? 48).
  { apply (bind_dichP C (isZero C)); [now apply peek_or_null_dich| |].
    - intros c2 s2 Hp Hi2. cbv beta iota. apply pon_okst in Hp. destruct Hp as [Hok Hlv].
      destruct (is_digit c2) eqn:Hd.
      + apply peek_error_dich; [assumption|]. left. apply Hlv. now apply is_digit_nz.
      + apply (bind_dichP C anyv); [now apply scan_number_dich| |].
        * intros tl s3 _ Hi3. cbv beta iota. now apply ret_dich.
        * intros tl s3 _ Hi3 Ht3 _. cbv beta iota. apply ret_eofc; auto; exact I.
    - intros c2 s2 _ Hi2 Ht2 [-> Htm]. cbv beta iota. change (is_digit 0) with false. cbv iota.
      apply (bind_eofcP C anyv); [now apply scan_number_eofc|].
      intros tl s3 _ Hi3 Ht3 _. cbv beta iota. apply ret_eofc; auto; exact I. }
  destruct (is_digit19 c); [|now apply error_dich].
  rewrite rest_ext.
  pose proof (span_len_le is_digit (rest s1)) as Hle.
  destruct (span_cases is_digit (rest s1)) as [Hb | (b & r & Hs & Hpb & Hn)].
  - apply dich_of_eofc.
    apply (bind_eofcP C (isZero C)); [apply peek_or_null_eofc; [now apply touched_advance_all|now apply inv_advance]|].
    intros c2 s2 _ Hi2 Ht2 _. cbv beta iota.
    apply (bind_eofcP C anyv); [now apply scan_number_eofc|].
    intros tl s3 _ Hi3 Ht3 _. cbv beta iota. apply ret_eofc; auto; exact I.
  - rewrite Hn, firstn_app_le, advance_ext by assumption.
    apply (bind_dichP C (isZero C)); [apply peek_or_null_dich; now apply inv_advance| |].
    + intros c2 s2 _ Hi2. cbv beta iota.
      apply (bind_dichP C anyv); [now apply scan_number_dich| |].
      * intros tl s3 _ Hi3. cbv beta iota. now apply ret_dich.
      * intros tl s3 _ Hi3 Ht3 _. cbv beta iota. apply ret_eofc; auto; exact I.
    + intros c2 s2 _ Hi2 Ht2 _. cbv beta iota.
      apply (bind_eofcP C anyv); [now apply scan_number_eofc|].
      intros tl s3 _ Hi3 Ht3 _. cbv beta iota. apply ret_eofc; auto; exact I.
Qed.

Lemma parse_any_number_dich positive s : inv C s ->
  dich C (ShP C anyv) (parse_any_number E1 positive s) (parse_any_number E2 positive (ext C s)).
Proof.
  intros Hi. unfold parse_any_number. cbn [cf].
  destruct (arbitrary_precision cf0); [|now apply parse_integer_dich].
  apply (bind_dichP C anyv); [now apply scan_integer_dich| |].
  - intros buf s1 _ Hi1. cbv beta iota zeta.
    repeat match goal with |- context [if ?b then _ else _] => destruct b end; now apply ret_dich.
  - intros buf s1 _ Hi1 Ht1 _. cbv beta iota zeta.
    repeat match goal with |- context [if ?b then _ else _] => destruct b end; apply ret_eofc; auto; exact I.
Qed.

(* ---------- ignore_integer / ignore_decimal / ignore_exponent ---------- *)
Lemma ignore_exponent_tail_dich s : inv C s ->
  dich C (ShS C)
    (let* (o, s3) := next E1 s in
     match o with
     | None => error E1 s3 EofWhileParsingValue
     | Some d => if is_digit d then let* (_, s4) := skip_digits E1 s3 in Ok s4 else error E1 s3 InvalidNumber
     end)
    (let* (o, s3) := next E2 (ext C s) in
     match o with
     | None => error E2 s3 EofWhileParsingValue
     | Some d => if is_digit d then let* (_, s4) := skip_digits E2 s3 in Ok s4 else error E2 s3 InvalidNumber
     end).
Proof.
  intros Hi. apply (bind_dichP C (isNone C)); [now apply next_dich| |].
  - intros o s3 _ Hi3. cbv beta iota. destruct o as [d|]; [|now apply error_dich].
    destruct (is_digit d); [|now apply error_dich].
    apply (bind_dichP C (isZero C)); [now apply skip_digits_dich| |].
    + intros c s4 _ Hi4. cbv beta iota. now apply retS_dich.
    + intros c s4 _ Hi4 Ht4 _. cbv beta iota. now apply retS_eofc.
  - intros o s3 _ Hi3 Ht3 [-> Htm]. cbv beta iota. apply error_eofc; auto using eofish_val.
Qed.

Lemma ignore_exponent_dich s : inv C s -> live s ->
  dich C (ShS C) (ignore_exponent E1 s) (ignore_exponent E2 (ext C s)).
Proof.
  intros Hi Hl. unfold ignore_exponent. cbv zeta. rewrite discard_ext by assumption.
  apply (bind_dichP C (isZero C)); [apply peek_or_null_dich; now apply inv_discard| |].
  - intros c s1 Hp Hi1. cbv beta iota. apply pon_okst in Hp. destruct Hp as [_ Hp].
    destruct ((c =? 43) || (c =? 45)) eqn:Es; [|now apply ignore_exponent_tail_dich].
    rewrite discard_ext by (apply Hp; lia). apply ignore_exponent_tail_dich. apply inv_discard; [assumption|apply Hp; lia].
  - intros c s1 _ Hi1 Ht1 [-> Htm]. cbv beta iota. cbn [N.eqb orb].
    apply (bind_eofcP C (isNone C)); [now apply next_eofc|].
    intros o s3 _ Hi3 Ht3 [-> _]. cbv beta iota. apply error_eofc; auto using eofish_val.
Qed.

Lemma ignore_decimal_dich s : inv C s -> live s ->
  dich C (ShS C) (ignore_decimal E1 s) (ignore_decimal E2 (ext C s)).
Proof.
  intros Hi Hl. unfold ignore_decimal. cbv zeta. rewrite discard_ext by assumption. rewrite rest_ext.
  assert (Hi0 : inv C (discard s)) by now apply inv_discard.
  set (s0 := discard s) in *.
  pose proof (span_len_le is_digit (rest s0)) as Hle.
  destruct (span_cases is_digit (rest s0)) as [Hb | (b & r & Hs & Hpb & Hn)].
  - apply dich_of_eofc.
    apply (bind_eofcP C (isZero C)); [apply peek_or_null_eofc; [now apply touched_advance_all|now apply inv_advance]|].
    intros c s1 _ Hi1 Ht1 [-> Htm]. cbv beta iota.
    destruct (Nat.eqb _ 0); [now apply peek_invalid_eofc|].
    cbn [N.eqb orb]. now apply retS_eofc.
  - rewrite Hn, advance_ext by assumption.
    apply (bind_dichP C (isZero C)); [apply peek_or_null_dich; now apply inv_advance| |].
    + intros c s1 Hp Hi1. cbv beta iota. apply pon_okst in Hp. destruct Hp as [Hok Hlv].
      destruct (Nat.eqb _ 0); [now apply peek_invalid_dich|].
      destruct ((c =? 101) || (c =? 69)) eqn:Ee; [|now apply retS_dich].
      apply ignore_exponent_dich; [assumption|apply Hlv; lia].
    + intros c s1 Hp Hi1 Ht1 _. exfalso. eapply pon_not_touched; [exact Hp|eapply live_advance; exact Hs|exact Ht1].
Qed.

Lemma ignore_integer_dich s : inv C s ->
  dich C (ShS C) (ignore_integer E1 s) (ignore_integer E2 (ext C s)).
Proof.
  intros Hi. unfold ignore_integer.
  apply (bind_dichP C (isNone C)); [now apply next_dich| |].
  2:{ intros o s1 _ Hi1 Ht1 [-> Htm]. cbv beta iota. apply error_eofc; auto using eofish_val. }
  intros o s1 _ Hi1. cbv beta iota. destruct o as [c|]; [|now apply error_dich].
  apply (bind_dichP C (isZero C)).
  - destruct (c =? 48).
    + apply (bind_dichP C (isZero C)); [now apply peek_or_null_dich| |].
      * intros c2 s2 Hp Hi2. cbv beta iota. apply pon_okst in Hp. destruct Hp as [Hok Hlv].
        destruct (is_digit c2) eqn:Hd; [|now apply ret_dich].
        apply peek_error_dich; [assumption|]. left. apply Hlv. now apply is_digit_nz.
      * intros c2 s2 _ Hi2 Ht2 Hz. cbv beta iota. destruct Hz as [-> Htm]. change (is_digit 0) with false. cbv iota.
        apply ret_eofc; auto. split; auto.
    + destruct (is_digit19 c); [now apply skip_digits_dich|now apply error_dich].
  - intros c2 s2 Hp Hi2. cbv beta iota.
    assert (Hlv : c2 <> 0 -> live s2).
    { destruct (c =? 48).
      - destruct (peek_or_null E1 s1) as [[c3 s3]| | |] eqn:Hp3; cbn [bind] in Hp; try discriminate.
        destruct (is_digit c3); [discriminate|]. injection Hp as <- <-. now apply pon_okst in Hp3.
      - destruct (is_digit19 c); [now apply skd_okst in Hp|discriminate]. }
    destruct (c2 =? 46) eqn:E46; [apply ignore_decimal_dich; [assumption|apply Hlv; lia]|].
    destruct ((c2 =? 101) || (c2 =? 69)) eqn:Ee; [apply ignore_exponent_dich; [assumption|apply Hlv; lia]|].
    now apply retS_dich.
  - intros c2 s2 _ Hi2 Ht2 [-> Htm]. cbv beta iota. cbn [N.eqb orb]. now apply retS_eofc.
Qed.

End DichNum.
