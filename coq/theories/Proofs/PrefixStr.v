(* Proofs/PrefixStr.v — prefix dichotomy, part 2: Model/Str.v.
   Every string function is STRICT: it returns Ok only after having seen the closing quote (or the last
   byte of an escape), so a successful prefix run is always reproduced by the extended run; failures are
   either reproduced or are the boundary outcome (EofWhileParsingString at the end / the injected Io error). *)
From SJ Require Import Base.Bytes Base.FloatB Base.Utf8 Gen.Tables Model.Read Model.Str Proofs.PrefixBase.
Require Import Lia ZifyBool ZifyNat ZifyN.
Open Scope N_scope.

Section DichStr.
Variable C : ctx.
Notation rk0 := (c_rk C).
Notation cf0 := (c_cf C).
Notation tm1 := (c_tm1 C).
Notation tm2 := (c_tm2 C).
Notation t := (c_t C).
Notation L := (c_L C).
Notation E1 := (mkEnv (c_rk C) (c_tm1 C) (c_cf C)).
Notation E2 := (mkEnv (c_rk C) (c_tm2 C) (c_cf C)).

Lemma eofish_str : eofish EofWhileParsingString.
Proof. left; reflexivity. Qed.

Lemma next_or_eof_dich s : inv C s ->
  dich C (ShP C nov) (next_or_eof E1 s) (next_or_eof E2 (ext C s)).
Proof.
  intros Hi. unfold next_or_eof.
  apply (bind_dichP C (isNone C)); [now apply next_dich| |].
  - intros o s1 _ Hi1. cbv beta iota. destruct o; [now apply ret_dich|now apply error_dich].
  - intros o s1 _ Hi1 Ht [-> Htm]. cbv beta iota. apply error_eofc; auto using eofish_str.
Qed.

Lemma next_or_eof_spec E s b s' : next_or_eof E s = Ok (b, s') -> pk s' = false.
Proof.
  unfold next_or_eof. destruct (next E s) as [[o s1]| | |] eqn:Hn; cbn [bind]; try discriminate.
  destruct o; [|discriminate]. intros [= <- <-]. now apply next_spec in Hn.
Qed.

Lemma peek_or_eof_dich s : inv C s ->
  dich C (ShP C nov) (peek_or_eof E1 s) (peek_or_eof E2 (ext C s)).
Proof.
  intros Hi. unfold peek_or_eof.
  apply (bind_dichP C (isNone C)); [now apply peek_dich| |].
  - intros o s1 _ Hi1. cbv beta iota. destruct o; [now apply ret_dich|now apply error_dich].
  - intros o s1 _ Hi1 Ht [-> Htm]. cbv beta iota. apply error_eofc; auto using eofish_str.
Qed.

Lemma peek_or_eof_spec E s b s' : peek_or_eof E s = Ok (b, s') -> live s'.
Proof.
  unfold peek_or_eof. destruct (peek E s) as [[o s1]| | |] eqn:Hn; cbn [bind]; try discriminate.
  destruct o; [|discriminate]. intros [= <- <-]. apply peek_spec in Hn. destruct Hn as (r & Hr & _).
  unfold live. congruence.
Qed.

(* --- decode_hex_escape: the slice reader looks at four bytes at once --- *)
Lemma decode_hex_escape_dich s : inv C s ->
  dich C (ShP C nov) (decode_hex_escape E1 s) (decode_hex_escape E2 (ext C s)).
Proof.
  intros Hi. unfold decode_hex_escape.
  assert (Hio : is_io E2 = is_io E1) by reflexivity. rewrite Hio.
  destruct (is_io E1) eqn:Eio.
  - apply bind_dich_strict; [now apply next_or_eof_dich|]. intros a s1 _ Hi1. cbv beta iota.
    apply bind_dich_strict; [now apply next_or_eof_dich|]. intros b s2 _ Hi2. cbv beta iota.
    apply bind_dich_strict; [now apply next_or_eof_dich|]. intros c s3 _ Hi3. cbv beta iota.
    apply bind_dich_strict; [now apply next_or_eof_dich|]. intros d s4 _ Hi4. cbv beta iota.
    destruct (decode_four_hex a b c d); [now apply ret_dich|now apply error_dich].
  - assert (Hsl : forall n, (n <= length (rest s))%nat ->
        dich C (ShP C (@nov N)) (error E1 (advance n s) EofWhileParsingString)
                                (error E2 (advance n (ext C s)) EofWhileParsingString)).
    { intros n Hn. rewrite advance_ext by assumption. apply error_dich. now apply inv_advance. }
    assert (Hend : forall rpt, dich C (ShP C (@nov N)) (error E1 (advance (length (rest s)) s) EofWhileParsingString) rpt).
    { intros rpt. unfold error. cbn [dich]. unfold err_idx. rewrite Eio. unfold advance. cbn [off].
      destruct Hi as [Hi _]. split; [lia|]. right. unfold bnd.
      unfold is_io in Eio. cbn [rk] in Eio.
      destruct tm1; [split; [apply eofish_str|lia]|]. destruct rk0; [exact I|exact I|discriminate]. }
    destruct (rest s) as [|a [|b [|c [|d r]]]] eqn:Hr; try apply Hend.
    unfold ext at 1. cbn [rest]. rewrite Hr. cbn [app].
    assert (H4 : (4 <= length (rest s))%nat) by (rewrite Hr; cbn [length]; lia).
    rewrite advance_ext by assumption.
    destruct (decode_four_hex a b c d).
    + apply ret_dich. now apply inv_advance.
    + apply error_dich. now apply inv_advance.
Qed.

Lemma push_wtf8_no_err n c i : push_wtf8 n <> Err c i.
Proof. unfold push_wtf8. repeat match goal with |- context [if ?b then _ else _] => destruct b end; discriminate. Qed.

Lemma parse_escape_nonu_dich s : inv C s ->
  dich C (ShP C nov) (parse_escape_nonu E1 s) (parse_escape_nonu E2 (ext C s)).
Proof.
  intros Hi. unfold parse_escape_nonu.
  apply bind_dich_strict; [now apply next_or_eof_dich|]. intros ch s1 _ Hi1. cbv beta iota.
  destruct (escape_simple ch); [now apply ret_dich|now apply error_dich].
Qed.

Lemma unicode_loop_dich validate : forall f f' n s, (f <= f')%nat -> inv C s ->
  dich C (ShP C nov) (unicode_loop f E1 validate n s) (unicode_loop f' E2 validate n (ext C s)).
Proof.
  induction f as [|f IH]; intros f' n s Hf Hi; [exact I|].
  destruct f' as [|f']; [lia|]. assert (Hf' : (f <= f')%nat) by lia.
  cbn [unicode_loop].
  destruct ((n <? 55296) || (56319 <? n)).
  { apply bind_dich_pure; [apply push_wtf8_no_err|]. intros w _. now apply ret_dich. }
  apply bind_dich_strict; [now apply peek_or_eof_dich|]. intros b s1 Hp1 Hi1. cbv beta iota zeta.
  apply peek_or_eof_spec in Hp1.
  destruct (b =? 92).
  2:{ destruct validate.
      - rewrite discard_ext by assumption. apply error_dich. now apply inv_discard.
      - apply bind_dich_pure; [apply push_wtf8_no_err|]. intros w _. now apply ret_dich. }
  rewrite discard_ext by assumption.
  apply bind_dich_strict; [apply peek_or_eof_dich; now apply inv_discard|]. intros b2 s3 Hp3 Hi3. cbv beta iota zeta.
  apply peek_or_eof_spec in Hp3.
  destruct (b2 =? 117).
  2:{ destruct validate.
      - rewrite discard_ext by assumption. apply error_dich. now apply inv_discard.
      - apply bind_dich_pure; [apply push_wtf8_no_err|]. intros w _.
        apply bind_dich_strict; [now apply parse_escape_nonu_dich|]. intros w' s4 _ Hi4. cbv beta iota.
        now apply ret_dich. }
  rewrite discard_ext by assumption.
  apply bind_dich_strict; [apply decode_hex_escape_dich; now apply inv_discard|]. intros n2 s5 _ Hi5. cbv beta iota zeta.
  destruct ((n2 <? 56320) || (57343 <? n2)).
  - destruct validate; [now apply error_dich|].
    apply bind_dich_pure; [apply push_wtf8_no_err|]. intros w _.
    apply bind_dich_strict; [now apply IH|]. intros w' s6 _ Hi6. cbv beta iota. now apply ret_dich.
  - apply bind_dich_pure; [apply push_wtf8_no_err|]. intros w _. now apply ret_dich.
Qed.

Lemma parse_unicode_escape_dich validate f f' s : (f <= f')%nat -> inv C s ->
  dich C (ShP C nov) (parse_unicode_escape f E1 validate s) (parse_unicode_escape f' E2 validate (ext C s)).
Proof.
  intros Hf Hi. unfold parse_unicode_escape.
  apply bind_dich_strict; [now apply decode_hex_escape_dich|]. intros n s1 _ Hi1. cbv beta iota.
  destruct (validate && (56320 <=? n) && (n <=? 57343)); [now apply error_dich|now apply unicode_loop_dich].
Qed.

Lemma parse_escape_dich validate f f' s : (f <= f')%nat -> inv C s ->
  dich C (ShP C nov) (parse_escape f E1 validate s) (parse_escape f' E2 validate (ext C s)).
Proof.
  intros Hf Hi. unfold parse_escape.
  apply bind_dich_strict; [now apply next_or_eof_dich|]. intros ch s1 _ Hi1. cbv beta iota.
  destruct (ch =? 117); [now apply parse_unicode_escape_dich|].
  destruct (escape_simple ch); [now apply ret_dich|now apply error_dich].
Qed.

Lemma ignore_escape_dich s : inv C s ->
  dich C (ShSn C) (ignore_escape E1 s) (ignore_escape E2 (ext C s)).
Proof.
  intros Hi. unfold ignore_escape.
  apply bind_dich_strict; [now apply next_or_eof_dich|]. intros ch s1 _ Hi1. cbv beta iota.
  destruct (ch =? 117).
  - apply bind_dich_strict; [now apply decode_hex_escape_dich|]. intros n s2 _ Hi2. cbv beta iota. now apply retSn_dich.
  - destruct (escape_simple ch); [now apply retSn_dich|now apply error_dich].
Qed.

(* --- the io loops --- *)
Lemma io_str_loop_dich validate : forall f f' s, (f <= f')%nat -> inv C s ->
  dich C (ShP C nov) (io_str_loop f E1 validate s) (io_str_loop f' E2 validate (ext C s)).
Proof.
  induction f as [|f IH]; intros f' s Hf Hi; [exact I|].
  destruct f' as [|f']; [lia|]. assert (Hf' : (f <= f')%nat) by lia.
  cbn [io_str_loop].
  apply bind_dich_strict; [now apply next_or_eof_dich|]. intros ch s1 _ Hi1. cbv beta iota.
  assert (Hrec : dich C (ShP C nov)
     (let* (out, s2) := io_str_loop f E1 validate s1 in Ok (ch :: out, s2))
     (let* (out, s2) := io_str_loop f' E2 validate (ext C s1) in Ok (ch :: out, s2))).
  { apply bind_dich_strict; [now apply IH|]. intros out s2 _ Hi2. cbv beta iota. now apply ret_dich. }
  destruct (negb (is_escape ch true)); [exact Hrec|].
  destruct (ch =? 34); [now apply ret_dich|].
  destruct (ch =? 92).
  - apply bind_dich_strict; [now apply parse_escape_dich|]. intros w s2 _ Hi2. cbv beta iota.
    apply bind_dich_strict; [now apply IH|]. intros out s3 _ Hi3. cbv beta iota. now apply ret_dich.
  - destruct validate; [now apply error_dich|exact Hrec].
Qed.

Lemma io_ignore_loop_dich : forall f f' s, (f <= f')%nat -> inv C s ->
  dich C (ShSn C) (io_ignore_loop f E1 s) (io_ignore_loop f' E2 (ext C s)).
Proof.
  induction f as [|f IH]; intros f' s Hf Hi; [exact I|].
  destruct f' as [|f']; [lia|]. assert (Hf' : (f <= f')%nat) by lia.
  cbn [io_ignore_loop].
  apply bind_dich_strict; [now apply next_or_eof_dich|]. intros ch s1 _ Hi1. cbv beta iota.
  destruct (negb (is_escape ch true)); [now apply IH|].
  destruct (ch =? 34); [now apply retSn_dich|].
  destruct (ch =? 92); [|now apply error_dich].
  apply bind_dichSn; [now apply ignore_escape_dich|].
  intros s2 _ Hi2. now apply IH.
Qed.

(* --- the slice loops: a whole chunk is inspected at once --- *)
Lemma rest_ext s : rest (ext C s) = rest s ++ t.
Proof. reflexivity. Qed.
Lemma rest_advance n s : rest (advance n s) = skipn n (rest s).
Proof. reflexivity. Qed.

Lemma slice_eof_end {X} (S : shape X) n s rpt : rk0 <> RIo -> inv C s -> (n <= length (rest s))%nat ->
  skipn n (rest s) = [] -> dich C S (error E1 (advance n s) EofWhileParsingString) rpt.
Proof.
  intros Hrk Hi Hn Hs. apply dich_of_eofc. unfold error. cbn [eofc].
  assert (Hidx : err_idx E1 (advance n s) = L).
  { unfold err_idx, is_io, advance. cbn [rk off pk]. destruct Hi as [Hi _].
    assert (Hl : length (skipn n (rest s)) = 0%nat) by (rewrite Hs; reflexivity).
    rewrite skipn_length in Hl. destruct rk0; lia. }
  rewrite Hidx. split; [lia|]. unfold bnd.
  destruct tm1; [split; [apply eofish_str|reflexivity]|]. destruct rk0; [exact I|exact I|congruence].
Qed.

Lemma length_skipn_cons {A} n (l : list A) b r : skipn n l = b :: r -> (1 <= length (skipn n l))%nat.
Proof. intros ->. cbn [length]. lia. Qed.

Lemma slice_str_loop_dich validate : rk0 <> RIo -> forall f f' s, (f <= f')%nat -> inv C s ->
  dich C (ShP C nov) (slice_str_loop f E1 validate s) (slice_str_loop f' E2 validate (ext C s)).
Proof.
  intros Hrk. induction f as [|f IH]; intros f' s Hf Hi; [exact I|].
  destruct f' as [|f']; [lia|]. assert (Hf' : (f <= f')%nat) by lia.
  cbn [slice_str_loop]. cbv zeta. unfold esc_span.
  set (p := fun b => negb (is_escape b validate)).
  pose proof (span_len_le p (rest s)) as Hle.
  destruct (span_cases p (rest s)) as [Hb | (b & r & Hs & Hpb & Hn)].
  - rewrite (rest_advance _ s), Hb. now apply slice_eof_end.
  - rewrite rest_ext, Hn, firstn_app_le, advance_ext by assumption.
    set (s1 := advance (span_len p (rest s)) s) in *.
    assert (Hi1 : inv C s1) by now apply inv_advance.
    assert (Hr1 : rest s1 = b :: r) by exact Hs.
    rewrite rest_ext, Hr1. cbn [app].
    assert (H1 : (1 <= length (rest s1))%nat) by (rewrite Hr1; cbn [length]; lia).
    assert (Hi2 : inv C (advance 1 s1)) by now apply inv_advance.
    rewrite (advance_ext C 1 s1) by assumption.
    destruct (b =? 34); [now apply ret_dich|].
    destruct (b =? 92); [|now apply error_dich].
    apply bind_dich_strict; [now apply parse_escape_dich|]. intros w s2 _ Hi3. cbv beta iota.
    apply bind_dich_strict; [now apply IH|]. intros [out cp] s3 _ Hi4. cbv beta iota. now apply ret_dich.
Qed.

Lemma slice_ignore_loop_dich : rk0 <> RIo -> forall f f' s, (f <= f')%nat -> inv C s ->
  dich C (ShSn C) (slice_ignore_loop f E1 s) (slice_ignore_loop f' E2 (ext C s)).
Proof.
  intros Hrk. induction f as [|f IH]; intros f' s Hf Hi; [exact I|].
  destruct f' as [|f']; [lia|]. assert (Hf' : (f <= f')%nat) by lia.
  cbn [slice_ignore_loop]. cbv zeta. unfold esc_span.
  set (p := fun b => negb (is_escape b true)).
  pose proof (span_len_le p (rest s)) as Hle.
  destruct (span_cases p (rest s)) as [Hb | (b & r & Hs & Hpb & Hn)].
  - rewrite (rest_advance _ s), Hb. now apply slice_eof_end.
  - rewrite rest_ext, Hn, advance_ext by assumption.
    set (s1 := advance (span_len p (rest s)) s) in *.
    assert (Hi1 : inv C s1) by now apply inv_advance.
    assert (Hr1 : rest s1 = b :: r) by exact Hs.
    rewrite rest_ext, Hr1. cbn [app].
    assert (H1 : (1 <= length (rest s1))%nat) by (rewrite Hr1; cbn [length]; lia).
    assert (Hi2 : inv C (advance 1 s1)) by now apply inv_advance.
    rewrite (advance_ext C 1 s1) by assumption.
    destruct (b =? 34); [now apply retSn_dich|].
    destruct (b =? 92); [|now apply error_dich].
    apply bind_dichSn; [now apply ignore_escape_dich|]. intros s2 _ Hi3. now apply IH.
Qed.

(* --- the Read trait methods --- *)
Lemma str_fuel_ext s : (str_fuel s <= str_fuel (ext C s))%nat.
Proof. unfold str_fuel. rewrite rest_ext, app_length. lia. Qed.

Lemma parse_str_dich s : inv C s ->
  dich C (ShP C nov) (parse_str E1 s) (parse_str E2 (ext C s)).
Proof.
  intros Hi. unfold parse_str. cbn [rk]. pose proof (str_fuel_ext s) as Hf.
  destruct rk0 eqn:Hrk; rewrite <- Hrk.
  - apply bind_dich_strict.
    + apply slice_str_loop_dich; [congruence|assumption..].
    + intros [out cp] s1 _ Hi1. cbv beta iota.
      destruct (utf8_valid out); [now apply ret_dich|now apply error_dich].
  - apply bind_dich_strict.
    + apply slice_str_loop_dich; [congruence|assumption..].
    + intros [out cp] s1 _ Hi1. cbv beta iota. now apply ret_dich.
  - apply bind_dich_strict; [now apply io_str_loop_dich|].
    intros out s1 _ Hi1. cbv beta iota.
    destruct (utf8_valid out); [now apply ret_dich|now apply error_dich].
Qed.

Lemma ignore_str_dich s : inv C s ->
  dich C (ShSn C) (ignore_str E1 s) (ignore_str E2 (ext C s)).
Proof.
  intros Hi. unfold ignore_str. cbn [rk]. pose proof (str_fuel_ext s) as Hf.
  destruct rk0 eqn:Hrk; rewrite <- Hrk.
  - apply slice_ignore_loop_dich; [congruence|assumption..].
  - apply slice_ignore_loop_dich; [congruence|assumption..].
  - now apply io_ignore_loop_dich.
Qed.

End DichStr.
