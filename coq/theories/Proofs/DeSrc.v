From Coq Require Import String List ZArith Lia.
From SJ Require Import Base.Bytes Base.Utf8 Gen.Tables Model.Read Model.Str Model.Num Model.NumF32 Model.Value Model.De Model.Ignore Model.Ty
  Model.ScanAst Gen.CursorTables Gen.ScanTables Proofs.ScanSrc Proofs.CursorSrc Model.DeTyped Model.DeAst Gen.DeTables.
Import ListNotations.
Local Open Scope string_scope.
Local Open Scope list_scope.
Local Open Scope N_scope.

#[local] Arguments cur_ws : simpl never.
#[local] Arguments cur_unit : simpl never.
#[local] Arguments cur_scan128 : simpl never.
#[local] Arguments Read.parse_whitespace : simpl never.
#[local] Arguments Read.parse_ident : simpl never.
#[local] Arguments peek_or_null : simpl never.
#[local] Arguments discard : simpl never.
#[local] Arguments enter : simpl never.
#[local] Arguments leave : simpl never.
#[local] Arguments err_idx : simpl never.
#[local] Arguments peek_err_idx : simpl never.
#[local] Arguments parse_str : simpl never.
#[local] Arguments parse_str_raw : simpl never.
#[local] Arguments parse_integer : simpl never.
#[local] Arguments parse_integer_s : simpl never.
#[local] Arguments parse_any_number : simpl never.
#[local] Arguments ignore_value : simpl never.
#[local] Arguments De.end_seq : simpl never.
#[local] Arguments De.end_map : simpl never.
#[local] Arguments end_seq_st : simpl never.
#[local] Arguments end_map_st : simpl never.
#[local] Arguments N.eqb : simpl never.
#[local] Arguments N.leb : simpl never.
#[local] Arguments deval : simpl never.
#[local] Arguments dexec : simpl never.
#[local] Arguments dblock : simpl never.

Lemma fuel_split (k fuel : nat) : (k <= fuel)%nat -> exists f, fuel = (k + f)%nat.
Proof. intros H. exists (fuel - k)%nat. lia. Qed.

Section P.
Variable E : env.
Notation CT := CURSOR_TABLE.
Notation ST := SCAN_TABLE.

(* ---- the cursor functions the entry points call, run by ScanAst's interpreter over the translated tables, are the models ---- *)
Lemma cur_ws_eq s : cur_ws E CT s = Read.parse_whitespace E s.
Proof.
  unfold cur_ws, cfuel. rewrite (parse_whitespace_src E CT HT_self) by lia.
  destruct (Read.parse_whitespace E s) as [[o s1]| | |]; reflexivity.
Qed.
Lemma cur_ident_eq lit s : cur_unit E CT "parse_ident" (Some (VBytes lit)) s = Read.parse_ident E lit s.
Proof.
  unfold cur_unit, cfuel. rewrite (parse_ident_src E CT HT_self) by lia. unfold liftu.
  destruct (Read.parse_ident E lit s) as [s1| | |]; reflexivity.
Qed.
Lemma cur_end_seq_eq s : cur_unit E CT "end_seq" None s = De.end_seq E s.
Proof.
  unfold cur_unit, cfuel.
  change (run_scan_v (length (rest s) + 12) E CT "end_seq" None s []) with (run_scan (length (rest s) + 12) E CT "end_seq" None s []).
  rewrite (end_seq_src E CT HT_self) by lia. unfold liftu.
  destruct (De.end_seq E s) as [s1| | |]; reflexivity.
Qed.
Lemma cur_end_map_eq s : cur_unit E CT "end_map" None s = De.end_map E s.
Proof.
  unfold cur_unit, cfuel.
  change (run_scan_v (length (rest s) + 12) E CT "end_map" None s []) with (run_scan (length (rest s) + 12) E CT "end_map" None s []).
  rewrite (end_map_src E CT HT_self) by lia. unfold liftu.
  destruct (De.end_map E s) as [s1| | |]; reflexivity.
Qed.
Lemma cur_scan128_eq s buf : cur_scan128 E ST s buf = let* (t, s') := Num.scan_integer128 E s in Ok (buf ++ t, s').
Proof.
  unfold cur_scan128, cfuel. rewrite (scan_integer128_src E) by lia. unfold ScanSrc.lift.
  destruct (Num.scan_integer128 E s) as [[t s1]| | |]; reflexivity.
Qed.

Section V.
Context {A : Type}.
Variable V : visitor A.
Variable tok : bool.
Notation deval_ := (deval E CT ST V tok DE_TABLE).
Notation dexec_ := (dexec E CT ST V tok DE_TABLE).
Notation run := (interp E CT ST V tok DE_TABLE).

(* a call's answer with the `single_precision` flag it leaves (the caller may be do_deserialize_f32, which runs deserialize_number with the flag set) *)
Definition obs (sg : bool) (X : res (rval A * mach)) : tres (A * st) * bool :=
  match X with
  | Ok (v, m) => (as_tres (Ok (v, mkMach (mst m) false (mbuf m) (mraw m))), Bool.eqb (msingle m) sg)
  | _ => (as_tres X, true)
  end.

(* ---- one interpreter step (by computation); [deval], [dexec], [dblock] are kept folded otherwise ---- *)
Lemma deval_S f e l m : deval_ (S f) e l m =
    match e with
    | XVisit fm => match vcall_of fm l with Some c => do_visit V c m | None => Panic end
    | XStrVisit raw mb mc =>
      known m (fun s =>
        tri_prim m ((if raw then parse_str_raw else parse_str) E s) (fun '(str, borrowed, s') =>
          do_visit V (meth_call (if borrowed then mb else mc) str) (set_st m s')))
    | XNumVisit fn positive =>
      known m (fun s =>
        tri_prim m (numcall E fn positive (msingle m) s) (fun '(p, s') => do_visit V (VcNum p) (set_st m s')))
    | XOk x => match dlookup x l with Some (LVal a) => Ok (OV (RvOk a) m) | _ => Panic end
    | XOkUnit => Ok (OV RvUnit m)
    | XErr x | XeVar x => match dlookup x l with Some (LErr e') => Ok (OV (RvErr e') m) | _ => Panic end
    | XErrFix x | XeFix x =>
      match dlookup x l with
      | Some (LErr e') => let* e2 := fixpos E e' m in Ok (OV (RvErr e2) m)
      | _ => Panic
      end
    | XErrCode peeked c | XeCode peeked c =>
      known m (fun s => Ok (OV (RvErr (EPos c (if peeked then peek_err_idx E s else err_idx E s))) m))
    | XErrPit =>
      let* (r, m') := dcall_fn (dexec_ f) DE_TABLE "peek_invalid_type" m in
      match r with RvErr e' => Ok (OV (RvErr e') m') | _ => Panic end
    | XCall fn => let* (r, m') := dcall_fn (dexec_ f) DE_TABLE fn m in Ok (OV r m')
    | XVar x => match dlookup x l with Some (LRes r) => Ok (OV r m) | _ => Panic end
    | XBlock ss e' =>
      let* o := dblock (dexec_ f) ss l m in
      match o with OF l' m' => deval_ f e' l' m' | _ => Ok o end
    | XRet e' => let* o := deval_ f e' l m in ret_of o
    | XMatchByte x arms =>
      match dlookup x l with
      | Some (LByte b) => match select_b arms b with Some e' => deval_ f e' l m | None => Panic end
      | _ => Panic
      end
    | XMatchRes x arms =>
      match dlookup x l with
      | Some (LRes r) => match select_r arms r with Some (fr, e') => deval_ f e' (fr ++ l) m | None => Panic end
      | _ => Panic
      end
    | XMatchPair x en arms =>
      match dlookup x l with
      | Some (LRes r1) =>
        (* the tuple's second component: self.end_seq() / self.end_map() *)
        let* (r2, m2) :=
          match mst m with
          | None => Ok (RvUnk, m)
          | Some s =>
            match cur_unit E CT (end_name en) None s with
            | Ok s' => Ok (RvUnit, set_st m s')
            | Err c i => Ok (RvErr (EPos c i), set_st m (end_st E en s))
            | OutOfFuel => OutOfFuel
            | Panic => Panic
            end
          end in
        match select_p arms r1 r2 with Some (fr, e') => deval_ f e' (fr ++ l) m2 | None => Panic end
      | _ => Panic
      end
    | XMatchWs arms =>
      known m (fun s =>
        tri_prim m (cur_ws E CT s) (fun '(o, s') =>
          match select_o arms o with Some (fr, e') => deval_ f e' (fr ++ l) (set_st m s') | None => Panic end))
    | XMatchParse signed x ok err =>
      match str_parse_int signed (mbuf m) with
      | Some z => deval_ f ok ((x, LInt z) :: l) m
      | None => deval_ f err l m
      end
    | XEndRaw =>
      known m (fun s1 =>
        match mraw m with
        | None => Panic
        | Some s0 =>
          let span := firstn (off s1 - off s0) (rest s0) in
          match rk E with
          | RStr => do_visit V (VcRaw span) m
          | _ => if utf8_valid span then do_visit V (VcRaw span) m
                 else Ok (OV (RvErr (EPos InvalidUnicodeCodePoint (err_idx E s1))) m)
          end
        end)
    | XeInvalidType => Ok (OV (RvErr (EUnpos MInvalidType)) m)
    | XMatchPon arms =>
      known m (fun s =>
        match peek_or_null E s with
        | Ok (b, s') => match select_b arms b with Some e' => deval_ f e' l (set_st m s') | None => Panic end
        | Err _ _ => match select_b arms 0 with Some e' => deval_ f e' l m | None => Panic end      (* .unwrap_or(b'\x00') *)
        | OutOfFuel => OutOfFuel
        | Panic => Panic
        end)
    | XMatchCall c okx ok errx err =>
      known m (fun s =>
        match pcall_run (A:=A) E CT c (msingle m) s with
        | Ok (v, s') => deval_ f ok (bind_o okx v ++ l) (set_st m s')
        | Err c' i => deval_ f err ((errx, LErr (EPos c' i)) :: l) (lose_st m)
        | OutOfFuel => OutOfFuel
        | Panic => Panic
        end)
    end.
Proof. reflexivity. Qed.

Lemma dexec_S f x l m : dexec_ (S f) x l m =
    match x with
    | DEat => known m (fun s => Ok (OF l (set_st m (discard s))))
    | DTryIdent lit =>
      known m (fun s => tri_prim m (cur_unit E CT "parse_ident" (Some (ScanAst.VBytes lit)) s) (fun s' => Ok (OF l (set_st m s'))))
    | DTryWs => known m (fun s => tri_prim m (cur_ws E CT s) (fun '(_, s') => Ok (OF l (set_st m s'))))
    | DTryIgnore => known m (fun s => tri_prim m (ignore_value E s) (fun s' => Ok (OF l (set_st m s'))))
    | DTryScan128 =>
      known m (fun s => tri_prim m (cur_scan128 E ST s (mbuf m)) (fun '(buf', s') =>
        Ok (OF l (mkMach (Some s') (msingle m) buf' (mraw m)))))
    | DLetWs v none =>
      known m (fun s =>
        tri_prim m (cur_ws E CT s) (fun '(o, s') =>
          match o with
          | Some b => Ok (OF ((v, LByte b) :: l) (set_st m s'))
          | None => let* o' := deval_ f none l (set_st m s') in ret_of o'
          end))
    | DLet v e =>
      let* o := deval_ f e l m in
      match o with OV r m' => Ok (OF ((v, LRes r) :: l) m') | OR _ _ => Ok o | OF _ _ => Panic end
    | DLetTri v e =>
      let* o := deval_ f e l m in
      match o with
      | OV (RvOk a) m' => Ok (OF ((v, LVal a) :: l) m')
      | OV (RvErr e') m' => Ok (OR (RvErr e') m')
      | OV _ _ => Panic
      | OR _ _ => Ok o
      | OF _ _ => Panic
      end
    | DLetErr v e =>
      let* o := deval_ f e l m in
      match o with
      | OV (RvErr e') m' => Ok (OF ((v, LErr e') :: l) m')
      | OV _ _ => Panic
      | OR _ _ => Ok o
      | OF _ _ => Panic
      end
    | DEnter =>
      known m (fun s =>
        match enter E s with
        | Ok s' => Ok (OF l (set_st m s'))
        | Err c i => Ok (OR (RvErr (EPos c i)) (lose_st m))
        | OutOfFuel => OutOfFuel
        | Panic => Panic
        end)
    | DLeave =>
      match mst m with
      | None => Ok (OF l m)
      | Some s => match leave E s with Ok s' => Ok (OF l (set_st m s')) | _ => Panic end
      end
    | DSetSingle b => Ok (OF l (mkMach (mst m) b (mbuf m) (mraw m)))
    | DNewBuf => Ok (OF l (mkMach (mst m) (msingle m) [] (mraw m)))
    | DPushBuf b => Ok (OF l (mkMach (mst m) (msingle m) (mbuf m ++ [b]) (mraw m)))
    | DBeginRaw => known m (fun s => Ok (OF l (mkMach (mst m) (msingle m) (mbuf m) (Some s))))
    | DIfToken body => if tok then dscope (dexec_ f) body l m else Ok (OF l m)
    | DIfRoundtrip a b => dscope (dexec_ f) (if float_roundtrip (cf E) then a else b) l m
    | DMatchWs arms =>
      known m (fun s =>
        tri_prim m (cur_ws E CT s) (fun '(o, s') =>
          match select_o arms o with
          | Some (fr, body) =>
            let* o' := dblock (dexec_ f) body (fr ++ l) (set_st m s') in
            match o' with OF _ m' => Ok (OF l m') | _ => Ok o' end
          | None => Panic
          end))
    | DIfLetErr c v body =>
      known m (fun s =>
        match pcall_run (A:=A) E CT c (msingle m) s with
        | Ok (_, s') => Ok (OF l (set_st m s'))
        | Err c' i =>
          let* o' := dblock (dexec_ f) body ((v, LErr (EPos c' i)) :: l) (lose_st m) in
          match o' with OF _ m' => Ok (OF l m') | _ => Ok o' end
        | OutOfFuel => OutOfFuel
        | Panic => Panic
        end)
    | DRet e => let* o := deval_ f e l m in ret_of o
    end.
Proof. reflexivity. Qed.
Lemma dblock_nil (ex : @dexec_t A) l m : dblock ex [] l m = Ok (OF l m).
Proof. reflexivity. Qed.
Lemma dblock_cons (ex : @dexec_t A) x r l m : dblock ex (x :: r) l m =
  let* o := ex x l m in match o with OF l' m' => dblock ex r l' m' | _ => Ok o end.
Proof. reflexivity. Qed.

Ltac red1 :=
  cbn [select_o select_b select_r select_p ScanAst.pat_match ScanAst.bpat_match ScanAst.bind_opt conv_frame dlookup
       String.eqb Ascii.eqb Bool.eqb app bind_o known tri_prim set_st lose_st mst msingle mbuf mraw bind ret_of rpat_match ppat_match
       vcall_of dbody fst snd orb meth_call end_name end_st Nat.add tbind DeTyped.lift as_tres as_unit pcall_run numcall fixpos obs];
  unfold set_st, lose_st; cbn [mst msingle mbuf mraw].
Ltac dstep :=
  first [rewrite dblock_nil | rewrite dblock_cons | rewrite deval_S | rewrite dexec_S]; cbv beta iota; red1.
Ltac enter :=
  unfold interp; unfold dcall_fn at 1;
  match goal with |- context[dfind ?fn DE_TABLE] =>
    let d := eval vm_compute in (dfind fn DE_TABLE) in change (dfind fn DE_TABLE) with d end;
  cbv beta iota; red1.
Ltac visit_now :=
  unfold do_visit at 1; red1;
  match goal with |- context[match V ?c ?s with _ => _ end] => destruct (V c s) as [[? ?]| | | |] end;
  red1; repeat dstep; try reflexivity.

(* ---- Deserializer::end ---- *)
Theorem end_src : forall s fuel, (4 <= fuel)%nat -> as_unit (run fuel "end" s) = De.de_end E s.
Proof.
  intros s fuel Hf. destruct (fuel_split _ _ Hf) as [f ->]. enter. unfold init_mach.
  repeat dstep. rewrite cur_ws_eq. unfold De.de_end.
  destruct (Read.parse_whitespace E s) as [[[b|] s1]| | |]; red1; try reflexivity; repeat dstep; reflexivity.
Qed.

(* ---- deserialize_option ---- *)
Definition option_spec (s : st) : tres (A * st) :=
  let^ (o, s1) := Read.parse_whitespace E s in
  if (match o with Some b => b =? 110 | None => false end)
  then let^ s2 := Read.parse_ident E lit_ull (discard s1) in V VcNone s2
  else V VcSome s1.

Theorem deserialize_option_src : forall s fuel, (6 <= fuel)%nat -> as_tres (run fuel "deserialize_option" s) = option_spec s.
Proof.
  intros s fuel Hf. destruct (fuel_split _ _ Hf) as [f ->]. enter. unfold init_mach, option_spec.
  repeat dstep. rewrite cur_ws_eq.
  destruct (Read.parse_whitespace E s) as [[[b|] s1]| | |]; red1; try reflexivity.
  - destruct (b =? 110); red1; repeat dstep.
    + rewrite cur_ident_eq. fold lit_ull.
      destruct (Read.parse_ident E lit_ull (discard s1)) as [s2| | |]; red1; try reflexivity.
      repeat dstep. visit_now.
    + visit_now.
  - repeat dstep. visit_now.
Qed.

(* ---- peek_invalid_type ---- *)
(* the call's answer against the model's: always a positioned error (or the callee's fuel / panic), `single_precision` untouched *)
Inductive pit_result (sg : bool) (B : Type) (t : tres B) : res (rval A * mach) -> Prop :=
  | PitErr c i m' : t = TErr c i -> msingle m' = sg -> pit_result sg B t (Ok (RvErr (EPos c i), m'))
  | PitFuel : t = TFuel -> pit_result sg B t OutOfFuel
  | PitPanic : t = TPanic -> pit_result sg B t Panic.

Lemma pon_cases s : (exists b s', peek_or_null E s = Ok (b, s')) \/ (exists c i, peek_or_null E s = Err c i).
Proof.
  unfold peek_or_null, peek, at_end. destruct (rest s); [destruct (tm E)|]; cbn; eauto.
Qed.

Ltac pit_done := red1; repeat dstep; first [apply PitErr; reflexivity | apply PitFuel; reflexivity | apply PitPanic; reflexivity].
Ltac pit_ident :=
  repeat dstep; rewrite cur_ident_eq; unfold lit_ull, lit_rue, lit_alse;
  match goal with |- context[Read.parse_ident E ?l ?s] => destruct (Read.parse_ident E l s) as [?| | |] end; pit_done.

Lemma pit_call (B : Type) f s sg buf raw :
  (sg = false \/ forall b s', peek_or_null E s = Ok (b, s') -> b <> 45 /\ is_digit b = false) ->
  pit_result sg B (peek_invalid_type E s) (dcall_fn (dexec_ (8 + f)) DE_TABLE "peek_invalid_type" (mkMach (Some s) sg buf raw)).
Proof.
  intros Hsg. unfold dcall_fn at 1.
  match goal with |- context[dfind ?fn DE_TABLE] =>
    let d := eval vm_compute in (dfind fn DE_TABLE) in change (dfind fn DE_TABLE) with d end.
  cbv beta iota; red1. repeat dstep. unfold peek_invalid_type.
  assert (Hb : exists b s0, (sg = false \/ (b <> 45 /\ is_digit b = false)) /\
               ((peek_or_null E s = Ok (b, s0)) \/ (b = 0 /\ s0 = s /\ exists c i, peek_or_null E s = Err c i))).
  { destruct (pon_cases s) as [(b & s' & H)|(c & i & H)].
    - exists b, s'. split; [|left; exact H]. destruct Hsg as [Hsg|Hsg]; [left; exact Hsg|right; exact (Hsg _ _ H)].
    - exists 0, s. split; [right; split; [discriminate|reflexivity]|]. right. eauto. }
  destruct Hb as (b & s0 & Hb & Hp).
  assert (Hpk : match peek_or_null E s with Ok (b', s') => (b', s') | _ => (0, s) end = (b, s0)).
  { destruct Hp as [Hp|(-> & -> & c & i & Hp)]; rewrite Hp; reflexivity. }
  rewrite Hpk. clear Hpk.
  match goal with |- pit_result _ _ _ ?r =>
    assert (Hr : r = ltac:(let t := eval pattern (peek_or_null E s) in r in
                           match t with ?F _ => exact (F (Ok (b, s0))) end))
  end.
  { destruct Hp as [Hp|(-> & -> & c & i & Hp)]; rewrite Hp; reflexivity. }
  rewrite Hr. clear Hr Hp. cbv beta iota. red1.
  change ((48 <=? b) && (b <=? 57)) with (is_digit b).
  destruct (b =? 110); [pit_ident|].
  destruct (b =? 116); [pit_ident|].
  destruct (b =? 102); [pit_ident|].
  destruct (b =? 45) eqn:H45.
  { assert (sg = false) as -> by (destruct Hb as [Hb|[Hb _]]; [exact Hb|apply N.eqb_eq in H45; contradiction]).
    repeat dstep. destruct (parse_any_number E false (discard s0)) as [[p s2]| | |]; pit_done. }
  destruct (is_digit b) eqn:Hd.
  { assert (sg = false) as -> by (destruct Hb as [Hb|[_ Hb]]; [exact Hb|discriminate]).
    repeat dstep. destruct (parse_any_number E true s0) as [[p s2]| | |]; pit_done. }
  destruct (b =? 34).
  { repeat dstep. destruct (parse_str E (discard s0)) as [[[str bo] s2]| | |]; pit_done. }
  destruct (b =? 91); [pit_done|].
  destruct (b =? 123); pit_done.
Qed.

(* `Err(self.peek_invalid_type(&visitor))` inside a function: bring in the model's answer *)
Tactic Notation "pit_now" uconstr(H) :=
  match goal with
  | |- context[dcall_fn (dexec_ (S (S (S (S (S (S (S (S ?g))))))))) DE_TABLE "peek_invalid_type" (mkMach (Some ?s) ?sg ?buf ?raw)] =>
    let Hp := fresh "Hpit" in
    pose proof (pit_call (A * st)%type g s sg buf raw H) as Hp; cbn [Nat.add] in Hp;
    let c := fresh "c" in let i := fresh "i" in let m' := fresh "m'" in
    let Ht := fresh "Ht" in let Hm := fresh "Hm" in let Hr := fresh "Hr" in
    inversion Hp as [c i m' Ht Hm Hr | Ht Hr | Ht Hr]; rewrite Ht; clear Hp;
    red1; repeat dstep; rewrite ?Hm; try reflexivity
  end.
Ltac ident_now :=
  rewrite cur_ident_eq; unfold lit_ull, lit_rue, lit_alse;
  match goal with |- context[Read.parse_ident E ?l ?s] => destruct (Read.parse_ident E l s) as [?| | |] end;
  red1; try reflexivity; repeat dstep.
Ltac ws_now s :=
  rewrite cur_ws_eq; destruct (Read.parse_whitespace E s) as [[[?b|] ?s1]| | |]; red1; try reflexivity; repeat dstep; try reflexivity.

(* ---- deserialize_bool ---- *)
Definition bool_spec (s : st) : tres (A * st) :=
  let^ (o, s1) := Read.parse_whitespace E s in
  match o with
  | None => DeTyped.lift (peek_error E s1 EofWhileParsingValue)
  | Some b =>
    fix_position E
      (if b =? 116 then let^ s2 := Read.parse_ident E lit_rue (discard s1) in V (VcBool true) s2
       else if b =? 102 then let^ s2 := Read.parse_ident E lit_alse (discard s1) in V (VcBool false) s2
       else peek_invalid_type E s1)
  end.

Theorem deserialize_bool_src : forall s fuel, (16 <= fuel)%nat -> as_tres (run fuel "deserialize_bool" s) = bool_spec s.
Proof.
  intros s fuel Hf. destruct (fuel_split _ _ Hf) as [f ->]. enter. unfold init_mach, bool_spec.
  repeat dstep. ws_now s.
  destruct (b =? 116); red1; repeat dstep. { ident_now. visit_now. }
  destruct (b =? 102); red1; repeat dstep. { ident_now. visit_now. }
  pit_now (or_introl eq_refl).
Qed.

(* ---- deserialize_unit ---- *)
Definition unit_spec (s : st) : tres (A * st) :=
  let^ (o, s1) := Read.parse_whitespace E s in
  match o with
  | None => DeTyped.lift (peek_error E s1 EofWhileParsingValue)
  | Some b =>
    fix_position E
      (if b =? 110 then let^ s2 := Read.parse_ident E lit_ull (discard s1) in V VcUnit s2
       else peek_invalid_type E s1)
  end.

Theorem deserialize_unit_src : forall s fuel, (16 <= fuel)%nat -> as_tres (run fuel "deserialize_unit" s) = unit_spec s.
Proof.
  intros s fuel Hf. destruct (fuel_split _ _ Hf) as [f ->]. enter. unfold init_mach, unit_spec.
  repeat dstep. ws_now s.
  destruct (b =? 110); red1; repeat dstep. { ident_now. visit_now. }
  pit_now (or_introl eq_refl).
Qed.

(* ---- deserialize_str (deserialize_char / _string / _identifier delegate to it) ---- *)
Lemma meth_str (bo : bool) (str : bytes) : meth_call (if bo then VmBorrowedStr else VmStr) str = VcStr str bo.
Proof. destruct bo; reflexivity. Qed.
Lemma meth_bytes (bo : bool) (str : bytes) : meth_call (if bo then VmBorrowedBytes else VmBytes) str = VcBytes str bo.
Proof. destruct bo; reflexivity. Qed.

Ltac str_now :=
  match goal with |- context[parse_str E ?s] => destruct (parse_str E s) as [[[?str ?bo] ?s2]| | |] end;
  red1; try reflexivity; repeat dstep; rewrite ?meth_str.

Theorem deserialize_str_src : forall s fuel, (16 <= fuel)%nat ->
  as_tres (run fuel "deserialize_str" s) = DeTyped.deserialize_str E (fun str bo s' => V (VcStr str bo) s') s.
Proof.
  intros s fuel Hf. destruct (fuel_split _ _ Hf) as [f ->]. enter. unfold init_mach, DeTyped.deserialize_str.
  repeat dstep. ws_now s.
  destruct (b =? 34); red1; repeat dstep. { str_now. visit_now. }
  pit_now (or_introl eq_refl).
Qed.

(* ---- the bracketed visitor call: check_recursion! { eat_char(); let ret = visitor.visit_xxx(..); }  match (ret, self.end_xxx()) { .. } ---- *)
Lemma end_seq_st_ok s s' : De.end_seq E s = Ok s' -> end_seq_st E s = s'.
Proof.
  unfold De.end_seq, end_seq_st. destruct (Read.parse_whitespace E s) as [[[b|] s1]| | |]; cbn; try discriminate.
  destruct (b =? 93); [intros H; inversion H; reflexivity|].
  destruct (b =? 44); [|discriminate].
  destruct (Read.parse_whitespace E (discard s1)) as [[[b2|] s2]| | |]; cbn; try discriminate.
  destruct (b2 =? 93); discriminate.
Qed.
Lemma end_map_st_ok s s' : De.end_map E s = Ok s' -> end_map_st E s = s'.
Proof.
  unfold De.end_map, end_map_st. destruct (Read.parse_whitespace E s) as [[[b|] s1]| | |]; cbn; try discriminate.
  destruct (b =? 125); [intros H; inversion H; reflexivity|].
  destruct (b =? 44); discriminate.
Qed.

Lemma pw_cases s : (exists o s', Read.parse_whitespace E s = Ok (o, s')) \/ (exists c i, Read.parse_whitespace E s = Err c i).
Proof.
  unfold Read.parse_whitespace, peek, at_end. destruct (rest (advance _ s)); [destruct (tm E)|]; eauto.
Qed.
Lemma end_seq_cases s : (exists s', De.end_seq E s = Ok s') \/ (exists c i, De.end_seq E s = Err c i).
Proof.
  unfold De.end_seq, peek_error.
  destruct (pw_cases s) as [(o & s1 & ->)|(c & i & ->)]; cbn; [|eauto]. destruct o as [b|]; [|eauto].
  destruct (b =? 93); [eauto|]. destruct (b =? 44); [|eauto].
  destruct (pw_cases (discard s1)) as [(o2 & s2 & ->)|(c & i & ->)]; cbn; [|eauto]. destruct o2 as [b2|]; [|eauto].
  destruct (b2 =? 93); eauto.
Qed.
Lemma end_map_cases s : (exists s', De.end_map E s = Ok s') \/ (exists c i, De.end_map E s = Err c i).
Proof.
  unfold De.end_map, peek_error.
  destruct (pw_cases s) as [(o & s1 & ->)|(c & i & ->)]; cbn; [|eauto]. destruct o as [b|]; [|eauto].
  destruct (b =? 125); [eauto|]. destruct (b =? 44); eauto.
Qed.

Ltac end_now :=
  first [rewrite cur_end_seq_eq | rewrite cur_end_map_eq];
  match goal with
  | |- context[De.end_seq E ?s] =>
    let H := fresh "Hend" in destruct (end_seq_cases s) as [[?s5 H]|(?c & ?i & H)]; rewrite H; [rewrite ?(end_seq_st_ok _ _ H)|]
  | |- context[De.end_map E ?s] =>
    let H := fresh "Hend" in destruct (end_map_cases s) as [[?s5 H]|(?c & ?i & H)]; rewrite H; [rewrite ?(end_map_st_ok _ _ H)|]
  end; red1; repeat dstep; try reflexivity.
Lemma leave_cases s : (exists s', leave E s = Ok s') \/ leave E s = Panic.
Proof. unfold leave. destruct (limit_disabled (cf E)); [eauto|]. destruct (255 <=? depth s); eauto. Qed.
Ltac leave_now :=
  match goal with |- context[leave E ?s] =>
    let H := fresh "Hlv" in destruct (leave_cases s) as [[?s4 H]|H]; rewrite H end; red1; try reflexivity; repeat dstep.
Ltac frame_now :=
  unfold DeTyped.frame;
  match goal with |- context[enter E ?s] => destruct (enter E s) as [?s2| | |] end; red1; try reflexivity; repeat dstep;
  unfold do_visit at 1; red1;
  match goal with |- context[match V ?c ?s with _ => _ end] => destruct (V c s) as [[?a ?s3]| | | |] end;
  red1; repeat dstep; try reflexivity; leave_now; end_now.

(* ---- deserialize_seq (deserialize_tuple / _tuple_struct delegate to it), deserialize_map, deserialize_struct ---- *)
Theorem deserialize_seq_src : forall s fuel, (16 <= fuel)%nat ->
  as_tres (run fuel "deserialize_seq" s) = DeTyped.deserialize_seq E (V VcSeq) s.
Proof.
  intros s fuel Hf. destruct (fuel_split _ _ Hf) as [f ->]. enter. unfold init_mach, DeTyped.deserialize_seq.
  repeat dstep. ws_now s.
  destruct (b =? 91); red1; repeat dstep. { frame_now. }
  pit_now (or_introl eq_refl).
Qed.

Theorem deserialize_map_src : forall s fuel, (16 <= fuel)%nat ->
  as_tres (run fuel "deserialize_map" s) = DeTyped.deserialize_map E (V VcMap) s.
Proof.
  intros s fuel Hf. destruct (fuel_split _ _ Hf) as [f ->]. enter. unfold init_mach, DeTyped.deserialize_map.
  repeat dstep. ws_now s.
  destruct (b =? 123); red1; repeat dstep. { frame_now. }
  pit_now (or_introl eq_refl).
Qed.

Theorem deserialize_struct_src : forall s fuel, (16 <= fuel)%nat ->
  as_tres (run fuel "deserialize_struct" s) = DeTyped.deserialize_struct E (V VcSeq) (V VcMap) s.
Proof.
  intros s fuel Hf. destruct (fuel_split _ _ Hf) as [f ->]. enter. unfold init_mach, DeTyped.deserialize_struct.
  repeat dstep. ws_now s.
  destruct (b =? 91); red1; repeat dstep. { frame_now. }
  destruct (b =? 123); red1; repeat dstep. { frame_now. }
  pit_now (or_introl eq_refl).
Qed.

(* ---- deserialize_enum ---- *)
Theorem deserialize_enum_src : forall s fuel, (16 <= fuel)%nat ->
  as_tres (run fuel "deserialize_enum" s) = DeTyped.deserialize_enum E (V VcEnumMap) (V VcEnumUnit) s.
Proof.
  intros s fuel Hf. destruct (fuel_split _ _ Hf) as [f ->]. enter. unfold init_mach, DeTyped.deserialize_enum.
  repeat dstep. ws_now s.
  destruct (b =? 123); red1; repeat dstep.
  { match goal with |- context[enter E ?s] => destruct (enter E s) as [?s2| | |] end; red1; try reflexivity; repeat dstep.
    unfold do_visit at 1; red1.
    match goal with |- context[match V ?c ?s with _ => _ end] => destruct (V c s) as [[?a ?s3]| | | |] end;
      red1; repeat dstep; try reflexivity; leave_now.
    ws_now s4. destruct (b0 =? 125); red1; repeat dstep; reflexivity. }
  destruct (b =? 34); red1; repeat dstep. { visit_now. }
  reflexivity.
Qed.

(* ---- the common tail  match value { Ok(value) => Ok(value), Err(err) => Err(self.fix_position(err)) }  is the model's [fix_position] ---- *)
Definition FIX_TAIL := DRet (XMatchRes "value" [(RpOk (Some "value"), XOk "value"); (RpErr (Some "err"), XErrFix "err")]).
Lemma fix_tail f (r : rval A) m l :
  as_tres (let* o := dblock (dexec_ (S (S (S (S (S f)))))) [FIX_TAIL] (("value", LRes r) :: l) m in
           match o with OR r' m' => Ok (r', m') | _ => Panic end) = fix_position E (as_tres (Ok (r, m))).
Proof.
  unfold FIX_TAIL. destruct m as [ms sg buf raw]. repeat dstep.
  destruct r as [a| |[c i|k]|]; red1; repeat dstep; try reflexivity.
  - destruct sg, ms; reflexivity.
  - destruct sg; reflexivity.
  - destruct sg; reflexivity.
  - destruct ms as [s'|]; red1; destruct sg; reflexivity.
  - destruct sg; reflexivity.
Qed.

(* `let value = self.f(visitor);` followed by the common tail *)
Lemma call_fix_tail f g fn s1 l (spec : tres (A * st)) :
  as_tres (dcall_fn (dexec_ g) DE_TABLE fn (mkMach (Some s1) false [] None)) = spec ->
  as_tres (let* o := (let* o := (let* o := deval_ (S g) (XCall fn) l (mkMach (Some s1) false [] None) in
                                 match o with OV r m' => Ok (OF (("value", LRes r) :: l) m') | OR _ _ => Ok o | OF _ _ => Panic end) in
                      match o with OF l' m' => dblock (dexec_ (S (S (S (S (S f)))))) [FIX_TAIL] l' m' | _ => Ok o end) in
           match o with OR r m' => Ok (r, m') | _ => Panic end) = fix_position E spec.
Proof.
  intros <-. rewrite deval_S. cbv beta iota.
  destruct (dcall_fn (dexec_ g) DE_TABLE fn _) as [[r m']| | |]; cbn [bind]; [apply fix_tail|reflexivity ..].
Qed.

(* a call in tail position: `self.f(visitor)` as the whole body *)
Lemma call_tail (X : res (rval A * mach)) (ex : @dexec_t A) :
  (let* o := (let* o := (let* o := (let* (r, m') := X in Ok (OV r m')) in ret_of o) in
              match o with OF l' m' => dblock ex [] l' m' | _ => Ok o end) in
   match o with OR r m' => Ok (r, m') | _ => Panic end) = X.
Proof. destruct X as [[r m']| | |]; reflexivity. Qed.

Lemma delegate_src fn target : dfind fn DE_TABLE = Some (mkD [DRet (XCall target)]) ->
  forall f s, run (S (S (S f))) fn s = run (S f) target s.
Proof.
  intros H f s. unfold interp. unfold dcall_fn at 1. rewrite H. cbv beta iota. red1. repeat dstep. apply call_tail.
Qed.

Theorem delegations_src : forall f s,
  run (S (S (S f))) "deserialize_char" s = run (S f) "deserialize_str" s /\
  run (S (S (S f))) "deserialize_string" s = run (S f) "deserialize_str" s /\
  run (S (S (S f))) "deserialize_identifier" s = run (S f) "deserialize_str" s /\
  run (S (S (S f))) "deserialize_byte_buf" s = run (S f) "deserialize_bytes" s /\
  run (S (S (S f))) "deserialize_unit_struct" s = run (S f) "deserialize_unit" s /\
  run (S (S (S f))) "deserialize_tuple" s = run (S f) "deserialize_seq" s /\
  run (S (S (S f))) "deserialize_tuple_struct" s = run (S f) "deserialize_seq" s /\
  run (S (S (S f))) "deserialize_i8" s = run (S f) "deserialize_number" s /\
  run (S (S (S f))) "deserialize_i16" s = run (S f) "deserialize_number" s /\
  run (S (S (S f))) "deserialize_i32" s = run (S f) "deserialize_number" s /\
  run (S (S (S f))) "deserialize_i64" s = run (S f) "deserialize_number" s /\
  run (S (S (S f))) "deserialize_u8" s = run (S f) "deserialize_number" s /\
  run (S (S (S f))) "deserialize_u16" s = run (S f) "deserialize_number" s /\
  run (S (S (S f))) "deserialize_u32" s = run (S f) "deserialize_number" s /\
  run (S (S (S f))) "deserialize_u64" s = run (S f) "deserialize_number" s /\
  run (S (S (S f))) "deserialize_f64" s = run (S f) "deserialize_number" s /\
  run (S (S (S f))) "deserialize_i128" s = run (S f) "do_deserialize_i128" s /\
  run (S (S (S f))) "deserialize_u128" s = run (S f) "do_deserialize_u128" s.
Proof. intros f s. repeat split; apply delegate_src; reflexivity. Qed.

(* ---- deserialize_any ---- *)
Definition any_spec (s : st) : tres (A * st) :=
  let^ (o, s1) := Read.parse_whitespace E s in
  match o with
  | None => DeTyped.lift (peek_error E s1 EofWhileParsingValue)
  | Some b =>
    fix_position E
      (if b =? 110 then let^ s2 := Read.parse_ident E lit_ull (discard s1) in V VcUnit s2
       else if b =? 116 then let^ s2 := Read.parse_ident E lit_rue (discard s1) in V (VcBool true) s2
       else if b =? 102 then let^ s2 := Read.parse_ident E lit_alse (discard s1) in V (VcBool false) s2
       else if b =? 45 then let^ (p, s2) := parse_any_number E false (discard s1) in V (VcNum p) s2
       else if is_digit b then let^ (p, s2) := parse_any_number E true s1 in V (VcNum p) s2
       else if b =? 34 then let^ (str, bo, s2) := parse_str E (discard s1) in V (VcStr str bo) s2
       else if b =? 91 then DeTyped.frame E De.end_seq end_seq_st (V VcSeq) s1
       else if b =? 123 then DeTyped.frame E De.end_map end_map_st (V VcMap) s1
       else DeTyped.lift (peek_error E s1 ExpectedSomeValue))
  end.

Ltac num_now :=
  match goal with |- context[parse_any_number E ?pos ?s] => destruct (parse_any_number E pos s) as [[?p ?s2]| | |] end;
  red1; try reflexivity; repeat dstep.

Theorem deserialize_any_src : forall s fuel, (16 <= fuel)%nat -> as_tres (run fuel "deserialize_any" s) = any_spec s.
Proof.
  intros s fuel Hf. destruct (fuel_split _ _ Hf) as [f ->]. enter. unfold init_mach, any_spec.
  repeat dstep. ws_now s.
  change ((48 <=? b) && (b <=? 57)) with (is_digit b).
  destruct (b =? 110); red1; repeat dstep. { ident_now. visit_now. }
  destruct (b =? 116); red1; repeat dstep. { ident_now. visit_now. }
  destruct (b =? 102); red1; repeat dstep. { ident_now. visit_now. }
  destruct (b =? 45); red1; repeat dstep. { num_now. visit_now. }
  destruct (is_digit b); red1; repeat dstep. { num_now. visit_now. }
  destruct (b =? 34); red1; repeat dstep. { str_now. visit_now. }
  destruct (b =? 91); red1; repeat dstep. { frame_now. }
  destruct (b =? 123); red1; repeat dstep. { frame_now. }
  reflexivity.
Qed.

(* ---- deserialize_bytes (deserialize_byte_buf delegates to it) ---- *)
Definition bytes_spec (s : st) : tres (A * st) :=
  let^ (o, s1) := Read.parse_whitespace E s in
  match o with
  | None => DeTyped.lift (peek_error E s1 EofWhileParsingValue)
  | Some b =>
    fix_position E
      (if b =? 34 then let^ (str, bo, s2) := parse_str_raw E (discard s1) in V (VcBytes str bo) s2
       else if b =? 91 then DeTyped.deserialize_seq E (V VcSeq) s1
       else peek_invalid_type E s1)
  end.

Lemma deserialize_seq_call s g : (16 <= g)%nat ->
  as_tres (dcall_fn (dexec_ g) DE_TABLE "deserialize_seq" (mkMach (Some s) false [] None)) = DeTyped.deserialize_seq E (V VcSeq) s.
Proof. intros H. exact (deserialize_seq_src s g H). Qed.

Theorem deserialize_bytes_src : forall s fuel, (34 <= fuel)%nat -> as_tres (run fuel "deserialize_bytes" s) = bytes_spec s.
Proof.
  intros s fuel Hf. destruct (fuel_split _ _ Hf) as [f ->]. enter. unfold init_mach, bytes_spec.
  repeat dstep. ws_now s.
  destruct (b =? 34); red1; repeat dstep.
  { match goal with |- context[parse_str_raw E ?s] => destruct (parse_str_raw E s) as [[[?str ?bo] ?s2]| | |] end;
      red1; try reflexivity; repeat dstep; rewrite ?meth_bytes. visit_now. }
  destruct (b =? 91); red1.
  { apply call_fix_tail. apply deserialize_seq_call. lia. }
  repeat dstep. pit_now (or_introl eq_refl).
Qed.

(* ---- deserialize_ignored_any ---- *)
Theorem deserialize_ignored_any_src : forall s fuel, (6 <= fuel)%nat ->
  as_tres (run fuel "deserialize_ignored_any" s) = (let^ s1 := ignore_value E s in V VcUnit s1).
Proof.
  intros s fuel Hf. destruct (fuel_split _ _ Hf) as [f ->]. enter. unfold init_mach.
  repeat dstep. destruct (ignore_value E s) as [s1| | |]; red1; try reflexivity. repeat dstep. visit_now.
Qed.

(* ---- deserialize_raw_value, deserialize_newtype_struct ---- *)
Definition raw_spec (s : st) : tres (A * st) :=
  let^ (_, s0) := Read.parse_whitespace E s in
  let^ s1 := ignore_value E s0 in
  let span := firstn (off s1 - off s0) (rest s0) in
  match rk E with
  | RStr => V (VcRaw span) s1
  | _ => if utf8_valid span then V (VcRaw span) s1 else DeTyped.lift (error E s1 InvalidUnicodeCodePoint)
  end.

Theorem deserialize_raw_value_src : forall s fuel, (8 <= fuel)%nat -> as_tres (run fuel "deserialize_raw_value" s) = raw_spec s.
Proof.
  intros s fuel Hf. destruct (fuel_split _ _ Hf) as [f ->]. enter. unfold init_mach, raw_spec.
  repeat dstep. rewrite cur_ws_eq. destruct (Read.parse_whitespace E s) as [[o s0]| | |]; red1; try reflexivity.
  repeat dstep. destruct (ignore_value E s0) as [s1| | |]; red1; try reflexivity. repeat dstep.
  destruct (rk E); [destruct (utf8_valid _); [visit_now|reflexivity] | visit_now | destruct (utf8_valid _); [visit_now|reflexivity]].
Qed.

Lemma deserialize_raw_value_call s g : (8 <= g)%nat ->
  as_tres (dcall_fn (dexec_ g) DE_TABLE "deserialize_raw_value" (mkMach (Some s) false [] None)) = raw_spec s.
Proof. intros H. exact (deserialize_raw_value_src s g H). Qed.

Lemma if_eq {T} (b : bool) (x x' y y' : T) : x = x' -> y = y' -> (if b then x else y) = (if b then x' else y').
Proof. intros -> ->. reflexivity. Qed.

Theorem deserialize_newtype_struct_src : forall s fuel, (12 <= fuel)%nat ->
  as_tres (run fuel "deserialize_newtype_struct" s) = if tok then raw_spec s else V VcNewtype s.
Proof.
  intros s fuel Hf. destruct (fuel_split _ _ Hf) as [f ->]. enter. unfold init_mach.
  rewrite dblock_cons, dexec_S. cbv beta iota.
  match goal with |- as_tres (bind (bind (if tok then ?X else ?Y) ?K) ?K2) = _ =>
    transitivity (if tok then as_tres (bind (bind X K) K2) else as_tres (bind (bind Y K) K2)); [destruct tok; reflexivity|] end.
  apply if_eq.
  - unfold dscope. rewrite dblock_cons, dexec_S. cbv beta iota. rewrite deval_S. cbv beta iota.
    match goal with |- context[dcall_fn (dexec_ ?g) DE_TABLE "deserialize_raw_value" ?m] =>
      pose proof (deserialize_raw_value_call s g ltac:(lia)) as Hs;
      destruct (dcall_fn (dexec_ g) DE_TABLE "deserialize_raw_value" m) as [[r m']| | |] end;
      rewrite <- Hs; clear Hs; red1; reflexivity.
  - red1. repeat dstep. visit_now.
Qed.

(* ---- deserialize_number (with the `single_precision` flag the machine carries), do_deserialize_f32, deserialize_f32 ---- *)
Definition number_spec (sg : bool) (s : st) : tres (A * st) :=
  let^ (o, s1) := Read.parse_whitespace E s in
  match o with
  | None => DeTyped.lift (peek_error E s1 EofWhileParsingValue)
  | Some b =>
    fix_position E
      (if b =? 45 then let^ (p, s2) := (if sg then parse_integer_s else parse_integer) E false (discard s1) in V (VcNum p) s2
       else if is_digit b then let^ (p, s2) := (if sg then parse_integer_s else parse_integer) E true s1 in V (VcNum p) s2
       else peek_invalid_type E s1)
  end.

Lemma pw_peek s b s1 : Read.parse_whitespace E s = Ok (Some b, s1) -> forall b' s', peek_or_null E s1 = Ok (b', s') -> b' = b.
Proof.
  unfold Read.parse_whitespace, peek_or_null, peek, at_end. set (s0 := advance _ s). clearbody s0.
  destruct (rest s0) as [|c r] eqn:Hr.
  - destruct (tm E); discriminate.
  - intros H. inversion H. subst. cbn. intros b' s' H'. inversion H'. reflexivity.
Qed.

Ltac int_now :=
  match goal with
  | |- context[parse_integer E ?pos ?s] => destruct (parse_integer E pos s) as [[?p ?s2]| | |]
  | |- context[parse_integer_s E ?pos ?s] => destruct (parse_integer_s E pos s) as [[?p ?s2]| | |]
  end; red1; try reflexivity; repeat dstep.

Theorem deserialize_number_call : forall sg s buf raw g, (16 <= g)%nat ->
  obs sg (dcall_fn (dexec_ g) DE_TABLE "deserialize_number" (mkMach (Some s) sg buf raw)) = (number_spec sg s, true).
Proof.
  intros sg s buf raw g Hf. destruct (fuel_split _ _ Hf) as [f ->]. unfold dcall_fn at 1.
  match goal with |- context[dfind ?fn DE_TABLE] =>
    let d := eval vm_compute in (dfind fn DE_TABLE) in change (dfind fn DE_TABLE) with d end.
  cbv beta iota; red1. unfold number_spec.
  repeat dstep. rewrite cur_ws_eq.
  destruct (Read.parse_whitespace E s) as [[[b|] s1]| | |] eqn:Hw; red1; repeat dstep; try (destruct sg; reflexivity).
  change ((48 <=? b) && (b <=? 57)) with (is_digit b).
  destruct (b =? 45) eqn:H45; red1; repeat dstep. { destruct sg; int_now; visit_now. }
  destruct (is_digit b) eqn:Hd; red1; repeat dstep. { destruct sg; int_now; visit_now. }
  assert (Hpk : sg = false \/ forall b' s', peek_or_null E s1 = Ok (b', s') -> b' <> 45 /\ is_digit b' = false).
  { right. intros b' s' H'. rewrite (pw_peek _ _ _ Hw _ _ H'). split; [apply N.eqb_neq; exact H45|exact Hd]. }
  pit_now Hpk; destruct sg; reflexivity.
Qed.

Theorem deserialize_number_src : forall s fuel, (16 <= fuel)%nat ->
  as_tres (run fuel "deserialize_number" s) = number_spec false s.
Proof.
  intros s fuel Hf. pose proof (deserialize_number_call false s [] None fuel Hf) as H. unfold interp, init_mach.
  destruct (dcall_fn (dexec_ fuel) DE_TABLE "deserialize_number" _) as [[v [ms sg bf rw]]| | |]; cbn [obs mst msingle mbuf mraw] in H.
  - injection H as H1 H2. destruct sg; [discriminate|]. exact H1.
  - injection H as H1. exact H1.
  - injection H as H1. exact H1.
  - injection H as H1. exact H1.
Qed.

Theorem do_deserialize_f32_src : forall s fuel, (24 <= fuel)%nat ->
  as_tres (run fuel "do_deserialize_f32" s) = number_spec true s.
Proof.
  intros s fuel Hf. destruct (fuel_split _ _ Hf) as [f ->]. enter. unfold init_mach.
  repeat dstep.
  match goal with |- context[dcall_fn (dexec_ ?g) DE_TABLE "deserialize_number" ?m] =>
    pose proof (deserialize_number_call true s [] None g ltac:(lia)) as H;
    destruct (dcall_fn (dexec_ g) DE_TABLE "deserialize_number" m) as [[v [ms sg bf rw]]| | |] end;
    cbn [obs mst msingle mbuf mraw] in H; injection H as H1; rewrite <- H1; red1; repeat dstep; reflexivity.
Qed.

Lemma do_deserialize_f32_call s g : (24 <= g)%nat ->
  as_tres (dcall_fn (dexec_ g) DE_TABLE "do_deserialize_f32" (mkMach (Some s) false [] None)) = number_spec true s.
Proof. intros H. exact (do_deserialize_f32_src s g H). Qed.
Lemma deserialize_number_call0 s g : (16 <= g)%nat ->
  as_tres (dcall_fn (dexec_ g) DE_TABLE "deserialize_number" (mkMach (Some s) false [] None)) = number_spec false s.
Proof. intros H. exact (deserialize_number_src s g H). Qed.

(* the two cfg(float_roundtrip) instances of deserialize_f32 *)
Theorem deserialize_f32_src : forall s fuel, (30 <= fuel)%nat ->
  as_tres (run fuel "deserialize_f32" s) = if float_roundtrip (cf E) then number_spec true s else number_spec false s.
Proof.
  intros s fuel Hf. destruct (fuel_split _ _ Hf) as [f ->]. enter. unfold init_mach.
  rewrite dblock_cons, dexec_S. cbv beta iota. unfold dscope.
  destruct (float_roundtrip (cf E)); rewrite dblock_cons, dexec_S; cbv beta iota; rewrite deval_S; cbv beta iota.
  - match goal with |- context[dcall_fn (dexec_ ?g) DE_TABLE "do_deserialize_f32" ?m] =>
      pose proof (do_deserialize_f32_call s g ltac:(lia)) as Hs;
      destruct (dcall_fn (dexec_ g) DE_TABLE "do_deserialize_f32" m) as [[r m']| | |] end;
      rewrite <- Hs; clear Hs; red1; reflexivity.
  - match goal with |- context[dcall_fn (dexec_ ?g) DE_TABLE "deserialize_number" ?m] =>
      pose proof (deserialize_number_call0 s g ltac:(lia)) as Hs;
      destruct (dcall_fn (dexec_ g) DE_TABLE "deserialize_number" m) as [[r m']| | |] end;
      rewrite <- Hs; clear Hs; red1; reflexivity.
Qed.

(* ---- do_deserialize_i128 / do_deserialize_u128 ---- *)
Lemma digit_cases c : is_digit c = true ->
  c = 48 \/ c = 49 \/ c = 50 \/ c = 51 \/ c = 52 \/ c = 53 \/ c = 54 \/ c = 55 \/ c = 56 \/ c = 57.
Proof. unfold is_digit. intros H. apply andb_prop in H. destruct H as [H1 H2]. apply N.leb_le in H1, H2. lia. Qed.

(* `buf.parse()` on text that starts with a digit *)
Lemma str_parse_digit signed c r : is_digit c = true ->
  str_parse_int signed (c :: r) =
  (let v := digits_val (c :: r) 0 in
   if all_digits (c :: r) && in_range (if signed then I128 else U128) v then Some v else None).
Proof.
  intros H. destruct (digit_cases c H) as [->|[->|[->|[->|[->|[->|[->|[->|[->| ->]]]]]]]]]; reflexivity.
Qed.

Lemma scan128_head s t s2 : Num.scan_integer128 E s = Ok (t, s2) -> exists c r, t = c :: r /\ is_digit c = true.
Proof.
  unfold Num.scan_integer128. destruct (next E s) as [[[c|] s1]| | |]; cbn; try discriminate.
  destruct (c =? 48) eqn:H48.
  - destruct (peek_or_null E s1) as [[c2 s2']| | |]; cbn; try discriminate.
    destruct (is_digit c2); [discriminate|]. intros H. inversion H. exists 48, []. split; reflexivity.
  - destruct (is_digit19 c) eqn:H19; [|discriminate].
    destruct (peek_or_null E _) as [[c2 s2']| | |]; cbn; try discriminate.
    intros H. inversion H. eexists _, _. split; [reflexivity|].
    unfold is_digit19 in H19. unfold is_digit. apply andb_prop in H19. destruct H19 as [Hlo Hhi].
    apply N.leb_le in Hlo, Hhi. apply andb_true_intro. split; apply N.leb_le; lia.
Qed.

Definition i128_spec (s : st) : tres (A * st) :=
  let^ (o, s1) := Read.parse_whitespace E s in
  match o with
  | None => DeTyped.lift (peek_error E s1 EofWhileParsingValue)
  | Some b =>
    let neg := b =? 45 in
    let^ (buf, s2) := Num.scan_integer128 E (if neg then discard s1 else s1) in
    match parse_i128 neg buf with
    | Some z => fix_position E (V (VcI128 z) s2)
    | None => DeTyped.lift (error E s2 NumberOutOfRange)
    end
  end.
Definition u128_spec (s : st) : tres (A * st) :=
  let^ (o, s1) := Read.parse_whitespace E s in
  match o with
  | None => DeTyped.lift (peek_error E s1 EofWhileParsingValue)
  | Some b =>
    if b =? 45 then DeTyped.lift (peek_error E s1 NumberOutOfRange)
    else
      let^ (buf, s2) := Num.scan_integer128 E s1 in
      match parse_u128 buf with
      | Some z => fix_position E (V (VcU128 z) s2)
      | None => DeTyped.lift (error E s2 NumberOutOfRange)
      end
  end.

Theorem do_deserialize_i128_src : forall s fuel, (16 <= fuel)%nat -> as_tres (run fuel "do_deserialize_i128" s) = i128_spec s.
Proof.
  intros s fuel Hf. destruct (fuel_split _ _ Hf) as [f ->]. enter. unfold init_mach, i128_spec.
  repeat dstep. rewrite cur_ws_eq.
  destruct (Read.parse_whitespace E s) as [[[b|] s1]| | |]; red1; try reflexivity; repeat dstep; try reflexivity.
  destruct (b =? 45); red1; repeat dstep; rewrite cur_scan128_eq.
  - destruct (Num.scan_integer128 E (discard s1)) as [[t s2]| | |] eqn:Hsc; red1; try reflexivity; repeat dstep.
    change (str_parse_int true (45 :: t)) with (parse_i128 true t).
    destruct (parse_i128 true t) as [z|]; red1; repeat dstep; [visit_now|reflexivity].
  - destruct (Num.scan_integer128 E s1) as [[t s2]| | |] eqn:Hsc; red1; try reflexivity; repeat dstep.
    destruct (scan128_head _ _ _ Hsc) as (c & r & -> & Hc). rewrite (str_parse_digit true c r Hc).
    change (let v := digits_val (c :: r) 0 in if all_digits (c :: r) && in_range I128 v then Some v else None) with (parse_i128 false (c :: r)).
    destruct (parse_i128 false (c :: r)) as [z|]; red1; repeat dstep; [visit_now|reflexivity].
Qed.

Theorem do_deserialize_u128_src : forall s fuel, (16 <= fuel)%nat -> as_tres (run fuel "do_deserialize_u128" s) = u128_spec s.
Proof.
  intros s fuel Hf. destruct (fuel_split _ _ Hf) as [f ->]. enter. unfold init_mach, u128_spec.
  repeat dstep. rewrite cur_ws_eq.
  destruct (Read.parse_whitespace E s) as [[[b|] s1]| | |]; red1; try reflexivity; repeat dstep; try reflexivity.
  destruct (b =? 45); red1; repeat dstep; [reflexivity|]. rewrite cur_scan128_eq.
  destruct (Num.scan_integer128 E s1) as [[t s2]| | |] eqn:Hsc; red1; try reflexivity; repeat dstep.
  destruct (scan128_head _ _ _ Hsc) as (c & r & -> & Hc). rewrite (str_parse_digit false c r Hc).
  change (let v := digits_val (c :: r) 0 in if all_digits (c :: r) && in_range U128 v then Some v else None) with (parse_u128 (c :: r)).
  destruct (parse_u128 (c :: r)) as [z|]; red1; repeat dstep; [visit_now|reflexivity].
Qed.
End V.
End P.

(* not vacuous: the interpreted source of deserialize_seq on  [ ]x  with a visitor that reads nothing, and of `end` on trailing blanks *)
Example deserialize_seq_runs :
  as_tres (interp (mkEnv RSlice TEof (mkCfg false false false false)) CURSOR_TABLE SCAN_TABLE
             (fun c s => match c with VcSeq => TOk (7, s) | _ => TUnpos MInvalidType s end) false DE_TABLE 20 "deserialize_seq"
             (init_st [32; 91; 32; 93; 120]))
  = TOk (7, mkSt [120] 4 false Gen.Tables.DEPTH0).
Proof. vm_compute. reflexivity. Qed.
Example deserialize_seq_visitor_error_is_positioned_after_end_seq :
  as_tres (interp (mkEnv RSlice TEof (mkCfg false false false false)) CURSOR_TABLE SCAN_TABLE
             (fun c s => match c with VcSeq => @TUnpos (N * st) MInvalidLength s | _ => TUnpos MInvalidType s end) false DE_TABLE 20 "deserialize_seq"
             (init_st [91; 32; 93; 120]))
  = TErr (Message MInvalidLength) 3.
Proof. vm_compute. reflexivity. Qed.
Example end_runs :
  as_unit (interp (mkEnv RSlice TEof (mkCfg false false false false)) CURSOR_TABLE SCAN_TABLE
             (fun c s => @TUnpos (N * st) MInvalidType s) false DE_TABLE 20 "end" (init_st [32; 10]))
  = Ok (mkSt [] 2 false Gen.Tables.DEPTH0).
Proof. vm_compute. reflexivity. Qed.
