(* Proofs/LexFull.v — Stage 3: the float parsing algorithm of lexical as modelled in Model/Lex.v returns the correctly
   rounded binary64 value, end to end:

     lex_concise_correct     parse_concise_float F64 mantissa mant_exp = bits_of_b64 (rne_decimal mantissa mant_exp)
                             for every u64 mantissa and EVERY exponent (fast path: LexFast; moderate path: LexMod; slow path: LexBh)
     lex_fallback_correct    fallback_path (moderate path with a possibly truncated mantissa, then bhcomp on the full digits)
     lex_truncated_correct   parse_truncated_float F64 integer fraction exponent = bits_of_b64 (lexical_truncated integer fraction exponent)
     f64_fr_alg_spec         the algorithm agrees with the specification f64_fr used by Model/Num.v (NumberOutOfRange included)

   `rne_decimal` is round-to-nearest-even of m * 10^e (FloatOracle.rne_decimal_correct, LexOracle.rne_decimal_overflow).
   Regression examples: the two findings F21 / F22 evaluate to the oracle's bits on the corrected model. *)
From Coq Require Import ZArith NArith Reals Lia Lra List Bool Psatz.
From Flocq Require Import Core BinarySingleNaN.
From SJ Require Import Base.Bytes Base.FloatB Gen.LexTables Model.Read Model.Num Model.Lex.
From SJ Require Import Proofs.GrammarNum Proofs.LexGlue.
From SJ Require Import Proofs.FloatDefault Proofs.FloatOracle Proofs.LexOracle Proofs.LexFast Proofs.LexRnd Proofs.LexBits Proofs.LexAtof
                       Proofs.LexBh Proofs.LexMod.
Import ListNotations.
Open Scope Z_scope.

Ltac Zify.zify_post_hook ::= idtac.

(* ------------------------------------------------------------------ *)
(** * the binary64 oracle satisfies the interface of the generic theorems *)
Definition orc64 (D e : Z) : N := bits_of_b64 (rne_decimal D e).

Lemma orc64_overflow : forall D e : Z, 0 < D ->
  (bpow radix2 (MAX_EXPONENT F64 + MANTISSA_SIZE F64) <= IZR D * powerRZ 10 e)%R -> orc64 D e = INFINITY_BITS F64.
Proof. intros D e HD Hx. unfold orc64. rewrite (oracle64_overflow D e HD Hx). reflexivity. Qed.

Lemma tiny64 : 2 ^ 64 * 2 ^ (1 - DENORMAL_EXPONENT F64) <= 10 ^ 351.
Proof. vm_compute. discriminate. Qed.
Lemma huge64 : 2 ^ (MAX_EXPONENT F64 + MANTISSA_SIZE F64) <= 10 ^ 310.
Proof. vm_compute. discriminate. Qed.

(* ------------------------------------------------------------------ *)
(** * itoa *)
Lemma dec_aux_head : forall fuel n acc, (0 < n)%N -> (n < 10 ^ N.of_nat fuel)%N ->
  exists d rest, dec_digits_aux fuel n acc = d :: rest /\ d <> 48%N.
Proof.
  induction fuel as [|f IH]; intros n acc Hpos Hn.
  - change (N.of_nat 0) with 0%N in Hn. rewrite N.pow_0_r in Hn. lia.
  - cbn [dec_digits_aux]. destruct (N.ltb_spec n 10) as [Hlt|Hge].
    + exists (48 + n)%N, acc. split; [reflexivity|lia].
    + rewrite Nat2N.inj_succ, N.pow_succ_r' in Hn. apply IH.
      * assert (1 <= n / 10)%N by (apply N.div_le_lower_bound; lia). lia.
      * apply N.div_lt_upper_bound; [discriminate|exact Hn].
Qed.

Lemma dec_aux_len : forall fuel n acc, (length (dec_digits_aux fuel n acc) <= fuel + length acc)%nat.
Proof.
  induction fuel as [|f IH]; intros n acc; cbn [dec_digits_aux]; [lia|].
  destruct (N.ltb n 10); [cbn [length]; lia|]. specialize (IH (n / 10)%N ((48 + n mod 10)%N :: acc)). cbn [length] in IH. lia.
Qed.

Lemma itoa_facts (x : N) : (0 < x)%N -> (x < two64N)%N ->
  forallb is_digit (itoa x) = true /\ digits_val (itoa x) 0 = Z.of_N x /\ hd 0%N (itoa x) <> 48%N /\ (length (itoa x) <= 40)%nat.
Proof.
  intros Hpos Hx.
  destruct (itoa_val x ltac:(unfold u64_max, two64N in *; lia)) as (Hd & Hv).
  split; [exact Hd|]. split; [rewrite digits_val_N, Hv; reflexivity|]. split.
  - unfold itoa. destruct (dec_aux_head 40 x [] Hpos) as (d & rest & Heq & Hne).
    + change (10 ^ N.of_nat 40)%N with 10000000000000000000000000000000000000000%N. unfold two64N in Hx. lia.
    + rewrite Heq. exact Hne.
  - unfold itoa. pose proof (dec_aux_len 40 x []) as H. cbn [length] in H. lia.
Qed.

(* ------------------------------------------------------------------ *)
(** * the tail shared by both parsers *)
Lemma slow_tail_correct : forall (integer fraction : bytes) (exponent : Z) (w : N) (mexp : Z) (truncated : bool) (theta : R),
  forallb is_digit integer = true -> forallb is_digit fraction = true -> (integer = [] \/ hd 0%N integer <> 48%N) ->
  Z.of_nat (length integer) + Z.of_nat (length fraction) <= 1000000000 ->
  let D := digits_val (integer ++ fraction) 0 in
  let e := exponent - Z.of_nat (length fraction) in
  0 < D -> (-350 <= mexp < 310 -> -1000000000 <= exponent <= 1000000000) ->
  (0 < w)%N -> (w < two64N)%N -> (0 <= theta < 1)%R -> (theta = 0%R \/ (truncated = true /\ 2 ^ 60 <= Z.of_N w)) ->
  (IZR D * powerRZ 10 e = (IZR (Z.of_N w) + theta) * powerRZ 10 mexp)%R ->
  fallback_path F64 integer fraction w exponent mexp truncated = orc64 D e.
Proof.
  intros integer fraction exponent w mexp truncated theta Hi Hf Hlead Hlen D e HD Hexp Hw0 Hw64 Hth Htr Hx.
  unfold fallback_path, fallback_trace.
  destruct (moderate_path F64 w mexp truncated) as (fp, valid) eqn:Hmp.
  destruct (moderate_sound_gen F64 orc64 oracle64_any orc64_overflow D e HD tiny64 huge64
              w mexp truncated theta fp valid Hw0 Hw64 Hth Htr Hx Hmp) as (Hv & Hnv).
  unfold slow_tail. destruct valid.
  - cbn [trace_bits]. apply Hv. reflexivity.
  - destruct (Hnv eq_refl) as (Hrange & Hb). cbv zeta in Hb.
    destruct (f_is_special F64 (ef_into_downward_float F64 fp)).
    + cbn [trace_bits]. exact Hb.
    + cbn [trace_bits]. destruct Hb as (Hb1 & Hb2).
      apply (bhcomp_correct _ integer fraction exponent Hi Hf Hlead (Hexp Hrange) Hlen HD Hb1 Hb2).
Qed.

(* ------------------------------------------------------------------ *)
(** * parse_concise_float *)
Theorem lex_concise_correct : forall (mantissa : N) (mant_exp : Z), (mantissa < two64N)%N ->
  parse_concise_float F64 mantissa mant_exp = bits_of_b64 (rne_decimal (Z.of_N mantissa) mant_exp).
Proof.
  intros mantissa mant_exp Hm. unfold parse_concise_float, concise_trace.
  destruct (fast_path F64 mantissa mant_exp) as [f|] eqn:Hfast.
  - cbn [trace_bits]. apply lex_fast_correct. exact Hfast.
  - assert (Hpos : (0 < mantissa)%N).
    { destruct (N.eq_dec mantissa 0) as [->|Hne]; [discriminate Hfast|lia]. }
    destruct (itoa_facts mantissa Hpos Hm) as (Hd & Hv & Hhd & Hlen).
    pose proof (slow_tail_correct (itoa mantissa) [] mant_exp mantissa mant_exp false 0%R Hd eq_refl (or_intror Hhd)) as H.
    cbn [length] in H. rewrite app_nil_r, Hv in H. change (Z.of_nat 0) with 0 in H. rewrite Z.sub_0_r in H.
    unfold fallback_path, fallback_trace in H. unfold orc64 in H.
    apply H; try lia; try assumption.
    + lra.
    + left. reflexivity.
    + rewrite Rplus_0_r. reflexivity.
Qed.

(* in terms of Model/Num.v: the algorithm computes the specification f64_fr, "out of range" included *)
Lemma bits_inf_iff (m e : Z) : 0 <= m ->
  (N.eqb (bits_of_b64 (rne_decimal m e)) F64_INFINITY_BITS = b64_is_inf (rne_decimal m e)).
Proof.
  intros Hm. destruct (rne_decimal_cases m e Hm) as [(Hfin & Hs & _ & _)|(Hinf & _)].
  - destruct (rne_decimal m e) as [s|s| |s mm ee Hb]; try discriminate Hfin; cbn [Bsign] in Hs; subst s.
    + reflexivity.
    + cbn [b64_is_inf]. apply N.eqb_neq. unfold bits_of_b64.
      pose proof (bounded_le_emax_minus_prec 53 1024 prec53_gt_0 mm ee Hb) as Hle.
      assert (Hlt : (F2R (Float radix2 (Zpos mm) ee) < bpow radix2 1024)%R).
      { apply Rle_lt_trans with (1 := Hle). pose proof (bpow_gt_0 radix2 (1024 - 53)). lra. }
      (* 2^52 <= m -> (e + 1075) * 2^52 + m - 2^52 < 2047 * 2^52 because m * 2^e < 2^1024 and m < 2^53 *)
      pose proof Hb as Hb'. apply andb_prop in Hb'. destruct Hb' as (Hcm & Hee). apply Zle_bool_imp_le in Hee.
      apply Zeq_bool_eq in Hcm. rewrite Digits.Zpos_digits2_pos in Hcm.
      pose proof (Digits.Zdigits_correct radix2 (Zpos mm)) as Hdg. rewrite Z.abs_eq in Hdg by lia.
      set (dg := Digits.Zdigits radix2 (Zpos mm)) in *.
      unfold SpecFloat.fexp, SpecFloat.emin in Hcm.
      assert (Hdg53 : dg <= 53) by lia.
      assert (Hm53 : Zpos mm < 2 ^ 53).
      { destruct Hdg as (_ & Hup). change (Z.pow radix2 dg) with (2 ^ dg) in Hup.
        apply Z.lt_le_trans with (1 := Hup). apply Z.pow_le_mono_r; lia. }
      change (2 ^ 53) with 9007199254740992 in Hm53.
      unfold F64_INFINITY_BITS. destruct (Z.ltb_spec (Zpos mm) 4503599627370496); lia.
  - rewrite Hinf. reflexivity.
Qed.

Theorem f64_fr_alg_spec : forall (sig : N) (e : Z), (sig < two64N)%N ->
  f64_fr_alg sig e = option_map bits_of_b64 (f64_fr sig e).
Proof.
  intros sig e Hs. unfold f64_fr_alg, f64_fr. cbv zeta. rewrite lex_concise_correct by exact Hs.
  rewrite bits_inf_iff by lia. destruct (b64_is_inf (rne_decimal (Z.of_N sig) e)); reflexivity.
Qed.

(* ------------------------------------------------------------------ *)
(** * parse_truncated_float *)
Lemma trunc_loop_spec : forall (l : bytes) (m : N), forallb is_digit l = true -> (m < two64N)%N ->
  let m' := fst (trunc_loop l m) in let t := snd (trunc_loop l m) in
  (t <= length l)%nat /\ (m' < two64N)%N /\
  exists rest : Z, digits_val l (Z.of_N m) = Z.of_N m' * 10 ^ Z.of_nat t + rest /\ 0 <= rest < 10 ^ Z.of_nat t /\
                   (t <> O -> 2 ^ 60 <= Z.of_N m').
Proof.
  induction l as [|c r IH]; intros m Hd Hm; cbn [trunc_loop].
  - cbn [fst snd length digits_val]. split; [lia|]. split; [exact Hm|]. exists 0. cbn. lia.
  - apply alldig_cons in Hd. destruct Hd as (Hc & Hr). destruct (digit_val_range c Hc) as (Hv & _).
    destruct (N.ltb_spec (m * 10 + digit_val c) two64N) as [Hfit|Hov].
    + specialize (IH (m * 10 + digit_val c)%N Hr Hfit). cbv zeta in IH. destruct IH as (H1 & H2 & rest & H3 & H4 & H5).
      cbn [length digits_val]. split; [lia|]. split; [exact H2|]. exists rest.
      replace (Z.of_N m * 10 + Z.of_N (digit_val c)) with (Z.of_N (m * 10 + digit_val c)) by lia. auto.
    + cbn [fst snd]. split; [cbn [length]; lia|]. split; [exact Hm|].
      exists (digits_val (c :: r) 0). split; [apply dv_acc|]. split.
      * apply dv_bound. cbn [forallb]. rewrite Hc, Hr. reflexivity.
      * intros _. unfold two64N in Hov. change (2 ^ 60) with 1152921504606846976. lia.
Qed.

Lemma strip_alldig (l : bytes) : forallb is_digit l = true ->
  forallb is_digit (strip_trailing_zeros l) = true /\ (length (strip_trailing_zeros l) <= length l)%nat.
Proof.
  intros Hd. destruct (strip_spec l) as (z & Hl & Hz). rewrite Hl in Hd at 1. rewrite forallb_app in Hd.
  apply andb_prop in Hd. split; [apply Hd|]. rewrite Hl at 2. rewrite app_length. lia.
Qed.

Theorem lex_fallback_correct : forall (integer fraction : bytes) (exponent : Z) (w : N) (mexp : Z) (truncated : bool) (theta : R),
  forallb is_digit integer = true -> forallb is_digit fraction = true -> (integer = [] \/ hd 0%N integer <> 48%N) ->
  Z.of_nat (length integer) + Z.of_nat (length fraction) <= 1000000000 ->
  let D := digits_val (integer ++ fraction) 0 in
  let e := exponent - Z.of_nat (length fraction) in
  0 < D -> (-350 <= mexp < 310 -> -1000000000 <= exponent <= 1000000000) ->
  (0 < w)%N -> (w < two64N)%N -> (0 <= theta < 1)%R -> (theta = 0%R \/ (truncated = true /\ 2 ^ 60 <= Z.of_N w)) ->
  (IZR D * powerRZ 10 e = (IZR (Z.of_N w) + theta) * powerRZ 10 mexp)%R ->
  fallback_path F64 integer fraction w exponent mexp truncated = bits_of_b64 (rne_decimal D e).
Proof. exact slow_tail_correct. Qed.

Theorem lex_truncated_correct : forall (integer fraction : bytes) (exponent : Z),
  forallb is_digit integer = true -> forallb is_digit fraction = true -> (integer = [] \/ hd 0%N integer <> 48%N) ->
  -1000000000 <= exponent <= 1000000000 -> Z.of_nat (length integer) + Z.of_nat (length fraction) <= 1000000000 ->
  0 < digits_val (integer ++ strip_trailing_zeros fraction) 0 ->
  parse_truncated_float F64 integer fraction exponent = bits_of_b64 (lexical_truncated integer fraction exponent).
Proof.
  intros integer fraction exponent Hi Hf Hlead Hexp Hlen HD.
  unfold parse_truncated_float, truncated_trace, lexical_truncated. cbv zeta.
  destruct (strip_alldig fraction Hf) as (Hfr & Hfrl). set (fr := strip_trailing_zeros fraction) in *.
  pose proof (trunc_loop_spec (integer ++ fr) 0%N ltac:(rewrite forallb_app, Hi, Hfr; reflexivity) ltac:(reflexivity)) as Htl.
  cbv zeta in Htl. destruct (trunc_loop (integer ++ fr) 0) as (w, t) eqn:Hloop. cbn [fst snd] in Htl.
  destruct Htl as (Ht & Hw & rest & Hval & Hrest & Hbig). change (Z.of_N 0) with 0 in Hval.
  cbn [snd]. fold (fallback_path F64 integer fr w exponent (mantissa_exponent exponent (length fr) t) true).
  rewrite app_length in Ht.
  (* the mantissa exponent, no saturation *)
  assert (Hme : mantissa_exponent exponent (length fr) t = exponent - Z.of_nat (length fr) + Z.of_nat t).
  { unfold mantissa_exponent. destruct (Nat.ltb_spec t (length fr)) as [Hlt|Hge].
    - rewrite into_i32_id by lia. rewrite i32_sat_id by lia. lia.
    - rewrite into_i32_id by lia. rewrite i32_sat_id by lia. lia. }
  rewrite Hme.
  set (D := digits_val (integer ++ fr) 0) in *. set (e := exponent - Z.of_nat (length fr)).
  assert (P10 : 0 < 10 ^ Z.of_nat t) by (apply pow10_pos; lia).
  assert (Hwpos : (0 < w)%N).
  { destruct (N.eq_dec w 0) as [->|Hne]; [exfalso|lia].
    destruct t as [|t']; [cbn in Hrest; lia|]. specialize (Hbig ltac:(discriminate)). cbn in Hbig. lia. }
  apply (lex_fallback_correct integer fr exponent w (e + Z.of_nat t) true (IZR rest / IZR (10 ^ Z.of_nat t))%R);
    try assumption; try lia.
  - assert (H10 : (0 < IZR (10 ^ Z.of_nat t))%R) by (apply IZR_lt; exact P10).
    split.
    + apply Rmult_le_pos; [apply IZR_le; lia|apply Rlt_le, Rinv_0_lt_compat; exact H10].
    + apply Rmult_lt_reg_r with (IZR (10 ^ Z.of_nat t)); [exact H10|].
      unfold Rdiv. rewrite Rmult_assoc, Rinv_l, Rmult_1_r, Rmult_1_l by lra. apply IZR_lt. lia.
  - destruct t as [|t'].
    + left. cbn in Hrest. assert (rest = 0) by lia. subst rest. unfold Rdiv. apply Rmult_0_l.
    + right. split; [reflexivity|]. apply Hbig. discriminate.
  - fold D e. rewrite Hval. rewrite powerRZ_add by lra. rewrite (powerRZ_10_nonneg (Z.of_nat t)) by lia.
    assert (H10 : (0 < IZR (10 ^ Z.of_nat t))%R) by (apply IZR_lt; exact P10).
    rewrite plus_IZR, mult_IZR. field. lra.
Qed.

(* ------------------------------------------------------------------ *)
(** * regression examples (findings F21, F22) *)
Example lex_regression_F22 :
  let intg := itoa 2295968209859975540 ++ [57; 57; 57]%N in
  parse_truncated_float F64 intg [] (-233) = bits_of_b64 (lexical_truncated intg [] (-233)) /\
  parse_truncated_float F64 intg [] (-233) = 1440847152658981017%N.
Proof. split; vm_compute; reflexivity. Qed.

Example lex_regression_F21 :
  let intg := itoa 9007199254740993 ++ repeat 48%N 753 in
  parse_truncated_float F64 intg [] (-753) = bits_of_b64 (lexical_truncated intg [] (-753)).
Proof. vm_compute. reflexivity. Qed.

Print Assumptions lex_concise_correct.
Print Assumptions lex_truncated_correct.
Print Assumptions f64_fr_alg_spec.
