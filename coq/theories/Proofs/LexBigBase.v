(* Proofs/LexBigBase.v — refinement of the limb-level big integers of Model/LexBig.v, part 1:
   the value of a limb vector, the scalar operations (carries), the `small` operations (add / multiply by a limb,
   shifts, normalize), compare, bit_length, hi64, from_u64.

   val x            the integer a little-endian limb vector denotes
   limbs_ok x       every limb is < 2^64 (a u64)
   normalized x     `x.last() != Some(&0)`: no most significant zero limb

   Every operation is shown (1) not to fail (no index out of bounds, no overflow check, no debug_assert) on its
   stated domain, (2) to compute the Z operation of Model/Lex.v, (3) to keep limbs_ok, and — where true — normalized. *)
From Coq Require Import NArith ZArith List Bool Arith Lia ZifyBool ZifyNat ZifyN.
From SJ Require Import Gen.LexTables Model.Lex Model.LexBig.
Import ListNotations.
Open Scope Z_scope.

Arguments N.mul : simpl never.
Arguments N.add : simpl never.
Arguments N.sub : simpl never.
Arguments N.div : simpl never.
Arguments N.modulo : simpl never.
Arguments N.land : simpl never.
Arguments N.lor : simpl never.
Arguments N.shiftl : simpl never.
Arguments N.shiftr : simpl never.
Arguments Z.mul : simpl never.
Arguments Z.add : simpl never.
Arguments Z.sub : simpl never.
Arguments Z.pow : simpl never.
Arguments Z.of_N : simpl never.

(* ------------------------------------------------------------------------------------------------ *)
(** * values *)
Definition W : Z := 18446744073709551616.          (* 2^64 *)

Fixpoint val (x : list N) : Z :=
  match x with
  | [] => 0
  | a :: r => Z.of_N a + W * val r
  end.

Definition limbs_ok (x : list N) : Prop := Forall (fun a => (a < LB)%N) x.
Definition normalized (x : list N) : Prop := last x 1%N <> 0%N.

Notation len x := (Z.of_nat (length x)).

Lemma W_eq : W = 2 ^ 64. Proof. reflexivity. Qed.
Lemma W_pos : 0 < W. Proof. reflexivity. Qed.
Lemma LB_W : Z.of_N LB = W. Proof. reflexivity. Qed.
Lemma Wpow_pos (n : Z) : 0 <= n -> 0 < W ^ n.
Proof. intros H. apply Z.pow_pos_nonneg; [exact W_pos|exact H]. Qed.
Lemma Wpow_succ (n : Z) : 0 <= n -> W ^ (n + 1) = W * W ^ n.
Proof. intros H. rewrite Z.pow_add_r by lia. rewrite Z.pow_1_r. ring. Qed.
Lemma Wpow_2pow (n : Z) : 0 <= n -> W ^ n = 2 ^ (64 * n).
Proof. intros H. rewrite W_eq, <- Z.pow_mul_r by lia. reflexivity. Qed.

Lemma limbs_ok_nil : limbs_ok []. Proof. constructor. Qed.
Lemma limbs_ok_cons (a : N) (r : list N) : limbs_ok (a :: r) <-> (a < LB)%N /\ limbs_ok r.
Proof. split; [intros H; inversion H; auto|intros (H1 & H2); constructor; assumption]. Qed.
Lemma limbs_ok_app (x y : list N) : limbs_ok (x ++ y) <-> limbs_ok x /\ limbs_ok y.
Proof. unfold limbs_ok. apply Forall_app. Qed.
Lemma limbs_ok_repeat0 (n : nat) : limbs_ok (repeat 0%N n).
Proof. induction n as [|n IH]; cbn [repeat]; [constructor|constructor; [reflexivity|exact IH]]. Qed.
Lemma limbs_ok_firstn (n : nat) (x : list N) : limbs_ok x -> limbs_ok (firstn n x).
Proof.
  revert x; induction n as [|n IH]; intros x H; cbn [firstn]; [constructor|].
  destruct x as [|a r]; [constructor|]. apply limbs_ok_cons in H. apply limbs_ok_cons. split; [tauto|apply IH; tauto].
Qed.
Lemma limbs_ok_skipn (n : nat) (x : list N) : limbs_ok x -> limbs_ok (skipn n x).
Proof.
  revert x; induction n as [|n IH]; intros x H; cbn [skipn]; [exact H|].
  destruct x as [|a r]; [constructor|]. apply limbs_ok_cons in H. apply IH; tauto.
Qed.

Lemma val_nonneg (x : list N) : 0 <= val x.
Proof. induction x as [|a r IH]; cbn [val]; [lia|]. pose proof W_pos. nia. Qed.

Lemma val_app (x y : list N) : val (x ++ y) = val x + W ^ len x * val y.
Proof.
  induction x as [|a r IH]; cbn [app val length].
  - rewrite Z.pow_0_r. ring.
  - rewrite IH. rewrite Nat2Z.inj_succ, <- Z.add_1_r, Wpow_succ by lia. ring.
Qed.

Lemma val_bound (x : list N) : limbs_ok x -> val x < W ^ len x.
Proof.
  induction x as [|a r IH]; intros H; cbn [val length].
  - rewrite Z.pow_0_r. lia.
  - apply limbs_ok_cons in H. destruct H as (Ha & Hr). specialize (IH Hr).
    rewrite Nat2Z.inj_succ, <- Z.add_1_r, Wpow_succ by lia.
    assert (Z.of_N a < W) by (rewrite <- LB_W; lia). pose proof W_pos. nia.
Qed.

Lemma val_repeat0 (n : nat) : val (repeat 0%N n) = 0.
Proof. induction n as [|n IH]; cbn [repeat val]; [reflexivity|rewrite IH; lia]. Qed.

Lemma val_single (a : N) : val [a] = Z.of_N a.
Proof. cbn [val]. lia. Qed.

(* normalized *)
Lemma normalized_nil : normalized []. Proof. unfold normalized. cbn. discriminate. Qed.
Lemma last_cons_ne (a b : N) (r : list N) (d : N) : last (a :: b :: r) d = last (b :: r) d.
Proof. reflexivity. Qed.
Lemma normalized_cons (a : N) (r : list N) : r <> [] -> (normalized (a :: r) <-> normalized r).
Proof. intros H. destruct r as [|b r]; [congruence|]. unfold normalized. rewrite last_cons_ne. tauto. Qed.
Lemma normalized_single (a : N) : normalized [a] <-> a <> 0%N.
Proof. unfold normalized. cbn [last]. tauto. Qed.
Lemma last_app_single (x : list N) (a d : N) : last (x ++ [a]) d = a.
Proof. apply last_last. Qed.
Lemma normalized_snoc (x : list N) (a : N) : normalized (x ++ [a]) <-> a <> 0%N.
Proof. unfold normalized. rewrite last_app_single. tauto. Qed.
Lemma normalized_app (x y : list N) : y <> [] -> (normalized (x ++ y) <-> normalized y).
Proof.
  intros Hy. induction x as [|a r IH]; cbn [app]; [tauto|].
  rewrite normalized_cons; [exact IH|]. destruct r; cbn [app]; [exact Hy|discriminate].
Qed.

(* a normalized non-empty vector has its top limb set: W^(len-1) <= val *)
Lemma normalized_lower (x : list N) : normalized x -> x <> [] -> W ^ (len x - 1) <= val x.
Proof.
  induction x as [|a r IH]; intros Hn Hne; [congruence|].
  destruct r as [|b r].
  - apply (proj1 (normalized_single _)) in Hn. cbn [length val]. change (Z.of_nat 1 - 1) with 0. rewrite Z.pow_0_r. lia.
  - apply (proj1 (normalized_cons a (b :: r) ltac:(discriminate))) in Hn. specialize (IH Hn ltac:(discriminate)).
    cbn [val]. cbn [val] in IH. set (n := length (b :: r)) in *.
    replace (len (a :: b :: r) - 1) with ((Z.of_nat n - 1) + 1) by (cbn [length]; subst n; cbn [length]; lia).
    rewrite Wpow_succ by (subst n; cbn [length]; lia). pose proof W_pos. nia.
Qed.

(* conversely *)
Lemma lower_normalized (x : list N) : limbs_ok x -> x <> [] -> W ^ (len x - 1) <= val x -> normalized x.
Proof.
  intros Hok Hne Hlow.
  destruct (exists_last Hne) as (p & a & ->).
  apply normalized_snoc. intros ->.
  rewrite val_app in Hlow. cbn [val] in Hlow. rewrite app_length in Hlow. cbn [length] in Hlow.
  apply limbs_ok_app in Hok. destruct Hok as (Hp & _). pose proof (val_bound p Hp) as Hb.
  replace (Z.of_nat (length p + 1) - 1) with (len p) in Hlow by lia. lia.
Qed.

(* two normalized vectors: the longer one is the larger one *)
Lemma normalized_len_lt (x y : list N) : limbs_ok x -> normalized y -> (length x < length y)%nat -> val x < val y.
Proof.
  intros Hx Hy Hl. pose proof (val_bound x Hx) as Hb.
  assert (Hne : y <> []) by (destruct y; [cbn [length] in Hl; lia|discriminate]).
  pose proof (normalized_lower y Hy Hne) as Hlo.
  assert (W ^ len x <= W ^ (len y - 1)) by (apply Z.pow_le_mono_r; [exact W_pos|lia]). lia.
Qed.

(* ------------------------------------------------------------------------------------------------ *)
(** * truncation *)
Lemma wrap64_mod (z : N) : wrap64 z = (z mod LB)%N.
Proof. unfold wrap64. change 18446744073709551615%N with (N.ones 64). rewrite N.land_ones. reflexivity. Qed.
Lemma wrap128_mod (z : N) : wrap128 z = (z mod WB)%N.
Proof. unfold wrap128. change 340282366920938463463374607431768211455%N with (N.ones 128). rewrite N.land_ones. reflexivity. Qed.
Lemma shiftr64_div (z : N) : N.shiftr z LIMB_BITS = (z / LB)%N.
Proof. unfold LIMB_BITS. rewrite N.shiftr_div_pow2. reflexivity. Qed.
Lemma wrap64_lt (z : N) : (wrap64 z < LB)%N.
Proof. rewrite wrap64_mod. apply N.mod_lt. discriminate. Qed.
Lemma wrap64_small (z : N) : (z < LB)%N -> wrap64 z = z.
Proof. intros H. rewrite wrap64_mod. apply N.mod_small. exact H. Qed.

(* ------------------------------------------------------------------------------------------------ *)
(** * mod scalar *)
Definition b2z (b : bool) : Z := if b then 1 else 0.

Lemma scalar_add_spec (x y : N) : (x < LB)%N -> (y < LB)%N ->
  Z.of_N (fst (scalar_add x y)) + W * b2z (snd (scalar_add x y)) = Z.of_N x + Z.of_N y /\ (fst (scalar_add x y) < LB)%N.
Proof.
  intros Hx Hy. unfold scalar_add. cbn [fst snd]. rewrite wrap64_mod. split; [|apply N.mod_lt; discriminate].
  unfold LB in *. unfold W, b2z.
  destruct (N.leb_spec 18446744073709551616 (x + y)) as [H|H].
  - rewrite N2Z.inj_mod, N2Z.inj_add. change (Z.of_N 18446744073709551616) with 18446744073709551616.
    Z.div_mod_to_equations. lia.
  - rewrite N.mod_small by exact H. lia.
Qed.

Lemma scalar_iadd_eq (x y : N) : scalar_iadd x y = scalar_add x y.
Proof. unfold scalar_iadd. destruct (scalar_add x y); reflexivity. Qed.
Lemma scalar_isub_eq (x y : N) : scalar_isub x y = scalar_sub x y.
Proof. unfold scalar_isub. destruct (scalar_sub x y); reflexivity. Qed.
Lemma scalar_imul_eq (x y c : N) : scalar_imul x y c = scalar_mul x y c.
Proof. unfold scalar_imul. destruct (scalar_mul x y c); reflexivity. Qed.

Lemma scalar_sub_spec (x y : N) : (x < LB)%N -> (y < LB)%N ->
  Z.of_N (fst (scalar_sub x y)) - W * b2z (snd (scalar_sub x y)) = Z.of_N x - Z.of_N y /\ (fst (scalar_sub x y) < LB)%N.
Proof.
  intros Hx Hy. unfold scalar_sub. cbn [fst snd]. rewrite wrap64_mod. split; [|apply N.mod_lt; discriminate].
  unfold LB in *. unfold W, b2z.
  rewrite N2Z.inj_mod, N2Z.inj_sub, N2Z.inj_add by lia. change (Z.of_N 18446744073709551616) with 18446744073709551616.
  destruct (N.ltb_spec x y) as [H|H]; Z.div_mod_to_equations; lia.
Qed.

Lemma scalar_mul_spec (x y c : N) : (x < LB)%N -> (y < LB)%N -> (c < LB)%N ->
  Z.of_N (fst (scalar_mul x y c)) + W * Z.of_N (snd (scalar_mul x y c)) = Z.of_N x * Z.of_N y + Z.of_N c
  /\ (fst (scalar_mul x y c) < LB)%N /\ (snd (scalar_mul x y c) < LB)%N.
Proof.
  intros Hx Hy Hc. unfold scalar_mul. cbn [fst snd]. rewrite !wrap64_mod, !wrap128_mod, shiftr64_div.
  split; [|split; apply N.mod_lt; discriminate].
  assert (Hp : (x * y <= 18446744073709551615 * 18446744073709551615)%N).
  { unfold LB in *. apply N.mul_le_mono; lia. }
  set (p := (x * y)%N) in *.
  assert (Hpz : Z.of_N x * Z.of_N y = Z.of_N p) by (subst p; lia). rewrite Hpz.
  unfold LB, WB in *. unfold W.
  rewrite (N.mod_small p) by lia. rewrite (N.mod_small (p + c)) by lia.
  rewrite (N.mod_small ((p + c) / _)).
  - rewrite N2Z.inj_mod, N2Z.inj_div, N2Z.inj_add. change (Z.of_N 18446744073709551616) with 18446744073709551616.
    Z.div_mod_to_equations. lia.
  - apply N.div_lt_upper_bound; [discriminate|]. lia.
Qed.

(* ------------------------------------------------------------------------------------------------ *)
(** * indexing *)
Lemma nth_error_app_len (p : list N) (a : N) (t : list N) : nth_error (p ++ a :: t) (length p) = Some a.
Proof. induction p as [|b p IH]; cbn [app length nth_error]; [reflexivity|exact IH]. Qed.

Lemma set_nth_app_len (p : list N) (a v : N) (t : list N) : set_nth (p ++ a :: t) (length p) v = Some (p ++ v :: t).
Proof. induction p as [|b p IH]; cbn [app length set_nth]; [reflexivity|rewrite IH; reflexivity]. Qed.

Lemma split_at (x : list N) (i : nat) : (i < length x)%nat ->
  exists p a t, x = p ++ a :: t /\ length p = i.
Proof.
  revert i; induction x as [|b x IH]; intros i Hi; cbn [length] in Hi; [lia|].
  destruct i as [|i].
  - exists [], b, x. split; reflexivity.
  - destruct (IH i ltac:(lia)) as (p & a & t & -> & Hp). exists (b :: p), a, t. split; [reflexivity|cbn [length]; lia].
Qed.

Lemma split_le (x : list N) (i : nat) : (i <= length x)%nat ->
  exists p t, x = p ++ t /\ length p = i.
Proof.
  intros Hi. exists (firstn i x), (skipn i x). split; [symmetry; apply firstn_skipn|apply firstn_length_le; exact Hi].
Qed.

(* ------------------------------------------------------------------------------------------------ *)
(** * small::iadd_impl *)
Lemma iadd_ripple_spec : forall (s p : list N) (fuel : nat) (carry : bool),
  limbs_ok s -> (length s <= fuel)%nat ->
  exists s' c', iadd_ripple fuel (p ++ s) carry (length p) = Some (p ++ s', c')
    /\ val s' + W ^ len s * b2z c' = val s + b2z carry /\ length s' = length s /\ limbs_ok s'.
Proof.
  induction s as [|a t IH]; intros p fuel carry Hok Hf.
  - exists [], carry. rewrite app_nil_r.
    assert (E : iadd_ripple fuel p carry (length p) = Some (p, carry)).
    { destruct fuel; cbn [iadd_ripple]; rewrite Nat.ltb_irrefl, andb_false_r; reflexivity. }
    rewrite E. cbn [val length]. rewrite Z.pow_0_r. repeat split; [lia|constructor].
  - destruct carry.
    2:{ exists (a :: t), false.
        assert (E : iadd_ripple fuel (p ++ a :: t) false (length p) = Some (p ++ a :: t, false)) by (destruct fuel; reflexivity).
        rewrite E. cbn [b2z]. repeat split; [lia|exact Hok]. }
    apply limbs_ok_cons in Hok. destruct Hok as (Ha & Ht).
    destruct fuel as [|f]; [cbn [length] in Hf; lia|].
    cbn [iadd_ripple]. rewrite app_length. cbn [length].
    replace (length p <? length p + S (length t))%nat with true by (symmetry; apply Nat.ltb_lt; lia).
    cbn [andb]. rewrite nth_error_app_len. cbn [obind]. rewrite scalar_iadd_eq.
    destruct (scalar_add_spec a 1 Ha ltac:(reflexivity)) as (Hv & Hvb).
    destruct (scalar_add a 1) as (v, c). cbn [fst snd] in Hv, Hvb.
    rewrite set_nth_app_len. cbn [obind].
    specialize (IH (p ++ [v]) f c Ht ltac:(cbn [length] in Hf; lia)).
    destruct IH as (s' & c' & E & Hval & Hlen & Hok').
    rewrite (app_length p [v]) in E. cbn [length] in E. rewrite Nat.add_1_r in E. rewrite <- !app_assoc in E. cbn [app] in E.
    exists (v :: s'), c'. rewrite E. split; [reflexivity|]. split; [|split; [cbn [length]; lia|apply limbs_ok_cons; tauto]].
    cbn [val length b2z] in *. rewrite Nat2Z.inj_succ, <- Z.add_1_r, Wpow_succ by lia.
    change (Z.of_N 1) with 1 in Hv. nia.
Qed.

Lemma small_iadd_impl_spec (x : list N) (y : N) (xstart : nat) :
  limbs_ok x -> (y < LB)%N -> (xstart <= length x)%nat ->
  exists z, small_iadd_impl x y xstart = Some z /\ val z = val x + Z.of_N y * W ^ Z.of_nat xstart /\ limbs_ok z
    /\ (length x <= length z <= Nat.max (length x) xstart + 1)%nat
    /\ (normalized x -> (xstart < length x)%nat \/ y <> 0%N -> normalized z)
    /\ (length z = S (length x) -> y <> 0%N -> normalized z).
Proof.
  intros Hok Hy Hs. unfold small_iadd_impl.
  destruct (Nat.leb_spec (length x) xstart) as [Hle|Hlt].
  - assert (xstart = length x) by lia. subst xstart.
    exists (x ++ [y]). split; [reflexivity|]. rewrite val_app, val_single.
    split; [ring|]. split; [apply limbs_ok_app; split; [exact Hok|constructor; [exact Hy|constructor]]|].
    split; [rewrite app_length; cbn [length]; lia|].
    split; [intros _ [Hc|Hc]; [lia|apply normalized_snoc; exact Hc]|intros _ Hc; apply normalized_snoc; exact Hc].
  - destruct (split_at x xstart Hlt) as (p & a & t & -> & Hp). subst xstart.
    apply limbs_ok_app in Hok. destruct Hok as (Hpok & Hat). apply limbs_ok_cons in Hat. destruct Hat as (Ha & Ht).
    rewrite nth_error_app_len. cbn [obind]. rewrite scalar_iadd_eq.
    destruct (scalar_add_spec a y Ha Hy) as (Hv & Hvb).
    destruct (scalar_add a y) as (v, c). cbn [fst snd] in Hv, Hvb.
    rewrite set_nth_app_len. cbn [obind].
    destruct (iadd_ripple_spec t (p ++ [v]) (length (p ++ a :: t)) c Ht) as (s' & c' & E & Hval & Hlen & Hok').
    { rewrite app_length. cbn [length]. lia. }
    rewrite (app_length p [v]) in E. cbn [length] in E. rewrite Nat.add_1_r in E. rewrite <- !app_assoc in E. cbn [app] in E.
    rewrite E. cbn [obind].
    assert (Hbase : val (p ++ v :: s') + W ^ len (p ++ a :: t) * b2z c' = val (p ++ a :: t) + Z.of_N y * W ^ len p).
    { rewrite !val_app. cbn [val]. rewrite app_length. cbn [length].
      replace (Z.of_nat (length p + S (length t))) with (len p + (len t + 1)) by lia.
      rewrite Z.pow_add_r, Wpow_succ by lia. nia. }
    assert (Hokz : limbs_ok (p ++ v :: s')) by (apply limbs_ok_app; split; [exact Hpok|apply limbs_ok_cons; tauto]).
    assert (Hlz : length (p ++ v :: s') = length (p ++ a :: t)) by (rewrite !app_length; cbn [length]; lia).
    destruct c'; cbn [b2z] in Hbase.
    + exists ((p ++ v :: s') ++ [1%N]). split; [reflexivity|]. rewrite val_app, val_single, Hlz. change (Z.of_N 1) with 1.
      split; [lia|]. split; [apply limbs_ok_app; split; [exact Hokz|constructor; [reflexivity|constructor]]|].
      split; [rewrite (app_length (p ++ v :: s') [1%N]), Hlz; cbn [length]; lia|].
      split; intros _ _; apply normalized_snoc; discriminate.
    + exists (p ++ v :: s'). split; [reflexivity|]. split; [lia|]. split; [exact Hokz|]. split; [rewrite Hlz; lia|].
      split; [|intros Hc; rewrite Hlz in Hc; lia].
      intros Hn _. apply lower_normalized; [exact Hokz|destruct p; discriminate|].
      rewrite Hlz. pose proof (normalized_lower _ Hn ltac:(destruct p; discriminate)) as Hlo.
      pose proof (Wpow_pos (len p) ltac:(lia)). nia.
Qed.

(* ------------------------------------------------------------------------------------------------ *)
(** * small::imul *)
Lemma small_imul_loop_spec : forall (x : list N) (y c : N),
  limbs_ok x -> (y < LB)%N -> (c < LB)%N ->
  val (fst (small_imul_loop x y c)) + W ^ len x * Z.of_N (snd (small_imul_loop x y c)) = val x * Z.of_N y + Z.of_N c
  /\ limbs_ok (fst (small_imul_loop x y c)) /\ (snd (small_imul_loop x y c) < LB)%N
  /\ length (fst (small_imul_loop x y c)) = length x.
Proof.
  induction x as [|a r IH]; intros y c Hok Hy Hc; cbn [small_imul_loop].
  - cbn [fst snd val length]. rewrite Z.pow_0_r. repeat split; [lia|constructor|exact Hc].
  - apply limbs_ok_cons in Hok. destruct Hok as (Ha & Hr).
    rewrite scalar_imul_eq. destruct (scalar_mul_spec a y c Ha Hy Hc) as (Hm & Hlo & Hhi).
    destruct (scalar_mul a y c) as (lo, hi). cbn [fst snd] in Hm, Hlo, Hhi.
    specialize (IH y hi Hr Hy Hhi). destruct (small_imul_loop r y hi) as (r', c'). cbn [fst snd] in IH |- *.
    destruct IH as (Hv & Hok' & Hc' & Hl).
    split; [|split; [apply limbs_ok_cons; tauto|split; [exact Hc'|cbn [length]; lia]]].
    cbn [val length]. rewrite Nat2Z.inj_succ, <- Z.add_1_r, Wpow_succ by lia. nia.
Qed.

Lemma small_imul_spec (x : list N) (y : N) : limbs_ok x -> (y < LB)%N ->
  val (small_imul x y) = val x * Z.of_N y /\ limbs_ok (small_imul x y)
  /\ (length x <= length (small_imul x y) <= length x + 1)%nat.
Proof.
  intros Hok Hy. unfold small_imul.
  destruct (small_imul_loop_spec x y 0 Hok Hy ltac:(reflexivity)) as (Hv & Hok' & Hc & Hl).
  destruct (small_imul_loop x y 0) as (x', carry). cbn [fst snd] in *.
  destruct (N.eqb_spec carry 0) as [->|Hne].
  - change (Z.of_N 0) with 0 in Hv. split; [lia|]. split; [exact Hok'|lia].
  - rewrite val_app, val_single, Hl. change (Z.of_N 0) with 0 in Hv. split; [lia|].
    split; [apply limbs_ok_app; split; [exact Hok'|constructor; [exact Hc|constructor]]|rewrite app_length; cbn [length]; lia].
Qed.

Lemma small_imul_normalized (x : list N) (y : N) : limbs_ok x -> (y < LB)%N -> normalized x -> y <> 0%N ->
  normalized (small_imul x y).
Proof.
  intros Hok Hy Hn Hy0.
  destruct (small_imul_spec x y Hok Hy) as (Hv & Hokz & Hlen).
  destruct x as [|a r]; [cbn; exact normalized_nil|].
  assert (Hne : a :: r <> []) by discriminate.
  pose proof (normalized_lower _ Hn Hne) as Hlo.
  unfold small_imul in *.
  destruct (small_imul_loop_spec (a :: r) y 0 Hok Hy ltac:(reflexivity)) as (Hv' & Hok' & Hc & Hl).
  destruct (small_imul_loop (a :: r) y 0) as (x', carry). cbn [fst snd] in *.
  destruct (N.eqb_spec carry 0) as [Hc0|Hcne]; [subst carry|apply normalized_snoc; exact Hcne].
  apply lower_normalized; [exact Hokz| |].
  - destruct x'; [cbn [length] in Hl; lia|discriminate].
  - rewrite Hl, Hv. assert (1 <= Z.of_N y) by lia. pose proof (val_nonneg (a :: r)). nia.
Qed.

(* ------------------------------------------------------------------------------------------------ *)
(** * small::normalize *)
Lemma normalize_val (x : list N) : val (normalize x) = val x.
Proof.
  induction x as [|a r IH]; cbn [normalize]; [reflexivity|].
  destruct (normalize r) as [|b r'] eqn:E.
  - cbn [val] in IH |- *. destruct (N.eqb_spec a 0) as [->|H]; cbn [val]; lia.
  - cbn [val] in IH |- *. lia.
Qed.

Lemma normalize_ok (x : list N) : limbs_ok x -> limbs_ok (normalize x).
Proof.
  induction x as [|a r IH]; intros H; cbn [normalize]; [constructor|].
  apply limbs_ok_cons in H. destruct H as (Ha & Hr). specialize (IH Hr).
  destruct (normalize r) as [|b r'].
  - destruct (N.eqb a 0); [constructor|constructor; [exact Ha|constructor]].
  - apply limbs_ok_cons. tauto.
Qed.

Lemma normalize_normalized (x : list N) : normalized (normalize x).
Proof.
  induction x as [|a r IH]; cbn [normalize]; [exact normalized_nil|].
  destruct (normalize r) as [|b r'].
  - destruct (N.eqb_spec a 0); [exact normalized_nil|apply normalized_single; assumption].
  - apply normalized_cons; [discriminate|exact IH].
Qed.

Lemma normalize_id (x : list N) : normalized x -> normalize x = x.
Proof.
  induction x as [|a r IH]; intros Hn; cbn [normalize]; [reflexivity|].
  destruct r as [|b r].
  - cbn [normalize]. apply (proj1 (normalized_single _)) in Hn. destruct (N.eqb_spec a 0); [contradiction|reflexivity].
  - apply (proj1 (normalized_cons a (b :: r) ltac:(discriminate))) in Hn. rewrite IH by exact Hn. reflexivity.
Qed.

Lemma normalize_length (x : list N) : (length (normalize x) <= length x)%nat.
Proof.
  induction x as [|a r IH]; cbn [normalize]; [lia|].
  destruct (normalize r) as [|b r'].
  - destruct (N.eqb a 0); cbn [length]; lia.
  - cbn [length] in *. lia.
Qed.

(* a vector with value 0 normalizes to the empty one; normalized vectors are determined by their values *)
Lemma val_zero_normalized (x : list N) : normalized x -> val x = 0 -> x = [].
Proof.
  intros Hn Hv. destruct x as [|a r]; [reflexivity|].
  pose proof (normalized_lower _ Hn ltac:(discriminate)) as Hlo.
  pose proof (Wpow_pos (len (a :: r) - 1) ltac:(cbn [length]; lia)). lia.
Qed.

(* ------------------------------------------------------------------------------------------------ *)
(** * bit-level facts on u64 values *)
(* `a | b` is `a + b` when a is a multiple of 2^n and b < 2^n *)
Lemma N_lor_add (a b n : N) : (a mod 2 ^ n = 0)%N -> (b < 2 ^ n)%N -> N.lor a b = (a + b)%N.
Proof.
  intros Ha Hb.
  assert (Hl : N.land a b = 0%N).
  { apply N.bits_inj_0. intros m. rewrite N.land_spec.
    destruct (N.lt_ge_cases m n) as [Hm|Hm].
    - rewrite <- (N.mod_pow2_bits_low a n m Hm), Ha, N.bits_0. reflexivity.
    - rewrite <- (N.mod_small b (2 ^ n) Hb), (N.mod_pow2_bits_high b n m Hm). apply andb_false_r. }
  rewrite (N.add_nocarry_lxor a b Hl). symmetry. apply N.lxor_lor. exact Hl.
Qed.

Lemma pow2_64_split (n : N) : (n <= 64)%N -> (2 ^ n * 2 ^ (64 - n) = LB)%N.
Proof. intros H. rewrite <- N.pow_add_r. replace (n + (64 - n))%N with 64%N by lia. reflexivity. Qed.

(* `(x << n) as u64` is a multiple of 2^n;  (x << n) mod 2^64 + 2^64 * (x >> (64 - n)) = x * 2^n *)
Lemma shl_wrap_mult (x n : N) : (n <= 64)%N -> (wrap64 (N.shiftl x n) mod 2 ^ n = 0)%N.
Proof.
  intros Hn. rewrite wrap64_mod, N.shiftl_mul_pow2, <- (pow2_64_split n Hn), (N.mul_comm (2 ^ n)).
  rewrite N.mul_mod_distr_r by (apply N.pow_nonzero; discriminate).
  apply N.mod_mul. apply N.pow_nonzero. discriminate.
Qed.

Lemma shl_split (x n : N) : (n <= 64)%N ->
  (wrap64 (N.shiftl x n) + LB * N.shiftr x (64 - n) = x * 2 ^ n)%N.
Proof.
  intros Hn. rewrite wrap64_mod, N.shiftl_mul_pow2, N.shiftr_div_pow2.
  assert (E : (x / 2 ^ (64 - n) = (x * 2 ^ n) / LB)%N).
  { rewrite <- (pow2_64_split n Hn), (N.mul_comm (2 ^ n)). symmetry. apply N.div_mul_cancel_r; apply N.pow_nonzero; discriminate. }
  rewrite E. rewrite N.add_comm. symmetry. apply N.div_mod. discriminate.
Qed.

Lemma shr_small (x n : N) : (x < LB)%N -> (n <= 64)%N -> (N.shiftr x (64 - n) < 2 ^ n)%N.
Proof.
  intros Hx Hn. rewrite N.shiftr_div_pow2. apply N.div_lt_upper_bound; [apply N.pow_nonzero; discriminate|].
  rewrite N.mul_comm, (pow2_64_split n Hn). exact Hx.
Qed.

(* the step of ishl_bits *)
Lemma ishl_step (xi prev n : N) : (0 < n < 64)%N -> (xi < LB)%N -> (prev < LB)%N ->
  let v := N.lor (wrap64 (N.shiftl xi n)) (N.shiftr prev (64 - n)) in
  Z.of_N v + W * Z.of_N (N.shiftr xi (64 - n)) = Z.of_N xi * 2 ^ Z.of_N n + Z.of_N (N.shiftr prev (64 - n)) /\ (v < LB)%N.
Proof.
  intros Hn Hx Hp v. subst v.
  rewrite (N_lor_add _ _ n) by (first [apply shl_wrap_mult; lia|apply shr_small; [exact Hp|lia]]).
  pose proof (shl_split xi n ltac:(lia)) as Hs.
  pose proof (shr_small prev n Hp ltac:(lia)) as Hb.
  pose proof (shl_wrap_mult xi n ltac:(lia)) as Hm.
  pose proof (wrap64_lt (N.shiftl xi n)) as Hw.
  set (a := wrap64 (N.shiftl xi n)) in *. set (b := N.shiftr prev (64 - n)) in *. set (h := N.shiftr xi (64 - n)) in *.
  split.
  - apply (f_equal Z.of_N) in Hs. rewrite N2Z.inj_add, !N2Z.inj_mul, N2Z.inj_pow, LB_W in Hs. change (Z.of_N 2) with 2 in Hs. lia.
  - (* a is a multiple of 2^n below 2^64, b < 2^n *)
    apply N.mod_divide in Hm; [|apply N.pow_nonzero; discriminate]. destruct Hm as (q & Hq).
    pose proof (pow2_64_split n ltac:(lia)) as Hsp. set (P := (2 ^ n)%N) in *. set (Q := (2 ^ (64 - n))%N) in *.
    assert (q < Q)%N by nia. nia.
Qed.

(* ------------------------------------------------------------------------------------------------ *)
(** * small::ishl_bits, ishl_limbs, ishl *)
Lemma ishl_bits_loop_spec : forall (x : list N) (n prev : N),
  (0 < n < 64)%N -> limbs_ok x -> (prev < LB)%N ->
  let r := ishl_bits_loop x n (64 - n) prev in
  val (fst r) + W ^ len x * Z.of_N (N.shiftr (snd r) (64 - n)) = val x * 2 ^ Z.of_N n + Z.of_N (N.shiftr prev (64 - n))
  /\ limbs_ok (fst r) /\ (snd r < LB)%N /\ length (fst r) = length x.
Proof.
  induction x as [|a t IH]; intros n prev Hn Hok Hp; cbn [ishl_bits_loop].
  - cbn [fst snd val length]. rewrite Z.pow_0_r. repeat split; [lia|constructor|exact Hp].
  - apply limbs_ok_cons in Hok. destruct Hok as (Ha & Ht).
    destruct (ishl_step a prev n Hn Ha Hp) as (Hv & Hvb).
    specialize (IH n a Hn Ht Ha). destruct (ishl_bits_loop t n (64 - n) a) as (r', p). cbn [fst snd] in *.
    destruct IH as (Hval & Hok' & Hpb & Hl).
    split; [|split; [apply limbs_ok_cons; tauto|split; [exact Hpb|cbn [length]; lia]]].
    cbn [val length]. rewrite Nat2Z.inj_succ, <- Z.add_1_r, Wpow_succ by lia. nia.
Qed.

Lemma small_ishl_bits_spec (x : list N) (n : N) : (n < 64)%N -> limbs_ok x ->
  exists z, small_ishl_bits x n = Some z /\ val z = val x * 2 ^ Z.of_N n /\ limbs_ok z
    /\ (normalized x -> normalized z) /\ (length x <= length z <= length x + 1)%nat.
Proof.
  intros Hn Hok. unfold small_ishl_bits, LIMB_BITS.
  replace (64 <=? n)%N with false by (symmetry; apply N.leb_gt; exact Hn).
  destruct (N.eqb_spec n 0) as [->|Hn0].
  - exists x. split; [reflexivity|]. change (Z.of_N 0) with 0. rewrite Z.pow_0_r. split; [ring|]. split; [exact Hok|]. split; [tauto|lia].
  - destruct (ishl_bits_loop_spec x n 0 ltac:(lia) Hok ltac:(reflexivity)) as (Hval & Hok' & Hpb & Hl).
    destruct (ishl_bits_loop x n (64 - n) 0) as (x', prev). cbn [fst snd] in *.
    rewrite N.shiftr_0_l in Hval. change (Z.of_N 0) with 0 in Hval.
    pose proof (shr_small prev n Hpb ltac:(lia)) as Hcb.
    set (carry := N.shiftr prev (64 - n)) in *.
    assert (Hclt : (carry < LB)%N).
    { eapply N.lt_le_trans; [exact Hcb|]. change LB with (2 ^ 64)%N. apply N.pow_le_mono_r; [discriminate|lia]. }
    destruct (N.eqb_spec carry 0) as [Hc0|Hc0].
    + exists x'. split; [reflexivity|]. rewrite Hc0 in Hval. change (Z.of_N 0) with 0 in Hval. split; [lia|]. split; [exact Hok'|].
      split; [|lia]. intros Hnx.
      destruct x as [|a t]; [destruct x'; [exact normalized_nil|discriminate]|].
      apply lower_normalized; [exact Hok'|destruct x'; [discriminate|discriminate]|].
      rewrite Hl. pose proof (normalized_lower _ Hnx ltac:(discriminate)) as Hlo.
      assert (1 <= 2 ^ Z.of_N n) by (pose proof (Z.pow_pos_nonneg 2 (Z.of_N n)); lia).
      pose proof (val_nonneg (a :: t)). nia.
    + exists (x' ++ [carry]). split; [reflexivity|]. rewrite val_app, val_single, Hl. split; [lia|].
      split; [apply limbs_ok_app; split; [exact Hok'|constructor; [exact Hclt|constructor]]|].
      split; [intros _; apply normalized_snoc; exact Hc0|rewrite app_length; cbn [length]; lia].
Qed.

Lemma small_ishl_limbs_spec (x : list N) (n : nat) : (n <> 0)%nat -> limbs_ok x ->
  exists z, small_ishl_limbs x n = Some z /\ val z = val x * W ^ Z.of_nat n /\ limbs_ok z /\ (normalized x -> normalized z)
    /\ (length z <= length x + n)%nat.
Proof.
  intros Hn Hok. unfold small_ishl_limbs.
  replace (n =? 0)%nat with false by (symmetry; apply Nat.eqb_neq; exact Hn).
  destruct x as [|a t].
  - exists []. split; [reflexivity|]. split; [cbn [val]; ring|]. split; [constructor|]. split; [tauto|cbn [length]; lia].
  - exists (repeat 0%N n ++ a :: t). split; [reflexivity|]. rewrite val_app, val_repeat0, repeat_length.
    split; [ring|]. split; [apply limbs_ok_app; split; [apply limbs_ok_repeat0|exact Hok]|].
    split; [intros H; apply normalized_app; [discriminate|exact H]|rewrite app_length, repeat_length; lia].
Qed.

Lemma small_ishl_spec (x : list N) (n : N) : limbs_ok x ->
  exists z, small_ishl x n = Some z /\ val z = val x * 2 ^ Z.of_N n /\ limbs_ok z /\ (normalized x -> normalized z)
    /\ (length z <= length x + 1 + N.to_nat (n / 64))%nat.
Proof.
  intros Hok. unfold small_ishl, LIMB_BITS.
  destruct (small_ishl_bits_spec x (n mod 64) ltac:(apply N.mod_lt; discriminate) Hok) as (x1 & E1 & Hv1 & Hok1 & Hn1 & Hl1).
  rewrite E1. cbn [obind].
  assert (Hpow : 2 ^ Z.of_N n = 2 ^ Z.of_N (n mod 64) * W ^ Z.of_N (n / 64)).
  { rewrite Wpow_2pow, <- Z.pow_add_r by lia. f_equal. pose proof (N.div_mod n 64 ltac:(discriminate)). lia. }
  destruct (N.eqb_spec (n / 64) 0) as [Hd|Hd].
  - exists x1. split; [reflexivity|]. rewrite Hpow, Hd. change (Z.of_N 0) with 0. rewrite Z.pow_0_r.
    split; [lia|]. split; [exact Hok1|]. split; [exact Hn1|]. change (N.to_nat 0) with 0%nat. lia.
  - destruct (small_ishl_limbs_spec x1 (N.to_nat (n / 64)) ltac:(lia) Hok1) as (z & E2 & Hv2 & Hok2 & Hn2 & Hl2).
    exists z. split; [exact E2|]. rewrite Hv2, Hv1, Hpow, N_nat_Z. split; [ring|]. split; [exact Hok2|]. split; [tauto|lia].
Qed.

(* ------------------------------------------------------------------------------------------------ *)
(** * large::compare *)
Lemma limbs_ok_rev (x : list N) : limbs_ok x -> limbs_ok (rev x).
Proof. unfold limbs_ok. apply Forall_rev. Qed.

Lemma compare_loop_spec : forall xr yr : list N, length xr = length yr -> limbs_ok xr -> limbs_ok yr ->
  compare_loop xr yr = (val (rev xr) ?= val (rev yr)).
Proof.
  induction xr as [|a xt IH]; intros yr Hl Hx Hy; destruct yr as [|b yt]; cbn [length] in Hl; try lia.
  - reflexivity.
  - apply limbs_ok_cons in Hx. apply limbs_ok_cons in Hy. destruct Hx as (Ha & Hxt). destruct Hy as (Hb & Hyt).
    cbn [compare_loop rev]. rewrite !val_app, !val_single, !rev_length.
    pose proof (val_bound (rev xt) (limbs_ok_rev _ Hxt)) as Bx. pose proof (val_bound (rev yt) (limbs_ok_rev _ Hyt)) as By.
    pose proof (val_nonneg (rev xt)) as Nx. pose proof (val_nonneg (rev yt)) as Ny.
    rewrite rev_length in Bx, By. assert (Hl' : length yt = length xt) by lia. rewrite Hl' in By |- *.
    pose proof (Wpow_pos (len xt) ltac:(lia)) as HW. set (P := W ^ len xt) in *.
    destruct (N.ltb_spec b a) as [H1|H1].
    + symmetry. apply Z.compare_gt_iff. nia.
    + destruct (N.ltb_spec a b) as [H2|H2].
      * symmetry. apply Z.compare_lt_iff. nia.
      * assert (a = b) by lia. subst b. rewrite (IH yt) by (try assumption; symmetry; exact Hl').
        destruct (Z.compare_spec (val (rev xt)) (val (rev yt))) as [E|E|E]; symmetry.
        -- apply Z.compare_eq_iff. lia.
        -- apply Z.compare_lt_iff. lia.
        -- apply Z.compare_gt_iff. lia.
Qed.

Theorem compare_refines (x y : list N) : limbs_ok x -> limbs_ok y -> normalized x -> normalized y ->
  big_compare x y = (val x ?= val y).
Proof.
  intros Hx Hy Nx Ny. unfold big_compare, large_compare.
  destruct (Nat.ltb_spec (length y) (length x)) as [H1|H1].
  - symmetry. apply Z.compare_gt_iff. apply normalized_len_lt; assumption.
  - destruct (Nat.ltb_spec (length x) (length y)) as [H2|H2].
    + symmetry. apply Z.compare_lt_iff. apply normalized_len_lt; assumption.
    + rewrite compare_loop_spec by (rewrite ?rev_length; try apply limbs_ok_rev; try assumption; lia).
      rewrite !rev_involutive. reflexivity.
Qed.

(* compare on vectors of the same length does not need normalization *)
Lemma compare_same_length (x y : list N) : limbs_ok x -> limbs_ok y -> length x = length y ->
  large_compare x y = (val x ?= val y).
Proof.
  intros Hx Hy Hl. unfold large_compare. rewrite Hl, Nat.ltb_irrefl.
  rewrite compare_loop_spec by (rewrite ?rev_length; try apply limbs_ok_rev; try assumption; lia).
  rewrite !rev_involutive. reflexivity.
Qed.

(* ------------------------------------------------------------------------------------------------ *)
(** * bit_length *)
(* the position of the top bit of  P + 2^(64k) * a *)
Lemma log2_top (P k a : Z) : 0 <= k -> 0 <= P < W ^ k -> 1 <= a -> Z.log2 (P + W ^ k * a) = 64 * k + Z.log2 a.
Proof.
  intros Hk HP Ha. rewrite Wpow_2pow in * by exact Hk.
  pose proof (Z.log2_spec a ltac:(lia)) as (L1 & L2). pose proof (Z.log2_nonneg a) as L0.
  rewrite Z.pow_succ_r in L2 by exact L0.
  apply Z.log2_unique; [lia|].
  rewrite Z.pow_succ_r by lia. rewrite !Z.pow_add_r by lia.
  assert (0 < 2 ^ (64 * k)) by (apply Z.pow_pos_nonneg; lia).
  set (A := 2 ^ (64 * k)) in *. set (B := 2 ^ Z.log2 a) in *. nia.
Qed.

Lemma exists_last_or_nil (x : list N) : x = [] \/ exists p a, x = p ++ [a].
Proof.
  destruct x as [|b t]; [left; reflexivity|right].
  destruct (@exists_last _ (b :: t) ltac:(discriminate)) as (p & a & E). exists p, a. exact E.
Qed.

Lemma last_map_Some (x : list N) (a : N) : last (map Some (x ++ [a])) None = Some a.
Proof. rewrite map_app. cbn [map]. apply last_last. Qed.

Lemma N2Z_log2 (a : N) : Z.of_N (N.log2 a) = Z.log2 (Z.of_N a).
Proof. destruct a as [|[p|p|]]; reflexivity. Qed.

Lemma N_size_log2_Z (a : N) : a <> 0%N -> Z.of_N (N.size a) = Z.log2 (Z.of_N a) + 1.
Proof. intros H. rewrite N.size_log2 by exact H. rewrite N2Z.inj_succ, N2Z_log2. lia. Qed.

Lemma N_size_le64 (a : N) : (a < LB)%N -> (N.size a <= 64)%N.
Proof.
  intros H. destruct (N.eq_dec a 0) as [->|Hne]; [cbn; lia|].
  rewrite N.size_log2 by exact Hne. apply N.le_succ_l. apply N.log2_lt_pow2; [lia|exact H].
Qed.

Theorem bit_length_refines (x : list N) : limbs_ok x -> normalized x -> (64 * N.of_nat (length x) < LB)%N ->
  Z.of_N (bit_length x) = big_bit_length (val x).
Proof.
  intros Hok Hn Hlen. unfold bit_length, small_bit_length, small_leading_zeros, big_bit_length, LIMB_BITS.
  replace (LB <=? 64 * N.of_nat (length x))%N with false by (symmetry; apply N.leb_gt; exact Hlen).
  destruct (exists_last_or_nil x) as [->|(p & a & ->)].
  - reflexivity.
  - rewrite last_map_Some. apply (proj1 (normalized_snoc p a)) in Hn.
    apply limbs_ok_app in Hok. destruct Hok as (Hp & Ha). apply limbs_ok_cons in Ha. destruct Ha as (Ha & _).
    rewrite val_app, val_single, app_length. cbn [length].
    pose proof (val_bound p Hp) as Bp. pose proof (val_nonneg p) as Np.
    assert (Ha1 : 1 <= Z.of_N a) by lia.
    assert (Hpos : 0 < val p + W ^ len p * Z.of_N a).
    { pose proof (Wpow_pos (len p) ltac:(lia)). nia. }
    replace (val p + W ^ len p * Z.of_N a =? 0) with false by (symmetry; apply Z.eqb_neq; lia).
    rewrite log2_top by lia.
    unfold clz. pose proof (N_size_le64 a Ha) as Hs. pose proof (N_size_log2_Z a Hn) as Hsz. lia.
Qed.

(* ------------------------------------------------------------------------------------------------ *)
(** * hi64 *)
Lemma Z_of_N_shiftl (a n : N) : Z.of_N (N.shiftl a n) = Z.of_N a * 2 ^ Z.of_N n.
Proof. rewrite N.shiftl_mul_pow2, N2Z.inj_mul, N2Z.inj_pow. reflexivity. Qed.
Lemma Z_of_N_shiftr (a n : N) : Z.of_N (N.shiftr a n) = Z.of_N a / 2 ^ Z.of_N n.
Proof. rewrite N.shiftr_div_pow2, N2Z.inj_div, N2Z.inj_pow. reflexivity. Qed.
Lemma Z_of_N_wrap64 (a : N) : Z.of_N (wrap64 a) = Z.of_N a mod W.
Proof. rewrite wrap64_mod, N2Z.inj_mod, LB_W. reflexivity. Qed.

(* the shift amounts of u64_to_hi64_*: ls = leading zeros of r0, rs = 64 - ls = number of significant bits *)
Lemma clz_facts (r0 : N) : r0 <> 0%N -> (r0 < LB)%N ->
  let L := Z.log2 (Z.of_N r0) in
  0 <= L <= 63 /\ Z.of_N (clz r0) = 63 - L /\ Z.of_N (64 - clz r0) = L + 1 /\ 2 ^ L <= Z.of_N r0 < 2 ^ (L + 1).
Proof.
  intros Hne Hlt L. pose proof (N_size_le64 r0 Hlt) as Hs. pose proof (N_size_log2_Z r0 Hne) as Hsz. fold L in Hsz.
  pose proof (Z.log2_nonneg (Z.of_N r0)) as HL0. fold L in HL0.
  pose proof (Z.log2_spec (Z.of_N r0) ltac:(lia)) as HL. fold L in HL. unfold Z.succ in HL.
  unfold clz. repeat split; lia.
Qed.

Lemma hi_top (r0 r1 ls rs : Z) : 0 <= ls -> 0 < rs -> ls + rs = 64 -> 2 ^ (rs - 1) <= r0 < 2 ^ rs -> 0 <= r1 < W ->
  (r1 + W * r0) / 2 ^ rs = r0 * 2 ^ ls + r1 / 2 ^ rs /\ (r1 + W * r0) mod 2 ^ rs = r1 mod 2 ^ rs
  /\ 0 <= r1 / 2 ^ rs < 2 ^ ls /\ r0 * 2 ^ ls + r1 / 2 ^ rs < W.
Proof.
  intros Hls Hrs Hsum Hr0 Hr1.
  assert (HW : W = 2 ^ ls * 2 ^ rs) by (rewrite W_eq, <- Z.pow_add_r by lia; f_equal; lia).
  assert (Hp1 : 0 < 2 ^ rs) by (apply Z.pow_pos_nonneg; lia).
  assert (Hp2 : 0 < 2 ^ ls) by (apply Z.pow_pos_nonneg; lia).
  replace (r1 + W * r0) with (r1 + (r0 * 2 ^ ls) * 2 ^ rs) by (rewrite HW; ring).
  rewrite Z.div_add by lia. rewrite Z.mod_add by lia.
  assert (Hq : 0 <= r1 / 2 ^ rs < 2 ^ ls).
  { split; [apply Z.div_pos; lia|apply Z.div_lt_upper_bound; [lia|rewrite Z.mul_comm, <- HW; lia]]. }
  repeat split; try lia. rewrite HW. nia.
Qed.

Lemma u64_to_hi64_2_spec (r0 r1 : N) : r0 <> 0%N -> (r0 < LB)%N -> (r1 < LB)%N ->
  let L := Z.log2 (Z.of_N r0) in
  exists v n, u64_to_hi64_2 r0 r1 = Some (v, n)
    /\ Z.of_N v = Z.of_N r0 * 2 ^ (63 - L) + Z.of_N r1 / 2 ^ (L + 1)
    /\ n = negb (Z.of_N r1 mod 2 ^ (L + 1) =? 0).
Proof.
  intros Hne H0 H1 L. destruct (clz_facts r0 Hne H0) as (HL & Hls & Hrs & Hb). fold L in HL, Hls, Hrs, Hb.
  unfold u64_to_hi64_2. replace (r0 =? 0)%N with false by (symmetry; apply N.eqb_neq; exact Hne).
  set (ls := clz r0) in *. set (rs := (64 - ls)%N) in *.
  assert (Hls64 : (ls <= 64)%N) by lia.
  destruct (hi_top (Z.of_N r0) (Z.of_N r1) (63 - L) (L + 1) ltac:(lia) ltac:(lia) ltac:(lia)) as (_ & _ & Hq & Hlt).
  { replace (L + 1 - 1) with L by lia. exact Hb. }
  { rewrite <- LB_W. lia. }
  eexists _, _. split; [reflexivity|]. split.
  - destruct (N.eqb_spec ls 0) as [E0|E0].
    + assert (L = 63) by lia. replace (63 - L) with 0 by lia. replace (L + 1) with 64 by lia.
      rewrite Z.pow_0_r. rewrite Z.div_small by (change (2 ^ 64) with W; rewrite <- LB_W; lia). lia.
    + rewrite (N_lor_add _ _ ls) by (first [apply shl_wrap_mult; exact Hls64|apply shr_small; [exact H1|exact Hls64]]).
      rewrite N2Z.inj_add, Z_of_N_wrap64, Z_of_N_shiftl, Z_of_N_shiftr, Hls, Hrs.
      rewrite Z.mod_small; [reflexivity|]. split; [apply Z.mul_nonneg_nonneg; [lia|apply Z.pow_nonneg; lia]|]. lia.
  - f_equal.
    assert (E : Z.of_N (wrap64 (N.shiftl r1 ls)) = (Z.of_N r1 mod 2 ^ (L + 1)) * 2 ^ (63 - L)).
    { rewrite Z_of_N_wrap64, Z_of_N_shiftl, Hls.
      assert (HW : W = 2 ^ (L + 1) * 2 ^ (63 - L)) by (rewrite W_eq, <- Z.pow_add_r by lia; f_equal; lia).
      rewrite HW. apply Z.mul_mod_distr_r; apply Z.pow_nonzero; lia. }
    assert (Hp : 0 < 2 ^ (63 - L)) by (apply Z.pow_pos_nonneg; lia).
    destruct (N.eqb_spec (wrap64 (N.shiftl r1 ls)) 0) as [Ez|Ez]; destruct (Z.eqb_spec (Z.of_N r1 mod 2 ^ (L + 1)) 0) as [Ey|Ey]; try reflexivity; exfalso.
    + rewrite Ez in E. change (Z.of_N 0) with 0 in E. nia.
    + apply Ez. apply N2Z.inj. rewrite E, Ey. reflexivity.
Qed.

(* nonzero(x, 2) on  p ++ [r1; r0]  looks at p *)
Lemma existsb_nonzero_val (p : list N) : existsb (fun v => negb (v =? 0)%N) p = negb (val p =? 0).
Proof.
  induction p as [|a t IH]; cbn [existsb val]; [reflexivity|]. rewrite IH.
  pose proof (val_nonneg t). pose proof W_pos.
  destruct (N.eqb_spec a 0) as [->|Ha]; cbn [negb orb].
  - change (Z.of_N 0) with 0. destruct (Z.eqb_spec (val t) 0) as [E|E]; destruct (Z.eqb_spec (0 + W * val t) 0) as [E'|E']; try reflexivity; exfalso; nia.
  - destruct (Z.eqb_spec (Z.of_N a + W * val t) 0) as [E'|E']; [exfalso; nia|reflexivity].
Qed.

Lemma existsb_rev {A : Type} (f : A -> bool) (l : list A) : existsb f (rev l) = existsb f l.
Proof.
  induction l as [|a t IH]; cbn [rev existsb]; [reflexivity|].
  rewrite existsb_app, IH. cbn [existsb]. rewrite orb_false_r. apply orb_comm.
Qed.

Theorem hi64_refines (x : list N) : limbs_ok x -> normalized x -> hi64 x = Some (big_hi64 (val x)).
Proof.
  intros Hok Hn.
  destruct (exists_last_or_nil x) as [->|(p1 & r0 & ->)]; [reflexivity|].
  apply (proj1 (normalized_snoc p1 r0)) in Hn.
  apply limbs_ok_app in Hok. destruct Hok as (Hp1 & H0). apply limbs_ok_cons in H0. destruct H0 as (H0 & _).
  destruct (clz_facts r0 Hn H0) as (HL & Hls & Hrs & Hb). set (L := Z.log2 (Z.of_N r0)) in *.
  assert (Hr0 : 1 <= Z.of_N r0) by lia.
  destruct (exists_last_or_nil p1) as [->|(p & r1 & ->)].
  - (* one limb *)
    cbn [app hi64 length hi64_1 nth_error obind]. unfold u64_to_hi64_1.
    replace (r0 =? 0)%N with false by (symmetry; apply N.eqb_neq; exact Hn).
    rewrite val_single. unfold big_hi64, big_bit_length.
    replace (Z.of_N r0 =? 0) with false by (symmetry; apply Z.eqb_neq; lia). fold L.
    replace (L + 1 <=? 64) with true by (symmetry; apply Z.leb_le; lia).
    f_equal. f_equal. apply N2Z.inj. rewrite Z_of_N_wrap64, Z_of_N_shiftl, Hls.
    assert (Hp : 0 < 2 ^ (63 - L)) by (apply Z.pow_pos_nonneg; lia).
    rewrite Z2N.id by nia. replace (64 - (L + 1)) with (63 - L) by lia.
    apply Z.mod_small. split; [nia|].
    assert (HW : W = 2 ^ (L + 1) * 2 ^ (63 - L)) by (rewrite W_eq, <- Z.pow_add_r by lia; f_equal; lia).
    rewrite HW. nia.
  - (* at least two limbs: x = p ++ [r1; r0] *)
    apply limbs_ok_app in Hp1. destruct Hp1 as (Hp & H1). apply limbs_ok_cons in H1. destruct H1 as (H1 & _).
    rewrite <- app_assoc. cbn [app].
    assert (Hlen : length (p ++ [r1; r0]) = S (S (length p))) by (rewrite app_length; cbn [length]; lia).
    assert (Hhi : hi64 (p ++ [r1; r0]) = hi64_2 (p ++ [r1; r0])).
    { unfold hi64, hi64_3. rewrite Hlen. destruct (length p); reflexivity. }
    rewrite Hhi. unfold hi64_2. rewrite Hlen. cbn [Nat.ltb Nat.leb].
    replace (S (S (length p)) - 1)%nat with (length (p ++ [r1])) by (rewrite app_length; cbn [length]; lia).
    replace (S (S (length p)) - 2)%nat with (length p) by lia.
    replace (p ++ [r1; r0]) with ((p ++ [r1]) ++ [r0]) at 1 by (rewrite <- app_assoc; reflexivity).
    rewrite nth_error_app_len. cbn [obind]. rewrite nth_error_app_len. cbn [obind].
    destruct (u64_to_hi64_2_spec r0 r1 Hn H0 H1) as (v & n & E & Hv & Hnn). fold L in Hv, Hnn.
    rewrite E. cbn [obind]. unfold nonzero. rewrite Hlen. cbn [Nat.ltb Nat.leb obind].
    replace (S (S (length p)) - 2)%nat with (length p + 0)%nat by lia. rewrite firstn_app_2. cbn [firstn]. rewrite app_nil_r.
    rewrite existsb_rev, existsb_nonzero_val.
    (* the Z side *)
    rewrite val_app. cbn [val]. rewrite Z.mul_0_r, Z.add_0_r.
    pose proof (val_bound p Hp) as Bp. pose proof (val_nonneg p) as Np.
    set (k := len p) in *. set (P := val p) in *. set (T := Z.of_N r1 + W * Z.of_N r0).
    assert (Hk : 0 <= k) by (subst k; lia).
    pose proof (Wpow_pos k Hk) as HWk.
    assert (HT : 1 <= T) by (subst T; pose proof W_pos; nia).
    assert (Hlog : Z.log2 (P + W ^ k * T) = 64 * k + (64 + L)).
    { rewrite log2_top by lia. f_equal. subst T.
      change (Z.of_N r1 + W * Z.of_N r0) with (Z.of_N r1 + W ^ 1 * Z.of_N r0). rewrite log2_top by (rewrite ?Z.pow_1_r; try rewrite <- LB_W; lia). fold L. lia. }
    unfold big_hi64, big_bit_length.
    replace (P + W ^ k * T =? 0) with false by (symmetry; apply Z.eqb_neq; nia).
    rewrite Hlog. replace (64 * k + (64 + L) + 1 <=? 64) with false by (symmetry; apply Z.leb_gt; lia).
    replace (64 * k + (64 + L) + 1 - 64) with (64 * k + (L + 1)) by lia.
    rewrite Z.pow_add_r by lia. rewrite <- Wpow_2pow by exact Hk.
    destruct (hi_top (Z.of_N r0) (Z.of_N r1) (63 - L) (L + 1) ltac:(lia) ltac:(lia) ltac:(lia)) as (Hd & Hm & Hq & Hlt).
    { replace (L + 1 - 1) with L by lia. exact Hb. }
    { rewrite <- LB_W. lia. }
    fold T in Hd, Hm.
    assert (Hp2 : 0 < 2 ^ (L + 1)) by (apply Z.pow_pos_nonneg; lia).
    assert (Hdiv : (P + W ^ k * T) / (W ^ k * 2 ^ (L + 1)) = T / 2 ^ (L + 1)).
    { rewrite <- Z.div_div by lia. f_equal. rewrite Z.mul_comm, Z.div_add by lia. rewrite Z.div_small by lia. lia. }
    assert (Hmod : (P + W ^ k * T) mod (W ^ k * 2 ^ (L + 1)) = P + W ^ k * (T mod 2 ^ (L + 1))).
    { rewrite Z.rem_mul_r by lia. f_equal.
      - rewrite Z.mul_comm, Z.mod_add by lia. apply Z.mod_small. lia.
      - f_equal. f_equal. rewrite Z.mul_comm, Z.div_add by lia. rewrite Z.div_small by lia. lia. }
    rewrite Hdiv, Hmod, Hd, Hm, <- Hv, N2Z.id. f_equal. f_equal. rewrite Hnn.
    pose proof (Z.mod_pos_bound (Z.of_N r1) (2 ^ (L + 1)) Hp2) as Hmb.
    set (R := Z.of_N r1 mod 2 ^ (L + 1)) in *.
    destruct (Z.eqb_spec R 0) as [ER|ER]; destruct (Z.eqb_spec P 0) as [EP|EP]; destruct (Z.eqb_spec (P + W ^ k * R) 0) as [EQ|EQ];
      cbn [negb orb]; try reflexivity; exfalso; nia.
Qed.

(* ------------------------------------------------------------------------------------------------ *)
(** * from_u64 *)
Theorem from_u64_refines (x : N) : (x < LB)%N ->
  val (from_u64 x) = Z.of_N x /\ limbs_ok (from_u64 x) /\ normalized (from_u64 x) /\ (length (from_u64 x) <= 1)%nat.
Proof.
  intros H. unfold from_u64. split; [rewrite normalize_val; apply val_single|].
  split; [apply normalize_ok; constructor; [exact H|constructor]|]. split; [apply normalize_normalized|].
  pose proof (normalize_length [x]). cbn [length] in *. lia.
Qed.
