(* Proofs/ValueDeAgreeApValue.v — C16 under `arbitrary_precision`, targets that ARE a Value (T = serde_json::Value): finding F19.

   `from_value::<Value>(v)` / `Value::deserialize(&v)` drive ValueVisitor through Number::deserialize_any (src/number.rs
   deserialize_any!): the text of every Number is first tried as u64, i64, u128, i128 (visit_u64 ... -> itoa of the integer), then as
   f64 — when ryu's or Display's text of that float equals the literal, visit_f64 is called and the Number is rebuilt FROM THE FLOAT
   with ryu — and only otherwise handed over as text (NumberDeserializer -> NumberFromString).  So literals are re-spelled:
       -0        ->  0          (as_i64 = 0)
       0.000001  ->  1e-6       (Display(1e-6) = "0.000001" = the literal, ryu(1e-6) = "1e-6")
       10^39 written with 40 digits -> 1e39
   while from_str(to_string(&v)) keeps every literal (C20).  Number equality is textual under the feature, so this is observable.

   [respell] (Proofs/ValueDeAgreeAp.v) is this re-spelling as a function; here:
     value_of_value_respell   value_of_value cf fx v = VOk (respell fx v)          (the model's Value::deserialize on a Value)
     respell_id_iff           respell fx v = v  <->  canon_value fx v = true
     canon_lit_spec           which literals are canonical (fixed by the re-spelling), in terms of the literal's parts
     C16_ap_value_respelled   the three routes for T = Value, the Value routes give [respell fx v], the text route gives v
   plus the witnesses.  An object whose FIRST key is the private token "$serde_json::private::Number" is excluded ([no_token]): the
   Value route turns it into a Number or an error (KeyClassifier; the Value-route side of finding F23); witness below. *)
From SJ Require Import Base.Bytes Base.Utf8 Base.FloatB Gen.Tables
  Model.Read Model.Str Model.Num Model.NumF32 Model.Value Model.De Model.Ignore Model.Ty Model.NumberM Model.DeTyped Model.ValueDe
  Spec.Syntax Spec.Denote Proofs.GrammarIgnore Proofs.GrammarValueComplete Proofs.SerValue Proofs.GrammarValueBase Proofs.GrammarStr Proofs.GrammarNum
  Proofs.ValueDeRef Proofs.ValueDeAgree Proofs.ValueDeText Proofs.ValueDeAgreeKey Proofs.ValueDeAgreeMap Proofs.ValueDeAgreeMisc.
From SJ Require Proofs.NumInt Proofs.TypedInt.
From SJ Require Import Proofs.ApNumber Proofs.ApNumberFloat Proofs.ValueInt Proofs.LexOracle Proofs.ValueDeAgreeAp.
From SJ Require Model.Sval Model.Ser Model.ValueSer Spec.Layout Proofs.SerToValueAp Proofs.SerMain Proofs.SerFinal.
From Flocq Require Import Core BinarySingleNaN.
Require Import Lia ZifyBool ZifyNat ZifyN.
Open Scope N_scope.

(* ---- itoa on canonical digit strings up to 40 digits (u128 / i128) ------------------------------------------------------------------ *)
Lemma itoa_canon40 int : int_ok int = true -> nval int 0 < 10000000000000000000000000000000000000000 -> itoa (nval int 0) = int.
Proof.
  intros Hint Hlt. destruct (int_ok_inv int Hint) as [->|(c & ds & -> & Hc & Hd)]; [reflexivity|].
  unfold itoa. rewrite (dec_aux_canon ds c 40 [] Hc Hd); [apply app_nil_r|].
  pose proof (nval_canon_ge c ds Hc) as Hge.
  destruct (Nat.lt_ge_cases (length ds) 40) as [Hl|Hge40]; [exact Hl|exfalso].
  assert (Hp : 10 ^ 40 <= 10 ^ N.of_nat (length ds)) by (apply N.pow_le_mono_r; lia).
  assert (H40 : 10 ^ 40 = 10000000000000000000000000000000000000000) by reflexivity.
  rewrite H40 in Hp. lia.
Qed.

Lemma itoa_z_lit n : num_ok n = true -> lit_is_int n = true -> (lit_abs n < 10000000000000000000000000000000000000000)%Z ->
  itoa_z (lit_int n) = if nneg n && (lit_abs n =? 0)%Z then [48] else render_num n.
Proof.
  intros Hok Hi Hlt. destruct (num_ok_inv n Hok) as (Hint & _).
  pose proof Hi as Hi'. apply lit_is_int_iff in Hi' as [Hf Hx]. rewrite (render_int n Hf Hx).
  assert (Hab : lit_abs n = Z.of_N (nval (nint n) 0)) by (unfold lit_abs; change 0%Z with (Z.of_N 0); apply digits_val_nval).
  assert (Hc : itoa (Z.to_N (lit_abs n)) = nint n).
  { rewrite Hab, N2Z.id. apply itoa_canon40; [exact Hint|]. rewrite Hab in Hlt. lia. }
  unfold itoa_z, lit_int, TypedInt.int_lit. destruct (nneg n); cbn [andb app].
  - destruct (lit_abs n =? 0)%Z eqn:Hz.
    + apply Z.eqb_eq in Hz. rewrite Hz. reflexivity.
    + assert (Hneg : (- lit_abs n <? 0)%Z = true) by lia. rewrite Hneg, Z.opp_involutive, Hc. reflexivity.
  - assert (Hneg : (lit_abs n <? 0)%Z = false) by lia. rewrite Hneg, Hc. reflexivity.
Qed.

(* as_f64 never returns anything but a finite float *)
Lemma ap_as_f64_finite s f : ap_as_f64 s = Some f -> b64_is_finite f = true.
Proof.
  unfold ap_as_f64, std_parse_f64_finite. destruct (strip_sign s) as [neg r]. destruct (dec_parts r) as [[[ip fp] ex]|]; [|discriminate].
  cbv zeta. set (m := digits_val (ip ++ fp) 0). set (e := (ex - Z.of_nat (length fp))%Z).
  assert (Hm : (0 <= m)%Z) by (unfold m; apply (NumInt.digits_val_ge (ip ++ fp) 0%Z); lia).
  destruct (rne_decimal_cases m e Hm) as [(Hfin & _)|(Hinf & _)].
  - rewrite (finite_not_inf _ Hfin). intros [= <-]. unfold b64_is_finite, b64_neg. destruct neg; [rewrite is_finite_Bopp|]; exact Hfin.
  - rewrite Hinf. discriminate.
Qed.

Section Respell.
  Variable cf : cfg.
  Variable fx : fenv.
  Hypothesis Hap : arbitrary_precision cf = true.
  Local Notation E := (mkEnv RSlice TEof cf).

  (* ---- one Number: Number::deserialize_any with ValueVisitor --------------------------------------------------------------------- *)
  Lemma number_from_string_lit s : Layout.number_text_ok s = true -> number_from_string cf s = VOk (VNum (NLit s)).
  Proof.
    intros W. destruct (proj1 (SerToValueAp.number_text_ok_iff s) W) as (n & Hok & ->).
    unfold number_from_string. rewrite (from_str_verbatim cf n Hap Hok). reflexivity.
  Qed.

  Theorem number_respell s : Layout.number_text_ok s = true ->
    number_any cf fx (NLit s) (valuev cf fx) = VOk (VNum (NLit (respell_lit fx s))).
  Proof.
    intros W. unfold number_any, respell_lit. rewrite Hap. cbn [number_text].
    destruct (ap_as_u64 s) as [u|]; [cbn [valuev nv_u64]; unfold number_of_u64; rewrite Hap; reflexivity|].
    destruct (ap_as_i64 s) as [i|]; [cbn [valuev nv_i64]; unfold number_of_i64; rewrite Hap; reflexivity|].
    destruct (ap_as_u128 s) as [u|]; [cbn [valuev nv_u128]; rewrite Hap; reflexivity|].
    destruct (ap_as_i128 s) as [i|]; [cbn [valuev nv_i128]; rewrite Hap; reflexivity|].
    destruct (ap_as_f64 s) as [f|] eqn:Hf.
    - destruct (beq_bytes (ryu64 fx (bits_of_b64 f)) s || beq_bytes (disp64 fx (bits_of_b64 f)) s).
      + cbn [valuev nv_f64]. rewrite (ap_as_f64_finite s f Hf), Hap. reflexivity.
      + cbn [valuev nv_number_map]. rewrite Hap. apply number_from_string_lit, W.
    - cbn [valuev nv_number_map]. rewrite Hap. apply number_from_string_lit, W.
  Qed.

  (* ---- a whole Value ------------------------------------------------------------------------------------------------------------------- *)
  Theorem value_of_value_respell : forall v, wf_value cf v = true -> no_token v = true -> value_of_value cf fx v = VOk (respell fx v).
  Proof.
    induction v using value_ind'; intros W T; cbn [value_of_value respell]; try reflexivity.
    - (* a Number *)
      cbn [wf_value] in W. destruct n as [u|i|f|s]; cbn [wf_num] in W; rewrite Hap in W; cbn [negb andb] in W; try discriminate W.
      apply number_respell, W.
    - (* an array *)
      cbn [wf_value no_token] in W, T.
      assert (Hgo : (fix go (l0 : list value) : vres (list value) :=
                       match l0 with
                       | [] => VOk []
                       | x :: r => let& y := value_of_value cf fx x in let& ys := go r in VOk (y :: ys)
                       end) l = VOk (map (respell fx) l)).
      { induction l as [|x r IHl]; [reflexivity|]. cbn [forallb] in W, T. apply andb_true_iff in W as [Wx Wr]. apply andb_true_iff in T as [Tx Tr].
        inversion H as [|? ? Hx Hr]; subst. rewrite (Hx Wx Tx). cbn [vbind map]. rewrite (IHl Hr Wr Tr). reflexivity. }
      rewrite Hgo. reflexivity.
    - (* an object *)
      cbn [wf_value no_token] in W, T. apply andb_true_iff in W as [W Wk]. apply andb_true_iff in T as [T0 T].
      destruct l as [|[k0 x0] r0]; [reflexivity|].
      assert (Htok : arbitrary_precision cf && beq_bytes k0 NUMBER_TOKEN_V = false).
      { destruct (beq_bytes k0 NUMBER_TOKEN_V); [discriminate T0|apply andb_false_r]. }
      rewrite Htok.
      set (F := fun kv : list N * value => (fst kv, respell fx (snd kv))).
      assert (Hgo : forall m, Forall (fun kv : list N * value => wf_value cf (snd kv) = true -> no_token (snd kv) = true ->
                                        value_of_value cf fx (snd kv) = VOk (respell fx (snd kv))) m ->
                     forallb (fun kv : list N * value => utf8_valid (fst kv) && wf_value cf (snd kv)) m = true ->
                     forallb (fun kv : list N * value => no_token (snd kv)) m = true ->
                     (fix go (l0 : list (list N * value)) : vres (list (list N * value)) :=
                        match l0 with
                        | [] => VOk []
                        | (k, x) :: r => let& y := value_of_value cf fx x in let& ys := go r in VOk ((k, y) :: ys)
                        end) m = VOk (map F m)).
      { induction m as [|[k x] r IHm]; intros HF Wm Tm; [reflexivity|]. cbn [forallb fst snd] in Wm, Tm.
        apply andb_true_iff in Wm as [Wx Wr]. apply andb_true_iff in Wx as [_ Wx]. apply andb_true_iff in Tm as [Tx Tr].
        inversion HF as [|? ? Hx Hr]; subst. cbn [snd] in Hx. rewrite (Hx Wx Tx). cbn [vbind].
        rewrite (IHm Hr Wr Tr). reflexivity. }
      rewrite (Hgo _ H W T). cbn [vbind].
      assert (Hkeys : map fst (map F ((k0, x0) :: r0)) = map fst ((k0, x0) :: r0)).
      { rewrite map_map. apply map_ext. intros [k x]. reflexivity. }
      rewrite (map_of_entries_id (preserve_order cf) (map F ((k0, x0) :: r0))) by (rewrite Hkeys; exact Wk).
      reflexivity.
  Qed.

  (* ---- fixed points of the re-spelling ------------------------------------------------------------------------------------------------ *)
  Theorem respell_id_iff : forall v, respell fx v = v <-> canon_value fx v = true.
  Proof.
    induction v using value_ind'; cbn [respell canon_value]; try (split; reflexivity).
    - destruct n as [u|i|f|s]; try (split; reflexivity). unfold canon_lit. rewrite beq_bytes_eq. split.
      + intros [= Hs]. exact Hs.
      + intros ->. reflexivity.
    - split.
      + intros [= Hl]. induction l as [|x r IHl]; [reflexivity|]. inversion H as [|? ? Hx Hr]; subst.
        cbn [map] in Hl. injection Hl as Hx1 Hr1. cbn [forallb]. rewrite (proj1 Hx Hx1), (IHl Hr Hr1). reflexivity.
      + intros Hc. f_equal. induction l as [|x r IHl]; [reflexivity|]. inversion H as [|? ? Hx Hr]; subst.
        cbn [forallb] in Hc. apply andb_true_iff in Hc as [Hc1 Hc2]. cbn [map]. rewrite (proj2 Hx Hc1), (IHl Hr Hc2). reflexivity.
    - split.
      + intros [= Hl]. induction l as [|[k x] r IHl]; [reflexivity|]. inversion H as [|? ? Hx Hr]; subst. cbn [snd] in Hx.
        cbn [map fst snd] in Hl. injection Hl as Hx1 Hr1. cbn [forallb snd]. rewrite (proj1 Hx Hx1), (IHl Hr Hr1). reflexivity.
      + intros Hc. f_equal. induction l as [|[k x] r IHl]; [reflexivity|]. inversion H as [|? ? Hx Hr]; subst. cbn [snd] in Hx.
        cbn [forallb snd] in Hc. apply andb_true_iff in Hc as [Hc1 Hc2]. cbn [map fst snd]. rewrite (proj2 Hx Hc1), (IHl Hr Hc2). reflexivity.
  Qed.
End Respell.

(* ================================================================================================================================
   Which literals are canonical
   ================================================================================================================================ *)
(* the literal is an integer within [i128::MIN, u128::MAX]: one of as_u64 / as_i64 / as_u128 / as_i128 reads it *)
Definition int128_lit (n : numlit) : bool := lit_is_int n && (I128_MIN <=? lit_int n)%Z && (lit_int n <=? U128_MAX)%Z.

Lemma respell_int fx n : num_ok n = true -> int128_lit n = true -> respell_lit fx (render_num n) = itoa_z (lit_int n).
Proof.
  intros Hok H. unfold int128_lit in H. apply andb_prop in H as [H Hhi]. apply andb_prop in H as [Hi Hlo].
  pose proof (lit_abs_nonneg n) as Hnn.
  unfold respell_lit, ap_as_u64, ap_as_i64, ap_as_u128, ap_as_i128.
  rewrite !(std_parse_int_lit _ _ _ n Hok), Hi. unfold ApNumber.in_range. cbn [andb orb].
  unfold lit_int in *. unfold U64_MAX, I64_MIN, I64_MAX, U128_MAX, I128_MIN, I128_MAX in *.
  destruct (nneg n); cbn [negb andb orb].
  - destruct ((-9223372036854775808 <=? - lit_abs n) && (- lit_abs n <=? 9223372036854775807))%Z eqn:H64; [reflexivity|].
    assert (H128 : ((-170141183460469231731687303715884105728 <=? - lit_abs n) && (- lit_abs n <=? 170141183460469231731687303715884105727))%Z = true) by lia.
    rewrite H128. reflexivity.
  - destruct ((0 <=? lit_abs n) && (lit_abs n <=? 18446744073709551615))%Z eqn:H64.
    + unfold itoa_z. assert (Hn : (lit_abs n <? 0)%Z = false) by lia. rewrite Hn. reflexivity.
    + assert (Hi64 : ((-9223372036854775808 <=? lit_abs n) && (lit_abs n <=? 9223372036854775807))%Z = false) by lia. rewrite Hi64.
      assert (H128 : ((0 <=? lit_abs n) && (lit_abs n <=? 340282366920938463463374607431768211455))%Z = true) by lia.
      rewrite H128. reflexivity.
Qed.

Lemma respell_nonint fx n : num_ok n = true -> int128_lit n = false ->
  respell_lit fx (render_num n) =
  match ap_as_f64 (render_num n) with
  | Some f => if beq_bytes (ryu64 fx (bits_of_b64 f)) (render_num n) || beq_bytes (disp64 fx (bits_of_b64 f)) (render_num n)
              then ryu64 fx (bits_of_b64 f) else render_num n
  | None => render_num n
  end.
Proof.
  intros Hok H. unfold int128_lit in H. pose proof (lit_abs_nonneg n) as Hnn.
  unfold respell_lit, ap_as_u64, ap_as_i64, ap_as_u128, ap_as_i128.
  rewrite !(std_parse_int_lit _ _ _ n Hok). unfold ApNumber.in_range.
  destruct (lit_is_int n); cbn [andb] in *; [|reflexivity].
  unfold lit_int in *. unfold U64_MAX, I64_MIN, I64_MAX, U128_MAX, I128_MIN, I128_MAX in *.
  destruct (nneg n); cbn [negb andb orb].
  - assert (H1 : ((-9223372036854775808 <=? - lit_abs n) && (- lit_abs n <=? 9223372036854775807))%Z = false) by lia.
    assert (H2 : ((-170141183460469231731687303715884105728 <=? - lit_abs n) && (- lit_abs n <=? 170141183460469231731687303715884105727))%Z = false) by lia.
    rewrite H1, H2. reflexivity.
  - assert (H1 : ((0 <=? lit_abs n) && (lit_abs n <=? 18446744073709551615))%Z = false) by lia.
    assert (H2 : ((-9223372036854775808 <=? lit_abs n) && (lit_abs n <=? 9223372036854775807))%Z = false) by lia.
    assert (H3 : ((0 <=? lit_abs n) && (lit_abs n <=? 340282366920938463463374607431768211455))%Z = false) by lia.
    assert (H4 : ((-170141183460469231731687303715884105728 <=? lit_abs n) && (lit_abs n <=? 170141183460469231731687303715884105727))%Z = false) by lia.
    rewrite H1, H2, H3, H4. reflexivity.
Qed.

(* the re-spelling of a well-formed literal, by its parts *)
Theorem respell_lit_spec : forall fx n, num_ok n = true ->
  respell_lit fx (render_num n) =
  if int128_lit n then (if nneg n && (lit_abs n =? 0)%Z then [48] else render_num n)          (* `-0` -> `0`, every other integer kept *)
  else match ap_as_f64 (render_num n) with
       | Some f => if beq_bytes (ryu64 fx (bits_of_b64 f)) (render_num n) || beq_bytes (disp64 fx (bits_of_b64 f)) (render_num n)
                   then ryu64 fx (bits_of_b64 f) else render_num n                              (* Display's spelling -> ryu's *)
       | None => render_num n                                                                   (* beyond f64: kept *)
       end.
Proof.
  intros fx n Hok. destruct (int128_lit n) eqn:H; [|apply respell_nonint; assumption].
  rewrite (respell_int fx n Hok H). unfold int128_lit in H. apply andb_prop in H as [H Hhi]. apply andb_prop in H as [Hi Hlo].
  apply itoa_z_lit; [exact Hok|exact Hi|]. pose proof (lit_abs_nonneg n). unfold lit_int, U128_MAX, I128_MIN in *. destruct (nneg n); lia.
Qed.

Theorem canon_lit_spec : forall fx n, num_ok n = true ->
  canon_lit fx (render_num n) =
  if int128_lit n then negb (nneg n && (lit_abs n =? 0)%Z)
  else match ap_as_f64 (render_num n) with
       | Some f => beq_bytes (ryu64 fx (bits_of_b64 f)) (render_num n) || negb (beq_bytes (disp64 fx (bits_of_b64 f)) (render_num n))
       | None => true
       end.
Proof.
  intros fx n Hok. unfold canon_lit. rewrite (respell_lit_spec fx n Hok). destruct (int128_lit n).
  - destruct (nneg n && (lit_abs n =? 0)%Z) eqn:Hz; cbn [negb]; [|apply beq_bytes_refl].
    apply andb_prop in Hz as [Hneg _]. rewrite render_num_split, Hneg. reflexivity.
  - destruct (ap_as_f64 (render_num n)) as [f|]; [|apply beq_bytes_refl].
    destruct (beq_bytes (ryu64 fx (bits_of_b64 f)) (render_num n)) eqn:Hr; cbn [orb].
    + exact Hr.
    + destruct (beq_bytes (disp64 fx (bits_of_b64 f)) (render_num n)); cbn [negb]; [exact Hr|apply beq_bytes_refl].
Qed.

(* the canonical-spelling predicate: not `-0`, and, for a literal no integer accessor reads, not "Display's but not ryu's spelling" of
   its nearest f64 *)
Definition canonical_spelling (fx : fenv) (n : numlit) : Prop :=
  render_num n <> neg_zero_lit
  /\ (int128_lit n = false -> forall f, ap_as_f64 (render_num n) = Some f ->
      disp64 fx (bits_of_b64 f) = render_num n -> ryu64 fx (bits_of_b64 f) = render_num n).

Lemma neg_zero_lit_iff n : num_ok n = true -> (render_num n = neg_zero_lit <-> int128_lit n = true /\ nneg n = true /\ lit_abs n = 0%Z).
Proof.
  intros Hok. pose proof (f12b_true_iff Ty.I8 n Hok) as HF. unfold f12b in HF. cbn [int_signed is_128 negb andb] in HF.
  rewrite beq_bytes_eq in HF. split.
  - intros H. apply HF in H as (_ & _ & Hneg & Hint & Hf & Hx). unfold int128_lit, lit_is_int, lit_int, lit_abs. rewrite Hf, Hx, Hneg, Hint. repeat split.
  - intros (Hi & Hneg & Hz). unfold int128_lit in Hi. apply andb_prop in Hi as [Hi _]. apply andb_prop in Hi as [Hi _].
    apply neg_zero_render; assumption.
Qed.

Theorem canon_lit_iff : forall fx n, num_ok n = true -> (canon_lit fx (render_num n) = true <-> canonical_spelling fx n).
Proof.
  intros fx n Hok. rewrite (canon_lit_spec fx n Hok). unfold canonical_spelling. pose proof (neg_zero_lit_iff n Hok) as HZ.
  destruct (int128_lit n) eqn:Hi.
  - split.
    + intros H. split; [|intros Hd; discriminate Hd]. intros Hnz. apply HZ in Hnz as (_ & Hneg & Hz). rewrite Hneg, Hz in H. discriminate H.
    + intros [Hnz _]. destruct (nneg n) eqn:Hneg; [|reflexivity]. destruct (lit_abs n =? 0)%Z eqn:Hz; [|reflexivity].
      exfalso. apply Hnz, HZ. apply Z.eqb_eq in Hz. auto.
  - split.
    + intros H. split; [intros Hnz; apply HZ in Hnz as (Hd & _); discriminate Hd|]. intros _ f Hf Hd. rewrite Hf in H.
      rewrite <- Hd in H at 2. rewrite beq_bytes_refl in H. cbn [negb] in H. rewrite orb_false_r in H. apply beq_bytes_eq, H.
    + intros [_ H]. destruct (ap_as_f64 (render_num n)) as [f|]; [|reflexivity].
      destruct (beq_bytes (disp64 fx (bits_of_b64 f)) (render_num n)) eqn:Hd; cbn [negb]; [|apply orb_true_r].
      apply beq_bytes_eq in Hd. rewrite (H eq_refl f eq_refl Hd). rewrite beq_bytes_refl. reflexivity.
Qed.

(* ================================================================================================================================
   The three routes for T = Value
   ================================================================================================================================ *)
From SJ Require Import Model.Sval Model.Ser Model.ValueSer Spec.Layout Proofs.SerBase Proofs.SerRender Proofs.SerWf Proofs.SerDenote
  Proofs.SerMain Proofs.SerFinal.

(* completeness of the Value parser, any configuration *)
Lemma complete_value_any cf c : complete_value cf c.
Proof.
  apply (GrammarValueComplete.complete_all cf).
  - intros. eapply parse_str_complete; eauto.
  - intros positive n rst off pk d Hn Hf p s' H. eapply number_local_ok; eauto.
Qed.

(* what to_string prints for a Value of this build: the rendering of a well-formed tree that denotes the Value and mirrors it *)
Lemma ap_value_text cf fmt32 fmt64 v : arbitrary_precision cf = true -> ryu_json fmt32 fmt64 -> wf_value cf v = true ->
  exists bufs c, serialize cf fmt32 fmt64 Compact (sval_of_value v) = Ok bufs /\ concat bufs = render c
    /\ wfb c = true /\ denote cf c = Some v /\ shape2 (NRser cf fmt32 fmt64) c v.
Proof.
  intros Hap [H1 H2] W.
  assert (H4 : ryu_reads_back_value cf fmt64) by (intros Hf; rewrite Hap in Hf; discriminate Hf).
  destruct (value_image cf fmt32 fmt64 H4 (literal_kept_holds cf) v W) as [Ws Hi]. destruct (value_cst cf fmt32 fmt64 v) as [c Hc].
  destruct (serialize_ok cf fmt32 fmt64 Compact _ c Ws Hc) as [bufs [Es C]]. rewrite print_compact in C.
  destruct (C03_wf_nows cf fmt32 fmt64 H1 H2 _ c Ws Hc) as [G1 _].
  assert (Dn : denote cf c = Some v) by (rewrite (C03_denotes_image cf fmt32 fmt64 H1 H2 _ c Ws Hc); exact Hi).
  exists bufs, c. split; [exact Es|]. split; [exact C|]. split; [exact G1|]. split; [exact Dn|]. exact (value_shape2 cf fmt32 fmt64 v c W Hc).
Qed.

(* the text route into a Value: the parser, whatever the spelling *)
Lemma text_route_value cf c v : wfb c = true -> denote cf c = Some v -> (limit_disabled cf = false -> (cdepth c <= 127)%nat) ->
  from_input_typed (mkEnv RSlice TEof cf) TValue (render c) = TOk (DValue (Extract.Driver.show_value v)).
Proof.
  intros Hwf Hden Hdepth. unfold from_input_typed.
  assert (Hf : typed_fuel TValue (render c) = S (typed_fuel TValue (render c) - 1)%nat) by (unfold typed_fuel; lia).
  rewrite Hf. cbn [de_typed].
  destruct (complete_value_any cf c (typed_fuel TValue (render c) - 1)%nat (init_st (render c)) [] [] v) as (s' & Hp & Hr & _); try assumption; try reflexivity.
  - pose proof (vfuel_bound c). unfold typed_fuel. cbn [ty_depth]. lia.
  - intros Hl. specialize (Hdepth Hl). cbn [init_st depth]. rewrite DEPTH0_eq. lia.
  - cbn [init_st rest app]. rewrite app_nil_r. reflexivity.
  - rewrite Hp. cbn [DeTyped.lift DeTyped.tbind]. destruct (de_end_nil cf s' Hr) as [s1 He]. rewrite He. reflexivity.
Qed.

(* F19 as a theorem.  For a well-formed Value of this build without a private-token object:
     from_value::<Value>(v) = Value::deserialize(&v) = respell fx v            (every number literal re-spelled),
     from_str::<Value>(&to_string(&v)) = v                                      (every number literal kept),
   and respell fx v = v exactly when every number literal of v is in canonical spelling. *)
Theorem C16_ap_value_respelled : forall cf fx fmt32 fmt64 v,
  arbitrary_precision cf = true -> ryu_json fmt32 fmt64 -> wf_value cf v = true -> no_token v = true ->
  value_of_value cf fx v = VOk (respell fx v)
  /\ from_value_owned cf fx TValue v = VOk (DValue (Extract.Driver.show_value (respell fx v)))
  /\ from_value_ref cf fx TValue v = VOk (DValue (Extract.Driver.show_value (respell fx v)))
  /\ (respell fx v = v <-> canon_value fx v = true)
  /\ exists bufs c, serialize cf fmt32 fmt64 Compact (sval_of_value v) = Ok bufs /\ concat bufs = render c /\
       ((limit_disabled cf = false -> (cdepth c <= 127)%nat) ->
        from_input_typed (mkEnv RSlice TEof cf) TValue (concat bufs) = TOk (DValue (Extract.Driver.show_value v))).
Proof.
  intros cf fx f32 f64 v Hap HR W T.
  pose proof (value_of_value_respell cf fx Hap v W T) as HV.
  split; [exact HV|]. split; [|split; [|split; [apply respell_id_iff|]]].
  - unfold from_value_owned, value_de_fuel. cbn [ty_depth de_value_owned]. rewrite HV. reflexivity.
  - unfold from_value_ref, value_de_fuel. cbn [ty_depth de_value_ref]. rewrite HV. reflexivity.
  - destruct (ap_value_text cf f32 f64 v Hap HR W) as (bufs & c & Es & C & G & Dn & _).
    exists bufs, c. split; [exact Es|]. split; [exact C|]. intros Hd. rewrite C. apply text_route_value; assumption.
Qed.

(* in particular: all three routes agree when the Value is canonical *)
Corollary C16_ap_value_canonical : forall cf fx fmt32 fmt64 v,
  arbitrary_precision cf = true -> ryu_json fmt32 fmt64 -> wf_value cf v = true -> no_token v = true -> canon_value fx v = true ->
  exists bufs c, serialize cf fmt32 fmt64 Compact (sval_of_value v) = Ok bufs /\ concat bufs = render c /\
    ((limit_disabled cf = false -> (cdepth c <= 127)%nat) ->
     agree (from_value_owned cf fx TValue v) (from_input_typed (mkEnv RSlice TEof cf) TValue (concat bufs))
     /\ agree (from_value_ref cf fx TValue v) (from_input_typed (mkEnv RSlice TEof cf) TValue (concat bufs))).
Proof.
  intros cf fx f32 f64 v Hap HR W T Hc.
  destruct (C16_ap_value_respelled cf fx f32 f64 v Hap HR W T) as (_ & Ho & Hr & Hid & bufs & c & Es & C & Ht).
  rewrite (proj2 Hid Hc) in Ho, Hr. exists bufs, c. split; [exact Es|]. split; [exact C|]. intros Hd. rewrite (Ht Hd), Ho, Hr.
  split; cbn [agree]; eexists; split; reflexivity.
Qed.

(* ================================================================================================================================
   Witnesses
   ================================================================================================================================ *)
(* a formatter pair that knows three floats the way Rust prints them: 1e-6, 100.0, 1e39 *)
Definition lit_1em6 : bytes := [49; 101; 45; 54].                                  (* 1e-6 *)
Definition lit_0_000001 : bytes := [48; 46; 48; 48; 48; 48; 48; 49].               (* 0.000001 *)
Definition lit_100_0 : bytes := [49; 48; 48; 46; 48].                              (* 100.0 *)
Definition lit_100 : bytes := [49; 48; 48].                                        (* 100 *)
Definition lit_1E2 : bytes := [49; 69; 50].                                        (* 1E2 *)
Definition lit_1e39 : bytes := [49; 101; 51; 57].                                  (* 1e39 *)
Definition lit_10p39 : bytes := 49 :: repeat 48 39.                                (* 1 followed by 39 zeros *)
Definition bits_1em6 : N := 4517329193108106637.
Definition bits_100 : N := 4636737291354636288.
Definition bits_1e39 : N := 5190260616003865117.
Definition ex_fx : fenv :=
  mkFenv (fun b => if b =? bits_1em6 then lit_1em6 else if b =? bits_100 then lit_100_0 else if b =? bits_1e39 then lit_1e39 else [])
         (fun b => if b =? bits_1em6 then lit_0_000001 else if b =? bits_100 then lit_100 else if b =? bits_1e39 then lit_10p39 else []).
Definition ex_cfa : cfg := mkCfg false false true false.
Local Notation Ea := (mkEnv RSlice TEof ex_cfa).

(* the re-spelling of single literals *)
Example respell_neg_zero : respell_lit ex_fx [45; 48] = [48].                      (* -0 -> 0 *)
Proof. vm_compute. reflexivity. Qed.
Example respell_display_form : respell_lit ex_fx lit_0_000001 = lit_1em6.          (* 0.000001 -> 1e-6 *)
Proof. vm_compute. reflexivity. Qed.
Example respell_big_integer : respell_lit ex_fx lit_10p39 = lit_1e39.              (* 10^39 in 40 digits -> 1e39 *)
Proof. vm_compute. reflexivity. Qed.
(* ... and of literals that stay: 1E2 (neither ryu's "100.0" nor Display's "100"), 100.0 (ryu's own spelling), 1e-6, -0.0, 1.50 *)
Example respell_keeps : respell_lit ex_fx lit_1E2 = lit_1E2 /\ respell_lit ex_fx lit_100_0 = lit_100_0 /\ respell_lit ex_fx lit_1em6 = lit_1em6
  /\ respell_lit ex_fx [45; 48; 46; 48] = [45; 48; 46; 48] /\ respell_lit ex_fx [49; 46; 53; 48] = [49; 46; 53; 48]
  /\ respell_lit ex_fx lit_100 = lit_100.
Proof. repeat split; vm_compute; reflexivity. Qed.

(* F19 on a Value: from_value::<Value>([1,-0,0.000001]) = [1,0,1e-6] while the text route returns [1,-0,0.000001] *)
Definition ex_v19 : value := VArr [VNum (NLit [49]); VNum (NLit [45; 48]); VNum (NLit lit_0_000001)].
Definition ex_v19_text : bytes := [91; 49; 44; 45; 48; 44] ++ lit_0_000001 ++ [93].
Example F19_witness :
  wf_value ex_cfa ex_v19 = true /\ no_token ex_v19 = true /\ canon_value ex_fx ex_v19 = false
  /\ ser_value ex_v19 = ex_v19_text
  /\ value_of_value ex_cfa ex_fx ex_v19 = VOk (VArr [VNum (NLit [49]); VNum (NLit [48]); VNum (NLit lit_1em6)])
  /\ from_input Ea ex_v19_text = Ok ex_v19
  /\ from_value_owned ex_cfa ex_fx TValue ex_v19 <> VOk (DValue (Extract.Driver.show_value ex_v19))
  /\ from_input_typed Ea TValue ex_v19_text = TOk (DValue (Extract.Driver.show_value ex_v19)).
Proof. repeat split; try (vm_compute; reflexivity). vm_compute. discriminate. Qed.
(* ... also inside a typed container: Vec<Value> *)
Example F19_witness_vec :
  from_value_owned ex_cfa ex_fx (TSeq TValue) (VArr [VNum (NLit [45; 48])]) = VOk (DSeq [DValue (Extract.Driver.show_value (VNum (NLit [48])))])
  /\ from_input_typed Ea (TSeq TValue) [91; 45; 48; 93] = TOk (DSeq [DValue (Extract.Driver.show_value (VNum (NLit [45; 48])))]).
Proof. split; vm_compute; reflexivity. Qed.

(* the private token as a first key (the Value-route side of F23): {"$serde_json::private::Number":"12"} becomes the Number 12,
   with a non-number payload or a second member the conversion fails; the text-route MODEL reads an object (finding F23: the real
   crate reinterprets the text, too — Model/De.v has no such branch) *)
Example token_object_value_route :
  value_of_value ex_cfa ex_fx (VObj [(NUMBER_TOKEN_V, VStr [49; 50])]) = VOk (VNum (NLit [49; 50]))
  /\ value_of_value ex_cfa ex_fx (VObj [(NUMBER_TOKEN_V, VStr [97])]) = VErr (Message MCustom) 1 1
  /\ value_of_value ex_cfa ex_fx (VObj [(NUMBER_TOKEN_V, VStr [49]); ([120], VNull)]) = VErr (Message MInvalidLength) 0 0
  /\ no_token (VObj [(NUMBER_TOKEN_V, VStr [49; 50])]) = false.
Proof. repeat split; vm_compute; reflexivity. Qed.

(* the canonical-spelling predicate on the witnesses *)
Example canon_examples :
  canon_lit ex_fx [45; 48] = false /\ canon_lit ex_fx lit_0_000001 = false /\ canon_lit ex_fx lit_10p39 = false
  /\ canon_lit ex_fx lit_1E2 = true /\ canon_lit ex_fx [45; 48; 46; 48] = true /\ canon_lit ex_fx [48] = true.
Proof. repeat split; vm_compute; reflexivity. Qed.

Print Assumptions value_of_value_respell.
Print Assumptions respell_id_iff.
Print Assumptions canon_lit_iff.
Print Assumptions C16_ap_value_respelled.
Print Assumptions C16_ap_value_canonical.
