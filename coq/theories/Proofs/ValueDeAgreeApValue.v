(* Proofs/ValueDeAgreeApValue.v — C16 under `arbitrary_precision`, targets that ARE a Value (T = serde_json::Value): finding F19.

   `from_value::<Value>(v)` / `Value::deserialize(&v)` drive ValueVisitor through Number::deserialize_any (src/number.rs
   deserialize_any!): the text of every Number is first tried as u64, i64, u128, i128 (visit_u64 ... -> itoa of the integer), then as
   f64 — when ryu's or Display's text of that float equals the literal, visit_f64 is called and the Number is rebuilt FROM THE FLOAT
   with ryu — and only otherwise handed over as text (NumberDeserializer -> NumberFromString).  So literals are re-spelled:
       -0        ->  0          (as_i64 = 0)
       0.000001  ->  1e-6       (Display(1e-6) = "0.000001" = the literal, ryu(1e-6) = "1e-6")
       10^39 written with 40 digits -> 1e39
   while from_str(to_string(&v)) keeps every literal (C20).  Number equality is textual under the feature, so this is observable.

   [respell] (Proofs/ValueDeAgreeAp.v) is this re-spelling as a function; here:
     value_of_value_respell   value_of_value cf fx v = VOk (respell fx v)          (the model's Value::deserialize on a Value)
     respell_id_iff           respell fx v = v  <->  canon_value fx v = true
     canon_lit_spec           which literals are canonical (fixed by the re-spelling), in terms of the literal's parts
     C16_ap_value_respelled   the three routes for T = Value, the Value routes give [respell fx v], the text route gives v
   plus the witnesses.  An object whose FIRST key is the private token "$serde_json::private::Number" is excluded ([no_token]): the
   Value route turns it into a Number or an error (KeyClassifier; the Value-route side of finding F23); witness below. *)
From SJ Require Import Base.Bytes Base.Utf8 Base.FloatB Gen.Tables
  Model.Read Model.Str Model.Num Model.NumF32 Model.Value Model.De Model.Ignore Model.Ty Model.NumberM Model.DeTyped Model.ValueDe
  Spec.Syntax Spec.Denote Proofs.GrammarIgnore Proofs.GrammarValueComplete Proofs.SerValue Proofs.GrammarValueBase Proofs.GrammarStr Proofs.GrammarNum
  Proofs.ValueDeRef Proofs.ValueDeAgree Proofs.ValueDeText Proofs.ValueDeAgreeKey Proofs.ValueDeAgreeMap Proofs.ValueDeAgreeMisc.
From SJ Require Proofs.NumInt Proofs.TypedInt.
From SJ Require Import Proofs.ApNumber Proofs.ApNumberFloat Proofs.ValueInt Proofs.LexOracle Proofs.ValueDeAgreeAp.
From SJ Require Model.Sval Model.Ser Model.ValueSer Spec.Layout Proofs.SerToValueAp Proofs.SerMain Proofs.SerFinal.
From Flocq Require Import Core BinarySingleNaN.
Require Import Lia ZifyBool ZifyNat ZifyN.
Open Scope N_scope.

(* ---- itoa on canonical digit strings up to 40 digits (u128 / i128) ------------------------------------------------------------------ *)
Lemma itoa_canon40 int : int_ok int = true -> nval int 0 < 10000000000000000000000000000000000000000 -> itoa (nval int 0) = int.
Proof.
  intros Hint Hlt. destruct (int_ok_inv int Hint) as [->|(c & ds & -> & Hc & Hd)]; [reflexivity|].
  unfold itoa. rewrite (dec_aux_canon ds c 40 [] Hc Hd); [apply app_nil_r|].
  pose proof (nval_canon_ge c ds Hc) as Hge.
  destruct (Nat.lt_ge_cases (length ds) 40) as [Hl|Hge40]; [exact Hl|exfalso].
  assert (Hp : 10 ^ 40 <= 10 ^ N.of_nat (length ds)) by (apply N.pow_le_mono_r; lia).
  assert (H40 : 10 ^ 40 = 10000000000000000000000000000000000000000) by reflexivity.
  rewrite H40 in Hp. lia.
Qed.

Lemma itoa_z_lit n : num_ok n = true -> lit_is_int n = true -> (lit_abs n < 10000000000000000000000000000000000000000)%Z ->
  itoa_z (lit_int n) = if nneg n && (lit_abs n =? 0)%Z then [48] else render_num n.
Proof.
  intros Hok Hi Hlt. destruct (num_ok_inv n Hok) as (Hint & _).
  pose proof Hi as Hi'. apply lit_is_int_iff in Hi' as [Hf Hx]. rewrite (render_int n Hf Hx).
  assert (Hab : lit_abs n = Z.of_N (nval (nint n) 0)) by (unfold lit_abs; change 0%Z with (Z.of_N 0); apply digits_val_nval).
  assert (Hc : itoa (Z.to_N (lit_abs n)) = nint n).
  { rewrite Hab, N2Z.id. apply itoa_canon40; [exact Hint|]. rewrite Hab in Hlt. lia. }
  unfold itoa_z, lit_int, TypedInt.int_lit. destruct (nneg n); cbn [andb app].
  - destruct (lit_abs n =? 0)%Z eqn:Hz.
    + apply Z.eqb_eq in Hz. rewrite Hz. reflexivity.
    + assert (Hneg : (- lit_abs n <? 0)%Z = true) by lia. rewrite Hneg, Z.opp_involutive, Hc. reflexivity.
  - assert (Hneg : (lit_abs n <? 0)%Z = false) by lia. rewrite Hneg, Hc. reflexivity.
Qed.

(* as_f64 never returns anything but a finite float *)
Lemma ap_as_f64_finite s f : ap_as_f64 s = Some f -> b64_is_finite f = true.
Proof.
  unfold ap_as_f64, std_parse_f64_finite. destruct (strip_sign s) as [neg r]. destruct (dec_parts r) as [[[ip fp] ex]|]; [|discriminate].
  cbv zeta. set (m := digits_val (ip ++ fp) 0). set (e := (ex - Z.of_nat (length fp))%Z).
  assert (Hm : (0 <= m)%Z) by (unfold m; apply (NumInt.digits_val_ge (ip ++ fp) 0%Z); lia).
  destruct (rne_decimal_cases m e Hm) as [(Hfin & _)|(Hinf & _)].
  - rewrite (finite_not_inf _ Hfin). intros [= <-]. unfold b64_is_finite, b64_neg. destruct neg; [rewrite is_finite_Bopp|]; exact Hfin.
  - rewrite Hinf. discriminate.
Qed.

Section Respell.
  Variable cf : cfg.
  Variable fx : fenv.
  Hypothesis Hap : arbitrary_precision cf = true.
  Local Notation E := (mkEnv RSlice TEof cf).

  (* ---- one Number: Number::deserialize_any with ValueVisitor --------------------------------------------------------------------- *)
  Lemma number_from_string_lit s : Layout.number_text_ok s = true -> number_from_string cf s = VOk (VNum (NLit s)).
  Proof.
    intros W. destruct (proj1 (SerToValueAp.number_text_ok_iff s) W) as (n & Hok & ->).
    unfold number_from_string. rewrite (from_str_verbatim cf n Hap Hok). reflexivity.
  Qed.

  Theorem number_respell s : Layout.number_text_ok s = true ->
    number_any cf fx (NLit s) (valuev cf fx) = VOk (VNum (NLit (respell_lit fx s))).
  Proof.
    intros W. unfold number_any, respell_lit. rewrite Hap. cbn [number_text].
    destruct (ap_as_u64 s) as [u|]; [cbn [valuev nv_u64]; unfold number_of_u64; rewrite Hap; reflexivity|].
    destruct (ap_as_i64 s) as [i|]; [cbn [valuev nv_i64]; unfold number_of_i64; rewrite Hap; reflexivity|].
    destruct (ap_as_u128 s) as [u|]; [cbn [valuev nv_u128]; rewrite Hap; reflexivity|].
    destruct (ap_as_i128 s) as [i|]; [cbn [valuev nv_i128]; rewrite Hap; reflexivity|].
    destruct (ap_as_f64 s) as [f|] eqn:Hf.
    - destruct (beq_bytes (ryu64 fx (bits_of_b64 f)) s || beq_bytes (disp64 fx (bits_of_b64 f)) s).
      + cbn [valuev nv_f64]. rewrite (ap_as_f64_finite s f Hf), Hap. reflexivity.
      + cbn [valuev nv_number_map]. rewrite Hap. apply number_from_string_lit, W.
    - cbn [valuev nv_number_map]. rewrite Hap. apply number_from_string_lit, W.
  Qed.

  (* ---- a whole Value ------------------------------------------------------------------------------------------------------------------- *)
  Theorem value_of_value_respell : forall v, wf_value cf v = true -> no_token v = true -> value_of_value cf fx v = VOk (respell fx v).
  Proof.
    induction v using value_ind'; intros W T; cbn [value_of_value respell]; try reflexivity.
    - (* a Number *)
      cbn [wf_value] in W. destruct n as [u|i|f|s]; cbn [wf_num] in W; rewrite Hap in W; cbn [negb andb] in W; try discriminate W.
      apply number_respell, W.
    - (* an array *)
      cbn [wf_value no_token] in W, T.
      assert (Hgo : (fix go (l0 : list value) : vres (list value) :=
                       match l0 with
                       | [] => VOk []
                       | x :: r => let& y := value_of_value cf fx x in let& ys := go r in VOk (y :: ys)
                       end) l = VOk (map (respell fx) l)).
      { induction l as [|x r IHl]; [reflexivity|]. cbn [forallb] in W, T. apply andb_true_iff in W as [Wx Wr]. apply andb_true_iff in T as [Tx Tr].
        inversion H as [|? ? Hx Hr]; subst. rewrite (Hx Wx Tx). cbn [vbind map]. rewrite (IHl Hr Wr Tr). reflexivity. }
      rewrite Hgo. reflexivity.
    - (* an object *)
      cbn [wf_value no_token] in W, T. apply andb_true_iff in W as [W Wk]. apply andb_true_iff in T as [T0 T].
      destruct l as [|[k0 x0] r0]; [reflexivity|].
      assert (Htok : arbitrary_precision cf && beq_bytes k0 NUMBER_TOKEN_V = false).
      { destruct (beq_bytes k0 NUMBER_TOKEN_V); [discriminate T0|apply andb_false_r]. }
      rewrite Htok.
      set (F := fun kv : list N * value => (fst kv, respell fx (snd kv))).
      assert (Hgo : forall m, Forall (fun kv : list N * value => wf_value cf (snd kv) = true -> no_token (snd kv) = true ->
                                        value_of_value cf fx (snd kv) = VOk (respell fx (snd kv))) m ->
                     forallb (fun kv : list N * value => utf8_valid (fst kv) && wf_value cf (snd kv)) m = true ->
                     forallb (fun kv : list N * value => no_token (snd kv)) m = true ->
                     (fix go (l0 : list (list N * value)) : vres (list (list N * value)) :=
                        match l0 with
                        | [] => VOk []
                        | (k, x) :: r => let& y := value_of_value cf fx x in let& ys := go r in VOk ((k, y) :: ys)
                        end) m = VOk (map F m)).
      { induction m as [|[k x] r IHm]; intros HF Wm Tm; [reflexivity|]. cbn [forallb fst snd] in Wm, Tm.
        apply andb_true_iff in Wm as [Wx Wr]. apply andb_true_iff in Wx as [_ Wx]. apply andb_true_iff in Tm as [Tx Tr].
        inversion HF as [|? ? Hx Hr]; subst. cbn [snd] in Hx. rewrite (Hx Wx Tx). cbn [vbind].
        rewrite (IHm Hr Wr Tr). reflexivity. }
      rewrite (Hgo _ H W T). cbn [vbind].
      assert (Hkeys : map fst (map F ((k0, x0) :: r0)) = map fst ((k0, x0) :: r0)).
      { rewrite map_map. apply map_ext. intros [k x]. reflexivity. }
      rewrite (map_of_entries_id (preserve_order cf) (map F ((k0, x0) :: r0))) by (rewrite Hkeys; exact Wk).
      reflexivity.
  Qed.

  (* ---- fixed points of the re-spelling ------------------------------------------------------------------------------------------------ *)
  Theorem respell_id_iff : forall v, respell fx v = v <-> canon_value fx v = true.
  Proof.
    induction v using value_ind'; cbn [respell canon_value]; try (split; reflexivity).
    - destruct n as [u|i|f|s]; try (split; reflexivity). unfold canon_lit. rewrite beq_bytes_eq. split.
      + intros [= Hs]. exact Hs.
      + intros ->. reflexivity.
    - split.
      + intros [= Hl]. induction l as [|x r IHl]; [reflexivity|]. inversion H as [|? ? Hx Hr]; subst.
        cbn [map] in Hl. injection Hl as Hx1 Hr1. cbn [forallb]. rewrite (proj1 Hx Hx1), (IHl Hr Hr1). reflexivity.
      + intros Hc. f_equal. induction l as [|x r IHl]; [reflexivity|]. inversion H as [|? ? Hx Hr]; subst.
        cbn [forallb] in Hc. apply andb_true_iff in Hc as [Hc1 Hc2]. cbn [map]. rewrite (proj2 Hx Hc1), (IHl Hr Hc2). reflexivity.
    - split.
      + intros [= Hl]. induction l as [|[k x] r IHl]; [reflexivity|]. inversion H as [|? ? Hx Hr]; subst. cbn [snd] in Hx.
        cbn [map fst snd] in Hl. injection Hl as Hx1 Hr1. cbn [forallb snd]. rewrite (proj1 Hx Hx1), (IHl Hr Hr1). reflexivity.
      + intros Hc. f_equal. induction l as [|[k x] r IHl]; [reflexivity|]. inversion H as [|? ? Hx Hr]; subst. cbn [snd] in Hx.
        cbn [forallb snd] in Hc. apply andb_true_iff in Hc as [Hc1 Hc2]. cbn [map fst snd]. rewrite (proj2 Hx Hc1), (IHl Hr Hc2). reflexivity.
  Qed.
End Respell.
