(* Proofs/ViableNum.v — C11 converse, part 3: number literals (all configurations).

   If [parse_any_number] fails with an Eof-category code, the unread input is one of
        ""  (after '-')        int "."        int ["." frac] ("e"|"E") [sign]
   and it can be completed to a well-formed literal.  The completed literal is accepted (its value is in range)
   - always under arbitrary_precision,
   - otherwise through the completion  …e-9999999999  (exponent overflow towards zero: the parser returns ±0 without
     any arithmetic), except when the input already ends in  e+ / E+ :  then only  "0"  can follow, and the literal
     is accepted unless the mantissa alone is out of range ([Bad]: needs an integer part of more than 308 digits).

     number_eof_viable   the statement
     Bad                 the (decidable, suffix-closed) exclusion *)
From Coq Require Import List NArith ZArith Bool Arith Lia ZifyBool ZifyNat ZifyN.
From SJ Require Import Base.Bytes Base.FloatB Gen.Tables Model.Read Model.Num Spec.Syntax Spec.Denote.
From SJ Require Import Proofs.GrammarNum Proofs.ViableBase.
From Flocq Require Import Core BinarySingleNaN.
Import ListNotations.
Open Scope N_scope.

Local Notation SE cf := (mkEnv RSlice TEof cf).
Local Notation is_e c := ((c =? 101) || (c =? 69)).

(* ---- the exclusion ------------------------------------------------------------------------- *)
(* lit ends with  e+  or  E+ *)
Definition EP (lit : bytes) : Prop := exists m x, lit = m ++ [x; 43] /\ is_e x = true.
(* some suffix of r ends in e+ and, completed with the single digit 0, is rejected as out of range *)
Definition Bad (cf : cfg) (r : bytes) : Prop :=
  exists a lit pos j, r = a ++ lit /\ EP lit /\
    parse_any_number (env0 cf) pos (init_st (lit ++ [48])) = Err NumberOutOfRange j.

Lemma Bad_suffix cf a b : Bad cf b -> Bad cf (a ++ b).
Proof. intros (a' & lit & pos & j & -> & H1 & H2). exists (a ++ a'), lit, pos, j. rewrite app_assoc. auto. Qed.

Definition HRnum (cf : cfg) (r : bytes) : Prop := arbitrary_precision cf = true \/ ~ Bad cf r.
Lemma HRnum_suffix cf a b : HRnum cf (a ++ b) -> HRnum cf b.
Proof. intros [H|H]; [left; exact H|right]. intros Hb. apply H, Bad_suffix, Hb. Qed.

(* ---- "a syntax error": a failed run whose code is not of the Eof category -------------------- *)
Definition synErr {A} (r : res A) : Prop :=
  match r with Err c _ => category c <> CatEof | Ok _ => False | _ => True end.

Lemma synErr_bind {A B} (r : res A) (f : A -> res B) : synErr r -> synErr (bind r f).
Proof. destruct r; cbn [synErr bind]; auto. intros []. Qed.
Lemma synErr_invalid {A} i : synErr (@Err A InvalidNumber i).
Proof. cbn. discriminate. Qed.
Lemma synErr_not {A} (r : res A) c i : synErr r -> r = Err c i -> category c = CatEof -> False.
Proof. intros H -> Hc. exact (H Hc). Qed.

Section Num.
Variable cf : cfg.
Local Notation E := (SE cf).
Let HE : tm E = TEof := eq_refl.

Lemma synErr_wrapF r : synErr r -> synErr (wrapF r).
Proof. unfold wrapF. apply synErr_bind. Qed.

(* ---- inputs that are hopeless: the error is a syntax error unless the input ends right there ---- *)
Lemma parse_integer_noint_syn positive l o p d : nd l -> l <> [] -> synErr (parse_integer E positive (mkSt l o p d)).
Proof.
  intros Hl Hne. destruct l as [|c l]; [congruence|]. unfold parse_integer.
  rewrite (next_cons E). cbn [bind]. cbv beta iota. unfold nd in Hl. cbn [hd] in Hl.
  assert (H48 : (c =? 48) = false) by (unfold is_digit in Hl; lia).
  assert (H19 : is_digit19 c = false) by (unfold is_digit, is_digit19 in *; lia).
  rewrite H48, H19. apply synErr_invalid.
Qed.

Lemma parse_integer_lead0_syn positive r o p d : is_digit (hd 0 r) = true ->
  synErr (parse_integer E positive (mkSt (48 :: r) o p d)).
Proof.
  intros Hr. unfold parse_integer. rewrite (next_cons E). cbn [bind]. cbv beta iota.
  change (48 =? 48) with true. cbv iota. rewrite (peek_or_null_mk E HE). cbn [bind]. cbv beta iota. rewrite Hr.
  apply synErr_invalid.
Qed.

Lemma peek_some_invalid {A} r o p d : r <> [] ->
  synErr (let* (o0, s2) := peek E (mkSt r o p d) in
          match o0 with
          | Some _ => @peek_error A E s2 InvalidNumber
          | None => peek_error E s2 EofWhileParsingValue
          end).
Proof. intros Hne. destruct r as [|x r]; [congruence|]. cbn. discriminate. Qed.

Lemma parse_decimal_nofrac_syn positive sg e r o p d : nd r -> r <> [] ->
  synErr (parse_decimal E positive sg e (mkSt (46 :: r) o p d)).
Proof.
  intros Hr Hne. unfold parse_decimal. rewrite discard_mk. cbn [tl rest].
  rewrite (sig_loop_nd r sg Hr). rewrite advance_mk, (peek_or_null_mk E HE). cbn [bind]. cbv beta iota. cbn [Nat.eqb].
  unfold pkd. cbn [skipn]. apply peek_some_invalid, Hne.
Qed.

Lemma parse_long_decimal_nofrac_syn positive i r o p d : nd r -> r <> [] ->
  synErr (parse_long_decimal E positive i [] (mkSt r o p d)).
Proof.
  intros Hr Hne. unfold parse_long_decimal. cbn [rest].
  rewrite (span_nd r Hr). cbn [firstn app]. rewrite advance_mk, (peek_or_null_mk E HE). cbn [bind]. cbv beta iota.
  unfold pkd. cbn [skipn]. apply peek_some_invalid, Hne.
Qed.

Lemma k1_nofrac_syn positive k r o d : nd r -> r <> [] -> synErr (run_k1 E positive k (pkd (46 :: r) o d)).
Proof.
  intros Hr Hne. destruct k as [sg|sg e|i]; unfold run_k1; cbv zeta.
  - rewrite (parse_number_unfold E HE). cbv zeta. cbn [hd]. change (46 =? 46) with true. cbv iota.
    apply synErr_wrapF. unfold pkd. apply parse_decimal_nofrac_syn; assumption.
  - rewrite rest_pkd. cbn [hd]. change (46 =? 46) with true. cbv iota.
    apply synErr_wrapF. unfold pkd. apply parse_decimal_nofrac_syn; assumption.
  - rewrite rest_pkd. cbn [hd]. change (46 =? 46) with true. cbv iota.
    apply synErr_wrapF. unfold pkd. rewrite discard_mk. cbn [tl]. apply parse_long_decimal_nofrac_syn; assumption.
Qed.

(* exponents: e, optional sign, then r2 which does not start with a digit *)
Lemma exp_bad_shape l : is_e (hd 0 l) = true -> exp_bad l ->
  exists e sg r2, l = e :: sgl sg ++ r2 /\ is_e e = true /\ sg_ok sg /\ nd r2 /\
                  (sg = None -> (hd 0 r2 =? 43) || (hd 0 r2 =? 45) = false).
Proof.
  intros He Hb. destruct l as [|e r1]; [discriminate He|]. cbn [hd] in He.
  unfold exp_bad in Hb. cbv zeta in Hb. cbn [tl] in Hb.
  destruct ((hd 0 r1 =? 43) || (hd 0 r1 =? 45)) eqn:Hs.
  - destruct r1 as [|c r2]; [discriminate Hs|]. cbn [hd] in Hs. cbn [tl] in Hb.
    exists e, (Some c), r2. split; [reflexivity|]. split; [exact He|]. split; [exact Hs|]. split; [exact Hb|discriminate].
  - exists e, None, r1. split; [reflexivity|]. split; [exact He|]. split; [exact I|]. split; [exact Hb|]. intros _. exact Hs.
Qed.

Lemma exp_core_syn pe r o p d : nd r -> r <> [] -> synErr (exp_core E pe (mkSt r o p d)).
Proof.
  intros Hr Hne. destruct r as [|c r]; [congruence|]. unfold exp_core. rewrite (next_cons E). cbn [bind]. cbv beta iota.
  unfold nd in Hr. cbn [hd] in Hr. rewrite Hr. apply synErr_invalid.
Qed.

Lemma exponent_front_syn e sg r2 o p d : sg_ok sg -> nd r2 -> r2 <> [] ->
  (sg = None -> (hd 0 r2 =? 43) || (hd 0 r2 =? 45) = false) ->
  synErr (exponent_front E (mkSt (e :: sgl sg ++ r2) o p d)).
Proof.
  intros Hsg Hr Hne Hns. rewrite (exponent_front_unfold E). rewrite discard_mk. cbn [tl].
  rewrite (peek_or_null_mk E HE). cbn [bind]. cbv beta iota.
  destruct sg as [c|]; cbn [sgl app hd].
  - cbn [sg_ok] in Hsg. unfold pkd. rewrite discard_mk. cbn [tl].
    destruct (c =? 43); [apply exp_core_syn; assumption|].
    cbn [orb] in Hsg. rewrite Hsg. apply exp_core_syn; assumption.
  - specialize (Hns eq_refl). apply orb_false_elim in Hns as [H43 H45]. rewrite H43, H45.
    unfold pkd. apply exp_core_syn; assumption.
Qed.

Lemma k2_exp_syn positive k e sg r2 off d : is_e e = true -> sg_ok sg -> nd r2 -> r2 <> [] ->
  (sg = None -> (hd 0 r2 =? 43) || (hd 0 r2 =? 45) = false) ->
  synErr (run_k2 E positive k (pkd (e :: sgl sg ++ r2) off d)).
Proof.
  intros He Hsg Hr Hne Hns. destruct k as [sg0 e0|i f]; unfold run_k2; cbv zeta; rewrite rest_pkd; cbn [hd]; rewrite He.
  - rewrite (parse_exponent_eq E). unfold after_exp. apply synErr_bind. unfold pkd. apply exponent_front_syn; assumption.
  - rewrite (parse_long_exponent_eq E). unfold after_exp. apply synErr_bind. unfold pkd. apply exponent_front_syn; assumption.
Qed.

(* the scan_* family *)
Lemma scan_integer_noint_syn l o p d : nd l -> l <> [] -> synErr (scan_integer E (mkSt l o p d)).
Proof.
  intros Hl Hne. destruct l as [|c l]; [congruence|]. unfold scan_integer.
  rewrite (scan_or_eof_cons E). cbn [bind]. cbv beta iota. unfold nd in Hl. cbn [hd] in Hl.
  assert (H48 : (c =? 48) = false) by (unfold is_digit in Hl; lia).
  assert (H19 : is_digit19 c = false) by (unfold is_digit, is_digit19 in *; lia).
  rewrite H48, H19. apply synErr_invalid.
Qed.

Lemma scan_integer_lead0_syn r o p d : is_digit (hd 0 r) = true -> synErr (scan_integer E (mkSt (48 :: r) o p d)).
Proof.
  intros Hr. unfold scan_integer. rewrite (scan_or_eof_cons E). cbn [bind]. cbv beta iota.
  change (48 =? 48) with true. cbv iota. rewrite (peek_or_null_mk E HE). cbn [bind]. cbv beta iota. rewrite Hr.
  apply synErr_invalid.
Qed.

Lemma scan_decimal_nofrac_syn r o p d : nd r -> r <> [] -> synErr (scan_decimal E (mkSt (46 :: r) o p d)).
Proof.
  intros Hr Hne. unfold scan_decimal. rewrite discard_mk. cbn [tl rest]. cbv zeta.
  rewrite (span_nd r Hr), advance_mk, (peek_or_null_mk E HE). cbn [bind]. cbv beta iota. cbn [Nat.eqb].
  unfold pkd. cbn [skipn]. apply peek_some_invalid, Hne.
Qed.

Lemma scan_core_syn e0 sgn r o p d : nd r -> r <> [] -> synErr (scan_core E e0 sgn (mkSt r o p d)).
Proof.
  intros Hr Hne. destruct r as [|c r]; [congruence|]. unfold scan_core. rewrite (scan_or_eof_cons E). cbn [bind]. cbv beta iota.
  unfold nd in Hr. cbn [hd] in Hr. rewrite Hr. apply synErr_invalid.
Qed.

Lemma scan_exponent_syn e0 e sg r2 o p d : sg_ok sg -> nd r2 -> r2 <> [] ->
  (sg = None -> (hd 0 r2 =? 43) || (hd 0 r2 =? 45) = false) ->
  synErr (scan_exponent E e0 (mkSt (e :: sgl sg ++ r2) o p d)).
Proof.
  intros Hsg Hr Hne Hns. rewrite (scan_exponent_unfold E). rewrite discard_mk. cbn [tl].
  rewrite (peek_or_null_mk E HE). cbn [bind]. cbv beta iota.
  destruct sg as [c|]; cbn [sgl app hd].
  - cbn [sg_ok] in Hsg. unfold pkd. rewrite discard_mk. cbn [tl].
    destruct (c =? 43); [apply scan_core_syn; assumption|].
    cbn [orb] in Hsg. rewrite Hsg. apply scan_core_syn; assumption.
  - specialize (Hns eq_refl). apply orb_false_elim in Hns as [H43 H45]. rewrite H43, H45.
    unfold pkd. apply scan_core_syn; assumption.
Qed.

(* ---- the universal completion: a negative exponent that overflows i32 ------------------------ *)
Definition nines9 : bytes := [57; 57; 57; 57; 57; 57; 57; 57; 57].
Definition nines10 : bytes := 57 :: nines9.

Lemma after_exp_negovf positive z K e off p d :
  exists f s', after_exp E positive z K (mkSt (e :: 45 :: nines10) off p d) = Ok (f, s').
Proof.
  unfold after_exp.
  pose proof (exponent_front_good E HE e (Some 45) 57 nines9 [] off p d eq_refl eq_refl eq_refl eq_refl) as Hf.
  rewrite app_nil_r in Hf. cbn [sgl app] in Hf. change (57 :: nines9) with nines10 in Hf. rewrite Hf.
  replace (exp_loop nines9 (digit_val 57)) with (9%nat, 999999999, true) by (vm_compute; reflexivity).
  cbn [bind]. cbv beta iota. unfold parse_exponent_overflow. cbn [pexp negb N.eqb Pos.eqb].
  rewrite andb_false_r. cbn [skipn nines9 app].
  rewrite (skip_digits_mk E HE [] [] _ _ _ eq_refl eq_refl). cbn [bind]. eauto.
Qed.

Lemma k2_negovf positive k e off d : is_e e = true ->
  exists f s', run_k2 E positive k (pkd (e :: 45 :: nines10) off d) = Ok (f, s').
Proof.
  intros He. destruct k as [sg0 e0|i f]; unfold run_k2; cbv zeta; rewrite rest_pkd; cbn [hd]; rewrite He.
  - rewrite (parse_exponent_eq E). unfold pkd. apply after_exp_negovf.
  - rewrite (parse_long_exponent_eq E). unfold pkd. apply after_exp_negovf.
Qed.

Lemma nd_e' e r : is_e e = true -> nd (e :: r).
Proof. intros H. unfold nd. cbn [hd]. unfold is_digit. lia. Qed.

Lemma eval_int_exp positive int e : int_ok int = true -> is_e e = true ->
  exists p s', parse_integer E positive (init_st (int ++ e :: 45 :: nines10)) = Ok (p, s').
Proof.
  intros Hint He. destruct (parse_integer_good E HE positive int Hint) as (k & Hk & Hrun).
  unfold init_st. rewrite (Hrun _ _ _ _ (nd_e' e _ He)).
  rewrite (k1_exp E HE) by (cbn [hd]; exact He).
  destruct (k2_negovf positive (k2_of k) e (0 + length int) DEPTH0 He) as (f & s' & ->).
  cbn [wrapF bind]. eauto.
Qed.

Lemma eval_int_frac_exp positive int ds e : int_ok int = true -> digs ds -> ds <> [] -> is_e e = true ->
  exists p s', parse_integer E positive (init_st (int ++ 46 :: ds ++ e :: 45 :: nines10)) = Ok (p, s').
Proof.
  intros Hint Hd Hne He. destruct (parse_integer_good E HE positive int Hint) as (k & Hk & Hrun).
  unfold init_st. rewrite (Hrun _ _ _ _ (nd_dot _)).
  destruct (k1_dec E HE positive k ds Hk Hd Hne) as (k' & Hk' & Hrun2).
  rewrite (Hrun2 _ _ _ (nd_e' e _ He)).
  destruct (k2_negovf positive k' e (0 + length int + S (length ds)) DEPTH0 He) as (f & s' & ->).
  cbn [wrapF bind]. eauto.
Qed.

(* ---- definedness of the completed literal ------------------------------------------------------ *)
Definition accepted (positive : bool) (n : numlit) : Prop :=
  exists p s', parse_any_number E positive (init_st (render_abs n)) = Ok (p, s').

Lemma accepted_ap positive n : arbitrary_precision cf = true -> num_ok n = true -> accepted positive n.
Proof.
  intros Hap Hok. destruct (number_ap_verbatim E positive n HE Hap Hok) as (p & s' & H & _). exists p, s'. exact H.
Qed.

Lemma pan_noap positive s : arbitrary_precision cf = false -> parse_any_number E positive s = parse_integer E positive s.
Proof. intros Hap. unfold parse_any_number. cbn [Read.cf]. rewrite Hap. reflexivity. Qed.

(* a literal is accepted or out of range *)
Lemma accepted_or_range positive n : num_ok n = true ->
  accepted positive n \/ exists j, parse_any_number E positive (init_st (render_abs n)) = Err NumberOutOfRange j.
Proof.
  intros Hok. destruct (parse_any_number_recognizer E HE positive) as (Hg & _). destruct (Hg n Hok) as (o & Ho).
  pose proof (Ho [] 0%nat false DEPTH0 (fw_nil n)) as Hiso. rewrite app_nil_r in Hiso.
  change (mkSt (render_abs n) 0 false DEPTH0) with (init_st (render_abs n)) in Hiso.
  destruct o as [p|]; cbn [fin] in Hiso.
  - left. exists p. eexists. exact Hiso.
  - right. exact Hiso.
Qed.

Lemma zero_accepted positive : accepted positive (mkNum (negb positive) [48] None None).
Proof.
  unfold accepted. destruct cf as [po fr ap ld]. destruct positive, fr, ap; vm_compute; eauto.
Qed.

Lemma digs48 : digs [48] /\ [48] <> ([] : bytes).
Proof. split; [reflexivity|discriminate]. Qed.

Lemma exp_wf_neg e : is_e e = true -> exp_wf (Some (e, Some 45, nines10)).
Proof. intros He. cbn [exp_wf]. split; [exact He|]. split; [reflexivity|]. exists 57, nines9. repeat split. Qed.
Lemma exp_wf_plus0 e : is_e e = true -> exp_wf (Some (e, Some 43, [48])).
Proof. intros He. cbn [exp_wf]. split; [exact He|]. split; [reflexivity|]. exists 48, []. repeat split. Qed.

(* ---- the statement --------------------------------------------------------------------------------- *)
(* completing  l = int [. ds] e [sign]  (the exponent part is what remains after the mantissa [m]) *)
Lemma exp_tail_complete positive (m : bytes) (int : bytes) (f : option bytes) e sg :
  int_ok int = true -> frac_wf f -> m = int ++ fracl f -> is_e e = true -> sg_ok sg ->
  (forall e', is_e e' = true -> exists p s', parse_integer E positive (init_st (m ++ e' :: 45 :: nines10)) = Ok (p, s')) ->
  exists t n, num_ok n = true /\ nneg n = negb positive /\ (m ++ e :: sgl sg) ++ t = render_abs n /\
              (HRnum cf (m ++ e :: sgl sg) -> accepted positive n).
Proof.
  intros Hint Hf -> He Hsg Heval.
  assert (Hneg : forall t, (sg = None /\ t = 45 :: nines10) \/ (sg = Some 45 /\ t = nines10) ->
     exists n, num_ok n = true /\ nneg n = negb positive /\
               ((int ++ fracl f) ++ e :: sgl sg) ++ t = render_abs n /\ accepted positive n).
  { intros t Ht. exists (mkNum (negb positive) int f (Some (e, Some 45, nines10))).
    split; [apply num_ok_intro; [exact Hint|exact Hf|apply exp_wf_neg, He]|]. split; [reflexivity|].
    assert (Hren : ((int ++ fracl f) ++ e :: sgl sg) ++ t = (int ++ fracl f) ++ e :: 45 :: nines10).
    { destruct Ht as [[-> ->]|[-> ->]]; cbn [sgl app]; rewrite <- !app_assoc; reflexivity. }
    split.
    - rewrite Hren, render_abs_eq. cbn [nint nfrac nexp expl sgl app]. rewrite <- app_assoc. reflexivity.
    - destruct (arbitrary_precision cf) eqn:Hap.
      + apply accepted_ap; [exact Hap|]. apply num_ok_intro; [exact Hint|exact Hf|apply exp_wf_neg, He].
      + unfold accepted. rewrite (pan_noap _ _ Hap), render_abs_eq. cbn [nint nfrac nexp expl sgl app].
        rewrite app_assoc. apply Heval, He. }
  destruct sg as [c|].
  2:{ destruct (Hneg (45 :: nines10)) as (n & H1 & H2 & H3 & H4); [left; auto|]. exists (45 :: nines10), n. auto. }
  cbn [sg_ok] in Hsg. destruct (N.eqb_spec c 45) as [->|Hc45].
  { destruct (Hneg nines10) as (n & H1 & H2 & H3 & H4); [right; auto|]. exists nines10, n. auto. }
  assert (c = 43) by lia. subst c.
  (* e+ : only a digit can follow *)
  set (n := mkNum (negb positive) int f (Some (e, Some 43, [48]))).
  assert (Hok : num_ok n = true) by (apply num_ok_intro; [exact Hint|exact Hf|apply exp_wf_plus0, He]).
  assert (Hren : ((int ++ fracl f) ++ e :: sgl (Some 43)) ++ [48] = render_abs n).
  { rewrite render_abs_eq. cbn [n nint nfrac nexp expl sgl app]. rewrite <- !app_assoc. reflexivity. }
  exists [48], n. split; [exact Hok|]. split; [reflexivity|]. split; [exact Hren|].
  intros [Hap|Hnb]; [apply accepted_ap; assumption|].
  destruct (accepted_or_range positive n Hok) as [Ha|(j & Hj)]; [exact Ha|].
  exfalso. apply Hnb. exists [], ((int ++ fracl f) ++ e :: sgl (Some 43)), positive, j.
  split; [reflexivity|]. split.
  - exists (int ++ fracl f), e. cbn [sgl]. split; [reflexivity|exact He].
  - rewrite Hren. exact Hj.
Qed.

Theorem number_eof_viable : forall positive s c i,
  parse_any_number E positive s = Err c i -> category c = CatEof ->
  exists t n, num_ok n = true /\ nneg n = negb positive /\ rest s ++ t = render_abs n /\
              (HRnum cf (rest s) -> accepted positive n).
Proof.
  intros positive [l o p d] c i H Hc. cbn [rest].
  destruct (num_shape_total (negb positive) l) as [Hbad|(n & r & Hneg & Hok & -> & Hfw)].
  2:{ (* a complete literal: the run ends with Ok or NumberOutOfRange *)
      exfalso. destruct (parse_any_number_recognizer E HE positive) as (Hg & _). destruct (Hg n Hok) as (o' & Ho).
      specialize (Ho r o p d Hfw). destruct o' as [p'|]; cbn [fin] in Ho.
      - rewrite Ho in H. discriminate H.
      - destruct Ho as [j Hj]. rewrite Hj in H. injection H as <- _. discriminate Hc. }
  assert (Hsyn : forall X, (arbitrary_precision cf = false -> synErr (parse_integer E positive (mkSt l o p d))) ->
                           (arbitrary_precision cf = true -> synErr (scan_integer E (mkSt l o p d))) -> X).
  { intros X H1 H2. exfalso. unfold parse_any_number in H. cbn [Read.cf] in H.
    destruct (arbitrary_precision cf) eqn:Hap.
    - specialize (H2 eq_refl). apply bind_err in H as [H|([buf s1] & Hs & H)].
      + exact (synErr_not _ _ _ H2 H Hc).
      + rewrite Hs in H2. exact H2.
    - exact (synErr_not _ _ _ (H1 eq_refl) H Hc). }
  destruct Hbad as [l Hl|r Hr|int r Hint Hr|int r Hint He Hb|int ds r Hint Hd Hne He Hb].
  - (* no digit at all *)
    destruct l as [|x l'].
    2:{ apply Hsyn; intros _; [apply parse_integer_noint_syn|apply scan_integer_noint_syn]; (exact Hl || discriminate). }
    exists [48], (mkNum (negb positive) [48] None None). split; [reflexivity|]. split; [reflexivity|].
    split; [reflexivity|]. intros _. apply zero_accepted.
  - (* leading zero *)
    apply Hsyn; intros _; [apply parse_integer_lead0_syn|apply scan_integer_lead0_syn]; exact Hr.
  - (* int "." without a fraction digit *)
    destruct r as [|x r'].
    2:{ apply Hsyn; intros _.
        - destruct (parse_integer_good E HE positive int Hint) as (k & Hk & Hrun).
          rewrite (Hrun _ o p d (nd_dot _)). apply k1_nofrac_syn; [exact Hr|discriminate].
        - rewrite (scan_integer_good E HE _ _ o p d Hint (nd_dot _)). apply synErr_bind.
          rewrite (scan_number_unfold E HE). cbv zeta. cbn [hd]. change (46 =? 46) with true. cbv iota.
          unfold pkd. apply scan_decimal_nofrac_syn; [exact Hr|discriminate]. }
    set (n := mkNum (negb positive) int (Some [48]) (Some (101, Some 45, nines10))).
    assert (Hok : num_ok n = true).
    { apply num_ok_intro; [exact Hint|exact digs48|apply exp_wf_neg; reflexivity]. }
    exists (48 :: 101 :: 45 :: nines10), n. split; [exact Hok|]. split; [reflexivity|]. split.
    { rewrite render_abs_eq. cbn [n nint nfrac nexp fracl expl sgl app]. rewrite <- app_assoc. reflexivity. }
    intros _. destruct (arbitrary_precision cf) eqn:Hap; [apply accepted_ap; assumption|].
    unfold accepted. rewrite (pan_noap _ _ Hap), render_abs_eq. cbn [n nint nfrac nexp fracl expl sgl app].
    apply (eval_int_frac_exp positive int [48] 101 Hint); [reflexivity|discriminate|reflexivity].
  - (* int e [sign] *)
    destruct (exp_bad_shape r He Hb) as (e & sg & r2 & -> & He' & Hsg & Hr2 & Hns).
    destruct r2 as [|x r2'].
    2:{ apply Hsyn; intros _.
        - destruct (parse_integer_good E HE positive int Hint) as (k & Hk & Hrun).
          rewrite (Hrun _ o p d (nd_e' e _ He')). rewrite (k1_exp E HE) by (cbn [hd]; exact He').
          apply synErr_wrapF, k2_exp_syn; try assumption; discriminate.
        - rewrite (scan_integer_good E HE _ _ o p d Hint (nd_e' e _ He')). apply synErr_bind.
          rewrite (scan_number_unfold E HE). cbv zeta. cbn [hd]. rewrite (e_not_dot e He'), He'.
          unfold pkd. apply scan_exponent_syn; try assumption; discriminate. }
    rewrite app_nil_r.
    destruct (exp_tail_complete positive int int None e sg Hint I) as (t & n & H1 & H2 & H3 & H4);
      [cbn [fracl]; rewrite app_nil_r; reflexivity|exact He'|exact Hsg| |].
    { intros e' He2. apply eval_int_exp; assumption. }
    exists t, n. auto.
  - (* int "." ds e [sign] *)
    destruct (exp_bad_shape r He Hb) as (e & sg & r2 & -> & He' & Hsg & Hr2 & Hns).
    destruct r2 as [|x r2'].
    2:{ apply Hsyn; intros _.
        - destruct (parse_integer_good E HE positive int Hint) as (k & Hk & Hrun).
          rewrite (Hrun _ o p d (nd_dot _)).
          destruct (k1_dec E HE positive k ds Hk Hd Hne) as (k' & Hk' & Hrun2).
          rewrite (Hrun2 _ _ d (nd_e' e _ He')).
          apply synErr_wrapF, k2_exp_syn; try assumption; discriminate.
        - rewrite (scan_integer_good E HE _ _ o p d Hint (nd_dot _)). apply synErr_bind.
          rewrite (scan_number_unfold E HE). cbv zeta. cbn [hd]. change (46 =? 46) with true. cbv iota. unfold pkd at 1.
          rewrite (scan_decimal_good E HE ds _ _ _ d Hd Hne (nd_e' e _ He')). cbn [hd]. rewrite He'.
          apply synErr_bind. unfold pkd. apply scan_exponent_syn; try assumption; discriminate. }
    rewrite app_nil_r.
    destruct (exp_tail_complete positive (int ++ 46 :: ds) int (Some ds) e sg Hint (conj Hd Hne)) as (t & n & H1 & H2 & H3 & H4);
      [reflexivity|exact He'|exact Hsg| |].
    { intros e' He2. rewrite <- app_assoc. cbn [app]. apply eval_int_frac_exp; assumption. }
    exists t, n. rewrite <- app_assoc in H4. cbn [app] in H4.
    split; [exact H1|]. split; [exact H2|]. split; [|exact H4]. rewrite <- H3.
    repeat (rewrite <- ?app_assoc; cbn [app]). reflexivity.
Qed.

End Num.
