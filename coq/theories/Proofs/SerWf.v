(* Proofs/SerWf.v — the syntax tree the serialiser prints is well-formed RFC 8259 syntax without insignificant
   whitespace: [wfb (cst_of v)] and [nows (cst_of v)].  Needs of the float texts only that they are JSON numbers (H1). *)
From SJ Require Import Base.Bytes Base.Utf8 Gen.Tables Model.Read Model.Num Model.Sval Model.Ser
  Spec.Syntax Spec.Denote Spec.Layout Proofs.SerUtf8 Proofs.SerBase Proofs.SerRender.
From Coq Require Import Lia ZifyBool ZifyN ZifyNat.
Open Scope N_scope.

(* ---- bytes of valid UTF-8 are bytes ------------------------------------------------------------------ *)
Lemma utf8_valid_bytes_gen (n : nat) : forall l : list N, (length l <= n)%nat ->
  utf8_valid l = true -> forallb is_byte l = true.
Proof.
  unfold is_byte.
  induction n as [|n IH]; intros l Hlen H.
  - destruct l; [reflexivity | cbn in Hlen; lia].
  - destruct l as [|b0 r0]; [reflexivity|]. rewrite utf8_valid_unfold in H. cbn [length] in Hlen.
    destruct (b0 <? 128) eqn:E0.
    { cbn [forallb]. rewrite (IH r0); [lia | lia | exact H]. }
    destruct r0 as [|b1 r1]; [discriminate|]. cbn [length] in Hlen.
    destruct (in_rng b0 194 223) eqn:E1.
    { apply andb_true_iff in H as [H1 H2]. cbn [forallb]. rewrite (IH r1); [|lia|exact H2]. unfold is_cont, in_rng in *. lia. }
    destruct r1 as [|b2 r2]; [discriminate|]. cbn [length] in Hlen.
    destruct (b0 =? 224) eqn:E2.
    { apply andb_true_iff in H as [H1 H2]. cbn [forallb]. rewrite (IH r2); [|lia|exact H2]. unfold is_cont, in_rng in *. lia. }
    destruct (in_rng b0 225 236 || in_rng b0 238 239) eqn:E3.
    { apply andb_true_iff in H as [H1 H2]. cbn [forallb]. rewrite (IH r2); [|lia|exact H2]. unfold is_cont, in_rng in *. lia. }
    destruct (b0 =? 237) eqn:E4.
    { apply andb_true_iff in H as [H1 H2]. cbn [forallb]. rewrite (IH r2); [|lia|exact H2]. unfold is_cont, in_rng in *. lia. }
    destruct r2 as [|b3 r3]; [discriminate|]. cbn [length] in Hlen.
    destruct (b0 =? 240) eqn:E5.
    { apply andb_true_iff in H as [H1 H2]. cbn [forallb]. rewrite (IH r3); [|lia|exact H2]. unfold is_cont, in_rng in *. lia. }
    destruct (in_rng b0 241 243) eqn:E6.
    { apply andb_true_iff in H as [H1 H2]. cbn [forallb]. rewrite (IH r3); [|lia|exact H2]. unfold is_cont, in_rng in *. lia. }
    destruct (b0 =? 244) eqn:E7.
    { apply andb_true_iff in H as [H1 H2]. cbn [forallb]. rewrite (IH r3); [|lia|exact H2]. unfold is_cont, in_rng in *. lia. }
    discriminate.
Qed.

Lemma utf8_valid_bytes (l : list N) : utf8_valid l = true -> forallb is_byte l = true.
Proof. apply (utf8_valid_bytes_gen (length l)). lia. Qed.

(* ---- string pieces -------------------------------------------------------------------------------------- *)
Lemma piece_of_ok (b : N) : b < 256 -> piece_ok (piece_of b) = true.
Proof. apply (all_bytes (fun b => piece_ok (piece_of b))). vm_compute. reflexivity. Qed.

Lemma pieces_of_ok (s : bytes) : forallb is_byte s = true -> str_ok (pieces_of s) = true.
Proof.
  unfold str_ok, pieces_of, is_byte. induction s as [|b r IH]; [reflexivity|]. cbn [forallb map]. intros H.
  apply andb_true_iff in H as [H1 H2]. rewrite piece_of_ok by lia. rewrite (IH H2). reflexivity.
Qed.

Definition rawok (b : N) : bool := negb (b =? 34) && negb (b =? 92) && (32 <=? b) && (b <? 256).
Lemma raw_pieces_ok (t : bytes) : forallb rawok t = true -> str_ok (raw_pieces t) = true.
Proof.
  unfold str_ok, raw_pieces. induction t as [|b r IH]; [reflexivity|]. cbn [forallb map piece_ok]. intros H.
  apply andb_true_iff in H as [H1 H2]. rewrite (IH H2). unfold rawok in H1. rewrite H1. reflexivity.
Qed.

Definition numchar (b : N) : bool := is_digit b || (b =? 45) || (b =? 43) || (b =? 46) || (b =? 101) || (b =? 69).
Lemma numchar_rawok b : numchar b = true -> rawok b = true.
Proof. unfold numchar, rawok, is_digit. lia. Qed.
Lemma digits_numchar l : forallb is_digit l = true -> forallb numchar l = true.
Proof. apply forallb_impl. intros x H. unfold numchar. rewrite H. reflexivity. Qed.

Lemma num_ok_numchars n : num_ok n = true -> forallb numchar (render_num n) = true.
Proof.
  unfold num_ok, render_num. intros H. apply andb_true_iff in H as [H H3]. apply andb_true_iff in H as [H1 H2].
  apply forallb_app'; [destruct (nneg n); reflexivity|].
  apply forallb_app'; [apply digits_numchar, int_ok_digits, H1|].
  apply forallb_app'.
  - destruct (nfrac n) as [f|]; [|reflexivity]. cbn [forallb]. rewrite (digits_numchar _ (digits_ok_digits _ H2)). reflexivity.
  - destruct (nexp n) as [[[e sg] ds]|]; [|reflexivity].
    apply andb_true_iff in H3 as [H3 H5]. apply andb_true_iff in H3 as [H3 H4].
    cbn [forallb]. apply andb_true_iff. split; [unfold numchar; lia|].
    apply forallb_app'; [destruct sg as [c|]; [cbn [forallb]; unfold numchar; lia | reflexivity]|].
    apply digits_numchar, digits_ok_digits, H5.
Qed.

Lemma number_text_rawok t : number_text_ok t = true -> forallb rawok t = true.
Proof.
  unfold number_text_ok. destruct (numlit_of_text t) as [n|] eqn:E; [|discriminate]. intros H.
  rewrite <- (numlit_of_text_render t n E). eapply forallb_impl; [apply numchar_rawok | apply num_ok_numchars, H].
Qed.

Lemma itoa_z_rawok z : forallb rawok (itoa_z z) = true.
Proof.
  unfold itoa_z. destruct (z <? 0)%Z; [cbn [forallb]; apply andb_true_iff; split; [reflexivity|]|];
    (eapply forallb_impl; [|apply itoa_digits]); intros x; unfold is_digit, rawok; lia.
Qed.

(* ---- itoa prints the minimal decimal spelling ------------------------------------------------------------- *)
Lemma dec_aux_shape (fuel : nat) : forall n acc, n < 10 ^ N.of_nat fuel -> (0 < fuel)%nat ->
  exists d r, dec_digits_aux fuel n acc = d :: r ++ acc /\ forallb is_digit r = true
              /\ (if n =? 0 then d = 48 /\ r = [] else is_digit19 d = true).
Proof.
  induction fuel as [|f IH]; intros n acc Hn Hf; [lia|]. cbn [dec_digits_aux].
  destruct (n <? 10) eqn:E.
  - exists (48 + n), []. split; [reflexivity|]. split; [reflexivity|].
    destruct (n =? 0) eqn:E0; [split; [lia | reflexivity] | unfold is_digit19; lia].
  - assert (Hq : n / 10 < 10 ^ N.of_nat f).
    { apply N.div_lt_upper_bound; [lia|]. rewrite Nnat.Nat2N.inj_succ, N.pow_succ_r' in Hn. lia. }
    assert (Hq1 : 1 <= n / 10) by (apply N.div_le_lower_bound; lia).
    assert (Hf' : (0 < f)%nat).
    { destruct f; [|lia]. cbn in Hq. lia. }
    destruct (IH (n / 10) ((48 + n mod 10) :: acc) Hq Hf') as [d [r [E1 [E2 E3]]]].
    exists d, (r ++ [48 + n mod 10]). split; [rewrite E1, <- app_assoc; reflexivity|]. split.
    + rewrite forallb_app, E2. cbn [forallb]. pose proof (N.mod_upper_bound n 10). unfold is_digit. lia.
    + destruct (n / 10 =? 0) eqn:Ez; [lia|]. destruct (n =? 0) eqn:E0; [lia | exact E3].
Qed.

Lemma itoa_int_ok (n : N) : n < 10 ^ 40 -> int_ok (itoa n) = true.
Proof.
  intros Hn. unfold itoa. destruct (dec_aux_shape 40 n [] Hn ltac:(lia)) as [d [r [E1 [E2 E3]]]].
  rewrite E1, app_nil_r. destruct (n =? 0).
  - destruct E3 as [-> ->]. reflexivity.
  - unfold int_ok. assert (Hd : d <> 48) by (unfold is_digit19 in E3; lia).
    destruct d as [|p]; [unfold is_digit19 in E3; lia|].
    rewrite E3, E2.
    do 6 (destruct p as [p|p|]; try reflexivity). exfalso. apply Hd. reflexivity.
Qed.

Lemma int_range_abs ty z : int_in_range ty z = true -> Z.to_N (if (z <? 0)%Z then - z else z) < 10 ^ 40.
Proof.
  unfold int_in_range. intros H. apply andb_true_iff in H as [H1 H2].
  assert (Hlo : (- 170141183460469231731687303715884105728 <= int_lo ty)%Z) by (destruct ty; cbn; lia).
  assert (Hhi : (int_hi ty <= 340282366920938463463374607431768211455)%Z) by (destruct ty; cbn; lia).
  change (10 ^ 40) with 10000000000000000000000000000000000000000.
  destruct (z <? 0)%Z eqn:E; lia.
Qed.

Lemma cint_wfb ty z : int_in_range ty z = true -> wfb (cint z) = true.
Proof.
  intros H. unfold cint. cbn [wfb]. unfold num_ok. cbn [nint nfrac nexp].
  rewrite (itoa_int_ok _ (int_range_abs ty z H)). reflexivity.
Qed.

Lemma cint_byte_wfb b : is_byte b = true -> wfb (cint (Z.of_N b)) = true.
Proof. unfold is_byte. intros H. apply (cint_wfb U8). unfold int_in_range. cbn [int_lo int_hi]. lia. Qed.

Lemma cnum_text_wfb t : number_text_ok t = true -> wfb (cnum_text t) = true.
Proof. unfold number_text_ok, cnum_text. destruct (numlit_of_text t); [auto | discriminate]. Qed.

(* ---- lists ------------------------------------------------------------------------------------------------ *)
Definition good (c : cst) : Prop := wfb c = true /\ nows c = true.

Lemma elems_good cs : Forall good cs -> wfb_elems (elems_of cs) = true /\ nows_elems (elems_of cs) = true.
Proof.
  induction 1 as [|c r [H1 H2] _ [IH1 IH2]]; [split; reflexivity|]. cbn [elems_of wfb_elems nows_elems ws_ok forallb emptyb].
  rewrite H1, H2, IH1, IH2. split; reflexivity.
Qed.
Lemma arr_good cs : Forall good cs -> good (CArr [] (elems_of cs)).
Proof. intros H. destruct (elems_good cs H) as [H1 H2]. unfold good. cbn [wfb nows ws_ok forallb emptyb]. rewrite H1, H2. auto. Qed.

Lemma members_good ms : Forall (fun kc => str_ok (fst kc) = true /\ good (snd kc)) ms ->
  wfb_members (members_of ms) = true /\ nows_members (members_of ms) = true.
Proof.
  induction 1 as [|[k c] r [Hk [H1 H2]] _ [IH1 IH2]]; [split; reflexivity|]. cbn [fst snd] in *.
  cbn [members_of wfb_members nows_members ws_ok forallb emptyb]. rewrite Hk, H1, H2, IH1, IH2. split; reflexivity.
Qed.
Lemma obj_good ms : Forall (fun kc => str_ok (fst kc) = true /\ good (snd kc)) ms -> good (CObj [] (members_of ms)).
Proof. intros H. destruct (members_good ms H) as [H1 H2]. unfold good. cbn [wfb nows ws_ok forallb emptyb]. rewrite H1, H2. auto. Qed.
Lemma variant_good n c : utf8_valid n = true -> good c -> good (variant_obj n c).
Proof.
  intros Hn Hc. unfold variant_obj. apply obj_good. constructor; [|constructor]. cbn [fst snd]. split; [|exact Hc].
  apply pieces_of_ok, utf8_valid_bytes, Hn.
Qed.

Lemma sequence_Forall {A B} (f : A -> option B) (Q : B -> Prop) (l : list A) (r : list B) :
  Forall (fun a => forall b, f a = Some b -> Q b) l -> sequence (map f l) = Some r -> Forall Q r.
Proof.
  intros H. revert r. induction H as [|a l Ha _ IH]; intros r E; cbn [map sequence] in E.
  - inversion E. constructor.
  - destruct (f a) as [b|] eqn:Eb; [|discriminate]. destruct (sequence (map f l)) as [r'|]; [|discriminate].
    inversion E. subst. constructor; [apply Ha; reflexivity | apply IH; reflexivity].
Qed.

Section Wf.
  Variable cf : cfg.
  Variable fmt32 fmt64 : N -> bytes.
  (* H1: ryu prints JSON numbers *)
  Hypothesis H32 : forall b, f32_finite_bits b = true -> number_text_ok (fmt32 b) = true.
  Hypothesis H64 : forall b, f64_finite_bits b = true -> number_text_ok (fmt64 b) = true.
  Notation cst_of := (cst_of cf fmt32 fmt64).
  Notation key_pieces := (key_pieces fmt32 fmt64).

  Lemma key_pieces_ok : forall k p, wfs k = true -> key_pieces k = Some p -> str_ok p = true.
  Proof.
    induction k using sval_ind'; intros p W E; cbn [key_pieces] in E; cbn [wfs] in W; try discriminate.
    - inversion E. apply raw_pieces_ok. destruct b; reflexivity.
    - inversion E. apply raw_pieces_ok, itoa_z_rawok.
    - destruct (f32_finite_bits b) eqn:Ef; [|discriminate]. inversion E. apply raw_pieces_ok, number_text_rawok, H32, Ef.
    - destruct (f64_finite_bits b) eqn:Ef; [|discriminate]. inversion E. apply raw_pieces_ok, number_text_rawok, H64, Ef.
    - inversion E. apply pieces_of_ok, utf8_valid_bytes, utf8_encode_valid, W.
    - inversion E. apply pieces_of_ok, utf8_valid_bytes, W.
    - apply IHk; assumption.
    - inversion E. apply pieces_of_ok, utf8_valid_bytes, W.
    - apply IHk; assumption.
    - inversion E. apply pieces_of_ok, utf8_valid_bytes. apply utf8_valid_concat. apply forallb_Forall. exact W.
  Qed.

  Definition Q (v : sval) : Prop := wfs v = true -> forall c, cst_of v = Some c -> good c.

  Lemma Q_elems es cs : Forall Q es -> forallb wfs es = true -> sequence (map cst_of es) = Some cs -> Forall good cs.
  Proof.
    intros H W. apply sequence_Forall. rewrite Forall_forall in *. rewrite forallb_forall in W.
    intros e He c Ec. exact (H e He (W e He) c Ec).
  Qed.

  Lemma Q_fields (fs : list (bytes * sval)) ms : Forall (fun kv => Q (snd kv)) fs ->
    forallb (fun kv => utf8_valid (fst kv) && wfs (snd kv)) fs = true ->
    sequence (map (fun kv => pair_opt (Some (pieces_of (fst kv))) (cst_of (snd kv))) fs) = Some ms ->
    Forall (fun kc => str_ok (fst kc) = true /\ good (snd kc)) ms.
  Proof.
    intros H W. apply sequence_Forall. rewrite Forall_forall in *. rewrite forallb_forall in W.
    intros kv Hkv [p c] E. specialize (W kv Hkv). apply andb_true_iff in W as [Wk Wv].
    cbn [pair_opt] in E. destruct (cst_of (snd kv)) as [c'|] eqn:Ec; [|discriminate]. inversion E. subst. cbn [fst snd].
    split; [apply pieces_of_ok, utf8_valid_bytes, Wk | exact (H kv Hkv Wv c Ec)].
  Qed.

  Theorem cst_of_good : forall v, Q v.
  Proof.
    induction v using sval_ind'; unfold Q; intros W c0 E; cbn [cst_of] in E; cbn [wfs] in W.
    - inversion E. destruct b; split; reflexivity.
    - inversion E. split; [apply (cint_wfb ty z W) | reflexivity].
    - inversion E. destruct (f32_finite_bits b) eqn:Ef; [|split; reflexivity].
      split; [apply cnum_text_wfb, H32, Ef | reflexivity].
    - inversion E. destruct (f64_finite_bits b) eqn:Ef; [|split; reflexivity].
      split; [apply cnum_text_wfb, H64, Ef | reflexivity].
    - inversion E. split; [|reflexivity]. cbn [wfb]. apply pieces_of_ok, utf8_valid_bytes, utf8_encode_valid, W.
    - inversion E. split; [|reflexivity]. cbn [wfb]. apply pieces_of_ok, utf8_valid_bytes, W.
    - inversion E. apply arr_good. apply Forall_map. apply forallb_Forall in W. eapply Forall_impl; [|exact W].
      intros b Hb. split; [apply cint_byte_wfb, Hb | reflexivity].
    - inversion E. split; reflexivity.
    - exact (IHv W c0 E).
    - inversion E. split; reflexivity.
    - inversion E. split; reflexivity.
    - inversion E. split; [|reflexivity]. cbn [wfb]. apply pieces_of_ok, utf8_valid_bytes, W.
    - exact (IHv W c0 E).
    - apply andb_true_iff in W as [Wn W]. destruct (cst_of v) as [c|] eqn:Ec; [|discriminate]. inversion E.
      apply variant_good; [exact Wn | exact (IHv W c Ec)].
    - apply andb_true_iff in W as [_ W]. destruct (sequence (map cst_of es)) as [cs|] eqn:Es; [|discriminate]. inversion E.
      apply arr_good, (Q_elems es cs H W Es).
    - destruct (sequence (map cst_of es)) as [cs|] eqn:Es; [|discriminate]. inversion E. apply arr_good, (Q_elems es cs H W Es).
    - destruct (sequence (map cst_of es)) as [cs|] eqn:Es; [|discriminate]. inversion E. apply arr_good, (Q_elems es cs H W Es).
    - apply andb_true_iff in W as [Wn W]. destruct (sequence (map cst_of es)) as [cs|] eqn:Es; [|discriminate]. inversion E.
      apply variant_good; [exact Wn | apply arr_good, (Q_elems es cs H W Es)].
    - apply andb_true_iff in W as [_ W].
      destruct (sequence (map (fun kv => pair_opt (key_pieces (fst kv)) (cst_of (snd kv))) kvs)) as [ms|] eqn:Es; [|discriminate].
      inversion E. apply obj_good. revert Es. apply sequence_Forall.
      rewrite Forall_forall in *. rewrite forallb_forall in W. intros kv Hkv [p c] Ep.
      specialize (W kv Hkv). apply andb_true_iff in W as [Wk Wv]. cbn [fst snd].
      destruct (key_pieces (fst kv)) as [p'|] eqn:Ek; [|discriminate]. destruct (cst_of (snd kv)) as [c'|] eqn:Ec; [|discriminate].
      inversion Ep. subst. split; [apply (key_pieces_ok _ _ Wk Ek) | exact (proj2 (H kv Hkv) Wv c Ec)].
    - destruct (sequence (map (fun kv => pair_opt (Some (pieces_of (fst kv))) (cst_of (snd kv))) fs)) as [ms|] eqn:Es; [|discriminate].
      inversion E. apply obj_good, (Q_fields fs ms H W Es).
    - apply andb_true_iff in W as [Wn W].
      destruct (sequence (map (fun kv => pair_opt (Some (pieces_of (fst kv))) (cst_of (snd kv))) fs)) as [ms|] eqn:Es; [|discriminate].
      inversion E. apply variant_good; [exact Wn | apply obj_good, (Q_fields fs ms H W Es)].
    - inversion E. split; [|reflexivity]. cbn [wfb]. apply pieces_of_ok, utf8_valid_bytes, utf8_valid_concat, forallb_Forall, W.
    - destruct (arbitrary_precision cf).
      + inversion E. split; [apply cnum_text_wfb, W | reflexivity].
      + inversion E. apply (obj_good [(pieces_of NUMBER_TOKEN, CStr (pieces_of l))]). constructor; [|constructor]. cbn [fst snd]. split; [reflexivity|].
        split; [|reflexivity]. cbn [wfb]. apply pieces_of_ok, utf8_valid_bytes, forallb_ascii_utf8, number_text_ascii, W.
  Qed.

  Theorem C03_wf_nows v c : wfs v = true -> cst_of v = Some c -> wfb c = true /\ nows c = true.
  Proof. intros W E. exact (cst_of_good v W c E). Qed.
End Wf.

Print Assumptions C03_wf_nows.
