(* Proofs/GrammarValueSound.v — soundness of the Value parser w.r.t. the RFC 8259 printer:
   every successful run of parse_value / parse_seq / parse_map consumed exactly the rendering of a
   well-formed syntax tree (after whitespace) and returned its denotation.
   Induction on fuel, mutual for the three functions.  The string and number layers enter as
   Section hypotheses (proved by other files). *)
From SJ Require Import Base.Bytes Base.Utf8 Base.FloatB Gen.Tables Model.Read Model.Str Model.Num Model.Value Model.De
  Spec.Syntax Spec.Denote Proofs.GrammarValueBase.
Require Import Lia ZifyBool ZifyNat ZifyN.
Open Scope N_scope.

Section Sound.
  Variable cf : cfg.
  Let E := mkEnv RSlice TEof cf.
  Let P256 := fun x : N => (x < 256)%N.

  Hypothesis Hstr_sound : forall s0 b bw s1, Forall (fun x => (x < 256)%N) (rest s0) -> parse_str E s0 = Ok (b, bw, s1) ->
    exists s, rest s0 = flat_map render_piece s ++ 34 :: rest s1 /\ str_ok s = true /\ str_text s = Some b
           /\ off s1 = (off s0 + length (flat_map render_piece s) + 1)%nat /\ pk s1 = false /\ depth s1 = depth s0.
  Hypothesis Hnum_sound : forall positive s0 p s1, parse_any_number E positive s0 = Ok (p, s1) ->
    exists n, num_ok n = true /\ nneg n = negb positive /\ rest s0 = render_abs n ++ rest s1
          /\ off s1 = (off s0 + length (render_abs n))%nat /\ depth s1 = depth s0
          /\ pk s1 = (match rest s1 with [] => false | _ => true end)
          /\ exists s', parse_any_number E positive (init_st (render_abs n)) = Ok (p, s').

  (* ---- statements ---- *)
  Definition sound_value (fuel : nat) : Prop := forall s v s',
    parse_value fuel E s = Ok (v, s') -> Forall P256 (rest s) ->
    exists c, skipws (rest s) = render c ++ rest s' /\ wfb c = true /\ denote cf c = Some v
              /\ sdepth cf (cdepth c) (depth s) /\ depth s' = depth s.

  (* parse_seq stops in front of the whitespace preceding the closing bracket, which it does not consume *)
  Definition sound_seq (fuel : nat) : Prop := forall first s vs s',
    parse_seq fuel E first s = Ok (vs, s') -> Forall P256 (rest s) ->
    depth s' = depth s /\
    forall wl rst, ws_ok wl = true -> rest s' = wl ++ 93 :: rst ->
    exists wp es, ws_ok wp = true /\ rest s = seq_text first wp es ++ 93 :: rst /\ wfb_elems es = true
                  /\ denote_elems cf es = Some vs /\ sdepth cf (cdepth_elems es) (depth s).

  Definition sound_map (fuel : nat) : Prop := forall first s vs s',
    parse_map fuel E first s = Ok (vs, s') -> Forall P256 (rest s) ->
    depth s' = depth s /\
    forall wl rst, ws_ok wl = true -> rest s' = wl ++ 125 :: rst ->
    exists wp ms, ws_ok wp = true /\ rest s = map_text first wp ms ++ 125 :: rst /\ wfb_members ms = true
                  /\ denote_members cf ms = Some vs /\ sdepth cf (cdepth_members ms) (depth s).

  (* ---- separators in front of an element / a key ---- *)
  Lemma hne_sep first s s1 : has_next_element E first s = Ok (Some s1) ->
    depth s1 = depth s /\ skipws (rest s1) = rest s1 /\
    exists wa w1, ws_ok wa = true /\ ws_ok w1 = true /\
                  rest s = (if first then [] else wa ++ [44]) ++ w1 ++ rest s1.
  Proof.
    intros H. apply hne_inv in H as (Hd & Hsk & Hf). split; [exact Hd|]. split; [exact Hsk|].
    destruct (skipws_split (rest s)) as (w & Hw & Hs). destruct first.
    - exists [], w. rewrite Hf. cbn [app]. auto.
    - destruct Hf as (r & Hr & Hr1). destruct (skipws_split r) as (w1 & Hw1 & Hs1).
      exists w, w1. split; [exact Hw|]. split; [exact Hw1|]. rewrite Hr1, <- Hs1. lnorm. rewrite <- Hr. exact Hs.
  Qed.

  Lemma hnk_sep first s s1 : has_next_key E first s = Ok (Some s1) ->
    depth s1 = depth s /\
    exists wa w1 r1, ws_ok wa = true /\ ws_ok w1 = true /\ rest s1 = 34 :: r1 /\
                     rest s = (if first then [] else wa ++ [44]) ++ w1 ++ 34 :: r1.
  Proof.
    intros H. apply hnk_inv in H as (Hd & r1 & Hs1 & Hf). split; [exact Hd|].
    destruct (skipws_split (rest s)) as (w & Hw & Hs). destruct first.
    - exists [], w, r1. cbn [app]. rewrite <- Hf. repeat split; auto; congruence.
    - destruct Hf as (r & Hr & Hr1). destruct (skipws_split r) as (w1 & Hw1 & Hs1').
      exists w, w1, r1. split; [exact Hw|]. split; [exact Hw1|]. split; [exact Hs1|].
      rewrite <- Hr1, <- Hs1'. lnorm. rewrite <- Hr. exact Hs.
  Qed.

  Lemma sdepth_max n m d : sdepth cf n d -> sdepth cf m d -> sdepth cf (Nat.max n m) d.
  Proof. unfold sdepth. intros H1 H2 Hl. specialize (H1 Hl). specialize (H2 Hl). lia. Qed.

  Lemma sdepth_0 d : sdepth cf 0 d.
  Proof. intros _. left. reflexivity. Qed.

  (* ---- the value step ---- *)
  Lemma sound_value_step f : sound_value f -> sound_seq f -> sound_map f -> sound_value (S f).
  Proof.
    intros IHv IHs IHm s v s' Hrun HF.
    destruct (parse_value_step cf f s) as (s1 & Hr1 & Hd1 & Heq). fold E in Heq. rewrite Heq in Hrun. clear Heq.
    destruct (rest s1) as [|b r] eqn:Hs1; [unfold peek_error in Hrun; discriminate|].
    symmetry in Hr1.
    assert (HFr : Forall P256 r).
    { destruct (skipws_split (rest s)) as (w & _ & Hw). rewrite Hw, Hr1 in HF.
      apply Forall_app_r in HF. now apply Forall_cons_r in HF. }
    unfold value_branch in Hrun. fold E in Hrun.
    (* null *)
    destruct (b =? 110) eqn:Hb.
    { apply N.eqb_eq in Hb. subst b. apply bind_ok in Hrun as (s2 & Hid & [= <- <-]).
      apply parse_ident_inv in Hid as [Hi1 Hi2]. rewrite discard_rest, Hs1 in Hi1. cbn [tl] in Hi1.
      rewrite discard_depth in Hi2. exists CNull. rewrite Hr1, Hi1.
      split; [reflexivity|]. split; [reflexivity|]. split; [reflexivity|]. split; [apply sdepth_0|congruence]. }
    clear Hb. destruct (b =? 116) eqn:Hb.
    { apply N.eqb_eq in Hb. subst b. apply bind_ok in Hrun as (s2 & Hid & [= <- <-]).
      apply parse_ident_inv in Hid as [Hi1 Hi2]. rewrite discard_rest, Hs1 in Hi1. cbn [tl] in Hi1.
      rewrite discard_depth in Hi2. exists CTrue. rewrite Hr1, Hi1.
      split; [reflexivity|]. split; [reflexivity|]. split; [reflexivity|]. split; [apply sdepth_0|congruence]. }
    clear Hb. destruct (b =? 102) eqn:Hb.
    { apply N.eqb_eq in Hb. subst b. apply bind_ok in Hrun as (s2 & Hid & [= <- <-]).
      apply parse_ident_inv in Hid as [Hi1 Hi2]. rewrite discard_rest, Hs1 in Hi1. cbn [tl] in Hi1.
      rewrite discard_depth in Hi2. exists CFalse. rewrite Hr1, Hi1.
      split; [reflexivity|]. split; [reflexivity|]. split; [reflexivity|]. split; [apply sdepth_0|congruence]. }
    (* negative number *)
    clear Hb. destruct (b =? 45) eqn:Hb.
    { apply N.eqb_eq in Hb. subst b. apply bind_ok in Hrun as ([p s2] & Hn & [= <- <-]).
      apply Hnum_sound in Hn as (n & Hok & Hneg & Hrest & _ & Hdep & _ & (s'' & Hiso)).
      rewrite discard_rest, Hs1 in Hrest. cbn [tl] in Hrest. rewrite discard_depth in Hdep. cbn [negb] in Hneg.
      exists (CNum n). cbn [render wfb denote cdepth]. rewrite render_num_abs, Hneg, Hr1, Hrest.
      split; [reflexivity|]. split; [exact Hok|]. split.
      - unfold num_den. rewrite Hneg. cbn [negb]. change (env0 cf) with E. rewrite Hiso. reflexivity.
      - split; [apply sdepth_0|congruence]. }
    (* positive number *)
    clear Hb. destruct (is_digit b) eqn:Hb.
    { apply bind_ok in Hrun as ([p s2] & Hn & [= <- <-]).
      apply Hnum_sound in Hn as (n & Hok & Hneg & Hrest & _ & Hdep & _ & (s'' & Hiso)).
      rewrite Hs1 in Hrest. cbn [negb] in Hneg.
      exists (CNum n). cbn [render wfb denote cdepth]. rewrite render_num_abs, Hneg, Hr1, Hrest.
      split; [reflexivity|]. split; [exact Hok|]. split.
      - unfold num_den. rewrite Hneg. cbn [negb]. change (env0 cf) with E. rewrite Hiso. reflexivity.
      - split; [apply sdepth_0|congruence]. }
    (* string *)
    clear Hb. destruct (b =? 34) eqn:Hb.
    { apply N.eqb_eq in Hb. subst b. apply bind_ok in Hrun as ([[str bw] s2] & Hp & [= <- <-]).
      apply Hstr_sound in Hp as (ps & Hrest & Hok & Htext & _ & _ & Hdep).
      2:{ rewrite discard_rest, Hs1. exact HFr. }
      rewrite discard_rest, Hs1 in Hrest. cbn [tl] in Hrest. rewrite discard_depth in Hdep.
      exists (CStr ps). cbn [render wfb denote cdepth]. unfold render_str. rewrite Hr1, Hrest, Htext.
      split; [lnorm; reflexivity|]. split; [exact Hok|]. split; [reflexivity|].
      split; [apply sdepth_0|congruence]. }
    (* array *)
    clear Hb. destruct (b =? 91) eqn:Hb.
    { apply N.eqb_eq in Hb. subst b.
      apply bind_ok in Hrun as (s2 & Hen & Hrun). apply bind_ok in Hrun as ([vs s3] & Hsq & Hrun).
      apply bind_ok in Hrun as (s4 & Hlv & Hrun). apply bind_ok in Hrun as (s5 & Hes & [= <- <-]).
      apply enter_inv in Hen as [He1 He2]. apply leave_inv in Hlv as [Hl1 Hl2].
      apply end_seq_inv in Hes as [Hq1 Hq2].
      assert (HFd : Forall P256 (rest (discard s2))) by (rewrite discard_rest, He1, Hs1; exact HFr).
      destruct (IHs _ _ _ _ Hsq HFd) as [Hsd Hsq'].
      clear Hsq. rename Hsq' into Hsq.
      rewrite discard_depth in Hsd.
      destruct (skipws_split (rest s4)) as (wl & Hwl & Hs4). rewrite Hq1, Hl1 in Hs4.
      destruct (Hsq wl (rest s5) Hwl Hs4) as (wp & es & Hwp & Htxt & Hwf & Hden & Hdp).
      rewrite discard_rest, He1, Hs1 in Htxt. cbn [tl] in Htxt. rewrite discard_depth in Hdp.
      exists (CArr wp es). rewrite render_arr. cbn [wfb denote cdepth]. rewrite Hr1, Htxt, Hwp, Hwf, Hden.
      split; [lnorm; reflexivity|]. split; [reflexivity|]. split; [reflexivity|].
      unfold sdepth in *. destruct (limit_disabled cf).
      - split; [discriminate|congruence].
      - specialize (Hdp eq_refl). split; [intros _; right; lia|lia]. }
    (* object *)
    clear Hb. destruct (b =? 123) eqn:Hb; [|unfold peek_error in Hrun; discriminate].
    apply N.eqb_eq in Hb. subst b.
    apply bind_ok in Hrun as (s2 & Hen & Hrun). apply bind_ok in Hrun as ([vs s3] & Hsq & Hrun).
    apply bind_ok in Hrun as (s4 & Hlv & Hrun). apply bind_ok in Hrun as (s5 & Hes & [= <- <-]).
    apply enter_inv in Hen as [He1 He2]. apply leave_inv in Hlv as [Hl1 Hl2].
    apply end_map_inv in Hes as [Hq1 Hq2].
    assert (HFd : Forall P256 (rest (discard s2))) by (rewrite discard_rest, He1, Hs1; exact HFr).
    destruct (IHm _ _ _ _ Hsq HFd) as [Hsd Hsq'].
    clear Hsq. rename Hsq' into Hsq.
    rewrite discard_depth in Hsd.
    destruct (skipws_split (rest s4)) as (wl & Hwl & Hs4). rewrite Hq1, Hl1 in Hs4.
    destruct (Hsq wl (rest s5) Hwl Hs4) as (wp & ms & Hwp & Htxt & Hwf & Hden & Hdp).
    rewrite discard_rest, He1, Hs1 in Htxt. cbn [tl] in Htxt. rewrite discard_depth in Hdp.
    exists (CObj wp ms). rewrite render_obj. cbn [wfb denote cdepth]. rewrite Hr1, Htxt, Hwp, Hwf, Hden.
    split; [lnorm; reflexivity|]. split; [reflexivity|]. split; [reflexivity|].
    unfold sdepth in *. destruct (limit_disabled cf).
    - split; [discriminate|congruence].
    - specialize (Hdp eq_refl). split; [intros _; right; lia|lia].
  Qed.

  (* ---- the sequence step ---- *)
  Lemma sound_seq_step f : sound_value f -> sound_seq f -> sound_seq (S f).
  Proof.
    intros IHv IHs first s vs s' Hrun HF.
    pose proof (parse_seq_S cf f first s) as Heq. fold E in Heq. rewrite Heq in Hrun. clear Heq.
    apply bind_ok in Hrun as (o & Hh & Hrun). destruct o as [s1|].
    - apply hne_sep in Hh as (Hd1 & Hsk1 & wa & w1 & Hwa & Hw1 & Hsep).
      apply bind_ok in Hrun as ([v s2] & Hv & Hrun). apply bind_ok in Hrun as ([vs' s3] & Hsq & [= <- <-]).
      assert (HF1 : Forall P256 (rest s1)).
      { rewrite Hsep in HF. apply Forall_app_r in HF. now apply Forall_app_r in HF. }
      destruct (IHv _ _ _ Hv HF1) as (c & Hc & Hwf & Hden & Hdp & Hd2). rewrite Hsk1 in Hc.
      assert (HF2 : Forall P256 (rest s2)). { rewrite Hc in HF1. now apply Forall_app_r in HF1. }
      destruct (IHs _ _ _ _ Hsq HF2) as [Hd3 Hsq']. clear Hsq. rename Hsq' into Hsq. split; [congruence|].
      intros wl rst Hwl Hrs. destruct (Hsq wl rst Hwl Hrs) as (wp2 & es2 & Hwp2 & Htxt & Hwf2 & Hden2 & Hdp2).
      exists wa, (ECons w1 c wp2 es2). split; [exact Hwa|]. split.
      { rewrite seq_text_cons, Hsep, Hc, Htxt, seq_text_false. lnorm. reflexivity. }
      cbn [wfb_elems denote_elems cdepth_elems]. rewrite Hw1, Hwf, Hwp2, Hwf2, Hden, Hden2.
      split; [reflexivity|]. split; [reflexivity|].
      apply sdepth_max; [rewrite <- Hd1; exact Hdp|rewrite <- Hd1, <- Hd2; exact Hdp2].
    - injection Hrun as <- <-. split; [reflexivity|]. intros wl rst Hwl Hrs.
      exists wl, ENil. cbn [seq_text]. split; [exact Hwl|]. split; [exact Hrs|].
      split; [reflexivity|]. split; [reflexivity|]. apply sdepth_0.
  Qed.

  (* ---- the map step ---- *)
  Lemma sound_map_step f : sound_value f -> sound_map f -> sound_map (S f).
  Proof.
    intros IHv IHm first s vs s' Hrun HF.
    pose proof (parse_map_S cf f first s) as Heq. fold E in Heq. rewrite Heq in Hrun. clear Heq.
    apply bind_ok in Hrun as (o & Hh & Hrun). destruct o as [s1|].
    - apply hnk_sep in Hh as (Hd1 & wa & w1 & r1 & Hwa & Hw1 & Hs1 & Hsep).
      apply bind_ok in Hrun as ([[k bw] s2] & Hk & Hrun). apply bind_ok in Hrun as (s3 & Hcol & Hrun).
      apply bind_ok in Hrun as ([v s4] & Hv & Hrun). apply bind_ok in Hrun as ([vs' s5] & Hmp & [= <- <-]).
      assert (HF1 : Forall P256 r1).
      { rewrite Hsep in HF. apply Forall_app_r in HF. apply Forall_app_r in HF. now apply Forall_cons_r in HF. }
      apply Hstr_sound in Hk as (ks & Hrest & Hok & Htext & _ & _ & Hdk).
      2:{ rewrite discard_rest, Hs1. exact HF1. }
      rewrite discard_rest, Hs1 in Hrest. cbn [tl] in Hrest. rewrite discard_depth in Hdk.
      assert (HF2 : Forall P256 (rest s2)).
      { rewrite Hrest in HF1. apply Forall_app_r in HF1. now apply Forall_cons_r in HF1. }
      apply colon_inv in Hcol as [Hc1 Hc2].
      destruct (skipws_split (rest s2)) as (w2 & Hw2 & Hs2). rewrite Hc1 in Hs2.
      assert (HF3 : Forall P256 (rest s3)).
      { rewrite Hs2 in HF2. apply Forall_app_r in HF2. now apply Forall_cons_r in HF2. }
      destruct (IHv _ _ _ Hv HF3) as (c & Hc & Hwf & Hden & Hdp & Hd4).
      destruct (skipws_split (rest s3)) as (w3 & Hw3 & Hs3). rewrite Hc in Hs3.
      assert (HF4 : Forall P256 (rest s4)).
      { rewrite Hs3 in HF3. apply Forall_app_r in HF3. now apply Forall_app_r in HF3. }
      destruct (IHm _ _ _ _ Hmp HF4) as [Hd5 Hmp']. clear Hmp. rename Hmp' into Hmp. split; [congruence|].
      intros wl rst Hwl Hrs. destruct (Hmp wl rst Hwl Hrs) as (wp2 & ms2 & Hwp2 & Htxt & Hwf2 & Hden2 & Hdp2).
      exists wa, (MCons w1 ks w2 w3 c wp2 ms2). split; [exact Hwa|]. split.
      { rewrite map_text_cons, Hsep, Hrest, Hs2, Hs3, Htxt, map_text_false. unfold render_str. lnorm. reflexivity. }
      cbn [wfb_members denote_members cdepth_members].
      rewrite Hw1, Hok, Hw2, Hw3, Hwf, Hwp2, Hwf2, Htext, Hden, Hden2.
      split; [reflexivity|]. split; [reflexivity|].
      assert (E3 : depth s3 = depth s) by congruence.
      apply sdepth_max; [rewrite <- E3; exact Hdp|rewrite <- E3, <- Hd4; exact Hdp2].
    - injection Hrun as <- <-. split; [reflexivity|]. intros wl rst Hwl Hrs.
      exists wl, MNil. cbn [map_text]. split; [exact Hwl|]. split; [exact Hrs|].
      split; [reflexivity|]. split; [reflexivity|]. apply sdepth_0.
  Qed.

  Lemma sound_all : forall fuel, sound_value fuel /\ sound_seq fuel /\ sound_map fuel.
  Proof.
    induction fuel as [|f (IHv & IHs & IHm)].
    - split; [|split].
      + intros s v s' H _. discriminate.
      + intros first s vs s' H _. discriminate.
      + intros first s vs s' H _. discriminate.
    - split; [|split].
      + now apply sound_value_step.
      + now apply sound_seq_step.
      + now apply sound_map_step.
  Qed.

  (* ---- top level ---- *)
  Theorem value_sound_main : forall bs v,
    Forall (fun b => (b < 256)%N) bs -> from_input E bs = Ok v -> Denotes cf bs v.
  Proof.
    intros bs v HF Hrun. unfold from_input in Hrun.
    apply bind_ok in Hrun as ([v1 s1] & Hv & Hrun). apply bind_ok in Hrun as (s2 & Hend & [= <-]).
    destruct (sound_all (value_fuel bs)) as (Sv & _ & _).
    destruct (Sv _ _ _ Hv HF) as (c & Hc & Hwf & Hden & Hdp & _).
    cbn [init_st rest depth] in Hc, Hdp.
    destruct (skipws_split bs) as (w1 & Hw1 & Hbs). rewrite Hc in Hbs.
    assert (Hw2 : ws_ok (rest s1) = true). { apply (de_end_ok cf). exists s2. exact Hend. }
    exists w1, c, (rest s1). split; [exact Hbs|]. split; [exact Hw1|]. split; [exact Hw2|].
    split; [exact Hwf|]. split; [exact Hden|].
    intros Hl. specialize (Hdp Hl). rewrite DEPTH0_eq in Hdp. lia.
  Qed.

End Sound.
