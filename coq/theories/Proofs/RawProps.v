(* Proofs/RawProps.v — property C19, the RawValue clauses: pinned statements (each closed by a lemma of
   Proofs/RawDe.v, RawSer.v, RawToValue.v, RawNested.v).

   Vocabulary
     EK k cf = mkEnv k TEof cf          k = RStr (from_str) | RSlice (from_slice) | RIo (from_reader)
     raw_lang bs r  (RawDe.v)           bs = w1 ++ render c ++ w2, w1 w2 whitespace, c a well-formed tree (wfb), r = render c
                                        — the scanner language of C19_scanner_lang together with the captured text
     RawM.from_string / raw_from_input / rser / rto_vec / rto_value   Model/RawM.v (mirror of src/raw.rs and the raw paths of ser.rs, value/ser.rs)
   A `String` / `&str` is valid UTF-8: the hypothesis [utf8_valid s = true] where the Rust type guarantees it. *)
From SJ Require Import Base.Bytes Base.Utf8 Base.FloatB Gen.Tables Model.Read Model.Str Model.Num Model.Value Model.De Model.Ignore
  Spec.Syntax Spec.Denote.
From SJ Require Import Model.Sval Model.Ser Model.ValueSer Model.Ty Model.DeTyped Model.RawM.
From SJ Require Import Proofs.GrammarIgnore Proofs.StrRefine Proofs.RkIndep Proofs.StrSource Proofs.Utf8Lemmas Proofs.TypedTotal.
From SJ Require Import Proofs.RawDe Proofs.RawSer Proofs.RawToValue Proofs.RawNested Proofs.RawAny.
Require Import Lia.
Open Scope N_scope.

Notation EK k cf := (mkEnv k TEof cf) (only parsing).

(* ------------------------------------------------------------------------------------------ *)
(** * RawValue::from_string accepts exactly the strings that are one valid JSON text; the result is the trimmed text *)

Theorem C19_from_string : forall cf s r,
  utf8_valid s = true ->
  (from_string cf s = TOk r
   <-> exists w1 c w2, s = w1 ++ render c ++ w2 /\ ws_ok w1 = true /\ ws_ok w2 = true /\ wfb c = true /\ r = render c).
Proof. exact from_string_lang. Qed.

(* the error side: any other string is rejected with a positioned syntax/eof error — never fuel, panic or an unpositioned
   error — and the error is the one of from_str::<&RawValue> *)
Theorem C19_from_string_total : forall cf s,
  (exists r, from_string cf s = TOk r) \/ (exists c i, from_string cf s = TErr c i).
Proof. exact from_string_total. Qed.

Theorem C19_from_string_rejects : forall cf s,
  utf8_valid s = true ->
  ~ (exists w1 c w2, s = w1 ++ render c ++ w2 /\ ws_ok w1 = true /\ ws_ok w2 = true /\ wfb c = true) ->
  exists c i, from_string cf s = TErr c i.
Proof.
  intros cf s Hu Hn. destruct (from_string_total cf s) as [(r & H)|H]; [|exact H].
  exfalso. apply Hn. apply (from_string_lang cf s r Hu) in H as (w1 & c & w2 & H1 & H2 & H3 & H4 & _). eauto 8.
Qed.

Theorem C19_from_string_error : forall cf s c i,
  from_string cf s = TErr c i <-> raw_from_input (EK RStr cf) s = TErr c i.
Proof. exact from_string_err. Qed.

(* the allocation-reuse branch (raw.rs 188-191) never changes the content *)
Theorem C19_from_string_is_from_str : forall cf s r,
  Forall (fun b => (b < 256)%N) s ->
  (from_string cf s = TOk r <-> raw_from_input (EK RStr cf) s = TOk r).
Proof. exact from_string_is_span. Qed.

(* from_str / from_slice / from_reader ::<Box<RawValue>>: same language, same captured text, every source *)
Theorem C19_top_level : forall k cf bs r,
  Forall (fun b => (b < 256)%N) bs -> (k = RStr \/ utf8_valid bs = true) ->
  (raw_from_input (EK k cf) bs = TOk r
   <-> exists w1 c w2, bs = w1 ++ render c ++ w2 /\ ws_ok w1 = true /\ ws_ok w2 = true /\ wfb c = true /\ r = render c).
Proof. exact raw_from_input_lang. Qed.

(* the same with no assumption on the input bytes: from_slice / from_reader additionally demand that the captured span is UTF-8 *)
Theorem C19_top_level_exact : forall k cf bs r,
  Forall (fun b => (b < 256)%N) bs ->
  (raw_from_input (EK k cf) bs = TOk r
   <-> (exists w1 c w2, bs = w1 ++ render c ++ w2 /\ ws_ok w1 = true /\ ws_ok w2 = true /\ wfb c = true /\ r = render c)
       /\ (k = RStr \/ utf8_valid r = true)).
Proof. exact raw_from_input_lang_exact. Qed.

(* [raw_from_input] is the type program TRaw of the typed deserializer *)
Lemma deserialize_raw_is_raw : forall E s d s1, deserialize_raw E s = TOk (d, s1) -> d = DRaw (raw_of d).
Proof.
  intros E s d s1. unfold deserialize_raw.
  destruct (parse_whitespace E s) as [[o s0]| | |]; cbn [lift DeTyped.tbind]; try discriminate.
  destruct (ignore_value E s0) as [s1'| | |]; cbn [lift DeTyped.tbind]; try discriminate. cbv zeta.
  destruct (rk E); try (intros H; injection H as <- _; reflexivity);
    destruct (utf8_valid _); try (intros H; injection H as <- _; reflexivity); unfold error; cbn [lift]; discriminate.
Qed.

Theorem C19_top_level_typed : forall E bs,
  from_input_typed E TRaw bs = DeTyped.tbind (raw_from_input E bs) (fun r => TOk (DRaw r)).
Proof.
  intros E bs. unfold from_input_typed, raw_from_input, typed_fuel.
  replace (4 * length bs + 2 * ty_depth TRaw + 8)%nat with (S (4 * length bs + 2 * ty_depth TRaw + 7)) by lia.
  rewrite de_typed_raw.
  destruct (deserialize_raw E (init_st bs)) as [[d s1]|c i|kk s'| |] eqn:Hraw; cbn [DeTyped.tbind]; try reflexivity.
  destruct (de_end E s1) as [s2|c i| |]; cbn [lift DeTyped.tbind]; try reflexivity.
  now rewrite <- (deserialize_raw_is_raw E _ d s1 Hraw).
Qed.

(* ------------------------------------------------------------------------------------------ *)
(** * A RawValue is always valid JSON, at any cursor position, from any source *)

Theorem C19_always_valid_json : forall k cf s a b s1,
  Forall (fun x => (x < 256)%N) (rest s) ->
  raw_value (EK k cf) s = Ok (a, b, s1) ->
  exists c, wfb c = true /\ firstn (b - a) (skipn (a - off s) (rest s)) = render c.
Proof.
  intros k cf s a b s1 F H. apply (raw_value_bytes cf s a b s1 F). rewrite <- H. symmetry. destruct k.
  - reflexivity.
  - unfold raw_value. rewrite (pw_any RStr cf s). destruct (parse_whitespace (EK RSlice cf) s) as [[o s0]|c i| |]; cbn [bind]; try reflexivity.
    now rewrite (ig_any RStr cf s0).
  - apply raw_value_rk; intros; first [apply parse_str_io_slice | apply ignore_str_io_slice].
Qed.

Theorem C19_always_valid_json_typed : forall k cf s d s1,
  Forall (fun b => (b < 256)%N) (rest s) ->
  deserialize_raw (EK k cf) s = TOk (d, s1) ->
  exists w c, rest s = w ++ render c ++ rest s1 /\ ws_ok w = true /\ wfb c = true /\ d = DRaw (render c)
          /\ off s1 = (off s + length w + length (render c))%nat /\ depth s1 = depth s
          /\ (k <> RStr -> utf8_valid (render c) = true).
Proof. exact deserialize_raw_sound. Qed.

Theorem C19_complete_typed : forall k cf w c rst o p d,
  ws_ok w = true -> wfb c = true -> val_follow rst ->
  (k = RStr \/ utf8_valid (render c) = true) ->
  exists p', deserialize_raw (EK k cf) (mkSt (w ++ render c ++ rst) o p d)
           = TOk (DRaw (render c), mkSt rst (o + length w + length (render c)) p' d).
Proof. exact deserialize_raw_complete. Qed.

(* what from_string returns is itself accepted by from_string, unchanged *)
Theorem C19_from_string_idempotent : forall cf s r, utf8_valid s = true -> from_string cf s = TOk r -> from_string cf r = TOk r.
Proof.
  intros cf s r Hu H. apply (from_string_lang cf s r Hu) in H as (w1 & c & w2 & Hs & Hw1 & Hw2 & Hc & ->).
  assert (Hur : utf8_valid (render c) = true). { rewrite Hs in Hu. exact (render_utf8_mid w1 w2 c Hc Hu). }
  apply (from_string_lang cf (render c) (render c) Hur). exists [], c, []. rewrite app_nil_r. auto.
Qed.

(* ------------------------------------------------------------------------------------------ *)
(** * Serialising back: verbatim *)

Theorem C19_verbatim : forall cf fmt32 fmt64 F json,
  rserialize cf fmt32 fmt64 F (RRaw json) = Ok [json] /\ rto_vec cf fmt32 fmt64 F (RRaw json) = Ok json.
Proof. intros. split; [apply rserialize_raw|apply rto_vec_raw]. Qed.

Theorem C19_verbatim_state : forall cf fmt32 fmt64 F json st, rser cf fmt32 fmt64 F (RRaw json) st = ([json], Ok st).
Proof. exact rser_raw. Qed.

(* inside any container, at any depth, either formatter: the output is A ++ [json] ++ B with A, B and the outcome independent of json *)
Theorem C19_verbatim_in_context : forall cf fmt32 fmt64 F (x : rctx) (st : fstate),
  (exists A B fin, forall json, rser cf fmt32 fmt64 F (plug x (RRaw json)) st = (A ++ [json] ++ B, fin))
  \/ (exists A e, not_ok e /\ forall json, rser cf fmt32 fmt64 F (plug x (RRaw json)) st = (A, e)).
Proof. exact rser_context. Qed.

Theorem C19_verbatim_array_element : forall cf fmt32 fmt64 F json rest cs st,
  rser_elems F (rser cf fmt32 fmt64 F) (RRaw json :: rest) cs st =
  (do* st1 := Ser.lift (begin_array_value F (is_first cs) st) in
   do* _ := twrite json in
   do* st3 := Ser.lift (end_array_value F st1) in
   rser_elems F (rser cf fmt32 fmt64 F) rest Rest st3).
Proof. exact rser_elems_raw_step. Qed.

Theorem C19_verbatim_compact_seq : forall cf fmt32 fmt64 h rs,
  (is_some0 h = true -> rs = []) ->
  rto_vec cf fmt32 fmt64 Compact (RSeq h (map RRaw rs)) = Ok (91 :: commas rs ++ [93]).
Proof. exact compact_seq_of_raws. Qed.

Theorem C19_verbatim_compact_struct : forall cf fmt32 fmt64 fs,
  fs <> [] -> Forall (fun kr => key_ok (fst kr)) fs ->
  rto_vec cf fmt32 fmt64 Compact (RStruct (map raw_field fs)) = Ok (123 :: fields_text fs ++ [125]).
Proof. exact compact_struct_of_raws. Qed.

(* the extension type adds nothing but the raw leaf *)
Theorem C19_rser_conservative_seq : forall cf fmt32 fmt64 F h es st,
  rser cf fmt32 fmt64 F (RSeq h (map RPlain es)) st = ser cf fmt32 fmt64 F (SSeq h es) st.
Proof. exact rser_plain_seq. Qed.
Theorem C19_rser_conservative_map : forall cf fmt32 fmt64 F h kvs st,
  rser cf fmt32 fmt64 F (RMap h (map RawSer.plain_entry kvs)) st = ser cf fmt32 fmt64 F (SMap h kvs) st.
Proof. exact rser_plain_map. Qed.
Theorem C19_rser_conservative_struct : forall cf fmt32 fmt64 F fs st,
  rser cf fmt32 fmt64 F (RStruct (map RawSer.plain_entry fs)) st = ser cf fmt32 fmt64 F (SStruct fs) st.
Proof. exact rser_plain_struct. Qed.

(* deserialise, then serialise: the same bytes that stood in the input *)
Theorem C19_roundtrip : forall k cf fmt32 fmt64 F s d s1,
  Forall (fun b => (b < 256)%N) (rest s) ->
  deserialize_raw (EK k cf) s = TOk (d, s1) ->
  exists w, ws_ok w = true /\ rest s = w ++ raw_of d ++ rest s1
         /\ d = DRaw (raw_of d)
         /\ rto_vec cf fmt32 fmt64 F (RRaw (raw_of d)) = Ok (raw_of d).
Proof.
  intros k cf fmt32 fmt64 F s d s1 Fb H.
  apply deserialize_raw_sound in H as (w & c & Hr & Hw & Hc & -> & _); [|exact Fb].
  exists w. cbn [raw_of]. repeat split; try assumption. apply rto_vec_raw.
Qed.

Theorem C19_roundtrip_top : forall k cf fmt32 fmt64 F bs r,
  Forall (fun b => (b < 256)%N) bs -> (k = RStr \/ utf8_valid bs = true) ->
  raw_from_input (EK k cf) bs = TOk r ->
  rto_vec cf fmt32 fmt64 F (RRaw r) = Ok r
  /\ exists w1 w2, bs = w1 ++ r ++ w2 /\ ws_ok w1 = true /\ ws_ok w2 = true.
Proof.
  intros k cf fmt32 fmt64 F bs r Fb Hu H. split; [apply rto_vec_raw|].
  apply (raw_from_input_lang k cf bs r Fb Hu) in H as (w1 & c & w2 & Hbs & Hw1 & Hw2 & _ & ->). eauto.
Qed.

(* serialise, then from_string: the same RawValue *)
Theorem C19_roundtrip_ser_de : forall cf fmt32 fmt64 F s r out,
  utf8_valid s = true -> from_string cf s = TOk r ->
  rto_vec cf fmt32 fmt64 F (RRaw r) = Ok out -> from_string cf out = TOk r.
Proof.
  intros cf fmt32 fmt64 F s r out Hu H Hout. rewrite rto_vec_raw in Hout. injection Hout as <-.
  exact (C19_from_string_idempotent cf s r Hu H).
Qed.

(* ------------------------------------------------------------------------------------------ *)
(** * to_value *)

Theorem C19_to_value : forall cf fmt32 fmt64 json,
  rto_value cf fmt32 fmt64 (RRaw json) = from_input (EK RStr cf) json.
Proof. exact rto_value_raw. Qed.

Theorem C19_to_value_captured : forall k cf fmt32 fmt64 bs r,
  utf8_valid bs = true ->
  raw_from_input (EK k cf) bs = TOk r ->
  forall v, rto_value cf fmt32 fmt64 (RRaw r) = Ok v <-> from_input (EK RSlice cf) bs = Ok v.
Proof. exact to_value_of_captured. Qed.

Theorem C19_to_value_denote : forall cf fmt32 fmt64 c v,
  wfb c = true -> utf8_valid (render c) = true -> denote cf c = Some v ->
  (limit_disabled cf = false -> (cdepth c <= 127)%nat) ->
  rto_value cf fmt32 fmt64 (RRaw (render c)) = Ok v.
Proof. exact to_value_of_span. Qed.

Theorem C19_to_value_sound : forall cf fmt32 fmt64 json v,
  utf8_valid json = true -> rto_value cf fmt32 fmt64 (RRaw json) = Ok v -> Denotes cf json v.
Proof. exact rto_value_raw_sound. Qed.

(* ------------------------------------------------------------------------------------------ *)
(** * Nested positions (typed text deserializer), every source *)

Theorem C19_nested_seq : forall k cf w1 w0 l w2,
  ws_ok w1 = true -> ws_ok w2 = true -> wfb (arr_of w0 l) = true -> input_ok k (w1 ++ render (arr_of w0 l) ++ w2) ->
  from_input_typed (EK k cf) (TSeq TRaw) (w1 ++ render (arr_of w0 l) ++ w2) = TOk (DSeq (map DRaw (espans l))).
Proof. exact seq_of_raws. Qed.

Theorem C19_nested_tuple : forall k cf w1 w0 l w2,
  ws_ok w1 = true -> ws_ok w2 = true -> wfb (arr_of w0 l) = true -> input_ok k (w1 ++ render (arr_of w0 l) ++ w2) ->
  from_input_typed (EK k cf) (TTuple (repeat TRaw (length l))) (w1 ++ render (arr_of w0 l) ++ w2) = TOk (DSeq (map DRaw (espans l))).
Proof. exact tuple_of_raws. Qed.

Theorem C19_nested_tuple_struct : forall k cf w1 w0 l w2,
  ws_ok w1 = true -> ws_ok w2 = true -> wfb (arr_of w0 l) = true -> input_ok k (w1 ++ render (arr_of w0 l) ++ w2) ->
  from_input_typed (EK k cf) (TTupleStruct (repeat TRaw (length l))) (w1 ++ render (arr_of w0 l) ++ w2) = TOk (DSeq (map DRaw (espans l))).
Proof. exact tuple_struct_of_raws. Qed.

Theorem C19_nested_map : forall k cf w1 w0 l w2 keys,
  ws_ok w1 = true -> ws_ok w2 = true -> wfb (obj_of w0 l) = true -> Forall2 key_is l keys ->
  input_ok k (w1 ++ render (obj_of w0 l) ++ w2) ->
  exists es, from_input_typed (EK k cf) (TMap KStr TRaw) (w1 ++ render (obj_of w0 l) ++ w2) = TOk (DMap es)
          /\ Forall2 entry_is es (combine keys (mspans l)).
Proof. exact map_of_raws. Qed.

Theorem C19_nested_struct : forall k cf w1 w0 l w2 names,
  ws_ok w1 = true -> ws_ok w2 = true -> wfb (obj_of w0 l) = true -> Forall2 key_is l names -> NoDup names ->
  input_ok k (w1 ++ render (obj_of w0 l) ++ w2) ->
  from_input_typed (EK k cf) (TStruct (mkfields names)) (w1 ++ render (obj_of w0 l) ++ w2) = TOk (DStruct (map DRaw (mspans l))).
Proof. exact struct_of_raws. Qed.

Theorem C19_nested_struct_positional : forall k cf w1 w0 l w2 names,
  ws_ok w1 = true -> ws_ok w2 = true -> wfb (arr_of w0 l) = true -> length names = length l ->
  input_ok k (w1 ++ render (arr_of w0 l) ++ w2) ->
  from_input_typed (EK k cf) (TStruct (mkfields names)) (w1 ++ render (arr_of w0 l) ++ w2) = TOk (DStruct (map DRaw (espans l))).
Proof. exact struct_of_raws_positional. Qed.


(* ------------------------------------------------------------------------------------------ *)
(** * Any position of any type program, every input *)

(* [raws_in bs d] (Proofs/RawAny.v): every [DRaw span] occurring anywhere in [d] satisfies
     exists c a z, wfb c = true /\ span = render c /\ bs = a ++ span ++ z
   — valid JSON, and a contiguous piece of the input [bs], unaltered. *)
Theorem C19_any_position : forall k cf t bs d,
  Forall (fun b => (b < 256)%N) bs ->
  from_input_typed (EK k cf) t bs = TOk d -> raws_in bs d.
Proof. exact from_input_typed_raws_valid. Qed.

Theorem C19_any_position_cursor : forall k cf fuel t s d s1,
  Forall (fun b => (b < 256)%N) (rest s) ->
  de_typed fuel (EK k cf) t s = TOk (d, s1) -> raws_in (rest s) d.
Proof. exact de_typed_raws_valid. Qed.

(* reading [raws_in] *)
Theorem C19_raws_in_raw : forall bs span,
  raws_in bs (DRaw span) <-> exists c a z, wfb c = true /\ span = render c /\ bs = a ++ span ++ z.
Proof. intros. reflexivity. Qed.
Theorem C19_raws_in_seq : forall bs l, raws_in bs (DSeq l) <-> Forall (raws_in bs) l.
Proof. exact raws_in_seq. Qed.
Theorem C19_raws_in_struct : forall bs l, raws_in bs (DStruct l) <-> Forall (raws_in bs) l.
Proof. exact raws_in_struct. Qed.
Theorem C19_raws_in_map : forall bs l,
  raws_in bs (DMap l) <-> Forall (fun p => raws_in bs (fst p) /\ raws_in bs (snd p)) l.
Proof. exact raws_in_map. Qed.
Theorem C19_raws_in_wrappers : forall bs x n,
  (raws_in bs (DSome x) <-> raws_in bs x) /\ (raws_in bs (DNewtype x) <-> raws_in bs x) /\ (raws_in bs (DVariant n x) <-> raws_in bs x).
Proof. intros. repeat split; intros H; exact H. Qed.

(* ------------------------------------------------------------------------------------------ *)
(** * Examples *)
Definition cfg0 := mkCfg false false false false.
(* from_string("  [1, {\"a\":null}]\n") = `[1, {"a":null}]` *)
Example C19_from_string_example :
  from_string cfg0 [32;32; 91;49;44;32;123;34;97;34;58;110;117;108;108;125;93; 10]
  = TOk [91;49;44;32;123;34;97;34;58;110;117;108;108;125;93].
Proof. vm_compute. reflexivity. Qed.
(* `1 2` is not one JSON text; `[1,]`, `` and `nul` neither *)
Example C19_from_string_rejects_two : from_string cfg0 [49;32;50] = TErr TrailingCharacters 3.
Proof. vm_compute. reflexivity. Qed.
Example C19_from_string_rejects_comma : from_string cfg0 [91;49;44;93] = TErr ExpectedSomeValue 4.
Proof. vm_compute. reflexivity. Qed.
Example C19_from_string_rejects_empty : from_string cfg0 [] = TErr EofWhileParsingValue 0.
Proof. vm_compute. reflexivity. Qed.
(* what the scanner does NOT check (and from_string therefore accepts): a lone surrogate escape, a huge exponent *)
Example C19_from_string_accepts_lone_surrogate :
  from_string cfg0 [34;92;117;100;56;48;48;34] = TOk [34;92;117;100;56;48;48;34].
Proof. vm_compute. reflexivity. Qed.
Example C19_from_string_accepts_big_exponent :
  from_string cfg0 [49;101;57;57;57;57] = TOk [49;101;57;57;57;57].
Proof. vm_compute. reflexivity. Qed.

(* ... and nesting depth: 200 nested arrays are a RawValue, but not a Value; to_value of that RawValue fails *)
Example C19_from_string_accepts_deep :
  let s := repeat 91 200 ++ repeat 93 200 in
  from_string cfg0 s = TOk s /\ rto_value cfg0 (fun _ => []) (fun _ => []) (RRaw s) = Err RecursionLimitExceeded 128.
Proof. vm_compute. split; reflexivity. Qed.
(* from_slice: a string literal holding the byte 0xFF is scanned but the span is not UTF-8 *)
Example C19_slice_rejects_non_utf8_span :
  raw_from_input (EK RSlice cfg0) [34;255;34] = TErr InvalidUnicodeCodePoint 3.
Proof. vm_compute. reflexivity. Qed.

(* raw.rs doc example, input side: struct Input { code: u32, payload: RawValue } from ` {"code": 200, "payload": {} , "x":[1]} `
   (an unknown field is skipped by the same scanner) *)
Example C19_struct_mixed_example : forall k,
  from_input_typed (EK k cfg0)
    (TStruct [([99;111;100;101], TInt Ty.U32); ([112;97;121;108;111;97;100], TRaw)])
    [32;123;34;99;111;100;101;34;58;32;50;48;48;44;32;34;112;97;121;108;111;97;100;34;58;32;123;125;32;44;32;34;120;34;58;91;49;93;125;32]
  = TOk (DStruct [DInt 200; DRaw [123;125]]).
Proof. intros k. destruct k; vm_compute; reflexivity. Qed.
(* Option<RawValue>: `null` is None (never captured as a raw `null`), anything else Some(raw) *)
Example C19_option_example :
  from_input_typed (EK RStr cfg0) (TSeq (TOption TRaw)) [91;110;117;108;108;44;32;48;93]
  = TOk (DSeq [DNone; DSome (DRaw [48])]).
Proof. vm_compute. reflexivity. Qed.

Print Assumptions C19_from_string.
Print Assumptions C19_from_string_total.
Print Assumptions C19_top_level.
Print Assumptions C19_top_level_exact.
Print Assumptions C19_always_valid_json.
Print Assumptions C19_always_valid_json_typed.
Print Assumptions C19_verbatim.
Print Assumptions C19_verbatim_in_context.
Print Assumptions C19_roundtrip.
Print Assumptions C19_roundtrip_ser_de.
Print Assumptions C19_to_value.
Print Assumptions C19_to_value_captured.
Print Assumptions C19_nested_seq.
Print Assumptions C19_nested_map.
Print Assumptions C19_nested_struct.
Print Assumptions C19_any_position.
