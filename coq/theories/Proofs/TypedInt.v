(* Proofs/TypedInt.v — C06 on the typed model (Model/DeTyped.v): integer literals read into integer targets are
   exact and range-checked.

   Main results
     C06_text_64            an integer literal ([-] digits, no leading zero) followed by a byte that does not continue a
                            number, read into an 8..64-bit target: Ok with the literal's value exactly when the value is
                            in range and the literal is not -0; otherwise an error (invalid_value / invalid_type /
                            number out of range) — never another value
     C06_frac_exp_never_int a literal continued by '.', 'e' or 'E' is never Ok for an 8..64-bit target
     C06_text_i128 / C06_text_u128
                            the 128-bit targets (digit scan + str::parse): Ok exactly when in range, else NumberOutOfRange
     C06_key_64 / C06_key_128 / C06_key_frac_exp_never_int
                            the same through a quoted map key (MapKey deserializer, deserialize_numeric_key! wrapper)   *)
From SJ Require Import Base.Bytes Base.FloatB Gen.Tables Model.Read Model.Str Model.Num Model.Value Model.De Model.Ignore
  Model.Ty Model.DeTyped Spec.Syntax Proofs.NumInt.
From Coq Require Import Lia ZifyBool ZifyNat ZifyN.
Open Scope N_scope.

(* ------------------------------------------------------------------------------------------ *)
(** * Literals *)

Definition int_lit (neg : bool) (ds : list N) : list N := (if neg then [45] else []) ++ ds.
Definition int_lit_val (neg : bool) (ds : list N) : Z := if neg then (- digits_val ds 0)%Z else digits_val ds 0.
(* the literal -0 (it denotes the float negative zero) *)
Definition is_neg_zero (neg : bool) (ds : list N) : bool := neg && (digits_val ds 0 =? 0)%Z.

Definition not_digit_next (rest : list N) : Prop :=
  match rest with [] => True | c :: _ => is_digit c = false end.

(* ------------------------------------------------------------------------------------------ *)
(** * Reader steps *)

Lemma parse_whitespace_hd (E : env) (c : N) (l : list N) (o : nat) (p : bool) (d : N) :
  is_ws c = false ->
  parse_whitespace E (mkSt (c :: l) o p d) = Ok (Some c, mkSt (c :: l) o true d).
Proof.
  intros Hc. unfold parse_whitespace. cbn [Read.rest span_len]. rewrite Hc.
  unfold advance. cbn [skipn Read.rest Read.off Read.depth]. rewrite Nat.add_0_r. reflexivity.
Qed.

Lemma is_digit_not_ws (c : N) : is_digit c = true -> is_ws c = false.
Proof.
  unfold is_digit, is_ws, WS_SET. cbn [existsb]. intros H. lia.
Qed.

Lemma int_ok_hd (ds : list N) : int_ok ds = true ->
  exists c r, ds = c :: r /\ is_digit c = true.
Proof.
  intros Hok. destruct (int_ok_inv ds Hok) as [Hz|(c & r & Hds & Hc & _)].
  - exists 48, []. split; [exact Hz|reflexivity].
  - exists c, r. split; [exact Hds|apply is_digit19_digit; exact Hc].
Qed.

Lemma parse_whitespace_digits (E : env) (ds rest : list N) (o : nat) (p : bool) (d : N) :
  int_ok ds = true ->
  exists c0, is_digit c0 = true /\
    parse_whitespace E (mkSt (ds ++ rest) o p d) = Ok (Some c0, mkSt (ds ++ rest) o true d).
Proof.
  intros Hok. destruct (int_ok_hd ds Hok) as (c0 & r0 & Hds & Hc0). subst ds.
  exists c0. split; [exact Hc0|]. rewrite <- app_comm_cons.
  apply parse_whitespace_hd. apply is_digit_not_ws. exact Hc0.
Qed.

Lemma int_ok_all_digits (ds : list N) : int_ok ds = true -> all_digits ds = true.
Proof.
  intros Hok. destruct (int_ok_inv ds Hok) as [Hz|(c & r & Hds & Hc & Hr)].
  - subst ds. reflexivity.
  - subst ds. unfold all_digits. cbn [forallb]. rewrite (is_digit19_digit c Hc), Hr. reflexivity.
Qed.

Lemma is_digit_ne45 (c : N) : is_digit c = true -> (c =? 45) = false.
Proof. unfold is_digit. lia. Qed.

Lemma digits_val_nonneg (ds : list N) : (0 <= digits_val ds 0)%Z.
Proof. apply digits_val_ge. lia. Qed.

Lemma st_after_neg (ds rest : list N) (o : nat) (d : N) :
  st_after ds rest (S o) d = st_after (45 :: ds) rest o d.
Proof.
  unfold st_after. cbn [length]. f_equal. lia.
Qed.

(* ------------------------------------------------------------------------------------------ *)
(** * 8..64-bit targets: deserialize_number with serde's range-checked integer visitor *)

Definition small_int (t : intty) : Prop :=
  (int_max t <= Z.of_N u64_max)%Z /\ (- Z.of_N i64_min_abs <= int_min t)%Z.

Lemma not128_small (t : intty) : is_128 t = false -> small_int t.
Proof.
  unfold small_int, u64_max, i64_min_abs. destruct t; cbn [is_128 int_max int_min]; intros H; try discriminate H; lia.
Qed.

Definition c06_err {A} (r : tres A) : Prop :=
  exists c i, r = TErr c i /\ (c = Message MInvalidValue \/ c = Message MInvalidType \/ c = NumberOutOfRange).

Lemma deserialize_number_int (E : env) (t : intty) (neg : bool) (ds rest : list N) (o : nat) (p : bool) (d : N) :
  tm E = TEof -> small_int t -> int_ok ds = true -> stops_number rest ->
  let lit := int_lit neg ds in
  let v := int_lit_val neg ds in
  let r := deserialize_number E (visit_int t) (mkSt (lit ++ rest) o p d) in
  if in_range t v && negb (is_neg_zero neg ds)
  then r = TOk (DInt v, st_after lit rest o d)
  else c06_err r.
Proof.
  intros HE [Hmax Hmin] Hok Hstop. cbv zeta.
  pose proof (digits_val_nonneg ds) as Hnn.
  set (n := Z.to_N (digits_val ds 0)).
  assert (Hn : Z.of_N n = digits_val ds 0) by (unfold n; apply Z2N.id; exact Hnn).
  unfold deserialize_number, int_lit, int_lit_val, is_neg_zero.
  destruct neg.
  - (* "-" digits *)
    cbn [app]. rewrite (parse_whitespace_hd E 45 (ds ++ rest) o p d eq_refl).
    cbn [lift tbind]. change (45 =? 45) with true. cbv iota.
    change (discard (mkSt (45 :: ds ++ rest) o true d)) with (mkSt (ds ++ rest) (S o) false d).
    pose proof (parse_integer_int E false ds rest (S o) false d HE Hok Hstop) as HP. cbv zeta in HP.
    fold n in HP.
    destruct (n <=? u64_max) eqn:Hle.
    + rewrite HP. cbn [lift tbind]. cbv iota.
      destruct ((0 <? n) && (n <=? i64_min_abs)) eqn:Hr.
      * cbn [visit_int]. rewrite <- Hn.
        assert (Hz : (- Z.of_N n =? 0)%Z = false) by lia.
        assert (Hz' : (Z.of_N n =? 0)%Z = false) by lia.
        rewrite Hz'. cbn [andb negb]. rewrite andb_true_r.
        destruct (in_range t (- Z.of_N n)) eqn:Hin; cbn [fix_position].
        -- rewrite st_after_neg. reflexivity.
        -- unfold c06_err. eexists _, _. split; [reflexivity|left; reflexivity].
      * cbn [visit_int fix_position].
        assert (Hc : in_range t (- digits_val ds 0) && negb (true && (digits_val ds 0 =? 0)%Z) = false).
        { unfold in_range. rewrite <- Hn. unfold i64_min_abs in *. lia. }
        rewrite Hc. unfold c06_err. eexists _, _. split; [reflexivity|right; left; reflexivity].
    + assert (Hc : in_range t (- digits_val ds 0) && negb (true && (digits_val ds 0 =? 0)%Z) = false).
      { unfold in_range. rewrite <- Hn. unfold u64_max, i64_min_abs in *. lia. }
      rewrite Hc.
      destruct (parse_integer E false (mkSt (ds ++ rest) (S o) false d)) as [[pn s']|c i| |] eqn:HPI; try contradiction.
      * destruct pn as [f|x|x|x]; try contradiction.
        cbn [lift tbind visit_int fix_position]. unfold c06_err. eexists _, _. split; [reflexivity|right; left; reflexivity].
      * destruct c; try contradiction.
        cbn [lift tbind fix_position]. unfold c06_err. eexists _, _. split; [reflexivity|right; right; reflexivity].
  - (* digits *)
    cbn [app andb negb]. rewrite andb_true_r.
    destruct (parse_whitespace_digits E ds (rest) o p d Hok) as (c0 & Hc0 & Hpw).
    rewrite Hpw. cbn [lift tbind]. rewrite (is_digit_ne45 c0 Hc0), Hc0. cbv iota.
    pose proof (parse_integer_int E true ds rest o true d HE Hok Hstop) as HP. cbv zeta in HP.
    fold n in HP.
    destruct (n <=? u64_max) eqn:Hle.
    + rewrite HP. cbn [lift tbind visit_int]. rewrite Hn.
      destruct (in_range t (digits_val ds 0)) eqn:Hin; cbn [fix_position].
      * reflexivity.
      * unfold c06_err. eexists _, _. split; [reflexivity|left; reflexivity].
    + assert (Hc : in_range t (digits_val ds 0) = false).
      { unfold in_range. rewrite <- Hn. unfold u64_max in *. lia. }
      rewrite Hc.
      destruct (parse_integer E true (mkSt (ds ++ rest) o true d)) as [[pn s']|c i| |] eqn:HPI; try contradiction.
      * destruct pn as [f|x|x|x]; try contradiction.
        cbn [lift tbind visit_int fix_position]. unfold c06_err. eexists _, _. split; [reflexivity|right; left; reflexivity].
      * destruct c; try contradiction.
        cbn [lift tbind fix_position]. unfold c06_err. eexists _, _. split; [reflexivity|right; right; reflexivity].
Qed.

Lemma de_typed_int_small (fuel : nat) (E : env) (t : intty) (s : st) :
  is_128 t = false -> de_typed (S fuel) E (TInt t) s = deserialize_number E (visit_int t) s.
Proof. intros H. cbn [de_typed]. destruct t; try discriminate H; reflexivity. Qed.

Theorem C06_text_64 : forall fuel E t neg ds rest off pk d,
  tm E = TEof -> is_128 t = false -> int_ok ds = true -> stops_number rest ->
  let lit := int_lit neg ds in
  let v := int_lit_val neg ds in
  let r := de_typed (S fuel) E (TInt t) (mkSt (lit ++ rest) off pk d) in
  if in_range t v && negb (is_neg_zero neg ds)
  then r = TOk (DInt v, st_after lit rest off d)
  else c06_err r.
Proof.
  intros fuel E t neg ds rs o p d HE H128 Hok Hstop. cbv zeta.
  rewrite (de_typed_int_small fuel E t _ H128).
  exact (deserialize_number_int E t neg ds rs o p d HE (not128_small t H128) Hok Hstop).
Qed.

(* a fraction or an exponent: never an integer *)
Lemma deserialize_number_frac (E : env) (t : intty) (neg : bool) (ds : list N) (c : N) (rest : list N)
      (o : nat) (p : bool) (d : N) (a : dval * st) :
  tm E = TEof -> int_ok ds = true -> (c = 46 \/ c = 101 \/ c = 69)%N ->
  deserialize_number E (visit_int t) (mkSt (int_lit neg ds ++ c :: rest) o p d) <> TOk a.
Proof.
  intros HE Hok Hc. unfold deserialize_number, int_lit.
  destruct neg.
  - cbn [app]. rewrite (parse_whitespace_hd E 45 (ds ++ c :: rest) o p d eq_refl).
    cbn [lift tbind]. change (45 =? 45) with true. cbv iota.
    change (discard (mkSt (45 :: ds ++ c :: rest) o true d)) with (mkSt (ds ++ c :: rest) (S o) false d).
    destruct (parse_integer E false (mkSt (ds ++ c :: rest) (S o) false d)) as [[pn s']|c1 i| |] eqn:HPI;
      cbn [lift tbind fix_position]; try discriminate.
    destruct (parse_integer_frac_exp_is_float E false ds c rest (S o) false d pn s' HE Hok Hc HPI) as [f Hf].
    subst pn. cbn [visit_int fix_position]. discriminate.
  - cbn [app].
    destruct (parse_whitespace_digits E ds (c :: rest) o p d Hok) as (c0 & Hc0 & Hpw).
    rewrite Hpw. cbn [lift tbind]. rewrite (is_digit_ne45 c0 Hc0), Hc0. cbv iota.
    destruct (parse_integer E true (mkSt (ds ++ c :: rest) o true d)) as [[pn s']|c1 i| |] eqn:HPI;
      cbn [lift tbind fix_position]; try discriminate.
    destruct (parse_integer_frac_exp_is_float E true ds c rest o true d pn s' HE Hok Hc HPI) as [f Hf].
    subst pn. cbn [visit_int fix_position]. discriminate.
Qed.

Theorem C06_frac_exp_never_int : forall fuel E t neg ds c rest off pk d a,
  tm E = TEof -> is_128 t = false -> int_ok ds = true -> (c = 46 \/ c = 101 \/ c = 69)%N ->
  de_typed (S fuel) E (TInt t) (mkSt (int_lit neg ds ++ c :: rest) off pk d) <> TOk a.
Proof.
  intros fuel E t neg ds c rs o p d a HE H128 Hok Hc.
  rewrite (de_typed_int_small fuel E t _ H128).
  exact (deserialize_number_frac E t neg ds c rs o p d a HE Hok Hc).
Qed.

(* ------------------------------------------------------------------------------------------ *)
(** * 128-bit targets: scan_integer128 then str::parse *)

Lemma scan_integer128_int (E : env) (ds rest : list N) (o : nat) (p : bool) (d : N) :
  tm E = TEof -> int_ok ds = true -> not_digit_next rest ->
  scan_integer128 E (mkSt (ds ++ rest) o p d) = Ok (ds, st_after ds rest o d).
Proof.
  intros HE Hok Hstop. unfold scan_integer128.
  destruct (int_ok_inv ds Hok) as [Hz|(c & r & Hds & Hc & Hr)].
  - subst ds. cbn [app]. rewrite next_cons. cbn [bind]. change (48 =? 48) with true. cbv iota.
    rewrite (peek_or_null_eof E rest (S o) false d HE). cbn [bind].
    assert (Hd : is_digit (hd 0 rest) = false) by (destruct rest as [|x rest]; [reflexivity|exact Hstop]).
    rewrite Hd. unfold st_after. cbn [length]. destruct rest; cbn [nonempty]; (f_equal; f_equal; f_equal; lia).
  - subst ds. rewrite <- app_comm_cons. rewrite next_cons. cbn [bind].
    assert (Hc48 : (c =? 48) = false) by (unfold is_digit19 in Hc; lia).
    rewrite Hc48, Hc. cbn [Read.rest].
    rewrite (span_len_app is_digit r rest Hr Hstop).
    rewrite advance_mk, skipn_app_exact, (peek_or_null_eof E rest _ false d HE). cbn [bind].
    rewrite firstn_app_exact. unfold st_after. cbn [length]. destruct rest; cbn [nonempty]; (f_equal; f_equal; f_equal; lia).
Qed.

Theorem C06_text_i128 : forall fuel E neg ds rest off pk d,
  tm E = TEof -> int_ok ds = true -> not_digit_next rest ->
  let lit := int_lit neg ds in
  let v := int_lit_val neg ds in
  de_typed (S fuel) E (TInt I128) (mkSt (lit ++ rest) off pk d) =
    if in_range I128 v then TOk (DInt v, st_after lit rest off d)
    else TErr NumberOutOfRange (err_idx E (st_after lit rest off d)).
Proof.
  intros fuel E neg ds rs o p d HE Hok Hstop. cbv zeta.
  cbn [de_typed]. unfold deserialize_int, deserialize_i128, int_lit, int_lit_val.
  destruct neg.
  - cbn [app]. rewrite (parse_whitespace_hd E 45 (ds ++ rs) o p d eq_refl).
    cbn [lift tbind]. change (45 =? 45) with true. cbv iota.
    change (discard (mkSt (45 :: ds ++ rs) o true d)) with (mkSt (ds ++ rs) (S o) false d).
    rewrite (scan_integer128_int E ds rs (S o) false d HE Hok Hstop). cbn [lift tbind].
    unfold parse_i128. rewrite (int_ok_all_digits ds Hok). cbn [andb].
    rewrite st_after_neg.
    destruct (in_range I128 (- digits_val ds 0)); reflexivity.
  - cbn [app].
    destruct (parse_whitespace_digits E ds (rs) o p d Hok) as (c0 & Hc0 & Hpw).
    rewrite Hpw. cbn [lift tbind]. rewrite (is_digit_ne45 c0 Hc0). cbv iota.
    rewrite (scan_integer128_int E ds rs o true d HE Hok Hstop). cbn [lift tbind].
    unfold parse_i128. rewrite (int_ok_all_digits ds Hok). cbn [andb].
    destruct (in_range I128 (digits_val ds 0)); reflexivity.
Qed.

Theorem C06_text_u128 : forall fuel E neg ds rest off pk d,
  tm E = TEof -> int_ok ds = true -> not_digit_next rest ->
  let lit := int_lit neg ds in
  let v := int_lit_val neg ds in
  de_typed (S fuel) E (TInt U128) (mkSt (lit ++ rest) off pk d) =
    if neg then TErr NumberOutOfRange (peek_err_idx E (mkSt (lit ++ rest) off true d))
    else if in_range U128 v then TOk (DInt v, st_after lit rest off d)
    else TErr NumberOutOfRange (err_idx E (st_after lit rest off d)).
Proof.
  intros fuel E neg ds rs o p d HE Hok Hstop. cbv zeta.
  cbn [de_typed]. unfold deserialize_int, deserialize_u128, int_lit, int_lit_val.
  destruct neg.
  - cbn [app]. rewrite (parse_whitespace_hd E 45 (ds ++ rs) o p d eq_refl).
    cbn [lift tbind]. change (45 =? 45) with true. cbv iota. reflexivity.
  - cbn [app].
    destruct (parse_whitespace_digits E ds (rs) o p d Hok) as (c0 & Hc0 & Hpw).
    rewrite Hpw. cbn [lift tbind]. rewrite (is_digit_ne45 c0 Hc0). cbv iota.
    rewrite (scan_integer128_int E ds rs o true d HE Hok Hstop). cbn [lift tbind].
    unfold parse_u128. rewrite (int_ok_all_digits ds Hok). cbn [andb].
    destruct (in_range U128 (digits_val ds 0)); reflexivity.
Qed.

(* the 128-bit targets never wrap either: an Ok result is the literal's value, and that value is in range *)
Corollary C06_text_128_exact : forall fuel E t neg ds rest off pk d z s',
  tm E = TEof -> is_128 t = true -> int_ok ds = true -> not_digit_next rest ->
  de_typed (S fuel) E (TInt t) (mkSt (int_lit neg ds ++ rest) off pk d) = TOk (DInt z, s') ->
  z = int_lit_val neg ds /\ in_range t z = true.
Proof.
  intros fuel E t neg ds rs o p d z s' HE H128 Hok Hstop Hr.
  destruct t; try discriminate H128.
  - rewrite (C06_text_i128 fuel E neg ds rs o p d HE Hok Hstop) in Hr.
    destruct (in_range I128 (int_lit_val neg ds)) eqn:Hin; [|discriminate Hr].
    injection Hr as Hz _. subst z. split; [reflexivity|exact Hin].
  - rewrite (C06_text_u128 fuel E neg ds rs o p d HE Hok Hstop) in Hr.
    destruct neg; [discriminate Hr|].
    destruct (in_range U128 (int_lit_val false ds)) eqn:Hin; [|discriminate Hr].
    injection Hr as Hz _. subst z. split; [reflexivity|exact Hin].
Qed.

(* ------------------------------------------------------------------------------------------ *)
(** * Quoted map keys: MapKey deserializer, deserialize_numeric_key! wrapper *)

Lemma peek_cons (E : env) (c : N) (l : list N) (o : nat) (p : bool) (d : N) :
  peek E (mkSt (c :: l) o p d) = Ok (Some c, mkSt (c :: l) o true d).
Proof. reflexivity. Qed.

Lemma peek_lit (E : env) (neg : bool) (ds X : list N) (o : nat) (p : bool) (d : N) :
  int_ok ds = true ->
  exists b, (is_digit b || (b =? 45)) = true /\
    peek E (mkSt (int_lit neg ds ++ X) o p d) = Ok (Some b, mkSt (int_lit neg ds ++ X) o true d).
Proof.
  intros Hok. unfold int_lit. destruct neg.
  - exists 45. split; [reflexivity|]. cbn [app]. apply peek_cons.
  - destruct (int_ok_hd ds Hok) as (c0 & r0 & Hds & Hc0). subst ds.
    exists c0. split; [rewrite Hc0; reflexivity|]. cbn [app]. apply peek_cons.
Qed.

Lemma stops_quote (rest : list N) : stops_number (34 :: rest).
Proof. cbn [stops_number]. repeat split; try reflexivity; intros H; discriminate H. Qed.

Lemma tbind_ok_inv {A B} (r : tres A) (f : A -> tres B) (b : B) :
  tbind r f = TOk b -> exists a, r = TOk a /\ f a = TOk b.
Proof.
  destruct r as [a|c i|k s| |]; cbn [tbind]; intros Hb; try discriminate Hb.
  exists a. split; [reflexivity|exact Hb].
Qed.

(* the state in which the key's closing quote has been consumed *)
Definition st_key_end (lit rest : list N) (o : nat) (d : N) : st := mkSt rest (o + length lit + 2) false d.

Lemma numeric_key_frame (E : env) (delegate : st -> tres (dval * st)) (neg : bool) (ds rest : list N)
      (o : nat) (p : bool) (d : N) :
  int_ok ds = true ->
  let lit := int_lit neg ds in
  numeric_key E delegate (mkSt (34 :: lit ++ 34 :: rest) o p d) =
    tbind (delegate (mkSt (lit ++ 34 :: rest) (S o) true d))
      (fun '(x, s2) =>
         tbind (lift (peek E s2))
           (fun '(o2, s3) =>
              match o2 with
              | Some c => if c =? 34 then TOk (x, discard s3) else lift (peek_error E s3 ExpectedDoubleQuote)
              | None => lift (peek_error E s3 EofWhileParsingString)
              end)).
Proof.
  intros Hok. cbv zeta. unfold numeric_key.
  change (discard (mkSt (34 :: int_lit neg ds ++ 34 :: rest) o p d))
    with (mkSt (int_lit neg ds ++ 34 :: rest) (S o) false d).
  destruct (peek_lit E neg ds (34 :: rest) (S o) false d Hok) as (b & Hb & Hpk).
  rewrite Hpk. cbn [lift tbind]. rewrite Hb. reflexivity.
Qed.

Lemma key_close (E : env) (x : dval) (lit rest : list N) (o : nat) (d : N) :
  tbind (lift (peek E (st_after lit (34 :: rest) (S o) d)))
    (fun '(o2, s3) =>
       match o2 with
       | Some c => if c =? 34 then TOk (x, discard s3) else lift (peek_error E s3 ExpectedDoubleQuote)
       | None => lift (peek_error E s3 EofWhileParsingString)
       end) = TOk (x, st_key_end lit rest o d).
Proof.
  unfold st_after. rewrite peek_cons. cbn [lift tbind]. change (34 =? 34) with true. cbv iota.
  unfold discard, st_key_end. cbn [tl Read.rest Read.off Read.depth]. f_equal. f_equal. f_equal. lia.
Qed.

Theorem C06_key_64 : forall fuel E t neg ds rest off pk d,
  tm E = TEof -> is_128 t = false -> int_ok ds = true ->
  let lit := int_lit neg ds in
  let v := int_lit_val neg ds in
  let r := de_key (S fuel) E (KInt t) (mkSt (34 :: lit ++ 34 :: rest) off pk d) in
  if in_range t v && negb (is_neg_zero neg ds)
  then r = TOk (DInt v, st_key_end lit rest off d)
  else c06_err r.
Proof.
  intros fuel E t neg ds rs o p d HE H128 Hok. cbv zeta. cbn [de_key].
  rewrite (numeric_key_frame E (deserialize_int E t) neg ds rs o p d Hok).
  assert (Hdi : forall s, deserialize_int E t s = deserialize_number E (visit_int t) s)
    by (intros s; destruct t; try discriminate H128; reflexivity).
  rewrite Hdi.
  pose proof (deserialize_number_int E t neg ds (34 :: rs) (S o) true d HE (not128_small t H128) Hok (stops_quote rs)) as HD.
  cbv zeta in HD.
  destruct (in_range t (int_lit_val neg ds) && negb (is_neg_zero neg ds)).
  - rewrite HD. cbn [tbind]. apply key_close.
  - destruct HD as (c & i & Hr & Hc). rewrite Hr. cbn [tbind]. exists c, i. split; [reflexivity|exact Hc].
Qed.

Theorem C06_key_frac_exp_never_int : forall fuel E t neg ds c rest off pk d a,
  tm E = TEof -> is_128 t = false -> int_ok ds = true -> (c = 46 \/ c = 101 \/ c = 69)%N ->
  de_key (S fuel) E (KInt t) (mkSt (34 :: int_lit neg ds ++ c :: rest) off pk d) <> TOk a.
Proof.
  intros fuel E t neg ds c rs o p d a HE H128 Hok Hc. cbn [de_key]. unfold numeric_key.
  change (discard (mkSt (34 :: int_lit neg ds ++ c :: rs) o p d))
    with (mkSt (int_lit neg ds ++ c :: rs) (S o) false d).
  destruct (peek_lit E neg ds (c :: rs) (S o) false d Hok) as (b & Hb & Hpk).
  rewrite Hpk. cbn [lift tbind]. rewrite Hb.
  assert (Hdi : forall s, deserialize_int E t s = deserialize_number E (visit_int t) s)
    by (intros s; destruct t; try discriminate H128; reflexivity).
  rewrite Hdi. intros Habs.
  apply tbind_ok_inv in Habs. destruct Habs as (x & Hx & _).
  exact (deserialize_number_frac E t neg ds c rs (S o) true d x HE Hok Hc Hx).
Qed.

Lemma not_digit_quote (rest : list N) : not_digit_next (34 :: rest).
Proof. reflexivity. Qed.

Theorem C06_key_i128 : forall fuel E neg ds rest off pk d,
  tm E = TEof -> int_ok ds = true ->
  let lit := int_lit neg ds in
  let v := int_lit_val neg ds in
  de_key (S fuel) E (KInt I128) (mkSt (34 :: lit ++ 34 :: rest) off pk d) =
    if in_range I128 v then TOk (DInt v, st_key_end lit rest off d)
    else TErr NumberOutOfRange (err_idx E (st_after lit (34 :: rest) (S off) d)).
Proof.
  intros fuel E neg ds rs o p d HE Hok. cbv zeta. cbn [de_key].
  rewrite (numeric_key_frame E (deserialize_int E I128) neg ds rs o p d Hok).
  pose proof (C06_text_i128 O E neg ds (34 :: rs) (S o) true d HE Hok (not_digit_quote rs)) as HD.
  cbv zeta in HD. cbn [de_typed] in HD. rewrite HD.
  destruct (in_range I128 (int_lit_val neg ds)); cbn [tbind]; [apply key_close|reflexivity].
Qed.

Theorem C06_key_u128 : forall fuel E neg ds rest off pk d,
  tm E = TEof -> int_ok ds = true ->
  let lit := int_lit neg ds in
  let v := int_lit_val neg ds in
  de_key (S fuel) E (KInt U128) (mkSt (34 :: lit ++ 34 :: rest) off pk d) =
    if neg then TErr NumberOutOfRange (peek_err_idx E (mkSt (lit ++ 34 :: rest) (S off) true d))
    else if in_range U128 v then TOk (DInt v, st_key_end lit rest off d)
    else TErr NumberOutOfRange (err_idx E (st_after lit (34 :: rest) (S off) d)).
Proof.
  intros fuel E neg ds rs o p d HE Hok. cbv zeta. cbn [de_key].
  rewrite (numeric_key_frame E (deserialize_int E U128) neg ds rs o p d Hok).
  pose proof (C06_text_u128 O E neg ds (34 :: rs) (S o) true d HE Hok (not_digit_quote rs)) as HD.
  cbv zeta in HD. cbn [de_typed] in HD. rewrite HD.
  destruct neg; [reflexivity|].
  destruct (in_range U128 (int_lit_val false ds)); cbn [tbind]; [apply key_close|reflexivity].
Qed.

(* ------------------------------------------------------------------------------------------ *)
(** * Examples: the statements say what they should (values at the type bounds, -0, a key) *)

Definition E_sl : env := mkEnv RSlice TEof (mkCfg false false false false).
Definition E_io_ap : env := mkEnv RIo TEof (mkCfg false false true false).

Example ex_i8_127 : de_typed 1 E_sl (TInt I8) (init_st [49;50;55]) = TOk (DInt 127, mkSt [] 3 false 128).
Proof. vm_compute. reflexivity. Qed.
Example ex_i8_128 : de_typed 1 E_sl (TInt I8) (init_st [49;50;56]) = TErr (Message MInvalidValue) 3.
Proof. vm_compute. reflexivity. Qed.
Example ex_i8_neg0 : de_typed 1 E_sl (TInt I8) (init_st [45;48]) = TErr (Message MInvalidType) 2.
Proof. vm_compute. reflexivity. Qed.
Example ex_i128_neg0 : de_typed 1 E_sl (TInt I128) (init_st [45;48]) = TOk (DInt 0, mkSt [] 2 false 128).
Proof. vm_compute. reflexivity. Qed.
Example ex_u8_1e0 : de_typed 1 E_io_ap (TInt U8) (init_st [49;101;48]) = TErr (Message MInvalidType) 3.
Proof. vm_compute. reflexivity. Qed.
Example ex_key_u8 : de_key 1 E_sl (KInt U8) (init_st [34;50;53;53;34;58]) = TOk (DInt 255, mkSt [58] 5 false 128).
Proof. vm_compute. reflexivity. Qed.
Example ex_key_u8_256 : de_key 1 E_io_ap (KInt U8) (init_st [34;50;53;54;34;58]) = TErr (Message MInvalidValue) 5.
Proof. vm_compute. reflexivity. Qed.

Print Assumptions C06_text_64.
Print Assumptions C06_frac_exp_never_int.
Print Assumptions C06_text_i128.
Print Assumptions C06_text_u128.
Print Assumptions C06_text_128_exact.
Print Assumptions C06_key_64.
Print Assumptions C06_key_frac_exp_never_int.
Print Assumptions C06_key_i128.
Print Assumptions C06_key_u128.
