(* Proofs/TypedPrefixDe.v — prefix dichotomy for the typed deserializer, part 3: the deserialize_* requests of
   Model/DeTyped.v that are not recursive in the type program (scalars, the container frame, enum frame,
   map-key wrappers), each as a [_dich] lemma (from any state) and an [_eofc] lemma (from a state at the boundary). *)
From SJ Require Import Base.Bytes Base.Utf8 Base.FloatB Gen.Tables
  Model.Read Model.Str Model.Num Model.NumF32 Model.Value Model.De Model.Ignore Model.Ty Model.DeTyped.
From SJ Require Import Proofs.PrefixBase Proofs.PrefixStr Proofs.PrefixNum Proofs.PrefixDe Proofs.PrefixIgnore.
From SJ Require Import Proofs.NumInt Proofs.TypedPrefixBase Proofs.TypedPrefixInt Proofs.TypedPrefixF32.
Require Import Lia ZifyBool ZifyNat ZifyN.
Open Scope N_scope.
#[local] Arguments iv {X}.
#[local] Arguments ex {X}.
#[local] Arguments tch {X}.

(* visitors of the universal seed only thread the cursor: the outcome depends on the parsed item alone *)
Definition vthread {P A} (visit : P -> st -> tres (A * st)) : Prop :=
  forall p, (exists a, forall s, visit p s = TOk (a, s)) \/ (exists k, forall s, visit p s = TUnpos k s).

Lemma vthread_int t : vthread (visit_int t).
Proof.
  intros [f|n|z|b]; cbn [visit_int]; try (right; eauto; fail).
  - destruct (in_range t (Z.of_N n)); [left|right]; eauto.
  - destruct (in_range t z); [left|right]; eauto.
Qed.
Lemma vthread_f64 : vthread visit_f64.
Proof. intros [f|n|z|b]; cbn [visit_f64]; [left|left|left|right]; eauto. Qed.
Lemma vthread_f32 : vthread visit_f32.
Proof. intros [f|n|z|b]; cbn [visit_f32]; [left|left|left|right]; eauto. Qed.

Definition vthread2 {A} (visit : bytes -> bool -> st -> tres (A * st)) : Prop :=
  forall str b, (exists a, forall s, visit str b s = TOk (a, s)) \/ (exists k, forall s, visit str b s = TUnpos k s).

Lemma vthread2_string : vthread2 visit_string.
Proof. intros str b. left. unfold visit_string. eauto. Qed.
Lemma vthread2_borrowed : vthread2 visit_borrowed_only.
Proof. intros str b. unfold visit_borrowed_only. destruct b; [left|right]; eauto. Qed.
Lemma vthread2_char : vthread2 visit_char.
Proof. intros str b. unfold visit_char. destruct (one_scalar str); [left|right]; eauto. Qed.
Lemma vthread2_variant {A} (vs : list (bytes * A)) : vthread2 (visit_variant vs).
Proof.
  intros str b. unfold visit_variant. destruct (index_of str vs) as [[i a]|]; [left|right]; eauto.
Qed.

Definition frame_k {A} (E : env) (endf : env -> st -> res st) (endst : env -> st -> st)
    (r : tres (A * st)) : tres (A * st) :=
  match r with
  | TOk (a, s3) => let^ s4 := leave E s3 in let^ s5 := endf E s4 in TOk (a, s5)
  | TUnpos k s3 => let^ s4 := leave E s3 in TUnpos k (endst E s4)
  | TErr c i => TErr c i
  | TFuel => TFuel
  | TPanic => TPanic
  end.

Lemma frame_unfold {A} E endf endst (body : st -> tres (A * st)) s1 :
  frame E endf endst body s1 = (let^ s2 := enter E s1 in frame_k E endf endst (body (discard s2))).
Proof. reflexivity. Qed.

Lemma frame_k_notok {A} E endf endst (r : tres (A * st)) : notok r -> notok (frame_k E endf endst r).
Proof.
  intros H. destruct r as [[a s]|c i|k s| |]; cbn [notok frame_k] in *; try exact I; [contradiction|].
  apply notok_tbind_all. intros s4. exact I.
Qed.

Lemma frame_notok {A} E endf endst (body : st -> tres (A * st)) s1 :
  (forall s, notok (body s)) -> notok (frame E endf endst body s1).
Proof. intros H. rewrite frame_unfold. apply notok_tbind_all. intros s2. apply frame_k_notok, H. Qed.

(* the closing check of deserialize_enum *)
Definition enum_k {A} (E : env) (r : tres (A * st)) : tres (A * st) :=
  match r with
  | TOk (a, s3) =>
    let^ s4 := leave E s3 in
    let^ (o2, s5) := parse_whitespace E s4 in
    match o2 with
    | Some c => if c =? 125 then TOk (a, discard s5) else lift (error E s5 ExpectedSomeValue)
    | None => lift (error E s5 EofWhileParsingObject)
    end
  | TUnpos k s3 => let^ s4 := leave E s3 in TUnpos k s4
  | TErr c i => TErr c i
  | TFuel => TFuel
  | TPanic => TPanic
  end.

Lemma enum_k_notok {A} E (r : tres (A * st)) : notok r -> notok (enum_k E r).
Proof.
  intros H. destruct r as [[a s]|c i|k s| |]; cbn [notok enum_k] in *; try exact I; [contradiction|].
  apply notok_tbind_all. intros s4. exact I.
Qed.

Lemma scan_integer128_touched_eof E s buf s2 : scan_integer128 E s = Ok (buf, s2) -> touched s2 -> tm E = TEof.
Proof.
  unfold scan_integer128. intros H [_ Hpk]. apply bind_ok in H. destruct H as ([o s1] & _ & H).
  destruct o as [c|]; [|discriminate].
  assert (Hfin : forall c2 s3, peek_or_null E s3 = Ok (c2, s2) -> tm E = TEof).
  { intros c2 s3 Hp. apply peek_or_null_spec in Hp. destruct Hp as [(_ & _ & Htm) | (r & _ & Hp)]; [exact Htm|congruence]. }
  destruct (c =? 48).
  - apply bind_ok in H. destruct H as ([c2 s3] & Hp & H). destruct (is_digit c2); [discriminate|].
    injection H as _ <-. eapply Hfin; exact Hp.
  - destruct (is_digit19 c); [|discriminate]. cbv zeta in H.
    apply bind_ok in H. destruct H as ([c2 s3] & Hp & H). injection H as _ <-. eapply Hfin; exact Hp.
Qed.

Section THelpers.
Variable C : ctx.
Notation rk0 := (c_rk C).
Notation cf0 := (c_cf C).
Notation tm1 := (c_tm1 C).
Notation tm2 := (c_tm2 C).
Notation t := (c_t C).
Notation L := (c_L C).
Notation E1 := (mkEnv (c_rk C) (c_tm1 C) (c_cf C)).
Notation E2 := (mkEnv (c_rk C) (c_tm2 C) (c_cf C)).

Lemma vthread_dich {P A} (bm : A -> Prop) (visit : P -> st -> tres (A * st)) p s :
  vthread visit -> inv C s -> tdich C (ShP C bm) (visit p s) (visit p (ext C s)).
Proof.
  intros Hv Hi. destruct (Hv p) as [[a Ha] | [k Hk]].
  - rewrite !Ha. now apply tret_dich.
  - rewrite !Hk. exact I.
Qed.

Lemma vthread2_dich {A} (bm : A -> Prop) (visit : bytes -> bool -> st -> tres (A * st)) str b s :
  vthread2 visit -> inv C s -> tdich C (ShP C bm) (visit str b s) (visit str b (ext C s)).
Proof.
  intros Hv Hi. destruct (Hv str b) as [[a Ha] | [k Hk]].
  - rewrite !Ha. now apply tret_dich.
  - rewrite !Hk. exact I.
Qed.

(* ---------- the common head: skip whitespace, EOF => EofWhileParsingValue ---------- *)
Lemma pw_head_dich {Y} (S' : shape Y) s (k1 k2 : N -> st -> tres Y) : inv C s ->
  (forall b s1, inv C s1 -> live s1 -> tdich C S' (k1 b s1) (k2 b (ext C s1))) ->
  tdich C S'
    (let^ (o, s1) := parse_whitespace E1 s in
     match o with None => lift (peek_error E1 s1 EofWhileParsingValue) | Some b => k1 b s1 end)
    (let^ (o, s1) := parse_whitespace E2 (ext C s) in
     match o with None => lift (peek_error E2 s1 EofWhileParsingValue) | Some b => k2 b s1 end).
Proof.
  intros Hi Hk. apply (tbindP C (isNone C)); [apply lift_dich; now apply parse_whitespace_dich| |].
  - intros o s1 Hp Hi1. cbv beta iota. apply lift_ok_inv in Hp. apply (pw_facts C) in Hp. destruct o as [b|].
    + now apply Hk.
    + apply lift_dich. apply peek_error_dich; [assumption|]. right. split; [assumption|apply eofish_val].
  - intros o s1 _ Hi1 Ht1 [-> Htm]. cbv beta iota. apply lift_eofc. apply peek_error_eofc; auto using eofish_val.
Qed.

Lemma pw_head_eofc {Y} (S' : shape Y) s (k1 : N -> st -> tres Y) : inv C s -> touched s ->
  teofc C S'
    (let^ (o, s1) := parse_whitespace E1 s in
     match o with None => lift (peek_error E1 s1 EofWhileParsingValue) | Some b => k1 b s1 end).
Proof.
  intros Hi Ht. apply (tbind_eofcP C (isNone C)); [apply lift_eofc; now apply parse_whitespace_eofc|].
  intros o s1 _ Hi1 Ht1 [-> Htm]. cbv beta iota. apply lift_eofc. apply peek_error_eofc; auto using eofish_val.
Qed.

(* ---------- numbers ---------- *)
Section Number.
Variable parse : env -> bool -> st -> res (pnum * st).
Variable visit : pnum -> st -> tres (dval * st).
Hypothesis Hparse : forall pos s, inv C s -> dich C (ShP C anyv) (parse E1 pos s) (parse E2 pos (ext C s)).
Hypothesis Hvisit : vthread visit.
(* whatever the prefix run's number is rejected for, the extended run's number is rejected too *)
Hypothesis Hsafe : forall pos s p s2 p' s2', inv C s ->
  parse E1 pos s = Ok (p, s2) -> parse E2 pos (ext C s) = Ok (p', s2') ->
  notok (visit p s2) -> notok (visit p' s2').

Lemma parse_visit_dich pos s : inv C s ->
  tdich C (ShP C anyv) (let^ (p, s2) := parse E1 pos s in visit p s2)
                       (let^ (p, s2) := parse E2 pos (ext C s) in visit p s2).
Proof.
  intros Hi. apply (tbindP_gen C anyv); [apply lift_dich; now apply Hparse| |].
  - intros p s2 _ Hi2. now apply vthread_dich.
  - intros p s2 Hp Hi2 Ht2 _. apply lift_ok_inv in Hp. destruct (Hvisit p) as [[a Ha] | [k Hk]].
    + rewrite Ha. cbn [tdich ShP iv tch ex fst snd]. split; [exact Hi2|]. right. split; [exact Ht2|exact I].
    + rewrite Hk. cbn [tdich].
      destruct (parse E2 pos (ext C s)) as [[p' s2']| | |] eqn:Hp2; cbn [lift tbind notok]; try exact I.
      eapply Hsafe; [exact Hi|exact Hp|exact Hp2|]. rewrite Hk. exact I.
Qed.

Lemma num_body_dich b s1 : inv C s1 -> live s1 ->
  tdich C (ShP C anyv)
    (if b =? 45 then let^ (p, s2) := parse E1 false (discard s1) in visit p s2
     else if is_digit b then let^ (p, s2) := parse E1 true s1 in visit p s2
     else peek_invalid_type E1 s1)
    (if b =? 45 then let^ (p, s2) := parse E2 false (discard (ext C s1)) in visit p s2
     else if is_digit b then let^ (p, s2) := parse E2 true (ext C s1) in visit p s2
     else peek_invalid_type E2 (ext C s1)).
Proof.
  intros Hi Hl. destruct (b =? 45).
  { rewrite discard_ext by assumption. apply parse_visit_dich. now apply inv_discard. }
  destruct (is_digit b); [now apply parse_visit_dich|].
  now apply peek_invalid_type_dich.
Qed.
End Number.

Lemma safe_int tt pos s p s2 p' s2' : inv C s ->
  parse_integer E1 pos s = Ok (p, s2) -> parse_integer E2 pos (ext C s) = Ok (p', s2') ->
  notok (visit_int tt p s2) -> notok (visit_int tt p' s2').
Proof.
  intros Hi H1 H2 Hn. pose proof (parse_integer_mono C _ _ _ _ _ _ Hi H1 H2) as Hw.
  destruct (visit_int tt p' s2') as [d| | | |] eqn:Hv; try exact I.
  destruct (visit_int_worse tt p p' s2 s2' d Hw Hv) as [d' Hd']. rewrite Hd' in Hn. exact Hn.
Qed.

Lemma safe_no_string (parse : env -> bool -> st -> res (pnum * st)) (visit : pnum -> st -> tres (dval * st)) :
  (forall E pos s p s2, parse E pos s = Ok (p, s2) -> forall b, p <> PString b) ->
  (forall p s, notok (visit p s) -> exists b, p = PString b) ->
  forall pos s p s2 p' s2', inv C s ->
  parse E1 pos s = Ok (p, s2) -> parse E2 pos (ext C s) = Ok (p', s2') ->
  notok (visit p s2) -> notok (visit p' s2').
Proof.
  intros Hns Hv pos s p s2 p' s2' _ H1 _ Hn. exfalso.
  destruct (Hv _ _ Hn) as [b ->]. exact (Hns _ _ _ _ _ H1 b eq_refl).
Qed.

Lemma visit_f64_fail p s : notok (visit_f64 p s) -> exists b, p = PString b.
Proof. destruct p; cbn [visit_f64 notok]; try contradiction. eauto. Qed.
Lemma visit_f32_fail p s : notok (visit_f32 p s) -> exists b, p = PString b.
Proof. destruct p; cbn [visit_f32 notok]; try contradiction. eauto. Qed.

Lemma deserialize_number_int_dich tt s : inv C s ->
  tdich C (ShP C anyv) (deserialize_number E1 (visit_int tt) s) (deserialize_number E2 (visit_int tt) (ext C s)).
Proof.
  intros Hi. unfold deserialize_number. apply pw_head_dich; [assumption|].
  intros b s1 Hi1 Hl1. apply fix_position_dich.
  apply (num_body_dich parse_integer (visit_int tt)); auto.
  - intros pos s0 Hi0. now apply parse_integer_dich.
  - apply vthread_int.
  - apply safe_int.
Qed.

Lemma deserialize_number_float_dich visit s : vthread visit ->
  (forall p s, notok (visit p s) -> exists b, p = PString b) -> inv C s ->
  tdich C (ShP C anyv) (deserialize_number E1 visit s) (deserialize_number E2 visit (ext C s)).
Proof.
  intros Hv Hf Hi. unfold deserialize_number. apply pw_head_dich; [assumption|].
  intros b s1 Hi1 Hl1. apply fix_position_dich.
  apply (num_body_dich parse_integer visit); auto.
  - intros pos s0 Hi0. now apply parse_integer_dich.
  - apply safe_no_string; [apply parse_integer_no_string|exact Hf].
Qed.

Lemma deserialize_number_eofc visit s : inv C s -> touched s ->
  teofc C (ShP C nov) (deserialize_number E1 visit s).
Proof. intros Hi Ht. unfold deserialize_number. now apply pw_head_eofc. Qed.

Lemma deserialize_number_s_eofc visit s : inv C s -> touched s ->
  teofc C (ShP C nov) (deserialize_number_s E1 visit s).
Proof. intros Hi Ht. unfold deserialize_number_s. now apply pw_head_eofc. Qed.

Lemma deserialize_number_s_dich visit s : vthread visit ->
  (forall p s, notok (visit p s) -> exists b, p = PString b) -> inv C s ->
  tdich C (ShP C anyv) (deserialize_number_s E1 visit s) (deserialize_number_s E2 visit (ext C s)).
Proof.
  intros Hv Hf Hi. unfold deserialize_number_s. apply pw_head_dich; [assumption|].
  intros b s1 Hi1 Hl1. apply fix_position_dich.
  apply (num_body_dich parse_integer_s visit); auto.
  - intros pos s0 Hi0. now apply parse_integer_s_dich.
  - apply safe_no_string; [apply parse_integer_s_no_string|exact Hf].
Qed.

Lemma deserialize_f32_dich s : inv C s ->
  tdich C (ShP C anyv) (deserialize_f32 E1 s) (deserialize_f32 E2 (ext C s)).
Proof.
  intros Hi. unfold deserialize_f32. cbn [cf]. destruct (float_roundtrip cf0).
  - apply deserialize_number_s_dich; [apply vthread_f32|apply visit_f32_fail|assumption].
  - apply deserialize_number_float_dich; [apply vthread_f32|apply visit_f32_fail|assumption].
Qed.

Lemma deserialize_f32_eofc s : inv C s -> touched s -> teofc C (ShP C nov) (deserialize_f32 E1 s).
Proof.
  intros Hi Ht. unfold deserialize_f32. destruct (float_roundtrip _);
    [now apply deserialize_number_s_eofc|now apply deserialize_number_eofc].
Qed.

(* 128-bit integers *)
Lemma deserialize_i128_dich s : inv C s ->
  tdich C (ShP C anyv) (deserialize_i128 E1 s) (deserialize_i128 E2 (ext C s)).
Proof.
  intros Hi. unfold deserialize_i128. apply pw_head_dich; [assumption|].
  intros b s1 Hi1 Hl1. cbv zeta.
  assert (He : (if b =? 45 then discard (ext C s1) else ext C s1) = ext C (if b =? 45 then discard s1 else s1)).
  { destruct (b =? 45); [now apply discard_ext|reflexivity]. }
  rewrite He.
  assert (Hi2 : inv C (if b =? 45 then discard s1 else s1)) by (destruct (b =? 45); [now apply inv_discard|assumption]).
  apply (tbindP C anyv); [apply lift_dich; now apply scan_integer128_dich| |].
  - intros buf s2 _ Hi3. cbv beta iota. destruct (parse_i128 _ buf); [now apply tret_dich|].
    apply lift_dich. now apply error_dich.
  - intros buf s2 Hp Hi3 Ht3 _. cbv beta iota. apply lift_ok_inv in Hp.
    destruct (parse_i128 _ buf); [apply tret_eofc; auto; exact I|].
    apply lift_eofc. apply error_eofc; auto using eofish_range.
    exact (scan_integer128_touched_eof _ _ _ _ Hp Ht3).
Qed.

Lemma deserialize_u128_dich s : inv C s ->
  tdich C (ShP C anyv) (deserialize_u128 E1 s) (deserialize_u128 E2 (ext C s)).
Proof.
  intros Hi. unfold deserialize_u128. apply pw_head_dich; [assumption|].
  intros b s1 Hi1 Hl1. destruct (b =? 45).
  { apply lift_dich. apply peek_error_dich; auto. }
  apply (tbindP C anyv); [apply lift_dich; now apply scan_integer128_dich| |].
  - intros buf s2 _ Hi3. cbv beta iota. destruct (parse_u128 buf); [now apply tret_dich|].
    apply lift_dich. now apply error_dich.
  - intros buf s2 Hp Hi3 Ht3 _. cbv beta iota. apply lift_ok_inv in Hp.
    destruct (parse_u128 buf); [apply tret_eofc; auto; exact I|].
    apply lift_eofc. apply error_eofc; auto using eofish_range.
    exact (scan_integer128_touched_eof _ _ _ _ Hp Ht3).
Qed.

Lemma deserialize_int_dich tt s : inv C s ->
  tdich C (ShP C anyv) (deserialize_int E1 tt s) (deserialize_int E2 tt (ext C s)).
Proof.
  intros Hi. destruct tt; cbn [deserialize_int];
    first [now apply deserialize_i128_dich | now apply deserialize_u128_dich | now apply deserialize_number_int_dich].
Qed.

Lemma deserialize_int_eofc tt s : inv C s -> touched s -> teofc C (ShP C nov) (deserialize_int E1 tt s).
Proof.
  intros Hi Ht. destruct tt; cbn [deserialize_int]; try (now apply deserialize_number_eofc).
  - unfold deserialize_i128. now apply pw_head_eofc.
  - unfold deserialize_u128. now apply pw_head_eofc.
Qed.

(* ---------- bool, unit, strings ---------- *)
Lemma deserialize_bool_dich s : inv C s ->
  tdich C (ShP C nov) (deserialize_bool E1 s) (deserialize_bool E2 (ext C s)).
Proof.
  intros Hi. unfold deserialize_bool. apply pw_head_dich; [assumption|].
  intros b s1 Hi1 Hl1. apply fix_position_dich.
  assert (Hid : inv C (discard s1)) by now apply inv_discard.
  destruct (b =? 116).
  { rewrite discard_ext by assumption. apply tbindSn; [apply lift_dich; now apply parse_ident_dich|].
    intros s2 _ Hi2. now apply tret_dich. }
  destruct (b =? 102).
  { rewrite discard_ext by assumption. apply tbindSn; [apply lift_dich; now apply parse_ident_dich|].
    intros s2 _ Hi2. now apply tret_dich. }
  now apply peek_invalid_type_dich.
Qed.

Lemma deserialize_bool_eofc s : inv C s -> touched s -> teofc C (ShP C nov) (deserialize_bool E1 s).
Proof. intros Hi Ht. unfold deserialize_bool. now apply pw_head_eofc. Qed.

Lemma deserialize_unit_dich s : inv C s ->
  tdich C (ShP C nov) (deserialize_unit E1 s) (deserialize_unit E2 (ext C s)).
Proof.
  intros Hi. unfold deserialize_unit. apply pw_head_dich; [assumption|].
  intros b s1 Hi1 Hl1. apply fix_position_dich.
  assert (Hid : inv C (discard s1)) by now apply inv_discard.
  destruct (b =? 110).
  { rewrite discard_ext by assumption. apply tbindSn; [apply lift_dich; now apply parse_ident_dich|].
    intros s2 _ Hi2. now apply tret_dich. }
  now apply peek_invalid_type_dich.
Qed.

Lemma deserialize_unit_eofc s : inv C s -> touched s -> teofc C (ShP C nov) (deserialize_unit E1 s).
Proof. intros Hi Ht. unfold deserialize_unit. now apply pw_head_eofc. Qed.

Lemma deserialize_str_dich {A} (visit : bytes -> bool -> st -> tres (A * st)) s : vthread2 visit -> inv C s ->
  tdich C (ShP C nov) (deserialize_str E1 visit s) (deserialize_str E2 visit (ext C s)).
Proof.
  intros Hv Hi. unfold deserialize_str. apply pw_head_dich; [assumption|].
  intros b s1 Hi1 Hl1. apply fix_position_dich.
  destruct (b =? 34); [|now apply peek_invalid_type_dich].
  rewrite discard_ext by assumption.
  apply tbind_strict; [apply lift_dich; apply parse_str_dich; now apply inv_discard|].
  intros [str bw] s2 _ Hi2. cbv beta iota. now apply vthread2_dich.
Qed.

Lemma deserialize_str_eofc {A} (visit : bytes -> bool -> st -> tres (A * st)) s : inv C s -> touched s ->
  teofc C (ShP C nov) (deserialize_str E1 visit s).
Proof. intros Hi Ht. unfold deserialize_str. now apply pw_head_eofc. Qed.

(* ---------- the container frame ---------- *)
Lemma leave_teofc s : inv C s -> touched s -> teofc C (ShS C) (lift (leave E1 s)).
Proof.
  intros Hi Ht. unfold leave. cbn [cf]. destruct (limit_disabled cf0); [cbn [lift teofc ShS iv tch]; auto|].
  destruct (255 <=? depth s); [exact I|]. cbn [lift teofc ShS iv tch]. split; [exact Hi|exact Ht].
Qed.

Section Frame.
Context {A : Type}.
Variables (endf : env -> st -> res st) (endst : env -> st -> st).
Hypothesis Hendf : forall s, inv C s -> tdich C (ShSn C) (lift (endf E1 s)) (lift (endf E2 (ext C s))).
Hypothesis Hendf_eofc : forall s, inv C s -> touched s -> eofc C (ShSn C) (endf E1 s).

(* Note on TPanic.  A typed fixed-length sequence can end at the boundary (`[1` for (u8,)): then `leave` (the
   check_recursion! epilogue, whose u8 increment is modelled with its overflow check as Panic) runs in boundary mode,
   where nothing is known about the extended run.  Excluding that Panic needs "the body restores the depth budget",
   which is part of the totality development of the typed model; therefore [tdich] / [teofc] make no claim when the
   prefix run is TPanic (or TFuel). *)
Lemma frame_k_dich (bm : A -> Prop) r rt : tdich C (ShP C bm) r rt ->
  tdich C (ShP C nov) (frame_k E1 endf endst r) (frame_k E2 endf endst rt).
Proof.
  destruct r as [[a s3]|c i|k s3| |]; cbn [tdich ShP iv tch ex fst snd].
  - intros [Hi [-> | [Ht Hb]]].
    + cbn [frame_k]. apply tbindSn; [apply lift_dich; now apply leave_dich|]. intros s4 _ Hi4.
      apply tbindSn; [now apply Hendf|]. intros s5 _ Hi5. now apply tret_dich.
    + apply tdich_of_teofc. cbn [frame_k].
      apply (tbind_eofcS C); [now apply leave_teofc|]. intros s4 _ Hi4 Ht4.
      apply (tbind_eofc_none C (ShSn C)); [apply lift_eofc; now apply Hendf_eofc|]. intros x [].
  - intros [-> | [Hb | [Hs Hn]]]; cbn [frame_k tdich]; auto. right; right. split; [assumption|now apply frame_k_notok].
  - intros Hn. cbn [frame_k]. unfold leave. cbn [cf]. destruct (limit_disabled cf0).
    + cbn [lift tbind tdich]. now apply frame_k_notok.
    + destruct (255 <=? depth s3); cbn [lift tbind tdich]; [exact I|now apply frame_k_notok].
  - intros _. exact I.
  - intros _. exact I.
Qed.

Lemma frame_dich (bm : A -> Prop) (body1 body2 : st -> tres (A * st)) s1 : inv C s1 -> live s1 ->
  (forall s, inv C s -> tdich C (ShP C bm) (body1 s) (body2 (ext C s))) ->
  tdich C (ShP C nov) (frame E1 endf endst body1 s1) (frame E2 endf endst body2 (ext C s1)).
Proof.
  intros Hi Hl Hb. rewrite !frame_unfold.
  apply tbindSn; [apply lift_dich; now apply enter_dich|]. intros s2 He Hi2.
  apply lift_ok_inv in He. apply enter_spec in He. destruct He as [Her _].
  assert (Hl2 : live s2) by (unfold live in *; congruence).
  rewrite discard_ext by assumption. apply (frame_k_dich bm). apply Hb. now apply inv_discard.
Qed.
End Frame.

Lemma end_map_tdich s : inv C s -> tdich C (ShSn C) (lift (end_map E1 s)) (lift (end_map E2 (ext C s))).
Proof. intros Hi. apply lift_dich. now apply end_map_dich. Qed.

Section Containers.
Context {A : Type}.
Variable bm : A -> Prop.

Lemma deserialize_seq_dich (body1 body2 : st -> tres (A * st)) s : inv C s ->
  (forall s', inv C s' -> tdich C (ShP C bm) (body1 s') (body2 (ext C s'))) ->
  tdich C (ShP C nov) (deserialize_seq E1 body1 s) (deserialize_seq E2 body2 (ext C s)).
Proof.
  intros Hi Hb. unfold deserialize_seq. apply pw_head_dich; [assumption|].
  intros b s1 Hi1 Hl1. apply fix_position_dich.
  destruct (b =? 91); [|now apply peek_invalid_type_dich].
  apply (frame_dich end_seq end_seq_st (end_seq_tdich C) (end_seq_eofc C) bm); assumption.
Qed.

Lemma deserialize_map_dich (body1 body2 : st -> tres (A * st)) s : inv C s ->
  (forall s', inv C s' -> tdich C (ShP C bm) (body1 s') (body2 (ext C s'))) ->
  tdich C (ShP C nov) (deserialize_map E1 body1 s) (deserialize_map E2 body2 (ext C s)).
Proof.
  intros Hi Hb. unfold deserialize_map. apply pw_head_dich; [assumption|].
  intros b s1 Hi1 Hl1. apply fix_position_dich.
  destruct (b =? 123); [|now apply peek_invalid_type_dich].
  apply (frame_dich end_map end_map_st end_map_tdich (end_map_eofc C) bm); assumption.
Qed.

Lemma deserialize_struct_dich (bs1 bs2 bm1 bm2 : st -> tres (A * st)) s : inv C s ->
  (forall s', inv C s' -> tdich C (ShP C bm) (bs1 s') (bs2 (ext C s'))) ->
  (forall s', inv C s' -> tdich C (ShP C bm) (bm1 s') (bm2 (ext C s'))) ->
  tdich C (ShP C nov) (deserialize_struct E1 bs1 bm1 s) (deserialize_struct E2 bs2 bm2 (ext C s)).
Proof.
  intros Hi Hbs Hbm. unfold deserialize_struct. apply pw_head_dich; [assumption|].
  intros b s1 Hi1 Hl1. apply fix_position_dich.
  destruct (b =? 91).
  { apply (frame_dich end_seq end_seq_st (end_seq_tdich C) (end_seq_eofc C) bm); assumption. }
  destruct (b =? 123); [|now apply peek_invalid_type_dich].
  apply (frame_dich end_map end_map_st end_map_tdich (end_map_eofc C) bm); assumption.
Qed.

Lemma deserialize_seq_eofc (body1 : st -> tres (A * st)) s : inv C s -> touched s ->
  teofc C (ShP C nov) (deserialize_seq E1 body1 s).
Proof. intros Hi Ht. unfold deserialize_seq. now apply pw_head_eofc. Qed.
Lemma deserialize_map_eofc (body1 : st -> tres (A * st)) s : inv C s -> touched s ->
  teofc C (ShP C nov) (deserialize_map E1 body1 s).
Proof. intros Hi Ht. unfold deserialize_map. now apply pw_head_eofc. Qed.
Lemma deserialize_struct_eofc (b1 b2 : st -> tres (A * st)) s : inv C s -> touched s ->
  teofc C (ShP C nov) (deserialize_struct E1 b1 b2 s).
Proof. intros Hi Ht. unfold deserialize_struct. now apply pw_head_eofc. Qed.

(* ---------- enum frame ---------- *)
Lemma enum_k_dich r rt : tdich C (ShP C bm) r rt -> tdich C (ShP C nov) (enum_k E1 r) (enum_k E2 rt).
Proof.
  destruct r as [[a s3]|c i|k s3| |]; cbn [tdich ShP iv tch ex fst snd].
  - intros [Hi [-> | [Ht Hb]]].
    + cbn [enum_k]. apply tbindSn; [apply lift_dich; now apply leave_dich|]. intros s4 _ Hi4.
      apply (tbindP C (isNone C)); [apply lift_dich; now apply parse_whitespace_dich| |].
      * intros o2 s5 Hp Hi5. cbv beta iota. apply lift_ok_inv in Hp. apply (pw_facts C) in Hp. destruct o2 as [c|].
        -- destruct (c =? 125).
           ++ rewrite discard_ext by assumption. apply tret_dich. now apply inv_discard.
           ++ apply lift_dich. now apply error_dich.
        -- apply lift_dich. now apply error_dich.
      * intros o2 s5 _ Hi5 Ht5 [-> Htm]. cbv beta iota. apply lift_eofc. apply error_eofc; auto using eofish_obj.
    + apply tdich_of_teofc. cbn [enum_k].
      apply (tbind_eofcS C); [now apply leave_teofc|]. intros s4 _ Hi4 Ht4.
      apply (tbind_eofcP C (isNone C)); [apply lift_eofc; now apply parse_whitespace_eofc|].
      intros o2 s5 _ Hi5 Ht5 [-> Htm]. cbv beta iota. apply lift_eofc. apply error_eofc; auto using eofish_obj.
  - intros [-> | [Hb | [Hs Hn]]]; cbn [enum_k tdich]; auto. right; right. split; [assumption|now apply enum_k_notok].
  - intros Hn. cbn [enum_k]. unfold leave. cbn [cf]. destruct (limit_disabled cf0).
    + cbn [lift tbind tdich]. now apply enum_k_notok.
    + destruct (255 <=? depth s3); cbn [lift tbind tdich]; [exact I|now apply enum_k_notok].
  - intros _. exact I.
  - intros _. exact I.
Qed.

Lemma deserialize_enum_unfold E (bmap bunit : st -> tres (A * st)) s :
  deserialize_enum E bmap bunit s =
  (let^ (o, s1) := parse_whitespace E s in
   match o with
   | None => lift (peek_error E s1 EofWhileParsingValue)
   | Some b =>
     if b =? 123 then let^ s2 := enter E s1 in enum_k E (bmap (discard s2))
     else if b =? 34 then bunit s1
     else lift (peek_error E s1 ExpectedSomeValue)
   end).
Proof. reflexivity. Qed.

Lemma deserialize_enum_dich (bmap1 bmap2 bunit1 bunit2 : st -> tres (A * st)) s : inv C s ->
  (forall s', inv C s' -> tdich C (ShP C bm) (bmap1 s') (bmap2 (ext C s'))) ->
  (forall s', inv C s' -> tdich C (ShP C nov) (bunit1 s') (bunit2 (ext C s'))) ->
  tdich C (ShP C nov) (deserialize_enum E1 bmap1 bunit1 s) (deserialize_enum E2 bmap2 bunit2 (ext C s)).
Proof.
  intros Hi Hbm Hbu. rewrite !deserialize_enum_unfold. apply pw_head_dich; [assumption|].
  intros b s1 Hi1 Hl1. destruct (b =? 123).
  { apply tbindSn; [apply lift_dich; now apply enter_dich|]. intros s2 He Hi2.
    apply lift_ok_inv in He. apply enter_spec in He. destruct He as [Her _].
    assert (Hl2 : live s2) by (unfold live in *; congruence).
    rewrite discard_ext by assumption. apply enum_k_dich. apply Hbm. now apply inv_discard. }
  destruct (b =? 34); [now apply Hbu|].
  apply lift_dich. apply peek_error_dich; auto.
Qed.

Lemma deserialize_enum_eofc (bmap1 bunit1 : st -> tres (A * st)) s : inv C s -> touched s ->
  teofc C (ShP C nov) (deserialize_enum E1 bmap1 bunit1 s).
Proof. intros Hi Ht. rewrite deserialize_enum_unfold. now apply pw_head_eofc. Qed.
End Containers.

(* ---------- map keys ---------- *)
Lemma numeric_key_dich (d1 d2 : st -> tres (dval * st)) s : inv C s -> live s ->
  (forall s', inv C s' -> tdich C (ShP C anyv) (d1 s') (d2 (ext C s'))) ->
  tdich C (ShP C nov) (numeric_key E1 d1 s) (numeric_key E2 d2 (ext C s)).
Proof.
  intros Hi Hl Hd. unfold numeric_key. cbv zeta. rewrite discard_ext by assumption.
  apply (tbindP C (isNone C)); [apply lift_dich; apply peek_dich; now apply inv_discard| |].
  2:{ intros o s1 _ Hi1 Ht1 [-> Htm]. cbv beta iota. apply lift_eofc. apply peek_error_eofc; auto using eofish_str. }
  intros o s1 Hp Hi1. cbv beta iota. apply lift_ok_inv in Hp. apply peek_spec in Hp. cbn [tm] in Hp. destruct o as [b|].
  2:{ apply lift_dich. apply peek_error_dich; [assumption|]. right. split; [tauto|apply eofish_str]. }
  destruct (is_digit b || (b =? 45)); [|apply lift_dich; now apply error_dich].
  apply (tbindP C anyv); [now apply Hd| |].
  - intros d s2 _ Hi2.
    apply (tbindP C (isNone C)); [apply lift_dich; now apply peek_dich| |].
    + intros o2 s3 Hp2 Hi3. cbv beta iota. apply lift_ok_inv in Hp2. apply peek_spec in Hp2. cbn [tm] in Hp2.
      destruct o2 as [c|].
      * assert (Hl3 : live s3) by (destruct Hp2 as (r & Hr & _); unfold live; congruence).
        destruct (c =? 34).
        -- rewrite discard_ext by assumption. apply tret_dich. now apply inv_discard.
        -- apply lift_dich. apply peek_error_dich; auto.
      * apply lift_dich. apply peek_error_dich; [assumption|]. right. split; [tauto|apply eofish_str].
    + intros o2 s3 _ Hi3 Ht3 [-> Htm]. cbv beta iota. apply lift_eofc. apply peek_error_eofc; auto using eofish_str.
  - intros d s2 _ Hi2 Ht2 _.
    apply (tbind_eofcP C (isNone C)); [apply lift_eofc; now apply peek_eofc|].
    intros o2 s3 _ Hi3 Ht3 [-> Htm]. cbv beta iota. apply lift_eofc. apply peek_error_eofc; auto using eofish_str.
Qed.

Lemma key_bool_dich s : inv C s -> live s ->
  tdich C (ShP C nov) (key_bool E1 s) (key_bool E2 (ext C s)).
Proof.
  intros Hi Hl. unfold key_bool. cbv zeta. rewrite discard_ext by assumption.
  apply (tbindP C (isNone C)); [apply lift_dich; apply peek_dich; now apply inv_discard| |].
  2:{ intros o s1 _ Hi1 Ht1 [-> Htm]. cbv beta iota. apply lift_eofc. apply peek_error_eofc; auto using eofish_val. }
  intros o s1 Hp Hi1. cbv beta iota. apply lift_ok_inv in Hp. apply peek_spec in Hp. cbn [tm] in Hp. destruct o as [b|].
  2:{ apply lift_dich. apply peek_error_dich; [assumption|]. right. split; [tauto|apply eofish_val]. }
  assert (Hl1 : live s1) by (destruct Hp as (r & Hr & _); unfold live; congruence).
  assert (Hid : inv C (discard s1)) by now apply inv_discard.
  apply fix_position_dich.
  destruct (b =? 116).
  { rewrite discard_ext by assumption. apply tbindSn; [apply lift_dich; now apply parse_ident_dich|].
    intros s2 _ Hi2. now apply tret_dich. }
  destruct (b =? 102).
  { rewrite discard_ext by assumption. apply tbindSn; [apply lift_dich; now apply parse_ident_dich|].
    intros s2 _ Hi2. now apply tret_dich. }
  apply tbind_strict; [apply lift_dich; now apply parse_str_dich|].
  intros [str bw] s2 _ Hi2. exact I.
Qed.

End THelpers.
