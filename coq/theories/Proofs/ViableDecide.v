(* Proofs/ViableDecide.v — the side conditions of C11_eof_viable_partial as boolean functions, with proofs that
   they are equivalent to the propositional forms used in Proofs/Viable.v; reader (io::Read) versions.

     utf8_prefixb p   : one of six candidate completions of a truncated final UTF-8 sequence makes p valid
     badb cf p        : some suffix of p ends in e+ / E+ and, completed with the digit 0, is out of range
     HRnumb cf p      : arbitrary_precision || negb (badb cf p)
     C11_eof_viable_decidable, C11_eof_viable_reader *)
From Coq Require Import List NArith ZArith Bool Arith Lia ZifyBool ZifyNat ZifyN.
From SJ Require Import Base.Bytes Base.Utf8 Base.FloatB Gen.Tables Model.Read Model.Str Model.Num Model.Value Model.De
  Spec.Syntax Spec.Denote.
From SJ Require Import Proofs.Utf8Lemmas Proofs.GrammarFinal Proofs.ViableBase Proofs.ViableNum Proofs.Viable.
Import ListNotations.
Open Scope N_scope.

Local Notation SE cf := (mkEnv RSlice TEof cf).

(* ------------------------------------------------------------------------------------------ *)
(** * 1. UTF-8 prefixes *)
Definition utf8_cands : list bytes := [[]; [128]; [128; 128]; [128; 128; 128]; [160; 128]; [144; 128; 128]].
Definition utf8_prefixb (p : bytes) : bool := existsb (fun c => utf8_valid (p ++ c)) utf8_cands.

Lemma utf8_prefixb_sound p : utf8_prefixb p = true -> utf8_prefix p.
Proof.
  unfold utf8_prefixb. intros H. apply existsb_exists in H as (c & Hin & Hv). exists c. split; [|exact Hv].
  cbn [utf8_cands In] in Hin. repeat (destruct Hin as [<-|Hin]; [reflexivity|]). destruct Hin.
Qed.

Lemma conts_valid_nil c : forallb is_cont c = true -> utf8_valid c = true -> c = [].
Proof.
  destruct c as [|b r]; [reflexivity|]. cbn [forallb]. intros H Hv. apply andb_prop in H as [Hb _]. exfalso.
  apply utf8_valid_head in Hv as [Hv|[(b0 & r0 & He & Hb0 & _)|[(b0 & b1 & r0 & He & Hs & _)|[(b0 & b1 & b2 & r0 & He & Hs & _)|(b0 & b1 & b2 & b3 & r0 & He & Hs & _)]]]];
    [discriminate Hv| | | |]; injection He as <- _; unrng; lia.
Qed.

Ltac incand := cbn [utf8_cands In]; repeat ((left; reflexivity) || right).

Lemma prefixb_of c p : In c utf8_cands -> utf8_valid (p ++ c) = true -> utf8_prefixb p = true.
Proof. intros Hin Hv. unfold utf8_prefixb. apply existsb_exists. exists c. auto. Qed.

Lemma prefixb_step pre p : (forall x, utf8_valid (pre ++ x) = utf8_valid x) -> utf8_prefixb p = true -> utf8_prefixb (pre ++ p) = true.
Proof.
  intros Hpre H. unfold utf8_prefixb in *. apply existsb_exists in H as (c & Hin & Hv). apply existsb_exists.
  exists c. split; [exact Hin|]. rewrite <- app_assoc, Hpre. exact Hv.
Qed.

Lemma utf8_prefixb_complete : forall n p, (length p <= n)%nat -> utf8_prefix p -> utf8_prefixb p = true.
Proof.
  induction n as [|n IH]; intros p Hlen (c & Hc & Hv).
  { destruct p; [reflexivity|cbn [length] in Hlen; lia]. }
  assert (Hcb : forall b r, c = b :: r -> 128 <= b <= 191 /\ forallb is_cont r = true).
  { intros b r ->. cbn [forallb] in Hc. apply andb_prop in Hc as [Hb Hr]. unrng. split; [lia|exact Hr]. }
  pose proof Hv as Hv0.
  apply utf8_valid_head in Hv as [Hv|[(b0 & r0 & He & Hb0 & Hr)|[(b0 & b1 & r0 & He & Hs & Hr)|[(b0 & b1 & b2 & r0 & He & Hs & Hr)|(b0 & b1 & b2 & b3 & r0 & He & Hs & Hr)]]]].
  - apply app_eq_nil in Hv as [-> _]. reflexivity.
  - destruct p as [|x p'].
    + cbn [app] in He. destruct (Hcb _ _ He) as [Hx _]. lia.
    + cbn [app] in He. injection He as <- <-. cbn [length] in Hlen.
      apply (prefixb_step [x]); [intros y; cbn [app]; apply utf8_valid_cons_ascii; exact Hb0|].
      apply IH; [lia|]. exists c. auto.
  - destruct p as [|x [|y p']].
    + cbn [app] in He. destruct (Hcb _ _ He) as [Hx _]. unrng. lia.
    + cbn [app] in He. injection He as <- Hc1. destruct (Hcb _ _ Hc1) as [_ Hr0]. rewrite (conts_valid_nil r0 Hr0 Hr) in Hc1.
      apply (prefixb_of [128]); [incand|]. cbn [app]. rewrite (utf8_valid_seq2 x 128 []); [reflexivity|]. unrng. lia.
    + cbn [app] in He. injection He as <- <- <-. cbn [length] in Hlen.
      apply (prefixb_step [x; y]); [intros z; cbn [app]; apply utf8_valid_seq2; exact Hs|].
      apply IH; [lia|]. exists c. auto.
  - destruct p as [|x [|y [|z p']]].
    + cbn [app] in He. destruct (Hcb _ _ He) as [Hx _]. unrng. lia.
    + cbn [app] in He. injection He as <- Hc1. destruct c as [|c1 [|c2 c']]; try discriminate Hc1. injection Hc1 as <- <- <-.
      destruct (N.eqb_spec x 224) as [->|Hx].
      * apply (prefixb_of [160; 128]); [incand|]. reflexivity.
      * apply (prefixb_of [128; 128]); [incand|]. cbn [app]. rewrite (utf8_valid_seq3 x 128 128 []); [reflexivity|]. unrng. lia.
    + cbn [app] in He. injection He as <- <- Hc1. destruct (Hcb _ _ Hc1) as [_ Hr0]. rewrite (conts_valid_nil r0 Hr0 Hr) in Hc1.
      apply (prefixb_of [128]); [incand|]. cbn [app]. rewrite (utf8_valid_seq3 x y 128 []); [reflexivity|]. unrng. lia.
    + cbn [app] in He. injection He as <- <- <- <-. cbn [length] in Hlen.
      apply (prefixb_step [x; y; z]); [intros u; cbn [app]; apply utf8_valid_seq3; exact Hs|].
      apply IH; [lia|]. exists c. auto.
  - destruct p as [|x [|y [|z [|u p']]]].
    + cbn [app] in He. destruct (Hcb _ _ He) as [Hx _]. unrng. lia.
    + cbn [app] in He. injection He as <- Hc1.
      destruct (N.eqb_spec x 240) as [->|Hx].
      * apply (prefixb_of [144; 128; 128]); [incand|]. reflexivity.
      * apply (prefixb_of [128; 128; 128]); [incand|]. cbn [app].
        rewrite (utf8_valid_seq4 x 128 128 128 []); [reflexivity|]. unrng. lia.
    + cbn [app] in He. injection He as <- <- Hc1.
      apply (prefixb_of [128; 128]); [incand|]. cbn [app].
      rewrite (utf8_valid_seq4 x y 128 128 []); [reflexivity|]. unrng. lia.
    + cbn [app] in He. injection He as <- <- <- Hc1.
      apply (prefixb_of [128]); [incand|]. cbn [app].
      rewrite (utf8_valid_seq4 x y z 128 []); [reflexivity|]. unrng. lia.
    + cbn [app] in He. injection He as <- <- <- <- <-. cbn [length] in Hlen.
      apply (prefixb_step [x; y; z; u]); [intros v; cbn [app]; apply utf8_valid_seq4; exact Hs|].
      apply IH; [lia|]. exists c. auto.
Qed.

Theorem utf8_prefixb_iff p : utf8_prefixb p = true <-> utf8_prefix p.
Proof. split; [apply utf8_prefixb_sound|apply (utf8_prefixb_complete (length p)), Nat.le_refl]. Qed.

(* ------------------------------------------------------------------------------------------ *)
(** * 2. The number-range exclusion *)
Definition ends_epb (l : bytes) : bool :=
  match rev l with a :: x :: _ => (a =? 43) && ((x =? 101) || (x =? 69)) | _ => false end.
Definition is_oor {A} (r : res A) : bool := match r with Err NumberOutOfRange _ => true | _ => false end.
Fixpoint tails (l : bytes) : list bytes := l :: match l with [] => [] | _ :: r => tails r end.
Definition lit_bad (cf : cfg) (lit : bytes) : bool :=
  ends_epb lit &&
  (is_oor (parse_any_number (env0 cf) true (init_st (lit ++ [48]))) ||
   is_oor (parse_any_number (env0 cf) false (init_st (lit ++ [48])))).
Definition badb (cf : cfg) (r : bytes) : bool := existsb (lit_bad cf) (tails r).
Definition HRnumb (cf : cfg) (p : bytes) : bool := arbitrary_precision cf || negb (badb cf p).

Lemma ends_epb_iff l : ends_epb l = true <-> EP l.
Proof.
  unfold ends_epb, EP. split.
  - intros H. destruct (rev l) as [|a [|x r]] eqn:Hr; try discriminate H.
    apply andb_prop in H as [Ha H]. apply N.eqb_eq in Ha. subst a.
    exists (rev r), x. split; [|exact H]. rewrite <- (rev_involutive l), Hr. cbn [rev]. rewrite <- app_assoc. reflexivity.
  - intros (m & x & -> & Hx). rewrite rev_app_distr. cbn [rev app]. rewrite Hx. reflexivity.
Qed.

Lemma tails_in a l : In l (tails (a ++ l)).
Proof. induction a as [|x a IH]; cbn [app]; [destruct l; left; reflexivity|]. cbn [tails]. right. exact IH. Qed.
Lemma tails_suffix l : forall x, In x (tails l) -> exists a, l = a ++ x.
Proof.
  induction l as [|b l IH]; intros x Hin; cbn [tails In] in Hin.
  - destruct Hin as [<-|[]]. exists []. reflexivity.
  - destruct Hin as [<-|Hin]; [exists []; reflexivity|]. destruct (IH x Hin) as (a & ->). exists (b :: a). reflexivity.
Qed.

Lemma is_oor_iff {A} (r : res A) : is_oor r = true <-> exists j, r = Err NumberOutOfRange j.
Proof.
  split.
  - destruct r as [a|c j| |]; try discriminate. destruct c; try discriminate. intros _. eauto.
  - intros (j & ->). reflexivity.
Qed.

Theorem badb_iff cf r : badb cf r = true <-> Bad cf r.
Proof.
  unfold badb, Bad. split.
  - intros H. apply existsb_exists in H as (lit & Hin & Hb). destruct (tails_suffix r lit Hin) as (a & ->).
    unfold lit_bad in Hb. apply andb_prop in Hb as [He Ho]. apply ends_epb_iff in He.
    apply orb_prop in Ho as [Ho|Ho]; apply is_oor_iff in Ho as (j & Hj).
    + exists a, lit, true, j. auto.
    + exists a, lit, false, j. auto.
  - intros (a & lit & pos & j & -> & He & Hj). apply existsb_exists. exists lit. split; [apply tails_in|].
    unfold lit_bad. apply ends_epb_iff in He. rewrite He. cbn [andb].
    destruct pos; rewrite Hj; cbn [is_oor]; [reflexivity|apply orb_true_r].
Qed.

Theorem HRnumb_iff cf p : HRnumb cf p = true <-> HRnum cf p.
Proof.
  unfold HRnumb, HRnum. split.
  - intros H. apply orb_prop in H as [H|H]; [left; exact H|right]. apply negb_true_iff in H.
    intros Hb. apply badb_iff in Hb. congruence.
  - intros [H|H]; [rewrite H; reflexivity|]. destruct (badb cf p) eqn:Hb; [|apply orb_true_r].
    exfalso. apply H, badb_iff, Hb.
Qed.

(* ------------------------------------------------------------------------------------------ *)
(** * 3. The theorem with decidable side conditions; io::Read input *)
Theorem C11_eof_viable_decidable : forall cf p c i,
  from_input (SE cf) p = Err c i -> category c = CatEof ->
  utf8_prefixb p = true -> esc_tail_ok p = true -> HRnumb cf p = true ->
  exists t v, from_input (SE cf) (p ++ t) = Ok v.
Proof.
  intros cf p c i H Hc Hu Hl Hr.
  destruct (C11_eof_viable_partial cf p c i H Hc (utf8_prefixb_sound p Hu) Hl (proj1 (HRnumb_iff cf p) Hr)) as (t & _ & v & Hv).
  eauto.
Qed.

Theorem C11_eof_viable_reader : forall cf p c i,
  from_input (mkEnv RIo TEof cf) p = Err c i -> category c = CatEof ->
  utf8_prefixb p = true -> esc_tail_ok p = true -> HRnumb cf p = true ->
  exists t v, from_input (mkEnv RIo TEof cf) (p ++ t) = Ok v.
Proof.
  intros cf p c i H Hc Hu Hl Hr. rewrite from_input_io_slice in H.
  destruct (C11_eof_viable_decidable cf p c i H Hc Hu Hl Hr) as (t & v & Hv).
  exists t, v. rewrite from_input_io_slice. exact Hv.
Qed.

Theorem C11_eof_viable_grammar_reader : forall cf p c i,
  from_input (mkEnv RIo TEof cf) p = Err c i -> category c = CatEof ->
  utf8_prefixb p = true -> esc_tail_ok p = true ->
  exists t, InLang (cf_ap cf) (p ++ t).
Proof.
  intros cf p c i H Hc Hu Hl. rewrite from_input_io_slice in H.
  exact (C11_eof_viable_grammar cf p c i H Hc (utf8_prefixb_sound p Hu) Hl).
Qed.

(* sanity: the conditions evaluate *)
Example dec_ok : utf8_prefixb [91; 34; 226; 130] = true /\ esc_tail_ok [91; 34; 226; 130] = true
                 /\ HRnumb (mkCfg false false false false) [91; 34; 226; 130] = true.
Proof. vm_compute. repeat split. Qed.
Example dec_bad_utf8 : utf8_prefixb [34; 255] = false /\ utf8_prefixb [34; 226; 40] = false.
Proof. vm_compute. split; reflexivity. Qed.

Print Assumptions utf8_prefixb_iff.
Print Assumptions badb_iff.
Print Assumptions C11_eof_viable_decidable.
Print Assumptions C11_eof_viable_reader.
