(* Proofs/TypedPrefix.v — the prefix dichotomy for the TYPED deserializer (Model/DeTyped.v) and its corollaries
   C10_typed, C13_typed (typed clauses of C10 / C13).

   Parts:  TypedPrefixBase (framework [tdich] / [teofc] on [tres], peek_invalid_type, end_seq from any state),
           TypedPrefixInt  (a rejected integer at the boundary stays rejected when more digits follow),
           TypedPrefixF32  (Model/NumF32.v), TypedPrefixDe (deserialize_* requests, container / enum frames, key
           wrappers), TypedPrefixIgnore (deserialize_raw_value), this file (induction on fuel over
           de_typed / de_elems / de_tuple / de_entries / de_fields / de_struct / de_key; top level; corollaries).

   What is proved, for EVERY type program [t] (no restriction on [ty] / [kty]), reader kind and cfg:
     typed_dich   : [tdich] between from_input_typed on p and on p ++ tl (both terminators)
     C10_typed    : p ++ tl accepted  ==>  p yields TOk, or TErr c (length p) with [eofish c], or TFuel / TPanic;
                    in particular never TUnpos and never a Syntax / Data error
     C13_typed    : see the statement; the known class F18 (a visitor's Data error masks an I/O error raised inside the
                    following end_seq()/end_map()) is an explicit alternative, witnessed by C13_typed_known_F18_witness
   TFuel / TPanic of the prefix run are NOT excluded here: that is the totality property of the typed model. *)
From SJ Require Import Base.Bytes Base.Utf8 Base.FloatB Gen.Tables
  Model.Read Model.Str Model.Num Model.NumF32 Model.Value Model.De Model.Ignore Model.Ty Model.DeTyped.
From SJ Require Import Proofs.PrefixBase Proofs.PrefixStr Proofs.PrefixNum Proofs.PrefixDe Proofs.PrefixIgnore Proofs.Prefix.
From SJ Require Import Proofs.TypedPrefixBase Proofs.TypedPrefixInt Proofs.TypedPrefixF32 Proofs.TypedPrefixDe
  Proofs.TypedPrefixIgnore.
Require Import Lia ZifyBool ZifyNat ZifyN.
Open Scope N_scope.
#[local] Arguments iv {X}.
#[local] Arguments ex {X}.
#[local] Arguments tch {X}.

(* finish_struct does not read: its outcome is the same from every state *)
Lemma finish_struct_shape fields : forall slots,
  (exists ds, forall s, finish_struct fields slots s = TOk ds) \/
  (forall s, finish_struct fields slots s = TUnpos MMissingField s) \/
  (forall s, finish_struct fields slots s = TPanic).
Proof.
  induction fields as [|[n t] fields IH]; intros slots; cbn [finish_struct]; [left; eauto|].
  destruct slots as [|slot slots]; [right; right; auto|].
  destruct (IH slots) as [[ds Hds] | [Hu | Hp]].
  - destruct slot as [d|].
    + left. exists (d :: ds). intros s. now rewrite Hds.
    + destruct t; try (right; left; reflexivity). left. exists (DNone :: ds). intros s. now rewrite Hds.
  - destruct slot as [d|].
    + right; left. intros s. now rewrite Hu.
    + destruct t; try (right; left; reflexivity). right; left. intros s. now rewrite Hu.
  - destruct slot as [d|].
    + right; right. intros s. now rewrite Hp.
    + destruct t; try (right; left; reflexivity). right; right. intros s. now rewrite Hp.
Qed.

Section TypedDich.
Variable C : ctx.
Notation rk0 := (c_rk C).
Notation cf0 := (c_cf C).
Notation tm1 := (c_tm1 C).
Notation tm2 := (c_tm2 C).
Notation t := (c_t C).
Notation L := (c_L C).
Notation E1 := (mkEnv (c_rk C) (c_tm1 C) (c_cf C)).
Notation E2 := (mkEnv (c_rk C) (c_tm2 C) (c_cf C)).

(* ---------- runs that start at the boundary ---------- *)
Lemma parse_value_eofc f s : inv C s -> touched s -> eofc C (ShP C nov) (parse_value f E1 s).
Proof.
  intros Hi Ht. destruct f; [exact I|]. cbn [parse_value].
  apply (bind_eofcP C (isNone C)); [now apply parse_whitespace_eofc|].
  intros o s1 _ Hi1 Ht1 [-> Htm]. cbv beta iota. apply peek_error_eofc; auto using eofish_val.
Qed.

Lemma de_elems_eofc f ty first s : inv C s -> touched s -> teofc C (ShP C nov) (de_elems f E1 ty first s).
Proof.
  intros Hi Ht. destruct f; [exact I|]. cbn [de_elems].
  apply (tbind_eofc_none C (ShO C)); [apply lift_eofc; now apply has_next_element_eofc|]. intros x [].
Qed.

Lemma de_tuple_eofc f ts first s : inv C s -> touched s -> teofc C (ShP C anyv) (de_tuple f E1 ts first s).
Proof.
  intros Hi Ht. destruct f; [exact I|]. cbn [de_tuple]. destruct ts as [|t0 ts]; [apply tret_eofc; auto; exact I|].
  apply (tbind_eofc_none C (ShO C)); [apply lift_eofc; now apply has_next_element_eofc|]. intros x [].
Qed.

Lemma de_entries_eofc f k v first s : inv C s -> touched s -> teofc C (ShP C nov) (de_entries f E1 k v first s).
Proof.
  intros Hi Ht. destruct f; [exact I|]. cbn [de_entries].
  apply (tbind_eofc_none C (ShO C)); [apply lift_eofc; now apply has_next_key_eofc|]. intros x [].
Qed.

Lemma de_fields_eofc f fields slots first s : inv C s -> touched s ->
  teofc C (ShP C nov) (de_fields f E1 fields slots first s).
Proof.
  intros Hi Ht. destruct f; [exact I|]. cbn [de_fields].
  apply (tbind_eofc_none C (ShO C)); [apply lift_eofc; now apply has_next_key_eofc|]. intros x [].
Qed.

Lemma de_struct_eofc f fields s : inv C s -> touched s -> teofc C (ShP C nov) (de_struct f E1 fields s).
Proof.
  intros Hi Ht. destruct f; [exact I|]. cbn [de_struct].
  apply (tmap_eofc C nov); [intros a []|]. now apply deserialize_struct_eofc.
Qed.

Lemma de_typed_eofc : forall f ty s, inv C s -> touched s -> teofc C (ShP C nov) (de_typed f E1 ty s).
Proof.
  induction f as [|f IH]; intros ty s Hi Ht; [exact I|]. destruct ty; cbn [de_typed].
  - apply (tbind_eofc_none C (ShP C nov)); [apply lift_eofc; now apply parse_value_eofc|]. intros x [_ []].
  - apply (tbind_eofc_none C (ShSn C)); [apply lift_eofc; now apply ignore_value_eofc_n|]. intros x [].
  - now apply deserialize_raw_eofc.
  - now apply deserialize_bool_eofc.
  - now apply deserialize_int_eofc.
  - now apply deserialize_f32_eofc.
  - now apply deserialize_number_eofc.
  - now apply deserialize_str_eofc.
  - now apply deserialize_str_eofc.
  - now apply deserialize_str_eofc.
  - now apply pw_head_eofc.
  - now apply deserialize_unit_eofc.
  - now apply deserialize_unit_eofc.
  - apply (tbind_eofcP C (isNone C)); [apply lift_eofc; now apply parse_whitespace_eofc|].
    intros o s1 _ Hi1 Ht1 [-> Htm]. cbv beta iota. apply (tmap_eofc C nov); [intros a []|]. now apply IH.
  - apply (tmap_eofc C nov); [intros a []|]. now apply IH.
  - apply (tmap_eofc C nov); [intros a []|]. now apply deserialize_seq_eofc.
  - apply (tmap_eofc C nov); [intros a []|]. now apply deserialize_seq_eofc.
  - apply (tmap_eofc C nov); [intros a []|]. now apply deserialize_seq_eofc.
  - apply (tmap_eofc C nov); [intros a []|]. now apply deserialize_map_eofc.
  - now apply de_struct_eofc.
  - now apply deserialize_enum_eofc.
Qed.

(* ---------- the induction ---------- *)
Definition DT f := forall f' ty s, (f <= f')%nat -> inv C s ->
  tdich C (ShP C anyv) (de_typed f E1 ty s) (de_typed f' E2 ty (ext C s)).
Definition DE f := forall f' ty first s, (f <= f')%nat -> inv C s ->
  tdich C (ShP C nov) (de_elems f E1 ty first s) (de_elems f' E2 ty first (ext C s)).
Definition DU f := forall f' ts first s, (f <= f')%nat -> inv C s ->
  tdich C (ShP C anyv) (de_tuple f E1 ts first s) (de_tuple f' E2 ts first (ext C s)).
Definition DN f := forall f' k v first s, (f <= f')%nat -> inv C s ->
  tdich C (ShP C nov) (de_entries f E1 k v first s) (de_entries f' E2 k v first (ext C s)).
Definition DF f := forall f' fields slots first s, (f <= f')%nat -> inv C s ->
  tdich C (ShP C nov) (de_fields f E1 fields slots first s) (de_fields f' E2 fields slots first (ext C s)).
Definition DS f := forall f' fields s, (f <= f')%nat -> inv C s ->
  tdich C (ShP C nov) (de_struct f E1 fields s) (de_struct f' E2 fields (ext C s)).
Definition DK f := forall f' k s, (f <= f')%nat -> inv C s -> live s ->
  tdich C (ShP C nov) (de_key f E1 k s) (de_key f' E2 k (ext C s)).

Lemma nov_any {A B} (g : A -> B) : forall a : A, @nov A a -> @anyv B (g a).
Proof. intros a []. Qed.
Lemma any_any {A B} (g : A -> B) : forall a : A, @anyv A a -> @anyv B (g a).
Proof. intros a _. exact I. Qed.

Lemma de_typed_step f : DT f -> DE f -> DU f -> DN f -> DS f -> DT (S f).
Proof.
  intros IHt IHe IHu IHn IHs f' ty s Hf Hi. destruct f' as [|f']; [lia|]. assert (Hf' : (f <= f')%nat) by lia.
  destruct ty; cbn [de_typed].
  - (* TValue *)
    apply (tbindP C anyv); [apply lift_dich; now apply parse_value_dich| |].
    + intros v s1 _ Hi1. now apply tret_dich.
    + intros v s1 _ Hi1 Ht1 _. apply tret_eofc; auto; exact I.
  - (* TIgnored *)
    apply (tbindS C); [apply lift_dich; now apply ignore_value_dich| |].
    + intros s1 _ Hi1. now apply tret_dich.
    + intros s1 _ Hi1 Ht1. apply tret_eofc; auto; exact I.
  - now apply deserialize_raw_dich.
  - apply tdich_strict_any. now apply deserialize_bool_dich.
  - now apply deserialize_int_dich.
  - now apply deserialize_f32_dich.
  - apply deserialize_number_float_dich; [apply vthread_f64|apply visit_f64_fail|assumption].
  - apply tdich_strict_any. apply deserialize_str_dich; [apply vthread2_char|assumption].
  - apply tdich_strict_any. apply deserialize_str_dich; [apply vthread2_string|assumption].
  - apply tdich_strict_any. apply deserialize_str_dich; [apply vthread2_borrowed|assumption].
  - (* TBytes *)
    apply pw_head_dich; [assumption|]. intros b s1 Hi1 Hl1. apply fix_position_dich.
    destruct (b =? 34).
    { rewrite discard_ext by assumption.
      apply tbind_strict; [apply lift_dich; apply parse_str_raw_dich; now apply inv_discard|].
      intros [str bw] s2 _ Hi2. cbv beta iota. now apply tret_dich. }
    destruct (b =? 91); [|now apply peek_invalid_type_dich].
    apply (tmap_dich C nov anyv); [apply nov_any|].
    apply (deserialize_seq_dich C nov); [assumption|]. intros s' Hi'. now apply IHe.
  - apply tdich_strict_any. now apply deserialize_unit_dich.
  - apply tdich_strict_any. now apply deserialize_unit_dich.
  - (* TOption *)
    apply (tbindP C (isNone C)); [apply lift_dich; now apply parse_whitespace_dich| |].
    + intros o s1 Hp Hi1. cbv beta iota. apply lift_ok_inv in Hp. apply (pw_facts C) in Hp.
      destruct o as [b|].
      * destruct (b =? 110).
        -- rewrite discard_ext by assumption.
           apply tbindSn; [apply lift_dich; apply parse_ident_dich; now apply inv_discard|].
           intros s2 _ Hi2. now apply tret_dich.
        -- apply (tmap_dich C anyv anyv); [apply any_any|]. now apply IHt.
      * apply (tmap_dich C anyv anyv); [apply any_any|]. now apply IHt.
    + intros o s1 _ Hi1 Ht1 [-> Htm]. cbv beta iota.
      apply (tmap_eofc C nov); [intros a []|]. now apply de_typed_eofc.
  - apply (tmap_dich C anyv anyv); [apply any_any|]. now apply IHt.
  - apply (tmap_dich C nov anyv); [apply nov_any|].
    apply (deserialize_seq_dich C nov); [assumption|]. intros s' Hi'. now apply IHe.
  - apply (tmap_dich C nov anyv); [apply nov_any|].
    apply (deserialize_seq_dich C anyv); [assumption|]. intros s' Hi'. now apply IHu.
  - apply (tmap_dich C nov anyv); [apply nov_any|].
    apply (deserialize_seq_dich C anyv); [assumption|]. intros s' Hi'. now apply IHu.
  - apply (tmap_dich C nov anyv); [apply nov_any|].
    apply (deserialize_map_dich C nov); [assumption|]. intros s' Hi'. now apply IHn.
  - apply tdich_strict_any. now apply IHs.
  - (* TEnum *)
    apply tdich_strict_any. apply (deserialize_enum_dich C anyv); [assumption| |].
    + intros s' Hi'.
      apply tbind_strict; [apply deserialize_str_dich; [apply vthread2_variant|assumption]|].
      intros [name v] s2 _ Hi2. cbv beta iota.
      apply tbindSn; [apply lift_dich; now apply parse_object_colon_dich|]. intros s3 _ Hi3.
      apply (tmap_dich C anyv anyv); [apply any_any|].
      destruct v as [|t1|ts|fields].
      * apply tdich_strict_any. now apply deserialize_unit_dich.
      * now apply IHt.
      * apply (tmap_dich C nov anyv); [apply nov_any|].
        apply (deserialize_seq_dich C anyv); [assumption|]. intros s'' Hi''. now apply IHu.
      * apply tdich_strict_any. now apply IHs.
    + intros s' Hi'.
      apply tbind_strict; [apply deserialize_str_dich; [apply vthread2_variant|assumption]|].
      intros [name v] s2 _ Hi2. cbv beta iota. destruct v; [now apply tret_dich|exact I..].
Qed.

Lemma de_elems_step f : DT f -> DE f -> DE (S f).
Proof.
  intros IHt IHe f' ty first s Hf Hi. destruct f' as [|f']; [lia|]. assert (Hf' : (f <= f')%nat) by lia.
  cbn [de_elems].
  apply (tbind_dich C (ShO C)); [apply lift_dich; now apply has_next_element_dich| |].
  2:{ intros x _ _ []. }
  intros [s1|] _ Hx; cbn [ShO ex option_map iv] in *; [|now apply tret_dich].
  destruct Hx as [Hi1 Hl1].
  apply (tbindP C anyv); [now apply IHt| |].
  - intros d s2 _ Hi2. apply tbind_strict; [now apply IHe|]. intros ds s3 _ Hi3. now apply tret_dich.
  - intros d s2 _ Hi2 Ht2 _. apply (tbind_eofcP C nov); [now apply de_elems_eofc|]. intros ds s3 _ _ _ [].
Qed.

Lemma de_tuple_step f : DT f -> DU f -> DU (S f).
Proof.
  intros IHt IHu f' ts first s Hf Hi. destruct f' as [|f']; [lia|]. assert (Hf' : (f <= f')%nat) by lia.
  cbn [de_tuple]. destruct ts as [|t0 ts]; [now apply tret_dich|].
  apply (tbind_dich C (ShO C)); [apply lift_dich; now apply has_next_element_dich| |].
  2:{ intros x _ _ []. }
  intros [s1|] _ Hx; cbn [ShO ex option_map iv] in *; [|exact I].
  destruct Hx as [Hi1 Hl1].
  apply (tbindP C anyv); [now apply IHt| |].
  - intros d s2 _ Hi2. apply (tbindP C anyv); [now apply IHu| |].
    + intros ds s3 _ Hi3. now apply tret_dich.
    + intros ds s3 _ Hi3 Ht3 _. apply tret_eofc; auto; exact I.
  - intros d s2 _ Hi2 Ht2 _. apply (tbind_eofcP C anyv); [now apply de_tuple_eofc|].
    intros ds s3 _ Hi3 Ht3 _. apply tret_eofc; auto; exact I.
Qed.

Lemma de_entries_step f : DT f -> DK f -> DN f -> DN (S f).
Proof.
  intros IHt IHk IHn f' k v first s Hf Hi. destruct f' as [|f']; [lia|]. assert (Hf' : (f <= f')%nat) by lia.
  cbn [de_entries].
  apply (tbind_dich C (ShO C)); [apply lift_dich; now apply has_next_key_dich| |].
  2:{ intros x _ _ []. }
  intros [s1|] _ Hx; cbn [ShO ex option_map iv] in *; [|now apply tret_dich].
  destruct Hx as [Hi1 Hl1].
  apply tbind_strict; [now apply IHk|]. intros kd s2 _ Hi2.
  apply tbindSn; [apply lift_dich; now apply parse_object_colon_dich|]. intros s3 _ Hi3.
  apply (tbindP C anyv); [now apply IHt| |].
  - intros vd s4 _ Hi4. apply tbind_strict; [now apply IHn|]. intros es s5 _ Hi5. now apply tret_dich.
  - intros vd s4 _ Hi4 Ht4 _. apply (tbind_eofcP C nov); [now apply de_entries_eofc|]. intros es s5 _ _ _ [].
Qed.

Lemma de_fields_step f : DT f -> DF f -> DF (S f).
Proof.
  intros IHt IHf f' fields slots first s Hf Hi. destruct f' as [|f']; [lia|]. assert (Hf' : (f <= f')%nat) by lia.
  cbn [de_fields].
  apply (tbind_dich C (ShO C)); [apply lift_dich; now apply has_next_key_dich| |].
  2:{ intros x _ _ []. }
  intros [s1|] _ Hx; cbn [ShO ex option_map iv] in *.
  2:{ destruct (finish_struct_shape fields slots) as [[ds Hds] | [Hu | Hp]].
      - rewrite !Hds. cbn [tbind]. now apply tret_dich.
      - rewrite !Hu. exact I.
      - rewrite !Hp. exact I. }
  destruct Hx as [Hi1 Hl1]. rewrite discard_ext by assumption.
  apply tbind_strict; [apply lift_dich; apply parse_str_dich; now apply inv_discard|].
  intros [name bw] s2 _ Hi2. cbv beta iota.
  destruct (index_of name fields) as [[i ti]|].
  - destruct (slot_filled i slots); [exact I|].
    apply tbindSn; [apply lift_dich; now apply parse_object_colon_dich|]. intros s3 _ Hi3.
    apply (tbindP C anyv); [now apply IHt| |].
    + intros d s4 _ Hi4. now apply IHf.
    + intros d s4 _ Hi4 Ht4 _. now apply de_fields_eofc.
  - apply tbindSn; [apply lift_dich; now apply parse_object_colon_dich|]. intros s3 _ Hi3.
    apply (tbindS C); [apply lift_dich; now apply ignore_value_dich| |].
    + intros s4 _ Hi4. now apply IHf.
    + intros s4 _ Hi4 Ht4. now apply de_fields_eofc.
Qed.

Lemma de_struct_step f : DU f -> DF f -> DS (S f).
Proof.
  intros IHu IHf f' fields s Hf Hi. destruct f' as [|f']; [lia|]. assert (Hf' : (f <= f')%nat) by lia.
  cbn [de_struct]. apply (tmap_dich C nov nov); [intros a []|].
  apply (deserialize_struct_dich C anyv); [assumption| |].
  - intros s' Hi'. now apply IHu.
  - intros s' Hi'. apply tdich_strict_any. now apply IHf.
Qed.

Lemma de_key_step f : DK f -> DK (S f).
Proof.
  intros IHk f' k s Hf Hi Hl. destruct f' as [|f']; [lia|]. assert (Hf' : (f <= f')%nat) by lia.
  destruct k; cbn [de_key].
  - rewrite discard_ext by assumption.
    apply tbind_strict; [apply lift_dich; apply parse_str_dich; now apply inv_discard|].
    intros [str bw] s2 _ Hi2. cbv beta iota. apply vthread2_dich; [apply vthread2_string|assumption].
  - apply numeric_key_dich; auto. intros s' Hi'. now apply deserialize_int_dich.
  - now apply key_bool_dich.
  - rewrite discard_ext by assumption.
    apply tbind_strict; [apply lift_dich; apply parse_str_dich; now apply inv_discard|].
    intros [str bw] s2 _ Hi2. cbv beta iota. apply vthread2_dich; [apply vthread2_char|assumption].
  - apply numeric_key_dich; auto. intros s' Hi'. now apply deserialize_f32_dich.
  - apply numeric_key_dich; auto. intros s' Hi'.
    apply deserialize_number_float_dich; [apply vthread_f64|apply visit_f64_fail|assumption].
  - apply (tmap_dich C nov nov); [intros a []|]. now apply IHk.
  - apply (tmap_dich C nov nov); [intros a []|]. now apply IHk.
  - apply (deserialize_enum_dich C nov); [assumption| |].
    + intros s' Hi'. exact I.
    + intros s' Hi'.
      apply tbind_strict; [apply deserialize_str_dich; [apply vthread2_variant|assumption]|].
      intros [name v] s2 _ Hi2. cbv beta iota. now apply tret_dich.
Qed.

Lemma typed_all_dich : forall f, DT f /\ DE f /\ DU f /\ DN f /\ DF f /\ DS f /\ DK f.
Proof.
  induction f as [|f (IHt & IHe & IHu & IHn & IHf & IHs & IHk)].
  - repeat split; intros ? **; exact I.
  - repeat split.
    + now apply de_typed_step.
    + now apply de_elems_step.
    + now apply de_tuple_step.
    + now apply de_entries_step.
    + now apply de_fields_step.
    + now apply de_struct_step.
    + now apply de_key_step.
Qed.

Lemma de_typed_dich f f' ty s : (f <= f')%nat -> inv C s ->
  tdich C (ShP C anyv) (de_typed f E1 ty s) (de_typed f' E2 ty (ext C s)).
Proof. apply (proj1 (typed_all_dich f)). Qed.

Lemma de_key_dich f f' k s : (f <= f')%nat -> inv C s -> live s ->
  tdich C (ShP C nov) (de_key f E1 k s) (de_key f' E2 k (ext C s)).
Proof. apply (proj2 (proj2 (proj2 (proj2 (proj2 (proj2 (typed_all_dich f))))))). Qed.

End TypedDich.

(* ---------- the top level ---------- *)
Lemma typed_fuel_app ty p tl : (typed_fuel ty p <= typed_fuel ty (p ++ tl))%nat.
Proof. unfold typed_fuel. rewrite app_length. lia. Qed.

Theorem from_input_typed_dich rk cf tm1 tm2 ty p tl :
  let C := mkCtx rk cf tm1 tm2 tl (length p) in
  tdich C ShT (from_input_typed (mkEnv rk tm1 cf) ty p) (from_input_typed (mkEnv rk tm2 cf) ty (p ++ tl)).
Proof.
  intros C. unfold from_input_typed.
  assert (Hi : inv C (init_st p)) by (apply inv_mk; [reflexivity|discriminate]).
  change (init_st (p ++ tl)) with (ext C (init_st p)).
  apply (tbindP C anyv).
  - apply (de_typed_dich C); [apply typed_fuel_app|exact Hi].
  - intros d s1 _ Hi1. cbv beta iota.
    apply (tbindS C); [apply lift_dich; now apply (de_end_dich C)| |].
    + intros s2 _ _. cbn [tdich ShT iv tch ex]. auto.
    + intros s2 _ _ _. cbn [teofc ShT iv tch]. auto.
  - intros d s1 _ Hi1 Ht1 _. cbv beta iota.
    apply (tbind_eofcS C); [apply lift_eofc; now apply (de_end_eofc C)|].
    intros s2 _ _ _. cbn [teofc ShT iv tch]. auto.
Qed.

(* the same for a bare map key (MapKey deserializer entered at its opening quote) *)
Theorem de_key_prefix_dich rk cf tm1 tm2 f k p tl : p <> [] ->
  let C := mkCtx rk cf tm1 tm2 tl (length p) in
  tdich C (ShP C nov) (de_key f (mkEnv rk tm1 cf) k (init_st p)) (de_key f (mkEnv rk tm2 cf) k (init_st (p ++ tl))).
Proof.
  intros Hp C. change (init_st (p ++ tl)) with (ext C (init_st p)).
  apply (de_key_dich C); [lia|apply inv_mk; [reflexivity|discriminate]|exact Hp].
Qed.

(* ---------- the dichotomy, unfolded for the two terminators ---------- *)
Definition tnotok {A} (r : tres A) : Prop := forall d, r <> TOk d.

Lemma notok_tnotok {A} (r : tres A) : notok r -> tnotok r.
Proof. intros H d ->. exact H. Qed.

(* both runs at a genuine end of input *)
Definition tdich_eof {A} (p : bytes) (rp rpt : tres A) : Prop :=
  match rp with
  | TOk _ => True
  | TErr c i => rpt = TErr c i \/ (eofish c /\ i = length p)
                \/ (((exists m, c = Message m) \/ c = TrailingCharacters) /\ tnotok rpt)
  | TUnpos _ _ => tnotok rpt
  | TFuel => True
  | TPanic => True
  end.

(* prefix run ended by a failing io reader *)
Definition tdich_fail {A} (k : N) (rp rpt : tres A) : Prop :=
  match rp with
  | TOk _ => True
  | TErr c i => rpt = TErr c i \/ (c = Io k /\ i = 0%nat) \/ ((exists m, c = Message m) /\ tnotok rpt)
  | TUnpos _ _ => tnotok rpt
  | TFuel => True
  | TPanic => True
  end.

Theorem typed_dich_eof rk cf ty p tl :
  tdich_eof p (from_input_typed (mkEnv rk TEof cf) ty p) (from_input_typed (mkEnv rk TEof cf) ty (p ++ tl)).
Proof.
  pose proof (from_input_typed_dich rk cf TEof TEof ty p tl) as H. cbv zeta in H.
  destruct (from_input_typed (mkEnv rk TEof cf) ty p) as [d|c i|m s| |]; cbn [tdich tdich_eof] in *; auto.
  - destruct H as [H | [H | [[Hs | [_ Hs]] Hn]]]; auto.
    + right; right. split; [now left|now apply notok_tnotok].
    + right; right. split; [now right|now apply notok_tnotok].
  - now apply notok_tnotok.
Qed.

Theorem typed_dich_fail cf k ty p tl :
  tdich_fail k (from_input_typed (mkEnv RIo (TFail k) cf) ty p) (from_input_typed (mkEnv RIo TEof cf) ty (p ++ tl)).
Proof.
  pose proof (from_input_typed_dich RIo cf (TFail k) TEof ty p tl) as H. cbv zeta in H.
  destruct (from_input_typed (mkEnv RIo (TFail k) cf) ty p) as [d|c i|m s| |]; cbn [tdich tdich_fail] in *; auto.
  - destruct H as [H | [H | [[Hs | [Hs _]] Hn]]]; auto.
    + right; right. split; [assumption|now apply notok_tnotok].
    + discriminate Hs.
  - now apply notok_tnotok.
Qed.

(* ================= C10 (typed) ================= *)
(* TUnpos (an unpositioned Data error) is excluded, as is every error that is not Eof-like at the end of the input;
   TFuel and TPanic are not excluded here (totality of the typed model is a separate property). *)
Theorem C10_typed : forall rk cf t p tl d, tl <> [] ->
  from_input_typed (mkEnv rk TEof cf) t (p ++ tl) = TOk d ->
  match from_input_typed (mkEnv rk TEof cf) t p with
  | TOk _ => True
  | TErr c i => eofish c /\ i = length p
  | TUnpos _ _ => False
  | TFuel => True
  | TPanic => True
  end.
Proof.
  intros rk cf ty p tl d _ Hok. pose proof (typed_dich_eof rk cf ty p tl) as H. rewrite Hok in H.
  destruct (from_input_typed (mkEnv rk TEof cf) ty p) as [d'|c i|m s| |]; cbn [tdich_eof] in H; auto.
  - destruct H as [H | [H | [_ H]]]; [discriminate|exact H|now destruct (H d)].
  - now destruct (H d).
Qed.

(* a prefix run that fails with a Data error (or TrailingCharacters) shows that no extension is accepted *)
Theorem C10_typed_data_error_dead : forall rk cf t p tl c i,
  from_input_typed (mkEnv rk TEof cf) t p = TErr c i -> ~ eofish c ->
  forall d, from_input_typed (mkEnv rk TEof cf) t (p ++ tl) <> TOk d.
Proof.
  intros rk cf ty p tl c i He Hn d Hok.
  pose proof (typed_dich_eof rk cf ty p tl) as H2. rewrite He, Hok in H2. cbn [tdich_eof] in H2.
  destruct H2 as [H2 | [[H2 _] | [_ H2]]]; [discriminate|contradiction|now destruct (H2 d)].
Qed.

(* errors other than Eof-like ones, Data errors and TrailingCharacters are reproduced verbatim (typed C11 clause) *)
Theorem C11_typed_dead : forall rk cf t p tl c i,
  from_input_typed (mkEnv rk TEof cf) t p = TErr c i -> ~ eofish c ->
  (forall m, c <> Message m) -> c <> TrailingCharacters ->
  from_input_typed (mkEnv rk TEof cf) t (p ++ tl) = TErr c i.
Proof.
  intros rk cf ty p tl c i He Hn Hm Ht. pose proof (typed_dich_eof rk cf ty p tl) as H. rewrite He in H.
  cbn [tdich_eof] in H. destruct H as [H | [[H _] | [[[m H] | H] _]]]; auto; try contradiction.
  now destruct (Hm m).
Qed.

(* ================= C13 (typed) ================= *)
Theorem C13_typed_never_ok : forall cf t p k d, from_input_typed (mkEnv RIo (TFail k) cf) t p <> TOk d.
Proof.
  intros cf ty p k d. unfold from_input_typed.
  destruct (de_typed _ _ _ _) as [[d1 s1]| | | |]; cbn [tbind]; try discriminate.
  destruct (de_end _ s1) as [s2| | |] eqn:Hd; cbn [lift tbind]; try discriminate.
  apply de_end_ok_eof in Hd. discriminate.
Qed.

(* With a reader that fails after the bytes [p]:
     - the result is the injected I/O error (category Io, its kind), or
     - it is an error that does not depend on the failure: the same error as on any complete input extending p, or
     - known class F18: a Data error (positioned, or unpositioned = TUnpos) raised by a visitor BEFORE the failing read;
       the I/O error raised inside the following end_seq()/end_map() is dropped by
       `match (ret, self.end_seq()) { (Err(err), _) => Err(err) }`.  Then every complete input extending p is rejected too.
     - TFuel / TPanic (excluded by totality of the typed model, not here).
   Never a value (C13_typed_never_ok). *)
Theorem C13_typed : forall cf t p tl k,
  let r_full := from_input_typed (mkEnv RIo TEof cf) t (p ++ tl) in
  let r_fail := from_input_typed (mkEnv RIo (TFail k) cf) t p in
  r_fail = TErr (Io k) 0
  \/ (r_fail = r_full /\ exists c i, r_full = TErr c i)
  \/ ((exists m i, r_fail = TErr (Message m) i) /\ tnotok r_full)
  \/ ((exists m s, r_fail = TUnpos m s) /\ tnotok r_full)
  \/ r_fail = TFuel \/ r_fail = TPanic.
Proof.
  intros cf ty p tl k r_full r_fail. pose proof (typed_dich_fail cf k ty p tl) as H.
  pose proof (C13_typed_never_ok cf ty p k) as Hn. fold r_full r_fail in H, Hn.
  destruct r_fail as [d|c i|m s| |]; cbn [tdich_fail] in H.
  - now destruct (Hn d).
  - destruct H as [H | [[-> ->] | [[m ->] H]]].
    + right; left. split; [now rewrite H|eauto].
    + left; reflexivity.
    + right; right; left. split; [eauto|exact H].
  - right; right; right; left. split; [eauto|exact H].
  - right; right; right; right; left; reflexivity.
  - right; right; right; right; right; reflexivity.
Qed.

(* the F18 class is inhabited: Vec<u8> from a reader that yields `[300,` and then fails *)
Lemma C13_typed_known_F18_witness :
  from_input_typed (mkEnv RIo (TFail 7) (mkCfg false false false false)) (TSeq (TInt U8)) [91; 51; 48; 48; 44]
  = TErr (Message MInvalidValue) 5.
Proof. vm_compute. reflexivity. Qed.

(* the TrailingCharacters alternative of the dichotomy is inhabited: (u8,) on `[1,` — no extension is accepted *)
Lemma C10_typed_trailing_witness :
  from_input_typed (mkEnv RSlice TEof (mkCfg false false false false)) (TTuple [TInt U8]) [91; 49; 44]
  = TErr TrailingCharacters 3.
Proof. vm_compute. reflexivity. Qed.

Print Assumptions C10_typed.
Print Assumptions C10_typed_data_error_dead.
Print Assumptions C11_typed_dead.
Print Assumptions C13_typed_never_ok.
Print Assumptions C13_typed.
Print Assumptions C13_typed_known_F18_witness.
Print Assumptions de_key_prefix_dich.
