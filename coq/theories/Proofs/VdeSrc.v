(* Proofs/VdeSrc.v — scratch *)
From SJ Require Import Base.Bytes Base.Utf8 Base.FloatB Gen.Tables
  Model.Read Model.Str Model.Num Model.NumF32 Model.Value Model.De Model.Ignore Model.Ty Model.NumberM Model.DeTyped Model.ValueDe
  Model.VdeAst Gen.VdeTables.
Open Scope N_scope.

(* ---- Part 0: small facts ------------------------------------------------------------------------------------------------------- *)
Lemma helper_wrap {A B X} (h : helper) (f : A -> B) (vs : list X -> vres (A * list X)) (l : list X) :
  h_leftover h = LeftoverIsInvalidLength ->
  run_helper h (fun l' => wrap f (vs l')) l =
  vmap f (let& (a, rem) := vs l in match rem with [] => VOk a | _ :: _ => verr MInvalidLength end).
Proof.
  intros Hh. unfold run_helper, wrap. rewrite Hh.
  destruct (vs l) as [[a rem]| | |]; cbn; try reflexivity. destruct rem; reflexivity.
Qed.

Ltac vde_cbn :=
  cbn -[number_any number_de_int number_de_f32 number_de_f64 intv f32v f64v seq_all seq_tuple map_all map_fields empty_slots
        of_visit visit_char visit_string visit_borrowed_only run_helper visit_array_owned visit_array_ref map_any_owned map_any_ref
        value_of_value de_value_key visit_enum_owned visit_enum_ref u8s_of beq_bytes].

Section Owned.
  Variable cf : cfg.
  Variable fx : fenv.
  Variable name : bytes.
  Variable fuel : nat.
  Notation REC := (de_value_owned fuel cf fx).
  Notation MEAN := (seed_meaning VDE_SOURCE false cf fx name REC (value_of_value cf fx) (de_value_key cf false) (visit_enum_owned REC)).

  Lemma owned_scalar t v :
    match t with TIgnored | TRaw | TBool | TChar | TStr | TBorrowedStr | TUnit | TUnitStruct | TOption _ | TNewtype _ => True | _ => False end ->
    de_value_owned (S fuel) cf fx t v = MEAN t v.
  Proof.
    intros Ht. destruct t; try contradiction; destruct v, (arbitrary_precision cf) eqn:Eap; vde_cbn; rewrite ?Eap; reflexivity.
  Qed.

  Lemma owned_int it v : de_value_owned (S fuel) cf fx (TInt it) v = MEAN (TInt it) v.
  Proof.
    destruct (arbitrary_precision cf) eqn:Eap; destruct it, v; vde_cbn; rewrite ?Eap; try reflexivity.
    all: unfold number_de_int; rewrite Eap; reflexivity.
  Qed.
  Lemma owned_f32 v : de_value_owned (S fuel) cf fx TF32 v = MEAN TF32 v.
  Proof.
    destruct (arbitrary_precision cf) eqn:Eap; destruct v; vde_cbn; rewrite ?Eap; try reflexivity.
    all: unfold number_de_f32; rewrite Eap; reflexivity.
  Qed.
  Lemma owned_f64 v : de_value_owned (S fuel) cf fx TF64 v = MEAN TF64 v.
  Proof.
    destruct (arbitrary_precision cf) eqn:Eap; destruct v; vde_cbn; rewrite ?Eap; try reflexivity.
    all: unfold number_de_f64; rewrite Eap; reflexivity.
  Qed.

  Lemma owned_seq t1 v : de_value_owned (S fuel) cf fx (TSeq t1) v = MEAN (TSeq t1) v.
  Proof.
    destruct v, (arbitrary_precision cf) eqn:Eap; vde_cbn; rewrite ?Eap; try reflexivity.
    all: rewrite helper_wrap by reflexivity; reflexivity.
  Qed.
End Owned.
