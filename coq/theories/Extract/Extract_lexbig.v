(* Extract/Extract_lexbig.v — extraction of the limb-level bigint driver (ExtrOcamlBasic only). *)
Require Extraction.
Require Import ExtrOcamlBasic.
From SJ Require Import Extract.Driver_lexbig.
Extraction "sjmodel_lexbig.ml" run_big_line.
