(* Extract/Extract_ntarget.v — extraction of the Number-as-target driver (ExtrOcamlBasic only). *)
Require Extraction.
Require Import ExtrOcamlBasic.
From SJ Require Import Extract.Driver_ntarget.
Extraction "sjmodel_ntarget.ml" dispatch_ntarget.
