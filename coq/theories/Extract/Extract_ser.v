(* Extract/Extract_ser.v — extraction of the serialiser driver (ExtrOcamlBasic only). *)
Require Extraction.
Require Import ExtrOcamlBasic.
From SJ Require Import Extract.Driver_ser.
Extraction "sjmodel_ser.ml" dispatch_ser.
