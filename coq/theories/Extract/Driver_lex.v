(* Extract/Driver_lex.v — line protocol of the C07 correspondence check (model side).
   Implementation side: /verif/harness/src/bin/sjh_lex.rs.

     lx c <d|s> <mant> <exp>               parse_concise_float step by step:
                                             fast <bits> | mod <mant> <exp> <bits> | spec <mant> <exp> <bits> | bh <mant> <exp> <b> <bits>
     lx t <d|s> <inthex> <frachex> <exp>   parse_truncated_float step by step:   <mantissa> <mant_exp> followed by the same
     ef mul <m1> <e1> <m2> <e2>            ExtendedFloat::mul        -> <mant> <exp>
     ef norm <m> <e>                       ExtendedFloat::normalize  -> <mant> <exp> <shift>
     ef round <d|s> <m> <e>                into_float, into_downward_float -> <bits> <bits>
     ef rne <d|s> <m> <e>                  into_float next to Flocq's round-to-nearest-even of m * 2^e (binary_normalize): <bits> <bits>
     or <d|s> <m> <e>                      the ORACLE (Base/FloatB.rne_decimal, Model/Lex.rne_decimal32): bits of the correctly rounded m*10^e
     lo c <d|s> <mant> <exp>               algorithm model and oracle side by side: <algorithm bits> <oracle bits>
     lo t <d|s> <inthex> <frachex> <exp>   the same for parse_truncated_float
   d = f64 (16 hex digits), s = f32 (8 hex digits); mantissas and exponents in decimal. *)
From SJ Require Import Base.Bytes Base.FloatB Gen.LexTables Model.Read Model.Num Model.Lex.
From SJ Require Import Extract.Driver.
From Flocq Require Import Core BinarySingleNaN.
Open Scope N_scope.

Definition Z_of_dec (l : bytes) : Z :=
  match l with
  | 45 :: r => (- Z.of_N (N_of_dec r))%Z
  | 43 :: r => Z.of_N (N_of_dec r)
  | _ => Z.of_N (N_of_dec l)
  end.

Fixpoint hexn_aux (k : nat) (n : N) (acc : bytes) : bytes :=
  match k with O => acc | S k' => hexn_aux k' (n / 16) (hex_digit (n mod 16) :: acc) end.
Definition hex8 (n : N) : bytes := hexn_aux 8 n [].

Definition kind_of (f : bytes) : fkind := match f with 115 :: _ => F32 | _ => F64 end.
Definition show_bits (k : fkind) (b : N) : bytes := match k with F64 => hex16 b | F32 => hex8 b end.

Definition show_ef (fp : efloat) : bytes := dec_of_N (mant fp) ++ sp :: dec_of_Z (exp fp).

Definition s_fast : bytes := [102;97;115;116].
Definition s_mod : bytes := [109;111;100].
Definition s_spec : bytes := [115;112;101;99].
Definition s_bh : bytes := [98;104].

Definition show_trace (k : fkind) (t : ltrace) : bytes :=
  match t with
  | TFast b => s_fast ++ sp :: show_bits k b
  | TMod fp b => s_mod ++ sp :: show_ef fp ++ sp :: show_bits k b
  | TSpec fp b => s_spec ++ sp :: show_ef fp ++ sp :: show_bits k b
  | TBh fp b r => s_bh ++ sp :: show_ef fp ++ sp :: show_bits k b ++ sp :: show_bits k r
  end.

Definition all_digits_b (l : bytes) : bool := forallb is_digit l.

Definition oracle_bits (k : fkind) (m : Z) (e : Z) : N :=
  match k with
  | F64 => bits_of_b64 (rne_decimal m e)
  | F32 => bits_of_b32 (rne_decimal32 m e)
  end.

(* the value parse_truncated_float is given: integer.fraction * 10^exponent = digits * 10^(exponent - |fraction'|) *)
Definition truncated_oracle (k : fkind) (i f : bytes) (e : Z) : N :=
  let fr := strip_trailing_zeros f in
  oracle_bits k (digits_val (i ++ fr) 0) (e - Z.of_nat (length fr)).

Definition dispatch_lex (fields : list bytes) : bytes :=
  match fields with
  | [[108;120]; [99]; kf; m; e] =>                                     (* lx c *)
    let k := kind_of kf in show_trace k (concise_trace k (N_of_dec m) (Z_of_dec e))
  | [[108;120]; [116]; kf; ih; fh; e] =>                               (* lx t *)
    match hex_decode ih, hex_decode fh with
    | Some i, Some f =>
      if all_digits_b i && all_digits_b f then
        let k := kind_of kf in
        let '(mantissa, mant_exp, t) := truncated_trace k i f (Z_of_dec e) in
        dec_of_N mantissa ++ sp :: dec_of_Z mant_exp ++ sp :: show_trace k t
      else s_bad
    | _, _ => s_bad
    end
  | [[101;102]; [109;117;108]; m1; e1; m2; e2] =>                      (* ef mul *)
    show_ef (ef_mul (mkEF (N_of_dec m1) (Z_of_dec e1)) (mkEF (N_of_dec m2) (Z_of_dec e2)))
  | [[101;102]; [110;111;114;109]; m; e] =>                            (* ef norm *)
    let '(fp, sh) := ef_normalize (mkEF (N_of_dec m) (Z_of_dec e)) in
    show_ef fp ++ sp :: dec_of_Z sh
  | [[101;102]; [114;111;117;110;100]; kf; m; e] =>                    (* ef round *)
    let k := kind_of kf in
    let fp := mkEF (N_of_dec m) (Z_of_dec e) in
    show_bits k (ef_into_float k fp) ++ sp :: show_bits k (ef_into_downward_float k fp)
  | [[101;102]; [114;110;101]; kf; m; e] =>                            (* ef rne *)
    let k := kind_of kf in
    let fp := mkEF (N_of_dec m) (Z_of_dec e) in
    show_bits k (ef_into_float k fp) ++ sp ::
    show_bits k (match k with
                 | F64 => bits_of_b64 (binary_normalize 53 1024 _ _ mode_NE (Z.of_N (mant fp)) (exp fp) false)
                 | F32 => bits_of_b32 (binary_normalize 24 128 _ _ mode_NE (Z.of_N (mant fp)) (exp fp) false)
                 end)
  | [[111;114]; kf; m; e] =>                                           (* or *)
    let k := kind_of kf in show_bits k (oracle_bits k (Z.of_N (N_of_dec m)) (Z_of_dec e))
  | [[108;111]; [99]; kf; m; e] =>                                     (* lo c *)
    let k := kind_of kf in
    show_bits k (parse_concise_float k (N_of_dec m) (Z_of_dec e)) ++ sp :: show_bits k (oracle_bits k (Z.of_N (N_of_dec m)) (Z_of_dec e))
  | [[108;111]; [116]; kf; ih; fh; e] =>                               (* lo t *)
    match hex_decode ih, hex_decode fh with
    | Some i, Some f =>
      if all_digits_b i && all_digits_b f then
        let k := kind_of kf in
        show_bits k (parse_truncated_float k i f (Z_of_dec e)) ++ sp :: show_bits k (truncated_oracle k i f (Z_of_dec e))
      else s_bad
    | _, _ => s_bad
    end
  | _ => s_bad
  end.
