(* Extract/Driver_typed.v — line protocol of the typed-deserialization correspondence (area `typed`).
     pt <cfg> <src> <ty> <hex>      from_str / from_slice / from_reader through the universal seed, then end()
     ptk <cfg> <src> <ty> <n> <hex> StreamDeserializer over items of type <ty>: n calls of next(), each item with byte_offset()
   answer:  ok <dval>  |  err <code> <cat> <line> <col> <msgclass|->  |  err Io io <kind>
   Encoding of <ty> (prefix code, no spaces):
     v Value  g IgnoredAny  r Box<RawValue>  b bool  i0..i4 i8..i128  n0..n4 u8..u128  f f32  d f64  c char
     s String  z &str  y ByteBuf  u ()  U unit struct  o<ty> Option  w<ty> newtype struct  a<ty> Vec
     t(<ty>..) tuple  T(<ty>..) tuple struct  m<kty><ty> map  S((<hexname>:<ty>)..) struct
     E((<hexname>:<variant>)..) enum,  variant = u | w<ty> | t(<ty>..) | S(<fields>)
     kty = s | i0..n4 | b | c | f | d | o<kty> | w<kty> | e(<hexname>,...)        (hexname: hex, `-` = empty; `,` between list items optional)
   Encoding of <dval>:
     v<value> g r<hex> T F i<dec> d<16 hex> c<dec> s<hex> (copied) z<hex> (borrowed) y<hex> u n o<d> w<d>
     a(<d>,..) m(<d>:<d>,..) S(<d>,..) e<hexname>:<d> *)
From SJ Require Import Base.Bytes Base.Utf8 Base.FloatB Gen.Tables
  Model.Read Model.Str Model.Num Model.Value Model.De Model.Ignore Model.Stream Model.Ty Model.DeTyped Model.StreamTyped Extract.Driver.
Open Scope N_scope.

(* ---- <ty> parser ------------------------------------------------------------------------------------ *)
Definition is_hexch (c : N) : bool := ((48 <=? c) && (c <=? 57)) || ((97 <=? c) && (c <=? 102)) || (c =? 45).

Definition take_hexname (l : bytes) : option (bytes * bytes) :=
  let n := span_len is_hexch l in
  match n with
  | O => None
  | _ => match hex_decode (firstn n l) with Some b => Some (b, skipn n l) | None => None end
  end.

Definition intty_of (signed : bool) (d : N) : option intty :=
  if d =? 48 then Some (if signed then I8 else U8)
  else if d =? 49 then Some (if signed then I16 else U16)
  else if d =? 50 then Some (if signed then I32 else U32)
  else if d =? 51 then Some (if signed then I64 else U64)
  else if d =? 52 then Some (if signed then I128 else U128)
  else None.

Fixpoint parse_names (fuel : nat) (l : bytes) : option (list bytes * bytes) :=   (* after `e(`: names up to `)` *)
  match fuel with
  | O => None
  | S f =>
    match l with
    | 41 :: r => Some ([], r)
    | 44 :: r => parse_names f r
    | _ => match take_hexname l with
           | Some (n, r) => match parse_names f r with Some (ns, r') => Some (n :: ns, r') | None => None end
           | None => None
           end
    end
  end.

Fixpoint parse_kty (fuel : nat) (l : bytes) : option (kty * bytes) :=
  match fuel with
  | O => None
  | S f =>
    match l with
    | 115 :: r => Some (KStr, r)
    | 105 :: d :: r => match intty_of true d with Some t => Some (KInt t, r) | None => None end
    | 110 :: d :: r => match intty_of false d with Some t => Some (KInt t, r) | None => None end
    | 98 :: r => Some (KBool, r)
    | 99 :: r => Some (KChar, r)
    | 102 :: r => Some (KF32, r)
    | 100 :: r => Some (KF64, r)
    | 111 :: r => match parse_kty f r with Some (k, r') => Some (KOption k, r') | None => None end
    | 119 :: r => match parse_kty f r with Some (k, r') => Some (KNewtype k, r') | None => None end
    | 101 :: 40 :: r => match parse_names (S (length r)) r with Some (ns, r') => Some (KUnitEnum ns, r') | None => None end
    | _ => None
    end
  end.

Fixpoint parse_ty (fuel : nat) (l : bytes) {struct fuel} : option (ty * bytes) :=
  match fuel with
  | O => None
  | S f =>
    match l with
    | 118 :: r => Some (TValue, r)
    | 103 :: r => Some (TIgnored, r)
    | 114 :: r => Some (TRaw, r)
    | 98 :: r => Some (TBool, r)
    | 105 :: d :: r => match intty_of true d with Some t => Some (TInt t, r) | None => None end
    | 110 :: d :: r => match intty_of false d with Some t => Some (TInt t, r) | None => None end
    | 102 :: r => Some (TF32, r)
    | 100 :: r => Some (TF64, r)
    | 99 :: r => Some (TChar, r)
    | 115 :: r => Some (TStr, r)
    | 122 :: r => Some (TBorrowedStr, r)
    | 121 :: r => Some (TBytes, r)
    | 117 :: r => Some (TUnit, r)
    | 85 :: r => Some (TUnitStruct, r)
    | 111 :: r => match parse_ty f r with Some (t, r') => Some (TOption t, r') | None => None end
    | 119 :: r => match parse_ty f r with Some (t, r') => Some (TNewtype t, r') | None => None end
    | 97 :: r => match parse_ty f r with Some (t, r') => Some (TSeq t, r') | None => None end
    | 116 :: 40 :: r => match parse_tys f r with Some (ts, r') => Some (TTuple ts, r') | None => None end
    | 84 :: 40 :: r => match parse_tys f r with Some (ts, r') => Some (TTupleStruct ts, r') | None => None end
    | 109 :: r =>
      match parse_kty (S (length r)) r with
      | Some (k, r1) => match parse_ty f r1 with Some (v, r2) => Some (TMap k v, r2) | None => None end
      | None => None
      end
    | 83 :: 40 :: r => match parse_fields f r with Some (fs, r') => Some (TStruct fs, r') | None => None end
    | 69 :: 40 :: r => match parse_variants f r with Some (vs, r') => Some (TEnum vs, r') | None => None end
    | _ => None
    end
  end
with parse_tys (fuel : nat) (l : bytes) {struct fuel} : option (list ty * bytes) :=
  match fuel with
  | O => None
  | S f =>
    match l with
    | 41 :: r => Some ([], r)
    | 44 :: r => parse_tys f r
    | _ => match parse_ty f l with
           | Some (t, r) => match parse_tys f r with Some (ts, r') => Some (t :: ts, r') | None => None end
           | None => None
           end
    end
  end
with parse_fields (fuel : nat) (l : bytes) {struct fuel} : option (list (bytes * ty) * bytes) :=
  match fuel with
  | O => None
  | S f =>
    match l with
    | 41 :: r => Some ([], r)
    | 44 :: r => parse_fields f r
    | _ => match take_hexname l with
           | Some (n, 58 :: r) =>
             match parse_ty f r with
             | Some (t, r1) => match parse_fields f r1 with Some (fs, r2) => Some ((n, t) :: fs, r2) | None => None end
             | None => None
             end
           | _ => None
           end
    end
  end
with parse_variants (fuel : nat) (l : bytes) {struct fuel} : option (list (bytes * variant) * bytes) :=
  match fuel with
  | O => None
  | S f =>
    match l with
    | 41 :: r => Some ([], r)
    | 44 :: r => parse_variants f r
    | _ => match take_hexname l with
           | Some (n, 58 :: r) =>
             let pv : option (variant * bytes) :=
               match r with
               | 117 :: r1 => Some (VUnit, r1)
               | 119 :: r1 => match parse_ty f r1 with Some (t, r2) => Some (VNewtype t, r2) | None => None end
               | 116 :: 40 :: r1 => match parse_tys f r1 with Some (ts, r2) => Some (VTuple ts, r2) | None => None end
               | 83 :: 40 :: r1 => match parse_fields f r1 with Some (fs, r2) => Some (VStruct fs, r2) | None => None end
               | _ => None
               end in
             match pv with
             | Some (v, r1) => match parse_variants f r1 with Some (vs, r2) => Some ((n, v) :: vs, r2) | None => None end
             | None => None
             end
           | _ => None
           end
    end
  end.

Definition ty_of_text (l : bytes) : option ty :=
  match parse_ty (S (length l)) l with
  | Some (t, []) => Some t
  | _ => None
  end.

(* ---- <dval> printer --------------------------------------------------------------------------------- *)
Fixpoint show_dval (d : dval) : bytes :=
  match d with
  | DValue v => 118 :: v
  | DIgnored => [103]
  | DRaw b => 114 :: hex_or_dash b
  | DBool true => [84]
  | DBool false => [70]
  | DInt z => 105 :: dec_of_Z z
  | DFloat bits => 100 :: hex16 bits
  | DChar c => 99 :: dec_of_N c
  | DStr s false => 115 :: hex_or_dash s
  | DStr s true => 122 :: hex_or_dash s
  | DBytes b => 121 :: hex_or_dash b
  | DUnit => [117]
  | DNone => [110]
  | DSome x => 111 :: show_dval x
  | DNewtype x => 119 :: show_dval x
  | DSeq l => 97 :: 40 :: join [44] (map show_dval l) ++ [41]
  | DMap l => 109 :: 40 :: join [44] (map (fun kv => show_dval (fst kv) ++ 58 :: show_dval (snd kv)) l) ++ [41]
  | DStruct l => 83 :: 40 :: join [44] (map show_dval l) ++ [41]
  | DVariant n p => 101 :: hex_or_dash n ++ 58 :: show_dval p
  end.

Definition msg_class (k : msgkind) : bytes :=
  match k with
  | MInvalidType => [105;110;118;97;108;105;100;95;116;121;112;101]
  | MInvalidValue => [105;110;118;97;108;105;100;95;118;97;108;117;101]
  | MInvalidLength => [105;110;118;97;108;105;100;95;108;101;110;103;116;104]
  | MUnknownVariant => [117;110;107;110;111;119;110;95;118;97;114;105;97;110;116]
  | MUnknownField => [117;110;107;110;111;119;110;95;102;105;101;108;100]
  | MMissingField => [109;105;115;115;105;110;103;95;102;105;101;108;100]
  | MDuplicateField => [100;117;112;108;105;99;97;116;101;95;102;105;101;108;100]
  | MCustom => [99;117;115;116;111;109]
  end.

Definition show_terr (input : bytes) (c : ecode) (idx : nat) : bytes :=
  match c with
  | Io _ => show_err input c idx
  | Message k => show_err input c idx ++ sp :: msg_class k
  | _ => show_err input c idx ++ [sp; 45]
  end.

Definition show_tres (input : bytes) (r : tres dval) : bytes :=
  match r with
  | TOk d => s_ok ++ sp :: show_dval d
  | TErr c i => show_terr input c i
  | TUnpos k _ =>          (* never positioned: line 0, column 0 *)
    s_err ++ sp :: code_name (Message k) ++ sp :: cat_name CatData ++ [sp; 48; sp; 48; sp] ++ msg_class k
  | TFuel => s_fuel
  | TPanic => s_panic
  end.

(* stream items:  V<dval>  |  E<code>/<cat>/<line>/<col>/<class|->  |  EIo/io/<kind>  |  N   each followed by @<byte_offset> *)
Definition show_titem (input : bytes) (it : option titem) : bytes :=
  match it with
  | None => [78]
  | Some (TIVal d) => 86 :: show_dval d
  | Some (TIErr c i) =>
    match c with
    | Io k => 69 :: code_name c ++ 47 :: cat_name (category c) ++ 47 :: dec_of_N k
    | _ => let '(line, col) := pos_of input i in
           69 :: code_name c ++ 47 :: cat_name (category c) ++ 47 :: dec_of_N line ++ 47 :: dec_of_N col ++ 47 ::
             (match c with Message k => msg_class k | _ => [45] end)
    end
  | Some (TIUnpos k) => 69 :: code_name (Message k) ++ 47 :: cat_name CatData ++ [47; 48; 47; 48; 47] ++ msg_class k
  | Some TIBad => s_panic
  end.

Definition show_thist (input : bytes) (h : list (option titem * nat)) : bytes :=
  join [sp] (map (fun p => show_titem input (fst p) ++ 64 :: dec_of_nat (snd p)) h).

Definition s_unmodelled : bytes := [85;78;77;79;68;69;76;76;69;68].

Definition dispatch_typed (fields : list bytes) : bytes :=
  match fields with
  (* pt <cfg> <src> <ty> <hex> *)
  | [[112;116]; c; src; tyt; hx] =>
    match hex_decode hx, ty_of_text tyt with
    | Some input, Some t =>
      let E := mkEnv (rk_of src) TEof (cfg_of c) in
      show_tres input (from_input_typed E t input)
    | _, _ => s_bad
    end
  (* ptk <cfg> <src> <ty> <n> <hex> : StreamDeserializer over items of type <ty>, history of n calls of next() *)
  | [[112;116;107]; c; src; tyt; n; hx] =>
    match hex_decode hx, ty_of_text tyt with
    | Some input, Some t =>
      let E := mkEnv (rk_of src) TEof (cfg_of c) in
      show_thist input (stream_run_typed (N.to_nat (N_of_dec n)) E t (stream_init input))
    | _, _ => s_bad
    end
  | _ => s_bad
  end.
