(* Extract/Driver_str5.v — line protocol of the C05 (string escaping) correspondence check, serializer side.
     es <hex utf8>   ->  ok <hex of all bytes written> <hex buffer>,<hex buffer>,...     (format_escaped_str)
                         PANIC                                                          (unreachable!() reached)
   The parse side (ps / is) is answered by the generic driver (Extract/Driver.v). *)
From SJ Require Import Base.Bytes Gen.Tables Model.SerStr Extract.Driver.
Open Scope N_scope.

Definition dispatch_str5 (fields : list bytes) : bytes :=
  match fields with
  | [[101; 115]; hx] =>
    match hex_decode hx with
    | Some s =>
      match format_escaped_str s with
      | Ok bufs => s_ok ++ sp :: hex_or_dash (concat bufs) ++ sp :: join [44] (map hex_or_dash bufs)
      | Err _ _ => s_err
      | OutOfFuel => s_fuel
      | Panic => s_panic
      end
    | None => s_bad
    end
  | _ => s_bad
  end.
