(* Extract/Extract_raw.v — extraction of the RawValue driver (ExtrOcamlBasic only). *)
Require Extraction.
Require Import ExtrOcamlBasic.
From SJ Require Import Extract.Driver_raw.
Extraction "sjmodel_raw.ml" run_raw_line.
