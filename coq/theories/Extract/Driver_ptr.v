(* Extract/Driver_ptr.v — line protocol of the C18 correspondence check (model side).
   Values travel in the canonical text form of [show_value] (Extract/Driver.v), parsed back here by [parse_val]:
     n | t | f | u<dec> | i<dec> | d<16 hex: f64 bits> | s<hex or -> | a(v,v,...) | o(<hexkey or ->:v,...)
   Ops (fields separated by one space):
     pt  <value> <hexptr>      Value::pointer                          -> <value> | none
     pm  <value> <hexptr>      *pointer_mut = "MARK"; whole value      -> <value> | none
     tk  <value> <hexptr>      pointer_mut(..).map(Value::take)        -> <taken> <whole> | none
     gi  <value> <dec>         get(usize)                              -> <value> | none
     gk  <value> <hexkey>      get(&str)                               -> <value> | none
     gmi / gmk                 *get_mut(..) = "MARK"; whole value      -> <value> | none
     xi  <value> <dec>         &v[usize]                               -> <value>
     xk  <value> <hexkey>      &v[&str]                                -> <value>
     mi  <value> <dec>         r = &mut v[usize]; old = *r; *r = MARK  -> <old> <whole> | PANIC
     mk  <value> <hexkey>      r = &mut v[&str];  ...                  -> <old> <whole> | PANIC
     eq  <value> <ty> <cmp>    v == cmp  (ty: i8..usize dec, f32 8 hex, f64 16 hex, bool t|f, str hex) -> t | f
     jm  <toks>                json!(...) on a token tree (see [parse_toks])  -> <value> | none      *)
From SJ Require Import Base.Bytes Base.FloatB Model.Value Model.Pointer Model.JsonMacro Extract.Driver.
From Flocq Require Import Core BinarySingleNaN.
Open Scope N_scope.

Fixpoint take_while (p : N -> bool) (s : bytes) : bytes * bytes :=
  match s with
  | c :: r => if p c then let '(a, b) := take_while p r in (c :: a, b) else ([], s)
  | [] => ([], [])
  end.
Definition is_hexc (c : N) : bool := match unhex c with Some _ => true | None => false end.
Fixpoint hexval (s : bytes) (acc : N) : N :=
  match s with
  | [] => acc
  | c :: r => hexval r (acc * 16 + match unhex c with Some x => x | None => 0 end)
  end.
(* <hex or -> up to the next delimiter *)
Definition parse_hexfield (s : bytes) : option (bytes * bytes) :=
  match s with
  | 45 :: r => Some ([], r)
  | _ => let '(h, r) := take_while is_hexc s in
         match h with
         | [] => None
         | _ => match hex_decode h with Some b => Some (b, r) | None => None end
         end
  end.

Fixpoint parse_val (fuel : nat) (s : bytes) : option (value * bytes) :=
  match fuel with
  | O => None
  | S f =>
    match s with
    | 110 :: r => Some (VNull, r)
    | 116 :: r => Some (VBool true, r)
    | 102 :: r => Some (VBool false, r)
    | 117 :: r => let '(d, r') := take_while is_digit r in
                  match d with [] => None | _ => Some (VNum (NPos (N_of_dec d)), r') end
    | 105 :: 45 :: r => let '(d, r') := take_while is_digit r in
                  match d with [] => None | _ => Some (VNum (NNeg (- Z.of_N (N_of_dec d))), r') end
    | 100 :: r => let h := firstn 16 r in
                  if (length h =? 16)%nat && forallb is_hexc h
                  then Some (VNum (NFloat (b64_of_bits (hexval h 0))), skipn 16 r) else None
    | 115 :: r => match parse_hexfield r with Some (b, r') => Some (VStr b, r') | None => None end
    | 97 :: 40 :: 41 :: r => Some (VArr [], r)
    | 97 :: 40 :: r => match parse_vals f r with Some (l, r') => Some (VArr l, r') | None => None end
    | 111 :: 40 :: 41 :: r => Some (VObj [], r)
    | 111 :: 40 :: r => match parse_mems f r with Some (l, r') => Some (VObj l, r') | None => None end
    | _ => None
    end
  end
with parse_vals (fuel : nat) (s : bytes) : option (list value * bytes) :=
  match fuel with
  | O => None
  | S f =>
    match parse_val f s with
    | Some (v, 44 :: r) => match parse_vals f r with Some (l, r') => Some (v :: l, r') | None => None end
    | Some (v, 41 :: r) => Some ([v], r)
    | _ => None
    end
  end
with parse_mems (fuel : nat) (s : bytes) : option (list (bytes * value) * bytes) :=
  match fuel with
  | O => None
  | S f =>
    match parse_hexfield s with
    | Some (k, 58 :: r) =>
      match parse_val f r with
      | Some (v, 44 :: r') => match parse_mems f r' with Some (l, r'') => Some ((k, v) :: l, r'') | None => None end
      | Some (v, 41 :: r') => Some ([(k, v)], r')
      | _ => None
      end
    | _ => None
    end
  end.
Definition value_of_field (s : bytes) : option value :=
  match parse_val (S (length s)) s with
  | Some (v, []) => Some v
  | _ => None
  end.

(* token trees for `jm`:  N T F  E<value>;  P<value>;  ,  :  [ toks ]  { toks }   (E/P payloads end with ';') *)
Fixpoint parse_toks (fuel : nat) (s : bytes) : option (list tok * bytes) :=
  match fuel with
  | O => None
  | S f =>
    match s with
    | [] => Some ([], [])
    | 93 :: _ | 125 :: _ => Some ([], s)
    | 78 :: r => match parse_toks f r with Some (l, r') => Some (KNull :: l, r') | None => None end
    | 84 :: r => match parse_toks f r with Some (l, r') => Some (KTrue :: l, r') | None => None end
    | 70 :: r => match parse_toks f r with Some (l, r') => Some (KFalse :: l, r') | None => None end
    | 44 :: r => match parse_toks f r with Some (l, r') => Some (KComma :: l, r') | None => None end
    | 58 :: r => match parse_toks f r with Some (l, r') => Some (KColon :: l, r') | None => None end
    | 69 :: r => match parse_val f r with
                 | Some (v, 59 :: r1) => match parse_toks f r1 with Some (l, r') => Some (KExpr v :: l, r') | None => None end
                 | _ => None
                 end
    | 80 :: r => match parse_val f r with
                 | Some (v, 59 :: r1) => match parse_toks f r1 with Some (l, r') => Some (KParen v :: l, r') | None => None end
                 | _ => None
                 end
    | 91 :: r => match parse_toks f r with
                 | Some (inner, 93 :: r1) => match parse_toks f r1 with Some (l, r') => Some (KBrack inner :: l, r') | None => None end
                 | _ => None
                 end
    | 123 :: r => match parse_toks f r with
                  | Some (inner, 125 :: r1) => match parse_toks f r1 with Some (l, r') => Some (KBrace inner :: l, r') | None => None end
                  | _ => None
                  end
    | _ => None
    end
  end.
Definition toks_of_field (s : bytes) : option (list tok) :=
  match parse_toks (S (length s)) s with
  | Some (l, []) => Some l
  | _ => None
  end.

Definition s_none : bytes := [110;111;110;101].
Definition marker : value := VStr [77;65;82;75].
Definition show_opt (o : option value) : bytes := match o with Some v => show_value v | None => s_none end.
Definition show_b (b : bool) : bytes := if b then [116] else [102].

Definition Z_of_dec (s : bytes) : option Z :=
  match s with
  | 45 :: d => match d with [] => None | _ => if forallb is_digit d then Some (- Z.of_N (N_of_dec d))%Z else None end
  | [] => None
  | _ => if forallb is_digit s then Some (Z.of_N (N_of_dec s)) else None
  end.
Definition ity_of (s : bytes) : option ity :=
  match s with
  | [105;56] => Some I8 | [105;49;54] => Some I16 | [105;51;50] => Some I32 | [105;54;52] => Some I64
  | [105;115;105;122;101] => Some Isize
  | [117;56] => Some U8 | [117;49;54] => Some U16 | [117;51;50] => Some U32 | [117;54;52] => Some U64
  | [117;115;105;122;101] => Some Usize
  | _ => None
  end.

Definition do_eq (v : value) (ty cmp : bytes) : bytes :=
  match ity_of ty with
  | Some t => match Z_of_dec cmp with
              | Some z => if ity_in_range t z then show_b (eq_int t v z) else s_bad
              | None => s_bad
              end
  | None =>
    match ty with
    | [102;51;50] => if (length cmp =? 8)%nat && forallb is_hexc cmp then show_b (eq_f32 v (b32_of_bits (hexval cmp 0))) else s_bad
    | [102;54;52] => if (length cmp =? 16)%nat && forallb is_hexc cmp then show_b (eq_f64 v (b64_of_bits (hexval cmp 0))) else s_bad
    | [98;111;111;108] => match cmp with [116] => show_b (eq_bool v true) | [102] => show_b (eq_bool v false) | _ => s_bad end
    | [115;116;114] => match hex_decode cmp with Some s => show_b (eq_str v s) | None => s_bad end
    | _ => s_bad
    end
  end.

Definition show_mut (r : res (value * nat)) : bytes :=
  match r with
  | Ok (v', i) => match child v' i with
                  | Some old => show_value old ++ sp :: show_value (write_at [i] marker v')
                  | None => s_panic
                  end
  | _ => s_panic
  end.

Definition dispatch_ptr_gen (pres : bool) (fields : list bytes) : bytes :=
  match fields with
  | [[106;109]; ts] =>
    match toks_of_field ts with
    | Some l => show_opt (expand pres l)
    | None => s_bad
    end
  | op :: vf :: args =>
    match value_of_field vf with
    | None => s_bad
    | Some v =>
      match op, args with
      | [112;116], [hp] => match hex_decode hp with Some p => show_opt (pointer v p) | None => s_bad end
      | [112;109], [hp] => match hex_decode hp with
                           | Some p => match pointer_mut v p with
                                       | Some path => show_value (write_at path marker v)
                                       | None => s_none
                                       end
                           | None => s_bad
                           end
      | [116;107], [hp] => match hex_decode hp with
                           | Some p => match pointer_mut v p with
                                       | Some path => match take_at v path with
                                                      | Some (x, whole) => show_value x ++ sp :: show_value whole
                                                      | None => s_panic
                                                      end
                                       | None => s_none
                                       end
                           | None => s_bad
                           end
      | [103;105], [i] => show_opt (get_usize v (N_of_dec i))
      | [103;107], [hk] => match hex_decode hk with Some k => show_opt (get_str v k) | None => s_bad end
      | [103;109;105], [i] => match get_mut_usize v (N_of_dec i) with
                              | Some j => show_value (write_at [j] marker v) | None => s_none end
      | [103;109;107], [hk] => match hex_decode hk with
                               | Some k => match get_mut_str v k with
                                           | Some j => show_value (write_at [j] marker v) | None => s_none end
                               | None => s_bad
                               end
      | [120;105], [i] => show_value (index_usize v (N_of_dec i))
      | [120;107], [hk] => match hex_decode hk with Some k => show_value (index_str v k) | None => s_bad end
      | [109;105], [i] => show_mut (index_or_insert_usize (N_of_dec i) v)
      | [109;107], [hk] => match hex_decode hk with Some k => show_mut (index_or_insert_str pres k v) | None => s_bad end
      | [101;113], [ty; cmp] => do_eq v ty cmp
      | _, _ => s_bad
      end
    end
  | _ => s_bad
  end.

(* a leading field `P` (added by the OCaml glue when it runs as sjdriver_ptr_po) selects Map = IndexMap (preserve_order) *)
Definition dispatch_ptr (fields : list bytes) : bytes :=
  match fields with
  | [80] :: rest => dispatch_ptr_gen true rest
  | _ => dispatch_ptr_gen false fields
  end.

