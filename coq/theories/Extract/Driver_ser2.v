(* Extract/Driver_ser2.v — SEVERAL documents through ONE Serializer (the formatter state — PrettyFormatter's current_indent / has_value — lives in the
   Serializer and is threaded from one document to the next):
     s2 <cfg> <fmt> <ftab> <sval1> <sval2>   ->  the same answer format as `se` (ok|err <Code>, hex of all bytes written, buffer lengths), for
                                                  `v1.serialize(&mut ser)` followed, if it succeeded, by `v2.serialize(&mut ser)` on the same `ser` *)
From SJ Require Import Base.Bytes Model.Read Model.Sval Model.Ser Extract.Driver Extract.Driver_ser.
Open Scope N_scope.

Definition dispatch_ser2 (fields : list bytes) : bytes :=
  match fields with
  | [[115; 50]; c; f; ft; sv1; sv2] =>
    match fmt_of f, parse_ftab ft, sval_of_field sv1, sval_of_field sv2 with
    | Some F, Some tab, Some v1, Some v2 =>
      let run := ser (cfg_of c) (ftab_lookup tab false) (ftab_lookup tab true) F in
      show_trace (do* st1 := run v1 fs0 in do* _ := run v2 st1 in tret tt)
    | _, _, _, _ => s_bad
    end
  | _ => s_bad
  end.
