(* Extract/Extract_rawde.v — extraction of the `impl Deserializer for &RawValue` / `to_raw_value` driver (ExtrOcamlBasic only). *)
Require Extraction.
Require Import ExtrOcamlBasic.
From SJ Require Import Extract.Driver_rawde.
Extraction "sjmodel_rawde.ml" run_rawde_line.
