Require Extraction.
Require Import ExtrOcamlBasic.
From SJ Require Import Extract.Driver_io.
Extraction "sjmodel_io.ml" dispatch_io.
