(* Extract/Driver_pos.v — line protocol of the position correspondence check (model side of Model/Pos.v).
   Input line (fields separated by one space):
       pos <hexbytes> <ops> [<kind>]
     <hexbytes>  the reader's input, lower-case hex ("-" = empty)
     <ops>       a string over  n (next)  p (peek)  d (discard); may be empty / missing
     <kind>      optional, decimal: the byte source of the IoRead fails with an I/O error (instead of ending) once the
                 input is exhausted; absent = end of input.  The SliceRead side ignores it.
   Output line: for the IoRead model, then for the SliceRead model, after EVERY op
       line:col:byte_offset:peekline:peekcol
     (position(), byte_offset(), peek_position(), all decimal), ops separated by "," and the two models by " | ".
     Where SliceRead::position() panics (index > len, only after a discard that does not follow a successful peek)
     the two fields line:col read PANIC:PANIC.  Anything malformed: BADCASE.
   [discard] is executed as the Rust code does it (IoRead: clear the slot; SliceRead: index += 1), whether or not a
   peek preceded. *)
From SJ Require Import Base.Bytes Model.Read Model.Pos Extract.Driver.
Open Scope N_scope.

Fixpoint pos_split_aux (c : N) (l : bytes) (cur : bytes) : list bytes :=
  match l with
  | [] => [rev cur]
  | b :: r => if b =? c then rev cur :: pos_split_aux c r [] else pos_split_aux c r (b :: cur)
  end.
Definition pos_split (c : N) (l : bytes) : list bytes := pos_split_aux c l [].

Definition rop_of (c : N) : option rop :=
  if c =? 110 then Some ONext else if c =? 112 then Some OPeek else if c =? 100 then Some ODiscard else None.

Fixpoint rops_of (l : bytes) : option (list rop) :=
  match l with
  | [] => Some []
  | c :: r => match rop_of c, rops_of r with
              | Some o, Some os => Some (o :: os)
              | _, _ => None
              end
  end.

Definition show_lc (p : res (N * N)) : bytes :=
  match p with
  | Ok (l, c) => dec_of_N l ++ 58 :: dec_of_N c
  | _ => s_panic ++ 58 :: s_panic
  end.

Definition show_pobs (o : pobs) : bytes :=
  show_lc (o_pos o) ++ 58 :: dec_of_N (o_off o) ++ 58 :: show_lc (o_ppos o).

Definition show_trace (l : list pobs) : bytes := join [44] (map show_pobs l).

Definition pos_answer (t : term) (input : bytes) (ops : list rop) : bytes :=
  show_trace (io_run t ops (io_new input)) ++ [32; 124; 32] ++ show_trace (sl_run ops (sl_new input)).

Definition pos_case (hx ops : bytes) (t : term) : bytes :=
  match hex_decode hx, rops_of ops with
  | Some input, Some os => pos_answer t input os
  | _, _ => s_bad
  end.

Definition run_pos_line (line : list N) : list N :=
  match pos_split 32 line with
  | [[112;111;115]; hx] => pos_case hx [] TEof
  | [[112;111;115]; hx; ops] => pos_case hx ops TEof
  | [[112;111;115]; hx; ops; kind] =>
      match kind with
      | [] => pos_case hx ops TEof
      | _ => if forallb is_digit kind then pos_case hx ops (TFail (N_of_dec kind)) else s_bad
      end
  | _ => s_bad
  end.

(* "pos 610a62 pndnpnpd" on input "a\nb" *)
Example ex_run_pos_line :
  run_pos_line [112;111;115;32; 54;49;48;97;54;50;32; 112;110;100;110;112;110;112;100]
  = [49;58;49;58;48;58;49;58;49;44;  49;58;49;58;49;58;49;58;49;44;  49;58;49;58;49;58;49;58;49;44;
     50;58;48;58;50;58;50;58;48;44;  50;58;49;58;50;58;50;58;49;44;  50;58;49;58;51;58;50;58;49;44;
     50;58;49;58;51;58;50;58;49;44;  50;58;49;58;51;58;50;58;49;
     32;124;32;
     49;58;48;58;48;58;49;58;49;44;  49;58;49;58;49;58;50;58;48;44;  50;58;48;58;50;58;50;58;49;44;
     50;58;49;58;51;58;50;58;49;44;  50;58;49;58;51;58;50;58;49;44;  50;58;49;58;51;58;50;58;49;44;
     50;58;49;58;51;58;50;58;49;44;
     80;65;78;73;67;58;80;65;78;73;67;58;52;58;50;58;49].
Proof. vm_compute. reflexivity. Qed.
