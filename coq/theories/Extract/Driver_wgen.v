(* Extract/Driver_wgen.v — line protocol of the fault-injecting writer (writer half of C13, all four modes of the harness op `wf`):
   the model side of harness/src/bin/sjh_ser.rs `"wf" if f.len() == 8`, run on the state machine of Model/WriterMachine.v
   ([cw_write] = harness/src/rw.rs `ChunkWriter::write`).

   Case line (fields separated by single spaces):
     wf <cfg> <fmt> <ftab> <k-spec> <kind> <chunking> <sval>
   <cfg> <fmt> <ftab> <sval> <kind>   as in Extract/Driver_ser.v (its parsers are reused)
   <k-spec>   "-"        the writer never fails
              "<k>"      persistent failure: every `write` fails with <kind> once k bytes were accepted
              "o<k>"     the same failure exactly ONCE (the writer would serve later calls)
              "b<cap>"   all-or-nothing bounded sink: a buffer that does not fit entirely into <cap> bytes is refused with <kind>
                         (smaller later buffers would fit).  In this mode ChunkWriter::write returns before it looks at the
                         schedule: <chunking> is parsed (a bad one is BADCASE) and then has no effect.
   <chunking> "a" accept everything offered; "s<n1>,<n2>,..." CYCLIC schedule of accepted sizes per `write` call,
              0 = that call is Interrupted; all zeros is BADCASE
   Answer     "<hex of accepted bytes|-> ok" | "<hex|-> err Io <kind>" | "<hex|-> err <Code>",
              and for the "o"/"b" k-specs only the suffix " after=<calls_after_failure> fired=<true|false>".
   Decimal fields: "o"/"b" must be followed by a non-empty string of digits (Rust: `t.parse().ok()?`), otherwise BADCASE;
   a persistent <k> and <kind> are read as Driver_ser.v reads them (no validation), so that on the k-specs "-" and "<k>"
   this driver IS Driver_ser.v's `wf` (Proofs/WriterMachineProps.v `dispatch_wgen_is_dispatch_ser`). *)
From SJ Require Import Base.Bytes Base.Utf8 Base.FloatB Model.Read Model.Num Model.Value Model.De
  Model.Sval Model.Ser Model.ValueSer Model.WriterGen Model.WriterMachine Extract.Driver Extract.Driver_ser.
From Coq Require Strings.String Strings.Ascii.      (* for the Examples only; not imported: String.length must not shadow List.length *)
Open Scope N_scope.

(* ---- <chunking>: the cycle itself (Driver_ser.v `sched_of` unrolls it; the machine indexes it modulo its length) ---- *)
Definition cycle_of (c : bytes) : option (list nat) :=
  match c with
  | [97] => Some []
  | 115 :: r =>
    let cyc := map (fun d => N.to_nat (N_of_dec d)) (split_on 44 r) in
    if forallb (fun n => Nat.eqb n 0) cyc then None else Some cyc
  | _ => None
  end.

(* ---- <k-spec> ---- *)
Inductive kspec := KNever | KPersist (k : nat) | KOnce (k : nat) | KCap (c : nat).

Definition dec_field (t : bytes) : option nat :=
  match t with
  | [] => None
  | _ :: _ => if forallb is_decch t then Some (N.to_nat (N_of_dec t)) else None
  end.

(* "o..." / "b..." : the k-specs that Driver_ser.v does not know *)
Definition is_ext_kspec (k : bytes) : bool :=
  match k with b0 :: _ => (b0 =? 111) || (b0 =? 98) | [] => false end.

Definition kspec_of (k : bytes) : option kspec :=
  match k with
  | b0 :: t =>
    if b0 =? 111 then match dec_field t with Some n => Some (KOnce n) | None => None end
    else if b0 =? 98 then match dec_field t with Some n => Some (KCap n) | None => None end
    else Some (match k with [45] => KNever | _ => KPersist (N.to_nat (N_of_dec k)) end)     (* as Driver_ser.v *)
  | [] => Some (KPersist 0)                                                                  (* as Driver_ser.v: N_of_dec [] = 0 *)
  end.

(* `let mut w = rw::ChunkWriter::new(0);` followed by the assignments of the `wf` arm *)
Definition params_of (ks : kspec) (kind : N) (cyc : list nat) : cwp :=
  match ks with
  | KNever => mkCWP 0%nat cyc None kind false None       (* fail_kind is never read: nothing can fail *)
  | KPersist k => mkCWP 0%nat cyc (Some k) kind false None
  | KOnce k => mkCWP 0%nat cyc (Some k) kind true None
  | KCap c => mkCWP 0%nat cyc None kind false (Some c)
  end.
Definition extended (ks : kspec) : bool := match ks with KOnce _ | KCap _ => true | _ => false end.

(* ---- the answer ---- *)
Definition s_after : bytes := [32; 97; 102; 116; 101; 114; 61].      (* " after=" *)
Definition s_fired : bytes := [32; 102; 105; 114; 101; 100; 61].     (* " fired=" *)
Definition s_true : bytes := [116; 114; 117; 101].
Definition s_false : bytes := [102; 97; 108; 115; 101].

(* the persistent part is printed by Driver_ser.v's [show_wf] (which only reads the accepted bytes of the writer it is given) *)
Definition show_cw {A} (ext : bool) (x : cwresult A) : bytes :=
  show_wf (mkW (cr_accepted x) [] None, cr_result x)
  ++ (if ext then s_after ++ dec_of_nat (cr_after x) ++ s_fired ++ (if cr_fired x then s_true else s_false) else []).

(* ---- dispatch ---- *)
Definition dispatch_wgen (fields : list bytes) : bytes :=
  match fields with
  | [[119; 102]; c; f; ft; k; kind; ch; sv] =>
    match fmt_of f, parse_ftab ft, sval_of_field sv with
    | Some F, Some tab, Some v =>
      let t := serialize_trace (cfg_of c) (ftab_lookup tab false) (ftab_lookup tab true) F v in
      match cycle_of ch with
      | Some cyc =>
        match kspec_of k with
        | Some ks =>
          let p := params_of ks (N_of_dec kind) cyc in
          show_cw (extended ks) (cw_run p (cw_fuel p (fst t)) t)
        | None => s_bad
        end
      | None => s_bad
      end
    | _, _, _ => s_bad
    end
  | _ => s_bad
  end.

(* ---- examples: the answers below are the ones printed by the real harness (sjh_ser) for the same lines ---- *)
Module Examples.
  Import Strings.String.StringSyntax.
  Local Open Scope string_scope.
  Fixpoint bytes_of_string (s : String.string) : bytes :=
    match s with String.EmptyString => [] | String.String a r => Ascii.N_of_ascii a :: bytes_of_string r end.
  (* a line, split at spaces like ocaml/driver_ser.ml does *)
  Definition line (s : String.string) : list bytes := filter (fun f => negb (Nat.eqb (length f) 0)) (split_on 32 (bytes_of_string s)).
  Definition ans (s : String.string) : bytes := bytes_of_string s.

  (* struct { a: 17u8, b: true }, compact: 17 write_all buffers, one per quote / brace / colon / comma, key text and scalar
     (hex 7b 22 61 22 3a 3137 2c 22 62 22 3a 74727565 7d) *)
  Example ex_never :
    dispatch_wgen (line "wf - c - - 1 a R(61;If17;62;T)") = ans "7b2261223a31372c2262223a747275657d ok".
  Proof. vm_compute. reflexivity. Qed.

  (* persistent failure after 5 bytes, schedule 1,Interrupted,2 *)
  Example ex_persistent :
    dispatch_wgen (line "wf - c - 5 3 s1,0,2 R(61;If17;62;T)") = ans "7b2261223a err Io 3".
  Proof. vm_compute. reflexivity. Qed.

  (* the same failure once: the serializer does not call the writer again (after=0) *)
  Example ex_once :
    dispatch_wgen (line "wf - c - o5 3 s1,0,2 R(61;If17;62;T)") = ans "7b2261223a err Io 3 after=0 fired=true".
  Proof. vm_compute. reflexivity. Qed.

  (* one-shot with a schedule starting with Interrupted: call 0 is Interrupted, calls 1..3 take 7b, 22, 61, call 4 is
     Interrupted although 3 bytes were accepted already (the schedule is looked at first), call 5 fails *)
  Example ex_once_interrupted :
    dispatch_wgen (line "wf - c - o3 4 s0,1 R(61;If17;62;T)") = ans "7b2261 err Io 4 after=0 fired=true".
  Proof. vm_compute. reflexivity. Qed.

  (* bounded sink of 6 bytes: "17" does not fit behind the 5 bytes 7b2261223a and is refused whole *)
  Example ex_cap :
    dispatch_wgen (line "wf - c - b6 4 a R(61;If17;62;T)") = ans "7b2261223a err Io 4 after=0 fired=true".
  Proof. vm_compute. reflexivity. Qed.

  (* with `cap` the schedule is ignored (here it would interrupt every other call and take one byte at a time) *)
  Example ex_cap_ignores_sched :
    dispatch_wgen (line "wf - c - b6 4 s0,1 R(61;If17;62;T)") = ans "7b2261223a err Io 4 after=0 fired=true"
    /\ dispatch_wgen (line "wf - c - b100 4 s1,0,2 R(61;If17;62;T)") = ans "7b2261223a31372c2262223a747275657d ok after=0 fired=false".
  Proof. split; vm_compute; reflexivity. Qed.

  (* nothing accepted at all *)
  Example ex_once_zero : dispatch_wgen (line "wf - c - o0 2 a T") = ans "- err Io 2 after=0 fired=true".
  Proof. vm_compute. reflexivity. Qed.

  (* rejected lines *)
  Example ex_bad :
    dispatch_wgen (line "wf - c - o 2 a T") = s_bad /\ dispatch_wgen (line "wf - c - bx 2 a T") = s_bad
    /\ dispatch_wgen (line "wf - c - 3 2 s0,0 T") = s_bad /\ dispatch_wgen (line "wf - c - b3 2 s0 T") = s_bad.
  Proof. repeat split; vm_compute; reflexivity. Qed.
End Examples.
