(* Extract/Extract_rt.v — extraction of the SerTyped tie driver (ExtrOcamlBasic only). *)
Require Extraction.
Require Import ExtrOcamlBasic.
From SJ Require Import Extract.Driver_rt.
Extraction "sjmodel_rt.ml" dispatch_rt.
