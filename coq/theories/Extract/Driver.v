(* Extract/Driver.v — line protocol of the correspondence check, entirely in Gallina so that the
   OCaml glue is only: split a line at spaces, turn characters into N, call [dispatch], print.
   One case per line:  <op> <cfg> <args...> ; answer: one line. *)
From SJ Require Import Base.Bytes Base.Utf8 Base.FloatB Gen.Tables
  Model.Read Model.Str Model.Num Model.Value Model.De Model.Ignore Model.Stream.
From Flocq Require Import Core BinarySingleNaN.
Open Scope N_scope.

(* ---- text helpers ---------------------------------------------------------------------- *)
Definition hex_digit (n : N) : N := if n <? 10 then 48 + n else 87 + n.
Fixpoint hex_encode (l : bytes) : bytes :=
  match l with [] => [] | b :: r => hex_digit (b / 16) :: hex_digit (b mod 16) :: hex_encode r end.
Definition unhex (c : N) : option N :=
  if (48 <=? c) && (c <=? 57) then Some (c - 48)
  else if (97 <=? c) && (c <=? 102) then Some (c - 87) else None.
Fixpoint hex_decode (l : bytes) : option bytes :=
  match l with
  | [] => Some []
  | [45] => Some []                         (* "-" stands for the empty string *)
  | a :: b :: r =>
    match unhex a, unhex b, hex_decode r with
    | Some x, Some y, Some t => Some (x * 16 + y :: t)
    | _, _, _ => None
    end
  | _ => None
  end.
Definition hex_or_dash (l : bytes) : bytes := match l with [] => [45] | _ => hex_encode l end.

Fixpoint dec_aux (fuel : nat) (n : N) (acc : bytes) : bytes :=
  match fuel with
  | O => acc
  | S f => if n <? 10 then (48 + n) :: acc else dec_aux f (n / 10) ((48 + n mod 10) :: acc)
  end.
Definition dec_of_N (n : N) : bytes := dec_aux (S (N.to_nat (N.log2 n))) n [].
Definition dec_of_nat (n : nat) : bytes := dec_of_N (N.of_nat n).
Definition dec_of_Z (z : Z) : bytes := if (z <? 0)%Z then 45 :: dec_of_N (Z.to_N (- z)) else dec_of_N (Z.to_N z).
Fixpoint N_of_dec_aux (l : bytes) (acc : N) : N :=
  match l with [] => acc | c :: r => N_of_dec_aux r (acc * 10 + (c - 48)) end.
Definition N_of_dec (l : bytes) : N := N_of_dec_aux l 0.

Fixpoint hex16_aux (k : nat) (n : N) (acc : bytes) : bytes :=
  match k with O => acc | S k' => hex16_aux k' (n / 16) (hex_digit (n mod 16) :: acc) end.
Definition hex16 (n : N) : bytes := hex16_aux 16 n [].

Definition str (s : list N) : bytes := s.
Definition sp : N := 32.

Fixpoint join (sep : bytes) (l : list bytes) : bytes :=
  match l with
  | [] => []
  | [x] => x
  | x :: r => x ++ sep ++ join sep r
  end.

(* ---- canonical printers ------------------------------------------------------------------ *)
Definition show_num (n : num) : bytes :=
  match n with
  | NPos n => 117 :: dec_of_N n                 (* u<dec> *)
  | NNeg z => 105 :: dec_of_Z z                 (* i<dec> *)
  | NFloat f => 100 :: hex16 (bits_of_b64 f)    (* d<16 hex> *)
  | NLit s => 108 :: hex_or_dash s              (* l<hex> *)
  end.

Fixpoint show_value (v : value) : bytes :=
  match v with
  | VNull => [110]
  | VBool true => [116]
  | VBool false => [102]
  | VNum n => show_num n
  | VStr s => 115 :: hex_or_dash s
  | VArr l => 97 :: 40 :: join [44] (map show_value l) ++ [41]
  | VObj l => 111 :: 40 :: join [44] (map (fun kv => hex_or_dash (fst kv) ++ 58 :: show_value (snd kv)) l) ++ [41]
  end.

Definition code_name (c : ecode) : bytes :=
  match c with
  | Message _ => [77;101;115;115;97;103;101]
  | Io _ => [73;111]
  | EofWhileParsingList => [69;111;102;76;105;115;116]
  | EofWhileParsingObject => [69;111;102;79;98;106;101;99;116]
  | EofWhileParsingString => [69;111;102;83;116;114;105;110;103]
  | EofWhileParsingValue => [69;111;102;86;97;108;117;101]
  | ExpectedColon => [69;120;112;67;111;108;111;110]
  | ExpectedListCommaOrEnd => [69;120;112;76;105;115;116;67;111;109;109;97;79;114;69;110;100]
  | ExpectedObjectCommaOrEnd => [69;120;112;79;98;106;67;111;109;109;97;79;114;69;110;100]
  | ExpectedSomeIdent => [69;120;112;73;100;101;110;116]
  | ExpectedSomeValue => [69;120;112;86;97;108;117;101]
  | ExpectedDoubleQuote => [69;120;112;81;117;111;116;101]
  | InvalidEscape => [73;110;118;69;115;99;97;112;101]
  | InvalidNumber => [73;110;118;78;117;109;98;101;114]
  | NumberOutOfRange => [78;117;109;82;97;110;103;101]
  | InvalidUnicodeCodePoint => [73;110;118;85;110;105;99;111;100;101]
  | ControlCharacterWhileParsingString => [67;116;114;108;67;104;97;114]
  | KeyMustBeAString => [75;101;121;83;116;114;105;110;103]
  | ExpectedNumericKey => [69;120;112;78;117;109;75;101;121]
  | FloatKeyMustBeFinite => [70;108;111;97;116;75;101;121]
  | LoneLeadingSurrogateInHexEscape => [76;111;110;101;83;117;114;114]
  | TrailingComma => [84;114;97;105;108;67;111;109;109;97]
  | TrailingCharacters => [84;114;97;105;108;67;104;97;114;115]
  | UnexpectedEndOfHexEscape => [69;110;100;72;101;120;69;115;99]
  | RecursionLimitExceeded => [82;101;99;76;105;109;105;116]
  end.

Definition cat_name (c : cat) : bytes :=
  match c with
  | CatIo => [105;111] | CatSyntax => [115;121;110;116;97;120] | CatData => [100;97;116;97] | CatEof => [101;111;102]
  end.

Definition s_ok : bytes := [111;107].
Definition s_err : bytes := [101;114;114].
Definition s_fuel : bytes := [70;85;69;76].
Definition s_panic : bytes := [80;65;78;73;67].
Definition s_bad : bytes := [66;65;68;67;65;83;69].

(* err <code> <cat> <line> <col>   |   err Io io <kind> *)
Definition show_err (input : bytes) (c : ecode) (idx : nat) : bytes :=
  match c with
  | Io k => s_err ++ sp :: code_name c ++ sp :: cat_name (category c) ++ sp :: dec_of_N k
  | _ => let '(line, col) := pos_of input idx in
         s_err ++ sp :: code_name c ++ sp :: cat_name (category c) ++ sp :: dec_of_N line ++ sp :: dec_of_N col
  end.

Definition show_res {A} (input : bytes) (show : A -> bytes) (r : res A) : bytes :=
  match r with
  | Ok a => match show a with [] => s_ok | t => s_ok ++ sp :: t end
  | Err c i => show_err input c i
  | OutOfFuel => s_fuel
  | Panic => s_panic
  end.

(* ---- argument decoding ------------------------------------------------------------------- *)
Definition has (c : N) (l : bytes) : bool := existsb (N.eqb c) l.
Definition cfg_of (f : bytes) : cfg :=
  mkCfg (has 112 f) (has 102 f) (has 97 f) (has 117 f).     (* p f a u *)
Definition rk_of (f : bytes) : rkind :=
  match f with 115 :: _ => RStr | 98 :: _ => RSlice | _ => RIo end.   (* s b r<k> *)

Definition show_item (input : bytes) (it : option item) : bytes :=
  match it with
  | None => [78]                                             (* N *)
  | Some (IVal v) => 86 :: show_value v                      (* V<value> *)
  | Some (IErr c i) => match c with
                       | Io k => 69 :: code_name c ++ 47 :: cat_name (category c) ++ 47 :: dec_of_N k
                       | _ => let '(line, col) := pos_of input i in
                              69 :: code_name c ++ 47 :: cat_name (category c) ++ 47 :: dec_of_N line ++ 47 :: dec_of_N col
                       end
  | Some IBad => s_panic
  end.

Definition show_hist (input : bytes) (h : list (option item * nat)) : bytes :=
  join [sp] (map (fun p => show_item input (fst p) ++ 64 :: dec_of_nat (snd p)) h).

Definition show_strres (r : bytes * bool * st) : bytes :=
  let '(out, borrowed, s) := r in
  (if borrowed then [98] else [99]) ++ sp :: hex_or_dash out ++ sp :: dec_of_nat (off s).

(* ---- dispatch -------------------------------------------------------------------------------- *)
Definition dispatch (fields : list bytes) : bytes :=
  match fields with
  (* pv <cfg> <src> <hex> : from_str/from_slice/from_reader::<Value> *)
  | [[112;118]; c; src; hx] =>
    match hex_decode hx with
    | Some input => show_res input show_value (from_input (mkEnv (rk_of src) TEof (cfg_of c)) input)
    | None => s_bad
    end
  (* pi : IgnoredAny *)
  | [[112;105]; c; src; hx] =>
    match hex_decode hx with
    | Some input => show_res input (fun _ => []) (ignored_from_input (mkEnv (rk_of src) TEof (cfg_of c)) input)
    | None => s_bad
    end
  (* pr : Box<RawValue> at top level: span *)
  | [[112;114]; c; src; hx] =>
    match hex_decode hx with
    | Some input =>
      let E := mkEnv (rk_of src) TEof (cfg_of c) in
      show_res input (fun b => hex_or_dash b)
        (let* (a, b, s1) := raw_value E (init_st input) in
         let span := firstn (b - a) (skipn a input) in
         let* _ := (match rk E with RStr => Ok tt | _ => if utf8_valid span then Ok tt else error E s1 InvalidUnicodeCodePoint end) in
         let* _ := de_end E s1 in Ok span)
    | None => s_bad
    end
  (* io <cfg> <target v|i> <k> <kind> <hex> : reader failing with <kind> once <k> bytes have been delivered *)
  | [[105;111]; c; tgt; k; kind; hx] =>
    match hex_decode hx with
    | Some input0 =>
      let input := firstn (N.to_nat (N_of_dec k)) input0 in
      let E := mkEnv RIo (TFail (N_of_dec kind)) (cfg_of c) in
      match tgt with
      | 105 :: _ => show_res input (fun _ => []) (ignored_from_input E input)
      | _ => show_res input show_value (from_input E input)
      end
    | None => s_bad
    end
  (* st <cfg> <item v|i> <src> <n> <hex> : stream history of n calls *)
  | [[115;116]; c; tgt; src; n; hx] =>
    match hex_decode hx with
    | Some input =>
      let E := mkEnv (rk_of src) TEof (cfg_of c) in
      let itemp := match tgt with 105 :: _ => ignored_item | _ => value_item end in
      show_hist input (stream_run (N.to_nat (N_of_dec n)) E itemp (stream_init input))
    | None => s_bad
    end
  (* ps <mode s|r> <src> <hex> : Read::parse_str / parse_str_raw right after an opening quote *)
  | [[112;115]; mode; src; hx] =>
    match hex_decode hx with
    | Some input =>
      let E := mkEnv (rk_of src) TEof (mkCfg false false false false) in
      show_res input show_strres
        (match mode with 114 :: _ => parse_str_raw E (init_st input) | _ => parse_str E (init_st input) end)
    | None => s_bad
    end
  (* is <src> <hex> : Read::ignore_str *)
  | [[105;115]; src; hx] =>
    match hex_decode hx with
    | Some input =>
      let E := mkEnv (rk_of src) TEof (mkCfg false false false false) in
      show_res input (fun s => dec_of_nat (off s)) (ignore_str E (init_st input))
    | None => s_bad
    end
  | _ => s_bad
  end.
