(* Extract/Extract_map.v — extraction of the C17 driver (ExtrOcamlBasic only). *)
Require Extraction.
Require Import ExtrOcamlBasic.
From SJ Require Import Extract.Driver_map.
Extraction "sjmodel_map.ml" dispatch_map.
