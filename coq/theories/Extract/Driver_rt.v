(* Extract/Driver_rt.v — ties Model/SerTyped.v (the universal `Serialize` of the typed harness as a function dval -> sval) to the harness:
     rtm <cfg> <ty> <hex compact text>
   parses the text the REAL universal Serialize printed for a datum of type <ty> back into a datum with the typed model (DeTyped), maps it to the tree of
   Serializer calls with [sval_of_dval] and serialises that tree compactly with Model/Ser.v (float-free types: no ryu text is needed):
     ok <hex bytes>      what the model prints — must be the text it was given (the implementation's own output)
     untyped | deerr <..> | sererr      the model cannot type / read / print it *)
From SJ Require Import Base.Bytes Base.FloatB Model.Read Model.Sval Model.Ser Model.Ty Model.DeTyped Model.SerTyped Extract.Driver Extract.Driver_typed.
Open Scope N_scope.

Definition no_fmt (_ : N) : bytes := [].

Definition dispatch_rt (fields : list bytes) : bytes :=
  match fields with
  | [[114;116;109]; c; tyt; hx] =>
    match hex_decode hx, ty_of_text tyt with
    | Some input, Some t =>
      match from_input_typed (mkEnv RSlice TEof (cfg_of c)) t input with
      | TOk d =>
        match sval_of_dval t d with
        | Some sv =>
          match to_vec (cfg_of c) no_fmt no_fmt Compact sv with
          | Ok out => s_ok ++ sp :: hex_or_dash out
          | _ => [115;101;114;101;114;114]
          end
        | None => [117;110;116;121;112;101;100]
        end
      | r => [100;101;101;114;114;32] ++ show_tres input r
      end
    | _, _ => s_bad
    end
  | _ => s_bad
  end.
