(* Extract/Driver_numacc.v — the Number accessors of the DEFAULT representation (number.rs: as_i64 / as_u64 / as_i128 / as_u128 / as_f64 /
   is_i64 / is_u64 / is_f64; models: Model/Pointer.v num_as_i64 num_as_u64 num_as_f64, Proofs/NumberAcc.v num_as_i128 num_as_u128 and the three num_is_ predicates), for the C06 check:
     na <cfg letters without a> <hex text>  ->  num <as_i64|-> <as_u64|-> <as_i128|-> <as_u128|-> <is_i64> <is_u64> <is_f64> <f64 bits|-> agree
                                                 notnum | err ...     (same line the harness op `na` of sjh_typed prints) *)
From SJ Require Import Base.Bytes Base.FloatB Model.Read Model.Value Model.De Model.Pointer Extract.Driver Proofs.NumberAcc.
Open Scope N_scope.

Definition opt_z (o : option Z) : bytes := match o with Some z => dec_of_Z z | None => [45] end.
Definition opt_n (o : option N) : bytes := match o with Some n => dec_of_N n | None => [45] end.
Definition bit01 (b : bool) : bytes := [if b then 49 else 48].

Definition show_acc (n : num) : bytes :=
  [110; 117; 109; 32] ++ opt_z (num_as_i64 n) ++ 32 :: opt_n (num_as_u64 n) ++ 32 :: opt_z (num_as_i128 n) ++ 32 :: opt_z (num_as_u128 n)
  ++ 32 :: bit01 (num_is_i64 n) ++ 32 :: bit01 (num_is_u64 n) ++ 32 :: bit01 (num_is_f64 n)
  ++ 32 :: (match num_as_f64 n with Some f => hex16 (bits_of_b64 f) | None => [45] end) ++ [32; 97; 103; 114; 101; 101].

Definition run_numacc (fields : list bytes) : bytes :=
  match fields with
  | [[110; 97]; c; hx] =>
    match hex_decode hx with
    | Some input =>
      match from_input (mkEnv RStr TEof (cfg_of c)) input with
      | Ok (VNum n) => show_acc n
      | Ok _ => [110; 111; 116; 110; 117; 109]
      | Err c i => show_err input c i
      | OutOfFuel => s_fuel
      | Panic => s_panic
      end
    | None => s_bad
    end
  | _ => s_bad
  end.
