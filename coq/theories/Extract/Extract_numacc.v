(* Extract/Extract_numacc.v — extraction of the Number accessor driver (ExtrOcamlBasic only). *)
Require Extraction.
Require Import ExtrOcamlBasic.
From SJ Require Import Extract.Driver_numacc.
Extraction "sjmodel_numacc.ml" run_numacc.
