(* Extract/Extract.v — extraction of the executable model to OCaml.
   Only ExtrOcamlBasic's directives are used (bool, option, unit, list, prod, sumbool, sumor);
   N / Z / positive / nat stay the extracted inductive datatypes. No Extract Constant of our own. *)
Require Extraction.
Require Import ExtrOcamlBasic.
From SJ Require Import Extract.Driver.
Extraction "sjmodel.ml" dispatch.
