(* Extract/Driver_raw.v — line protocol of the RawValue correspondence check (area `raw`, property C19).
   Entirely in Gallina: [run_raw_line] takes one input line (its characters as N) and returns the answer line.

     rfs <hex>                      RawValue::from_string(String)                       (cfg: none)
     rfs <cfg> <hex>                  the same under the feature set <cfg> (letters p f a u, as Extract/Driver.v; `-` = none)
     rnest <hex>                    from_str::<Vec<Box<RawValue>>>                       (TSeq TRaw)
     rnest <cfg> <src> <hex>          <src> = s (from_str) | b (from_slice) | r (from_reader)
     robj <hex>                     from_str::<map of String -> Box<RawValue>>, entries in source order (TMap KStr TRaw)
     robj <cfg> <src> <hex>
     rtop <cfg> <src> <hex>          from_str / from_slice / from_reader ::<Box<RawValue>>  (RawM.raw_from_input)
     rser <fmt> <hex>,<hex>,...      to_vec / to_vec_pretty of a Vec of RawValues holding these texts
                                     <fmt> = c (compact) | p<hex indent> (pretty; `p-` = empty indent); answer: ok <hex output>
   <hex>: lower-case hex of the bytes, `-` for the empty string.
   answers:
     rfs, rtop   ok <hex span>
     rnest       ok <hex1>,<hex2>,...          (`ok` alone for an empty array)
     robj        ok <hexkey>:<hexspan>,...     (`ok` alone for an empty object; an empty key is `-`)
     errors      exactly the text of Extract/Driver_typed.v [show_tres]:
                   err <code name> <category> <line> <column> <msgclass|->   |   err Io io <kind>   |  FUEL | PANIC
                 (<code name>, <category> as printed by Extract/Driver.v [code_name] / [cat_name]; line/column = pos_of input idx)
     BADCASE     unparsable request *)
From SJ Require Import Base.Bytes Base.Utf8 Base.FloatB Gen.Tables
  Model.Read Model.Str Model.Num Model.Value Model.De Model.Ignore Model.Sval Model.Ser Model.Ty Model.DeTyped Model.RawM
  Extract.Driver Extract.Driver_typed.
Open Scope N_scope.

(* split a line at single spaces *)
Fixpoint split_at (sepc : N) (l : bytes) (cur : bytes) : list bytes :=
  match l with
  | [] => [rev cur]
  | c :: r => if c =? sepc then rev cur :: split_at sepc r [] else split_at sepc r (c :: cur)
  end.
Definition fields_of_line (line : bytes) : list bytes := split_at 32 line [].

(* `-` stands for "no feature letters" *)
Definition cfg_of_dash (f : bytes) : cfg := match f with [45] => cfg_of [] | _ => cfg_of f end.

Definition show_tres_with {A} (input : bytes) (show : A -> bytes) (r : tres A) : bytes :=
  match r with
  | TOk a => match show a with [] => s_ok | t => s_ok ++ sp :: t end
  | TErr c i => show_terr input c i
  | TUnpos k _ => s_err ++ sp :: code_name (Message k) ++ sp :: cat_name CatData ++ [sp; 48; sp; 48; sp] ++ msg_class k
  | TFuel => s_fuel
  | TPanic => s_panic
  end.

Definition show_span (b : bytes) : bytes := hex_or_dash b.

(* DSeq [DRaw ..] -> hex,hex,... ; anything else cannot come out of TSeq TRaw *)
Definition show_raw_seq (d : dval) : bytes :=
  match d with
  | DSeq l => join [44] (map (fun x => show_span (raw_of x)) l)
  | _ => s_bad
  end.

Definition key_text (d : dval) : bytes := match d with DStr s _ => s | _ => [] end.
Definition show_raw_map (d : dval) : bytes :=
  match d with
  | DMap l => join [44] (map (fun kv => hex_or_dash (key_text (fst kv)) ++ 58 :: show_span (raw_of (snd kv))) l)
  | _ => s_bad
  end.

Definition run_rfs (c hx : bytes) : bytes :=
  match hex_decode hx with
  | Some input => show_tres_with input show_span (from_string (cfg_of_dash c) input)
  | None => s_bad
  end.

Definition run_typed (t : ty) (show : dval -> bytes) (c src hx : bytes) : bytes :=
  match hex_decode hx with
  | Some input => show_tres_with input show (from_input_typed (mkEnv (rk_of src) TEof (cfg_of_dash c)) t input)
  | None => s_bad
  end.

Definition run_rtop (c src hx : bytes) : bytes :=
  match hex_decode hx with
  | Some input => show_tres_with input show_span (raw_from_input (mkEnv (rk_of src) TEof (cfg_of_dash c)) input)
  | None => s_bad
  end.

Fixpoint decode_all (l : list bytes) : option (list bytes) :=
  match l with
  | [] => Some []
  | h :: r => match hex_decode h, decode_all r with Some b, Some bs => Some (b :: bs) | _, _ => None end
  end.

Definition fmt_of (f : bytes) : option formatter :=
  match f with
  | [99] => Some Compact
  | 112 :: ind => match hex_decode ind with Some i => Some (Pretty i) | None => None end
  | _ => None
  end.

Definition no_float (_ : N) : bytes := [].

Definition run_rser (f items : bytes) : bytes :=
  match fmt_of f, decode_all (match items with [] => [] | _ => split_at 44 items [] end) with
  | Some F, Some rs =>
    show_res [] (fun b => hex_or_dash b)
      (rto_vec (cfg_of []) no_float no_float F (RSeq (Some (length rs)) (map RRaw rs)))
  | _, _ => s_bad
  end.

Definition dispatch_raw (fields : list bytes) : bytes :=
  match fields with
  | [[114;102;115]; hx] => run_rfs [45] hx                                             (* rfs <hex> *)
  | [[114;102;115]; c; hx] => run_rfs c hx                                              (* rfs <cfg> <hex> *)
  | [[114;110;101;115;116]; hx] => run_typed (TSeq TRaw) show_raw_seq [45] [115] hx      (* rnest <hex> *)
  | [[114;110;101;115;116]; c; src; hx] => run_typed (TSeq TRaw) show_raw_seq c src hx
  | [[114;111;98;106]; hx] => run_typed (TMap KStr TRaw) show_raw_map [45] [115] hx      (* robj <hex> *)
  | [[114;111;98;106]; c; src; hx] => run_typed (TMap KStr TRaw) show_raw_map c src hx
  | [[114;116;111;112]; c; src; hx] => run_rtop c src hx                                  (* rtop *)
  | [[114;115;101;114]; f; items] => run_rser f items                                     (* rser *)
  | [[114;115;101;114]; f] => run_rser f []
  | _ => s_bad
  end.

Definition run_raw_line (line : list N) : list N := dispatch_raw (fields_of_line line).

(* ---- self-checks ------------------------------------------------------------------------------ *)
(* "rfs 207b7d20" : ` {} ` -> ok 7b7d *)
Example run_raw_line_ex1 :
  run_raw_line [114;102;115;32; 50;48;55;98;55;100;50;48] = [111;107;32; 55;98;55;100].
Proof. vm_compute. reflexivity. Qed.
(* "rnest 5b312c205b5d205d" : `[1, [] ]` -> ok 31,5b5d *)
Example run_raw_line_ex2 :
  run_raw_line [114;110;101;115;116;32; 53;98;51;49;50;99;50;48;53;98;53;100;50;48;53;100] = [111;107;32; 51;49;44;53;98;53;100].
Proof. vm_compute. reflexivity. Qed.
(* "robj 7b2261223a20317d" : `{"a": 1}` -> ok 61:31 *)
Example run_raw_line_ex3 :
  run_raw_line [114;111;98;106;32; 55;98;50;50;54;49;50;50;51;97;50;48;51;49;55;100] = [111;107;32; 54;49;58;51;49].
Proof. vm_compute. reflexivity. Qed.
(* "rfs 5b312c5d" : `[1,]` -> err ExpValue syntax 1 4 - *)
Example run_raw_line_ex4 :
  run_raw_line [114;102;115;32; 53;98;51;49;50;99;53;100]
  = [101;114;114;32; 69;120;112;86;97;108;117;101;32; 115;121;110;116;97;120;32; 49;32; 52;32; 45].
Proof. vm_compute. reflexivity. Qed.
(* "rser c 7b7d,2031" : [`{}`, ` 1`] compact -> ok 5b7b7d2c20315d  = `[{}, 1]` *)
Example run_raw_line_ex5 :
  run_raw_line [114;115;101;114;32; 99;32; 55;98;55;100;44;50;48;51;49] = [111;107;32; 53;98;55;98;55;100;50;99;50;48;51;49;53;100].
Proof. vm_compute. reflexivity. Qed.
