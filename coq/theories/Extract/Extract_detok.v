(* Extract/Extract_detok.v — extraction of the private-token driver (ExtrOcamlBasic only). *)
Require Extraction.
Require Import ExtrOcamlBasic.
From SJ Require Import Extract.Driver_detok.
Extraction "sjmodel_detok.ml" dispatch_detok.
