(* Extract/Extract_ptr.v — extraction of the C18 driver (ExtrOcamlBasic only). *)
Require Extraction.
Require Import ExtrOcamlBasic.
From SJ Require Import Extract.Driver_ptr.
Extraction "sjmodel_ptr.ml" dispatch_ptr.
