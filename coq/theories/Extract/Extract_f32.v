(* Extract/Extract_f32.v — extraction of the f32 glue driver (ExtrOcamlBasic only). *)
Require Extraction.
Require Import ExtrOcamlBasic.
From SJ Require Import Extract.Driver_f32.
Extraction "sjmodel_f32.ml" dispatch_f32.
