(* Extract/Driver_rawde.v — line protocol of the `impl Deserializer for &RawValue` / `to_raw_value` correspondence
   (model Model/RawDe.v; implementation side /verif/harness/src/bin/sjh_rawde.rs).
   [run_rawde_line] takes one input line (its characters as N) and returns the answer line.

     rd <cfg> <ty> <hex text>       let raw: Box<RawValue> = from_str(text)  (must succeed, else `capture-failed`);
                                    T::deserialize(&*raw)  for the type program <ty>
                                    answer: exactly the text of Extract/Driver_typed.v [show_tres], positions relative to raw.get():
                                      ok <dval> | err <code> <cat> <line> <col> <msgclass|-> | FUEL | PANIC
     rs <cfg> <ty> <hex text>       the comparison point  from_str::<T>(raw.get())  on the same captured text (same answer format)
     rtr <cfg> <sval>               value::to_raw_value(&x): answer  ok <hex of raw.get()>  |  err <code name>
     rtr <cfg> <ftab> <sval>        the same with the ryu texts of the floats of the case (<ftab>, <sval>: Extract/Driver_ser.v)
   <cfg>: feature letters p f a u or `-` (`u` has no effect on rd: the Deserializer inside `impl Deserializer for &RawValue`
   never has its recursion limit disabled);  <ty>, <dval>: Extract/Driver_typed.v;  <hex>: lower-case hex, `-` = empty. *)
From SJ Require Import Base.Bytes Base.Utf8 Base.FloatB Gen.Tables
  Model.Read Model.Str Model.Num Model.Value Model.De Model.Ignore Model.Sval Model.Ser Model.Ty Model.DeTyped Model.RawM Model.RawDe
  Extract.Driver Extract.Driver_typed Extract.Driver_raw.
From SJ Require Extract.Driver_ser.
Open Scope N_scope.

Definition s_capture_failed : bytes := [99;97;112;116;117;114;101;45;102;97;105;108;101;100].

(* rd: capture with from_str::<Box<RawValue>>, then the typed request on the captured text *)
Definition run_rd (c tyt hx : bytes) : bytes :=
  match hex_decode hx, ty_of_text tyt with
  | Some input, Some t =>
    let cf := cfg_of_dash c in
    match raw_from_input (mkEnv RStr TEof cf) input with
    | TOk j => show_tres j (raw_deserialize_into cf t j)
    | _ => s_capture_failed
    end
  | _, _ => s_bad
  end.

(* rs: from_str::<T>(raw.get()) *)
Definition run_rs (c tyt hx : bytes) : bytes :=
  match hex_decode hx, ty_of_text tyt with
  | Some input, Some t =>
    let cf := cfg_of_dash c in
    match raw_from_input (mkEnv RStr TEof cf) input with
    | TOk j => show_tres j (raw_from_str cf t j)
    | _ => s_capture_failed
    end
  | _, _ => s_bad
  end.

Definition show_code_res (r : res bytes) : bytes :=
  match r with
  | Ok b => s_ok ++ sp :: hex_or_dash b
  | Err e _ => s_err ++ sp :: code_name e
  | OutOfFuel => s_fuel
  | Panic => s_panic
  end.

Definition run_rtr (c ft sv : bytes) : bytes :=
  match Driver_ser.parse_ftab ft, Driver_ser.sval_of_field sv with
  | Some tab, Some v =>
    show_code_res (RawDe.to_raw_value (cfg_of_dash c) (Driver_ser.ftab_lookup tab false) (Driver_ser.ftab_lookup tab true) v)
  | _, _ => s_bad
  end.

Definition dispatch_rawde (fields : list bytes) : bytes :=
  match fields with
  | [[114;100]; c; tyt; hx] => run_rd c tyt hx                 (* rd *)
  | [[114;115]; c; tyt; hx] => run_rs c tyt hx                 (* rs *)
  | [[114;116;114]; c; sv] => run_rtr c [45] sv                (* rtr <cfg> <sval> *)
  | [[114;116;114]; c; ft; sv] => run_rtr c ft sv              (* rtr <cfg> <ftab> <sval> *)
  | _ => s_bad
  end.

Definition run_rawde_line (line : list N) : list N := dispatch_rawde (fields_of_line line).

(* ---- self-checks ------------------------------------------------------------------------------ *)
(* "rd - n0 203120" : ` 1 ` captured as `1`, u8 -> ok i1 *)
Example run_rawde_line_ex1 : run_rawde_line [114;100;32;45;32;110;48;32; 50;48;51;49;50;48] = [111;107;32;105;49].
Proof. vm_compute. reflexivity. Qed.
(* "rd - i4 312e35" : `1.5` as i128 -> ok i1 (no end() check), while "rs - i4 312e35" -> err TrailChars syntax 1 2 - *)
Example run_rawde_line_ex2 : run_rawde_line [114;100;32;45;32;105;52;32; 51;49;50;101;51;53] = [111;107;32;105;49].
Proof. vm_compute. reflexivity. Qed.
Example run_rawde_line_ex3 :
  run_rawde_line [114;115;32;45;32;105;52;32; 51;49;50;101;51;53]
  = [101;114;114;32; 84;114;97;105;108;67;104;97;114;115;32; 115;121;110;116;97;120;32; 49;32; 50;32; 45].
Proof. vm_compute. reflexivity. Qed.
(* "rd - b 5b" : `[` is not a JSON text -> capture-failed *)
Example run_rawde_line_ex4 : run_rawde_line [114;100;32;45;32;98;32; 53;98] = s_capture_failed.
Proof. vm_compute. reflexivity. Qed.
(* "rtr - Q?(TN)" : to_raw_value(&[true, None]) -> ok 5b747275652c6e756c6c5d = `[true,null]` *)
Example run_rawde_line_ex5 :
  run_rawde_line [114;116;114;32;45;32; 81;63;40;84;78;41]
  = [111;107;32; 53;98;55;52;55;50;55;53;54;53;50;99;54;101;55;53;54;99;54;99;53;100].
Proof. vm_compute. reflexivity. Qed.
