(* Extract/Extract_wgen.v — extraction of the general-writer driver (ExtrOcamlBasic only). *)
Require Extraction.
Require Import ExtrOcamlBasic.
From SJ Require Import Extract.Driver_wgen.
Extraction "sjmodel_wgen.ml" dispatch_wgen.
