(* Extract/Extract_str5.v — extraction of the C05 driver (ExtrOcamlBasic only). *)
Require Extraction.
Require Import ExtrOcamlBasic.
From SJ Require Import Extract.Driver_str5.
Extraction "sjmodel_str5.ml" dispatch_str5.
