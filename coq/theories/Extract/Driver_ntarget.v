(* Extract/Driver_ntarget.v — line protocol of the `Number`-as-target correspondence (Model/NumberTarget.v).
     nt <cfg> <src> <hex>          serde_json::from_str / from_slice / from_reader ::<Number>   (src: s | b | r<k> as in Driver.v)
     nv <cfg> <hex> [<ftab>]       the text is parsed into a Value (Model/De.v from_input, slice reader), then
                                   from_value::<Number>(v) (= Number::deserialize(v); the harness also runs Number::deserialize(&v))
   answer:  ok <num>  |  err <code> <cat> <line> <col> <msgclass|->  |  err Io io <kind>  |  FUEL | PANIC
            parse-err              (nv only) when the text is not a Value
   <cfg>  feature letters as in Driver.v (p f a u); <num> as Driver.v show_num (u<dec> i<dec> d<16 hex> l<hex>)
   <ftab> "-" or  <16 hex bits>=<hex ryu text>:<hex Display text>,...  as in Driver_fv.v (arbitrary_precision builds: ryu and
          f64's Display are external; printed by the harness op `nvf <hex>`) *)
From SJ Require Import Base.Bytes Base.Utf8 Base.FloatB Gen.Tables
  Model.Read Model.Str Model.Num Model.Value Model.De Model.Ty Model.DeTyped Model.ValueDe Model.NumberTarget
  Extract.Driver Extract.Driver_typed Extract.Driver_fv.
Open Scope N_scope.

Definition show_nvres (r : vres num) : bytes :=
  match r with
  | VOk n => s_ok ++ sp :: show_num n
  | VErr c line col =>
    match c with
    | Io k => s_err ++ sp :: code_name c ++ sp :: cat_name (category c) ++ sp :: dec_of_N k
    | Message k => s_err ++ sp :: code_name c ++ sp :: cat_name (category c) ++ sp :: dec_of_N line ++ sp :: dec_of_N col ++ sp :: msg_class k
    | _ => s_err ++ sp :: code_name c ++ sp :: cat_name (category c) ++ sp :: dec_of_N line ++ sp :: dec_of_N col ++ [sp; 45]
    end
  | VFuel => s_fuel
  | VPanic => s_panic
  end.

Definition run_nv (c hx ft : bytes) : bytes :=
  match hex_decode hx, parse_fv_tab ft with
  | Some input, Some tab =>
    let cf := cfg_of c in
    match from_input (mkEnv RSlice TEof cf) input with
    | Ok v => show_nvres (number_from_value cf (fenv_of_tab tab) v)
    | _ => s_parse_err
    end
  | _, _ => s_bad
  end.

Definition dispatch_ntarget (fields : list bytes) : bytes :=
  match fields with
  (* nt <cfg> <src> <hex> *)
  | [[110;116]; c; src; hx] =>
    match hex_decode hx with
    | Some input => show_nvres (number_from_text (mkEnv (rk_of src) TEof (cfg_of c)) input)
    | None => s_bad
    end
  (* nv <cfg> <hex> [<ftab>] *)
  | [[110;118]; c; hx] => run_nv c hx [45]
  | [[110;118]; c; hx; ft] => run_nv c hx ft
  | _ => s_bad
  end.
