(* Extract/Driver_vacc.v — line protocol of the correspondence check of the `Value` accessors (model side; hand models of Model/VaccAst.v and
   Model/Pointer.v, the ones Proofs/VaccSrc.v proves equal to the translated source).
   Values travel in the canonical text form of [show_value] (Extract/Driver.v), parsed by [Driver_ptr.parse_val].
   Op:
     acc <value>     ->  one line of 20 `name=result` fields separated by one space, in the order of src/value/mod.rs:
        is_object=<t|f> as_object=<o(..)|none> as_object_mut=<o(..)|none> is_array=<t|f> as_array=<a(..)|none> as_array_mut=<a(..)|none>
        is_string=<t|f> as_str=<s<hex or ->|none> is_number=<t|f> as_number=<u<dec>|i<dec>|d<16 hex>|none>
        is_i64=<t|f> is_u64=<t|f> is_f64=<t|f> as_i64=<dec|none> as_u64=<dec|none> as_f64=<16 hex: f64 bits|none>
        is_boolean=<t|f> as_bool=<t|f|none> is_null=<t|f> as_null=<unit|none>                                                        *)
From SJ Require Import Base.Bytes Base.FloatB Model.Value Model.Pointer Model.VaccAst Extract.Driver Extract.Driver_ptr.
Open Scope N_scope.

Definition show_o {A} (f : A -> bytes) (o : option A) : bytes := match o with Some a => f a | None => s_none end.
Definition fld (name : bytes) (r : bytes) : bytes := name ++ 61 :: r.        (* name=result *)

Definition acc_line (v : value) : bytes :=
  join [sp] [
    fld [105;115;95;111;98;106;101;99;116] (show_b (v_is_object v));                                                  (* is_object *)
    fld [97;115;95;111;98;106;101;99;116] (show_o (fun m => show_value (VObj m)) (v_as_object v));                    (* as_object *)
    fld [97;115;95;111;98;106;101;99;116;95;109;117;116] (show_o (fun m => show_value (VObj m)) (v_as_object_mut v)); (* as_object_mut *)
    fld [105;115;95;97;114;114;97;121] (show_b (v_is_array v));                                                       (* is_array *)
    fld [97;115;95;97;114;114;97;121] (show_o (fun l => show_value (VArr l)) (v_as_array v));                         (* as_array *)
    fld [97;115;95;97;114;114;97;121;95;109;117;116] (show_o (fun l => show_value (VArr l)) (v_as_array_mut v));      (* as_array_mut *)
    fld [105;115;95;115;116;114;105;110;103] (show_b (v_is_string v));                                                (* is_string *)
    fld [97;115;95;115;116;114] (show_o (fun s => show_value (VStr s)) (as_str v));                                   (* as_str *)
    fld [105;115;95;110;117;109;98;101;114] (show_b (v_is_number v));                                                 (* is_number *)
    fld [97;115;95;110;117;109;98;101;114] (show_o show_num (v_as_number v));                                         (* as_number *)
    fld [105;115;95;105;54;52] (show_b (v_is_i64 v));                                                                 (* is_i64 *)
    fld [105;115;95;117;54;52] (show_b (v_is_u64 v));                                                                 (* is_u64 *)
    fld [105;115;95;102;54;52] (show_b (v_is_f64 v));                                                                 (* is_f64 *)
    fld [97;115;95;105;54;52] (show_o dec_of_Z (as_i64 v));                                                           (* as_i64 *)
    fld [97;115;95;117;54;52] (show_o dec_of_N (as_u64 v));                                                           (* as_u64 *)
    fld [97;115;95;102;54;52] (show_o (fun f => hex16 (bits_of_b64 f)) (as_f64 v));                                   (* as_f64 *)
    fld [105;115;95;98;111;111;108;101;97;110] (show_b (v_is_boolean v));                                             (* is_boolean *)
    fld [97;115;95;98;111;111;108] (show_o show_b (as_bool v));                                                       (* as_bool *)
    fld [105;115;95;110;117;108;108] (show_b (v_is_null v));                                                          (* is_null *)
    fld [97;115;95;110;117;108;108] (show_o (fun _ : unit => [117;110;105;116]) (v_as_null v))                        (* as_null *)
  ].

Definition dispatch_vacc (fields : list bytes) : bytes :=
  match fields with
  | [[97;99;99]; vf] =>                                       (* acc *)
    match value_of_field vf with
    | Some v => acc_line v
    | None => s_bad
    end
  | _ => s_bad
  end.
