(* Extract/Driver_io.v — extra ops for fault injection on streams (kept separate from Driver.v so that Driver.vo stays stable).
   sio <cfg> <item v|i> <k> <kind> <n> <hex> : StreamDeserializer over a reader that fails with <kind> once <k> bytes were delivered;
   history of <n> calls of next()/byte_offset(). *)
From SJ Require Import Base.Bytes Gen.Tables Model.Read Model.Value Model.De Model.Ignore Model.Stream Extract.Driver.
Open Scope N_scope.

Definition dispatch_io (fields : list bytes) : bytes :=
  match fields with
  | [[115;105;111]; c; tgt; k; kind; n; hx] =>
    match hex_decode hx with
    | Some input0 =>
      let input := firstn (N.to_nat (N_of_dec k)) input0 in
      let E := mkEnv RIo (TFail (N_of_dec kind)) (cfg_of c) in
      let itemp := match tgt with 105 :: _ => ignored_item | _ => value_item end in
      show_hist input (stream_run (N.to_nat (N_of_dec n)) E itemp (stream_init input))
    | None => s_bad
    end
  | _ => s_bad
  end.
