(* Extract/Driver_ser.v — line protocol of the serialiser checks (C03, C15, writer half of C13).

   Case lines (fields separated by single spaces):
     se <cfg> <fmt> <ftab> <sval>                    serialize the call tree through a recording writer
          -> "ok <hex of output> <b1,b2,...>"          (lengths of the buffers handed to write_all, in order; "-" if none)
           | "err <Code> <hex written before the error> <b1,b2,...>"
     sv <cfg> <fmt> <ftab> <hex of JSON text>         parse the text into a Value (from_slice), serialize the Value
          -> as for se, or "perr" when the text does not parse
     tv <cfg> <ftab> <sval>                           to_value  -> "ok <value>" | "err <Code>"
     wf <cfg> <fmt> <ftab> <k> <kind> <chunking> <sval>
                                                      to_writer into a writer that takes short writes according to <chunking>
                                                      and fails with io::ErrorKind <kind> once <k> bytes were accepted
          -> "<hex of accepted bytes> ok" | "<hex> err Io <kind>" | "<hex> err <Code>"
   <cfg>     feature letters as in Driver.v (p f a u) or "-"
   <fmt>     "c" = CompactFormatter ; "p<hex>" = PrettyFormatter::with_indent(<hex>) ("p-" = empty indent)
   <ftab>    ryu texts of the floats occurring in the case: "d<16 hex bits>=<hex text>,f<8 hex bits>=<hex text>,..." or "-"
             (ryu is an external crate: its output is input data of the model; the texts are printed by the harness op "ft")
   <k>       decimal, or "-" for a writer that never fails ; <kind> decimal id (canon.rs KINDS)
   <chunking> "s<n1>,<n2>,..." cyclic schedule of accepted sizes per write call, 0 = that call is Interrupted ; "s0" alone is not allowed;
             "a" = accept everything
   <sval>    prefix code, self-delimiting, <hex> = lower-case hex or "-" for empty, always followed by ";" :
               T F                       bool
               I<t><dec>;                integer, t = a..j for i8 i16 i32 i64 i128 u8 u16 u32 u64 u128, dec with optional "-"
               f<8 hex>  d<16 hex>       f32 / f64 bit patterns
               c<hex of the scalar value as a number>;   char
               s<hex>;  y<hex>;          str / bytes
               N  O<sval>                none / some
               U  u  v<hex>;             unit / unit struct / unit variant
               n<sval>  w<hex>;<sval>    newtype struct / newtype variant
               Q?(<sval>..)  Q<dec>(..)   seq with hint None / Some dec
               t(..)  r(..)  V<hex>;(..) tuple / tuple struct / tuple variant
               M?(<k><v>..)  M<dec>(..)  map
               R(<hex>;<sval>..)  W<hex>;(<hex>;<sval>..)   struct / struct variant
               C(<hex>;..)               collect_str, one write_str per chunk
               L<hex>;                   arbitrary_precision Number literal *)
From SJ Require Import Base.Bytes Base.Utf8 Base.FloatB Model.Read Model.Num Model.Value Model.De
  Model.Sval Model.Ser Model.ValueSer Extract.Driver.
Open Scope N_scope.

(* ---- decoding helpers -------------------------------------------------------------------- *)
Definition is_hexch (c : N) : bool := ((48 <=? c) && (c <=? 57)) || ((97 <=? c) && (c <=? 102)).
Definition is_decch (c : N) : bool := (48 <=? c) && (c <=? 57).
Fixpoint span_aux (p : N -> bool) (l : bytes) (acc : bytes) : bytes * bytes :=
  match l with
  | b :: r => if p b then span_aux p r (b :: acc) else (rev acc, l)
  | [] => (rev acc, [])
  end.
Definition span (p : N -> bool) (l : bytes) : bytes * bytes := span_aux p l [].

Fixpoint split_on_aux (c : N) (l : bytes) (cur : bytes) : list bytes :=
  match l with
  | [] => [rev cur]
  | b :: r => if b =? c then rev cur :: split_on_aux c r [] else split_on_aux c r (b :: cur)
  end.
Definition split_on (c : N) (l : bytes) : list bytes := split_on_aux c l [].

(* "<hex>;" or "-;" *)
Definition take_hex (l : bytes) : option (bytes * bytes) :=
  match l with
  | 45 :: 59 :: r => Some ([], r)
  | _ => let '(h, r) := span is_hexch l in
         match r with
         | 59 :: r' => match h with [] => None | _ => match hex_decode h with Some b => Some (b, r') | None => None end end
         | _ => None
         end
  end.

Fixpoint N_of_hex_aux (l : bytes) (acc : N) : option N :=
  match l with
  | [] => Some acc
  | c :: r => match unhex c with Some d => N_of_hex_aux r (acc * 16 + d) | None => None end
  end.
Definition take_fixhex (n : nat) (l : bytes) : option (N * bytes) :=
  if Nat.eqb (length (firstn n l)) n then
    match N_of_hex_aux (firstn n l) 0 with Some x => Some (x, skipn n l) | None => None end
  else None.

Definition intty_of (c : N) : option intty :=
  if c =? 97 then Some I8 else if c =? 98 then Some I16 else if c =? 99 then Some I32 else if c =? 100 then Some I64
  else if c =? 101 then Some I128 else if c =? 102 then Some U8 else if c =? 103 then Some U16 else if c =? 104 then Some U32
  else if c =? 105 then Some U64 else if c =? 106 then Some U128 else None.

(* "?" or "<dec>" followed by "(" *)
Definition take_hint (l : bytes) : option (option nat * bytes) :=
  match l with
  | 63 :: 40 :: r => Some (None, r)
  | _ => let '(d, r) := span is_decch l in
         match d, r with
         | _ :: _, 40 :: r' => Some (Some (N.to_nat (N_of_dec d)), r')
         | _, _ => None
         end
  end.

Fixpoint parse_sval (fuel : nat) (l : bytes) : option (sval * bytes) :=
  match fuel with
  | O => None
  | S fu =>
    let elems := fix elems (n : nat) (l : bytes) : option (list sval * bytes) :=
      match n with
      | O => None
      | S n' =>
        match l with
        | 41 :: r => Some ([], r)
        | _ => match parse_sval fu l with
               | Some (x, r) => match elems n' r with Some (xs, r') => Some (x :: xs, r') | None => None end
               | None => None
               end
        end
      end in
    let pairs := fix pairs (n : nat) (l : bytes) : option (list (sval * sval) * bytes) :=
      match n with
      | O => None
      | S n' =>
        match l with
        | 41 :: r => Some ([], r)
        | _ => match parse_sval fu l with
               | Some (k, r) =>
                 match parse_sval fu r with
                 | Some (x, r1) => match pairs n' r1 with Some (xs, r') => Some ((k, x) :: xs, r') | None => None end
                 | None => None
                 end
               | None => None
               end
        end
      end in
    let fields := fix fields (n : nat) (l : bytes) : option (list (bytes * sval) * bytes) :=
      match n with
      | O => None
      | S n' =>
        match l with
        | 41 :: r => Some ([], r)
        | _ => match take_hex l with
               | Some (k, r) =>
                 match parse_sval fu r with
                 | Some (x, r1) => match fields n' r1 with Some (xs, r') => Some ((k, x) :: xs, r') | None => None end
                 | None => None
                 end
               | None => None
               end
        end
      end in
    let chunks := fix chunks (n : nat) (l : bytes) : option (list bytes * bytes) :=
      match n with
      | O => None
      | S n' =>
        match l with
        | 41 :: r => Some ([], r)
        | _ => match take_hex l with
               | Some (k, r) => match chunks n' r with Some (xs, r') => Some (k :: xs, r') | None => None end
               | None => None
               end
        end
      end in
    let n := S (length l) in
    match l with
    | 84 :: r => Some (SBool true, r)
    | 70 :: r => Some (SBool false, r)
    | 73 :: t :: r =>
      match intty_of t with
      | Some ty =>
        let '(neg, r1) := match r with 45 :: r' => (true, r') | _ => (false, r) end in
        let '(d, r2) := span is_decch r1 in
        match d, r2 with
        | _ :: _, 59 :: r3 => Some (SInt ty (if neg then - Z.of_N (N_of_dec d) else Z.of_N (N_of_dec d))%Z, r3)
        | _, _ => None
        end
      | None => None
      end
    | 102 :: r => match take_fixhex 8 r with Some (x, r') => Some (SF32 x, r') | None => None end
    | 100 :: r => match take_fixhex 16 r with Some (x, r') => Some (SF64 x, r') | None => None end
    | 99 :: r => let '(h, r1) := span is_hexch r in
                 match h, r1 with
                 | _ :: _, 59 :: r2 => match N_of_hex_aux h 0 with Some x => Some (SChar x, r2) | None => None end
                 | _, _ => None
                 end
    | 115 :: r => match take_hex r with Some (b, r') => Some (SStr b, r') | None => None end
    | 121 :: r => match take_hex r with Some (b, r') => Some (SBytes b, r') | None => None end
    | 78 :: r => Some (SNone, r)
    | 79 :: r => match parse_sval fu r with Some (x, r') => Some (SSome x, r') | None => None end
    | 85 :: r => Some (SUnit, r)
    | 117 :: r => Some (SUnitStruct, r)
    | 118 :: r => match take_hex r with Some (b, r') => Some (SUnitVariant b, r') | None => None end
    | 110 :: r => match parse_sval fu r with Some (x, r') => Some (SNewtypeStruct x, r') | None => None end
    | 119 :: r => match take_hex r with
                  | Some (b, r1) => match parse_sval fu r1 with Some (x, r') => Some (SNewtypeVariant b x, r') | None => None end
                  | None => None
                  end
    | 81 :: r => match take_hint r with
                 | Some (h, r1) => match elems n r1 with Some (xs, r') => Some (SSeq h xs, r') | None => None end
                 | None => None
                 end
    | 116 :: 40 :: r => match elems n r with Some (xs, r') => Some (STuple xs, r') | None => None end
    | 114 :: 40 :: r => match elems n r with Some (xs, r') => Some (STupleStruct xs, r') | None => None end
    | 86 :: r => match take_hex r with
                 | Some (b, 40 :: r1) => match elems n r1 with Some (xs, r') => Some (STupleVariant b xs, r') | None => None end
                 | _ => None
                 end
    | 77 :: r => match take_hint r with
                 | Some (h, r1) => match pairs n r1 with Some (xs, r') => Some (SMap h xs, r') | None => None end
                 | None => None
                 end
    | 82 :: 40 :: r => match fields n r with Some (xs, r') => Some (SStruct xs, r') | None => None end
    | 87 :: r => match take_hex r with
                 | Some (b, 40 :: r1) => match fields n r1 with Some (xs, r') => Some (SStructVariant b xs, r') | None => None end
                 | _ => None
                 end
    | 67 :: 40 :: r => match chunks n r with Some (xs, r') => Some (SCollectStr xs, r') | None => None end
    | 76 :: r => match take_hex r with Some (b, r') => Some (SNumLit b, r') | None => None end
    | _ => None
    end
  end.

Definition sval_of_field (l : bytes) : option sval :=
  match parse_sval (S (length l)) l with
  | Some (v, []) => Some v
  | _ => None
  end.

(* ---- float text table --------------------------------------------------------------------- *)
(* entries: (is_f64, bits, text) *)
Definition parse_ftab_entry (e : bytes) : option (bool * N * bytes) :=
  match e with
  | 100 :: r => match take_fixhex 16 r with
                | Some (x, 61 :: t) => match hex_decode t with Some b => Some (true, x, b) | None => None end
                | _ => None
                end
  | 102 :: r => match take_fixhex 8 r with
                | Some (x, 61 :: t) => match hex_decode t with Some b => Some (false, x, b) | None => None end
                | _ => None
                end
  | _ => None
  end.
Fixpoint parse_ftab_list (es : list bytes) : option (list (bool * N * bytes)) :=
  match es with
  | [] => Some []
  | e :: r => match parse_ftab_entry e, parse_ftab_list r with
              | Some x, Some xs => Some (x :: xs)
              | _, _ => None
              end
  end.
Definition parse_ftab (f : bytes) : option (list (bool * N * bytes)) :=
  match f with
  | [45] => Some []
  | _ => parse_ftab_list (split_on 44 f)
  end.
Fixpoint ftab_lookup (tab : list (bool * N * bytes)) (is64 : bool) (bits : N) : bytes :=
  match tab with
  | [] => []
  | (k, b, t) :: r => if Bool.eqb k is64 && (b =? bits) then t else ftab_lookup r is64 bits
  end.

(* ---- formatter / writer arguments ----------------------------------------------------------- *)
Definition fmt_of (f : bytes) : option formatter :=
  match f with
  | [99] => Some Compact
  | 112 :: h => match hex_decode h with Some ind => Some (Pretty ind) | None => None end
  | _ => None
  end.

Definition lens_of (bufs : list bytes) : bytes :=
  match bufs with
  | [] => [45]
  | _ => join [44] (map (fun b => dec_of_nat (length b)) bufs)
  end.

Definition show_trace {A} (t : tr A) : bytes :=
  let '(bufs, r) := t in
  match r with
  | Ok _ => s_ok ++ sp :: hex_or_dash (concat bufs) ++ sp :: lens_of bufs
  | Err c _ => s_err ++ sp :: code_name c ++ sp :: hex_or_dash (concat bufs) ++ sp :: lens_of bufs
  | OutOfFuel => s_fuel
  | Panic => s_panic
  end.

Fixpoint repeat_list {A} (n : nat) (l : list A) : list A :=
  match n with O => [] | S n' => l ++ repeat_list n' l end.

Definition sched_of (c : bytes) (total : nat) : option (list nat) :=
  match c with
  | [97] => Some []
  | 115 :: r =>
    let cyc := map (fun d => N.to_nat (N_of_dec d)) (split_on 44 r) in
    if forallb (fun n => Nat.eqb n 0) cyc then None else Some (repeat_list (S total) cyc)
  | _ => None
  end.

Definition show_wf {A} (p : writer * res A) : bytes :=
  let '(w, r) := p in
  hex_or_dash (accepted w) ++ sp ::
  match r with
  | Ok _ => s_ok
  | Err (Io k) _ => s_err ++ sp :: code_name (Io k) ++ sp :: dec_of_N k
  | Err c _ => s_err ++ sp :: code_name c
  | OutOfFuel => s_fuel
  | Panic => s_panic
  end.

Definition s_perr : bytes := [112; 101; 114; 114].

(* ---- dispatch ---------------------------------------------------------------------------------- *)
Definition dispatch_ser (fields : list bytes) : bytes :=
  match fields with
  | [[115; 101]; c; f; ft; sv] =>
    match fmt_of f, parse_ftab ft, sval_of_field sv with
    | Some F, Some tab, Some v =>
      show_trace (serialize_trace (cfg_of c) (ftab_lookup tab false) (ftab_lookup tab true) F v)
    | _, _, _ => s_bad
    end
  | [[115; 118]; c; f; ft; hx] =>
    match fmt_of f, parse_ftab ft, hex_decode hx with
    | Some F, Some tab, Some input =>
      match from_input (mkEnv RSlice TEof (cfg_of c)) input with
      | Ok j => show_trace (serialize_trace (cfg_of c) (ftab_lookup tab false) (ftab_lookup tab true) F (sval_of_value j))
      | _ => s_perr
      end
    | _, _, _ => s_bad
    end
  | [[116; 118]; c; ft; sv] =>
    match parse_ftab ft, sval_of_field sv with
    | Some tab, Some v =>
      match to_value (cfg_of c) (ftab_lookup tab false) (ftab_lookup tab true) v with
      | Ok j => s_ok ++ sp :: show_value j
      | Err e _ => s_err ++ sp :: code_name e
      | OutOfFuel => s_fuel
      | Panic => s_panic
      end
    | _, _ => s_bad
    end
  | [[119; 102]; c; f; ft; k; kind; ch; sv] =>
    match fmt_of f, parse_ftab ft, sval_of_field sv with
    | Some F, Some tab, Some v =>
      let t := serialize_trace (cfg_of c) (ftab_lookup tab false) (ftab_lookup tab true) F v in
      let total := (length (concat (fst t)) + length (fst t))%nat in
      match sched_of ch total with
      | Some sc =>
        let fa := match k with [45] => None | _ => Some (N.to_nat (N_of_dec k), N_of_dec kind) end in
        show_wf (run_writer (mkW [] sc fa) t)
      | None => s_bad
      end
    | _, _, _ => s_bad
    end
  | _ => s_bad
  end.
