Require Extraction.
Require Import ExtrOcamlBasic.
From SJ Require Import Extract.Driver_apnum.
Extraction "sjmodel_apnum.ml" dispatch_apnum.
