(* Extract/Driver_errmsg.v — line protocol of the error-text correspondence check (model side of Model/ErrMsg.v).
   Fields are separated by one space (the OCaml glue splits the line and calls [dispatch_errmsg]); byte strings travel as
   lower-case hex, "-" = empty.
     mk <hexmsg>                 e = <serde_json::Error as serde::de::Error>::custom(msg)   (= make_error(msg.to_string()))
                                 -> <e.line()> <e.column()> <hex of the message kept in ErrorCode::Message>
     ms <hexmsg>                 same e -> <hex of e.to_string()>
     dp <hexmsg> <line> <col>    -> <hex of the Display text of an Error whose code prints <msg>, at (line, col)>
   [mk]/[ms] run the statement-by-statement model [make_error_chk] (slices checked for char boundaries): on a String
   (valid UTF-8) it never answers PANIC (Proofs/ErrMsgProps.v, make_error_chk_no_panic).  Anything malformed: BADCASE. *)
From SJ Require Import Base.Bytes Model.ErrMsg Extract.Driver.
Open Scope N_scope.

Definition show_custom (r : res error) : bytes :=
  match r with
  | Ok e => dec_of_N (e_line e) ++ sp :: dec_of_N (e_col e) ++ sp :: hex_or_dash (e_msg e)
  | Err _ _ => s_bad
  | OutOfFuel => s_fuel
  | Panic => s_panic
  end.

Definition show_custom_text (r : res error) : bytes :=
  match r with
  | Ok e => hex_or_dash (display e)
  | Err _ _ => s_bad
  | OutOfFuel => s_fuel
  | Panic => s_panic
  end.

Definition dec_field (f : bytes) : option N :=
  match f with
  | [] => None
  | _ => if forallb is_digit f then Some (N_of_dec f) else None
  end.

Definition dispatch_errmsg (fields : list bytes) : bytes :=
  match fields with
  | [[109;107]; hx] =>                                  (* mk *)
    match hex_decode hx with
    | Some msg => show_custom (make_error_chk msg)
    | None => s_bad
    end
  | [[109;115]; hx] =>                                  (* ms *)
    match hex_decode hx with
    | Some msg => show_custom_text (make_error_chk msg)
    | None => s_bad
    end
  | [[100;112]; hx; l; c] =>                            (* dp *)
    match hex_decode hx, dec_field l, dec_field c with
    | Some msg, Some line, Some col => hex_or_dash (display (mkError msg line col))
    | _, _, _ => s_bad
    end
  | _ => s_bad
  end.

(* "mk <hex of 'x at line 7 column 3'>"  ->  "7 3 78" *)
Example ex_mk :
  dispatch_errmsg [[109;107]; hex_encode ([120] ++ MARK ++ [55] ++ COLM ++ [51])] = [55; 32; 51; 32; 55; 56].
Proof. vm_compute. reflexivity. Qed.
(* "mk <hex of 'x'>" -> "0 0 78" *)
Example ex_mk_plain : dispatch_errmsg [[109;107]; [55;56]] = [48; 32; 48; 32; 55; 56].
Proof. vm_compute. reflexivity. Qed.
(* "dp 78 7 3" -> hex of "x at line 7 column 3";  "dp 78 0 3" -> hex of "x" *)
Example ex_dp :
  dispatch_errmsg [[100;112]; [55;56]; [55]; [51]] = hex_encode ([120] ++ MARK ++ [55] ++ COLM ++ [51])
  /\ dispatch_errmsg [[100;112]; [55;56]; [48]; [51]] = [55;56].
Proof. vm_compute. split; reflexivity. Qed.
(* "ms": to_string() of the custom error reproduces a canonically spelled message, and normalises leading zeros *)
Example ex_ms :
  dispatch_errmsg [[109;115]; hex_encode ([120] ++ MARK ++ [48;55] ++ COLM ++ [51])] = hex_encode ([120] ++ MARK ++ [55] ++ COLM ++ [51]).
Proof. vm_compute. reflexivity. Qed.
