(* Extract/Driver_apnum.v — line protocol of the C20 correspondence check (model side of harness/src/bin/sjh_apnum.rs).
     nf <hex>   Number::from_str        -> ok <as_str> <u64|-> <i64|-> <u128|-> <i128|-> <f64 bits|-> <is_u64><is_i64><is_f64> | err ...
     na <hex>   accessors of a Number holding an arbitrary text (Number::from_string_unchecked), same ok line
     rs <hex>   from_slice::<Value> then to_string   -> ok <hex> | err ...                                            *)
From SJ Require Import Base.Bytes Base.FloatB Gen.Tables Model.Read Model.Num Model.Value Model.De Model.NumberM.
From SJ Require Import Extract.Driver.
From Flocq Require Import Core BinarySingleNaN.
Open Scope N_scope.

Definition cfg_ap : cfg := mkCfg false false true false.

Definition dash : bytes := [45].
Definition show_optZ (o : option Z) : bytes := match o with Some z => dec_of_Z z | None => dash end.
Definition show_optF (o : option b64) : bytes := match o with Some f => hex16 (bits_of_b64 f) | None => dash end.
Definition bit (b : bool) : N := if b then 49 else 48.

Definition show_accessors (lit : bytes) : bytes :=
  hex_or_dash lit ++ sp :: show_optZ (ap_as_u64 lit) ++ sp :: show_optZ (ap_as_i64 lit)
  ++ sp :: show_optZ (ap_as_u128 lit) ++ sp :: show_optZ (ap_as_i128 lit)
  ++ sp :: show_optF (ap_as_f64 lit)
  ++ sp :: [bit (ap_is_u64 lit); bit (ap_is_i64 lit); bit (ap_is_f64 lit)].

Definition dispatch_apnum (fields : list bytes) : bytes :=
  match fields with
  | [[110;102]; hx] =>
    match hex_decode hx with
    | Some input => show_res input (fun n => show_accessors (ap_as_str n)) (number_from_str cfg_ap input)
    | None => s_bad
    end
  | [[110;97]; hx] =>
    match hex_decode hx with
    | Some input => s_ok ++ sp :: show_accessors input
    | None => s_bad
    end
  | [[114;115]; hx] =>
    match hex_decode hx with
    | Some input => show_res input (fun v => hex_or_dash (ser_value v)) (from_input (mkEnv RSlice TEof cfg_ap) input)
    | None => s_bad
    end
  | _ => s_bad
  end.
