(* Extract/Driver_viable.v — the decidable side conditions of the viable-prefix theorems (Proofs/Viable*.v), for the C11 / C12 checks:
     vb <cfg letters|-> <hex input>   ->   u<0|1> e<0|1> n<0|1> i<0|1>
        u = utf8_prefixb p   e = esc_tail_ok p   n = HRnumb cf p   i = iesc_tail_ok p (skip scanner)
   When the implementation reports an Eof-category error on p and u = e = n = 1, theorem C11_eof_viable_decidable says a continuation is accepted. *)
From SJ Require Import Base.Bytes Model.Read Extract.Driver Proofs.ViableBase Proofs.Viable Proofs.ViableDecide Proofs.ViableIgnore.
Open Scope N_scope.

Definition bit (b : bool) : N := if b then 49 else 48.

Definition run_viable (fields : list bytes) : bytes :=
  match fields with
  | [[118; 98]; c; hx] =>
    match hex_decode hx with
    | Some p =>
      let cf := match c with [45] => cfg_of [] | _ => cfg_of c end in
      [117; bit (utf8_prefixb p); 32; 101; bit (esc_tail_ok p); 32; 110; bit (HRnumb cf p); 32; 105; bit (iesc_tail_ok p)]
    | None => s_bad
    end
  | _ => s_bad
  end.
