(* Extract/Extract_pos.v — extraction of the position-bookkeeping driver (ExtrOcamlBasic only). *)
Require Extraction.
Require Import ExtrOcamlBasic.
From SJ Require Import Extract.Driver_pos.
Extraction "sjmodel_pos.ml" run_pos_line.
