(* Extract/Extract_vacc.v — extraction of the Value-accessor driver (ExtrOcamlBasic only). *)
Require Extraction.
Require Import ExtrOcamlBasic.
From SJ Require Import Extract.Driver_vacc.
Extraction "sjmodel_vacc.ml" dispatch_vacc.
