(* Extract/Extract_typed.v — extraction of the typed-deserialization driver (ExtrOcamlBasic only). *)
Require Extraction.
Require Import ExtrOcamlBasic.
From SJ Require Import Extract.Driver_typed.
Extraction "sjmodel_typed.ml" dispatch_typed.
