(* Extract/Extract_viable.v — extraction of the viable-prefix side conditions (ExtrOcamlBasic only). *)
Require Extraction.
Require Import ExtrOcamlBasic.
From SJ Require Import Extract.Driver_viable.
Extraction "sjmodel_viable.ml" run_viable.
