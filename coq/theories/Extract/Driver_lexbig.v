(* Extract/Driver_lexbig.v — line protocol of the limb-level big-integer model (Model/LexBig.v), entirely in Gallina.
   Implementation side: /verif/harness/src/bin/sjh_lex.rs, the `("bi", Some(op))` arm of `internal_ops::run`
   (built with `--cfg fast_arithmetic="64"`, debug assertions and overflow checks on).

     bi imul_small <limbs> <u64>      x.imul_small(y)     -> <limbs>
     bi iadd_small <limbs> <u64>      x.iadd_small(y)     -> <limbs>
     bi imul_pow5  <limbs> <u32>      x.imul_pow5(n)      -> <limbs>
     bi imul_pow2  <limbs> <u32>      x.imul_pow2(n)      -> <limbs>
     bi imul_pow10 <limbs> <u32>      x.imul_pow10(n)     -> <limbs>
     bi hi64       <limbs>            x.hi64()            -> <u64> <0|1>
     bi bit_length <limbs>            x.bit_length()      -> <usize>
     bi compare    <limbs> <limbs>    x.compare(&y)       -> lt | eq | gt
     bi from_u64   <u64>              Bigint::from_u64(y) -> <limbs>

   <limbs>: the `Vec<Limb>` in little-endian order, decimal u64 numbers joined by `,`; `-` is the empty vector.
   A Rust panic (index out of bounds, arithmetic overflow check, debug_assert) is the line `PANIC`; a line the harness
   cannot read is `BADCASE`.  Fields are separated by runs of spaces; further fields are ignored, as on the Rust side.

   [run_big_line] takes the line and returns the answer line (both as character codes, without the newline). *)
From Coq Require Import NArith List Bool.
From SJ Require Import Model.LexBig.
Import ListNotations.
Open Scope N_scope.

(* ---- text helpers (as in Extract/Driver.v) -------------------------------------------------------- *)
Fixpoint dec_aux (fuel : nat) (n : N) (acc : list N) : list N :=
  match fuel with
  | O => acc
  | S f => if n <? 10 then (48 + n) :: acc else dec_aux f (n / 10) ((48 + n mod 10) :: acc)
  end.
Definition dec_of_N (n : N) : list N := dec_aux (S (N.to_nat (N.log2 n))) n [].

Definition is_dec_digit (c : N) : bool := (48 <=? c) && (c <=? 57).
Fixpoint N_of_dec_aux (l : list N) (acc : N) : N :=
  match l with [] => acc | c :: r => N_of_dec_aux r (acc * 10 + (c - 48)) end.

(* `s.parse::<uNN>()`: an optional `+`, at least one digit, nothing else, value below the bound *)
Definition parse_unsigned (bound : N) (l : list N) : option N :=
  let ds := match l with 43 :: r => r | _ => l end in
  match ds with
  | [] => None
  | _ => if forallb is_dec_digit ds then
           let v := N_of_dec_aux ds 0 in
           if v <? bound then Some v else None
         else None
  end.
Definition parse_u64 : list N -> option N := parse_unsigned 18446744073709551616.
Definition parse_u32 : list N -> option N := parse_unsigned 4294967296.

(* `s.split(sep)`: pieces between separators, empty pieces included *)
Fixpoint split_on (sep : N) (l : list N) (cur : list N) : list (list N) :=
  match l with
  | [] => [rev cur]
  | c :: r => if c =? sep then rev cur :: split_on sep r [] else split_on sep r (c :: cur)
  end.
(* `line.split(' ').filter(|s| !s.is_empty())` *)
Definition fields_of (line : list N) : list (list N) :=
  filter (fun f => match f with [] => false | _ => true end) (split_on 32 line []).

Fixpoint parse_all (ps : list (list N)) : option (list N) :=
  match ps with
  | [] => Some []
  | p :: r => match parse_u64 p, parse_all r with Some v, Some t => Some (v :: t) | _, _ => None end
  end.
(* fn limbs(s) *)
Definition parse_limbs (s : list N) : option (list N) :=
  match s with
  | [45] => Some []
  | _ => parse_all (split_on 44 s [])
  end.

Fixpoint join_comma (l : list (list N)) : list N :=
  match l with
  | [] => []
  | [a] => a
  | a :: r => a ++ 44 :: join_comma r
  end.
(* fn show_limbs(b) *)
Definition show_limbs (x : list N) : list N :=
  match x with [] => [45] | _ => join_comma (map dec_of_N x) end.

Definition s_bad : list N := [66;65;68;67;65;83;69].          (* BADCASE *)
Definition s_panic : list N := [80;65;78;73;67].              (* PANIC *)
Definition s_lt : list N := [108;116].
Definition s_eq : list N := [101;113].
Definition s_gt : list N := [103;116].

Definition op_imul_small : list N := [105;109;117;108;95;115;109;97;108;108].
Definition op_iadd_small : list N := [105;97;100;100;95;115;109;97;108;108].
Definition op_imul_pow5 : list N := [105;109;117;108;95;112;111;119;53].
Definition op_imul_pow2 : list N := [105;109;117;108;95;112;111;119;50].
Definition op_imul_pow10 : list N := [105;109;117;108;95;112;111;119;49;48].
Definition op_hi64 : list N := [104;105;54;52].
Definition op_bit_length : list N := [98;105;116;95;108;101;110;103;116;104].
Definition op_compare : list N := [99;111;109;112;97;114;101].
Definition op_from_u64 : list N := [102;114;111;109;95;117;54;52].

Fixpoint beq_l (a b : list N) : bool :=
  match a, b with
  | [], [] => true
  | x :: a', y :: b' => (x =? y) && beq_l a' b'
  | _, _ => false
  end.

(* the answer for a vector-valued operation: PANIC when the model fails *)
Definition show_result (o : option (list N)) : list N :=
  match o with Some x => show_limbs x | None => s_panic end.

(* an operation `x.<op>(n)` whose argument is field 3, parsed by [parse] *)
Definition with_arg (parse : list N -> option N) (rest : list (list N)) (f : N -> list N) : list N :=
  match rest with
  | a :: _ => match parse a with Some v => f v | None => s_bad end
  | [] => s_bad
  end.

Definition dispatch_big (fields : list (list N)) : list N :=
  match fields with
  | [98;105] :: op :: xs :: rest =>                                   (* bi <op> <limbs> ... *)
    match parse_limbs xs with
    | None => s_bad
    | Some x =>
      if beq_l op op_imul_small then with_arg parse_u64 rest (fun y => show_limbs (imul_small x y))
      else if beq_l op op_iadd_small then with_arg parse_u64 rest (fun y => show_result (iadd_small x y))
      else if beq_l op op_imul_pow5 then with_arg parse_u32 rest (fun n => show_result (imul_pow5 x n))
      else if beq_l op op_imul_pow2 then with_arg parse_u32 rest (fun n => show_result (imul_pow2 x n))
      else if beq_l op op_imul_pow10 then with_arg parse_u32 rest (fun n => show_result (imul_pow10 x n))
      else if beq_l op op_hi64 then
        match hi64 x with
        | Some (v, t) => dec_of_N v ++ 32 :: (if t then [49] else [48])
        | None => s_panic
        end
      else if beq_l op op_bit_length then dec_of_N (bit_length x)
      else if beq_l op op_compare then
        match rest with
        | ys :: _ =>
          match parse_limbs ys with
          | Some y => match big_compare x y with Lt => s_lt | Eq => s_eq | Gt => s_gt end
          | None => s_bad
          end
        | [] => s_bad
        end
      else if beq_l op op_from_u64 then
        match parse_u64 xs with
        | Some y => show_limbs (from_u64 y)
        | None => s_bad
        end
      else s_bad
    end
  | _ => s_bad
  end.

Definition run_big_line (line : list N) : list N := dispatch_big (fields_of line).
