(* Extract/Driver_detok.v — line protocol of the private-token correspondence (Model/DeTok.v).
     pv <cfg> <r|-> <src> <hex>     serde_json::from_str / from_slice / from_reader ::<Value> as the crate built with the features of
                                    <cfg> (letters p f a u as in Driver.v) and, when the second field is `r`, with `raw_value`
                                    (src: s | b | r<k> as in Driver.v)
   answer: exactly the line the harness `sjh` prints for  pv <cfg> <src> <hex>:
            ok <value>  |  err <code> <cat> <line> <col>  |  err Io io <kind>  |  FUEL | PANIC
   <value> as Driver.v show_value; an error positioned in the string under a token ([NAt]) prints that string's line / column. *)
From SJ Require Import Base.Bytes Base.Utf8 Base.FloatB Gen.Tables
  Model.Read Model.Str Model.Num Model.Value Model.De Model.ValueDe Model.NumberTarget Model.DeTok Extract.Driver.
Open Scope N_scope.

Definition show_vres_value (r : vres value) : bytes :=
  match r with
  | VOk v => s_ok ++ sp :: show_value v
  | VErr c line col =>
    match c with
    | Io k => s_err ++ sp :: code_name c ++ sp :: cat_name (category c) ++ sp :: dec_of_N k
    | _ => s_err ++ sp :: code_name c ++ sp :: cat_name (category c) ++ sp :: dec_of_N line ++ sp :: dec_of_N col
    end
  | VFuel => s_fuel
  | VPanic => s_panic
  end.

Definition raw_flag (f : bytes) : bool := has 114 f.     (* r *)

Definition dispatch_detok (fields : list bytes) : bytes :=
  match fields with
  | [[112;118]; c; rf; src; hx] =>
    match hex_decode hx with
    | Some input => show_vres_value (from_input_tok_v (mkEnv (rk_of src) TEof (cfg_of c)) (raw_flag rf) input)
    | None => s_bad
    end
  | _ => s_bad
  end.
