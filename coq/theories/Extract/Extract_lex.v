(* Extract/Extract_lex.v — extraction of the C07 driver (ExtrOcamlBasic only). *)
Require Extraction.
Require Import ExtrOcamlBasic.
From SJ Require Import Extract.Driver_lex.
Extraction "sjmodel_lex.ml" dispatch_lex.
