(* Extract/Extract_fv.v — extraction of the from_value driver (ExtrOcamlBasic only). *)
Require Extraction.
Require Import ExtrOcamlBasic.
From SJ Require Import Extract.Driver_fv.
Extraction "sjmodel_fv.ml" dispatch_fv.
