(* Extract/Extract_errmsg.v — extraction of the custom-error message driver (ExtrOcamlBasic only). *)
Require Extraction.
Require Import ExtrOcamlBasic.
From SJ Require Import Extract.Driver_errmsg.
Extraction "sjmodel_errmsg.ml" dispatch_errmsg.
