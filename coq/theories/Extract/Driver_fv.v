(* Extract/Driver_fv.v — line protocol of the from_value correspondence (area `fv`, property C16).
     fv <cfg> <ftab> <ty> <hex of JSON text>
        the text is parsed into a Value (Model/De.v from_input, slice reader — the parser model is validated by its own checks),
        then the universal seed of type <ty> is run on the Value by value and by reference (Model/ValueDe.v)
     answer:  <owned> ; <ref>          each:  ok <dval> | err <code> <cat> <line> <col> <msgclass|-> | FUEL | PANIC
              parse-err                when the text is not a Value
   <cfg>  feature letters as in Driver.v; <ty> / <dval> as in Driver_typed.v
   <ftab> "-" or a comma-separated list  <16 hex bits>=<hex ryu text>:<hex Display text>  for the f64 values of the Value's
          number literals (arbitrary_precision + Value target only: ryu and f64's Display are std/external, their output is
          input data of the model; printed by the harness op fv3) *)
From SJ Require Import Base.Bytes Base.Utf8 Base.FloatB Gen.Tables
  Model.Read Model.Str Model.Num Model.Value Model.De Model.Ty Model.DeTyped Model.ValueDe Extract.Driver Extract.Driver_typed.
Open Scope N_scope.

Fixpoint split_on_aux (c : N) (l : bytes) (cur : bytes) : list bytes :=
  match l with
  | [] => [rev cur]
  | b :: r => if b =? c then rev cur :: split_on_aux c r [] else split_on_aux c r (b :: cur)
  end.
Definition split_on (c : N) (l : bytes) : list bytes := split_on_aux c l [].

Fixpoint N_of_hex_aux (l : bytes) (acc : N) : option N :=
  match l with
  | [] => Some acc
  | c :: r => match unhex c with Some d => N_of_hex_aux r (acc * 16 + d) | None => None end
  end.

(* <16 hex>=<hex>:<hex> *)
Definition parse_fv_entry (e : bytes) : option (N * (bytes * bytes)) :=
  match split_on 61 e with
  | [b; t] =>
    match split_on 58 t with
    | [r; d] =>
      match N_of_hex_aux b 0, hex_decode r, hex_decode d with
      | Some bits, Some rt, Some dt => Some (bits, (rt, dt))
      | _, _, _ => None
      end
    | _ => None
    end
  | _ => None
  end.

Fixpoint parse_fv_entries (es : list bytes) : option (list (N * (bytes * bytes))) :=
  match es with
  | [] => Some []
  | e :: r =>
    match parse_fv_entry e, parse_fv_entries r with
    | Some x, Some xs => Some (x :: xs)
    | _, _ => None
    end
  end.

Definition parse_fv_tab (f : bytes) : option (list (N * (bytes * bytes))) :=
  match f with
  | [45] => Some []
  | _ => parse_fv_entries (split_on 44 f)
  end.

Fixpoint fv_lookup (tab : list (N * (bytes * bytes))) (bits : N) : bytes * bytes :=
  match tab with
  | [] => ([], [])
  | (b, x) :: r => if b =? bits then x else fv_lookup r bits
  end.

Definition fenv_of_tab (tab : list (N * (bytes * bytes))) : fenv :=
  mkFenv (fun bits => fst (fv_lookup tab bits)) (fun bits => snd (fv_lookup tab bits)).

Definition show_vres (r : vres dval) : bytes :=
  match r with
  | VOk d => s_ok ++ sp :: show_dval d
  | VErr c line col =>
    match c with
    | Io k => s_err ++ sp :: code_name c ++ sp :: cat_name (category c) ++ sp :: dec_of_N k
    | Message k => s_err ++ sp :: code_name c ++ sp :: cat_name (category c) ++ sp :: dec_of_N line ++ sp :: dec_of_N col ++ sp :: msg_class k
    | _ => s_err ++ sp :: code_name c ++ sp :: cat_name (category c) ++ sp :: dec_of_N line ++ sp :: dec_of_N col ++ [sp; 45]
    end
  | VFuel => s_fuel
  | VPanic => s_panic
  end.

Definition s_parse_err : bytes := [112;97;114;115;101;45;101;114;114].

Definition dispatch_fv (fields : list bytes) : bytes :=
  match fields with
  | [[102;118]; c; ft; tyt; hx] =>
    match hex_decode hx, ty_of_text tyt, parse_fv_tab ft with
    | Some input, Some t, Some tab =>
      let cf := cfg_of c in
      match from_input (mkEnv RSlice TEof cf) input with
      | Ok v =>
        let fx := fenv_of_tab tab in
        show_vres (from_value_owned cf fx t v) ++ [sp; 59; sp] ++ show_vres (from_value_ref cf fx t v)
      | _ => s_parse_err
      end
    | _, _, _ => s_bad
    end
  | _ => s_bad
  end.
