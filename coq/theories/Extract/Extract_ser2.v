(* Extract/Extract_ser2.v — extraction of the two-documents-one-Serializer driver (ExtrOcamlBasic only). *)
Require Extraction.
Require Import ExtrOcamlBasic.
From SJ Require Import Extract.Driver_ser2.
Extraction "sjmodel_ser2.ml" dispatch_ser2.
