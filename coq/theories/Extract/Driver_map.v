(* Extract/Driver_map.v — line protocol of the C17 (Map / Value equality / hashing) correspondence check.
   Case lines (fields separated by single spaces):
     h  <cfg> <op> ...                       run the history on an empty Map: "<obs> ... F=<entries> B=<entries>"
     x  <cfg> <depth> <op> ... | <op> ... | <op> ...
                                             run the prefix, then ALL histories of <depth> further operations drawn from the
                                             first alphabet, the last one also from the second alphabet (depth-first); answer: "D <nodes> <A> <B>", sums over all nodes of a position-sensitive
                                             checksum (s1, s2) of the per-node line "<obs> <entries>"
     eq <cfg> <value> <value>                "<t|f> <feed a> <feed b>"   (==, and the Hasher call sequences)
     sa <cfg> <value>                        "<value>"                    (sort_all_objects)
   <cfg>: contains 'p' for preserve_order.  Keys: lower-case hex ("-" empty).  Values: the canonical printer's syntax
   (n t f u<dec> i-<dec> d<16 hex> s<hex> a(v,..) o(hex:v,..)) plus "#" = the number <position of the operation in the history>. *)
From SJ Require Import Base.Bytes Base.FloatB Model.Value Model.MapM Extract.Driver.
From Flocq Require Import Core BinarySingleNaN.
Open Scope N_scope.

Definition po_of (c : bytes) : bool := has 112 c.

(* ---- decoding ---------------------------------------------------------------------------- *)
Fixpoint split_on_aux (c : N) (l : bytes) (cur : bytes) : list bytes :=
  match l with
  | [] => [rev cur]
  | b :: r => if b =? c then rev cur :: split_on_aux c r [] else split_on_aux c r (b :: cur)
  end.
Definition split_on (c : N) (l : bytes) : list bytes := split_on_aux c l [].

Definition is_hexch (c : N) : bool := ((48 <=? c) && (c <=? 57)) || ((97 <=? c) && (c <=? 102)).
Definition is_decch (c : N) : bool := (48 <=? c) && (c <=? 57).
Fixpoint span_aux (p : N -> bool) (l : bytes) (acc : bytes) : bytes * bytes :=
  match l with
  | b :: r => if p b then span_aux p r (b :: acc) else (rev acc, l)
  | [] => (rev acc, [])
  end.
Definition span (p : N -> bool) (l : bytes) : bytes * bytes := span_aux p l [].

(* a hex run or "-" *)
Definition take_hex (l : bytes) : option (bytes * bytes) :=
  match l with
  | 45 :: r => Some ([], r)
  | _ => let '(h, r) := span is_hexch l in
         match h with [] => None | _ => match hex_decode h with Some b => Some (b, r) | None => None end end
  end.

Fixpoint N_of_hex_aux (l : bytes) (acc : N) : option N :=
  match l with
  | [] => Some acc
  | c :: r => match unhex c with Some d => N_of_hex_aux r (acc * 16 + d) | None => None end
  end.

Definition b64_of_bits (x : N) : b64 :=
  let s := 9223372036854775808 <=? x in
  let r := x mod 9223372036854775808 in
  let e := r / 4503599627370496 in
  let m := r mod 4503599627370496 in
  if e =? 0 then
    if m =? 0 then B754_zero s
    else binary_normalize 53 1024 _ _ mode_NE (if s then - Z.of_N m else Z.of_N m)%Z (-1074) s
  else binary_normalize 53 1024 _ _ mode_NE
         (if s then - Z.of_N (4503599627370496 + m) else Z.of_N (4503599627370496 + m))%Z (Z.of_N e - 1075) s.

(* values; [pos] is what "#" stands for *)
Fixpoint parse_val (fuel : nat) (pos : N) (l : bytes) : option (value * bytes) :=
  match fuel with
  | O => None
  | S fuel' =>
    match l with
    | 110 :: r => Some (VNull, r)
    | 116 :: r => Some (VBool true, r)
    | 102 :: r => Some (VBool false, r)
    | 35 :: r => Some (VNum (NPos pos), r)
    | 117 :: r => let '(d, r') := span is_decch r in
                  match d with [] => None | _ => Some (VNum (NPos (N_of_dec d)), r') end
    | 105 :: 45 :: r => let '(d, r') := span is_decch r in
                        match d with [] => None | _ => Some (VNum (NNeg (- Z.of_N (N_of_dec d))), r') end
    | 100 :: r => match N_of_hex_aux (firstn 16 r) 0 with
                  | Some n => if Nat.eqb (length (firstn 16 r)) 16 then Some (VNum (NFloat (b64_of_bits n)), skipn 16 r) else None
                  | None => None
                  end
    | 108 :: r => match take_hex r with Some (b, r') => Some (VNum (NLit b), r') | None => None end
    | 115 :: r => match take_hex r with Some (b, r') => Some (VStr b, r') | None => None end
    | 97 :: 40 :: 41 :: r => Some (VArr [], r)
    | 97 :: 40 :: r =>
      (fix items (n : nat) (l : bytes) (acc : list value) : option (value * bytes) :=
         match n with
         | O => None
         | S n' =>
           match parse_val fuel' pos l with
           | Some (v, 44 :: r') => items n' r' (v :: acc)
           | Some (v, 41 :: r') => Some (VArr (rev (v :: acc)), r')
           | _ => None
           end
         end) (length r) r []
    | 111 :: 40 :: 41 :: r => Some (VObj [], r)
    | 111 :: 40 :: r =>
      (fix items (n : nat) (l : bytes) (acc : list (bytes * value)) : option (value * bytes) :=
         match n with
         | O => None
         | S n' =>
           match take_hex l with
           | Some (k, 58 :: r0) =>
             match parse_val fuel' pos r0 with
             | Some (v, 44 :: r') => items n' r' ((k, v) :: acc)
             | Some (v, 41 :: r') => Some (VObj (rev ((k, v) :: acc)), r')
             | _ => None
             end
           | _ => None
           end
         end) (length r) r []
    | _ => None
    end
  end.

(* an object literal denotes the Map obtained by inserting its entries in the order written (at every depth) *)
Fixpoint build (po : bool) (v : value) : value :=
  match v with
  | VArr l => VArr (map (build po) l)
  | VObj m =>
    VObj (map_of_entries po
            ((fix go (l : list (bytes * value)) : list (bytes * value) :=
                match l with [] => [] | (k, x) :: r => (k, build po x) :: go r end) m))
  | _ => v
  end.
Definition value_of (po : bool) (pos : N) (l : bytes) : option value :=
  match parse_val (S (length l)) pos l with Some (v, []) => Some (build po v) | _ => None end.
(* "o(..)" read as a raw entry list (duplicates and order kept; the values are built) *)
Definition entries_of (po : bool) (pos : N) (l : bytes) : option (list (bytes * value)) :=
  match parse_val (S (length l)) pos l with
  | Some (VObj es, []) => Some (map (fun e => (fst e, build po (snd e))) es)
  | _ => None
  end.
Definition key_of (l : bytes) : option bytes := hex_decode l.

(* value functions: S<value> replace, W wrap into a one-element array, N null *)
Definition vfun_of (po : bool) (pos : N) (l : bytes) : option (value -> value) :=
  match l with
  | [87] => Some (fun x => VArr [x])
  | [78] => Some (fun _ => VNull)
  | 83 :: r => match value_of po pos r with Some v => Some (fun _ => v) | None => None end
  | _ => None
  end.
(* (key, value) functions for iter_mut: K the key as a string, otherwise a value function *)
Definition kvfun_of (po : bool) (pos : N) (l : bytes) : option (bytes -> value -> value) :=
  match l with
  | [75] => Some (fun k _ => VStr k)
  | _ => match vfun_of po pos l with Some g => Some (fun _ => g) | None => None end
  end.
Fixpoint sequence_o {A} (l : list (option A)) : option (list A) :=
  match l with
  | [] => Some []
  | None :: _ => None
  | Some a :: r => match sequence_o r with Some t => Some (a :: t) | None => None end
  end.
(* retain predicates: A all, Z none, L<k> key < k, G<k> key > k, I<k>+<k>.. key in the set, U value is a number *)
Definition pred_of (l : bytes) : option (bytes -> value -> bool) :=
  match l with
  | [65] => Some (fun _ _ => true)
  | [90] => Some (fun _ _ => false)
  | [85] => Some (fun _ v => match v with VNum _ => true | _ => false end)
  | 76 :: r => match key_of r with Some k0 => Some (fun k _ => bytes_ltb k k0) | None => None end
  | 71 :: r => match key_of r with Some k0 => Some (fun k _ => bytes_ltb k0 k) | None => None end
  | 73 :: r => match sequence_o (map key_of (split_on 43 r)) with
               | Some ks => Some (fun k _ => existsb (beq_bytes k) ks)
               | None => None
               end
  | _ => None
  end.
Definition vact_of (po : bool) (pos : N) (l : bytes) : option vac_act :=
  match l with
  | [75] => Some VaKey
  | 73 :: r => option_map VaInsert (value_of po pos r)
  | _ => None
  end.
Definition oact_of (po : bool) (pos : N) (l : bytes) : option occ_act :=
  match l with
  | [71] => Some OaGet
  | [82] => Some OaRemove
  | [83; 87] => Some OaSwapRemove
  | [83; 72] => Some OaShiftRemove
  | [82; 69] => Some OaRemoveEntry
  | [83; 87; 69] => Some OaSwapRemoveEntry
  | [83; 72; 69] => Some OaShiftRemoveEntry
  | 77 :: r => option_map OaModify (vfun_of po pos r)        (* M: through get_mut *)
  | 84 :: r => option_map OaModify (vfun_of po pos r)        (* T: through into_mut *)
  | 73 :: r => option_map OaInsert (value_of po pos r)
  | _ => None
  end.

Definition o2 {A B C} (f : A -> B -> C) (a : option A) (b : option B) : option C :=
  match a, b with Some x, Some y => Some (f x y) | _, _ => None end.
Definition o3 {A B C D} (f : A -> B -> C -> D) (a : option A) (b : option B) (c : option C) : option D :=
  match a, b, c with Some x, Some y, Some z => Some (f x y z) | _, _, _ => None end.

Definition s (l : list N) : bytes := l.
(* operation tokens: name/arg/arg *)
Definition op_of (po : bool) (pos : N) (tok : bytes) : option op :=
  match split_on 47 tok with
  | [[99;108;114]] => Some Clear                                              (* clr *)
  | [[103;101;116]; k] => option_map Get (key_of k)                           (* get *)
  | [[104;97;115]; k] => option_map ContainsKey (key_of k)                    (* has *)
  | [[103;107;118]; k] => option_map GetKeyValue (key_of k)                   (* gkv *)
  | [[103;109]; k; g] => o2 GetMut (key_of k) (vfun_of po pos g)                 (* gm *)
  | [[105;110;115]; k; v] => o2 Insert (key_of k) (value_of po pos v)            (* ins *)
  | [[115;105;110;115]; i; k; v] => o2 (ShiftInsert (N.to_nat (N_of_dec i))) (key_of k) (value_of po pos v)   (* sins *)
  | [[114;109]; k] => option_map Remove (key_of k)                            (* rm *)
  | [[114;109;101]; k] => option_map RemoveEntry (key_of k)                   (* rme *)
  | [[115;119;114]; k] => option_map SwapRemove (key_of k)                    (* swr *)
  | [[115;119;114;101]; k] => option_map SwapRemoveEntry (key_of k)           (* swre *)
  | [[115;104;114]; k] => option_map ShiftRemove (key_of k)                   (* shr *)
  | [[115;104;114;101]; k] => option_map ShiftRemoveEntry (key_of k)          (* shre *)
  | [[97;112;112]; es] => option_map Append (entries_of po pos es)               (* app *)
  | [[101;120;116]; es] => option_map Extend (entries_of po pos es)              (* ext *)
  | [[102;114;105]; es] => option_map FromIter (entries_of po pos es)            (* fri *)
  | [[101;107]; k] => option_map EntryKey (key_of k)                          (* ek *)
  | [[101;111;105]; k; v] => o2 EntryOrInsert (key_of k) (value_of po pos v)     (* eoi *)
  | [[101;111;119]; k; v] => o2 EntryOrInsertWith (key_of k) (value_of po pos v) (* eow *)
  | [[101;97;109]; k; g] => o2 EntryAndModify (key_of k) (vfun_of po pos g)      (* eam *)
  | [[101;97;109;111;105]; k; g; v] => o3 EntryAndModifyOrInsert (key_of k) (vfun_of po pos g) (value_of po pos v)  (* eamoi *)
  | [[101;109]; k; va; oa] => o3 EntryMatch (key_of k) (vact_of po pos va) (oact_of po pos oa)   (* em *)
  | [[108;101;110]] => Some Len                                               (* len *)
  | [[101;109;112]] => Some IsEmpty                                           (* emp *)
  | [[105;116]] => Some Iter                                                  (* it *)
  | [[105;116;114]] => Some IterRev                                           (* itr *)
  | [[107;115]] => Some Keys                                                  (* ks *)
  | [[107;115;114]] => Some KeysRev                                           (* ksr *)
  | [[118;115]] => Some Values                                                (* vs *)
  | [[118;115;114]] => Some ValuesRev                                         (* vsr *)
  | [[105;105]] => Some IntoIter                                              (* ii *)
  | [[105;118]] => Some IntoValues                                            (* iv *)
  | [[105;116;109]; g] => option_map IterMut (kvfun_of po pos g)                 (* itm *)
  | [[118;109]; g] => option_map ValuesMut (vfun_of po pos g)                    (* vm *)
  | [[114;101;116]; p] => option_map Retain (pred_of p)                       (* ret *)
  | [[115;111;114;116]] => Some SortKeys                                      (* sort *)
  | [[105;120]; k] => option_map Index (key_of k)                             (* ix *)
  | [[105;120;109]; k; v] => o2 IndexMut (key_of k) (value_of po pos v)          (* ixm *)
  | _ => None
  end.

Fixpoint ops_of (po : bool) (pos : N) (toks : list bytes) : option (list op) :=
  match toks with
  | [] => Some []
  | t :: r => match op_of po pos t, ops_of po (pos + 1) r with Some o, Some os => Some (o :: os) | _, _ => None end
  end.

(* ---- printing ---------------------------------------------------------------------------- *)
(* same output as Driver.hex_or_dash / Driver.show_value (the harness uses canon.rs for both checks), with the two
   hex digits of a byte taken by shift / mask instead of division: the enumeration prints ~10^8 keys *)
Definition hexb (b : N) (tl : bytes) : bytes := hex_digit (N.shiftr b 4) :: hex_digit (N.land b 15) :: tl.
Definition hexs (l : bytes) : bytes := match l with [] => [45] | _ => fold_right hexb [] l end.
Definition show_num' (n : num) : bytes :=
  match n with
  | NPos n => 117 :: dec_of_N n
  | NNeg z => 105 :: dec_of_Z z
  | NFloat f => 100 :: hex16 (bits_of_b64 f)
  | NLit l => 108 :: hexs l
  end.
Fixpoint show_value' (v : value) : bytes :=
  match v with
  | VNull => [110]
  | VBool true => [116]
  | VBool false => [102]
  | VNum n => show_num' n
  | VStr l => 115 :: hexs l
  | VArr l => 97 :: 40 :: join [44] (map show_value' l) ++ [41]
  | VObj l => 111 :: 40 :: join [44] (map (fun kv => hexs (fst kv) ++ 58 :: show_value' (snd kv)) l) ++ [41]
  end.
Definition show_entries (l : list (bytes * value)) : bytes := show_value' (VObj l).
Definition show_kv (kv : bytes * value) : bytes := hexs (fst kv) ++ 61 :: show_value' (snd kv).
Fixpoint show_obs (o : obs) : bytes :=
  match o with
  | ONa => [78;65]
  | OPanic => s_panic
  | OUnit => [117]
  | OBool true => [98;49]
  | OBool false => [98;48]
  | ONat n => 35 :: dec_of_nat n
  | OVal v => 118 :: show_value' v
  | OOptV None => [78]
  | OOptV (Some v) => 83 :: show_value' v
  | OKV kv => show_kv kv
  | OOptKV None => [78]
  | OOptKV (Some kv) => 83 :: show_kv kv
  | OEntries l => show_entries l
  | OKeys l => 107 :: 40 :: join [44] (map hexs l) ++ [41]
  | OVals l => show_value' (VArr l)
  | OCalled true v => 99 :: 49 :: show_value' v
  | OCalled false v => 99 :: 48 :: show_value' v
  | OEntry true k r => 79 :: hexs k ++ 124 :: show_obs r
  | OEntry false k r => 86 :: hexs k ++ 124 :: show_obs r
  end.

Definition show_hcall (h : hcall) : bytes :=
  match h with
  | HIsize z => s [105;115;58] ++ dec_of_Z z               (* is:<dec> *)
  | HUsize n => s [117;115;58] ++ dec_of_N n               (* us:<dec> *)
  | HU8 n => s [117;56;58] ++ dec_of_N n                   (* u8:<dec> *)
  | HU64 n => s [117;54;52;58] ++ dec_of_N n               (* u64:<dec> *)
  | HI64 z => s [105;54;52;58] ++ dec_of_Z z               (* i64:<dec> *)
  | HBytes b => s [119;58] ++ hexs b                (* w:<hex> *)
  end.
Definition show_feed (l : list hcall) : bytes := join [44] (map show_hcall l).

(* ---- checksum over the depth-first enumeration --------------------------------------------- *)
Definition digest := (N * N * N)%type.       (* nodes, A = sum over lines of s1, B = sum over lines of s2, where within one
                                                line s1 = sum of its bytes and s2 = sum of the running s1 (position-sensitive) *)
Fixpoint dg_bytes (l : bytes) (s1 s2 : N) : N * N :=
  match l with
  | [] => (s1, s2)
  | b :: r => let s1' := s1 + b in dg_bytes r s1' (s2 + s1')
  end.
Definition dg_line (d : digest) (ob : obs) (m : mapstate) : digest :=
  let '(n, a, b) := d in
  let '(s1, s2) := dg_bytes (show_obs ob) 0 0 in
  let '(s1, s2) := dg_bytes (32 :: show_entries m) s1 s2 in
  (n + 1, a + s1, b + s2).

Fixpoint dfs (po : bool) (levels : list (list op)) (m : mapstate) (d : digest) : digest :=
  match levels with
  | [] => d
  | ops :: rest =>
    fold_left (fun d o => let '(m', ob) := step po m o in dfs po rest m' (dg_line d ob m')) ops d
  end.
Fixpoint run_dg (po : bool) (ops : list op) (m : mapstate) (d : digest) : mapstate * digest :=
  match ops with
  | [] => (m, d)
  | o :: r => let '(m', ob) := step po m o in run_dg po r m' (dg_line d ob m')
  end.
(* level j (1-based) of the enumeration draws from [toks]; the last level also from [last] (pure observers) *)
Fixpoint levels_of (po : bool) (n : nat) (pos : N) (toks last : list bytes) : option (list (list op)) :=
  match n with
  | O => Some []
  | S n' =>
    match sequence_o (map (op_of po pos) (match n' with O => toks ++ last | _ => toks end)), levels_of po n' (pos + 1) toks last with
    | Some l, Some ls => Some (l :: ls)
    | _, _ => None
    end
  end.
Fixpoint split_bar (l : list bytes) (acc : list bytes) : list bytes * list bytes :=
  match l with
  | [] => (rev acc, [])
  | [124] :: r => (rev acc, r)
  | x :: r => split_bar r (x :: acc)
  end.

Definition show_bool (b : bool) : bytes := if b then [116] else [102].

Definition dispatch_map (fields : list bytes) : bytes :=
  match fields with
  | [104] :: c :: toks =>                                                      (* h *)
    match ops_of (po_of c) 0 toks with
    | Some ops =>
      let '(m, obs) := run (po_of c) m_init ops in
      join [sp] (map show_obs obs ++ [s [70;61] ++ show_entries (m_iter m); s [66;61] ++ show_entries (m_iter_rev m)])
    | None => s_bad
    end
  | [120] :: c :: depth :: rest =>                                             (* x *)
    let '(pre, rest') := split_bar rest [] in
    let '(alph, last) := split_bar rest' [] in
    match ops_of (po_of c) 0 pre, levels_of (po_of c) (N.to_nat (N_of_dec depth)) (N.of_nat (length pre)) alph last with
    | Some ops, Some levels =>
      let '(m, d) := run_dg (po_of c) ops m_init (0, 0, 0) in
      let '(n, s1, s2) := dfs (po_of c) levels m d in
      68 :: sp :: dec_of_N n ++ sp :: dec_of_N s1 ++ sp :: dec_of_N s2
    | _, _ => s_bad
    end
  | [[101;113]; c; a; b] =>                                                    (* eq *)
    match value_of (po_of c) 0 a, value_of (po_of c) 0 b with
    | Some va, Some vb =>
      show_bool (veq (po_of c) va vb) ++ sp :: show_feed (hash_feed (po_of c) va) ++ sp :: show_feed (hash_feed (po_of c) vb)
    | _, _ => s_bad
    end
  | [[115;97]; c; a] =>                                                        (* sa *)
    match value_of (po_of c) 0 a with
    | Some va => show_value' (sort_all_objects (po_of c) va)
    | None => s_bad
    end
  | _ => s_bad
  end.
