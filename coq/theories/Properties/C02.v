(* Properties/C02.v — a successful parse yields the value the text denotes (model level). Pinned statements only. *)
From SJ Require Import Base.Bytes Base.Utf8 Base.FloatB Gen.Tables Model.Read Model.Str Model.Num Model.Value Model.De Spec.Syntax Spec.Denote.
From SJ Require Import Proofs.GrammarFinal Proofs.NumInt Proofs.StrSource.

(* Denotes cf bs v (Spec/Denote.v): bs = ws* ++ render c ++ ws* and [denote cf c = Some v], where [denote] maps literals to
   themselves, arrays to their elements in order, strings/keys to their escape-decoded text, objects to the result of inserting
   the members in source order into an empty map (last duplicate wins; ascending byte order, or first-occurrence order under
   preserve_order), and numbers to [num_den] (characterised below and in C06/C07/C08/C20). *)
Theorem C02_slice : forall cf bs v, Forall (fun b => (b < 256)%N) bs ->
  from_input (mkEnv RSlice TEof cf) bs = Ok v -> Denotes cf bs v.
Proof. exact value_sound_slice. Qed.
Theorem C02_reader : forall cf bs v, Forall (fun b => (b < 256)%N) bs ->
  from_input (mkEnv RIo TEof cf) bs = Ok v -> Denotes cf bs v.
Proof. exact value_sound_reader. Qed.
Theorem C02_str : forall cf bs v, utf8_valid bs = true -> Forall (fun b => (b < 256)%N) bs ->
  from_input (mkEnv RStr TEof cf) bs = Ok v -> Denotes cf bs v.
Proof. intros cf bs v Hu Hb. rewrite (from_input_str_slice cf bs Hu). apply value_sound_slice; exact Hb. Qed.
(* and conversely every text with a denotation parses to it *)
Theorem C02_complete : forall cf bs v, Denotes cf bs v -> from_input (mkEnv RSlice TEof cf) bs = Ok v.
Proof. exact value_complete_slice. Qed.

(* integer literals: exact u64 / i64, everything else (out of range, -0) a float; the u64 accumulation never wraps *)
Theorem C02_integer_literal : forall E positive ds rest off pk d,
  tm E = TEof -> int_ok ds = true -> stops_number rest ->
  let v := Z.to_N (digits_val ds 0) in
  let r := parse_integer E positive (mkSt (ds ++ rest) off pk d) in
  if (v <=? u64_max)%N then
    r = Ok ((if positive then PU64 v
             else if (0 <? v)%N && (v <=? i64_min_abs)%N then PI64 (- Z.of_N v)
             else PF64 (b64_neg (b64_of_Z (Z.of_N v)))), st_after ds rest off d)
  else
    match r with
    | Ok (PF64 _, s') => s' = st_after ds rest off d
    | Err NumberOutOfRange _ => True
    | _ => False
    end.
Proof. exact parse_integer_int. Qed.
Theorem C02_fraction_exponent_is_float : forall E positive ds c rest off pk d p s',
  tm E = TEof -> int_ok ds = true -> (c = 46 \/ c = 101 \/ c = 69)%N ->
  parse_integer E positive (mkSt (ds ++ c :: rest) off pk d) = Ok (p, s') -> exists f, p = PF64 f.
Proof. exact parse_integer_frac_exp_is_float. Qed.

(* non-vacuity: duplicate keys (last wins), ascending order, escapes decoded *)
Definition cfg0 := mkCfg false false false false.
Example C02_example :
  from_input (mkEnv RSlice TEof cfg0) [123; 34;98;34; 58; 49; 44; 34;97;34; 58; 34;92;110;34; 44; 34;98;34; 58; 50; 125]%N   (* {"b":1,"a":"\n","b":2} *)
  = Ok (VObj [([97%N], VStr [10%N]); ([98%N], VNum (NPos 2))]).
Proof. vm_compute. reflexivity. Qed.

Print Assumptions C02_slice.
Print Assumptions C02_reader.
Print Assumptions C02_str.
Print Assumptions C02_complete.
Print Assumptions C02_integer_literal.
From SJ Require Import Base.Bytes Base.Utf8 Base.FloatB Gen.Tables
  Model.Read Model.Str Model.Num Model.Value Model.De Model.NumberM Model.Ty Model.DeTyped Model.ValueDe Model.NumberTarget
  Model.RawM Model.RawDe Model.DeTok Spec.Syntax Spec.Denote Proofs.Total Proofs.RawNested Proofs.ApNumber Proofs.GrammarFinal.
From Coq Require Import Lia ZifyBool ZifyNat ZifyN.
From Coq Require Import String Ascii.
From SJ Require Import Proofs.DeTokProps.
Theorem C02_detok_conservative :
  (forall E input, arbitrary_precision (cf E) = false -> from_input_tok E false input = of_res (from_input E input)) /\
  (forall E raw_on input, no_token_doc E raw_on input = true -> from_input_tok E raw_on input = of_res (from_input E input)).
Proof. exact (@DeTokProps.detok_conservative). Qed.
Print Assumptions C02_detok_conservative.

Theorem C02_detok_number_token_literal : forall k c rv w0 w1 w2 w3 key lit tail (n : numlit) w4 w5,  arbitrary_precision c = true ->
  forallb is_ws w0 = true -> forallb is_ws w1 = true -> forallb is_ws w2 = true -> forallb is_ws w3 = true ->
  str_ok key = true -> str_text key = Some NUMBER_TOKEN_V -> str_ok lit = true -> str_text lit = Some (render_num n) ->
  num_ok n = true -> forallb is_ws w4 = true -> forallb is_ws w5 = true -> tail = w4 ++ 125 :: w5 ->
  from_input_tok (mkEnv k TEof c) rv (tok_prefix w0 w1 w2 w3 key lit ++ tail) = NOk (VNum (NLit (render_num n))).
Proof. exact (@DeTokProps.detok_number_token_literal). Qed.
Print Assumptions C02_detok_number_token_literal.

Theorem C02_detok_c02_without_token : forall c rv bs v,  Denotes c bs v -> no_token_doc (mkEnv RSlice TEof c) rv bs = true ->
  from_input_tok (mkEnv RSlice TEof c) rv bs = NOk v.
Proof. exact (@DeTokProps.detok_c02_without_token). Qed.
Print Assumptions C02_detok_c02_without_token.

Theorem C02_F23_token_object_read_as_number :
  exists (inp : bytes) (v : value) (o : list (bytes * value)) (n : num),
    arbitrary_precision cfA = true /\
    (forall k, from_input_tok (EA k) false inp = NOk v) /\
    Denotes cfA inp (VObj o) /\
    from_input (EA RSlice) inp = Ok (VObj o) /\
    v = VNum n.
Proof. exact (@DeTokProps.detok_refutes_c02). Qed.
Print Assumptions C02_F23_token_object_read_as_number.

