(* Properties/C07.v — float_roundtrip: decimal to float conversion is correctly rounded (model level).
   Only pinned statements: each is closed by `exact` of a lemma proved in Proofs/.

   What is proved:
     C07_model           for every well-formed number literal (with fraction / exponent, or beyond u64) the parser model of the
                         float_roundtrip build returns the binary64 nearest (ties to even) to the literal's exact decimal value, with the
                         literal's sign (-0.0 and underflow to +-0 included), and NumberOutOfRange exactly when that nearest value is infinite
     C07_lex_glue        the (significand, exponent) / digit strings handed to lexical denote the literal's value
     C07_oracle_*        the oracle rne_decimal, which represents lexical in Model/Num.v, is round-to-nearest-even (finite and overflow side)
     C07_fast_path       the fast path of the algorithm model (Model/Lex.fast_path) returns the oracle's bits
     C07_tables_*        the cached powers / constants extracted from src/lexical (regenerated on every run) are what they claim to be
     C07_ef_mul, C07_ef_normalize, C07_small_atof   arithmetic of the extended-float and big-integer comparison steps
     C07_concise / C07_concise32 / C07_truncated / C07_truncated32 / C07_alg_spec
                         the ALGORITHM model of src/lexical (Model/Lex.v: fast path, extended-float moderate path with its error booking,
                         big-integer slow path bhcomp) returns, bit for bit, the oracle's round-to-nearest-even result, for both float kinds:
                         every u64 mantissa with every exponent, and every digit string of any length (proved on the code as repaired by the
                         fixes of findings F21 and F22, which these proofs found)
   What is CHECKED, not proved (tools/checks/lex.py): that the real src/lexical behaves as Model/Lex.v (implementation vs Model/Lex.v step by
   step, implementation vs exact oracle); Bigint arithmetic (abstracted to Z in the model; checked limb by limb);
   the float printer (ryu, an external crate): valid JSON number syntax, contains '.' or 'e', re-parses to the same float,
   on every float met and on all 2^32 f32 bit patterns. *)
From Coq Require Import ZArith NArith Reals List Bool.
From Flocq Require Import Core BinarySingleNaN.
From SJ Require Import Base.Bytes Base.FloatB Gen.Tables Gen.LexTables Model.Read Model.Num Model.Lex Spec.Syntax Spec.Denote.
From SJ Require Import Proofs.GrammarNum Proofs.FloatDefault Proofs.FloatOracle.
From SJ Require Import Proofs.LexGlue Proofs.LexOracle Proofs.LexC07 Proofs.LexFast Proofs.LexTables Proofs.LexExt.
Set Warnings "-abstract-large-number".

(* ---- the property for the parser model ------------------------------------------------------------------------------- *)
Theorem C07_model : forall (E : env) (n : numlit) (positive : bool) (r : bytes) (o : nat) (p : bool) (d : N),
  tm E = TEof -> float_roundtrip (cf E) = true -> arbitrary_precision (cf E) = false ->
  num_ok n = true -> fw n r -> (length (render_abs n) < 100000000)%nat ->
  is_float_lit n ->
  let x := lit_real n in
  let run := parse_any_number E positive (mkSt (render_abs n ++ r) o p d) in
  let s_end := pkd r (o + length (render_abs n)) d in
  ((Rabs (RNE64 x) < bpow radix2 1024)%R /\
   exists f : b64, run = Ok (PF64 f, s_end) /\ is_finite f = true /\ Bsign f = negb positive /\
                   B2R f = (if positive then RNE64 x else - RNE64 x)%R)
  \/
  ((bpow radix2 1024 <= Rabs (RNE64 x))%R /\ exists i, run = Err NumberOutOfRange i).
Proof. exact LexC07.C07_model. Qed.

(* the float in C07_model is determined bit for bit by (finite, sign, real value) *)
Theorem C07_unique : forall f g : b64, is_finite f = true -> is_finite g = true ->
  Bsign f = Bsign g -> B2R f = B2R g -> f = g.
Proof. exact LexC07.C07_unique. Qed.

(* negative integer literals beyond i64 become -(n as f64) *)
Theorem C07_model_negint : forall (E : env) (n : numlit) (r : bytes) (o : nat) (p : bool) (d : N),
  tm E = TEof -> float_roundtrip (cf E) = true -> arbitrary_precision (cf E) = false ->
  num_ok n = true -> fw n r -> (length (render_abs n) < 100000000)%nat ->
  int_syntax n = true -> (fst (lit_value n) <= Z.of_N u64_max)%Z ->
  (0 <=? wrap_i64 (- wrap_i64 (fst (lit_value n))))%Z = true ->
  exists f : b64,
    parse_any_number E false (mkSt (render_abs n ++ r) o p d) = Ok (PF64 f, pkd r (o + length (render_abs n)) d) /\
    is_finite f = true /\ Bsign f = true /\ B2R f = (- RNE64 (IZR (fst (lit_value n))))%R.
Proof. exact LexC07.C07_model_negint. Qed.

(* ---- the glue ------------------------------------------------------------------------------------------------------ *)
Theorem C07_lex_glue : forall (E : env) (n : numlit) (positive : bool) (r : bytes) (o : nat) (p : bool) (d : N),
  tm E = TEof ->
  float_roundtrip (cf E) = true -> arbitrary_precision (cf E) = false ->
  num_ok n = true -> fw n r -> (length (render_abs n) < 100000000)%nat ->
  let '(m0, e0) := lit_value n in
  let s_end := pkd r (o + length (render_abs n)) d in
  if int_syntax n && (m0 <=? Z.of_N u64_max)%Z then
    parse_any_number E positive (mkSt (render_abs n ++ r) o p d) =
      Ok (if positive then PU64 (Z.to_N m0)
          else if (0 <=? wrap_i64 (- wrap_i64 m0))%Z then PF64 (b64_neg (b64_of_Z m0))
          else PI64 (wrap_i64 (- wrap_i64 m0)), s_end)
  else
    exists m e, (0 <= m)%Z /\ same_value m e m0 e0 /\
      match glue_float positive m e with
      | Some f => parse_any_number E positive (mkSt (render_abs n ++ r) o p d) = Ok (PF64 f, s_end)
      | None => exists i, parse_any_number E positive (mkSt (render_abs n ++ r) o p d) = Err NumberOutOfRange i
      end.
Proof. exact lex_glue. Qed.

(* ---- the oracle ---------------------------------------------------------------------------------------------------- *)
Theorem C07_oracle_finite : forall m e, (0 < m)%Z ->
  (Rabs (round radix2 (FLT_exp (-1074) 53) ZnearestE (IZR m * powerRZ 10 e)) < bpow radix2 1024)%R ->
  is_finite (rne_decimal m e) = true /\
  B2R (rne_decimal m e) = round radix2 (FLT_exp (-1074) 53) ZnearestE (IZR m * powerRZ 10 e) /\
  Bsign (rne_decimal m e) = false.
Proof. exact rne_decimal_correct. Qed.

Theorem C07_oracle_overflow : forall m e, (0 < m)%Z ->
  (bpow radix2 1024 <= Rabs (RNE64 (IZR m * powerRZ 10 e)))%R ->
  rne_decimal m e = B754_infinity false.
Proof. exact rne_decimal_overflow. Qed.

Theorem C07_oracle_value : forall m e m' e', (0 <= m)%Z -> (0 <= m')%Z ->
  (IZR m * powerRZ 10 e = IZR m' * powerRZ 10 e')%R ->
  rne_decimal m e = rne_decimal m' e'.
Proof. exact rne_decimal_value. Qed.

(* ---- the algorithm model ------------------------------------------------------------------------------------------- *)
Theorem C07_fast_path : forall (m : N) (e : Z) (bits : N),
  fast_path F64 m e = Some bits -> bits = bits_of_b64 (rne_decimal (Z.of_N m) e).
Proof. exact lex_fast_correct. Qed.

Theorem C07_fast_path_real : forall (m : N) (e : Z) (bits : N),
  (0 < m)%N -> fast_path F64 m e = Some bits ->
  exists f : b64, bits = bits_of_b64 f /\ is_finite f = true /\ Bsign f = false /\
                  B2R f = RNE64 (IZR (Z.of_N m) * powerRZ 10 e).
Proof. exact lex_fast_correct_real. Qed.

(* whenever the fast path of the algorithm model answers, parse_concise_float's answer is the answer of the specification
   f64_fr by which Model/Num.v represents lexical *)
Theorem C07_fast_path_refines : forall (sig : N) (e : Z) (bits : N),
  fast_path F64 sig e = Some bits ->
  exists f : b64, f64_fr sig e = Some f /\ bits_of_b64 f = bits /\
                  parse_concise_float F64 sig e = bits.
Proof. exact lex_fast_refines. Qed.

Theorem C07_ef_mul : forall a b : efloat,
  (mant a < two64N)%N -> (mant b < two64N)%N ->
  let r := ef_mul a b in
  exp r = (exp a + exp b + 64)%Z /\
  (- 2 ^ 63 < 2 ^ 64 * Z.of_N (mant r) - Z.of_N (mant a) * Z.of_N (mant b) <= 2 ^ 63)%Z.
Proof. exact ef_mul_round. Qed.

Theorem C07_ef_normalize : forall fp : efloat, (0 < mant fp)%N -> (mant fp < two64N)%N ->
  let '(r, shift) := ef_normalize fp in
  (0 <= shift <= 63)%Z /\ exp r = (exp fp - shift)%Z /\
  Z.of_N (mant r) = (Z.of_N (mant fp) * 2 ^ shift)%Z /\ (2 ^ 63 <= Z.of_N (mant r) < 2 ^ 64)%Z.
Proof. exact ef_normalize_spec. Qed.

Theorem C07_small_atof : forall (k : fkind) (mantissa exponent : Z) (f : N),
  (exponent < 0)%Z -> (0 <= mantissa)%Z ->
  let th := bh_extended k f in
  let T := Z.of_N (mant th) in
  let E := exp th in
  small_atof k mantissa exponent f =
  match Z.compare (mantissa * 2 ^ (Z.max 0 (exponent - E))) (T * 5 ^ (- exponent) * 2 ^ (Z.max 0 (E - exponent))) with
  | Gt => f_next_positive f
  | Lt => f
  | Eq => f_round_positive_even k f
  end.
Proof. exact small_atof_decides. Qed.

(* ---- the tables ---------------------------------------------------------------------------------------------------- *)
Theorem C07_tables_small :
  check_entries exact_entry BASE10_SMALL_MANTISSA BASE10_SMALL_EXPONENT 0 1 = true /\
  BASE10_SMALL_INT_POWERS = map (fun i => Z.to_N (10 ^ Z.of_nat i)) (seq 0 10) /\
  length BASE10_SMALL_MANTISSA = 10%nat /\ BASE10_STEP = 10%Z.
Proof. exact small_powers_exact. Qed.

Theorem C07_tables_large :
  check_entries one_ulp_entry BASE10_LARGE_MANTISSA BASE10_LARGE_EXPONENT (- BASE10_BIAS) BASE10_STEP = true /\
  length BASE10_LARGE_MANTISSA = 66%nat /\ BASE10_BIAS = 350%Z.
Proof. exact large_powers_one_ulp. Qed.

Theorem C07_tables_limbs :
  POW5_64 = map (fun i => Z.to_N (5 ^ Z.of_nat i)) (seq 0 28) /\
  POW10_64 = map (fun i => Z.to_N (10 ^ Z.of_nat i)) (seq 0 20) /\
  (forall i, (i < 14)%nat -> nth i (map limbs_value LARGE_POW5_LIMBS) 0%Z = (5 ^ (2 ^ Z.of_nat i))%Z) /\
  length LARGE_POW5_LIMBS = 14%nat /\
  forallb (fun l => negb (N.eqb (last l 0%N) 0)) LARGE_POW5_LIMBS = true.
Proof. exact pow5_pow10_limb_tables. Qed.

(* ---- the slow path is exact (Proofs/LexRnd.v, LexBits.v, LexAtof.v, LexBh.v): for digit strings of ANY length (the truncation to
   MAX_DIGITS digits included: no halfway point lies strictly between A*10^u and (A+1)*10^u when A has MAX_DIGITS-1 digits), whenever b
   brackets the value from below within one unit in the last place, bhcomp returns the bits of the round-to-nearest-even oracle.
   (proved against the code as repaired by the fix of finding F21; the F21 witness is a regression Example in LexBh.v) ---- *)
Close Scope N_scope. Open Scope Z_scope.
From SJ Require Import Proofs.LexAtof.
From SJ Require Proofs.LexBh.
Theorem C07_bhcomp_exact : forall (b : N) (integer fraction : bytes) (exponent : Z),
  forallb is_digit integer = true -> forallb is_digit fraction = true -> (integer = [] \/ hd 0%N integer <> 48%N) ->
  -1000000000 <= exponent <= 1000000000 -> Z.of_nat (length integer) + Z.of_nat (length fraction) <= 1000000000 ->    (* no i32 saturation *)
  let D := digits_val (integer ++ fraction) 0 in
  let e := exponent - Z.of_nat (length fraction) in
  0 < D -> (b < INFINITY_BITS F64)%N ->
  in_ulp (IZR D * powerRZ 10 e) (Z.of_N (f_mantissa F64 b)) (f_exponent F64 b) ->      (* M*2^E <= x < (M+1)*2^E for b = (M, E) *)
  bhcomp F64 b integer fraction exponent = bits_of_b64 (rne_decimal D e).
Proof. exact LexBh.bhcomp_correct. Qed.
Print Assumptions C07_bhcomp_exact.


(* ---- the whole algorithm (Proofs/LexRtn.v, LexErr.v, LexMod.v, LexFull.v, LexOracle32.v, LexFull32.v) ---- *)
From SJ Require Proofs.LexFull Proofs.LexFull32.
Theorem C07_concise : forall (mantissa : N) (mant_exp : Z), (mantissa < two64N)%N ->
  parse_concise_float F64 mantissa mant_exp = bits_of_b64 (rne_decimal (Z.of_N mantissa) mant_exp).
Proof. exact LexFull.lex_concise_correct. Qed.
Theorem C07_concise32 : forall (mantissa : N) (mant_exp : Z), (mantissa < two64N)%N ->
  parse_concise_float F32 mantissa mant_exp = bits_of_b32 (rne_decimal32 (Z.of_N mantissa) mant_exp).
Proof. exact LexFull32.lex_concise_correct32. Qed.
(* the algorithm computes exactly the specification the parser model uses (None = NumberOutOfRange on the same inputs) *)
Theorem C07_alg_spec : forall (sig : N) (e : Z), (sig < two64N)%N -> f64_fr_alg sig e = option_map bits_of_b64 (f64_fr sig e).
Proof. exact LexFull.f64_fr_alg_spec. Qed.
(* literals with more digits than fit u64: digits only, integer part without a leading zero (guaranteed by de.rs), sizes below 10^9 (no i32
   saturation in the exponent arithmetic), some non-zero digit *)
Theorem C07_truncated : forall (integer fraction : bytes) (exponent : Z),
  forallb is_digit integer = true -> forallb is_digit fraction = true -> (integer = [] \/ hd 0%N integer <> 48%N) ->
  -1000000000 <= exponent <= 1000000000 -> Z.of_nat (length integer) + Z.of_nat (length fraction) <= 1000000000 ->
  0 < digits_val (integer ++ strip_trailing_zeros fraction) 0 ->
  parse_truncated_float F64 integer fraction exponent = bits_of_b64 (lexical_truncated integer fraction exponent).
Proof. exact LexFull.lex_truncated_correct. Qed.
Theorem C07_truncated32 : forall (integer fraction : bytes) (exponent : Z),
  forallb is_digit integer = true -> forallb is_digit fraction = true -> (integer = [] \/ hd 0%N integer <> 48%N) ->
  -1000000000 <= exponent <= 1000000000 -> Z.of_nat (length integer) + Z.of_nat (length fraction) <= 1000000000 ->
  let fr := strip_trailing_zeros fraction in
  0 < digits_val (integer ++ fr) 0 ->
  parse_truncated_float F32 integer fraction exponent =
  bits_of_b32 (rne_decimal32 (digits_val (integer ++ fr) 0) (exponent - Z.of_nat (length fr))).
Proof. exact LexFull32.lex_truncated_correct32. Qed.
Print Assumptions C07_concise.
Print Assumptions C07_concise32.
Print Assumptions C07_alg_spec.
Print Assumptions C07_truncated.
Print Assumptions C07_truncated32.

(* ---- non-vacuity ---------------------------------------------------------------------------------------------------- *)
Open Scope N_scope.
Definition Efr : env := mkEnv RSlice TEof (mkCfg false true false false).

(* "1.5": the hypotheses of C07_model hold *)
Example C07_example_hyps :
  let n := mkNum false [49] (Some [53]) None in
  num_ok n = true /\ fw n [] /\ (length (render_abs n) < 100000000)%nat /\ is_float_lit n /\
  tm Efr = TEof /\ float_roundtrip (cf Efr) = true /\ arbitrary_precision (cf Efr) = false.
Proof.
  cbv zeta. split; [reflexivity|]. split; [apply fw_nil|]. split; [apply Nat2Z.inj_lt; rewrite big_nat; reflexivity|].
  split; [reflexivity|]. repeat split; reflexivity.
Qed.

(* concrete runs of the model: 1.5, -0.0, the halfway point 9007199254740993 (ties to even), 1e400 (out of range) *)
Definition run_bits (positive : bool) (l : bytes) : option N :=
  match parse_any_number Efr positive (mkSt l 0 false 128) with
  | Ok (PF64 f, _) => Some (bits_of_b64 f)
  | _ => None
  end.
Example C07_example_runs :
  run_bits true [49; 46; 53] = Some 4609434218613702656%N /\                                     (* 0x3ff8000000000000 *)
  run_bits false [48; 46; 48] = Some 9223372036854775808%N /\                                    (* 0x8000000000000000 *)
  run_bits true [57;48;48;55;49;57;57;50;53;52;55;52;48;57;57;51;46;48] = Some 4845873199050653696%N /\   (* 2^53: 0x4340000000000000 *)
  parse_any_number Efr true (mkSt [49; 101; 52; 48; 48] 0 false 128) = Err NumberOutOfRange 5.
Proof. repeat split; vm_compute; reflexivity. Qed.

Print Assumptions C07_model.
Print Assumptions C07_model_negint.
Print Assumptions C07_lex_glue.
Print Assumptions C07_oracle_finite.
Print Assumptions C07_oracle_overflow.
Print Assumptions C07_oracle_value.
Print Assumptions C07_fast_path.
Print Assumptions C07_fast_path_real.
Print Assumptions C07_fast_path_refines.
Print Assumptions C07_ef_mul.
Print Assumptions C07_ef_normalize.
Print Assumptions C07_small_atof.
Print Assumptions C07_tables_small.
Print Assumptions C07_tables_large.
Print Assumptions C07_tables_limbs.

(* ---- math.rs at LIMB level (Model/LexBig.v: Vec<u64> limbs, carries and wrapping arithmetic written out, every index / underflow panic an explicit None):
        each operation refines the Z operation Model/Lex.v uses, bhcomp at limb level = the Z-level bhcomp proved correct above, and the operand ranges the
        parser can reach stay inside the domain where nothing panics (Proofs/LexBig*.v) ---- *)
From Coq Require Import NArith ZArith List Bool Arith Lia ZifyBool ZifyNat ZifyN.
From SJ Require Import Gen.LexTables Model.Lex Model.LexBig.
From SJ Require Import Proofs.LexBigBase.
Theorem C07_big_compare : forall (x y : list N), limbs_ok x -> limbs_ok y -> normalized x -> normalized y ->
  big_compare x y = (val x ?= val y).
Proof. exact LexBigBase.compare_refines. Qed.
Print Assumptions C07_big_compare.

Theorem C07_big_hi64 : forall (x : list N), limbs_ok x -> normalized x -> hi64 x = Some (big_hi64 (val x)).
Proof. exact LexBigBase.hi64_refines. Qed.
Print Assumptions C07_big_hi64.

Theorem C07_big_bit_length : forall (x : list N), limbs_ok x -> normalized x -> (64 * N.of_nat (length x) < LB)%N ->
  Z.of_N (bit_length x) = big_bit_length (val x).
Proof. exact LexBigBase.bit_length_refines. Qed.
Print Assumptions C07_big_bit_length.

From Coq Require Import NArith ZArith List Bool Arith Lia ZifyBool ZifyNat ZifyN.
From SJ Require Import Gen.LexTables Model.Lex Model.LexBig Proofs.LexBigBase.
From SJ Require Import Proofs.LexBigMul.
Theorem C07_big_long_mul : forall (x y : list N), limbs_ok x -> limbs_ok y -> y <> [] ->
  exists z, long_mul x y = Some z /\ val z = val x * val y /\ limbs_ok z /\ normalized z /\ (length z <= length x + length y)%nat.
Proof. exact LexBigMul.long_mul_refines. Qed.
Print Assumptions C07_big_long_mul.

Theorem C07_big_karatsuba_partial : forall fuel : nat, mul_ok (karatsuba_mul fuel).
Proof. exact LexBigMul.karatsuba_mul_partial. Qed.
Print Assumptions C07_big_karatsuba_partial.

From Coq Require Import NArith ZArith List Bool Arith Lia ZifyBool ZifyNat ZifyN.
From SJ Require Import Gen.LexTables Model.Lex Model.LexBig Proofs.LexBigBase Proofs.LexBigMul Proofs.LexTables.
From SJ Require Import Proofs.LexBigPow.
Theorem C07_big_imul_small : forall (x : list N) (y : N), limbs_ok x -> (y < LB)%N ->
  val (imul_small x y) = val x * Z.of_N y /\ limbs_ok (imul_small x y)
  /\ (normalized x -> y <> 0%N -> normalized (imul_small x y))
  /\ (length x <= length (imul_small x y) <= length x + 1)%nat.
Proof. exact LexBigPow.imul_small_refines. Qed.
Print Assumptions C07_big_imul_small.

Theorem C07_big_iadd_small : forall (x : list N) (y : N), limbs_ok x -> (y < LB)%N ->
  exists z, iadd_small x y = Some z /\ val z = val x + Z.of_N y /\ limbs_ok z
    /\ (normalized x -> x <> [] \/ y <> 0%N -> normalized z)
    /\ (length x <= length z <= length x + 1)%nat.
Proof. exact LexBigPow.iadd_small_refines. Qed.
Print Assumptions C07_big_iadd_small.

Theorem C07_big_imul_pow2 : forall (x : list N) (n : N), limbs_ok x ->
  exists z, imul_pow2 x n = Some z /\ val z = val x * 2 ^ Z.of_N n /\ limbs_ok z /\ (normalized x -> normalized z).
Proof. exact LexBigPow.imul_pow2_refines. Qed.
Print Assumptions C07_big_imul_pow2.

Theorem C07_big_imul_pow5_partial : forall (x : list N) (n : N) (z : list N), limbs_ok x -> normalized x -> (n < 2 ^ 32)%N ->
  imul_pow5 x n = Some z -> val z = val x * 5 ^ Z.of_N n /\ limbs_ok z /\ normalized z.
Proof. exact LexBigPow.imul_pow5_partial. Qed.
Print Assumptions C07_big_imul_pow5_partial.

Theorem C07_big_imul_pow5_1024 : forall (x : list N) (n : N), limbs_ok x -> (n < 1024)%N -> (length x <= 44)%nat ->
  exists z, imul_pow5 x n = Some z /\ val z = val x * 5 ^ Z.of_N n /\ limbs_ok z /\ (normalized x -> normalized z).
Proof. exact LexBigPow.imul_pow5_refines_1024. Qed.
Print Assumptions C07_big_imul_pow5_1024.

Theorem C07_big_imul_pow10_1024 : forall (x : list N) (n : N), limbs_ok x -> (n < 1024)%N -> (length x <= 44)%nat ->
  exists z, imul_pow10 x n = Some z /\ val z = val x * 10 ^ Z.of_N n /\ limbs_ok z /\ (normalized x -> normalized z).
Proof. exact LexBigPow.imul_pow10_refines_1024. Qed.
Print Assumptions C07_big_imul_pow10_1024.

From Coq Require Import NArith ZArith List Bool Arith Lia ZifyBool ZifyNat ZifyN.
From SJ Require Import Base.Bytes Gen.LexTables Model.Num Model.Lex Model.LexBig.
From SJ Require Import Proofs.LexBigBase Proofs.LexBigMul Proofs.LexBigPow.
From SJ Require Import Proofs.LexBigRefine.
Theorem C07_big_parse_mantissa : forall (k : fkind) (integer fraction : list N),  forallb is_digit integer = true -> forallb is_digit fraction = true ->
  exists m, parse_mantissa_l k integer fraction = Some m
    /\ val m = parse_mantissa k integer fraction /\ limbs_ok m
    /\ (0 < parse_mantissa k integer fraction -> normalized m)
    /\ 0 <= parse_mantissa k integer fraction < 10 ^ 769.
Proof. exact LexBigRefine.parse_mantissa_refines. Qed.
Print Assumptions C07_big_parse_mantissa.

Theorem C07_big_bhcomp : forall (k : fkind) (b : N) (integer fraction : list N) (exponent : Z),  forallb is_digit integer = true -> forallb is_digit fraction = true ->
  0 < bh_mantissa k integer fraction ->
  -2048 < bh_scaled_exponent k integer fraction exponent < 1024 ->
  bhcomp_l k b integer fraction exponent = Some (bhcomp k b integer fraction exponent).
Proof. exact LexBigRefine.bhcomp_refines. Qed.
Print Assumptions C07_big_bhcomp.

Theorem C07_big_bhcomp_sound : forall (k : fkind) (b : N) (integer fraction : list N) (exponent : Z) (r : N),  forallb is_digit integer = true -> forallb is_digit fraction = true ->
  0 < bh_mantissa k integer fraction ->
  - 2 ^ 31 <= bh_scaled_exponent k integer fraction exponent < 2 ^ 31 ->
  bhcomp_l k b integer fraction exponent = Some r -> r = bhcomp k b integer fraction exponent.
Proof. exact LexBigRefine.bhcomp_sound. Qed.
Print Assumptions C07_big_bhcomp_sound.

From Coq Require Import ZArith NArith Lia List Bool.
From SJ Require Import Base.Bytes Gen.LexTables Model.Num Model.Lex Model.LexBig.
From SJ Require Import Proofs.LexBh Proofs.LexFull Proofs.LexBigBase Proofs.LexBigRefine.
From SJ Require Import Proofs.LexBigReach.
Theorem C07_big_reach : forall (k : fkind) (b : N) (integer fraction : bytes) (exponent : Z) (w : N) (t : nat) (rest mexp : Z),  alldig integer -> alldig fraction -> (integer = [] \/ hd 0%N integer <> 48%N) ->
  -1000000000 <= exponent <= 1000000000 -> len integer + len fraction <= 1000000000 ->
  dv (integer ++ fraction) = Z.of_N w * 10 ^ Z.of_nat t + rest -> 0 <= rest < 10 ^ Z.of_nat t ->
  (0 < w)%N -> (w < two64N)%N ->
  mexp = exponent - len fraction + Z.of_nat t -> -350 <= mexp < 310 ->
  -1119 < bh_scaled_exponent k integer fraction exponent < 331
  /\ bhcomp_l k b integer fraction exponent = Some (bhcomp k b integer fraction exponent).
Proof. exact LexBigReach.bh_reach. Qed.
Print Assumptions C07_big_reach.

Theorem C07_big_concise_refined : forall (k : fkind) (mantissa : N) (mant_exp : Z) (fp : efloat) (b bits : N),  (mantissa < two64N)%N -> concise_trace k mantissa mant_exp = TBh fp b bits ->
  bhcomp_l k b (itoa mantissa) [] mant_exp = Some bits.
Proof. exact LexBigReach.concise_bh_refined. Qed.
Print Assumptions C07_big_concise_refined.

Theorem C07_big_truncated_refined : forall (k : fkind) (integer fraction : bytes) (exponent : Z) (fp : efloat) (b bits : N),  alldig integer -> alldig fraction -> (integer = [] \/ hd 0%N integer <> 48%N) ->
  -1000000000 <= exponent <= 1000000000 -> len integer + len fraction <= 1000000000 ->
  0 < dv (integer ++ strip_trailing_zeros fraction) ->
  snd (truncated_trace k integer fraction exponent) = TBh fp b bits ->
  bhcomp_l k b integer (strip_trailing_zeros fraction) exponent = Some bits.
Proof. exact LexBigReach.truncated_bh_refined. Qed.
Print Assumptions C07_big_truncated_refined.


(* ---- the f32 GLUE of de.rs under float_roundtrip (single_precision: lexical's binary32 algorithm, the long-literal path, negative integers beyond i64 — where F17 lived):
        the glue model of Model/Lex.v computes exactly the specification the typed model uses (NumF32.rne_decimal32: the literal's exact value rounded ONCE to binary32),
        for every input; the executable glue model runs against the crate (sjdriver_f32 vs op f32) ---- *)
From Coq Require Import ZArith NArith Reals Lia Lra List Bool.
From Flocq Require Import Core BinarySingleNaN.
From SJ Require Import Base.Bytes Base.FloatB Gen.Tables Gen.LexTables Model.Read Model.Num Model.Lex Model.NumF32 Model.ValueSer.
From SJ Require Import Proofs.GrammarNum Proofs.LexGlue Proofs.FloatDefault Proofs.LexOracle32 Proofs.LexFull32.
From SJ Require Import Proofs.LexBh Proofs.LexFull.
From SJ Require Import Model.Ty Model.DeTyped.
From SJ Require Import Proofs.LexF32Glue.
Theorem C07_f32_fr_spec : forall (sig : N) (e : Z), (sig < two64N)%N ->
  f32_fr sig e = option_map bits_of_b32 (f32_fr_spec sig e).
Proof. exact (@LexF32Glue.C07_f32_fr_spec). Qed.
Print Assumptions C07_f32_fr_spec.

Theorem C07_f32_long_spec : forall (integer fraction : bytes) (e : Z), long_ok integer fraction e ->
  f32_long integer fraction e = option_map bits_of_b32 (f32_long_spec integer fraction e).
Proof. exact (@LexF32Glue.C07_f32_long_spec). Qed.
Print Assumptions C07_f32_long_spec.

Theorem C07_f32_negint_spec : forall sig : N, (sig < two64N)%N ->
  negated_u64_as_float_bits F32 sig = bits_of_b32 (Bopp (binary_normalize 24 128 prec24_gt_0 prec24_lt_emax mode_NE (Z.of_N sig) 0 false)).
Proof. exact (@LexF32Glue.C07_f32_negint_spec). Qed.
Print Assumptions C07_f32_negint_spec.

From Coq Require Import ZArith NArith Lia List Bool ZifyBool ZifyNat ZifyN.
From Flocq Require Import Core BinarySingleNaN.
From SJ Require Import Base.Bytes Base.FloatB Gen.Tables Gen.LexTables Model.Read Model.Num Model.Lex Model.NumF32 Model.De Model.Ty Model.DeTyped.
From SJ Require Import Spec.Syntax Spec.Denote.
From SJ Require Import Proofs.GrammarNum Proofs.LexGlue Proofs.LexFull Proofs.LexF32Glue.
From SJ Require Import Proofs.TypedRoundtripF32.
From Coq Require Import Reals Lra.
From SJ Require Import Proofs.FloatDefault Proofs.LexOracle32 Proofs.LexFull32 Proofs.LexC07.
From SJ Require Import Proofs.LexF32Glue2.
Theorem C07_f32_parser_glue : forall (E : env) (positive : bool) (s : st), (numspan (rest s) <= 100000000)%Z ->
  parse_integer_a E positive s = parse_integer_s E positive s.
Proof. exact (@LexF32Glue2.parse_integer_glue). Qed.
Print Assumptions C07_f32_parser_glue.

Theorem C07_f32_glue_spec : forall (E : env) (n : numlit) (positive : bool) (r : bytes) (o : nat) (p : bool) (d : N),
  num_ok n = true -> fw n r -> (length (render_abs n) < 100000000)%nat ->
  parse_integer_a E positive (mkSt (render_abs n ++ r) o p d) = parse_integer_s E positive (mkSt (render_abs n ++ r) o p d).
Proof. exact (@LexF32Glue2.C07_f32_glue_spec). Qed.
Print Assumptions C07_f32_glue_spec.

Theorem C07_f32_typed_glue : forall (E : env) (input : bytes), (zlen input <= 100000000)%Z ->
  from_input_typed E TF32 input = from_input_f32_a E input.
Proof. exact (@LexF32Glue2.from_input_typed_f32_glue). Qed.
Print Assumptions C07_f32_typed_glue.

Theorem C07_f32_model : forall (E : env) (n : numlit) (positive : bool) (r : bytes) (o : nat) (p : bool) (d : N),
  tm E = TEof -> num_ok n = true -> fw n r -> (length (render_abs n) < 100000000)%nat ->
  is_float_lit n ->
  let x := lit_real n in
  let run := parse_integer_a E positive (mkSt (render_abs n ++ r) o p d) in
  let s_end := pkd r (o + length (render_abs n)) d in
  ((Rabs (RNE32 x) < bpow radix2 128)%R /\
   exists f : b32, run = Ok (PF64 (b64_of_b32 (if positive then f else Bopp f)), s_end) /\
                   is_finite f = true /\ Bsign f = false /\ B2R f = RNE32 x)
  \/
  ((bpow radix2 128 <= Rabs (RNE32 x))%R /\ exists i, run = Err NumberOutOfRange i).
Proof. exact (@LexF32Glue2.C07_f32_model). Qed.
Print Assumptions C07_f32_model.

Theorem C07_f32_model_negint : forall (E : env) (n : numlit) (r : bytes) (o : nat) (p : bool) (d : N),
  tm E = TEof -> num_ok n = true -> fw n r -> (length (render_abs n) < 100000000)%nat ->
  int_syntax n = true -> (fst (lit_value n) <= Z.of_N u64_max)%Z ->
  (0 <=? wrap_i64 (- wrap_i64 (fst (lit_value n))))%Z = true ->
  exists f : b32,
    parse_integer_a E false (mkSt (render_abs n ++ r) o p d) = Ok (PF64 (b64_of_b32 (Bopp f)), pkd r (o + length (render_abs n)) d) /\
    is_finite f = true /\ Bsign f = false /\ B2R f = RNE32 (IZR (fst (lit_value n))).
Proof. exact (@LexF32Glue2.C07_f32_model_negint). Qed.
Print Assumptions C07_f32_model_negint.

From Coq Require Import String ZArith NArith List Bool Lia ZifyBool ZifyNat ZifyN.
From Flocq Require Import Core BinarySingleNaN.
From SJ Require Import Base.Bytes Base.FloatB Gen.LexTables Model.Num Model.Lex Model.LexAlgAst Gen.LexAlgTables Model.LexAlgEnv.
From SJ Require Import Proofs.LexExt Proofs.LexAlgSrc Proofs.LexAlgSrc2 Proofs.LexAlgSrc3.
From SJ Require Import Proofs.LexAlgSrc4.
Local Open Scope string_scope.
Local Open Scope list_scope.
Theorem C07_lexical_algorithm_is_source :
  (forall G : genv, forall n f, 0 <= n < 64 -> (2 <= f)%nat -> call f G "nth_bit" [VInt U64 n] = Ok (VInt U64 (2 ^ n), [])) /\
  (forall G : genv, forall n f, 0 <= n <= 64 -> (3 <= f)%nat -> call f G "lower_n_mask" [VInt U64 n] = Ok (VInt U64 (Z.of_N (lower_n_mask n)), [])) /\
  (forall G : genv, forall n f, 0 <= n <= 64 -> (5 <= f)%nat -> call f G "lower_n_halfway" [VInt U64 n] = Ok (VInt U64 (Z.of_N (lower_n_halfway n)), [])) /\
  (forall G : genv, forall bit n f, 0 <= n <= bit -> bit <= 64 -> (5 <= f)%nat -> call f G "internal_n_mask" [VInt U64 bit; VInt U64 n] = Ok (VInt U64 (Z.of_N (internal_n_mask bit n)), [])) /\
  (forall G : genv, forall fp shift f, ef_ok fp -> 0 <= shift < 64 -> i32_ok (exp fp + shift) -> (2 <= f)%nat -> call f G "shr" [ef_val fp; VInt I32 shift] = Ok (VUnit, [ef_val (shr fp shift)])) /\
  (forall G : genv, forall fp shift f, ef_ok fp -> 0 <= shift <= 64 -> i32_ok (exp fp + shift) -> (2 <= f)%nat -> call f G "overflowing_shr" [ef_val fp; VInt I32 shift] = Ok (VUnit, [ef_val (overflowing_shr fp shift)])) /\
  (forall G : genv, forall fp shift f, ef_ok fp -> 0 <= shift < 64 -> i32_ok (exp fp - shift) -> (2 <= f)%nat -> call f G "shl" [ef_val fp; VInt I32 shift] = Ok (VUnit, [ef_val (shl fp shift)])) /\
  (forall G : genv, forall v f, 0 <= v <= 18446744073709551615 -> (2 <= f)%nat -> call f G "into_i32" [VInt Usize v] = Ok (VInt I32 (into_i32 v), [])) /\
  (forall G : genv, forall e (integer_digits fraction_start : nat) f, i32_ok e -> 0 <= Z.of_nat integer_digits <= 18446744073709551615 -> 0 <= Z.of_nat fraction_start <= 18446744073709551615 -> (5 <= f)%nat -> call f G "scientific_exponent" [VInt I32 e; VInt Usize (Z.of_nat integer_digits); VInt Usize (Z.of_nat fraction_start)] = Ok (VInt I32 (scientific_exponent e integer_digits fraction_start), [])) /\
  (forall G : genv, forall e (fraction_digits truncated : nat) f, i32_ok e -> 0 <= Z.of_nat fraction_digits <= 18446744073709551615 -> 0 <= Z.of_nat truncated <= 18446744073709551615 -> (5 <= f)%nat -> call f G "mantissa_exponent" [VInt I32 e; VInt Usize (Z.of_nat fraction_digits); VInt Usize (Z.of_nat truncated)] = Ok (VInt I32 (mantissa_exponent e fraction_digits truncated), [])) /\
  (forall G : genv, forall (c : N) f, (c <= 255)%N -> (1 <= f)%nat -> call f G "to_digit" [VInt U8 (Z.of_N c)] = Ok (VOpt (if is_digit c then Some (VInt U32 (Z.of_N (digit_val c))) else None), [])) /\
  (forall G : genv, forall (m d : N) f, u64_ok m -> (d < 4294967296)%N -> (2 <= f)%nat -> call f G "add_digit" [VInt U64 (Z.of_N m); VInt U32 (Z.of_N d)] = Ok (VOpt (if (m * 10 + d <? two64N)%N then Some (VInt U64 (Z.of_N (m * 10 + d))) else None), [])) /\
  (forall G : genv, forall fp shift f, ef_ok fp -> 0 <= shift <= 64 -> i32_ok (exp fp + shift) -> (7 <= f)%nat -> call f G "round_nearest" [ef_val fp; VInt I32 shift] = Ok (let '(fp1, is_above, is_halfway) := round_nearest fp shift in (VTup (VB is_above) (VB is_halfway), [ef_val fp1]))) /\
  (forall G : genv, forall fp is_above is_halfway f, ef_ok fp -> (mant fp + 1 < two64N)%N -> (3 <= f)%nat -> call f G "tie_even" [ef_val fp; VB is_above; VB is_halfway] = Ok (VUnit, [ef_val (tie_even fp is_above is_halfway)])) /\
  (forall G : genv, forall fp shift f, ef_ok fp -> 1 <= shift <= 64 -> i32_ok (exp fp + shift) -> (9 <= f)%nat -> call f G "round_nearest_tie_even" [ef_val fp; VInt I32 shift] = Ok (VUnit, [ef_val (round_nearest_tie_even fp shift)])) /\
  (forall G : genv, forall fp shift f, ef_ok fp -> 0 <= shift <= 64 -> i32_ok (exp fp + shift) -> (5 <= f)%nat -> call f G "round_toward" [ef_val fp; VInt I32 shift] = Ok (VB (negb (N.land (mant fp) (lower_n_mask shift) =? 0)%N), [ef_val (overflowing_shr fp shift)])) /\
  (forall G : genv, forall v b f, (1 <= f)%nat -> call f G "downard" [v; VB b] = Ok (VUnit, [v])) /\
  (forall G : genv, forall fp shift f, ef_ok fp -> 0 <= shift <= 64 -> i32_ok (exp fp + shift) -> (7 <= f)%nat -> call f G "round_downward" [ef_val fp; VInt I32 shift] = Ok (VUnit, [ef_val (round_downward fp shift)])) /\
  (forall G : genv, forall fp f, ef_ok fp -> -2147483648 + 63 <= exp fp -> (4 <= f)%nat -> call f G "ExtendedFloat::normalize" [ef_val fp] = Ok (VInt U32 (snd (ef_normalize fp)), [ef_val (fst (ef_normalize fp))])) /\
  (forall G : genv, forall a b f, ef_ok a -> ef_ok b -> (two32N <= mant a)%N -> (two32N <= mant b)%N -> i32_ok (exp a + exp b) -> i32_ok (exp a + exp b + 64) -> (2 <= f)%nat -> call f G "ExtendedFloat::mul" [ef_val a; ef_val b] = Ok (ef_val (ef_mul a b), [])) /\
  (forall G : genv, forall a b f, ef_ok a -> ef_ok b -> (two32N <= mant a)%N -> (two32N <= mant b)%N -> i32_ok (exp a + exp b) -> i32_ok (exp a + exp b + 64) -> (4 <= f)%nat -> call f G "ExtendedFloat::imul" [ef_val a; ef_val b] = Ok (VUnit, [ef_val (ef_mul a b)])) /\
  (forall k : fkind, forall name algo n fp f, alg_spec (lex_genv k) name algo n -> algo_ok algo -> ef_ok fp -> exp fp + DEFAULT_SHIFT k + 1 <= 2147483647 -> (n + 4 <= f)%nat -> call f (lex_genv k) "round_to_float" [ef_val fp; VFn name] = Ok (VUnit, [ef_val (round_to_float k algo fp)])) /\
  (forall k : fkind, forall fp f, ef_ok fp -> (10 <= f)%nat -> call f (lex_genv k) "avoid_overflow" [ef_val fp] = Ok (VUnit, [ef_val (avoid_overflow k fp)])) /\
  (forall k : fkind, forall name algo n fp f, alg_spec (lex_genv k) name algo n -> algo_ok algo -> ef_ok fp -> -2147483648 + 63 <= exp fp -> exp fp + DEFAULT_SHIFT k + 1 <= 2147483647 -> (n + 11 <= f)%nat -> call f (lex_genv k) "round_to_native" [ef_val fp; VFn name] = Ok (VUnit, [ef_val (round_to_native k algo fp)])) /\
  (forall k : fkind, forall name algo n fp f, alg_spec (lex_genv k) name algo n -> algo_ok algo -> ef_ok fp -> -2147483648 + 63 <= exp fp -> exp fp + DEFAULT_SHIFT k + 1 <= 2147483647 -> (n + 12 <= f)%nat -> call f (lex_genv k) "ExtendedFloat::round_to_native" [ef_val fp; VFn name] = Ok (VUnit, [ef_val (round_to_native k algo fp)])) /\
  (forall k : fkind, forall fp f, ef_ok fp -> (4 <= f)%nat -> call f (lex_genv k) "into_float" [ef_val fp] = Ok (VF (FBits (Z.of_N (into_float_bits k fp))), [])) /\
  (forall k : fkind, forall fp f, ef_ok fp -> -2147483648 + 63 <= exp fp -> exp fp + DEFAULT_SHIFT k + 1 <= 2147483647 -> (22 <= f)%nat -> call f (lex_genv k) "ExtendedFloat::into_float" [ef_val fp] = Ok (VF (FBits (Z.of_N (ef_into_float k fp))), [])) /\
  (forall k : fkind, forall fp f, ef_ok fp -> -2147483648 + 63 <= exp fp -> exp fp + DEFAULT_SHIFT k + 1 <= 2147483647 -> (20 <= f)%nat -> call f (lex_genv k) "ExtendedFloat::into_downward_float" [ef_val fp] = Ok (VF (FBits (Z.of_N (ef_into_downward_float k fp))), [])) /\
  (forall G : genv, forall f, (1 <= f)%nat -> call f G "u64::error_scale" [] = Ok (VInt U32 (Z.of_N ERROR_SCALE), [])) /\
  (forall G : genv, forall f, (2 <= f)%nat -> call f G "u64::error_halfscale" [] = Ok (VInt U32 (Z.of_N ERROR_HALFSCALE), [])) /\
  (forall G : genv, forall (errors : N) fp extrabits f, (errors < two64N)%N -> ef_ok fp -> 0 <= extrabits <= 65 -> (8 <= f)%nat -> call f G "nearest_error_is_accurate" [VInt U64 (Z.of_N errors); ef_val fp; VInt U64 extrabits] = Ok (VB (nearest_error_is_accurate errors fp extrabits), [])) /\
  (forall k : fkind, forall (count : N) fp f, (count < two32N)%N -> ef_ok fp -> (10 <= f)%nat -> call f (lex_genv k) "u64::error_is_accurate" [VInt U32 (Z.of_N count); ef_val fp] = Ok (VB (error_is_accurate k count fp), [])) /\
  (forall k : fkind, forall (bits : N) f, fbits_ok k bits -> (1 <= f)%nat -> call f (lex_genv k) "Float::is_special" [VF (FBits (Z.of_N bits))] = Ok (VB (f_is_special k bits), [])) /\
  (forall k : fkind, forall (mantissa : N) exponent f, u64_ok mantissa -> i32_ok exponent -> (8 <= f)%nat -> res_bits (call f (lex_genv k) "fast_path" [VInt U64 (Z.of_N mantissa); VInt I32 exponent]) = Ok (some_bits (fast_path k mantissa exponent), [])) /\
  (forall k : fkind, forall fp exponent truncated f, ef_ok fp -> mant fp <> 0%N -> -1000000 <= exp fp <= 1000000 -> i32_ok exponent -> (20 <= f)%nat -> call f (lex_genv k) "multiply_exponent_extended" [ef_val fp; VInt I32 exponent; VB truncated] = Ok (let '(fp', valid) := multiply_exponent_extended k fp exponent truncated in (VB valid, [ef_val fp']))) /\
  (forall k : fkind, forall (mantissa : N) exponent truncated f, u64_ok mantissa -> mantissa <> 0%N -> i32_ok exponent -> (22 <= f)%nat -> call f (lex_genv k) "moderate_path" [VInt U64 (Z.of_N mantissa); VInt I32 exponent; VB truncated] = Ok (let '(fp, valid) := moderate_path k mantissa exponent truncated in (VTup (ef_val fp) (VB valid), []))) /\
  (forall k : fkind, forall (integer fraction : list N) (mantissa : N) exponent mantissa_exponent truncated f, u64_ok mantissa -> mantissa <> 0%N -> i32_ok exponent -> i32_ok mantissa_exponent -> (26 <= f)%nat -> call f (lex_genv k) "fallback_path" [VBytes integer; VBytes fraction; VInt U64 (Z.of_N mantissa); VInt I32 exponent; VInt I32 mantissa_exponent; VB truncated] = Ok (VF (FBits (Z.of_N (fallback_path k integer fraction mantissa exponent mantissa_exponent truncated))), [])).
Proof. exact (@LexAlgSrc4.lexical_algorithm_is_translated_source). Qed.
Print Assumptions C07_lexical_algorithm_is_source.

From Coq Require Import String ZArith Lia ZifyBool ZifyNat ZifyN.
From SJ Require Import Base.Bytes Base.FloatB Gen.Tables Model.Read Model.Num Model.NumF32 Model.NumParseAst Model.NumFrAst Gen.NumFrTables
  Proofs.NumInt Proofs.NumParseSrc Proofs.LexF32Glue Proofs.NumFrSrc.
From Flocq Require Import Core BinarySingleNaN.
From SJ Require Import Proofs.NumFrSrc2.
Local Open Scope string_scope.
Local Open Scope list_scope.
Theorem C07_long_literal_paths_are_source : forall (E : env), float_roundtrip (cf E) = true ->
  forall (positive : bool) (s : st) (fuel : nat),
  (forall zs pe k, (length (rest s) + 4 <= fuel)%nat ->
     xrun fuel E false NUMFR "parse_exponent_overflow" [XV (VB positive); XV (VB zs); XV (VB pe)] s k =
     liftS k (Num.parse_exponent_overflow E positive zs pe s)) /\
  (forall sig e k, (sig <= u64_max)%N -> (3 <= fuel)%nat ->
     xrun fuel E false NUMFR "f64_from_parts" [XV (VB positive); XV (VInt U64 (Z.of_N sig)); XV (VInt I32 e)] s k =
     liftS k (Num.f64_from_parts E positive sig e s)) /\
  (forall integer fraction e, (3 <= fuel)%nat ->
     xrun fuel E false NUMFR "f64_long_from_parts" [XV (VB positive); XV (VInt Usize (Z.of_nat (length integer))); XV (VInt I32 e)] s
       (integer ++ fraction) =
     liftS (integer ++ fraction) (Num.f64_long_from_parts E positive integer fraction e s)) /\
  (forall integer fraction, (length (rest s) + 16 <= fuel)%nat ->
     xrun fuel E false NUMFR "parse_long_exponent" [XV (VB positive); XV (VInt Usize (Z.of_nat (length integer)))] s (integer ++ fraction) =
     liftS (integer ++ fraction) (Num.parse_long_exponent E positive integer fraction s)) /\
  (forall integer fraction0, Z.of_nat (length integer + length fraction0 + length (rest s)) <= 18446744073709551615 ->
     (length (rest s) + 30 <= fuel)%nat ->
     xrun fuel E false NUMFR "parse_long_decimal" [XV (VB positive); XV (VInt Usize (Z.of_nat (length integer)))] s (integer ++ fraction0) =
     liftS ((integer ++ fraction0) ++ firstn (span_len is_digit (rest s)) (rest s)) (Num.parse_long_decimal E positive integer fraction0 s)) /\
  (forall sig k, (sig <= u64_max)%N -> Z.of_nat (length (rest s)) <= isize_max -> (length (rest s) + 44 <= fuel)%nat ->
     observe (xrun fuel E false NUMFR "parse_long_integer" [XV (VB positive); XV (VInt U64 (Z.of_N sig))] s k) =
     liftX (Num.parse_long_integer E positive sig s)) /\
  (forall sig e k, (sig <= u64_max)%N -> -2147483648 < e <= 0 -> Z.of_nat (length (rest s)) <= isize_max ->
     (length (rest s) + 34 <= fuel)%nat ->
     observe (xrun fuel E false NUMFR "parse_decimal_overflow" [XV (VB positive); XV (VInt U64 (Z.of_N sig)); XV (VInt I32 e)] s k) =
     liftX (Num.parse_decimal_overflow E positive sig e s)).
Proof. exact (@NumFrSrc2.numfr_model_is_translated_source). Qed.
Print Assumptions C07_long_literal_paths_are_source.

Theorem C07_long_literal_paths_f32_are_source : forall (E : env) (positive : bool) (s : st) (fuel : nat),
  (forall zs pe k, (length (rest s) + 4 <= fuel)%nat ->
     xrun fuel E true NUMFR "parse_exponent_overflow" [XV (VB positive); XV (VB zs); XV (VB pe)] s k =
     liftS k (Num.parse_exponent_overflow E positive zs pe s)) /\
  (forall sig e k, (sig <= u64_max)%N -> (3 <= fuel)%nat ->
     xrun fuel E true NUMFR "f64_from_parts" [XV (VB positive); XV (VInt U64 (Z.of_N sig)); XV (VInt I32 e)] s k =
     liftS k (f64_from_parts_s E positive sig e s)) /\
  (forall integer fraction e, (3 <= fuel)%nat ->
     xrun fuel E true NUMFR "f64_long_from_parts" [XV (VB positive); XV (VInt Usize (Z.of_nat (length integer))); XV (VInt I32 e)] s
       (integer ++ fraction) =
     liftS (integer ++ fraction) (f64_long_from_parts_s E positive integer fraction e s)) /\
  (forall integer fraction, (length (rest s) + 16 <= fuel)%nat ->
     xrun fuel E true NUMFR "parse_long_exponent" [XV (VB positive); XV (VInt Usize (Z.of_nat (length integer)))] s (integer ++ fraction) =
     liftS (integer ++ fraction) (parse_long_exponent_s E positive integer fraction s)) /\
  (forall integer fraction0, Z.of_nat (length integer + length fraction0 + length (rest s)) <= 18446744073709551615 ->
     (length (rest s) + 30 <= fuel)%nat ->
     xrun fuel E true NUMFR "parse_long_decimal" [XV (VB positive); XV (VInt Usize (Z.of_nat (length integer)))] s (integer ++ fraction0) =
     liftS ((integer ++ fraction0) ++ firstn (span_len is_digit (rest s)) (rest s)) (parse_long_decimal_s E positive integer fraction0 s)) /\
  (forall sig k, (sig <= u64_max)%N -> Z.of_nat (length (rest s)) <= isize_max -> (length (rest s) + 44 <= fuel)%nat ->
     observe (xrun fuel E true NUMFR "parse_long_integer" [XV (VB positive); XV (VInt U64 (Z.of_N sig))] s k) =
     liftX (parse_long_integer_s E positive sig s)) /\
  (forall sig e k, (sig <= u64_max)%N -> -2147483648 < e <= 0 -> Z.of_nat (length (rest s)) <= isize_max ->
     (length (rest s) + 34 <= fuel)%nat ->
     observe (xrun fuel E true NUMFR "parse_decimal_overflow" [XV (VB positive); XV (VInt U64 (Z.of_N sig)); XV (VInt I32 e)] s k) =
     liftX (parse_decimal_overflow_s E positive sig e s)).
Proof. exact (@NumFrSrc2.numfr_f32_model_is_translated_source). Qed.
Print Assumptions C07_long_literal_paths_f32_are_source.

Theorem C07_scratch_independent : forall (E : env) (sp positive : bool) (s : st) (fuel : nat) (k1 k2 : bytes),
  (forall sig, (sig <= u64_max)%N -> Z.of_nat (length (rest s)) <= isize_max -> (length (rest s) + 44 <= fuel)%nat ->
     observe (xrun fuel E sp NUMFR "parse_long_integer" [XV (VB positive); XV (VInt U64 (Z.of_N sig))] s k1) =
     observe (xrun fuel E sp NUMFR "parse_long_integer" [XV (VB positive); XV (VInt U64 (Z.of_N sig))] s k2)) /\
  (forall sig e, (sig <= u64_max)%N -> -2147483648 < e <= 0 -> Z.of_nat (length (rest s)) <= isize_max ->
     (length (rest s) + 34 <= fuel)%nat ->
     observe (xrun fuel E sp NUMFR "parse_decimal_overflow" [XV (VB positive); XV (VInt U64 (Z.of_N sig)); XV (VInt I32 e)] s k1) =
     observe (xrun fuel E sp NUMFR "parse_decimal_overflow" [XV (VB positive); XV (VInt U64 (Z.of_N sig)); XV (VInt I32 e)] s k2)) /\
  (forall sig e, (sig <= u64_max)%N -> (3 <= fuel)%nat ->
     observe (xrun fuel E sp NUMFR "f64_from_parts" [XV (VB positive); XV (VInt U64 (Z.of_N sig)); XV (VInt I32 e)] s k1) =
     observe (xrun fuel E sp NUMFR "f64_from_parts" [XV (VB positive); XV (VInt U64 (Z.of_N sig)); XV (VInt I32 e)] s k2)) /\
  (forall zs pe, (length (rest s) + 4 <= fuel)%nat ->
     observe (xrun fuel E sp NUMFR "parse_exponent_overflow" [XV (VB positive); XV (VB zs); XV (VB pe)] s k1) =
     observe (xrun fuel E sp NUMFR "parse_exponent_overflow" [XV (VB positive); XV (VB zs); XV (VB pe)] s k2)).
Proof. exact (@NumFrSrc2.numfr_scratch_independent). Qed.
Print Assumptions C07_scratch_independent.

