(* Properties/C14.v — hostile input cannot make the (modelled) deserializer panic or fail to terminate; nesting limit;
   depth budget restored (model level).  PARTIAL by nature: the model exhibits logical panics (unwrap / unreachable! / overflow
   of the recursion counter / out-of-range code point) and non-termination (fuel), NOT real stack consumption, undefined
   behaviour in `unsafe` blocks or allocator behaviour — those are exercised on the real code by the check. *)
From SJ Require Import Base.Bytes Base.FloatB Gen.Tables Model.Read Model.Str Model.Num Model.Value Model.De Model.Ignore Model.Stream.
From SJ Require Import Proofs.Total.
From SJ Require Import Model.Ty Model.DeTyped Model.StreamTyped Proofs.TypedDepth Proofs.TypedTotal Proofs.StrSource.
From SJ Require Import Base.Utf8.

(* termination: the explicit fuel is never exhausted, for every environment (any reader kind, EOF or failing reader, any cfg) *)
Theorem C14_total_value : forall E bs, from_input E bs <> OutOfFuel.
Proof. exact from_input_no_fuel_strong. Qed.
Theorem C14_total_ignored : forall E bs, ignored_from_input E bs <> OutOfFuel.
Proof. exact ignored_from_input_no_fuel. Qed.
Theorem C14_total_raw : forall E s, raw_value E s <> OutOfFuel.
Proof. exact raw_value_no_fuel. Qed.
Theorem C14_float_loop_terminates : forall (sig : N) (e : Z), (sig < two64)%N -> f64_loop 4 (b64_of_Z (Z.of_N sig)) e <> OutOfFuel.
Proof. exact f64_loop_fuel. Qed.

(* no panic: no modelled unwrap/unreachable!/overflow is reachable from any input *)
Theorem C14_no_panic_value : forall E bs, from_input E bs <> Panic.
Proof. exact from_input_no_panic_strong. Qed.
Theorem C14_no_panic_ignored : forall E bs, ignored_from_input E bs <> Panic.
Proof. exact ignored_from_input_no_panic. Qed.
Theorem C14_no_panic_raw : forall E s, raw_value E s <> Panic.
Proof. exact raw_value_no_panic. Qed.
Theorem C14_no_panic_any_budget : forall fuel E s,
  (limit_disabled (cf E) = true \/ (1 <= depth s <= 255)%N) -> parse_value fuel E s <> Panic.
Proof. exact parse_value_no_panic_strong. Qed.

(* nesting: 128 or more opening brackets are rejected with RecursionLimitExceeded whatever follows; 127 are accepted *)
Theorem C14_nesting_limit : forall E k tail, limit_disabled (cf E) = false -> (128 <= k)%nat ->
  exists i, from_input E (repeat 91%N k ++ tail) = Err RecursionLimitExceeded i.
Proof. exact nesting_limit_strong. Qed.
(* the initial budget comes from the generated table: this breaks if `remaining_depth: 128` changes in the source *)
Theorem C14_initial_budget : DEPTH0 = 128%N.
Proof. reflexivity. Qed.

(* the depth budget is fully restored after each successfully read value; the cursor only moves forward *)
Theorem C14_depth_restored : forall fuel E s v s', parse_value fuel E s = Ok (v, s') -> depth s' = depth s.
Proof. exact parse_value_depth. Qed.
Theorem C14_offsets : forall fuel E s v s', parse_value fuel E s = Ok (v, s') ->
  exists k, rest s = firstn k (rest s) ++ rest s' /\ off s' = (off s + k)%nat /\ (k <= length (rest s))%nat.
Proof. exact parse_value_offsets. Qed.
Theorem C14_skip_offsets : forall E s s', ignore_value E s = Ok s' ->
  (exists k, rest s = firstn k (rest s) ++ rest s' /\ off s' = (off s + k)%nat /\ (1 <= k <= length (rest s))%nat) /\ depth s' = depth s.
Proof. exact ignore_value_offsets. Qed.

(* stream iteration: next() never panics / runs out of fuel *)
Theorem C14_stream : forall E itemp ss, (itemp = value_item \/ itemp = ignored_item) ->
  (limit_disabled (cf E) = true \/ (1 <= depth (ss_st ss) <= 255)%N) ->
  fst (stream_next E itemp ss) <> Some IBad.
Proof. exact stream_next_no_bad_strong. Qed.

(* typed targets: every typed entry point that uses check_recursion! (Vec, tuple, tuple struct, positional struct, map, struct by name,
   enum newtype wrapper; Option/newtype pass through) rejects a document nested n containers deep, n > budget, with RecursionLimitExceeded
   (TFuel = explicit fuel exhausted; the typed development does not yet carry a fuel-sufficiency theorem) *)
Theorem C14_typed_depth : forall n t doc E fuel rest off pk k,
  nested n t doc -> limit_disabled (cf E) = false -> (k < n)%nat -> (k < 255)%nat ->
  let r := de_typed fuel E t (mkSt (doc ++ rest) off pk (N.of_nat (S k))) in
  r = TFuel \/ exists i, r = TErr RecursionLimitExceeded i.
Proof. exact typed_depth. Qed.

(* typed targets: termination, no panic, depth budget restored, cursor moves forward — for every type program and input *)
Theorem C14_typed_total : forall E t bs, from_input_typed E t bs <> TFuel.
Proof. exact from_input_typed_no_fuel. Qed.
Theorem C14_typed_no_panic : forall E t bs, from_input_typed E t bs <> TPanic.
Proof. exact from_input_typed_no_panic. Qed.
Theorem C14_typed_no_panic_any_budget : forall fuel E t s,
  (limit_disabled (cf E) = true \/ (1 <= depth s <= 255)%N) -> de_typed fuel E t s <> TPanic.
Proof. exact de_typed_no_panic. Qed.
Theorem C14_typed_depth_restored : forall fuel E t s d s', de_typed fuel E t s = TOk (d, s') -> depth s' = depth s.
Proof. exact de_typed_depth_restored. Qed.
Theorem C14_typed_offsets : forall fuel E t s d s', de_typed fuel E t s = TOk (d, s') ->
  exists k, rest s = firstn k (rest s) ++ rest s' /\ off s' = (off s + k)%nat /\ (k <= length (rest s))%nat.
Proof. exact de_typed_offsets. Qed.
Theorem C14_typed_stream : forall E t ss,
  (limit_disabled (cf E) = true \/ (1 <= depth (ss_st ss) <= 255)%N) -> fst (stream_next_typed E t ss) <> Some TIBad.
Proof. exact stream_next_typed_no_bad. Qed.

(* every String (and object key) returned is valid UTF-8: the slice/reader sources validate, and the &str source (from_utf8_unchecked)
   is safe on valid UTF-8 input *)
Theorem C14_strings_utf8_slice : forall cf bs v, from_input (mkEnv RSlice TEof cf) bs = Ok v -> value_strings_utf8 v = true.
Proof. exact from_input_slice_strings_utf8. Qed.
Theorem C14_strings_utf8_str : forall cf bs v, utf8_valid bs = true ->
  from_input (mkEnv RStr TEof cf) bs = Ok v -> value_strings_utf8 v = true.
Proof. exact from_input_str_strings_utf8. Qed.

Print Assumptions C14_total_value.
Print Assumptions C14_typed_depth.
Print Assumptions C14_strings_utf8_str.
Print Assumptions C14_typed_total.
Print Assumptions C14_typed_no_panic.
Print Assumptions C14_no_panic_value.
Print Assumptions C14_no_panic_ignored.
Print Assumptions C14_nesting_limit.
Print Assumptions C14_depth_restored.
Print Assumptions C14_stream.
