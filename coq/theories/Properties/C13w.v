(* Properties/C13w.v — writer half of C13 (to be merged into Properties/C13.v). *)
From SJ Require Import Base.Bytes Base.Utf8 Model.Read Model.Sval Model.Ser Spec.Layout Proofs.SerWriter Proofs.SerMain.

(* every buffer the serialiser hands to write_all is valid UTF-8 on its own — on the whole trace, whatever the outcome *)
Theorem C13_buf_utf8 : forall cf fmt32 fmt64 F v, ryu_json fmt32 fmt64 ->
  (forall ind, F = Pretty ind -> utf8_valid ind = true) -> wfs v = true ->
  Forall (fun b => utf8_valid b = true) (fst (serialize_trace cf fmt32 fmt64 F v)).
Proof. exact C13_buf_utf8_main'. Qed.
Print Assumptions C13_buf_utf8.

(* std's write_all over a writer taking arbitrary positive chunk sizes, interrupted at will, failing with [kind] once k bytes were
   accepted: the accepted bytes are a prefix of the fault-free output; either the run is the fault-free one, or it ends in Err (Io kind) *)
Theorem C13_write_prefix : forall (A : Type) (w : writer) (t : tr A), accepted w = [] ->
  let w' := fst (run_writer w t) in
  let r := snd (run_writer w t) in
  is_prefix (accepted w') (concat (fst t))
  /\ ((r = snd t /\ accepted w' = concat (fst t))
      \/ (exists k kind, fail_at w = Some (k, kind) /\ r = Err (Io kind) O /\ (k <= length (accepted w'))%nat)).
Proof. exact (@C13_write_prefix_main). Qed.
Print Assumptions C13_write_prefix.

Theorem C13_no_fault : forall (A : Type) (w : writer) (t : tr A), accepted w = [] -> fail_at w = None ->
  snd (run_writer w t) = snd t /\ accepted (fst (run_writer w t)) = concat (fst t).
Proof. exact (@C13_no_fault_main). Qed.
Print Assumptions C13_no_fault.
