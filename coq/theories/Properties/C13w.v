(* Properties/C13w.v — writer half of C13 (to be merged into Properties/C13.v). *)
From SJ Require Import Base.Bytes Base.Utf8 Model.Read Model.Sval Model.Ser Spec.Layout Proofs.SerWriter Proofs.SerMain.

(* every buffer the serialiser hands to write_all is valid UTF-8 on its own — on the whole trace, whatever the outcome *)
Theorem C13_buf_utf8 : forall cf fmt32 fmt64 F v, ryu_json fmt32 fmt64 ->
  (forall ind, F = Pretty ind -> utf8_valid ind = true) -> wfs v = true ->
  Forall (fun b => utf8_valid b = true) (fst (serialize_trace cf fmt32 fmt64 F v)).
Proof. exact C13_buf_utf8_main'. Qed.
Print Assumptions C13_buf_utf8.

(* std's write_all over a writer taking arbitrary positive chunk sizes, interrupted at will, failing with [kind] once k bytes were
   accepted: the accepted bytes are a prefix of the fault-free output; either the run is the fault-free one, or it ends in Err (Io kind) *)
Theorem C13_write_prefix : forall (A : Type) (w : writer) (t : tr A), accepted w = [] ->
  let w' := fst (run_writer w t) in
  let r := snd (run_writer w t) in
  is_prefix (accepted w') (concat (fst t))
  /\ ((r = snd t /\ accepted w' = concat (fst t))
      \/ (exists k kind, fail_at w = Some (k, kind) /\ r = Err (Io kind) O /\ (k <= length (accepted w'))%nat)).
Proof. exact (@C13_write_prefix_main). Qed.
Print Assumptions C13_write_prefix.

Theorem C13_no_fault : forall (A : Type) (w : writer) (t : tr A), accepted w = [] -> fail_at w = None ->
  snd (run_writer w t) = snd t /\ accepted (fst (run_writer w t)) = concat (fst t).
Proof. exact (@C13_no_fault_main). Qed.
Print Assumptions C13_no_fault.

(* ---- EVERY writer (Model/WriterGen.v: an oracle answering each write call from the whole history — one-shot failures, all-or-nothing sinks, Ok(0),
        adversarial behaviour): accepted bytes are a prefix of the fault-free output, the failing call is the LAST call made, the old writer model is an instance ---- *)
From SJ Require Import Base.Bytes Base.Utf8 Model.Read Model.Sval Model.Ser Model.WriterGen Spec.Layout Proofs.SerWriter Proofs.SerMain.
From Coq Require Import Lia.
From SJ Require Import Proofs.WriterGenProps.
Theorem C13g_prefix : forall {A} (o : oracle) (fuel : nat) (t : tr A),  let st' := fst (grun_writer fuel o g0 t) in
  let r := snd (grun_writer fuel o g0 t) in
  is_prefix (gacc st') (concat (fst t))
  /\ ((r = snd t /\ gacc st' = concat (fst t) /\ gwa st' = rev (fst t) /\ log_good o (ghist st'))
      \/ (exists done b rest p s, fst t = done ++ b :: rest /\ b = p ++ s /\ s <> []
            /\ gacc st' = concat done ++ p /\ gwa st' = rev (done ++ [b]) /\ stopped o (ghist st') s r)).
Proof. exact (@WriterGenProps.C13g_prefix). Qed.
Print Assumptions C13g_prefix.

Theorem C13g_error_kind : forall {A} (o : oracle) (fuel : nat) (t : tr A),  let st' := fst (grun_writer fuel o g0 t) in
  let r := snd (grun_writer fuel o g0 t) in
  forall h2 s h1, ghist st' = h2 ++ s :: h1 ->
    s <> []
    /\ (forall kind, o h1 s = RFail kind -> h2 = [] /\ r = Err (Io kind) O)
    /\ (o h1 s = RAccept 0 -> h2 = [] /\ r = Err (Io KIND_WRITE_ZERO) O)
    /\ (forall n, o h1 s = RAccept n -> length s < n -> h2 = [] /\ r = Panic).
Proof. exact (@WriterGenProps.C13g_error_kind). Qed.
Print Assumptions C13g_error_kind.

Theorem C13g_no_fault : forall {A} (o : oracle) (K fuel : nat) (t : tr A),  never_bad o -> interrupts_bounded o K -> (forall b, In b (fst t) -> S K * length b <= fuel) ->
  let st' := fst (grun_writer fuel o g0 t) in
  snd (grun_writer fuel o g0 t) = snd t /\ gacc st' = concat (fst t) /\ gwa st' = rev (fst t).
Proof. exact (@WriterGenProps.C13g_no_fault). Qed.
Print Assumptions C13g_no_fault.

Theorem C13g_refines_old : forall {A} (w : writer) (fuel : nat) (t : tr A),  (forall b, In b (fst t) -> length (sched w) + length b < fuel) ->
  let g := grun_writer fuel (oracle_of_writer w) (gstart (accepted w)) t in
  gacc (fst g) = accepted (fst (run_writer w t))
  /\ snd g = snd (run_writer w t)
  /\ replay w (ghist (fst g)) = fst (run_writer w t).
Proof. exact (@WriterGenProps.C13g_refines_old). Qed.
Print Assumptions C13g_refines_old.

Theorem C13g_buf_utf8 : forall cf fmt32 fmt64 F v (o : oracle) (fuel : nat), ryu_json fmt32 fmt64 ->
  (forall ind, F = Pretty ind -> utf8_valid ind = true) -> wfs v = true ->
  let st' := fst (grun_writer fuel o g0 (serialize_trace cf fmt32 fmt64 F v)) in
  Forall (fun b => utf8_valid b = true) (gwa st')
  /\ Forall (fun x => exists b, utf8_valid b = true /\ suffix_of b x) (ghist st').
Proof. exact (@WriterGenProps.C13g_buf_utf8). Qed.
Print Assumptions C13g_buf_utf8.


(* ---- the harness's fault-injecting writer as a state machine (Model/WriterMachine.v mirrors harness/src/rw.rs ChunkWriter::write: persistent, one-shot, all-or-nothing
        sink, cyclic short-write schedules with Interrupted): it is an oracle instance, so the general theorems apply; the extracted machine runs against the crate ---- *)
From SJ Require Import Base.Bytes Base.Utf8 Model.Read Model.Sval Model.Ser Model.WriterGen Model.WriterMachine
  Spec.Layout Proofs.SerWriter Proofs.SerMain Proofs.WriterGenProps.
From SJ Require Extract.Driver Extract.Driver_ser Extract.Driver_wgen.
From Coq Require Import Lia.
From SJ Require Import Proofs.WriterMachineProps.
Theorem C13m_machine_is_oracle : forall {A St} (m : wmachine St) (fuel : nat) (t : tr A),  mrun fuel m t = mview m (grun_writer fuel (oracle_of_machine m) g0 t).
Proof. exact (@WriterMachineProps.mrun_is_grun). Qed.
Print Assumptions C13m_machine_is_oracle.

Theorem C13m_chunkwriter_spec : forall {A} p fuel (t : tr A), sched_ok (p_sched p) = true -> cw_fuel p (fst t) <= fuel ->
  let x := cw_run p fuel t in
  cr_after x = 0 /\ is_prefix (cr_accepted x) (concat (fst t))
  /\ ((cr_fired x = false /\ cr_result x = snd t /\ cr_accepted x = concat (fst t))
      \/ (cr_fired x = true /\ cr_result x = Err (Io (p_kind p)) O)).
Proof. exact (@WriterMachineProps.cw_run_spec). Qed.
Print Assumptions C13m_chunkwriter_spec.

Theorem C13m_failing_call_is_last : forall {A} p fuel (t : tr A),  let s := fst (fst (mrun fuel (cw_machine p) t)) in
  let r := snd (mrun fuel (cw_machine p) t) in
  forall h2 b h1, c_buffers s = h2 ++ b :: h1 ->
  forall kind, cwo p h1 b = RFail kind -> h2 = [] /\ kind = p_kind p /\ r = Err (Io kind) O /\ c_fired s = true.
Proof. exact (@WriterMachineProps.cw_failing_call_is_last). Qed.
Print Assumptions C13m_failing_call_is_last.

Theorem C13m_persistent_is_old : forall {A} (p : cwp) (sc : list nat) (fuel : nat) (t : tr A),  p_cap p = None -> sched_ok (p_sched p) = true -> cw_fuel p (fst t) <= fuel ->
  let fa := match p_fail_at p with Some k => Some (k, p_kind p) | None => None end in
  cr_accepted (cw_run p fuel t) = accepted (fst (run_writer (mkW [] sc fa) t))
  /\ cr_result (cw_run p fuel t) = snd (run_writer (mkW [] sc fa) t).
Proof. exact (@WriterMachineProps.machine_persistent_is_old). Qed.
Print Assumptions C13m_persistent_is_old.

