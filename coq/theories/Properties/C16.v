(* Properties/C16.v — from_value agrees with the text deserialiser (model level).  Pinned statements only.
   Models: Model/ValueDe.v ([from_value_owned] = `impl Deserializer for Value`, [from_value_ref] = `impl Deserializer for &Value`,
   both driven by the universal seed of DESIGN.md A.7) and Model/DeTyped.v ([from_input_typed] = from_str / from_slice through the
   same seed).  The extracted model is run against the real crate by tools/checks/fv.py, which also evaluates the property directly
   (three-way: from_value, by reference, from_str on to_string) for every type program, including those outside [agree_ty].
   PARTIAL: C16_agree_partial covers the type programs of [agree_ty] (bool, unit, unit struct, String, char, 8..64-bit integers,
   f64, serde_json::Value, IgnoredAny, Option, newtype struct, Vec, tuple, tuple struct — nested arbitrarily) in builds without
   arbitrary_precision; maps, structs, enums, byte buffers, 128-bit integers and arbitrary_precision numbers are checked on the
   implementation only.  "Fails" on the text side means "does not succeed". *)
From SJ Require Import Base.Bytes Base.FloatB Model.Read Model.Value Model.De Model.Sval Model.Ser Model.ValueSer
  Spec.Syntax Spec.Layout Proofs.SerValue Proofs.SerMain.
From SJ Require Import Model.Ty Model.DeTyped Model.ValueDe Proofs.ValueDeRef Proofs.ValueDeAgree Proofs.ValueDeText.
Open Scope N_scope.

(* The two Deserializer impls of src/value/de.rs give the same outcome for every owned target type (a type program that never asks
   for a borrowed &str): the same error — code and position —, or the same data up to which strings were handed over borrowed.
   All type programs, all Values (well-formed or not), all configurations. *)
Theorem C16_owned_ref : forall cf fx t v, owned_ty t = true ->
  same_mod_borrow (from_value_owned cf fx t v) (from_value_ref cf fx t v).
Proof. exact owned_ref_agree. Qed.
Print Assumptions C16_owned_ref.

(* from_value::<T>(v) against from_str::<T>(to_string(&v)): the text the serializer prints for a well-formed Value (valid UTF-8,
   finite floats, integers in range, distinct keys in the map's order), nested at most 127 deep, is read by the typed text
   deserializer with the same outcome — the same datum, or no success on either side. *)
Theorem C16_agree_partial : forall cf fx fmt32 fmt64 t v,
  arbitrary_precision cf = false -> ryu_json fmt32 fmt64 -> ryu_reads_back_value cf fmt64 ->
  agree_ty t = true -> wf_value cf v = true ->
  exists bufs c, serialize cf fmt32 fmt64 Compact (sval_of_value v) = Ok bufs /\ concat bufs = render c /\
    ((limit_disabled cf = false -> (cdepth c <= 127)%nat) ->
     agree (from_value_owned cf fx t v) (from_input_typed (mkEnv RSlice TEof cf) t (concat bufs))).
Proof. exact agree_text_partial. Qed.
Print Assumptions C16_agree_partial.

(* the hypotheses are satisfiable and the statements say what they should *)
Definition C16_cfd : cfg := mkCfg false false false false.
Definition C16_cfa : cfg := mkCfg false false true false.
Definition C16_fx0 : fenv := mkFenv (fun _ => []) (fun _ => []).

Example C16_ex_owned_claim : owned_ty (TMap (KInt I8) (TStruct [([97], TOption TStr); ([98], TEnum [([65], VUnit); ([66], VTuple [TBytes; TF64])])])) = true.
Proof. reflexivity. Qed.
Example C16_ex_agree_claim : agree_ty (TSeq (TTuple [TOption (TInt I8); TNewtype TStr; TValue; TIgnored; TTupleStruct [TBool; TF64; TUnit; TChar]])) = true.
Proof. reflexivity. Qed.
(* a borrowed &str separates the two impls, hence [owned_ty] *)
Example C16_ex_borrowed_str :
  from_value_owned C16_cfd C16_fx0 TBorrowedStr (VStr [97]) = VErr (Message MInvalidType) 0 0
  /\ from_value_ref C16_cfd C16_fx0 TBorrowedStr (VStr [97]) = VOk (DStr [97] true).
Proof. split; reflexivity. Qed.
(* struct from an object with an unknown member / positionally; enum as single-key object, two-key object rejected; numeric keys *)
Example C16_ex_struct_obj :
  from_value_owned C16_cfd C16_fx0 (TStruct [([97], TInt I8); ([98], TOption TStr)]) (VObj [([97], VNum (NPos 5)); ([99], VArr [])])
  = VOk (DStruct [DInt 5; DNone]).
Proof. vm_compute. reflexivity. Qed.
Example C16_ex_struct_arr :
  from_value_ref C16_cfd C16_fx0 (TStruct [([97], TInt I8); ([98], TOption TStr)]) (VArr [VNum (NPos 5); VStr [120]])
  = VOk (DStruct [DInt 5; DSome (DStr [120] true)]).
Proof. vm_compute. reflexivity. Qed.
Example C16_ex_enum_one_key :
  from_value_owned C16_cfd C16_fx0 (TEnum [([97], VUnit); ([98], VNewtype (TInt I8))]) (VObj [([98], VNum (NPos 7))]) = VOk (DVariant [98] (DInt 7)).
Proof. vm_compute. reflexivity. Qed.
Example C16_ex_enum_two_keys :
  from_value_owned C16_cfd C16_fx0 (TEnum [([97], VUnit); ([98], VNewtype (TInt I8))]) (VObj [([98], VNum (NPos 7)); ([97], VNull)])
  = VErr (Message MInvalidValue) 0 0.
Proof. vm_compute. reflexivity. Qed.
Example C16_ex_int_keys :
  from_value_owned C16_cfd C16_fx0 (TMap (KInt I8) TBool) (VObj [([45;49;50;56], VBool true); ([49;50;55], VBool false)])
  = VOk (DMap [(DInt (-128), DBool true); (DInt 127, DBool false)]).
Proof. vm_compute. reflexivity. Qed.
Example C16_ex_int_key_range :     (* the key "128": the error carries its position in the key text *)
  from_value_owned C16_cfd C16_fx0 (TMap (KInt I8) TBool) (VObj [([49;50;56], VBool true)]) = VErr (Message MInvalidValue) 1 3.
Proof. vm_compute. reflexivity. Qed.
Example C16_ex_tuple_extra :
  from_value_owned C16_cfd C16_fx0 (TTuple [TInt I8; TStr]) (VArr [VNum (NPos 1); VStr [120]; VNull]) = VErr (Message MInvalidLength) 0 0.
Proof. vm_compute. reflexivity. Qed.
(* known finding F12 (arbitrary_precision): the literal -0 in a Value is the integer 0 for a signed 8..64-bit target ... *)
Example C16_ex_F12_neg_zero : from_value_owned C16_cfa C16_fx0 (TInt I8) (VNum (NLit [45;48])) = VOk (DInt 0).
Proof. vm_compute. reflexivity. Qed.
(* ... while the text route rejects it (the float negative zero is not an integer) *)
Example C16_ex_F12_text : from_input_typed (mkEnv RSlice TEof C16_cfa) (TInt I8) [45;48] = TErr (Message MInvalidType) 2.
Proof. vm_compute. reflexivity. Qed.
(* F20 (fixed): a literal beyond the f64 range is an error through a Value as well *)
Example C16_ex_F20_overflow : from_value_owned C16_cfa C16_fx0 TF64 (VNum (NLit [49;101;57;57;57])) = VErr NumberOutOfRange 0 0.
Proof. vm_compute. reflexivity. Qed.

(* ---- the FULL universe (Proofs/ValueDeAgreeKey/Map/Struct/Enum/Misc.v): maps with every key type but f32 (String, char, bool, the twelve
        integer widths, f64, Option / newtype wrappers, unit-variant enums), structs given as objects or arrays (unknown members skipped, missing
        Option fields, duplicates), externally tagged enums with all four variant kinds, byte buffers, 128-bit integers — all three routes agree.
        [claimb] is the computable predicate that is false exactly on the two shapes the property excludes (a zero-length tuple variant on `[]`,
        a struct variant written as an array), wherever the seed meets them; [ryu_float_form] (needed for the 128-bit targets only): the float
        printer always writes a fraction or an exponent, as ryu does. *)
From SJ Require Import Proofs.ValueDeAgreeKey Proofs.ValueDeAgreeMap Proofs.ValueDeAgreeStruct Proofs.ValueDeAgreeEnum Proofs.ValueDeAgreeMisc.

Theorem C16_three_way : forall cf fx fmt32 fmt64 w128 t v,
  arbitrary_precision cf = false -> ryu_json fmt32 fmt64 -> ryu_reads_back_value cf fmt64 -> (w128 = true -> ryu_float_form fmt64) ->
  agree_ty_full w128 t = true -> wf_value cf v = true -> claimb (value_de_fuel t) t v = true ->
  exists bufs c, serialize cf fmt32 fmt64 Compact (sval_of_value v) = Ok bufs /\ concat bufs = render c /\
    ((limit_disabled cf = false -> (cdepth c <= 127)%nat) ->
     agree (from_value_owned cf fx t v) (from_input_typed (mkEnv RSlice TEof cf) t (concat bufs))
     /\ agree (from_value_ref cf fx t v) (from_input_typed (mkEnv RSlice TEof cf) t (concat bufs))
     /\ same_mod_borrow (from_value_owned cf fx t v) (from_value_ref cf fx t v)).
Proof. exact ValueDeAgreeMisc.C16_three_way. Qed.
Print Assumptions C16_three_way.

(* the two excluded shapes are genuine disagreements of the two routes (and claimb is false on them) *)
Example C16_excluded_tuple0_variant :
  from_value_owned ex_cfd ex_fx0 (TEnum [([86], VTuple [])]) (VObj [([86], VArr [])]) = VErr (Message MInvalidType) 0 0
  /\ from_input_typed (mkEnv RSlice TEof ex_cfd) (TEnum [([86], VTuple [])]) [123; 34; 86; 34; 58; 91; 93; 125] = TOk (DVariant [86] (DSeq []))
  /\ claimb (value_de_fuel (TEnum [([86], VTuple [])])) (TEnum [([86], VTuple [])]) (VObj [([86], VArr [])]) = false.
Proof. exact C16_ex_tuple0_variant. Qed.
Example C16_excluded_struct_variant_array :
  from_value_owned ex_cfd ex_fx0 (TEnum [([86], VStruct [([120], TBool)])]) (VObj [([86], VArr [VBool true])]) = VErr (Message MInvalidType) 0 0
  /\ from_input_typed (mkEnv RSlice TEof ex_cfd) (TEnum [([86], VStruct [([120], TBool)])]) [123; 34; 86; 34; 58; 91; 116; 114; 117; 101; 93; 125]
     = TOk (DVariant [86] (DStruct [DBool true]))
  /\ claimb (value_de_fuel (TEnum [([86], VStruct [([120], TBool)])])) (TEnum [([86], VStruct [([120], TBool)])]) (VObj [([86], VArr [VBool true])]) = false.
Proof. exact C16_ex_struct_variant_array. Qed.
(* the hypotheses are satisfiable and the theorem is about something: a run of both routes on a document with an i128 key, a struct with a
   missing Option field and an unknown member, a tuple variant holding a byte buffer and a u128 *)
Example C16_full_not_vacuous : ryu_float_form (fun _ => [49; 101; 49; 54]).
Proof. exact ryu_float_form_instance. Qed.

(* ---- arbitrary_precision (Proofs/ValueDeAgreeAp*.v): the same agreement for Values whose Numbers are literals, with the known disagreements as explicit decidable
        exclusions in [claim_ap] — F12b (-0 into a signed 8..64-bit target), F19 (a target that IS a Value re-spells non-canonical literals: C16_ap_value_respelled says
        exactly how), the private token as first key (F23), f64 only under float_roundtrip; every exclusion has a vm_compute witness in the proof files ---- *)
From SJ Require Import Base.Bytes Base.Utf8 Base.FloatB Gen.Tables
  Model.Read Model.Str Model.Num Model.NumF32 Model.Value Model.De Model.Ignore Model.Ty Model.NumberM Model.DeTyped Model.ValueDe
  Spec.Syntax Spec.Denote Proofs.GrammarIgnore Proofs.GrammarValueComplete Proofs.SerValue Proofs.GrammarValueBase Proofs.GrammarStr Proofs.GrammarNum
  Proofs.ValueDeRef Proofs.ValueDeAgree Proofs.ValueDeText Proofs.ValueDeAgreeKey Proofs.ValueDeAgreeMap Proofs.ValueDeAgreeMisc.
From SJ Require Proofs.NumInt Proofs.TypedInt.
From SJ Require Import Proofs.ApNumber Proofs.ApNumberFloat Proofs.ValueInt Proofs.LexGlue Proofs.LexOracle Proofs.LexC07 Proofs.FloatDefault.
From SJ Require Model.Sval Model.Ser Model.ValueSer Spec.Layout Proofs.SerToValueAp.
From Coq Require Import Reals Lra.
From Flocq Require Import Core BinarySingleNaN.
Require Import Lia ZifyBool ZifyNat ZifyN.
From SJ Require Import Proofs.ValueDeAgreeAp.
Theorem C16_ap_scalars : forall cf fx t n, arbitrary_precision cf = true -> num_ok n = true -> scalar_ty t = true ->
  (scalar_has_f64 t = true -> float_roundtrip cf = true) ->
  scalar_excluded t (render_num n) = false ->
  let v := VNum (NLit (render_num n)) in
  agree (from_value_owned cf fx t v) (from_input_typed (mkEnv RSlice TEof cf) t (render_num n))
  /\ agree (from_value_ref cf fx t v) (from_input_typed (mkEnv RSlice TEof cf) t (render_num n))
  /\ same_mod_borrow (from_value_owned cf fx t v) (from_value_ref cf fx t v).
Proof. exact (@ValueDeAgreeAp.C16_ap_scalars). Qed.
Print Assumptions C16_ap_scalars.

From SJ Require Import Base.Bytes Base.Utf8 Base.FloatB Gen.Tables
  Model.Read Model.Str Model.Num Model.NumF32 Model.Value Model.De Model.Ignore Model.Ty Model.NumberM Model.DeTyped Model.ValueDe
  Spec.Syntax Spec.Denote Proofs.GrammarIgnore Proofs.GrammarValueComplete Proofs.SerValue Proofs.GrammarValueBase Proofs.GrammarStr Proofs.GrammarNum
  Proofs.ValueDeRef Proofs.ValueDeAgree Proofs.ValueDeText Proofs.ValueDeAgreeKey Proofs.ValueDeAgreeMap Proofs.ValueDeAgreeMisc.
From SJ Require Proofs.NumInt Proofs.TypedInt.
From SJ Require Import Proofs.ApNumber Proofs.ApNumberFloat Proofs.ValueInt Proofs.LexOracle Proofs.ValueDeAgreeAp.
From SJ Require Model.Sval Model.Ser Model.ValueSer Spec.Layout Proofs.SerToValueAp Proofs.SerMain Proofs.SerFinal.
From Flocq Require Import Core BinarySingleNaN.
Require Import Lia ZifyBool ZifyNat ZifyN.
From SJ Require Import Model.Sval Model.Ser Model.ValueSer Spec.Layout Proofs.SerBase Proofs.SerRender Proofs.SerWf Proofs.SerDenote
  Proofs.SerMain Proofs.SerFinal.
From SJ Require Import Proofs.ValueDeAgreeApValue.
Theorem C16_ap_value_respelled : forall cf fx fmt32 fmt64 v,
  arbitrary_precision cf = true -> ryu_json fmt32 fmt64 -> wf_value cf v = true -> no_token v = true ->
  value_of_value cf fx v = VOk (respell fx v)
  /\ from_value_owned cf fx TValue v = VOk (DValue (Extract.Driver.show_value (respell fx v)))
  /\ from_value_ref cf fx TValue v = VOk (DValue (Extract.Driver.show_value (respell fx v)))
  /\ (respell fx v = v <-> canon_value fx v = true)
  /\ exists bufs c, serialize cf fmt32 fmt64 Compact (sval_of_value v) = Ok bufs /\ concat bufs = render c /\
       ((limit_disabled cf = false -> (cdepth c <= 127)%nat) ->
        from_input_typed (mkEnv RSlice TEof cf) TValue (concat bufs) = TOk (DValue (Extract.Driver.show_value v))).
Proof. exact (@ValueDeAgreeApValue.C16_ap_value_respelled). Qed.
Print Assumptions C16_ap_value_respelled.

From SJ Require Import Base.Bytes Base.Utf8 Base.FloatB Gen.Tables
  Model.Read Model.Str Model.Num Model.NumF32 Model.Value Model.De Model.Ignore Model.Ty Model.NumberM Model.DeTyped Model.ValueDe
  Spec.Syntax Spec.Denote Proofs.GrammarIgnore Proofs.GrammarValueComplete Proofs.SerValue Proofs.GrammarValueBase Proofs.GrammarStr Proofs.GrammarNum
  Proofs.ValueDeRef Proofs.ValueDeAgree.
From SJ Require Import Proofs.SerRender Proofs.SerWf Proofs.SerDenote Proofs.ValueDeAgreeKey Proofs.ValueDeAgreeMap Proofs.ValueDeAgreeStruct
  Proofs.ValueDeAgreeEnum Proofs.ValueDeAgreeMisc.
From SJ Require Import Proofs.ApNumber Proofs.ValueDeAgreeAp Proofs.ValueDeAgreeApValue Proofs.ValueDeAgreeAp2.
Require Import Lia ZifyBool ZifyNat ZifyN.
From SJ Require Import Model.Sval Model.Ser Model.ValueSer Spec.Layout Proofs.SerBase Proofs.SerMain Proofs.SerFinal Proofs.ValueDeText.
From Coq Require Import Strings.String Strings.Ascii.
From Coq Require Import List.     (* `concat` below is List.concat, not String.concat *)
From SJ Require Import Proofs.ValueDeAgreeAp3.
Theorem C16_ap_lifted : forall cf fx fmt32 fmt64 t v,
  arbitrary_precision cf = true -> ryu_json fmt32 fmt64 ->
  agree_ty_ap (float_roundtrip cf) t = true -> wf_value cf v = true -> claim_ap fx (value_de_fuel t) t v = true ->
  exists bufs c, serialize cf fmt32 fmt64 Compact (sval_of_value v) = Ok bufs /\ concat bufs = render c /\
    ((limit_disabled cf = false -> (cdepth c <= 127)%nat) ->
     agree (from_value_owned cf fx t v) (from_input_typed (mkEnv RSlice TEof cf) t (concat bufs))
     /\ agree (from_value_ref cf fx t v) (from_input_typed (mkEnv RSlice TEof cf) t (concat bufs))
     /\ same_mod_borrow (from_value_owned cf fx t v) (from_value_ref cf fx t v)).
Proof. exact (@ValueDeAgreeAp3.C16_ap_lifted). Qed.
Print Assumptions C16_ap_lifted.

From SJ Require Import Base.Bytes Base.Utf8 Base.FloatB Gen.Tables
  Model.Read Model.Str Model.Num Model.NumF32 Model.Value Model.De Model.Ignore Model.Ty Model.NumberM Model.DeTyped Model.ValueDe
  Model.VdeAst Gen.VdeTables.
From SJ Require Import Proofs.VdeSrc.
Theorem C16_value_deserializer_is_source :
  forall (cf : cfg) (fx : fenv) (name : bytes) (fuel : nat) (t : ty) (v : value),
  de_value_owned (S fuel) cf fx t v =
    seed_meaning VDE_SOURCE false cf fx name (de_value_owned fuel cf fx) (value_of_value cf fx) (key_meaning VDE_SOURCE cf CowOwned)
      (enum_meaning VDE_SOURCE false cf fx name (de_value_owned fuel cf fx)) t v
  /\ de_value_ref (S fuel) cf fx t v =
    seed_meaning VDE_SOURCE true cf fx name (de_value_ref fuel cf fx) (value_of_value cf fx) (key_meaning VDE_SOURCE cf CowBorrowed)
      (enum_meaning VDE_SOURCE true cf fx name (de_value_ref fuel cf fx)) t v.
Proof. exact (@VdeSrc.value_deserializer_is_translated_source). Qed.
Print Assumptions C16_value_deserializer_is_source.

Theorem C16_from_value_is_source : forall (cf : cfg) (fx : fenv) (name : bytes) (t : ty) (v : value),
  from_value_owned cf fx t v =
    seed_meaning VDE_SOURCE false cf fx name (de_value_owned (ty_depth t) cf fx) (value_of_value cf fx) (key_meaning VDE_SOURCE cf CowOwned)
      (enum_meaning VDE_SOURCE false cf fx name (de_value_owned (ty_depth t) cf fx)) t v
  /\ from_value_ref cf fx t v =
    seed_meaning VDE_SOURCE true cf fx name (de_value_ref (ty_depth t) cf fx) (value_of_value cf fx) (key_meaning VDE_SOURCE cf CowBorrowed)
      (enum_meaning VDE_SOURCE true cf fx name (de_value_ref (ty_depth t) cf fx)) t v.
Proof. exact (@VdeSrc.from_value_is_translated_source). Qed.
Print Assumptions C16_from_value_is_source.

Theorem C16_dispatch_is_source : forall (side ap : bool) (cf : cfg) (fx : fenv) (name : bytes) (A : Type) (V : visitor A) (m : vmethod) (v : value),
  run_method VDE_SOURCE side ap false cf fx name V VDE_FUEL m v = dispatch side ap cf fx V m v.
Proof. exact (@VdeSrc.dispatch_is_source). Qed.
Print Assumptions C16_dispatch_is_source.

Theorem C16_owned_ref_tables_agree : forall (ap : bool) (m : vmethod),
  norm_method ap VDE_OWNED m = norm_method ap VDE_REF m /\ norm_method ap VDE_OWNED m <> NMissing.
Proof. exact (@VdeSrc.owned_ref_tables_agree). Qed.
Print Assumptions C16_owned_ref_tables_agree.

Theorem C16_owned_ref_helpers_agree :
  norm_helper VDE_VISIT_ARRAY = norm_helper VDE_VISIT_ARRAY_REF /\ norm_helper VDE_MAP_ANY = norm_helper VDE_MAP_ANY_REF
  /\ h_leftover VDE_VISIT_ARRAY = LeftoverIsInvalidLength /\ h_leftover VDE_MAP_ANY = LeftoverIsInvalidLength
  /\ VDE_MAP_ENUM = MapEnumSingleEntry EnumOwned /\ VDE_MAP_ENUM_REF = MapEnumSingleEntry EnumRef
  /\ norm_variant VDE_VARIANT = norm_variant VDE_VARIANT_REF
  /\ VDE_VARIANT_SEED = VariantSeedIntoDeserializer VariantOwned /\ VDE_VARIANT_REF_SEED = VariantSeedIntoDeserializer VariantRef
  /\ norm_access_table VDE_SEQ_ACCESS = norm_access_table VDE_SEQ_ACCESS_REF
  /\ norm_access_table VDE_MAP_ACCESS = norm_access_table VDE_MAP_ACCESS_REF
  /\ lookup_access VDE_MAP_ACCESS a_next_key_seed = Some (NextKeyFromIter CowOwned)
  /\ lookup_access VDE_MAP_ACCESS_REF a_next_key_seed = Some (NextKeyFromIter CowBorrowed).
Proof. exact (@VdeSrc.owned_ref_helpers_agree). Qed.
Print Assumptions C16_owned_ref_helpers_agree.

Theorem C16_value_of_value_is_source : forall (side : bool) (cf : cfg) (fx : fenv) (name : bytes) (v : value),
  value_of_value cf fx v =
  run_method VDE_SOURCE side (arbitrary_precision cf) false cf fx name (value_visitor cf fx (value_of_value cf fx)) VDE_FUEL d_any v.
Proof. exact (@VdeSrc.value_of_value_is_source). Qed.
Print Assumptions C16_value_of_value_is_source.

Theorem C16_value_key_is_source : forall (cf : cfg) (borrowed : bool) (k : kty) (key : bytes),
  de_value_key cf borrowed k key = key_meaning VDE_SOURCE cf (cow_of borrowed) k key.
Proof. exact (@VdeSrc.de_value_key_is_source). Qed.
Print Assumptions C16_value_key_is_source.

From Coq Require Import Lia ZifyBool ZifyNat ZifyN.
From SJ Require Import Base.Bytes Base.Utf8 Base.FloatB Gen.Tables
  Model.Read Model.Str Model.Num Model.Value Model.De Model.NumberM Model.DeTyped Model.ValueDe Model.NumberTarget
  Spec.Syntax Spec.Denote.
From SJ Require Import Proofs.NumInt Proofs.GrammarNum Proofs.ApNumber Proofs.SerValue Proofs.ValueDeAgreeAp Proofs.ValueDeAgreeApValue
  Proofs.NumberTargetFinite.
From SJ Require Spec.Layout Proofs.SerToValueAp.
From Flocq Require Import Core BinarySingleNaN.
From SJ Require Import Proofs.NumberTargetProps.
Theorem C16_number_target_agree : forall e fx inp v, arbitrary_precision (cf e) = false ->
  from_input e inp = Ok v ->
  match number_from_value (cf e) fx v with
  | VOk n => number_from_text e inp = VOk n
  | VErr (Message k) _ _ => exists line col, number_from_text e inp = VErr (Message k) line col
  | _ => False
  end.
Proof. exact (@NumberTargetProps.number_target_agree). Qed.
Print Assumptions C16_number_target_agree.

Theorem C16_number_target_agree_ap : forall e fx inp v, arbitrary_precision (cf e) = true ->
  from_input e inp = Ok v -> (forall l, v <> VObj l) ->
  match v with
  | VNum n =>
    exists s, n = NLit s /\ Layout.number_text_ok s = true
              /\ number_from_text e inp = VOk (NLit s)
              /\ number_from_value (cf e) fx v = VOk (NLit (respell_lit fx s))
  | _ => number_from_value (cf e) fx v = VErr (Message MInvalidType) 0 0
         /\ exists line col, number_from_text e inp = VErr (Message MInvalidType) line col
  end.
Proof. exact (@NumberTargetProps.number_target_agree_partial). Qed.
Print Assumptions C16_number_target_agree_ap.

Theorem C16_number_target_value_is_identity : forall cf fx n, arbitrary_precision cf = false -> value_num_ok n = true ->
  number_from_value cf fx (VNum n) = VOk n.
Proof. exact (@NumberTargetProps.number_target_value_is_identity). Qed.
Print Assumptions C16_number_target_value_is_identity.

Theorem C16_number_target_value_ap_respell : forall cf fx s, arbitrary_precision cf = true -> Layout.number_text_ok s = true ->
  number_from_value cf fx (VNum (NLit s)) = VOk (NLit (respell_lit fx s)).
Proof. exact (@NumberTargetProps.number_target_value_ap_respell). Qed.
Print Assumptions C16_number_target_value_ap_respell.

Theorem C16_number_target_text_is_value : forall e inp, arbitrary_precision (cf e) = false ->
  (forall n, number_from_text e inp = VOk n <-> from_input e inp = Ok (VNum n))
  /\ (forall v, from_input e inp = Ok v -> is_number v = false ->
        exists s1, parse_value (value_fuel inp) e (init_st inp) = Ok (v, s1)
                /\ number_from_text e inp = vres_of_res inp (Err (Message MInvalidType) (invalid_type_at e inp v s1)))
  /\ (forall c i, from_input e inp = Err c i ->
        number_from_text e inp = vres_of_res inp (Err c i)
        \/ exists j, number_from_text e inp = vres_of_res inp (Err (Message MInvalidType) j)).
Proof. exact (@NumberTargetProps.number_target_text_is_value). Qed.
Print Assumptions C16_number_target_text_is_value.

