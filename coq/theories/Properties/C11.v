(* Properties/C11.v — syntax errors point at the first offending byte (model level; Value and ignored content). Pinned statements.
   An error is [Err c i] with i = number of bytes up to and including the offending byte; (line, column) = pos_of input i. *)
From SJ Require Import Base.Bytes Base.FloatB Gen.Tables Model.Read Model.Str Model.Num Model.Value Model.De Model.Ignore.
From SJ Require Import Proofs.PrefixBase Proofs.Prefix Proofs.PrefixTotal.

(* dead: once a non-Eof, non-range error is reported at i, NO continuation of the input can change it — the reported byte is one
   after which no continuation could be valid *)
Theorem C11_dead : forall rk cf p c i t,
  from_input (mkEnv rk TEof cf) p = Err c i -> ~ eofish c -> from_input (mkEnv rk TEof cf) (p ++ t) = Err c i.
Proof. exact Prefix.C11_dead. Qed.
Theorem C11_dead_ignored : forall rk cf p c i t,
  ignored_from_input (mkEnv rk TEof cf) p = Err c i -> ~ eofish c -> ignored_from_input (mkEnv rk TEof cf) (p ++ t) = Err c i.
Proof. exact Prefix.C11_dead_ignored. Qed.

(* live: every strictly shorter prefix had not been rejected — it parses, or fails only with an end-of-input outcome at its end.
   Together with C11_dead: the reported byte is the FIRST such byte as far as the parser's own verdicts are concerned. *)
Theorem C11_live : forall rk cf bs c i k,
  from_input (mkEnv rk TEof cf) bs = Err c i -> ~ eofish c -> (k < i)%nat ->
  match from_input (mkEnv rk TEof cf) (firstn k bs) with
  | Ok _ => True | Err c' i' => eofish c' /\ i' = k | _ => False end.
Proof. exact C11_live_full. Qed.
Theorem C11_live_ignored : forall rk cf bs c i k,
  ignored_from_input (mkEnv rk TEof cf) bs = Err c i -> ~ eofish c -> (k < i)%nat ->
  match ignored_from_input (mkEnv rk TEof cf) (firstn k bs) with
  | Ok _ => True | Err c' i' => eofish c' /\ i' = k | _ => False end.
Proof. exact C11_live_ignored_full. Qed.

(* every reported position lies within the input *)
Theorem C11_within_input : forall rk cf p c i, from_input (mkEnv rk TEof cf) p = Err c i -> (i <= length p)%nat.
Proof. exact Prefix.C11_idx_le_strong. Qed.
Theorem C11_within_input_ignored : forall rk cf p c i,
  ignored_from_input (mkEnv rk TEof cf) p = Err c i -> category c <> CatIo -> (i <= length p)%nat.
Proof. exact Prefix.C11_idx_le_ignored. Qed.

(* line/column arithmetic: line = 1 + newlines among the first i bytes; column = bytes after the last of them (0 right after a newline) *)
Example C11_pos_example : pos_of [91; 10; 49; 44; 10; 93]%N 5 = (3%N, 0%N) /\ pos_of [91; 10; 49; 44; 10; 93]%N 4 = (2%N, 2%N).
Proof. vm_compute. split; reflexivity. Qed.
Example C11_example : from_input (mkEnv RSlice TEof (mkCfg false false false false)) [91; 49; 44; 10; 93]%N = Err TrailingComma 5.
Proof. vm_compute. reflexivity. Qed.

Print Assumptions C11_dead.
Print Assumptions C11_dead_ignored.
Print Assumptions C11_live.
Print Assumptions C11_within_input.

(* ---- streams: a non-eofish error of the current item is reported identically (code, index, byte_offset) whatever follows the input ---- *)
From SJ Require Import Model.Stream Spec.Syntax.
From SJ Require Proofs.StreamEof.
Theorem C11_stream_stable : forall rk cf ss w p c i t,
  (is_io (mkEnv rk TEof cf) && ss_failed ss = false) ->
  rest (ss_st ss) = w ++ p -> ws_ok w = true ->
  (match p with b :: _ => ws_byte b = false | [] => False end) ->
  value_item (mkEnv rk TEof cf) (mkSt p (off (ss_st ss) + length w)%nat true (depth (ss_st ss))) = Err c i -> ~ eofish c ->
  let E := mkEnv rk TEof cf in
  let ssx := mkSS (mkSt (rest (ss_st ss) ++ t) (off (ss_st ss)) (pk (ss_st ss)) (depth (ss_st ss)))
                  (ss_off ss) (ss_failed ss) in
  (exists ss', stream_next E value_item ss = (Some (IErr c i), ss')
      /\ ss_off ss' = (off (ss_st ss) + length w)%nat
      /\ forall n, Forall (fun o => fst o = None /\ snd o = (off (ss_st ss) + length w)%nat) (stream_run n E value_item ss'))
  /\ (exists ss', stream_next E value_item ssx = (Some (IErr c i), ss')
      /\ ss_off ss' = (off (ss_st ss) + length w)%nat
      /\ forall n, Forall (fun o => fst o = None /\ snd o = (off (ss_st ss) + length w)%nat) (stream_run n E value_item ss')).
Proof. exact (@StreamEof.stream_value_syntax_stable). Qed.
Print Assumptions C11_stream_stable.


(* ---- typed targets ---- *)
From SJ Require Import Model.Ty Model.DeTyped.
From SJ Require Proofs.TypedPrefix.
Theorem C11_typed_dead : forall rk cf t p tl c i,
  from_input_typed (mkEnv rk TEof cf) t p = TErr c i -> ~ eofish c ->
  (forall m, c <> Message m) -> c <> TrailingCharacters ->
  from_input_typed (mkEnv rk TEof cf) t (p ++ tl) = TErr c i.
Proof. exact (@TypedPrefix.C11_typed_dead). Qed.
Print Assumptions C11_typed_dead.


(* ---- the CONVERSE (Proofs/Viable*.v): an Eof-category error means the input really is a viable prefix — some continuation is accepted.
        The completion is constructed from the parser state (close the string / escape / number / literal, supply a missing value, close the
        brackets innermost first; it never opens a container).  Three decidable side conditions are needed, and each is necessary:
          utf8_prefix p     p is valid UTF-8 up to an incomplete final sequence (slice / reader input validates UTF-8 only at the closing quote:
                            an unterminated string holding a byte that no UTF-8 text contains fails with Eof although no continuation is JSON —
                            known finding F24, witness C11_F24_dead_prefix_reports_eof; a &str is valid UTF-8 by type: C11_eof_viable_str)
          esc_tail_ok p     the input does not end inside a \u escape that can no longer be completed (a non-hex digit so far, or a lone low
                            surrogate) — "a \u escape cut off by the end of input counts as truncation" in the property's own words
          HRnum cf p        the input does not end in `e+` after a mantissa that alone is out of range (> 308 integer digits; void under
                            arbitrary_precision) *)
From SJ Require Import Base.Utf8 Model.Ignore Spec.Syntax Spec.Denote Proofs.ViableBase Proofs.ViableStr Proofs.ViableNum Proofs.ViableDe Proofs.Viable Proofs.ViableExamples
  Proofs.ViableDecide Proofs.ViableIgnore Proofs.ViableStrSrc.
Local Notation SE cf := (mkEnv RSlice TEof cf).

Theorem C11_eof_viable_grammar : forall cf p c i,
  from_input (SE cf) p = Err c i -> category c = CatEof ->
  utf8_prefix p -> esc_tail_ok p = true ->
  exists t, InLang (cf_ap cf) (p ++ t).
Proof. exact Viable.C11_eof_viable_grammar. Qed.
Print Assumptions C11_eof_viable_grammar.

Theorem C11_eof_viable_partial : forall cf p c i,
  from_input (SE cf) p = Err c i -> category c = CatEof ->
  utf8_prefix p -> esc_tail_ok p = true -> HRnum cf p ->
  exists t, InLang cf (p ++ t) /\ exists v, from_input (SE cf) (p ++ t) = Ok v.
Proof. exact Viable.C11_eof_viable_partial. Qed.
Print Assumptions C11_eof_viable_partial.

Theorem C11_eof_viable_decidable : forall cf p c i,
  from_input (SE cf) p = Err c i -> category c = CatEof ->
  utf8_prefixb p = true -> esc_tail_ok p = true -> HRnumb cf p = true ->
  exists t v, from_input (SE cf) (p ++ t) = Ok v.
Proof. exact ViableDecide.C11_eof_viable_decidable. Qed.
Print Assumptions C11_eof_viable_decidable.

Theorem C11_eof_viable_reader : forall cf p c i,
  from_input (mkEnv RIo TEof cf) p = Err c i -> category c = CatEof ->
  utf8_prefixb p = true -> esc_tail_ok p = true -> HRnumb cf p = true ->
  exists t v, from_input (mkEnv RIo TEof cf) (p ++ t) = Ok v.
Proof. exact ViableDecide.C11_eof_viable_reader. Qed.
Print Assumptions C11_eof_viable_reader.

Theorem C11_eof_viable_str : forall cf p c i,
  from_input (mkEnv RStr TEof cf) p = Err c i -> category c = CatEof ->
  utf8_valid p = true -> esc_tail_ok p = true -> HRnum cf p ->
  exists t v, from_input (mkEnv RStr TEof cf) (p ++ t) = Ok v.
Proof. exact ViableStrSrc.C11_eof_viable_str. Qed.
Print Assumptions C11_eof_viable_str.

Theorem C11_eof_viable_ignored : forall cf p c i,
  ignored_from_input (SE cf) p = Err c i -> category c = CatEof ->
  Forall (fun b => b < 256) p -> iesc_tail_ok p = true ->
  exists t, ignored_from_input (SE cf) (p ++ t) = Ok tt.
Proof. exact ViableIgnore.C11_eof_viable_ignored. Qed.
Print Assumptions C11_eof_viable_ignored.

Theorem C11_F24_dead_prefix_reports_eof : forall cf t v, Forall P256 t -> from_input (SE cf) (p_utf8 ++ t) <> Ok v.
Proof. exact ViableExamples.p_utf8_dead. Qed.
Print Assumptions C11_F24_dead_prefix_reports_eof.

Theorem C11_cut_hex_escape_dead : forall cf t v, Forall P256 t -> from_input (SE cf) (p_hex ++ t) <> Ok v.
Proof. exact ViableExamples.p_hex_dead. Qed.
Print Assumptions C11_cut_hex_escape_dead.

Theorem C11_cut_low_surrogate_dead : forall cf t v, Forall P256 t -> from_input (SE cf) (p_low ++ t) <> Ok v.
Proof. exact ViableExamples.p_low_dead. Qed.
Print Assumptions C11_cut_low_surrogate_dead.

(* the witnesses evaluate: the two bytes 0x22 0xFF (an opening quote and a byte no UTF-8 text contains) are reported as Eof at their end, and are dead (theorem above) *)
Example C11_F24_witness : from_input (SE cfg0) p_utf8 = Err EofWhileParsingString 2 /\ utf8_prefixb p_utf8 = false.
Proof. split; vm_compute; reflexivity. Qed.
