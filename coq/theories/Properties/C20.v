(* Properties/C20.v — arbitrary_precision keeps every number literal verbatim.  Statements only; proofs in
   Proofs/ApNumber.v and Proofs/ApNumberFloat.v (model: Model/NumberM.v, Model/Num.v scan_*, Model/De.v). *)
From Coq Require Import Reals.
From Flocq Require Import Core BinarySingleNaN.
From SJ Require Import Base.Bytes Base.FloatB Model.Read Model.Num Model.Value Model.De Model.NumberM Spec.Syntax Spec.Denote.
From SJ Require Import Proofs.FloatDefault Proofs.ApNumber Proofs.ApNumberFloat.
Open Scope N_scope.

(* ---- literals parsed into a Value ------------------------------------------------------------------------ *)
Theorem C20_verbatim : forall cf n, arbitrary_precision cf = true -> num_ok n = true ->
  from_input (mkEnv RSlice TEof cf) (render_num n) = Ok (VNum (NLit (render_num n))).
Proof. exact verbatim_alone. Qed.
Print Assumptions C20_verbatim.

(* every number literal inside a document denotes its own text ... *)
Theorem C20_num_den : forall cf n, arbitrary_precision cf = true -> num_ok n = true ->
  num_den cf n = Some (VNum (NLit (render_num n))).
Proof. exact num_den_verbatim. Qed.
Print Assumptions C20_num_den.

Theorem C20_denote : forall cf, arbitrary_precision cf = true ->
  forall c, wfb c = true -> denote cf c = denote_verbatim cf c.
Proof. exact denote_verbatim_eq. Qed.
Print Assumptions C20_denote.

(* ... and that is what the parser returns, for every well-formed document *)
Theorem C20_verbatim_nested : forall cf w1 c w2 v, arbitrary_precision cf = true ->
  ws_ok w1 = true -> ws_ok w2 = true -> wfb c = true ->
  (limit_disabled cf = false -> (cdepth c <= 127)%nat) ->
  denote_verbatim cf c = Some v ->
  from_input (mkEnv RSlice TEof cf) (w1 ++ render c ++ w2) = Ok v.
Proof. exact verbatim_nested. Qed.
Print Assumptions C20_verbatim_nested.

Theorem C20_verbatim_sound : forall cf bs v, arbitrary_precision cf = true ->
  Forall (fun b => (b < 256)%N) bs -> from_input (mkEnv RSlice TEof cf) bs = Ok v ->
  exists w1 c w2, bs = w1 ++ render c ++ w2 /\ ws_ok w1 = true /\ ws_ok w2 = true /\ wfb c = true
               /\ denote_verbatim cf c = Some v.
Proof. exact verbatim_sound. Qed.
Print Assumptions C20_verbatim_sound.

(* parse-then-serialise changes nothing but whitespace (documents of arrays, numbers, null, true, false) *)
Theorem C20_parse_then_serialise : forall cf w1 c w2 v, arbitrary_precision cf = true ->
  ws_ok w1 = true -> ws_ok w2 = true -> wfb c = true -> numeric c = true ->
  (limit_disabled cf = false -> (cdepth c <= 127)%nat) ->
  denote_verbatim cf c = Some v ->
  from_input (mkEnv RSlice TEof cf) (w1 ++ render c ++ w2) = Ok v /\ ser_value v = render (strip c).
Proof. exact parse_then_serialise_numeric. Qed.
Print Assumptions C20_parse_then_serialise.

Theorem C20_numeric_denotes : forall cf c, numeric c = true -> exists v, denote_verbatim cf c = Some v.
Proof. exact numeric_denotes. Qed.

(* ---- Number::from_str ---------------------------------------------------------------------------------------- *)
Theorem C20_from_str : forall cf s, arbitrary_precision cf = true ->
  ((exists v, number_from_str cf s = Ok v) <-> (exists lit, num_ok lit = true /\ s = render_num lit)).
Proof. exact from_str_grammar. Qed.
Print Assumptions C20_from_str.

Theorem C20_from_str_verbatim : forall cf n, arbitrary_precision cf = true -> num_ok n = true ->
  number_from_str cf (render_num n) = Ok (NLit (render_num n)).
Proof. exact from_str_verbatim. Qed.
Print Assumptions C20_from_str_verbatim.

Theorem C20_from_str_keeps_text : forall cf s v, arbitrary_precision cf = true ->
  number_from_str cf s = Ok v -> v = NLit s.
Proof. exact from_str_keeps_text. Qed.

Theorem C20_text : forall cf n, arbitrary_precision cf = true -> num_ok n = true ->
  exists x, number_from_str cf (render_num n) = Ok x
         /\ ap_as_str x = render_num n /\ ap_display x = render_num n /\ ap_serialize x = render_num n
         /\ ser_value (VNum x) = render_num n.
Proof. exact text_is_literal. Qed.

Theorem C20_to_value : forall cf n, arbitrary_precision cf = true -> num_ok n = true ->
  number_to_value cf (NLit (render_num n)) = Ok (VNum (NLit (render_num n))).
Proof. exact to_value_roundtrip. Qed.
Print Assumptions C20_to_value.

(* the cursor-returning scan functions of Model/NumberM.v compute the results of Model/Num.v *)
Theorem C20_scanS_agree : forall E positive s, arbitrary_precision (cf E) = true ->
  fst (parse_any_number_S E positive s) = parse_any_number E positive s.
Proof. exact parse_any_number_S_fst. Qed.

Theorem C20_no_f64 : forall E positive s p s1, arbitrary_precision (cf E) = true ->
  parse_any_number E positive s = Ok (p, s1) -> forall f, p <> PF64 f.
Proof. exact parse_any_number_no_f64. Qed.

(* ---- accessors --------------------------------------------------------------------------------------------------- *)
Theorem C20_as_u64 : forall n v, num_ok n = true ->
  (ap_as_u64 (render_num n) = Some v <->
   nneg n = false /\ nfrac n = None /\ nexp n = None /\ v = lit_abs n /\ (v <= U64_MAX)%Z).
Proof. exact as_u64_spec. Qed.
Print Assumptions C20_as_u64.

Theorem C20_as_i64 : forall n v, num_ok n = true ->
  (ap_as_i64 (render_num n) = Some v <->
   nfrac n = None /\ nexp n = None /\ v = lit_int n /\ (I64_MIN <= v <= I64_MAX)%Z).
Proof. exact as_i64_spec. Qed.

Theorem C20_as_u128 : forall n v, num_ok n = true ->
  (ap_as_u128 (render_num n) = Some v <->
   nneg n = false /\ nfrac n = None /\ nexp n = None /\ v = lit_abs n /\ (v <= U128_MAX)%Z).
Proof. exact as_u128_spec. Qed.

Theorem C20_as_i128 : forall n v, num_ok n = true ->
  (ap_as_i128 (render_num n) = Some v <->
   nfrac n = None /\ nexp n = None /\ v = lit_int n /\ (I128_MIN <= v <= I128_MAX)%Z).
Proof. exact as_i128_spec. Qed.
Print Assumptions C20_as_i128.

Theorem C20_non_integer_none : forall n, num_ok n = true -> lit_is_int n = false ->
  ap_as_u64 (render_num n) = None /\ ap_as_i64 (render_num n) = None
  /\ ap_as_u128 (render_num n) = None /\ ap_as_i128 (render_num n) = None.
Proof. exact non_integer_literal_none. Qed.

Theorem C20_is_u64 : forall lit, ap_is_u64 lit = is_some (ap_as_u64 lit).
Proof. exact is_u64_def. Qed.
Theorem C20_is_i64 : forall lit, ap_is_i64 lit = is_some (ap_as_i64 lit).
Proof. exact is_i64_def. Qed.
Theorem C20_is_f64 : forall n, num_ok n = true ->
  ap_is_f64 (render_num n) = negb (lit_is_int n) && is_some (ap_as_f64 (render_num n)).
Proof. exact is_f64_lit. Qed.

Theorem C20_as_f64 : forall n, num_ok n = true ->
  ap_as_f64 (render_num n) =
  let f := rne_decimal (lit_mantissa n) (lit_exponent n) in
  if b64_is_inf f then None else Some (if nneg n then b64_neg f else f).
Proof. exact as_f64_lit. Qed.

Theorem C20_as_f64_nearest : forall n, num_ok n = true ->
  (Rabs (RNE64 (lit_abs_value n)) < bpow radix2 1024)%R ->
  exists f, ap_as_f64 (render_num n) = Some f /\ is_finite f = true
         /\ B2R f = (if nneg n then - RNE64 (lit_abs_value n) else RNE64 (lit_abs_value n))%R
         /\ Bsign f = nneg n.
Proof. exact as_f64_in_range. Qed.
Print Assumptions C20_as_f64_nearest.

Theorem C20_as_f64_none : forall n, num_ok n = true ->
  (bpow radix2 1024 <= Rabs (RNE64 (lit_abs_value n)))%R ->
  ap_as_f64 (render_num n) = None.
Proof. exact as_f64_overflow. Qed.
Print Assumptions C20_as_f64_none.

(* ---- typed targets: the same with and without the feature --------------------------------------------------------- *)
Theorem C20_typed_same : forall rk tm cf cf' positive s,
  float_roundtrip cf = float_roundtrip cf' ->
  parse_integer (mkEnv rk tm cf) positive s = parse_integer (mkEnv rk tm cf') positive s.
Proof. exact parse_integer_feature_indep. Qed.
Print Assumptions C20_typed_same.

Theorem C20_typed_same_128 : forall rk tm cf cf' s,
  scan_integer128 (mkEnv rk tm cf) s = scan_integer128 (mkEnv rk tm cf') s.
Proof. exact scan_integer128_feature_indep. Qed.

(* ---- the hypotheses are satisfiable; a few concrete instances ------------------------------------------------------- *)
Definition cfg_ap : cfg := mkCfg false false true false.
Definition lit_neg_zero : numlit := mkNum true [48] None None.                                  (* -0 *)
Definition lit_1E05 : numlit := mkNum false [49] None (Some (69, Some 43, [48; 53])).           (* 1E+05 *)
Definition lit_1_50 : numlit := mkNum false [49] (Some [53; 48]) None.                          (* 1.50 *)

Example ex_neg_zero : from_input (mkEnv RSlice TEof cfg_ap) [45; 48] = Ok (VNum (NLit [45; 48])).
Proof. exact (C20_verbatim cfg_ap lit_neg_zero eq_refl eq_refl). Qed.
Example ex_1E05 : number_from_str cfg_ap [49; 69; 43; 48; 53] = Ok (NLit [49; 69; 43; 48; 53]).
Proof. exact (C20_from_str_verbatim cfg_ap lit_1E05 eq_refl eq_refl). Qed.
Example ex_trailing_zero : from_input (mkEnv RSlice TEof cfg_ap) [32; 91; 49; 46; 53; 48; 32; 93] = Ok (VArr [VNum (NLit [49; 46; 53; 48])]).
Proof. vm_compute. reflexivity. Qed.
Example ex_reject_plus : number_from_str cfg_ap [43; 49] = Err InvalidNumber 1.
Proof. vm_compute. reflexivity. Qed.
Example ex_reject_space : number_from_str cfg_ap [49; 32] = Err InvalidNumber 2.
Proof. vm_compute. reflexivity. Qed.
Example ex_second_peek : number_from_str cfg_ap [49; 101; 120; 121] = Err InvalidNumber 4.     (* "1exy" *)
Proof. vm_compute. reflexivity. Qed.
Example ex_as_i64_neg_zero : ap_as_i64 [45; 48] = Some 0%Z /\ ap_as_u64 [45; 48] = None.
Proof. vm_compute. split; reflexivity. Qed.
Example ex_as_u64_float : ap_as_u64 [49; 46; 48] = None /\ ap_is_f64 [49; 46; 48] = true.
Proof. vm_compute. split; reflexivity. Qed.
Example ex_as_f64_overflow : ap_as_f64 [49; 101; 52; 48; 48] = None.                            (* 1e400 *)
Proof. vm_compute. reflexivity. Qed.

(* ---- the arbitrary_precision number scanner (scan_or_eof, scan_integer, scan_number, scan_decimal, scan_exponent, and scan_integer128) is the code of src/de.rs as
        TRANSLATED ON THIS RUN: tools/translate_scan.py parses the six bodies into the imperative AST of Model/ScanAst.v (Gen/ScanTables.v); the hand-written models of
        Model/Num.v equal the interpretation of the translated bodies over the same cursor primitives, for every state and enough fuel ---- *)
From Coq Require Import String.
From SJ Require Import Base.Bytes Base.Utf8 Model.Read Model.Num Model.ScanAst Gen.ScanTables.
Require Import Lia.
From SJ Require Import Proofs.ScanSrc.
Theorem C20_scanner_is_source : forall (E : env) (s : st) (buf : bytes) (fuel : nat),
  ((2 <= fuel)%nat ->
     run_scan fuel E SCAN_TABLE "scan_or_eof" None s buf =
     let* (b, s') := Num.scan_or_eof E s in Ok (RByte b, buf ++ utf8_encode b, s')) /\
  ((length (rest s) + 18 <= fuel)%nat ->
     run_scan fuel E SCAN_TABLE "scan_integer" None s buf = lift buf (Num.scan_integer E s)) /\
  ((length (rest s) + 12 <= fuel)%nat ->
     run_scan fuel E SCAN_TABLE "scan_number" None s buf = lift buf (Num.scan_number E s)) /\
  ((length (rest s) + 9 <= fuel)%nat ->
     run_scan fuel E SCAN_TABLE "scan_decimal" None s buf = lift buf (Num.scan_decimal E s)) /\
  (forall e : byte, e < 128 -> (length (rest s) + 6 <= fuel)%nat ->
     run_scan fuel E SCAN_TABLE "scan_exponent" (Some e) s buf = lift buf (Num.scan_exponent E e s)) /\
  ((length (rest s) + 6 <= fuel)%nat ->
     run_scan fuel E SCAN_TABLE "scan_integer128" None s buf = lift buf (Num.scan_integer128 E s)).
Proof. exact (@ScanSrc.scan_model_is_translated_source). Qed.
Print Assumptions C20_scanner_is_source.

From Coq Require Import Lia ZifyBool ZifyNat ZifyN.
From SJ Require Import Base.Bytes Base.Utf8 Base.FloatB Gen.Tables
  Model.Read Model.Str Model.Num Model.Value Model.De Model.NumberM Model.DeTyped Model.ValueDe Model.NumberTarget
  Spec.Syntax Spec.Denote.
From SJ Require Import Proofs.NumInt Proofs.GrammarNum Proofs.ApNumber Proofs.SerValue Proofs.ValueDeAgreeAp Proofs.ValueDeAgreeApValue
  Proofs.NumberTargetFinite.
From SJ Require Spec.Layout Proofs.SerToValueAp.
From Flocq Require Import Core BinarySingleNaN.
From SJ Require Import Proofs.NumberTargetProps.
Theorem C20_number_target_verbatim : forall cf w1 n w2, arbitrary_precision cf = true ->
  ws_ok w1 = true -> ws_ok w2 = true -> num_ok n = true ->
  number_from_text (mkEnv RSlice TEof cf) (w1 ++ render_num n ++ w2) = VOk (NLit (render_num n))
  /\ number_from_text (mkEnv RIo TEof cf) (w1 ++ render_num n ++ w2) = VOk (NLit (render_num n)).
Proof. exact (@NumberTargetProps.number_target_ap_verbatim). Qed.
Print Assumptions C20_number_target_verbatim.

Theorem C20_number_target_verbatim_sound : forall e inp n, arbitrary_precision (cf e) = true ->
  first_sig inp <> Some 123 ->
  number_from_text e inp = VOk n ->
  exists lit w2, inp = firstn (span_len is_ws inp) inp ++ lit ++ w2
              /\ n = NLit lit /\ Layout.number_text_ok lit = true /\ forallb is_ws w2 = true.
Proof. exact (@NumberTargetProps.number_target_ap_verbatim_partial). Qed.
Print Assumptions C20_number_target_verbatim_sound.

