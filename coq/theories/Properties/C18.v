(* Properties/C18.v — Value lookups follow RFC 6901 and agree with each other; comparisons with primitives; json!. *)
From Coq Require Import Reals.
From Flocq Require Import Core BinarySingleNaN.
From SJ Require Import Base.Bytes Base.FloatB Model.Value Model.Pointer Model.JsonMacro Spec.Rfc6901
  Proofs.Pointer Proofs.PointerEq Proofs.PointerMacro.
Open Scope N_scope.

(* replace("~1","/") then replace("~0","~") is the single left-to-right RFC 6901 unescape *)
Theorem C18_replace_order : forall t, replace pat_t0 [126] (replace pat_t1 [47] t) = unescape t.
Proof. exact replace_order. Qed.
Print Assumptions C18_replace_order.

(* Value::pointer is the RFC 6901 reference evaluator, for every value (whose arrays fit a Vec) and every byte string *)
Theorem C18_pointer : forall v p, arrays_ok v -> pointer v p = rfc6901_eval v p.
Proof. exact pointer_rfc6901. Qed.
Print Assumptions C18_pointer.
Example C18_pointer_hyp_sat : arrays_ok (VObj [([97], VArr [VNull; VObj [([126], VBool true)]])]).
Proof. cbn. unfold usize_max, u64_max. repeat split; lia. Qed.
(* the hypothesis cannot be dropped in the model (lists are unbounded, Vecs are not) *)
Theorem C18_pointer_hyp_needed :
  let v := VArr (repeat VNull (N.to_nat 18446744073709551617)) in
  let p := 47 :: big_index in
  pointer v p = None /\ rfc6901_eval v p = Some VNull.
Proof. exact pointer_needs_arrays_ok. Qed.
Print Assumptions C18_pointer_hyp_needed.

(* pointer_mut yields a reference exactly when pointer yields a node, and it addresses that node *)
Theorem C18_mut_same_node : forall v p,
  match pointer_mut v p with
  | Some path => node_at v path = pointer v p /\ pointer v p <> None
  | None => pointer v p = None
  end.
Proof. exact pointer_mut_same_node. Qed.
Print Assumptions C18_mut_same_node.

(* a write through the reference replaces exactly the addressed node; siblings keep their content *)
Theorem C18_write_through : forall path new v n, node_at v path = Some n -> node_at (write_at path new v) path = Some new.
Proof. exact write_at_node. Qed.
Print Assumptions C18_write_through.
Theorem C18_write_sibling : forall i j r new v, i <> j -> child (write_at (i :: r) new v) j = child v j.
Proof. exact write_at_sibling. Qed.
Print Assumptions C18_write_sibling.

(* take() returns the value and leaves Null; through pointer_mut it takes the node pointer selects *)
Theorem C18_take : forall v, take v = (v, VNull).
Proof. exact take_spec. Qed.
Print Assumptions C18_take.
Theorem C18_take_at : forall v p path,
  pointer_mut v p = Some path ->
  exists n, pointer v p = Some n /\ take_at v path = Some (n, write_at path VNull v)
            /\ node_at (write_at path VNull v) path = Some VNull.
Proof. exact take_at_spec. Qed.
Print Assumptions C18_take_at.

(* get / get_mut / Index / IndexMut against direct container access *)
Theorem C18_index_get_usize : forall v i,
  get_usize v i = match v with
                  | VArr l => if i <? N.of_nat (length l) then nth_error l (N.to_nat i) else None
                  | _ => None
                  end.
Proof. exact get_usize_spec. Qed.
Print Assumptions C18_index_get_usize.
Theorem C18_index_get_str : forall v k, get_str v k = match v with VObj m => member k m | _ => None end.
Proof. exact get_str_spec. Qed.
Print Assumptions C18_index_get_str.
Theorem C18_index_get_mut_usize : forall v i,
  match get_mut_usize v i with
  | Some j => child v j = get_usize v i /\ get_usize v i <> None
  | None => get_usize v i = None
  end.
Proof. exact get_mut_usize_spec. Qed.
Print Assumptions C18_index_get_mut_usize.
Theorem C18_index_get_mut_str : forall v k,
  match get_mut_str v k with
  | Some j => child v j = get_str v k /\ get_str v k <> None
  | None => get_str v k = None
  end.
Proof. exact get_mut_str_spec. Qed.
Print Assumptions C18_index_get_mut_str.
Theorem C18_index_usize : forall v i, index_usize v i = match get_usize v i with Some x => x | None => VNull end.
Proof. exact index_usize_spec. Qed.
Print Assumptions C18_index_usize.
Theorem C18_index_str : forall v k, index_str v k = match get_str v k with Some x => x | None => VNull end.
Proof. exact index_str_spec. Qed.
Print Assumptions C18_index_str.
Theorem C18_index_mut_usize : forall v i,
  match index_or_insert_usize i v with
  | Ok (v', j) => v' = v /\ child v j = get_usize v i /\ get_usize v i <> None
  | Panic => get_usize v i = None
  | _ => False
  end.
Proof. exact index_or_insert_usize_spec. Qed.
Print Assumptions C18_index_mut_usize.
Theorem C18_index_mut_str : forall pres k v,
  match index_or_insert_str pres k v with
  | Ok (v', j) =>
      (v = VNull \/ exists m, v = VObj m) /\
      (exists m', v' = VObj m') /\
      child v' j = get_str v' k /\
      get_str v' k = Some (match get_str v k with Some x => x | None => VNull end) /\
      (forall k', k' <> k -> get_str v' k' = get_str v k') /\
      (get_str v k <> None -> v' = v)
  | Panic => v <> VNull /\ forall m, v <> VObj m
  | _ => False
  end.
Proof. exact index_or_insert_str_spec. Qed.
Print Assumptions C18_index_mut_str.

(* == with integers (i8..i64, isize, u8..u64, usize), bool, str: true exactly when the Value holds that value *)
Theorem C18_eq_prim_int : forall t v z,
  ity_in_range t z = true -> value_num_wf v ->
  (eq_int t v z = true <-> exists n, v = VNum n /\ num_int n = Some z).
Proof. exact eq_int_spec. Qed.
Print Assumptions C18_eq_prim_int.
Example C18_eq_prim_int_hyp_sat : ity_in_range U8 255 = true /\ value_num_wf (VNum (NPos 255)) /\ value_num_wf (VNum (NNeg (-1))).
Proof. repeat split; cbn; unfold u64_max; lia. Qed.
Theorem C18_eq_prim_bool : forall v b, eq_bool v b = true <-> v = VBool b.
Proof. exact eq_bool_spec. Qed.
Print Assumptions C18_eq_prim_bool.
Theorem C18_eq_prim_str : forall v s, eq_str v s = true <-> v = VStr s.
Proof. exact eq_str_spec. Qed.
Print Assumptions C18_eq_prim_str.

(* == with f64 / f32: the stored number is converted to the comparand's type first *)
Theorem C18_eq_prim_f64_int : forall z o, (Z.abs z <= 2 ^ 64)%Z ->
  (eq_f64 (VNum (num_of_Z z)) o = true <-> is_finite o = true /\ B2R o = rnd64 (IZR z)).
Proof. exact eq_f64_int. Qed.
Print Assumptions C18_eq_prim_f64_int.
Theorem C18_eq_prim_f64_int_exact : forall z o, (Z.abs z <= 2 ^ 53)%Z ->
  (eq_f64 (VNum (num_of_Z z)) o = true <-> is_finite o = true /\ B2R o = IZR z).
Proof. exact eq_f64_int_exact. Qed.
Print Assumptions C18_eq_prim_f64_int_exact.
Theorem C18_eq_prim_f64_float : forall g o, is_finite g = true ->
  (eq_f64 (VNum (NFloat g)) o = true <-> is_finite o = true /\ B2R o = B2R g).
Proof. exact eq_f64_float. Qed.
Print Assumptions C18_eq_prim_f64_float.
Theorem C18_eq_prim_f32_int : forall z o, (Z.abs z <= 2 ^ 64)%Z ->
  (eq_f32 (VNum (num_of_Z z)) o = true <-> is_finite o = true /\ B2R o = rnd32 (IZR z)).
Proof. exact eq_f32_int. Qed.
Print Assumptions C18_eq_prim_f32_int.
Theorem C18_eq_prim_f32_int_exact : forall z o, (Z.abs z <= 2 ^ 24)%Z ->
  (eq_f32 (VNum (num_of_Z z)) o = true <-> is_finite o = true /\ B2R o = IZR z).
Proof. exact eq_f32_int_exact. Qed.
Print Assumptions C18_eq_prim_f32_int_exact.
Theorem C18_eq_prim_f32_float : forall g o, eq_f32 (VNum (NFloat g)) o = Beqb (b32_of_b64 g) o.
Proof. exact eq_f32_float. Qed.
Print Assumptions C18_eq_prim_f32_float.
Theorem C18_eq_prim_float_kind : forall v, (forall n, v <> VNum n) ->
  (forall o, eq_f64 v o = false) /\ (forall o, eq_f32 v o = false).
Proof. exact eq_float_kind. Qed.
Print Assumptions C18_eq_prim_float_kind.
(* where the float comparisons are NOT "the Value holds exactly that value" (rounding of the stored number) *)
Theorem C18_eq_prim_deviation_f64_int : eq_f64 (VNum (NPos 9007199254740993)) (b64_of_bits 4845873199050653696) = true.
Proof. exact deviation_f64_int. Qed.
Theorem C18_eq_prim_deviation_f32_float :
  eq_f32 (VNum (NFloat (b64_of_bits 4591870180066957722))) (b32_of_bits 1036831949) = true /\
  eq_f64 (VNum (NFloat (b64_of_bits 4591870180066957722))) (b64_of_b32 (b32_of_bits 1036831949)) = false.
Proof. exact deviation_f32_float. Qed.
Theorem C18_eq_prim_deviation_f32_overflow : eq_f32 (VNum (NFloat (b64_of_bits 9094988921128908188))) (b32_of_bits 2139095040) = true.
Proof. exact deviation_f32_overflow. Qed.

(* json!: with no comma before the first element of any array, the macro yields the value of the equivalent JSON text
   (read with optional trailing commas); everything that reads as such JSON compiles to its value.
   The unrestricted statement `expand ts = Some v -> sem ts = Some v` is false: C18_macro_leading_comma. *)
Theorem C18_macro_partial : forall pres ts v,
  forallb strict_tok ts = true -> expand pres ts = Some v -> sem pres ts = Some v.
Proof. exact macro_sound. Qed.
Print Assumptions C18_macro_partial.
Theorem C18_macro_complete : forall pres ts v, sem pres ts = Some v -> expand pres ts = Some v.
Proof. exact macro_complete. Qed.
Print Assumptions C18_macro_complete.
Theorem C18_macro_leading_comma :
  expand false [KBrack [KComma; KExpr (VNum (NPos 1))]] = Some (VArr [VNum (NPos 1)]) /\
  sem false [KBrack [KComma; KExpr (VNum (NPos 1))]] = None /\
  expand false [KBrack [KComma]] = Some (VArr []).
Proof. exact macro_leading_comma. Qed.
Example C18_macro_hyp_sat :
  forallb strict_tok [KBrace [KExpr (VStr [97]); KColon; KBrack [KNull; KComma; KTrue; KComma]; KComma]] = true /\
  expand false [KBrace [KExpr (VStr [97]); KColon; KBrack [KNull; KComma; KTrue; KComma]; KComma]]
    = Some (VObj [([97], VArr [VNull; VBool true])]).
Proof. split; reflexivity. Qed.

(* ---- which helper each comparand type goes through: the partialeq_numeric! groups of src/value/partial_eq.rs as TRANSLATED ON THIS RUN (tools/translate_eq.py) ---- *)
From SJ Require Import Base.Bytes Model.Value Model.Pointer Gen.EqTables.
From SJ Require Import Proofs.PointerEqSrc.
Theorem C18_eq_routing_is_source : forall t v other,
  eq_int t v other = match EQ_GROUP (eqty_of t) with
                     | G_i64 => eq_i64 v other
                     | G_u64 => eq_u64 v (Z.to_N other)
                     | _ => false
                     end.
Proof. exact (@PointerEqSrc.eq_routing_is_source). Qed.
Print Assumptions C18_eq_routing_is_source.


(* ---- the parameters of pointer / pointer_mut (separator, skipped pieces, ORDER of the replace passes) as TRANSLATED ON THIS RUN (tools/translate_ptr.py) ---- *)
From SJ Require Import Base.Bytes Model.Value Model.Pointer Gen.PtrTables.
From SJ Require Import Proofs.PointerSrc.
Theorem C18_pointer_tokens_are_source : forall p,
  ptr_tokens p = map (apply_replaces PTR_REPLACES) (skipn PTR_SKIP (split PTR_SEP p)).
Proof. exact (@PointerSrc.pointer_tokens_are_source). Qed.
Print Assumptions C18_pointer_tokens_are_source.

Theorem C18_replace_order_is_source : map fst PTR_REPLACES = [pat_t1; pat_t0].
Proof. exact (@PointerSrc.replace_order_is_rfc). Qed.
Print Assumptions C18_replace_order_is_source.

From Coq Require Import String.
From SJ Require Import Base.Bytes Base.FloatB Model.Value Model.Pointer.
From SJ Require Import Model.NumAst Gen.NumTables Proofs.NumberAcc Proofs.NumAccSrc Model.MapM Proofs.Pointer.
From SJ Require Import Model.VaccAst Gen.VaccTables.       (* last: `dv`, `run`, `eval` mean VaccAst's *)
Require Import Lia ZifyBool ZifyNat ZifyN.
From SJ Require Import Proofs.VaccSrc.
Theorem C18_get_is_source : forall po v,
  (forall i, src po Value_get (Some (IUsize i)) v = Done (opt_ref (get_usize v i)) v) /\
  (forall k, src po Value_get (Some (IStr k)) v = Done (opt_ref (get_str v k)) v) /\
  (forall i, src po Value_get_mut (Some (IUsize i)) v = Done (opt_mut (get_mut_usize v i)) v) /\
  (forall k, src po Value_get_mut (Some (IStr k)) v = Done (opt_mut (get_mut_str v k)) v) /\
  (forall i, src po (Index_for KUsize index_into) (Some (IUsize i)) v = Done (opt_ref (index_into_usize i v)) v) /\
  (forall k, src po (Index_for KStr index_into) (Some (IStr k)) v = Done (opt_ref (index_into_str k v)) v) /\
  (forall i, src po (Index_for KUsize index_into_mut) (Some (IUsize i)) v = Done (opt_mut (index_into_mut_usize i v)) v) /\
  (forall k, src po (Index_for KStr index_into_mut) (Some (IStr k)) v = Done (opt_mut (index_into_mut_str k v)) v).
Proof. exact (@VaccSrc.vacc_get_is_source). Qed.
Print Assumptions C18_get_is_source.

Theorem C18_index_is_source : forall po v,
  (forall i, src po Ops_index (Some (IUsize i)) v = Done (DVal (index_usize v i)) v) /\
  (forall k, src po Ops_index (Some (IStr k)) v = Done (DVal (index_str v k)) v).
Proof. exact (@VaccSrc.vacc_index_is_source). Qed.
Print Assumptions C18_index_is_source.

Theorem C18_index_or_insert_is_source : forall po v,
  (forall i, src po Ops_index_mut (Some (IUsize i)) v = of_ioi (index_or_insert_usize i v)) /\
  (forall k, src po Ops_index_mut (Some (IStr k)) v = of_ioi (index_or_insert_str po k v)) /\
  (forall i, src po (Index_for KUsize index_or_insert) (Some (IUsize i)) v = of_ioi (index_or_insert_usize i v)) /\
  (forall k, src po (Index_for KStr index_or_insert) (Some (IStr k)) v = of_ioi (index_or_insert_str po k v)).
Proof. exact (@VaccSrc.vacc_index_or_insert_is_source). Qed.
Print Assumptions C18_index_or_insert_is_source.

Theorem C18_take_is_source : forall po v, src po Value_take None v = Done (DVal (fst (take v))) (snd (take v)).
Proof. exact (@VaccSrc.vacc_take_is_source). Qed.
Print Assumptions C18_take_is_source.

Theorem C18_accessors_are_source : forall po v,
  src po Value_is_object None v = Done (ob (v_is_object v)) v /\
  src po Value_as_object None v = Done (oo DMap (v_as_object v)) v /\
  src po Value_as_object_mut None v = Done (oo DMap (v_as_object_mut v)) v /\
  src po Value_is_array None v = Done (ob (v_is_array v)) v /\
  src po Value_as_array None v = Done (oo DVec (v_as_array v)) v /\
  src po Value_as_array_mut None v = Done (oo DVec (v_as_array_mut v)) v /\
  src po Value_is_string None v = Done (ob (v_is_string v)) v /\
  src po Value_as_str None v = Done (oo DStr (as_str v)) v /\
  src po Value_is_number None v = Done (ob (v_is_number v)) v /\
  src po Value_as_number None v = Done (oo DNum (v_as_number v)) v /\
  src po Value_is_i64 None v = Done (ob (v_is_i64 v)) v /\
  src po Value_is_u64 None v = Done (ob (v_is_u64 v)) v /\
  src po Value_is_f64 None v = Done (ob (v_is_f64 v)) v /\
  src po Value_as_i64 None v = Done (oo DI64 (as_i64 v)) v /\
  src po Value_as_u64 None v = Done (oo DU64 (as_u64 v)) v /\
  src po Value_as_f64 None v = Done (oo DF64 (as_f64 v)) v /\
  src po Value_is_boolean None v = Done (ob (v_is_boolean v)) v /\
  src po Value_as_bool None v = Done (oo DBool (as_bool v)) v /\
  src po Value_is_null None v = Done (ob (v_is_null v)) v /\
  src po Value_as_null None v = Done (oo (fun _ => DUnit) (v_as_null v)) v.
Proof. exact (@VaccSrc.vacc_accessors_are_source). Qed.
Print Assumptions C18_accessors_are_source.

Theorem C18_is_as_partial : forall v,
  (v_is_object v = true <-> v_as_object v <> None) /\
  (v_is_object v = true <-> v_as_object_mut v <> None) /\
  (v_is_array v = true <-> v_as_array v <> None) /\
  (v_is_array v = true <-> v_as_array_mut v <> None) /\
  (v_is_string v = true <-> as_str v <> None) /\
  (v_is_number v = true <-> v_as_number v <> None) /\
  (v_is_i64 v = true <-> as_i64 v <> None) /\
  (v_is_u64 v = true <-> as_u64 v <> None) /\
  (v_is_boolean v = true <-> as_bool v <> None) /\
  (v_is_null v = true <-> v_as_null v <> None) /\
  (* f64: one direction only; as_f64 is Some exactly on the numbers of the default representation *)
  (v_is_f64 v = true -> as_f64 v <> None) /\
  (as_f64 v <> None <-> exists n, v = VNum n /\ default_repr n).
Proof. exact (@VaccSrc.vacc_is_as_partial). Qed.
Print Assumptions C18_is_as_partial.

Theorem C18_index_get : forall po v,
  (forall i, index_usize v i = match get_usize v i with Some x => x | None => VNull end) /\
  (forall k, index_str v k = match get_str v k with Some x => x | None => VNull end) /\
  (forall ix g, src po Value_get (Some ix) v = Done (DOpt g) v ->
                src po Ops_index (Some ix) v = Done (match g with Some d => d | None => DVal VNull end) v).
Proof. exact (@VaccSrc.vacc_index_get). Qed.
Print Assumptions C18_index_get.

Theorem C18_number_methods_are_source : forall n, default_repr n ->
  run_acc NUM_is_i64 n = RB (nm_is_i64 n) /\ run_acc NUM_is_u64 n = RB (nm_is_u64 n) /\ run_acc NUM_is_f64 n = RB (nm_is_f64 n) /\
  run_acc NUM_as_i64 n = RO (option_map VI64 (num_as_i64 n)) /\
  run_acc NUM_as_u64 n = RO (option_map VU64 (num_as_u64 n)) /\
  run_acc NUM_as_f64 n = RO (option_map VF64 (num_as_f64 n)).
Proof. exact (@VaccSrc.vacc_number_methods_are_source). Qed.
Print Assumptions C18_number_methods_are_source.

Theorem C18_map_prims_are_mapm : forall po k d m,
  step_do po m (Get k) = (m, OOptV (assoc_get k m)) /\
  match entry_or_insert po k d (VObj m) with
  | Done (DMutChild i) (VObj m') => m' = fst (step_do po m (EntryOrInsert k d)) /\ assoc_pos k m' = Some i
  | _ => False
  end.
Proof. exact (@VaccSrc.vacc_map_prims_are_mapm). Qed.
Print Assumptions C18_map_prims_are_mapm.

